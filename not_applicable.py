NA["C04"] = "quantifies over goroutine interleavings (WaitGroup, channels); the contract engine has no concurrency semantics"
NA["C05"] = "relates Pause returning on one goroutine to a handler running on another; needs rely/guarantee reasoning over atomics/Cond, outside the contract subset"
NA["C32"] = "property of the event stream emitted by every tracing call site over whole runs with resets"
NA["C33"] = "two-run hyperproperty (with vs without observers) over programs"
