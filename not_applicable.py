NA["C04"] = "quantifies over goroutine interleavings (WaitGroup, channels); the contract engine has no concurrency semantics"
NA["C05"] = "relates Pause returning on one goroutine to a handler running on another; needs rely/guarantee reasoning over atomics/Cond, outside the contract subset"
