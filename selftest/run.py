#!/usr/bin/env python3
"""Must-fail self-test: applies each deliberate property-breaking edit (selftest/mutants/*.json) to a scratch
worktree of /repo, runs the property's check there and requires a VIOLATION naming the expected obligation;
'harmless' entries must exit 0.  Usage: run.py [name-substring ...]"""
import json, os, subprocess, sys, glob, shutil, time

WT = f"/tmp/akv_selftest_wt_{os.getpid()}"
def sh(*a, **k): return subprocess.run(a, capture_output=True, text=True, **k)

def main():
    filt = sys.argv[1:]
    muts = sorted(glob.glob("/verif/selftest/mutants/*.json"))
    if filt: muts = [m for m in muts if any(f in m for f in filt)]
    sh("git", "-C", "/repo", "worktree", "remove", "--force", WT)
    shutil.rmtree(WT, ignore_errors=True)
    r = sh("git", "-C", "/repo", "worktree", "add", "--detach", WT, "HEAD")
    if r.returncode != 0:
        print(r.stderr); sys.exit(2)
    bad = 0
    try:
        for m in muts:
            spec = json.load(open(m))
            name = os.path.basename(m)[:-5]
            ok_apply = True
            for ed in spec["edits"]:
                p = os.path.join(WT, ed["file"])
                s = open(p).read()
                if s.count(ed["old"]) != 1:
                    print(f"SELFTEST-BROKEN {name}: pattern occurs {s.count(ed['old'])} times in {ed['file']}")
                    ok_apply = False; break
                open(p, "w").write(s.replace(ed["old"], ed["new"]))
            if not ok_apply:
                bad += 1
                sh("git", "-C", WT, "checkout", "--", "."); continue
            t0 = time.time()
            env = dict(os.environ, AKVERIF_REPO=WT)
            r = sh("/verif/bin/akverif", "check", spec["property"], "--tier", "quick", "--no-evidence", env=env, cwd="/verif")
            dt = time.time() - t0
            out = r.stdout + r.stderr
            if spec.get("harmless"):
                good = r.returncode == 0
                want = "exit 0"
            else:
                viol = [l for l in out.splitlines() if l.startswith("VIOLATION")]
                good = r.returncode == 1 and any(spec.get("expect", "") in l for l in viol)
                want = "VIOLATION …" + spec.get("expect", "")
            tail = ""
            if not spec.get("harmless"):
                hits = [l for l in out.splitlines() if l.startswith("VIOLATION") and spec.get("expect", "") in l]
                if hits: tail = "  [" + hits[0].split()[-1] + "]"
            print(f"{'ok  ' if good else 'FAIL'} {name:45s} {dt:5.1f}s  want {want}; got exit {r.returncode}{tail}" + ("" if good else "\n" + out[-1500:]))
            if not good: bad += 1
            sh("git", "-C", WT, "checkout", "--", ".")
    finally:
        sh("git", "-C", "/repo", "worktree", "remove", "--force", WT)
        shutil.rmtree(WT, ignore_errors=True)
    print(f"selftest: {len(muts)-bad}/{len(muts)} as expected")
    sys.exit(1 if bad else 0)
main()
