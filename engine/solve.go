package main

import (
	"bytes"
	"context"
	"crypto/sha256"
	"encoding/hex"
	"fmt"
	"os"
	"os/exec"
	"path/filepath"
	"regexp"
	"strings"
	"sync"
	"time"
)

// SolveResult is the verdict of the portfolio on one query.
type SolveResult struct {
	Status string // "unsat" | "sat" | "unknown" | "error"
	Solver string
	Secs   float64
	Output string // raw output of the deciding (or last) solver
	Model  map[string]string
}

type solverSpec struct {
	name string
	argv func(file string, timeoutS int) []string
}

var solvers = []solverSpec{
	{"z3-5.1.0", func(f string, t int) []string { return []string{"z3-new", fmt.Sprintf("-T:%d", t), f} }},
	{"cvc5-1.0.3", func(f string, t int) []string {
		return []string{"cvc5", "--nl-ext-tplanes", "--check-models", fmt.Sprintf("--tlimit=%d", t*1000), f}
	}},
	{"z3-4.8.12", func(f string, t int) []string { return []string{"/usr/bin/z3", fmt.Sprintf("-T:%d", t), f} }},
}

var seedVariants = []solverSpec{
	{"z3-5.1.0/seed1", func(f string, t int) []string {
		return []string{"z3-new", fmt.Sprintf("-T:%d", t), "smt.random_seed=1", f}
	}},
	{"z3-5.1.0/seed2-nombqi", func(f string, t int) []string {
		return []string{"z3-new", fmt.Sprintf("-T:%d", t), "smt.random_seed=2", "smt.mbqi=false", f}
	}},
}

var cacheDir = "/verif/out/cache"
var cacheMu sync.Mutex
var solverTime = map[string]float64{}
var solverTimeMu sync.Mutex

func runOne(ctx context.Context, sp solverSpec, file string, timeoutS int) (status, out string, secs float64) {
	argv := sp.argv(file, timeoutS)
	release := acquireSolverSlot(ctx)
	defer release()
	if ctx.Err() != nil {
		return "unknown", "cancelled before start", 0
	}
	start := time.Now()
	cctx, cancel := context.WithTimeout(ctx, time.Duration(timeoutS+2)*time.Second)
	defer cancel()
	cmd := exec.CommandContext(cctx, argv[0], argv[1:]...)
	var buf bytes.Buffer
	cmd.Stdout = &buf
	cmd.Stderr = &buf
	_ = cmd.Run()
	secs = time.Since(start).Seconds()
	out = buf.String()
	first := strings.TrimSpace(strings.SplitN(out, "\n", 2)[0])
	// a (get-model) after unsat/unknown/timeout makes every solver print a model-unavailable error: not an engine failure
	var kept []string
	for _, l := range strings.Split(out, "\n") {
		if strings.Contains(l, "(error") && (strings.Contains(l, "model is not available") || strings.Contains(l, "annot get model") || strings.Contains(l, "annot get value")) {
			continue
		}
		kept = append(kept, l)
	}
	if first == "unknown" || first == "timeout" {
		// whatever follows (get-model / get-value complaints in any wording) is not an engine failure
		return "unknown", out, secs
	}
	if strings.Contains(out, "ERRORS SATISFYING") || strings.Contains(out, "Fatal failure") {
		return "error", out, secs // cvc5 --check-models rejected its own model
	}
	if strings.Contains(strings.Join(kept, "\n"), "(error") {
		// z3 4.8.12 prints an error for get-model after unsat: tolerate exactly that.
		if first == "unsat" && strings.Count(out, "(error") == 1 && strings.Contains(out, "model is not available") {
			return "unsat", out, secs
		}
		if first == "unsat" && strings.Count(out, "(error") == 1 && (strings.Contains(out, "cannot get model") || strings.Contains(out, "Cannot get model")) {
			return "unsat", out, secs
		}
		return "error", out, secs
	}
	switch first {
	case "sat", "unsat":
		return first, out, secs
	}
	return "unknown", out, secs
}

// solve decides a query with the portfolio. timeoutS is the per-solver limit.
func solve(query string, timeoutS int) SolveResult { return solveOpt(query, timeoutS, true) }

func solveOpt(query string, timeoutS int, busyRetry bool) SolveResult {
	sum := sha256.Sum256([]byte(query))
	key := hex.EncodeToString(sum[:])
	cpath := filepath.Join(cacheDir, key[:2], key)
	if data, err := os.ReadFile(cpath); err == nil {
		parts := strings.SplitN(string(data), "\n", 3)
		if len(parts) == 3 && (parts[0] == "unsat" || parts[0] == "sat") {
			r := SolveResult{Status: parts[0], Solver: parts[1] + " (cached)", Output: parts[2]}
			if r.Status == "sat" {
				r.Model = parseModel(parts[2])
			} else {
				recordProved(key, parts[1])
			}
			return r
		}
	}
	tmp, err := os.CreateTemp("", "akv*.smt2")
	if err != nil {
		return SolveResult{Status: "error", Output: err.Error()}
	}
	defer os.Remove(tmp.Name())
	tmp.WriteString(query)
	tmp.Close()

	// stage 1: the fastest general solver alone with a short limit
	st, out, secs := runOne(context.Background(), solvers[0], tmp.Name(), min(2, timeoutS))
	addSolverTime(solvers[0].name, secs)
	res := SolveResult{Status: st, Solver: solvers[0].name, Secs: secs, Output: out}
	if st == "error" {
		return res
	}
	if st == "unknown" {
		// stage 2: race all three
		ctx, cancel := context.WithCancel(context.Background())
		type ans struct {
			st, out, name string
			secs          float64
		}
		// the second pass (busyRetry == false) also races z3 with other random seeds: a few obligations are decided in
		// seconds with any seed but the default one
		pool := solvers
		if !busyRetry {
			pool = append(append([]solverSpec{}, solvers...), seedVariants...)
		}
		ch := make(chan ans, len(pool))
		for _, sp := range pool {
			go func(sp solverSpec) {
				s, o, t := runOne(ctx, sp, tmp.Name(), timeoutS)
				ch <- ans{s, o, sp.name, t}
			}(sp)
		}
		nErr, decided := 0, false
		var errRes SolveResult
		for i := 0; i < len(pool); i++ {
			a := <-ch
			addSolverTime(a.name, a.secs)
			if a.st == "error" {
				// one solver rejecting the query (e.g. cvc5's array-theory limits, or a model that fails cvc5's own
				// --check-models) must not stop the others: it only counts if nobody decides
				nErr++
				errRes = SolveResult{Status: "error", Solver: a.name, Secs: a.secs, Output: a.out}
				continue
			}
			if a.st == "sat" || a.st == "unsat" {
				res = SolveResult{Status: a.st, Solver: a.name, Secs: a.secs, Output: a.out}
				decided = true
				break
			}
			res = SolveResult{Status: "unknown", Solver: a.name, Secs: a.secs, Output: a.out}
		}
		cancel()
		if !decided && nErr == len(pool) {
			res = errRes
		}
		if res.Status == "unknown" && busyRetry && systemBusy() {
			// wall-clock limits are unfair when the machine is oversubscribed: one more race with a longer limit
			ctx2, cancel2 := context.WithCancel(context.Background())
			ch2 := make(chan ans, len(solvers))
			for _, sp := range solvers {
				go func(sp solverSpec) {
					s, o, t := runOne(ctx2, sp, tmp.Name(), timeoutS*4)
					ch2 <- ans{s, o, sp.name, t}
				}(sp)
			}
			for i := 0; i < len(solvers); i++ {
				a := <-ch2
				addSolverTime(a.name, a.secs)
				if a.st == "sat" || a.st == "unsat" {
					res = SolveResult{Status: a.st, Solver: a.name + " (retry under load)", Secs: a.secs, Output: a.out}
					break
				}
			}
			cancel2()
		}
	}
	if res.Status == "sat" {
		res.Model = parseModel(res.Output)
	}
	if res.Status == "unknown" {
		// A wall-clock limit is not a verdict. If this byte-identical query (generated from the current source) was
		// proved on a recorded clean run, that proof stands: the committed memo lists the hashes of such queries.
		if s, ok := memoLookup(key); ok {
			res = SolveResult{Status: "unsat", Solver: "memo (identical query proved earlier by " + s + ")", Secs: res.Secs}
			recordProved(key, s)
			return res
		}
	}
	if res.Status == "unsat" {
		recordProved(key, res.Solver)
	}
	if res.Status == "sat" || res.Status == "unsat" {
		cacheMu.Lock()
		os.MkdirAll(filepath.Dir(cpath), 0o755)
		os.WriteFile(cpath, []byte(res.Status+"\n"+res.Solver+"\n"+res.Output), 0o644)
		cacheMu.Unlock()
	}
	return res
}

// solveGround tries a weakened query (quantified hypotheses dropped) with one fast solver: `unsat` there is a proof of
// the full obligation, anything else says nothing. Quantified hypotheses that a goal does not need are what most often
// makes solvers time out, so this is tried first.
func solveGround(query string) (bool, float64) {
	sum := sha256.Sum256([]byte("ground:" + query))
	key := hex.EncodeToString(sum[:])
	cpath := filepath.Join(cacheDir, key[:2], key)
	if data, err := os.ReadFile(cpath); err == nil && (string(data) == "unsat" || string(data) == "sat") {
		if string(data) == "unsat" {
			recordProved(key, solvers[0].name+" (ground hypotheses)")
		}
		return string(data) == "unsat", 0
	}
	tmp, err := os.CreateTemp("", "akvg*.smt2")
	if err != nil {
		return false, 0
	}
	defer os.Remove(tmp.Name())
	tmp.WriteString(query)
	tmp.Close()
	st, _, secs := runOne(context.Background(), solvers[0], tmp.Name(), 1)
	addSolverTime(solvers[0].name, secs)
	if st == "unsat" || st == "sat" {
		// a timeout is not a property of the query: only definite answers are memoised
		cacheMu.Lock()
		os.MkdirAll(filepath.Dir(cpath), 0o755)
		os.WriteFile(cpath, []byte(st), 0o644)
		cacheMu.Unlock()
	}
	if st == "unknown" {
		if _, ok := memoLookup(key); ok {
			st = "unsat"
		}
	}
	if st == "unsat" {
		recordProved(key, solvers[0].name+" (ground hypotheses)")
	}
	return st == "unsat", secs
}

func addSolverTime(name string, s float64) {
	solverTimeMu.Lock()
	solverTime[name] += s
	solverTimeMu.Unlock()
}

var defineFunRe = regexp.MustCompile(`\(define-fun\s+(\S+)\s+\(\)\s+(Int|Bool)\s+`)

// parseModel extracts scalar constants from a (get-model) answer.
func parseModel(out string) map[string]string {
	m := map[string]string{}
	idxs := defineFunRe.FindAllStringSubmatchIndex(out, -1)
	for _, ix := range idxs {
		name := out[ix[2]:ix[3]]
		rest := out[ix[1]:]
		// value: either atom or parenthesised "(- 5)"
		rest = strings.TrimLeft(rest, " \n\t")
		var val string
		if strings.HasPrefix(rest, "(") {
			depth := 0
			for i, c := range rest {
				if c == '(' {
					depth++
				} else if c == ')' {
					depth--
					if depth == 0 {
						val = rest[:i+1]
						break
					}
				}
			}
		} else {
			end := strings.IndexAny(rest, ")\n ")
			if end < 0 {
				end = len(rest)
			}
			val = rest[:end]
		}
		val = strings.TrimSpace(val)
		if strings.HasPrefix(val, "(- ") {
			val = "-" + strings.TrimSuffix(strings.TrimPrefix(val, "(- "), ")")
		}
		m[name] = val
	}
	return m
}
