package main

import (
	"fmt"
	"go/types"
	"os"
	"path/filepath"
	"sort"
	"strings"

	"golang.org/x/tools/go/ssa"
)

const modulePath = "github.com/sarchlab/akita/v5"

var contractsDir = "/verif/contracts"

// isContractFile: zz_contracts_verif.go and zz_contracts_<part>_verif.go
func isContractFile(base string) bool {
	return strings.HasPrefix(base, "zz_contracts") && strings.HasSuffix(base, "_verif.go")
}

// SpecDB holds every contract file.
type SpecDB struct {
	files  map[string]*ContractFile // by import path
	ext    map[string]*FnSpec       // "pkgpath.funcKey" -> ext spec
	extCF  map[string]*ContractFile
	iface  map[string]*FnSpec // "pkgname.Type.Method"
	ifCF   map[string]*ContractFile
	ufs    map[string]Sort
	mirror []string // notes about /repo mirror state
	local  map[string]*FnSpec // "<pkg>|ext <key>" / "<pkg>|iface <key>": a package's own declarations (preferred for its calls)
	conflicts map[string]string // "ext <key>" / "iface <key>" -> description of a conflicting duplicate declaration
}

func loadSpecDB() (*SpecDB, error) {
	db := &SpecDB{files: map[string]*ContractFile{}, ext: map[string]*FnSpec{}, extCF: map[string]*ContractFile{},
		iface: map[string]*FnSpec{}, ifCF: map[string]*ContractFile{}, ufs: map[string]Sort{}, conflicts: map[string]string{}}
	var paths []string
	filepath.Walk(contractsDir, func(p string, info os.FileInfo, err error) error {
		if err == nil && !info.IsDir() && isContractFile(filepath.Base(p)) {
			paths = append(paths, p)
		}
		return nil
	})
	sort.Strings(paths)
	relOf := func(p string) string {
		rel, _ := filepath.Rel(contractsDir, filepath.Dir(p))
		return filepath.ToSlash(rel)
	}
	sort.SliceStable(paths, func(i, j int) bool { return providerRank(relOf(paths[i])) < providerRank(relOf(paths[j])) })
	for _, p := range paths {
		rel, _ := filepath.Rel(contractsDir, filepath.Dir(p))
		pkg := modulePath + "/" + filepath.ToSlash(rel)
		if rel == "." {
			pkg = modulePath
		}
		cf, err := parseContractFile(p, pkg)
		if err != nil {
			return nil, err
		}
		if prev, ok := db.files[pkg]; ok {
			// several contract files of one package are merged
			for k, d := range cf.Defs {
				if _, dup := prev.Defs[k]; dup {
					return nil, fmt.Errorf("%s: definition %s already given in another contract file of %s", p, k, rel)
				}
				prev.Defs[k] = d
			}
			for _, k := range cf.Order {
				if _, dup := prev.Fns[k]; dup {
					return nil, fmt.Errorf("%s: contract %s already given in another contract file of %s", p, k, rel)
				}
				prev.Fns[k] = cf.Fns[k]
				prev.Order = append(prev.Order, k)
			}
			for k, g := range cf.Ghosts {
				prev.Ghosts[k] = g
			}
			for k, u := range cf.UFuncs {
				if prev.UFuncs == nil {
					prev.UFuncs = map[string]Sort{}
				}
				prev.UFuncs[k] = u
			}
			raw := cf.Raw
			cf = prev
			cf.Raw = raw
		} else {
			db.files[pkg] = cf
		}
		contractFileName := filepath.Base(p)
		for k, s := range cf.Fns {
			// a package's own ext/iface declarations take precedence for calls made from that package
			if s.Kind == "ext" || s.Kind == "iface" {
				if db.local == nil {
					db.local = map[string]*FnSpec{}
				}
				db.local[pkg+"|"+s.Kind+" "+s.Key] = s
			}
			// The global table serves packages that have no declaration of their own. The first declaration wins (files of
			// the shared providers are loaded first, see providerRank): the text of an identical later copy may still mean
			// something else (its ufuncs and ghosts belong to its own package), so it must not replace the earlier one.
			switch s.Kind {
			case "ext":
				if old, dup := db.ext[s.Key]; dup && old != s {
					// differing declarations of one external function are each a trusted assumption about it: packages
					// without their own declaration get the first one in load order (deterministic; named in the evidence)
					continue
				}
				db.ext[s.Key] = s
				db.extCF[s.Key] = cf
			case "iface":
				if old, dup := db.iface[s.Key]; dup && old != s {
					continue
				}
				db.iface[s.Key] = s
				db.ifCF[s.Key] = cf
			}
			_ = k
		}
		// mirror check
		mp := filepath.Join(repoDir, filepath.FromSlash(rel), contractFileName)
		if data, err := os.ReadFile(mp); err != nil {
			db.mirror = append(db.mirror, "contract file "+rel+"/"+contractFileName+" not present in /repo (master copy in /verif/contracts used)")
		} else if string(data) != cf.Raw {
			db.mirror = append(db.mirror, "contract file "+rel+"/"+contractFileName+" in /repo differs from the master copy (master used)")
		}
	}
	return db, nil
}

func (db *SpecDB) byShortName(name string) *ContractFile {
	for p, cf := range db.files {
		if p == name || strings.HasSuffix(p, "/"+name) {
			return cf
		}
	}
	return nil
}

// fnSpecFor is fnSpec for a call made from callerPkg: a caller in another package that declares (or shares) an `ext`
// summary of the callee keeps using that trusted summary even when the callee's own package has a verified `fn` contract
// (the two may speak about different ghosts); inside the callee's package the verified contract is used.
func (db *SpecDB) fnSpecFor(fn *ssa.Function, callerPkg string) (*FnSpec, *ContractFile) {
	return db.fnSpecOpt(fn, callerPkg)
}

func (db *SpecDB) fnSpec(fn *ssa.Function) (*FnSpec, *ContractFile) { return db.fnSpecOpt(fn, "") }

func (db *SpecDB) fnSpecOpt(fn *ssa.Function, callerPkg string) (*FnSpec, *ContractFile) {
	org := fn
	if fn.Origin() != nil {
		org = fn.Origin()
	}
	var pkgPath string
	if org.Pkg != nil {
		pkgPath = org.Pkg.Pkg.Path()
	} else if org.Signature.Recv() != nil {
		if n := namedOf(org.Signature.Recv().Type()); n != nil && n.Obj().Pkg() != nil {
			pkgPath = n.Obj().Pkg().Path()
		}
	}
	key := funcKey(org)
	if callerPkg != "" {
		for _, k := range []string{pkgPath + "." + key, shortPkg(pkgPath) + "." + key} {
			if s, ok := db.local[callerPkg+"|ext "+k]; ok {
				return s, db.files[callerPkg]
			}
		}
	}
	if callerPkg != "" && callerPkg != pkgPath {
		for _, k := range []string{pkgPath + "." + key, shortPkg(pkgPath) + "." + key} {
			if _, bad := db.conflicts["ext "+k]; bad {
				continue
			}
			if s, ok := db.ext[k]; ok {
				return s, db.extCF[k]
			}
		}
	}
	if cf, ok := db.files[pkgPath]; ok {
		if s, ok := cf.Fns[key]; ok {
			return s, cf
		}
	}
	full := pkgPath + "." + key
	if msg, bad := db.conflicts["ext "+full]; bad {
		unsup("conflicting contracts: %s", msg)
	}
	if msg, bad := db.conflicts["ext "+shortPkg(pkgPath)+"."+key]; bad {
		unsup("conflicting contracts: %s", msg)
	}
	if s, ok := db.ext[full]; ok {
		return s, db.extCF[full]
	}
	if s, ok := db.ext[shortPkg(pkgPath)+"."+key]; ok {
		return s, db.extCF[shortPkg(pkgPath)+"."+key]
	}
	return nil, nil
}

func namedOf(t types.Type) *types.Named {
	if p, ok := t.(*types.Pointer); ok {
		t = p.Elem()
	}
	n, _ := types.Unalias(t).(*types.Named)
	return n
}

func (db *SpecDB) ifaceSpec(t types.Type, method string, callerPkg string) (*FnSpec, *ContractFile) {
	if tp, ok := types.Unalias(t).(*types.TypeParam); ok {
		// a method call on a value of type-parameter type: the contract is the one of the constraint interface
		t = tp.Constraint()
	}
	n := namedOf(t)
	if n == nil || n.Obj().Pkg() == nil {
		return nil, nil
	}
	key := n.Obj().Pkg().Name() + "." + n.Obj().Name() + "." + method
	if s, ok := db.local[callerPkg+"|iface "+key]; ok {
		return s, db.files[callerPkg]
	}
	if msg, bad := db.conflicts["iface "+key]; bad {
		unsup("conflicting contracts: %s", msg)
	}
	if s, ok := db.iface[key]; ok {
		return s, db.ifCF[key]
	}
	return nil, nil
}

// specsForProperty lists fn/lemma specs tagged with the property id.
func (db *SpecDB) specsForProperty(id string) []*FnSpec {
	var out []*FnSpec
	var pkgs []string
	for p := range db.files {
		pkgs = append(pkgs, p)
	}
	sort.Strings(pkgs)
	for _, p := range pkgs {
		cf := db.files[p]
		for _, k := range cf.Order {
			s := cf.Fns[k]
			for _, pr := range s.Props {
				if pr == id {
					out = append(out, s)
				}
			}
		}
	}
	return out
}

func (db *SpecDB) allProperties() []string {
	set := map[string]bool{}
	for _, cf := range db.files {
		for _, s := range cf.Fns {
			for _, p := range s.Props {
				set[p] = true
			}
		}
	}
	return sortedStrings(set)
}

func (s *FnSpec) fullName() string {
	switch s.Kind {
	case "fn":
		return shortPkg(s.Pkg) + "." + s.Key
	}
	return s.Kind + " " + s.Key
}

func (s *FnSpec) String() string { return fmt.Sprintf("%s %s", s.Kind, s.Key) }
