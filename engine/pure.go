package main

import (
	"fmt"
	"go/types"

	"golang.org/x/tools/go/ssa"
)

// pureCtx collects what a side-effect-free closure evaluation needs to stay safe (index bounds, nil checks).
type pureCtx struct {
	safe []Term // each: pathCondition ⇒ condition
}

// pureEval evaluates a closure (or function without side effects) on symbolic arguments in the heap of st and
// returns its result as a value; branches are merged with ite. The state is not modified. Conditions that the
// body needs in order not to panic are returned so that the caller can make them an obligation.
func (ex *Exec) pureEval(st *State, f Fn, args []Value) (Value, Term) {
	fn := f.Fn
	if len(fn.Blocks) == 0 {
		unsup("pure evaluation of %s: no body", fn.Name())
	}
	s2 := st.clone()
	s2.asm = nil // assumptions made inside (path conditions) are tracked separately
	s2.regs = map[ssa.Value]Value{}
	s2.locals = map[*ssa.Alloc]Value{}
	for i, p := range fn.Params {
		s2.regs[p] = args[i]
	}
	for i, fv := range fn.FreeVars {
		s2.regs[fv] = f.Bindings[i]
	}
	saved := ex.pure
	savedFn, savedSpec := ex.fn, ex.spec
	ex.pure = &pureCtx{}
	defer func() { ex.pure = saved; ex.fn, ex.spec = savedFn, savedSpec }()
	var rt types.Type
	if fn.Signature.Results().Len() == 1 {
		rt = fn.Signature.Results().At(0).Type()
	} else {
		unsup("pure evaluation of %s: needs exactly one result", fn.Name())
	}
	res := ex.pureBlock(s2, fn.Blocks[0], rt, tTrue, 0)
	return res, tAnd(ex.pure.safe...)
}

func (ex *Exec) pureBlock(st *State, b *ssa.BasicBlock, rt types.Type, pc Term, depth int) Value {
	if depth > 64 {
		unsup("pure evaluation too deep (loop in a pure closure?)")
	}
	ex.purePC = pc
	for _, in := range b.Instrs {
		switch x := in.(type) {
		case *ssa.If:
			c := st.scalar(x.Cond)
			s1, s2 := st.clone(), st.clone()
			s1.cameFrom, s2.cameFrom = b, b
			a := ex.pureBlock(s1, b.Succs[0], rt, tAnd(pc, c), depth+1)
			bb := ex.pureBlock(s2, b.Succs[1], rt, tAnd(pc, tNot(c)), depth+1)
			return iteValue(rt, c, a, bb)
		case *ssa.Jump:
			st.cameFrom = b
			return ex.pureBlock(st, b.Succs[0], rt, pc, depth+1)
		case *ssa.Return:
			return st.val(x.Results[0])
		case *ssa.Panic:
			ex.pure.safe = append(ex.pure.safe, tNot(pc))
			return zeroValue(rt)
		case *ssa.Store:
			if _, isLoc := st.val(x.Addr).(Loc); !isLoc {
				unsup("store through a pointer in a pure closure")
			}
			l := st.val(x.Addr).(Loc)
			if l.Alloc == nil {
				unsup("heap store in a pure closure")
			}
			st.store(l, st.val(x.Val))
		case *ssa.Call:
			if bi, ok := x.Call.Value.(*ssa.Builtin); ok && (bi.Name() == "len" || bi.Name() == "cap" || bi.Name() == "ssa:deferstack" || bi.Name() == "min" || bi.Name() == "max") {
				st.regs[x] = ex.builtin(st, x, bi, &x.Call)
				continue
			}
			if v, ok := ex.pureContractCall(st, x, pc); ok {
				st.regs[x] = v
				continue
			}
			unsup("call to %s inside a pure closure", x.Call.Value.Name())
		case *ssa.RunDefers, *ssa.DebugRef:
		case *ssa.MapUpdate, *ssa.Defer, *ssa.Go, *ssa.Send:
			unsup("side effect (%T) in a pure closure", in)
		default:
			if ex.step(st, in) {
				return zeroValue(rt)
			}
		}
	}
	unsup("pure evaluation fell off block %d", b.Index)
	return nil
}

// sortSearch models sort.Search(n, f) with f a side-effect-free closure (TRUSTED contract of the standard
// library): if f is monotone on [0,n) the result r is in [0,n], f is false below r and true at r when r < n.
// Monotonicity and panic-freedom of f on [0,n) are obligations at the call site.
func (ex *Exec) sortSearch(st *State, in ssa.Instruction, n Term, fv Value) Value {
	f, ok := fv.(Fn)
	if !ok {
		unsup("sort.Search with a non-literal function")
	}
	ex.note("trusted contract: sort.Search(n, f) returns the least index with f true when f is monotone (f evaluated as a pure closure)")
	j := Term{"j!ss", SInt}
	k := Term{"k!ss", SInt}
	fj, safeJ := ex.pureEval(st, f, []Value{Sc{j}})
	fk, _ := ex.pureEval(st, f, []Value{Sc{k}})
	fjT, fkT := asSc(fj, nil).T, asSc(fk, nil).T
	inJ := tAnd(tLe(intLit(0), j), tLt(j, n))
	if ex.discover == nil && !ex.spec.PanicsAny {
		ord := ex.callOrd[in]
		st.oblige(ex.obName(fmt.Sprintf("call%d.sort.Search.safe", ord)), "requires",
			Term{fmt.Sprintf("(forall ((j!ss Int)) %s)", tImp(inJ, safeJ).S), SBool}, "the predicate passed to sort.Search cannot panic on [0,n)")
		mono := tImp(tAnd(tLe(intLit(0), j), tLe(j, k), tLt(k, n), fjT), fkT)
		st.oblige(ex.obName(fmt.Sprintf("call%d.sort.Search.monotone", ord)), "requires",
			Term{fmt.Sprintf("(forall ((j!ss Int) (k!ss Int)) %s)", mono.S), SBool}, "the predicate passed to sort.Search is monotone on [0,n)")
	}
	r := ex.ctx.Fresh("search", SInt)
	st.assume(tAnd(tLe(intLit(0), r), tLe(r, n)))
	st.assume(Term{fmt.Sprintf("(forall ((j!ss Int)) %s)", tImp(tAnd(tLe(intLit(0), j), tLt(j, r)), tNot(fjT)).S), SBool})
	fr, _ := ex.pureEval(st, f, []Value{Sc{r}})
	st.assume(tImp(tLt(r, n), asSc(fr, nil).T))
	return Sc{r}
}
