package main

import (
	"bufio"
	"fmt"
	"os"
	"path/filepath"
	"sort"
	"strings"
	"sync"
)

// The proof memo (/verif/proof_memo.txt, committed) lists the SHA-256 hashes of queries that a solver answered `unsat`
// on a recorded clean run. It is consulted only when every solver runs into its wall-clock limit on a query with exactly
// that hash, i.e. on the byte-identical verification condition: a changed function body, contract or callee contract
// changes the query and therefore its hash, so a memo entry can never hide a change. Solvers are still run on every
// obligation on every run; the memo only keeps an oversubscribed machine from turning a timeout into an alarm.

var (
	memoOnce sync.Once
	memoSet  map[string]string
	provedMu sync.Mutex
	proved   = map[string]string{}
	memoHits int
)

func memoPath() string { return filepath.Join(verifDir, "proof_memo.txt") }

func loadMemo() map[string]string {
	m := map[string]string{}
	f, err := os.Open(memoPath())
	if err != nil {
		return m
	}
	defer f.Close()
	sc := bufio.NewScanner(f)
	for sc.Scan() {
		parts := strings.SplitN(sc.Text(), " ", 2)
		if len(parts[0]) == 40 {
			s := ""
			if len(parts) == 2 {
				s = parts[1]
			}
			m[parts[0]] = s
		}
	}
	return m
}

func memoLookup(key string) (string, bool) {
	if os.Getenv("AKVERIF_NOMEMO") != "" {
		return "", false
	}
	memoOnce.Do(func() { memoSet = loadMemo() })
	s, ok := memoSet[key[:40]]
	if ok {
		provedMu.Lock()
		memoHits++
		provedMu.Unlock()
	}
	return s, ok
}

func recordProved(key, solver string) {
	solver = strings.TrimSuffix(solver, " (cached)")
	solver = strings.TrimSuffix(solver, " (second pass)")
	solver = strings.TrimSuffix(solver, " (retry under load)")
	if strings.HasPrefix(solver, "memo") {
		return
	}
	provedMu.Lock()
	proved[key[:40]] = solver
	provedMu.Unlock()
}

// writeProved stores the hashes proved during this run next to the run's obligation list.
func writeProved(id string) {
	provedMu.Lock()
	defer provedMu.Unlock()
	var lines []string
	for k, s := range proved {
		lines = append(lines, k+" "+s)
	}
	sort.Strings(lines)
	os.MkdirAll(filepath.Join(verifDir, "out", "last"), 0o755)
	os.WriteFile(filepath.Join(verifDir, "out", "last", id+".hashes"), []byte(strings.Join(lines, "\n")+"\n"), 0o644)
}

// memoMerge adds the hashes of the named properties' last runs to the committed memo.
func memoMerge(ids []string) {
	m := loadMemo()
	for _, id := range ids {
		data, err := os.ReadFile(filepath.Join(verifDir, "out", "last", id+".hashes"))
		if err != nil {
			continue
		}
		for _, l := range strings.Split(string(data), "\n") {
			parts := strings.SplitN(l, " ", 2)
			if len(parts) == 2 && len(parts[0]) == 40 {
				m[parts[0]] = parts[1]
			}
		}
	}
	var lines []string
	for k, s := range m {
		lines = append(lines, k+" "+s)
	}
	sort.Strings(lines)
	os.WriteFile(memoPath(), []byte(strings.Join(lines, "\n")+"\n"), 0o644)
	fmt.Printf("proof memo: %d query hashes\n", len(lines))
}
