package main

import (
	"bufio"
	"encoding/json"
	"fmt"
	"os"
	"path/filepath"
	"sort"
	"strconv"
	"strings"
)

type knownFinding struct {
	Property   string
	Obligation string
	When       string
	What       string
}

func loadKnownFindings(id string) []knownFinding {
	f, err := os.Open(filepath.Join(verifDir, "known_findings.txt"))
	if err != nil {
		return nil
	}
	defer f.Close()
	var out []knownFinding
	sc := bufio.NewScanner(f)
	for sc.Scan() {
		line := strings.TrimSpace(sc.Text())
		if !strings.HasPrefix(line, "KNOWN-FINDING ") {
			continue
		}
		rest := strings.TrimPrefix(line, "KNOWN-FINDING ")
		what := ""
		if i := strings.Index(rest, " :: "); i >= 0 {
			what = strings.TrimSpace(rest[i+4:])
			rest = rest[:i]
		}
		kf := knownFinding{What: what}
		// fields: property=.. obligation=.. when=<rest of line>
		if i := strings.Index(rest, " when="); i >= 0 {
			kf.When = strings.TrimSpace(rest[i+6:])
			rest = rest[:i]
		}
		for _, f := range strings.Fields(rest) {
			if strings.HasPrefix(f, "property=") {
				kf.Property = strings.TrimPrefix(f, "property=")
			}
			if strings.HasPrefix(f, "obligation=") {
				kf.Obligation = strings.TrimPrefix(f, "obligation=")
			}
		}
		if kf.Property == id || id == "" {
			out = append(out, kf)
		}
	}
	return out
}

// prepareKnownFindings evaluates the "when" conditions of findings that concern this function.
func (ex *Exec) prepareKnownFindings() {
	ex.whens = map[string][]Term{}
	prefix := ex.obName("")
	for _, kf := range ex.kf {
		if !strings.HasPrefix(kf.Obligation, prefix) {
			continue
		}
		e, err := parseSpecExpr(kf.When)
		if err != nil {
			panic(specErr{"known_findings.txt: " + err.Error()})
		}
		t := ex.fnEnv(ex.entry, ex.entry).evalBool(e)
		ex.whens[kf.Obligation] = append(ex.whens[kf.Obligation], t)
	}
}

type evidence struct {
	PropertyID  string                 `json:"property_id"`
	Tier        string                 `json:"tier"`
	Seed        int                    `json:"seed"`
	Level       string                 `json:"level"`
	Coverage    map[string]interface{} `json:"coverage"`
	Assumptions []string               `json:"assumptions"`
	WallS       float64                `json:"wall_s"`
	Violations  int                    `json:"violations"`
}

func (run *checkRun) report(obres []*ObResult, undecided []string, wall float64) int {
	id := run.id
	ledger := loadLedger()
	// Obligation names carry call ordinals and source line numbers (`#call11.…`, `safe.index.110`), which shift when code
	// is edited: an obligation of changed code is looked up by its exact name first and then with those numbers removed.
	for k, v := range ledger {
		if nk := normObName(k); nk != k {
			if _, dup := ledger[nk]; !dup {
				ledger[nk] = v
			}
		}
	}
	outDir := filepath.Join(verifDir, "out", id)
	os.MkdirAll(outDir, 0o755)
	violations := 0
	exit := 0
	discharged, total := 0, 0
	covers := 0
	var lines []string
	kfByOb := map[string][]knownFinding{}
	for _, kf := range run.kf {
		kfByOb[kf.Obligation] = append(kfByOb[kf.Obligation], kf)
	}
	bySolver := map[string]int{}
	for _, o := range obres {
		if o.Kind == "cover" {
			covers++
			switch o.Status {
			case "cover-ok":
			case "cover-failed":
				lines = append(lines, fmt.Sprintf("UNDECIDED property=%s reason=vacuous hypotheses: %s is unsatisfiable", id, o.Name))
				exit = max(exit, 2)
			default:
				// unknown cover: not a failure of the property; note it
				o.Detail = "cover query undecided"
			}
			continue
		}
		total++
		switch o.Status {
		case "discharged":
			discharged++
			bySolver[strings.TrimSuffix(o.Solver, " (cached)")]++
			if kfs := kfByOb[o.Name]; len(kfs) > 0 {
				o.Status = "known-finding"
				for _, kf := range kfs {
					lines = append(lines, fmt.Sprintf("KNOWN-FINDING: property=%s %s [%s fails when %s; proved for all other inputs]", id, kf.What, o.Name, kf.When))
				}
			}
		case "failed":
			violations++
			path := run.writeReplay(outDir, o, "counterexample")
			suffix := run.tryReplay(o, path)
			lines = append(lines, fmt.Sprintf("VIOLATION property=%s replay=%s obligation=%s %s", id, path, o.Name, suffix))
			exit = max(exit, 1)
		case "unknown":
			le, ok := ledger[o.Name]
			if !ok {
				le, ok = ledger[normObName(o.Name)]
			}
			if ok && (le.Status == "discharged" || le.Status == "known-finding") {
				violations++
				path := run.writeReplay(outDir, o, "undischarged (was discharged by "+le.Solver+" on the baseline)")
				suffix := run.tryReplay(o, path) // only templates that search a small scope themselves run without a model
				lines = append(lines, fmt.Sprintf("VIOLATION property=%s replay=%s obligation=%s %s", id, path, o.Name, suffix))
				exit = max(exit, 1)
			} else {
				lines = append(lines, fmt.Sprintf("UNDECIDED property=%s reason=obligation %s not decided by any solver (not in the baseline ledger)", id, o.Name))
				exit = max(exit, 2)
			}
		case "error":
			lines = append(lines, fmt.Sprintf("UNDECIDED property=%s reason=solver error on %s: %s", id, o.Name, firstLine(o.output)))
			exit = max(exit, 2)
		}
	}
	for _, u := range undecided {
		lines = append(lines, fmt.Sprintf("UNDECIDED property=%s reason=%s", id, u))
		exit = max(exit, 2)
	}
	if violations > 0 {
		exit = 1 // a violation is reported as such even when other obligations stayed undecided
	}
	for _, l := range lines {
		fmt.Println(l)
	}
	// summary
	var fnNames []string
	var assumptions []string
	aset := map[string]bool{}
	var boundedNotes []string
	trusted := map[string]bool{}
	for _, fr := range run.results {
		fnNames = append(fnNames, fr.spec.fullName())
		for _, n := range fr.notes {
			if !aset[n] {
				aset[n] = true
				assumptions = append(assumptions, n)
			}
		}
		for _, u := range fr.used {
			if s := run.lookupUsed(u); s != nil && (s.Trusted || s.Kind != "fn") {
				trusted[s.Kind+" "+u] = true
			}
		}
		if fr.bounded != "" {
			boundedNotes = append(boundedNotes, fr.spec.fullName()+": "+fr.bounded)
		}
	}
	for _, m := range run.db.mirror {
		assumptions = append(assumptions, m)
	}
	assumptions = append(assumptions, globalAssumptions...)
	if memoHits > 0 {
		assumptions = append(assumptions, fmt.Sprintf("%d solver queries hit the wall-clock limit in this run and were accepted because the byte-identical query (same SHA-256) was proved unsat on a recorded clean run (proof_memo.txt)", memoHits))
	}
	var samples []map[string]interface{}
	for _, o := range obres {
		if len(samples) < 6 && o.Kind != "cover" && o.Kind != "safe" && o.Kind != "frame" {
			samples = append(samples, map[string]interface{}{"obligation": o.Name, "kind": o.Kind, "goal": o.Desc, "status": o.Status, "solver": o.Solver, "secs": round3(o.Secs)})
		}
	}
	if len(samples) == 0 {
		for _, o := range obres {
			if len(samples) < 3 {
				samples = append(samples, map[string]interface{}{"obligation": o.Name, "kind": o.Kind, "goal": o.Desc, "status": o.Status})
			}
		}
	}
	tb := []string{"z3 5.1.0 / cvc5 1.0.3 / z3 4.8.12 (portfolio; first definite answer)", "akverif VC generator: go/ssa NaiveForm semantics of DESIGN.md §2"}
	for _, t := range sortedStrings(trusted) {
		tb = append(tb, "trusted contract: "+t)
	}
	solverSecs := map[string]float64{}
	solverTimeMu.Lock()
	for k, v := range solverTime {
		solverSecs[k] = round3(v)
	}
	solverTimeMu.Unlock()
	obList := make([]map[string]interface{}, 0, len(obres))
	for _, o := range obres {
		obList = append(obList, map[string]interface{}{"name": o.Name, "kind": o.Kind, "status": o.Status, "instances": o.Instances, "solver": o.Solver, "secs": round3(o.Secs)})
	}
	level := "proof"
	cov := map[string]interface{}{
		"obligations":              total,
		"discharged":               discharged,
		"checker_cmd":              fmt.Sprintf("/verif/bin/akverif check %s --tier %s", id, run.tier),
		"trusted_base":             tb,
		"functions_under_contract": fnNames,
		"vacuity_covers":           covers,
		"by_solver":                bySolver,
		"solver_time_s":            solverSecs,
		"samples":                  samples,
		"obligation_list":          obList,
		"undecided":                undecided,
		"bounded":                  boundedNotes,
	}
	if total == 0 {
		level = "other"
		cov["explanation"] = "no obligations generated (see undecided)"
	}
	ev := evidence{PropertyID: id, Tier: run.tier, Seed: seedFromEnv(), Level: level, Coverage: cov, Assumptions: assumptions, WallS: round3(wall), Violations: violations}
	if !run.noEvidence {
		data, _ := json.MarshalIndent(ev, "", " ")
		os.MkdirAll(filepath.Join(verifDir, "evidence"), 0o755)
		os.WriteFile(filepath.Join(verifDir, "evidence", id+".json"), append(data, '\n'), 0o644)
		// last results for ledger-update
		os.MkdirAll(filepath.Join(verifDir, "out", "last"), 0o755)
		ld, _ := json.MarshalIndent(obres, "", " ")
		os.WriteFile(filepath.Join(verifDir, "out", "last", id+".json"), ld, 0o644)
		writeProved(id)
	}
	fmt.Printf("property %s: %d/%d obligations discharged over %d functions, %d violations, %.1fs\n", id, discharged, total, len(fnNames), violations, wall)
	if run.verbose {
		for _, o := range obres {
			if o.Status != "discharged" && o.Status != "cover-ok" {
				fmt.Printf("   %-14s %s  (%s)\n", o.Status, o.Name, o.Desc)
			}
		}
	}
	return exit
}

var globalAssumptions = []string{
	"engine semantics of go/ssa NaiveForm (DESIGN.md §2) are trusted; integers are mathematical Int with explicit wrap-around per Go type",
	"solver soundness (three independent solvers)",
	"termination is not proved unless a decreases clause is present",
	"sync.Mutex operations are treated sequentially; no goroutine interleavings are modelled",
}

func (run *checkRun) lookupUsed(name string) *FnSpec {
	if s := run.findSpecByName(name); s != nil {
		return s
	}
	for k, s := range run.db.ext {
		if strings.HasSuffix(name, k) || name == shortPkg(k) {
			return s
		}
	}
	for k, s := range run.db.iface {
		if k == name {
			return s
		}
	}
	return nil
}

func seedFromEnv() int {
	n, _ := strconv.Atoi(os.Getenv("VERIF_SEED"))
	return n
}

func round3(f float64) float64 { return float64(int(f*1000+0.5)) / 1000 }

func firstLine(s string) string {
	for _, l := range strings.Split(s, "\n") {
		if strings.Contains(l, "(error") {
			return l
		}
	}
	return strings.SplitN(s, "\n", 2)[0]
}

type replayFile struct {
	Property   string            `json:"property"`
	Obligation string            `json:"obligation"`
	Function   string            `json:"function"`
	Kind       string            `json:"kind"`
	Goal       string            `json:"goal"`
	Verdict    string            `json:"verdict"`
	Solver     string            `json:"solver"`
	Inputs     map[string]string `json:"inputs,omitempty"`
	Model      map[string]string `json:"model,omitempty"`
	Output     string            `json:"solver_output"`
	QueryFile  string            `json:"query_file"`
	Replay     string            `json:"replay,omitempty"`
}

func (run *checkRun) writeReplay(outDir string, o *ObResult, verdict string) string {
	base := sanitize(o.Name)
	qf := filepath.Join(outDir, base+".smt2")
	os.WriteFile(qf, []byte(o.query), 0o644)
	rf := replayFile{Property: run.id, Obligation: o.Name, Function: o.fn, Kind: o.Kind, Goal: o.Desc, Verdict: verdict, Solver: o.Solver,
		Output: truncate(o.output, 4000), QueryFile: qf, Inputs: map[string]string{}, Model: map[string]string{}}
	keys := make([]string, 0, len(o.model))
	for k := range o.model {
		keys = append(keys, k)
	}
	sort.Strings(keys)
	for _, k := range keys {
		if strings.HasPrefix(k, "p_") {
			rf.Inputs[strings.TrimPrefix(k, "p_")] = o.model[k]
		} else if len(rf.Model) < 200 {
			rf.Model[k] = o.model[k]
		}
	}
	for k, v := range o.inputs {
		rf.Inputs[k] = v
	}
	path := filepath.Join(outDir, base+".json")
	data, _ := json.MarshalIndent(rf, "", " ")
	os.WriteFile(path, append(data, '\n'), 0o644)
	return path
}

func truncate(s string, n int) string {
	if len(s) > n {
		return s[:n] + "…"
	}
	return s
}
