package main

import (
	"fmt"
	"go/types"
	"strings"

	"golang.org/x/tools/go/ssa"
)

// Native model (TRUSTED contract of the standard library) of the idiom `slices.Sorted(maps.Keys(m))` for a map with an
// integer-like key: the result is a fresh slice whose length is len(m), strictly ascending, whose elements are exactly
// the keys of m (witness SortedKeys_pos: the position of every key). maps.Keys(m) alone yields an opaque iterator value
// that only slices.Sorted understands. Nothing is modified.
func (ex *Exec) mapsKeysCall(st *State, callee *ssa.Function, c *ssa.CallCommon) (Value, bool) {
	if len(c.Args) != 1 {
		return nil, false
	}
	if _, ok := under(c.Args[0].Type()).(*types.Map); !ok {
		return nil, false
	}
	return Fn{Fn: callee, Bindings: []Value{st.val(c.Args[0])}}, true
}

func isStdGeneric(name, want string) bool {
	return name == want || strings.HasPrefix(name, want+"[")
}

func (ex *Exec) slicesSortedCall(st *State, in ssa.Instruction, c *ssa.CallCommon) (Value, bool) {
	if len(c.Args) != 1 {
		return nil, false
	}
	f, ok := st.val(c.Args[0]).(Fn)
	if !ok || f.Fn == nil || len(f.Bindings) != 1 || !isStdGeneric(calleeName(f.Fn), "maps.Keys") {
		return nil, false
	}
	mapT := f.Fn.Signature.Params().At(0).Type()
	mt, ok := under(mapT).(*types.Map)
	if !ok {
		return nil, false
	}
	if _, _, isInt := intInfo(mt.Key()); !isInt {
		unsup("slices.Sorted(maps.Keys(m)) with a non-integer key type %s", mt.Key())
	}
	m, ok := f.Bindings[0].(Sc)
	if !ok {
		return nil, false
	}
	ex.note("trusted contract: slices.Sorted(maps.Keys(m)) returns the keys of m in strictly ascending order in a fresh slice")
	n := st.mapCard(mapT, m.T)
	st.assume(tLe(n, bigLit(pow2(62)))) // the keys fit in a Go slice
	r := st.newRef("sortedkeys")
	s := Sl{r, intLit(0), st.named("len", n), st.named("cap", n)}
	key := "E|" + typeKeyString(mt.Key()) + "|"
	hs := heapSort(2, SInt)
	h := st.heap(key, hs)
	arr := ex.ctx.Fresh("sortedkeys", arrSort(SInt, SInt))
	st.setHeap(key, tStore(h, r, arr))
	i, j, k := Term{"i!sk", SInt}, Term{"j!sk", SInt}, Term{"k!sk", SInt}
	at := func(x Term) Term { return tSelect(arr, x, SInt) }
	inI := tAnd(tLe(intLit(0), i), tLt(i, n))
	// every element is a key (and has the key type's range)
	bits, signed, _ := intInfo(mt.Key())
	st.assume(Term{fmt.Sprintf("(forall ((i!sk Int)) %s)", tImp(inI, tAnd(st.mapHas(mapT, m.T, at(i)), inRange(at(i), bits, signed))).S), SBool})
	// strictly ascending
	st.assume(Term{fmt.Sprintf("(forall ((i!sk Int) (j!sk Int)) %s)", tImp(tAnd(tLe(intLit(0), i), tLt(i, j), tLt(j, n)), tLt(at(i), at(j))).S), SBool})
	// every key occurs: witness position
	pos := ex.ctx.Fresh("sortedkeys_pos", arrSort(SInt, SInt))
	pk := tSelect(pos, k, SInt)
	st.assume(Term{fmt.Sprintf("(forall ((k!sk Int)) %s)", tImp(st.mapHas(mapT, m.T, k), tAnd(tLe(intLit(0), pk), tLt(pk, n), tEq(at(pk), k))).S), SBool})
	st.setGhost("SortedKeys_pos", Sc{pos})
	return s, true
}
