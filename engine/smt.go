package main

import (
	"fmt"
	"math/big"
	"sort"
	"strings"
)

// Sort is an SMT-LIB sort, written out.
type Sort string

const (
	SInt  Sort = "Int"
	SBool Sort = "Bool"
)

func arrSort(k, v Sort) Sort { return Sort("(Array " + string(k) + " " + string(v) + ")") }

// Term is an SMT-LIB term as text plus its sort. Large terms are named through Ctx.Name so text stays small.
type Term struct {
	S    string
	Sort Sort
}

func (t Term) String() string { return t.S }

var (
	tTrue  = Term{"true", SBool}
	tFalse = Term{"false", SBool}
)

func intLit(v int64) Term {
	if v < 0 {
		return Term{fmt.Sprintf("(- %d)", -v), SInt}
	}
	return Term{fmt.Sprintf("%d", v), SInt}
}

func bigLit(v *big.Int) Term {
	if v.Sign() < 0 {
		return Term{"(- " + new(big.Int).Neg(v).String() + ")", SInt}
	}
	return Term{v.String(), SInt}
}

// litVal returns the value of an integer literal term.
func litVal(t Term) (*big.Int, bool) {
	s := t.S
	neg := false
	if strings.HasPrefix(s, "(- ") && strings.HasSuffix(s, ")") {
		neg = true
		s = s[3 : len(s)-1]
	}
	if s == "" {
		return nil, false
	}
	for _, c := range s {
		if c < '0' || c > '9' {
			return nil, false
		}
	}
	v, ok := new(big.Int).SetString(s, 10)
	if !ok {
		return nil, false
	}
	if neg {
		v.Neg(v)
	}
	return v, true
}

func app(sort Sort, op string, args ...Term) Term {
	var b strings.Builder
	b.WriteString("(")
	b.WriteString(op)
	for _, a := range args {
		b.WriteString(" ")
		b.WriteString(a.S)
	}
	b.WriteString(")")
	return Term{b.String(), sort}
}

func tNot(a Term) Term {
	switch a.S {
	case "true":
		return tFalse
	case "false":
		return tTrue
	}
	if strings.HasPrefix(a.S, "(not ") {
		return Term{a.S[5 : len(a.S)-1], SBool}
	}
	return app(SBool, "not", a)
}

func tAnd(as ...Term) Term {
	var out []Term
	for _, a := range as {
		if a.S == "true" {
			continue
		}
		if a.S == "false" {
			return tFalse
		}
		out = append(out, a)
	}
	if len(out) == 0 {
		return tTrue
	}
	if len(out) == 1 {
		return out[0]
	}
	return app(SBool, "and", out...)
}

func tOr(as ...Term) Term {
	var out []Term
	for _, a := range as {
		if a.S == "false" {
			continue
		}
		if a.S == "true" {
			return tTrue
		}
		out = append(out, a)
	}
	if len(out) == 0 {
		return tFalse
	}
	if len(out) == 1 {
		return out[0]
	}
	return app(SBool, "or", out...)
}

func tImp(a, b Term) Term {
	if a.S == "true" {
		return b
	}
	if a.S == "false" || b.S == "true" {
		return tTrue
	}
	return app(SBool, "=>", a, b)
}

func tEq(a, b Term) Term {
	if a.S == b.S {
		return tTrue
	}
	if x, ok := litVal(a); ok {
		if y, ok := litVal(b); ok {
			if x.Cmp(y) == 0 {
				return tTrue
			}
			return tFalse
		}
	}
	if a.Sort == SBool {
		if b.S == "true" {
			return a
		}
		if b.S == "false" {
			return tNot(a)
		}
		if a.S == "true" {
			return b
		}
		if a.S == "false" {
			return tNot(b)
		}
	}
	return app(SBool, "=", a, b)
}

func tIte(c, a, b Term) Term {
	if c.S == "true" {
		return a
	}
	if c.S == "false" {
		return b
	}
	if a.S == b.S {
		return a
	}
	return app(a.Sort, "ite", c, a, b)
}

func cmpLit(op string, a, b Term) (Term, bool) {
	x, ok1 := litVal(a)
	y, ok2 := litVal(b)
	if !ok1 || !ok2 {
		return Term{}, false
	}
	c := x.Cmp(y)
	var r bool
	switch op {
	case "<":
		r = c < 0
	case "<=":
		r = c <= 0
	case ">":
		r = c > 0
	case ">=":
		r = c >= 0
	}
	if r {
		return tTrue, true
	}
	return tFalse, true
}

func tCmp(op string, a, b Term) Term {
	if r, ok := cmpLit(op, a, b); ok {
		return r
	}
	return app(SBool, op, a, b)
}
func tLt(a, b Term) Term { return tCmp("<", a, b) }
func tLe(a, b Term) Term { return tCmp("<=", a, b) }
func tGt(a, b Term) Term { return tCmp(">", a, b) }
func tGe(a, b Term) Term { return tCmp(">=", a, b) }

func tAdd(a, b Term) Term {
	x, ok1 := litVal(a)
	y, ok2 := litVal(b)
	if ok1 && ok2 {
		return bigLit(new(big.Int).Add(x, y))
	}
	if ok1 && x.Sign() == 0 {
		return b
	}
	if ok2 && y.Sign() == 0 {
		return a
	}
	return app(SInt, "+", a, b)
}
func tSub(a, b Term) Term {
	x, ok1 := litVal(a)
	y, ok2 := litVal(b)
	if ok1 && ok2 {
		return bigLit(new(big.Int).Sub(x, y))
	}
	if ok2 && y.Sign() == 0 {
		return a
	}
	return app(SInt, "-", a, b)
}
func tMul(a, b Term) Term {
	x, ok1 := litVal(a)
	y, ok2 := litVal(b)
	if ok1 && ok2 {
		return bigLit(new(big.Int).Mul(x, y))
	}
	if ok1 && x.Cmp(big.NewInt(1)) == 0 {
		return b
	}
	if ok2 && y.Cmp(big.NewInt(1)) == 0 {
		return a
	}
	return app(SInt, "*", a, b)
}
func tNeg(a Term) Term {
	if x, ok := litVal(a); ok {
		return bigLit(new(big.Int).Neg(x))
	}
	return app(SInt, "-", a)
}

func tSelect(arr, idx Term, elem Sort) Term { return app(elem, "select", arr, idx) }
func tStore(arr, idx, v Term) Term          { return app(arr.Sort, "store", arr, idx, v) }

// elemSort returns the value sort of an array sort "(Array K V)".
func elemSort(s Sort) Sort {
	str := string(s)
	if !strings.HasPrefix(str, "(Array ") {
		panic("not an array sort: " + str)
	}
	body := str[7 : len(str)-1]
	// key sort is either an atom or a parenthesised sort
	depth := 0
	for i, c := range body {
		switch c {
		case '(':
			depth++
		case ')':
			depth--
		case ' ':
			if depth == 0 {
				return Sort(body[i+1:])
			}
		}
	}
	panic("bad array sort: " + str)
}

func keySort(s Sort) Sort {
	str := string(s)
	body := str[7 : len(str)-1]
	depth := 0
	for i, c := range body {
		switch c {
		case '(':
			depth++
		case ')':
			depth--
		case ' ':
			if depth == 0 {
				return Sort(body[:i])
			}
		}
	}
	panic("bad array sort: " + str)
}

// Ctx collects declarations (constants, functions) shared by all queries of one function verification.
type Ctx struct {
	decls   []string        // declaration lines in order
	declSet map[string]Sort // name -> sort (constants) / "fun" marker
	counter map[string]int  // fresh-name counters by prefix
	axioms  []string        // global axioms (asserted in the queries that mention their key symbol)
	axSet   map[string]bool
	axKey   map[string]string // axiom -> the symbol it defines ("" = always asserted)
	declNames []string        // name declared by decls[i]
	axDone  map[string]bool
}

func containsStr(xs []string, x string) bool {
	for _, y := range xs {
		if y == x {
			return true
		}
	}
	return false
}

func newCtx() *Ctx {
	return &Ctx{declSet: map[string]Sort{}, counter: map[string]int{}, axSet: map[string]bool{}, axKey: map[string]string{}}
}

func sanitize(s string) string {
	var b strings.Builder
	for _, c := range s {
		switch {
		case c >= 'a' && c <= 'z', c >= 'A' && c <= 'Z', c >= '0' && c <= '9', c == '_', c == '.', c == '$':
			b.WriteRune(c)
		case c == '*':
			b.WriteString("p_")
		case c == '[' || c == ']':
			b.WriteString("_")
		case c == '/':
			b.WriteString(".")
		default:
			b.WriteString("_")
		}
	}
	return b.String()
}

// Const declares (once) and returns a constant of the given sort.
func (c *Ctx) Const(name string, s Sort) Term {
	name = sanitize(name)
	if old, ok := c.declSet[name]; ok {
		if old != s {
			panic(fmt.Sprintf("constant %s redeclared with sort %s (was %s)", name, s, old))
		}
		return Term{name, s}
	}
	c.declSet[name] = s
	c.decls = append(c.decls, fmt.Sprintf("(declare-fun %s () %s)", name, s))
	c.declNames = append(c.declNames, name)
	return Term{name, s}
}

// Fresh returns a fresh constant whose name starts with prefix.
func (c *Ctx) Fresh(prefix string, s Sort) Term {
	prefix = sanitize(prefix)
	for {
		c.counter[prefix]++
		name := fmt.Sprintf("%s!%d", prefix, c.counter[prefix])
		if _, ok := c.declSet[name]; !ok {
			c.declSet[name] = s
			c.decls = append(c.decls, fmt.Sprintf("(declare-fun %s () %s)", name, s))
			c.declNames = append(c.declNames, name)
			return Term{name, s}
		}
	}
}

// Fun declares (once) an uninterpreted function and returns its name.
func (c *Ctx) Fun(name string, args []Sort, ret Sort) string {
	name = sanitize(name)
	sig := Sort("fun:" + fmt.Sprint(args) + "->" + string(ret))
	if old, ok := c.declSet[name]; ok {
		if old != sig {
			panic(fmt.Sprintf("function %s redeclared: %s vs %s", name, sig, old))
		}
		return name
	}
	c.declSet[name] = sig
	as := make([]string, len(args))
	for i, a := range args {
		as[i] = string(a)
	}
	c.decls = append(c.decls, fmt.Sprintf("(declare-fun %s (%s) %s)", name, strings.Join(as, " "), ret))
	c.declNames = append(c.declNames, name)
	return name
}

// Axiom adds a global axiom once. key is the symbol the axiom defines: the axiom is asserted in the queries that mention it.
func (c *Ctx) Axiom(a string) { c.AxiomKey("", a) }

func (c *Ctx) AxiomKey(key, a string) {
	if c.axSet[a] {
		return
	}
	c.axSet[a] = true
	c.axKey[a] = key
	c.axioms = append(c.axioms, a)
}

// Query renders a full SMT-LIB script: assumptions ∧ ¬goal.
func (c *Ctx) Query(assumptions []Term, goal Term, wantModel bool, values ...Term) string {
	defer func() {}()
	return c.query(assumptions, goal, wantModel, values)
}

func (c *Ctx) query(assumptions []Term, goal Term, wantModel bool, values []Term) string {
	var b strings.Builder
	if wantModel {
		b.WriteString("(set-option :produce-models true)\n")
	}
	b.WriteString("(set-logic ALL)\n")
	// Only the symbols this query mentions are declared, and an axiom is included only if the symbol it defines is
	// mentioned: a query must not change (in text, hash, or solver behaviour) because an unrelated contract file of the
	// same package declared more ghosts, or another path of the function created more constants.
	used := map[string]bool{}
	collect := func(s string) {
		start := -1
		for i := 0; i <= len(s); i++ {
			delim := i == len(s) || s[i] == ' ' || s[i] == '(' || s[i] == ')' || s[i] == '\n' || s[i] == '\t'
			if delim {
				if start >= 0 {
					used[s[start:i]] = true
					start = -1
				}
			} else if start < 0 {
				start = i
			}
		}
	}
	for _, a := range assumptions {
		collect(a.S)
	}
	collect(goal.S)
	for _, v := range values {
		collect(v.S)
	}
	var axs []string
	for changed := true; changed; {
		changed = false
		for _, a := range c.axioms {
			if c.axDone == nil {
				c.axDone = map[string]bool{}
			}
			key := c.axKey[a]
			if (key == "" || used[key]) && !containsStr(axs, a) {
				axs = append(axs, a)
				collect(a)
				changed = true
			}
		}
	}
	for i, d := range c.decls {
		if i < len(c.declNames) && c.declNames[i] != "" && !used[c.declNames[i]] {
			continue
		}
		b.WriteString(d)
		b.WriteString("\n")
	}
	for _, a := range c.axioms {
		if !containsStr(axs, a) {
			continue
		}
		b.WriteString("(assert ")
		b.WriteString(a)
		b.WriteString(")\n")
	}
	for _, a := range assumptions {
		if a.S == "true" {
			continue
		}
		b.WriteString("(assert ")
		b.WriteString(a.S)
		b.WriteString(")\n")
	}
	b.WriteString("(assert (not ")
	b.WriteString(goal.S)
	b.WriteString("))\n(check-sat)\n")
	if wantModel {
		b.WriteString("(get-model)\n")
	}
	if wantModel && len(values) > 0 {
		b.WriteString("(echo \"@@values\")\n(get-value (")
		for i, v := range values {
			if i > 0 {
				b.WriteString(" ")
			}
			b.WriteString(v.S)
		}
		b.WriteString("))\n")
	}
	return b.String()
}

var two64 = new(big.Int).Lsh(big.NewInt(1), 64)

func pow2(n uint) *big.Int { return new(big.Int).Lsh(big.NewInt(1), n) }

// rangeOf returns bounds for an integer type of the given bit width.
func intRange(bits uint, signed bool) (lo, hi *big.Int) {
	if signed {
		hi = new(big.Int).Sub(pow2(bits-1), big.NewInt(1))
		lo = new(big.Int).Neg(pow2(bits - 1))
		return
	}
	return big.NewInt(0), new(big.Int).Sub(pow2(bits), big.NewInt(1))
}

func inRange(t Term, bits uint, signed bool) Term {
	lo, hi := intRange(bits, signed)
	return tAnd(tLe(bigLit(lo), t), tLe(t, bigLit(hi)))
}

// wrap returns t reduced into the range of the integer type, assuming t is within one modulus of it
// (the caller states whether that is known). For general terms it uses mod.
func wrapTerm(t Term, bits uint, signed bool, nearby bool) Term {
	if v, ok := litVal(t); ok {
		m := pow2(bits)
		r := new(big.Int).Mod(v, m)
		if signed && r.Cmp(pow2(bits-1)) >= 0 {
			r.Sub(r, m)
		}
		return bigLit(r)
	}
	m := bigLit(pow2(bits))
	lo, hi := intRange(bits, signed)
	if nearby {
		return tIte(tGt(t, bigLit(hi)), tSub(t, m), tIte(tLt(t, bigLit(lo)), tAdd(t, m), t))
	}
	if !signed {
		return app(SInt, "mod", t, m)
	}
	// signed: ((t + 2^(b-1)) mod 2^b) - 2^(b-1)
	h := bigLit(pow2(bits - 1))
	return tSub(app(SInt, "mod", tAdd(t, h), m), h)
}

func sortedStrings(m map[string]bool) []string {
	out := make([]string, 0, len(m))
	for k := range m {
		out = append(out, k)
	}
	sort.Strings(out)
	return out
}
