package main

import (
	"fmt"
	"go/types"
	"strings"

	"golang.org/x/tools/go/ssa"
)

type pendingPath struct {
	st  *State
	res Value
}

func (ex *Exec) builtin(st *State, in ssa.Instruction, b *ssa.Builtin, c *ssa.CallCommon) Value {
	switch b.Name() {
	case "len":
		v := st.val(c.Args[0])
		switch x := v.(type) {
		case Sl:
			return Sc{x.Len}
		case Ar:
			return Sc{intLit(int64(len(x.E)))}
		case Sc:
			t := c.Args[0].Type()
			if isString(t) {
				return Sc{ex.strLen(st, x.T)}
			}
			if _, ok := under(t).(*types.Map); ok {
				return Sc{st.mapCard(t, x.T)}
			}
		}
		unsup("len of %s", c.Args[0].Type())
	case "cap":
		if x, ok := st.val(c.Args[0]).(Sl); ok {
			return Sc{x.Cap}
		}
		unsup("cap of %s", c.Args[0].Type())
	case "append":
		return ex.appendOp(st, in, c)
	case "copy":
		dst := st.val(c.Args[0]).(Sl)
		src, ok := st.val(c.Args[1]).(Sl)
		if !ok {
			unsup("copy from %s", c.Args[1].Type())
		}
		n := st.named("ncopy", tIte(tLe(dst.Len, src.Len), dst.Len, src.Len))
		et := under(c.Args[0].Type()).(*types.Slice).Elem()
		ex.frameForRange(st, in, dst, et, n)
		ex.copyRange(st, et, dst.Ref, dst.Off, src.Ref, src.Off, n)
		return Sc{n}
	case "delete":
		m := st.scalar(c.Args[0])
		k := st.scalar(c.Args[1])
		ex.mapDelete(st, in, c.Args[0].Type(), m, k)
		return Tu{}
	case "min", "max":
		x, y := st.scalar(c.Args[0]), st.scalar(c.Args[1])
		if len(c.Args) != 2 {
			unsup("min/max with %d args", len(c.Args))
		}
		if b.Name() == "min" {
			return Sc{tIte(tLe(x, y), x, y)}
		}
		return Sc{tIte(tGe(x, y), x, y)}
	case "ssa:wrapnilchk":
		return st.val(c.Args[0])
	case "ssa:deferstack":
		return Sc{intLit(0)}
	case "print", "println":
		return Tu{}
	}
	unsup("builtin %s", b.Name())
	return nil
}

// frameForRange checks that writing elements of dst is permitted by the assigns clause.
func (ex *Exec) frameForRange(st *State, in ssa.Instruction, dst Sl, et types.Type, n Term) {
	l := Loc{Kind: "E", Base: typeKeyString(et), Dims: []Term{dst.Ref}, Type: et}
	if ex.spec.AssignsSet && ex.discover == nil {
		st.oblige(ex.obName(fmt.Sprintf("frame.%d", ex.siteOrd[in])), "frame", tOr(tLe(n, intLit(0)), ex.allowedWrite(l, true)),
			"bulk write to slice elements at "+ex.pos(in)+" is covered by the assigns clause")
	}
}

// copyRange copies n elements (memmove semantics) from src to dst backing arrays, for every leaf of the element type.
func (ex *Exec) copyRange(st *State, et types.Type, dstRef, dstOff, srcRef, srcOff, n Term) {
	var ls []leaf
	leavesOf(et, "", 0, &ls)
	type upd struct {
		key string
		val Term
	}
	var upds []upd
	for _, lf := range ls {
		key := "E|" + typeKeyString(et) + "|" + lf.Path
		hs := heapSort(2+lf.NArr, lf.Sort)
		h := st.heap(key, hs)
		inner := elemSort(hs)
		cell := elemSort(inner)
		srcArr := tSelect(h, srcRef, inner)
		dstArr := tSelect(h, dstRef, inner)
		var newArr Term
		if nl, ok := litVal(n); ok && nl.Sign() == 0 {
			continue
		} else if ok && nl.Int64() <= 4 {
			newArr = dstArr
			for j := int64(0); j < nl.Int64(); j++ {
				newArr = tStore(newArr, tAdd(dstOff, intLit(j)), tSelect(srcArr, tAdd(srcOff, intLit(j)), cell))
			}
		} else {
			newArr = ex.ctx.Fresh("cp", inner)
			j := Term{"j!cp", SInt}
			inR := tAnd(tLe(dstOff, j), tLt(j, tAdd(dstOff, n)))
			body := tIte(inR, tEq(tSelect(newArr, j, cell), tSelect(srcArr, tAdd(tSub(j, dstOff), srcOff), cell)),
				tEq(tSelect(newArr, j, cell), tSelect(dstArr, j, cell)))
			st.assume(Term{fmt.Sprintf("(forall ((j!cp Int)) %s)", body.S), SBool})
		}
		upds = append(upds, upd{key, tStore(h, dstRef, newArr)})
	}
	for _, u := range upds {
		st.setHeapRec(u.key, u.val)
	}
}

func (ex *Exec) appendOp(st *State, in ssa.Instruction, c *ssa.CallCommon) Value {
	s := st.val(c.Args[0]).(Sl)
	tv := st.val(c.Args[1])
	et := under(c.Args[0].Type()).(*types.Slice).Elem()
	var t Sl
	switch x := tv.(type) {
	case Sl:
		t = x
	default:
		unsup("append of %T", tv)
	}
	total := st.named("applen", tAdd(s.Len, t.Len))
	fits := tLe(total, s.Cap)
	var resFit, resGrow Value
	// in-place branch
	if fits.S != "false" {
		s1 := st
		if fits.S != "true" {
			s1 = st.clone()
			s1.assume(fits)
		}
		if nl, ok := litVal(t.Len); !(ok && nl.Sign() == 0) {
			ex.frameForRange(s1, in, s, et, t.Len)
		}
		ex.copyRange(s1, et, s.Ref, tAdd(s.Off, s.Len), t.Ref, t.Off, t.Len)
		resFit = Sl{s.Ref, s.Off, total, s.Cap}
		if fits.S == "true" {
			return resFit
		}
		ex.pending = append(ex.pending, pendingPath{s1, resFit})
	}
	// growing branch (continues on st)
	st.assume(tNot(fits))
	r := st.newRef("app")
	ncap := ex.ctx.Fresh("newcap", SInt)
	st.assume(tAnd(tGe(ncap, total), tLe(ncap, bigLit(pow2(48)))))
	ex.copyRange(st, et, r, intLit(0), s.Ref, s.Off, s.Len)
	ex.copyRange(st, et, r, s.Len, t.Ref, t.Off, t.Len)
	resGrow = Sl{r, intLit(0), total, ncap}
	return resGrow
}

// ---------- maps ----------

func mapKeys(t types.Type) (dom, card string) {
	p := "M|" + typeKeyString(t) + "|"
	return p + "#dom", p + "#card"
}

func (st *State) mapHas(t types.Type, m, k Term) Term {
	dom, _ := mapKeys(t)
	h := st.heap(dom, heapSort(2, SBool))
	return tAnd(tNot(tEq(m, intLit(0))), selectN(h, []Term{m, k}))
}

func (st *State) mapCard(t types.Type, m Term) Term {
	_, card := mapKeys(t)
	h := st.heap(card, heapSort(1, SInt))
	c := tSelect(h, m, SInt)
	if !strings.Contains(m.S, "!q") { // not under a quantifier binder
		st.assume(tLe(intLit(0), c))
	}
	return tIte(tEq(m, intLit(0)), intLit(0), c)
}

func mapKeyTerm(v Value, kt types.Type) Term {
	sc, ok := v.(Sc)
	if !ok || sc.T.Sort != SInt {
		unsup("map key of type %s", kt)
	}
	return sc.T
}

func (ex *Exec) makeMap(st *State, x *ssa.MakeMap) Value {
	t := x.Type()
	mt := under(t).(*types.Map)
	r := st.newRef("map")
	dom, card := mapKeys(t)
	hd := st.heap(dom, heapSort(2, SBool))
	st.setHeapRec(dom, tStore(hd, r, constArray(arrSort(SInt, SBool), tFalse)))
	hc := st.heap(card, heapSort(1, SInt))
	st.setHeapRec(card, tStore(hc, r, intLit(0)))
	_ = mt
	return Sc{r}
}

func (ex *Exec) mapUpdate(st *State, x *ssa.MapUpdate) {
	t := x.Map.Type()
	mt := under(t).(*types.Map)
	m := st.scalar(x.Map)
	k := mapKeyTerm(st.val(x.Key), mt.Key())
	ex.safety(st, x, "nilmap", tNot(tEq(m, intLit(0))))
	v := st.val(x.Value)
	if _, isLoc := v.(Loc); isLoc {
		unsup("interior pointer stored into a map")
	}
	l := Loc{Kind: "M", Base: typeKeyString(t), Dims: []Term{m, k}, Type: mt.Elem()}
	ex.checkFrame(st, x, l)
	had := st.mapHas(t, m, k)
	dom, card := mapKeys(t)
	hd := st.heap(dom, heapSort(2, SBool))
	st.setHeapRec(dom, storeN(hd, []Term{m, k}, tTrue))
	hc := st.heap(card, heapSort(1, SInt))
	oldc := tSelect(hc, m, SInt)
	st.setHeapRec(card, tStore(hc, m, tIte(had, oldc, tAdd(oldc, intLit(1)))))
	st.store(l, v)
}

func (ex *Exec) mapDelete(st *State, in ssa.Instruction, t types.Type, m, k Term) {
	l := Loc{Kind: "M", Base: typeKeyString(t), Dims: []Term{m, k}, Type: under(t).(*types.Map).Elem()}
	ex.checkFrame(st, in, l)
	had := st.mapHas(t, m, k)
	dom, card := mapKeys(t)
	hd := st.heap(dom, heapSort(2, SBool))
	// deleting from a nil map is a no-op; index 0 is never a live map, so the store is harmless
	st.setHeapRec(dom, storeN(hd, []Term{m, k}, tFalse))
	hc := st.heap(card, heapSort(1, SInt))
	oldc := tSelect(hc, m, SInt)
	st.setHeapRec(card, tStore(hc, m, tIte(had, tSub(oldc, intLit(1)), oldc)))
}

func (ex *Exec) lookup(st *State, x *ssa.Lookup) Value {
	t := x.X.Type()
	mt, ok := under(t).(*types.Map)
	if !ok {
		// string index
		s := st.scalar(x.X)
		i := st.scalar(x.Index)
		ex.safety(st, x, "index", tAnd(tLe(intLit(0), i), tLt(i, ex.strLen(st, s))))
		r := ex.uf(st, "strbyte", SInt, s, i)
		st.assume(inRange(r, 8, false))
		return Sc{r}
	}
	m := st.scalar(x.X)
	k := mapKeyTerm(st.val(x.Index), mt.Key())
	has := st.named("has", st.mapHas(t, m, k))
	l := Loc{Kind: "M", Base: typeKeyString(t), Dims: []Term{m, k}, Type: mt.Elem()}
	stored := st.load(l)
	v := iteValue(mt.Elem(), has, stored, ex.zeroOf(mt.Elem()))
	if x.CommaOk {
		return Tu{[]Value{v, Sc{has}}}
	}
	return v
}

func (ex *Exec) rangeStart(st *State, x *ssa.Range) Value {
	if _, ok := under(x.X.Type()).(*types.Map); !ok {
		unsup("range over %s (string iteration) not supported", x.X.Type())
	}
	it := &rangeIter{mapRef: st.scalar(x.X), mapT: x.X.Type(), visited: constArray(arrSort(SInt, SBool), tFalse)}
	if x.Referrers() != nil {
		for _, r := range *x.Referrers() {
			if n, ok := r.(*ssa.Next); ok {
				it.nextIn = n
			}
		}
	}
	st.rangeIt[x] = it
	return Sc{intLit(0)}
}

// rangeNext yields an arbitrary not-yet-visited key (nondeterministic iteration order), or ok=false when all keys of the
// map have been visited.
func (ex *Exec) rangeNext(st *State, x *ssa.Next) Value {
	rg, isRange := x.Iter.(*ssa.Range)
	if !isRange || x.IsString {
		unsup("next on a string iterator")
	}
	it := st.rangeIt[rg]
	if it == nil {
		unsup("map iterator state lost")
	}
	mt := under(it.mapT).(*types.Map)
	ok := ex.ctx.Fresh("rng_ok", SBool)
	k := ex.ctx.Fresh("rng_k", SInt)
	st.typeAssume(k, mt.Key())
	has := st.mapHas(it.mapT, it.mapRef, k)
	st.assume(tImp(ok, tAnd(has, tNot(tSelect(it.visited, k, SBool)))))
	q := Term{"k!rg", SInt}
	st.assume(tImp(tNot(ok), Term{fmt.Sprintf("(forall ((k!rg Int)) %s)", tImp(st.mapHas(it.mapT, it.mapRef, q), tSelect(it.visited, q, SBool)).S), SBool}))
	l := Loc{Kind: "M", Base: typeKeyString(it.mapT), Dims: []Term{it.mapRef, k}, Type: mt.Elem()}
	v := st.load(l)
	nv := ex.ctx.Fresh("rng_visited", arrSort(SInt, SBool))
	st.assume(tEq(nv, tIte(ok, tStore(it.visited, k, tTrue), it.visited)))
	it.visited = nv
	return Tu{[]Value{Sc{ok}, Sc{k}, v}}
}
