package main

import (
	"fmt"
	"go/types"
	"strings"

	"golang.org/x/tools/go/ssa"
)

// Lock invariants (rely/guarantee for mutex-protected data, sequentialised):
//
//	//@ lockinv idGeneratorMutex            (a package-level mutex)   or   lockinv table.mu(t)   (a mutex field)
//	//@   assigns  <guarded designators>
//	//@   requires <invariant over the guarded data>
//	//@   ensures  <two-state stability relation every holder of the lock maintains; old() = state at acquisition>
//
// Acquiring the lock forgets the guarded data (another goroutine may have changed it since it was last read),
// then assumes the invariant and the stability relation w.r.t. the state before the acquisition. Releasing it
// obliges the invariant and the stability relation w.r.t. the state at acquisition: what this holder did to
// the guarded data must itself be a step every other holder may rely on.

func lockOp(name string) string {
	switch name {
	case "sync.(*Mutex).Lock", "sync.(*RWMutex).Lock", "sync.(*RWMutex).RLock":
		return "acquire"
	case "sync.(*Mutex).Unlock", "sync.(*RWMutex).Unlock", "sync.(*RWMutex).RUnlock":
		return "release"
	}
	return ""
}

// findLockInv returns the lock invariant governing the mutex designated by l, and the environment binder.
func (ex *Exec) findLockInv(l Loc) (*FnSpec, *ContractFile) {
	for _, cf := range ex.db.files {
		for _, s := range cf.Fns {
			if s.Kind != "lockinv" {
				continue
			}
			if i := strings.Index(s.Key, "."); i > 0 {
				// Type.field form
				if l.Kind == "O" && l.Base == shortPkg(cf.Pkg)+"."+s.Key[:i] && l.Path == "."+s.Key[i+1:] {
					return s, cf
				}
				continue
			}
			if l.Kind == "G" && l.Base == cf.Pkg+"."+s.Key && l.Path == "" {
				return s, cf
			}
		}
	}
	return nil, nil
}

func (ex *Exec) lockEnv(st, old *State, s *FnSpec, cf *ContractFile, l Loc) *Env {
	env := &Env{ex: ex, cur: st, old: old, vars: map[string]TV{}, cf: cf}
	if len(s.Params) == 1 && l.Kind == "O" {
		tn := s.Key[:strings.Index(s.Key, ".")]
		var pkg *types.Package
		if p := ex.ld.PP[cf.Pkg]; p != nil {
			pkg = p.Types
		}
		if pkg == nil {
			unsup("lock invariant %s: package %s not loaded", s.Key, cf.Pkg)
		}
		obj, ok := pkg.Scope().Lookup(tn).(*types.TypeName)
		if !ok {
			unsup("lock invariant %s: unknown type %s", s.Key, tn)
		}
		env.vars[s.Params[0]] = TV{Sc{l.Dims[0]}, types.NewPointer(obj.Type())}
	}
	return env
}

// lockCall handles Lock/Unlock of a mutex that has a lock invariant. Returns false when there is none.
func (ex *Exec) lockCall(st *State, in ssa.Instruction, name string, recv Value) bool {
	op := lockOp(name)
	l, ok := recv.(Loc)
	if op == "" || !ok {
		return false
	}
	s, cf := ex.findLockInv(l)
	if s == nil {
		return false
	}
	key := l.describe()
	for _, d := range l.Dims {
		key += "@" + d.S
	}
	ex.usedContracts["lockinv "+shortPkg(cf.Pkg)+"."+s.Key] = s
	if op == "acquire" {
		pre := st.clone()
		penv := ex.lockEnv(pre, pre, s, cf, l)
		penv.sink = st
		for _, a := range s.Assigns {
			ex.havocAssign(st, penv.evalAssign(a))
		}
		env := ex.lockEnv(st, pre, s, cf, l)
		for _, r := range s.Requires {
			st.assume(env.evalBool(r.Expr))
		}
		for _, e := range s.Ensures {
			st.assume(env.evalBool(e.Expr))
		}
		if st.lockSnaps == nil {
			st.lockSnaps = map[string]*State{}
		}
		snap := st.clone()
		st.lockSnaps[key] = snap
		st.lastLockSnap = snap
		return true
	}
	snap := st.lockSnaps[key]
	if snap == nil || ex.discover != nil {
		return true
	}
	env := ex.lockEnv(st, snap, s, cf, l)
	ord := ex.callOrd[in]
	for i, r := range s.Requires {
		st.oblige(ex.obName(fmt.Sprintf("lock.%s.inv%d.call%d", sanitize(s.Key), i, ord)), "lock-invariant", env.evalBool(r.Expr),
			"lock invariant of "+s.Key+" re-established at release: "+r.Src)
	}
	for i, e := range s.Ensures {
		st.oblige(ex.obName(fmt.Sprintf("lock.%s.stable%d.call%d", sanitize(s.Key), i, ord)), "lock-guarantee", env.evalBool(e.Expr),
			"holder of "+s.Key+" respects the stability relation: "+e.Src)
	}
	return true
}
