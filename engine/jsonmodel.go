package main

import (
	"go/types"

	"golang.org/x/tools/go/ssa"
)

// jsonCall models the encoding/json entry points the checkpoint code uses (TRUSTED standard-library model):
//   - Unmarshal(data, &v) / (*Decoder).Decode(&v): return an arbitrary error and leave in v an ARBITRARY value of its type
//     (the payload is attacker-controlled: nothing is assumed about it), whose slices, maps and pointers are freshly
//     allocated or nil;
//   - Marshal(v) returns (fresh bytes, arbitrary error); (*Encoder).Encode(v) returns an arbitrary error; neither
//     modifies anything reachable from v;
//   - NewDecoder / NewEncoder return an opaque non-nil handle.
//
// No relation between what is encoded and what is later decoded is modelled here (round trips are stated separately).
func (ex *Exec) jsonCall(st *State, in ssa.Instruction, name string, c *ssa.CallCommon) (Value, bool) {
	sig := c.Signature()
	switch name {
	case "encoding/json.NewDecoder", "encoding/json.NewEncoder":
		ex.note("trusted model: encoding/json streams are opaque handles")
		r := st.newRef("jsonstream")
		return Sc{r}, true
	case "encoding/json.Marshal", "encoding/json.MarshalIndent":
		ex.note("trusted model: json.Marshal returns fresh bytes and does not modify its argument")
		ex.recordEncoded(st, c.Args[0])
		before := st.allocTop
		ex.bumpAlloc(st)
		res := ex.freshResult(st, sig, "json_marshal")
		if tu, ok := res.(Tu); ok {
			if sl, ok := tu.E[0].(Sl); ok {
				st.assume(tOr(tAnd(tEq(sl.Ref, intLit(0)), tEq(sl.Len, intLit(0))), tGt(sl.Ref, before)))
			}
		}
		return res, true
	case "encoding/json.(*Encoder).Encode":
		ex.note("trusted model: json.Encoder.Encode writes to its stream only")
		ex.recordEncoded(st, c.Args[len(c.Args)-1])
		return ex.freshResult(st, sig, "json_encode"), true
	case "encoding/json.Unmarshal", "encoding/json.(*Decoder).Decode":
		ex.note("trusted model: json decoding leaves an arbitrary value of the target's type (fresh slices/maps/pointers)")
		arg := c.Args[len(c.Args)-1]
		mi, ok := arg.(*ssa.MakeInterface)
		if !ok {
			return nil, false
		}
		pt, ok := under(mi.X.Type()).(*types.Pointer)
		if !ok {
			return nil, false
		}
		target := st.derefPtr(st.val(mi.X), pt.Elem())
		before := st.allocTop
		ex.checkFrame(st, in, target)
		ex.bumpAlloc(st)
		v := st.freshValue(pt.Elem(), "json_dec")
		ex.assumeFreshParts(st, v, pt.Elem(), before)
		st.store(target, v)
		return ex.freshResult(st, sig, "json_err"), true
	}
	return nil, false
}

func (ex *Exec) bumpAlloc(st *State) {
	top := ex.ctx.Fresh("allocTop", SInt)
	st.assume(tGe(top, st.allocTop))
	st.allocTop = top
}

// assumeFreshParts: every slice, map and pointer inside a decoded value is nil or was allocated by the decoder.
func (ex *Exec) assumeFreshParts(st *State, v Value, t types.Type, before Term) {
	switch x := v.(type) {
	case Sl:
		st.assume(tOr(tAnd(tEq(x.Ref, intLit(0)), tEq(x.Len, intLit(0)), tEq(x.Cap, intLit(0))), tAnd(tGt(x.Ref, before), tEq(x.Off, intLit(0)))))
	case Sc:
		switch under(t).(type) {
		case *types.Pointer, *types.Map:
			st.assume(tOr(tEq(x.T, intLit(0)), tGt(x.T, before)))
		}
	case St:
		u, ok := under(t).(*types.Struct)
		if !ok {
			return
		}
		for i, f := range x.F {
			ex.assumeFreshParts(st, f, u.Field(i).Type(), before)
		}
	case Ar:
		u := under(t).(*types.Array)
		for _, e := range x.E {
			ex.assumeFreshParts(st, e, u.Elem(), before)
		}
	}
}

// recordEncoded makes the value handed to the encoder visible to specs: the ghosts jsonEncTyp / jsonEncVal hold the
// (type id, value) pair of the LAST value passed to json.Marshal / Encoder.Encode on this path, jsonEncCount how many
// were passed. `as(mkiface(jsonEncTyp, jsonEncVal), "dtoType")` is that value (a struct passed by value is a snapshot).
func (ex *Exec) recordEncoded(st *State, arg ssa.Value) {
	iv, ok := st.val(arg).(If)
	if !ok {
		return
	}
	st.setGhost("jsonEncTyp", Sc{iv.Typ})
	st.setGhost("jsonEncVal", Sc{iv.Val})
	cnt := intLit(0)
	if c, ok := st.ghost["jsonEncCount"].(Sc); ok {
		cnt = c.T
	}
	st.setGhost("jsonEncCount", Sc{tAdd(cnt, intLit(1))})
}
