package main

import (
	"fmt"
	"os"
)

// tryReplay runs the counterexample of a failed obligation against the real code when a replay
// template exists for the function; it returns the suffix for the VIOLATION line.
func (run *checkRun) tryReplay(o *ObResult, path string) string {
	if len(o.model) == 0 {
		return "no-failing-input-found"
	}
	return replayOnRealCode(run, o, path)
}

func cmdReplay(args []string) int {
	if len(args) < 1 {
		usage()
	}
	data, err := os.ReadFile(args[0])
	if err != nil {
		fmt.Fprintln(os.Stderr, err)
		return 2
	}
	os.Stdout.Write(data)
	return replayFromFile(args[0])
}

func replayOnRealCode(run *checkRun, o *ObResult, path string) string { return "replay-not-implemented" }

func replayFromFile(path string) int { return 0 }
