package main

import (
	"bytes"
	"encoding/json"
	"fmt"
	"os"
	"os/exec"
	"path/filepath"
	"strings"
	"sync"
)

// Replay templates: /verif/replay/index.json maps a function (full name as in obligation names) to an
// in-package test file that rebuilds the counterexample's inputs, calls the real function and checks the
// property's own oracle. The test file is injected with `go test -overlay` and never written into /repo.
type replayEntry struct {
	Pkg  string `json:"pkg"`  // package directory relative to the repository root
	File string `json:"file"` // template under /verif/replay/
	Test string `json:"test"` // test function name
	// Search: the template does not need a solver model - when the replay file carries no inputs it searches a small
	// scope of inputs itself (used for obligations that came back `unknown`, where the solver gives no counterexample)
	Search bool `json:"search,omitempty"`
}

var (
	searchMu       sync.Mutex
	searchVerdicts = map[string][2]string{}
)

func loadReplayIndex() map[string]replayEntry {
	m := map[string]replayEntry{}
	data, err := os.ReadFile(filepath.Join(verifDir, "replay", "index.json"))
	if err != nil {
		return m
	}
	json.Unmarshal(data, &m)
	more, _ := filepath.Glob(filepath.Join(verifDir, "replay", "index.d", "*.json"))
	for _, f := range more {
		part := map[string]replayEntry{}
		if d, err := os.ReadFile(f); err == nil && json.Unmarshal(d, &part) == nil {
			for k, v := range part {
				m[k] = v
			}
		}
	}
	return m
}

// tryReplay runs the counterexample of a failed obligation against the real code when a replay
// template exists for the function; it returns the suffix for the VIOLATION line.
func (run *checkRun) tryReplay(o *ObResult, path string) string {
	if len(o.model) == 0 {
		if ent, ok := loadReplayIndex()[o.fn]; !ok || !ent.Search {
			return "no-failing-input-found"
		}
	}
	var verdict, out string
	if len(o.model) == 0 {
		// one small-scope search per function and run
		searchMu.Lock()
		if v, ok := searchVerdicts[o.fn]; ok {
			verdict, out = v[0], v[1]
		} else {
			verdict, out = runReplay(path)
			searchVerdicts[o.fn] = [2]string{verdict, out}
		}
		searchMu.Unlock()
	} else {
		verdict, out = runReplay(path)
	}
	// record the outcome in the replay file
	var rf map[string]interface{}
	if data, err := os.ReadFile(path); err == nil && json.Unmarshal(data, &rf) == nil {
		rf["replay"] = verdict
		rf["replay_output"] = truncate(out, 3000)
		if data, err := json.MarshalIndent(rf, "", " "); err == nil {
			os.WriteFile(path, append(data, '\n'), 0o644)
		}
	}
	switch verdict {
	case "reproduced":
		return "replayed-on-real-code"
	}
	return "no-failing-input-found"
}

// runReplay executes the replay test for a counterexample file. verdict: reproduced | not-reproduced | no-template | error
func runReplay(path string) (string, string) {
	data, err := os.ReadFile(path)
	if err != nil {
		return "error", err.Error()
	}
	var rf replayFile
	if err := json.Unmarshal(data, &rf); err != nil {
		return "error", err.Error()
	}
	idx := loadReplayIndex()
	ent, ok := idx[rf.Function]
	if !ok {
		return "no-template", "no replay template for " + rf.Function
	}
	tmpl, err := os.ReadFile(filepath.Join(verifDir, "replay", ent.File))
	if err != nil {
		return "error", err.Error()
	}
	tmp, err := os.MkdirTemp("", "akvreplay")
	if err != nil {
		return "error", err.Error()
	}
	defer os.RemoveAll(tmp)
	testFile := filepath.Join(tmp, "zz_akv_replay_test.go")
	os.WriteFile(testFile, tmpl, 0o644)
	target := filepath.Join(repoDir, ent.Pkg, "zz_akv_replay_test.go")
	ov, _ := json.Marshal(map[string]interface{}{"Replace": map[string]string{target: testFile}})
	ovFile := filepath.Join(tmp, "overlay.json")
	os.WriteFile(ovFile, ov, 0o644)
	cmd := exec.Command(filepath.Join(goBin, "go"), "test", "-overlay", ovFile, "-vet=off", "-count=1", "-timeout", "60s", "-run", "^"+ent.Test+"$", "./"+ent.Pkg)
	cmd.Dir = repoDir
	cmd.Env = append(os.Environ(), "PATH="+goBin+":"+os.Getenv("PATH"), "GOTOOLCHAIN=local", "GOFLAGS=-mod=mod", "GOPROXY=off", "GOSUMDB=off",
		"AKV_REPLAY_FILE="+path)
	var buf bytes.Buffer
	cmd.Stdout = &buf
	cmd.Stderr = &buf
	err = cmd.Run()
	out := buf.String()
	if strings.Contains(out, "AKV-REPLAY: VIOLATION") {
		return "reproduced", out
	}
	if err == nil && strings.Contains(out, "ok") {
		return "not-reproduced", out
	}
	if strings.Contains(out, "AKV-REPLAY: OK") {
		return "not-reproduced", out
	}
	return "error", out
}

func cmdReplay(args []string) int {
	if len(args) < 1 {
		usage()
	}
	verdict, out := runReplay(args[0])
	fmt.Println(out)
	fmt.Println("replay verdict:", verdict)
	if verdict == "reproduced" {
		return 1
	}
	if verdict == "not-reproduced" {
		return 0
	}
	return 2
}
