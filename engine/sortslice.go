package main

import (
	"fmt"
	"go/types"

	"golang.org/x/tools/go/ssa"
)

// sortSlice models sort.Slice(s, less) with less a side-effect-free closure over the slice being sorted (TRUSTED
// contract of the standard library): afterwards the elements are a permutation of the old ones (witness Slice_pi),
// nothing outside s[0:len] changes, and no later element is less than an earlier one. That `less` cannot panic on
// [0,len) x [0,len) is an obligation; that it is a strict weak order is assumed (noted).
func (ex *Exec) sortSlice(st *State, in ssa.Instruction, c *ssa.CallCommon) (Value, bool) {
	mi, ok := c.Args[0].(*ssa.MakeInterface)
	if !ok {
		return nil, false
	}
	stype, ok := under(mi.X.Type()).(*types.Slice)
	if !ok {
		return nil, false
	}
	s, ok := st.val(mi.X).(Sl)
	if !ok {
		return nil, false
	}
	f, ok := st.val(c.Args[1]).(Fn)
	if !ok {
		unsup("sort.Slice with a non-literal less function")
	}
	ex.note("trusted contract: sort.Slice sorts by the given less (assumed a strict weak order) and permutes the elements")
	et := stype.Elem()
	i, j := Term{"i!sl", SInt}, Term{"j!sl", SInt}
	inR := tAnd(tLe(intLit(0), i), tLt(i, s.Len), tLe(intLit(0), j), tLt(j, s.Len))
	if ex.discover == nil && !ex.spec.PanicsAny {
		_, safe := ex.pureEval(st, f, []Value{Sc{i}, Sc{j}})
		st.oblige(ex.obName(fmt.Sprintf("call%d.sort.Slice.safe", ex.callOrd[in])), "requires",
			Term{fmt.Sprintf("(forall ((i!sl Int) (j!sl Int)) %s)", tImp(inR, safe).S), SBool}, "the less function passed to sort.Slice cannot panic on valid indices")
		ex.frameForRange(st, in, s, et, s.Len)
	}
	// new contents
	var ls []leaf
	leavesOf(et, "", 0, &ls)
	pi := ex.ctx.Fresh("sortpi", arrSort(SInt, SInt))
	k, k2 := Term{"k!sl", SInt}, Term{"k2!sl", SInt}
	inK := tAnd(tLe(intLit(0), k), tLt(k, s.Len))
	st.assume(Term{fmt.Sprintf("(forall ((k!sl Int)) %s)", tImp(inK, tAnd(tLe(intLit(0), tSelect(pi, k, SInt)), tLt(tSelect(pi, k, SInt), s.Len))).S), SBool})
	st.assume(Term{fmt.Sprintf("(forall ((k!sl Int) (k2!sl Int)) %s)",
		tImp(tAnd(inK, tLe(intLit(0), k2), tLt(k2, s.Len), tNot(tEq(k, k2))), tNot(tEq(tSelect(pi, k, SInt), tSelect(pi, k2, SInt)))).S), SBool})
	type upd struct {
		key string
		val Term
	}
	var upds []upd
	a := Term{"a!sl", SInt}
	for _, lf := range ls {
		if lf.NArr > 0 {
			unsup("sort.Slice over elements containing arrays")
		}
		key := "E|" + typeKeyString(et) + "|" + lf.Path
		hs := heapSort(2, lf.Sort)
		h := st.heap(key, hs)
		inner := elemSort(hs)
		oldArr := tSelect(h, s.Ref, inner)
		newArr := ex.ctx.Fresh("sorted", inner)
		inA := tAnd(tLe(s.Off, a), tLt(a, tAdd(s.Off, s.Len)))
		body := tIte(inA,
			tEq(tSelect(newArr, a, lf.Sort), tSelect(oldArr, linNorm(tAdd(s.Off, tSelect(pi, linNorm(tSub(a, s.Off)), SInt))), lf.Sort)),
			tEq(tSelect(newArr, a, lf.Sort), tSelect(oldArr, a, lf.Sort)))
		st.assume(Term{fmt.Sprintf("(forall ((a!sl Int)) %s)", body.S), SBool})
		upds = append(upds, upd{key, tStore(h, s.Ref, newArr)})
	}
	for _, u := range upds {
		st.setHeapRec(u.key, u.val)
	}
	// sorted: no later element is less than an earlier one
	lji, _ := ex.pureEval(st, f, []Value{Sc{j}, Sc{i}})
	st.assume(Term{fmt.Sprintf("(forall ((i!sl Int) (j!sl Int)) %s)", tImp(tAnd(inR, tLt(i, j)), tNot(asSc(lji, nil).T)).S), SBool})
	// the inverse permutation (a permutation of a finite range is a bijection; stated explicitly because surjectivity
	// does not follow first-order from injectivity)
	inv := ex.ctx.Fresh("sortinv", arrSort(SInt, SInt))
	st.assume(Term{fmt.Sprintf("(forall ((k!sl Int)) %s)", tImp(inK, tAnd(tLe(intLit(0), tSelect(inv, k, SInt)), tLt(tSelect(inv, k, SInt), s.Len),
		tEq(tSelect(pi, tSelect(inv, k, SInt), SInt), k), tEq(tSelect(inv, tSelect(pi, k, SInt), SInt), k))).S), SBool})
	st.setGhost("Slice_pi", Sc{pi})
	st.setGhost("Slice_inv", Sc{inv})
	return Tu{}, true
}
