package main

import (
	"fmt"
	"os"
	"strconv"
	"strings"
	"unicode"
)

// ---------- spec expression AST ----------

type SExpr struct {
	Kind string // lit, ident, sel, index, slice, call, unop, binop, cond, forall, exists, old
	Op   string // operator / field name / function name
	Lit  string
	Args []*SExpr
	Vars []QVar
	Src  string
}

type QVar struct {
	Name   string
	Type   string // "int" default
	Lo, Hi *SExpr // optional range sugar
}

func (e *SExpr) String() string {
	if e == nil {
		return "<nil>"
	}
	switch e.Kind {
	case "lit":
		return e.Lit
	case "ident":
		return e.Op
	case "sel":
		return e.Args[0].String() + "." + e.Op
	case "index":
		return e.Args[0].String() + "[" + e.Args[1].String() + "]"
	case "slice":
		lo, hi := "", ""
		if e.Args[1] != nil {
			lo = e.Args[1].String()
		}
		if e.Args[2] != nil {
			hi = e.Args[2].String()
		}
		return e.Args[0].String() + "[" + lo + ":" + hi + "]"
	case "call":
		var as []string
		for _, a := range e.Args {
			as = append(as, a.String())
		}
		return e.Op + "(" + strings.Join(as, ", ") + ")"
	case "unop":
		return e.Op + e.Args[0].String()
	case "binop":
		return "(" + e.Args[0].String() + " " + e.Op + " " + e.Args[1].String() + ")"
	case "cond":
		return "(" + e.Args[0].String() + " ? " + e.Args[1].String() + " : " + e.Args[2].String() + ")"
	case "forall", "exists":
		var vs []string
		for _, v := range e.Vars {
			vs = append(vs, v.Name)
		}
		return e.Kind + " " + strings.Join(vs, ",") + " :: " + e.Args[0].String()
	case "old":
		return "old(" + e.Args[0].String() + ")"
	}
	return "?" + e.Kind
}

// ---------- lexer ----------

type tok struct {
	kind string // ident, int, op, eof, str
	text string
}

func lexSpec(src string) ([]tok, error) {
	var toks []tok
	i := 0
	rs := []rune(src)
	for i < len(rs) {
		c := rs[i]
		switch {
		case unicode.IsSpace(c):
			i++
		case unicode.IsLetter(c) || c == '_' || c == '$':
			j := i
			for j < len(rs) && (unicode.IsLetter(rs[j]) || unicode.IsDigit(rs[j]) || rs[j] == '_' || rs[j] == '$') {
				j++
			}
			toks = append(toks, tok{"ident", string(rs[i:j])})
			i = j
		case unicode.IsDigit(c):
			j := i
			for j < len(rs) && (unicode.IsDigit(rs[j]) || rs[j] == '_' || rs[j] == 'x' || (rs[j] >= 'a' && rs[j] <= 'f') || (rs[j] >= 'A' && rs[j] <= 'F')) {
				j++
			}
			toks = append(toks, tok{"int", strings.ReplaceAll(string(rs[i:j]), "_", "")})
			i = j
		case c == '"':
			j := i + 1
			for j < len(rs) && rs[j] != '"' {
				if rs[j] == '\\' && j+1 < len(rs) {
					j++ // an escaped rune (\" \\ \n ...) never ends the literal
				}
				j++
			}
			if j >= len(rs) {
				return nil, fmt.Errorf("unterminated string in %q", src)
			}
			lit := string(rs[i+1 : j])
			if u, err := strconv.Unquote("\"" + lit + "\""); err == nil {
				lit = u // the same string value as the Go literal with this text
			}
			toks = append(toks, tok{"str", lit})
			i = j + 1
		default:
			three := ""
			if i+3 <= len(rs) {
				three = string(rs[i : i+3])
			}
			two := ""
			if i+2 <= len(rs) {
				two = string(rs[i : i+2])
			}
			if i+4 <= len(rs) && string(rs[i:i+4]) == "<==>" {
				toks = append(toks, tok{"op", "<==>"})
				i += 4
			} else if three == "==>" {
				toks = append(toks, tok{"op", "==>"})
				i += 3
			} else if two == "==" || two == "!=" || two == "<=" || two == ">=" || two == "&&" || two == "||" || two == "::" || two == ".." || two == "<<" || two == ">>" || two == "++" {
				toks = append(toks, tok{"op", two})
				i += 2
			} else if strings.ContainsRune("+-*/%<>!()[]{},.:?=&|^", c) {
				toks = append(toks, tok{"op", string(c)})
				i++
			} else {
				return nil, fmt.Errorf("unexpected character %q in spec %q", c, src)
			}
		}
	}
	toks = append(toks, tok{"eof", ""})
	return toks, nil
}

// ---------- Pratt parser ----------

type sparser struct {
	toks []tok
	pos  int
	src  string
}

func (p *sparser) peek() tok { return p.toks[p.pos] }
func (p *sparser) next() tok { t := p.toks[p.pos]; p.pos++; return t }
func (p *sparser) accept(text string) bool {
	if p.peek().kind == "op" && p.peek().text == text {
		p.pos++
		return true
	}
	return false
}
func (p *sparser) expect(text string) error {
	if !p.accept(text) {
		return fmt.Errorf("expected %q at token %d (%q) in %q", text, p.pos, p.peek().text, p.src)
	}
	return nil
}

var binPrec = map[string]int{
	"<==>": 1, "==>": 2, "||": 3, "&&": 4,
	"==": 5, "!=": 5, "<": 5, "<=": 5, ">": 5, ">=": 5, "in": 5,
	"+": 6, "-": 6, "|": 6, "^": 6, "++": 6,
	"*": 7, "/": 7, "%": 7, "<<": 7, ">>": 7, "&": 7,
}

func parseSpecExpr(src string) (*SExpr, error) {
	toks, err := lexSpec(src)
	if err != nil {
		return nil, err
	}
	p := &sparser{toks: toks, src: src}
	e, err := p.parseExpr(0)
	if err != nil {
		return nil, err
	}
	if p.peek().kind != "eof" {
		return nil, fmt.Errorf("trailing tokens after expression at %q in %q", p.peek().text, src)
	}
	e.Src = src
	return e, nil
}

func (p *sparser) parseExpr(minPrec int) (*SExpr, error) {
	// quantifiers bind loosest
	if p.peek().kind == "ident" && (p.peek().text == "forall" || p.peek().text == "exists") {
		return p.parseQuant()
	}
	lhs, err := p.parseUnary()
	if err != nil {
		return nil, err
	}
	for {
		t := p.peek()
		var op string
		if t.kind == "op" {
			op = t.text
		} else if t.kind == "ident" && t.text == "in" {
			op = "in"
		}
		if op == "?" && minPrec <= 0 {
			p.next()
			a, err := p.parseExpr(0)
			if err != nil {
				return nil, err
			}
			if err := p.expect(":"); err != nil {
				return nil, err
			}
			b, err := p.parseExpr(0)
			if err != nil {
				return nil, err
			}
			lhs = &SExpr{Kind: "cond", Args: []*SExpr{lhs, a, b}}
			continue
		}
		prec, ok := binPrec[op]
		if !ok || prec < minPrec {
			return lhs, nil
		}
		p.next()
		nextMin := prec + 1
		if op == "==>" { // right associative
			nextMin = prec
		}
		var rhs *SExpr
		if p.peek().kind == "ident" && (p.peek().text == "forall" || p.peek().text == "exists") {
			rhs, err = p.parseQuant()
		} else {
			rhs, err = p.parseExpr(nextMin)
		}
		if err != nil {
			return nil, err
		}
		lhs = &SExpr{Kind: "binop", Op: op, Args: []*SExpr{lhs, rhs}}
	}
}

func (p *sparser) parseQuant() (*SExpr, error) {
	kind := p.next().text
	var vars []QVar
	for {
		if p.peek().kind != "ident" {
			return nil, fmt.Errorf("expected bound variable in %q", p.src)
		}
		v := QVar{Name: p.next().text, Type: "int"}
		if p.peek().kind == "ident" && p.peek().text == "in" {
			p.next()
			lo, err := p.parseExpr(6)
			if err != nil {
				return nil, err
			}
			if err := p.expect(".."); err != nil {
				return nil, err
			}
			hi, err := p.parseExpr(6)
			if err != nil {
				return nil, err
			}
			v.Lo, v.Hi = lo, hi
		} else if p.peek().kind == "ident" {
			v.Type = p.next().text
			for p.accept(".") { // qualified type name
				v.Type += "." + p.next().text
			}
		}
		vars = append(vars, v)
		if !p.accept(",") {
			break
		}
	}
	if err := p.expect("::"); err != nil {
		return nil, err
	}
	body, err := p.parseExpr(0)
	if err != nil {
		return nil, err
	}
	return &SExpr{Kind: kind, Vars: vars, Args: []*SExpr{body}}, nil
}

func (p *sparser) parseUnary() (*SExpr, error) {
	if p.accept("!") {
		e, err := p.parseUnary()
		if err != nil {
			return nil, err
		}
		return &SExpr{Kind: "unop", Op: "!", Args: []*SExpr{e}}, nil
	}
	if p.accept("-") {
		e, err := p.parseUnary()
		if err != nil {
			return nil, err
		}
		return &SExpr{Kind: "unop", Op: "-", Args: []*SExpr{e}}, nil
	}
	return p.parsePostfix()
}

func (p *sparser) parsePostfix() (*SExpr, error) {
	var e *SExpr
	t := p.next()
	switch t.kind {
	case "int":
		e = &SExpr{Kind: "lit", Lit: t.text}
	case "str":
		e = &SExpr{Kind: "lit", Lit: "\"" + t.text + "\""}
	case "ident":
		e = &SExpr{Kind: "ident", Op: t.text}
	case "op":
		if t.text == "(" {
			inner, err := p.parseExpr(0)
			if err != nil {
				return nil, err
			}
			if err := p.expect(")"); err != nil {
				return nil, err
			}
			e = inner
		} else {
			return nil, fmt.Errorf("unexpected %q in %q", t.text, p.src)
		}
	default:
		return nil, fmt.Errorf("unexpected end of expression in %q", p.src)
	}
	for {
		switch {
		case p.accept("."):
			if p.peek().kind != "ident" {
				return nil, fmt.Errorf("expected field name after '.' in %q", p.src)
			}
			e = &SExpr{Kind: "sel", Op: p.next().text, Args: []*SExpr{e}}
		case p.accept("["):
			var lo, hi *SExpr
			var err error
			if !(p.peek().kind == "op" && p.peek().text == ":") {
				lo, err = p.parseExpr(0)
				if err != nil {
					return nil, err
				}
			}
			if p.accept(":") {
				if !(p.peek().kind == "op" && p.peek().text == "]") {
					hi, err = p.parseExpr(0)
					if err != nil {
						return nil, err
					}
				}
				if err := p.expect("]"); err != nil {
					return nil, err
				}
				e = &SExpr{Kind: "slice", Args: []*SExpr{e, lo, hi}}
			} else {
				if err := p.expect("]"); err != nil {
					return nil, err
				}
				e = &SExpr{Kind: "index", Args: []*SExpr{e, lo}}
			}
		case p.peek().kind == "op" && p.peek().text == "(" && (e.Kind == "ident" || e.Kind == "sel"):
			p.next()
			var args []*SExpr
			if !p.accept(")") {
				for {
					a, err := p.parseExpr(0)
					if err != nil {
						return nil, err
					}
					args = append(args, a)
					if p.accept(")") {
						break
					}
					if err := p.expect(","); err != nil {
						return nil, err
					}
				}
			}
			name := e.Op
			if e.Kind == "sel" {
				// method-style or qualified call: keep receiver as first arg with Op "recv.Method"
				if e.Args[0].Kind == "ident" {
					name = e.Args[0].Op + "." + e.Op
					// qualified spec function (pkg.f) or method call on a variable: resolved by evaluator
					e = &SExpr{Kind: "call", Op: name, Args: args, Lit: "qualified"}
					continue
				}
				e = &SExpr{Kind: "call", Op: "." + e.Op, Args: append([]*SExpr{e.Args[0]}, args...)}
				continue
			}
			if name == "old" && len(args) == 1 {
				e = &SExpr{Kind: "old", Args: args}
			} else {
				e = &SExpr{Kind: "call", Op: name, Args: args}
			}
		default:
			return e, nil
		}
	}
}

// ---------- contract file ----------

type Clause struct {
	Label string
	Expr  *SExpr
	Src   string
}

type LoopSpec struct {
	Ordinal    int
	Invariants []Clause
	Ghosts     []GhostLoopVar
	Decreases  *SExpr
}

type GhostLoopVar struct {
	Name   string
	Init   *SExpr
	Update *SExpr // evaluated over loop-head values on the back edge
}

type FnSpec struct {
	Key        string // funcKey within the package, or "iface T.M" / "ext pkg.F"
	Kind       string // fn | iface | ext | lemma
	Pkg        string
	Props      []string
	Requires   []Clause
	Ensures    []Clause
	Assigns    []*SExpr
	AssignsSet bool
	Panics     *SExpr // nil: must not panic; otherwise allowed condition over pre-state
	PanicsAny  bool   // "panics any": panics are not checked
	Loops      map[int]*LoopSpec
	Trusted    bool
	Pure       bool
	Params     []string // for lemma / ext / iface: parameter names
	Results    []string
	Bounded    string   // non-empty: a stated bound (this function is a bounded stand-in)
	Uses       []*SExpr // lemma instantiations: name(args)
	Witnesses  []Witness
	ParamKinds []string // lemma parameter kinds (int | map | set | bool)
	Induct     string   // lemma proved by strong induction on this (natural number) parameter
	Line       int
}

// Witness is a named existential witness: the function under verification computes it with Expr at each return;
// callers get a fresh constant of the given kind.
type Witness struct {
	Name string
	Kind string
	Expr *SExpr
}

func kindSort(kind string) Sort {
	switch kind {
	case "bool":
		return SBool
	case "set":
		return arrSort(SInt, SBool)
	case "map", "seq", "array":
		return arrSort(SInt, SInt)
	case "map2":
		return arrSort(SInt, arrSort(SInt, SInt))
	}
	return SInt
}

type SpecDef struct {
	Name   string
	Kind   string // pred | func | const
	Params []string
	Body   *SExpr
}

type GhostVar struct {
	Name string
	Kind string // "int", "map", "seq"
}

type ContractFile struct {
	Pkg    string // import path
	Defs   map[string]*SpecDef
	Fns    map[string]*FnSpec
	Order  []string
	Ghosts map[string]*GhostVar
	UFuncs map[string]Sort
	Raw    string
}

var clauseKeywords = map[string]bool{
	"pred": true, "func": true, "const": true, "ghost": true, "ufunc": true, "fn": true, "iface": true, "ext": true, "lemma": true, "lockinv": true,
	"requires": true, "ensures": true, "label": true, "assigns": true, "panics": true, "loop": true,
	"trusted": true, "pure": true, "property": true, "bounded": true, "params": true, "results": true, "use": true, "witness": true, "induct": true,
}

func parseContractFile(path, pkg string) (*ContractFile, error) {
	data, err := os.ReadFile(path)
	if err != nil {
		return nil, err
	}
	cf := &ContractFile{Pkg: pkg, Defs: map[string]*SpecDef{}, Fns: map[string]*FnSpec{}, Ghosts: map[string]*GhostVar{}, Raw: string(data)}
	type rawClause struct {
		kw   string
		text string
		line int
	}
	var clauses []rawClause
	for ln, line := range strings.Split(string(data), "\n") {
		t := strings.TrimSpace(line)
		if !strings.HasPrefix(t, "//@") {
			continue
		}
		body := strings.TrimSpace(t[3:])
		if body == "" {
			continue
		}
		if i := strings.Index(body, " //"); i >= 0 { // trailing comment
			body = strings.TrimSpace(body[:i])
		}
		if strings.HasPrefix(body, "//") {
			continue
		}
		first := body
		if i := strings.IndexAny(body, " \t("); i >= 0 {
			first = body[:i]
		}
		if clauseKeywords[first] {
			clauses = append(clauses, rawClause{first, strings.TrimSpace(body[len(first):]), ln + 1})
		} else {
			if len(clauses) == 0 {
				return nil, fmt.Errorf("%s:%d: continuation line without clause", path, ln+1)
			}
			clauses[len(clauses)-1].text += " " + body
		}
	}
	var cur *FnSpec
	label := ""
	fail := func(c rawClause, err error) error { return fmt.Errorf("%s:%d: %v", path, c.line, err) }
	for _, c := range clauses {
		switch c.kw {
		case "pred", "func", "const":
			d, err := parseDef(c.kw, c.text)
			if err != nil {
				return nil, fail(c, err)
			}
			cf.Defs[d.Name] = d
		case "ghost":
			f := strings.Fields(c.text)
			if len(f) < 3 || f[0] != "var" {
				return nil, fail(c, fmt.Errorf("ghost var NAME KIND expected"))
			}
			cf.Ghosts[f[1]] = &GhostVar{Name: f[1], Kind: f[2]}
		case "ufunc":
			// ufunc name(a, b) int|bool : an uninterpreted spec function (e.g. the time of an event value)
			t := strings.TrimSpace(c.text)
			i, j := strings.Index(t, "("), strings.LastIndex(t, ")")
			if i <= 0 || j < i {
				return nil, fail(c, fmt.Errorf("ufunc name(params) int|bool expected"))
			}
			srt := SInt
			if strings.TrimSpace(t[j+1:]) == "bool" {
				srt = SBool
			}
			if cf.UFuncs == nil {
				cf.UFuncs = map[string]Sort{}
			}
			cf.UFuncs[strings.TrimSpace(t[:i])] = srt
		case "fn", "iface", "ext", "lemma", "lockinv":
			key := strings.TrimSpace(c.text)
			cur = &FnSpec{Key: key, Kind: c.kw, Pkg: pkg, Loops: map[int]*LoopSpec{}, Line: c.line}
			if c.kw == "lemma" || c.kw == "ext" || c.kw == "iface" || c.kw == "lockinv" {
				// NAME(p1, p2) form gives parameter names
				if i := strings.LastIndex(key, "("); i > 0 && strings.HasSuffix(key, ")") && (unicode.IsLetter(rune(key[i-1])) || unicode.IsDigit(rune(key[i-1])) || key[i-1] == '_') {
					ps := strings.Split(key[i+1:len(key)-1], ",")
					cur.Key = strings.TrimSpace(key[:i])
					for _, p := range ps {
						p = strings.TrimSpace(p)
						if p != "" {
							pf := strings.Fields(p)
							cur.Params = append(cur.Params, pf[0])
							kind := "int"
							if len(pf) > 1 {
								kind = pf[1]
							}
							cur.ParamKinds = append(cur.ParamKinds, kind)
						}
					}
				}
			}
			k := c.kw + " " + cur.Key
			if c.kw == "fn" {
				k = cur.Key
			}
			if _, dup := cf.Fns[k]; dup {
				return nil, fail(c, fmt.Errorf("duplicate contract for %s", k))
			}
			cf.Fns[k] = cur
			cf.Order = append(cf.Order, k)
			label = ""
		case "label":
			label = strings.TrimSpace(c.text)
		default:
			if cur == nil {
				return nil, fail(c, fmt.Errorf("clause %s outside a fn block", c.kw))
			}
			switch c.kw {
			case "property":
				cur.Props = append(cur.Props, strings.Fields(c.text)...)
			case "trusted":
				cur.Trusted = true
			case "pure":
				cur.Pure = true
			case "bounded":
				cur.Bounded = c.text
			case "witness":
				// witness NAME int|bool|set|map = expr : a named existential witness of the postconditions
				f := strings.SplitN(c.text, "=", 2)
				hd := strings.Fields(f[0])
				if len(f) != 2 || len(hd) != 2 {
					return nil, fail(c, fmt.Errorf("witness NAME KIND = expr expected"))
				}
				we, err := parseSpecExpr(f[1])
				if err != nil {
					return nil, fail(c, err)
				}
				cur.Witnesses = append(cur.Witnesses, Witness{Name: hd[0], Kind: hd[1], Expr: we})
			case "use":
				e, err := parseSpecExpr(c.text)
				if err != nil {
					return nil, fail(c, err)
				}
				// use lemma(args)   or   use forall k :: lemma(args mentioning k)
				if !(e.Kind == "call" || (e.Kind == "forall" && e.Args[0].Kind == "call")) {
					return nil, fail(c, fmt.Errorf("use expects lemma(args) or forall v :: lemma(args)"))
				}
				cur.Uses = append(cur.Uses, e)
			case "induct":
				cur.Induct = strings.TrimSpace(c.text)
			case "params":
				cur.Params = strings.Fields(strings.ReplaceAll(c.text, ",", " "))
			case "results":
				cur.Results = strings.Fields(strings.ReplaceAll(c.text, ",", " "))
			case "requires", "ensures":
				e, err := parseSpecExpr(c.text)
				if err != nil {
					return nil, fail(c, err)
				}
				// split top-level conjunctions into separate clauses
				for i, conj := range splitConj(e) {
					l := label
					if l != "" && i > 0 {
						l = fmt.Sprintf("%s.%d", label, i)
					}
					cl := Clause{Label: l, Expr: conj, Src: conj.String()}
					if c.kw == "requires" {
						cur.Requires = append(cur.Requires, cl)
					} else {
						cur.Ensures = append(cur.Ensures, cl)
					}
				}
				label = ""
			case "assigns":
				cur.AssignsSet = true
				if strings.TrimSpace(c.text) != "" && strings.TrimSpace(c.text) != "nothing" {
					for _, part := range splitTopLevel(c.text, ',') {
						e, err := parseSpecExpr(part)
						if err != nil {
							return nil, fail(c, err)
						}
						cur.Assigns = append(cur.Assigns, e)
					}
				}
			case "panics":
				if strings.TrimSpace(c.text) == "any" {
					cur.PanicsAny = true
				} else {
					e, err := parseSpecExpr(c.text)
					if err != nil {
						return nil, fail(c, err)
					}
					cur.Panics = e
				}
			case "loop":
				// loop N: invariant E | ghost NAME = E | backedge NAME = E | decreases E
				rest := c.text
				i := strings.Index(rest, ":")
				if i < 0 {
					return nil, fail(c, fmt.Errorf("loop N: ... expected"))
				}
				var ord int
				if _, err := fmt.Sscanf(strings.TrimSpace(rest[:i]), "%d", &ord); err != nil {
					return nil, fail(c, fmt.Errorf("bad loop ordinal %q", rest[:i]))
				}
				rest = strings.TrimSpace(rest[i+1:])
				ls := cur.Loops[ord]
				if ls == nil {
					ls = &LoopSpec{Ordinal: ord}
					cur.Loops[ord] = ls
				}
				kw := rest
				if j := strings.IndexAny(rest, " \t"); j >= 0 {
					kw = rest[:j]
					rest = strings.TrimSpace(rest[j:])
				} else {
					rest = ""
				}
				switch kw {
				case "invariant":
					e, err := parseSpecExpr(rest)
					if err != nil {
						return nil, fail(c, err)
					}
					for i, conj := range splitConj(e) {
						l := label
						if l != "" && i > 0 {
							l = fmt.Sprintf("%s.%d", label, i)
						}
						ls.Invariants = append(ls.Invariants, Clause{Label: l, Expr: conj, Src: conj.String()})
					}
					label = ""
				case "ghost", "backedge":
					j := strings.Index(rest, "=")
					if j < 0 {
						return nil, fail(c, fmt.Errorf("loop %s NAME = EXPR expected", kw))
					}
					name := strings.TrimSpace(rest[:j])
					e, err := parseSpecExpr(rest[j+1:])
					if err != nil {
						return nil, fail(c, err)
					}
					found := false
					for gi := range ls.Ghosts {
						if ls.Ghosts[gi].Name == name {
							found = true
							if kw == "ghost" {
								ls.Ghosts[gi].Init = e
							} else {
								ls.Ghosts[gi].Update = e
							}
						}
					}
					if !found {
						g := GhostLoopVar{Name: name}
						if kw == "ghost" {
							g.Init = e
						} else {
							g.Update = e
						}
						ls.Ghosts = append(ls.Ghosts, g)
					}
				case "decreases":
					e, err := parseSpecExpr(rest)
					if err != nil {
						return nil, fail(c, err)
					}
					ls.Decreases = e
				default:
					return nil, fail(c, fmt.Errorf("unknown loop clause %q", kw))
				}
			}
		}
	}
	return cf, nil
}

func splitConj(e *SExpr) []*SExpr {
	if e.Kind == "binop" && e.Op == "&&" {
		return append(splitConj(e.Args[0]), splitConj(e.Args[1])...)
	}
	return []*SExpr{e}
}

func splitTopLevel(s string, sep rune) []string {
	var out []string
	depth := 0
	start := 0
	for i, c := range s {
		switch c {
		case '(', '[':
			depth++
		case ')', ']':
			depth--
		default:
			if c == sep && depth == 0 {
				out = append(out, strings.TrimSpace(s[start:i]))
				start = i + 1
			}
		}
	}
	out = append(out, strings.TrimSpace(s[start:]))
	return out
}

func parseDef(kind, text string) (*SpecDef, error) {
	eq := -1
	depth := 0
	for i, c := range text {
		if c == '(' {
			depth++
		} else if c == ')' {
			depth--
		} else if c == '=' && depth == 0 {
			if i+1 < len(text) && text[i+1] == '=' {
				continue
			}
			if i > 0 && strings.ContainsRune("=!<>", rune(text[i-1])) {
				continue
			}
			eq = i
			break
		}
	}
	if eq < 0 {
		return nil, fmt.Errorf("definition needs '=': %q", text)
	}
	head := strings.TrimSpace(text[:eq])
	body, err := parseSpecExpr(text[eq+1:])
	if err != nil {
		return nil, err
	}
	d := &SpecDef{Kind: kind, Body: body}
	if i := strings.Index(head, "("); i >= 0 {
		d.Name = strings.TrimSpace(head[:i])
		j := strings.LastIndex(head, ")")
		if j < i {
			return nil, fmt.Errorf("bad parameter list in %q", head)
		}
		for _, p := range splitTopLevel(head[i+1:j], ',') {
			p = strings.TrimSpace(p)
			if p == "" {
				continue
			}
			d.Params = append(d.Params, strings.Fields(p)[0])
		}
	} else {
		d.Name = strings.Fields(head)[0]
	}
	return d, nil
}
