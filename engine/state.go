package main

import (
	"fmt"
	"go/types"
	"strings"

	"golang.org/x/tools/go/ssa"
)

// Oblig is one proof obligation instance: assumptions ⊢ goal.
type Oblig struct {
	Name  string // stable name: <pkg>.<func>#<label>
	Kind  string // ensures | requires | inv-entry | inv-preserved | nopanic | safe | frame | lemma | cover | panics
	Asm   []Term
	Goal  Term
	Desc  string
	Pos   string
	Cover bool // must be satisfiable (vacuity guard), not valid
}

// State is the symbolic state along one path.
type State struct {
	ex           *Exec
	asm          []Term
	locals       map[*ssa.Alloc]Value
	regs         map[ssa.Value]Value
	heaps        map[string]Term
	epoch        int
	allocTop     Term
	ghost        map[string]Value // ghost globals and ghost loop variables
	ranged       map[string]bool
	defers       []*ssa.Defer
	rangeIt      map[ssa.Value]*rangeIter
	visits       map[*ssa.BasicBlock]int
	depth        int
	discoverLoop *loopInfo
	loopHeads    map[*ssa.BasicBlock]*State
	euclidSeen   map[string]bool
	havockedPrefixes []string
	lockSnaps        map[string]*State
	lastLockSnap     *State
	cameFrom         *ssa.BasicBlock
	pow2Seen         map[string]Term
}

// rangeIter is the ghost state of a `for k, v := range m` loop over a map: the set of keys already visited.
// Keys come in an arbitrary order; the loop ends exactly when every key of the map has been visited.
type rangeIter struct {
	mapRef  Term
	mapT    types.Type
	visited Term // Array Int Bool
	nextIn  *ssa.Next
}

func (st *State) clone() *State {
	n := &State{ex: st.ex, epoch: st.epoch, allocTop: st.allocTop, depth: st.depth, discoverLoop: st.discoverLoop}
	if st.loopHeads != nil {
		n.loopHeads = make(map[*ssa.BasicBlock]*State, len(st.loopHeads))
		for k, v := range st.loopHeads {
			n.loopHeads[k] = v
		}
	}
	if st.euclidSeen != nil {
		n.euclidSeen = make(map[string]bool, len(st.euclidSeen))
		for k, v := range st.euclidSeen {
			n.euclidSeen[k] = v
		}
	}
	n.havockedPrefixes = append([]string{}, st.havockedPrefixes...)
	n.lastLockSnap = st.lastLockSnap
	n.cameFrom = st.cameFrom
	if st.pow2Seen != nil {
		n.pow2Seen = make(map[string]Term, len(st.pow2Seen))
		for k, v := range st.pow2Seen {
			n.pow2Seen[k] = v
		}
	}
	if st.lockSnaps != nil {
		n.lockSnaps = make(map[string]*State, len(st.lockSnaps))
		for k, v := range st.lockSnaps {
			n.lockSnaps[k] = v
		}
	}
	n.asm = st.asm[:len(st.asm):len(st.asm)]
	n.locals = make(map[*ssa.Alloc]Value, len(st.locals))
	for k, v := range st.locals {
		n.locals[k] = v
	}
	n.regs = make(map[ssa.Value]Value, len(st.regs))
	for k, v := range st.regs {
		n.regs[k] = v
	}
	n.heaps = make(map[string]Term, len(st.heaps))
	for k, v := range st.heaps {
		n.heaps[k] = v
	}
	n.ghost = make(map[string]Value, len(st.ghost))
	for k, v := range st.ghost {
		n.ghost[k] = v
	}
	n.ranged = make(map[string]bool, len(st.ranged))
	for k, v := range st.ranged {
		n.ranged[k] = v
	}
	n.defers = append([]*ssa.Defer{}, st.defers...)
	n.rangeIt = make(map[ssa.Value]*rangeIter, len(st.rangeIt))
	for k, v := range st.rangeIt {
		c := *v
		n.rangeIt[k] = &c
	}
	n.visits = make(map[*ssa.BasicBlock]int, len(st.visits))
	for k, v := range st.visits {
		n.visits[k] = v
	}
	return n
}

func (st *State) assume(t Term) {
	if t.S == "true" {
		return
	}
	st.asm = append(st.asm, t)
}

// named introduces a constant equal to t when t is large, to keep later terms small.
func (st *State) named(prefix string, t Term) Term {
	if len(t.S) < 120 {
		return t
	}
	c := st.ex.ctx.Fresh(prefix, t.Sort)
	st.assume(tEq(c, t))
	return c
}

func (st *State) oblige(name, kind string, goal Term, desc string) {
	if goal.S == "true" {
		// still record as trivially discharged so counts and vacuity checks see it
		st.ex.addOblig(Oblig{Name: name, Kind: kind, Asm: nil, Goal: tTrue, Desc: desc})
		return
	}
	// a conjunction is proved conjunct by conjunct (a negated conjunction is a disjunction the solvers handle far worse);
	// implications with a conjunctive conclusion are distributed likewise
	if parts := splitGoal(goal); len(parts) > 1 {
		for i, p := range parts {
			st.ex.addOblig(Oblig{Name: fmt.Sprintf("%s/%d", name, i), Kind: kind, Asm: st.asm[:len(st.asm):len(st.asm)], Goal: p, Desc: desc})
		}
		return
	}
	st.ex.addOblig(Oblig{Name: name, Kind: kind, Asm: st.asm[:len(st.asm):len(st.asm)], Goal: goal, Desc: desc})
}

// splitGoal splits (and a b ...) and (=> h (and a b ...)) into separate goals.
func splitGoal(g Term) []Term {
	if strings.HasPrefix(g.S, "(and ") {
		items, _ := parseSexprList(g.S)
		var out []Term
		for _, it := range items[1:] {
			out = append(out, splitGoal(Term{it, SBool})...)
		}
		return out
	}
	if strings.HasPrefix(g.S, "(=> ") {
		items, _ := parseSexprList(g.S)
		if len(items) == 3 {
			concl := splitGoal(Term{items[2], SBool})
			if len(concl) > 1 {
				var out []Term
				for _, c := range concl {
					out = append(out, tImp(Term{items[1], SBool}, c))
				}
				return out
			}
		}
	}
	return []Term{g}
}

// ---------- heap ----------

func heapSort(ndims int, leafSort Sort) Sort {
	s := leafSort
	for i := 0; i < ndims; i++ {
		s = arrSort(SInt, s)
	}
	return s
}

func (st *State) heap(key string, sort Sort) Term {
	if t, ok := st.heaps[key]; ok {
		if t.Sort != sort {
			panic(fmt.Sprintf("heap %s: sort %s vs %s", key, t.Sort, sort))
		}
		return t
	}
	name := "H_" + key
	if st.epoch > 0 {
		name = fmt.Sprintf("H%d_%s", st.epoch, key)
	}
	for i, p := range st.havockedPrefixes {
		if strings.HasPrefix(key, p) {
			name = fmt.Sprintf("Hk%d_%d_%s", st.epoch, i, key)
		}
	}
	t := st.ex.ctx.Const(name, sort)
	st.heaps[key] = t
	return t
}

func (st *State) setHeap(key string, val Term) {
	if st.ex.discover != nil {
		st.ex.discover.keys[key] = val.Sort
	}
	c := st.ex.ctx.Fresh("H_"+key, val.Sort)
	st.assume(tEq(c, val))
	st.heaps[key] = c
}

func selectN(arr Term, dims []Term) Term {
	for _, d := range dims {
		arr = tSelect(arr, d, elemSort(arr.Sort))
	}
	return arr
}

func storeN(arr Term, dims []Term, v Term) Term {
	if len(dims) == 0 {
		return v
	}
	inner := storeN(tSelect(arr, dims[0], elemSort(arr.Sort)), dims[1:], v)
	return tStore(arr, dims[0], inner)
}

func heapKey(l Loc, leafPath string) string { return l.Kind + "|" + l.Base + "|" + l.Path + leafPath }

// typeAssume adds the range assumption a value of scalar Go type ty carries.
func (st *State) typeAssume(t Term, ty types.Type) {
	if ty == nil || t.Sort != SInt {
		return
	}
	if _, ok := litVal(t); ok {
		return
	}
	if st.ranged[t.S] {
		return
	}
	if bits, signed, ok := intInfo(ty); ok {
		st.ranged[t.S] = true
		st.assume(inRange(t, bits, signed))
		return
	}
	switch under(ty).(type) {
	case *types.Pointer, *types.Map, *types.Chan:
		st.ranged[t.S] = true
		st.assume(tAnd(tLe(intLit(0), t), tLe(t, st.allocTop)))
	}
}

func (st *State) sliceAssume(s Sl) {
	if st.ranged[s.Len.S+"|"+s.Ref.S] {
		return
	}
	st.ranged[s.Len.S+"|"+s.Ref.S] = true
	st.assume(tAnd(tLe(intLit(0), s.Ref), tLe(s.Ref, st.allocTop), tLe(intLit(0), s.Off), tLe(intLit(0), s.Len), tLe(s.Len, s.Cap),
		tLe(tAdd(s.Off, s.Cap), bigLit(pow2(62))), tImp(tEq(s.Ref, intLit(0)), tEq(s.Cap, intLit(0)))))
}

// load reads the value designated by l.
func (st *State) load(l Loc) Value {
	if l.ArrRoot {
		at := under(l.Type).(*types.Array)
		if at.Len() > 256 {
			unsup("load of a whole heap-backed array")
		}
		av := Ar{}
		for i := int64(0); i < at.Len(); i++ {
			av.E = append(av.E, st.load(l.index(intLit(i))))
		}
		return av
	}
	if l.Alloc != nil {
		root, ok := st.locals[l.Alloc]
		if !ok {
			unsup("read of uninitialised local %s", l.Alloc.Comment)
		}
		return st.navGet(root, l.Alloc.Type().(*types.Pointer).Elem(), l.Steps)
	}
	base := len(l.Dims)
	v := buildValue(l.Type, "", nil, func(path string, sort Sort, ty types.Type, idx []Term) Term {
		dims := append(append([]Term{}, l.Dims...), idx...)
		h := st.heap(heapKey(l, path), heapSort(base+len(idx), sort))
		t := selectN(h, dims)
		st.typeAssume(t, ty)
		return t
	})
	st.assumeHeaders(v, l.Type)
	return v
}

// assumeHeaders adds well-formedness assumptions for slice headers inside a loaded value.
func (st *State) assumeHeaders(v Value, t types.Type) {
	switch x := v.(type) {
	case If:
		// the nil interface is (0, 0): a zero type tag carries no value
		if _, lit := litVal(x.Typ); !lit && !st.ranged["if|"+x.Typ.S+"|"+x.Val.S] {
			st.ranged["if|"+x.Typ.S+"|"+x.Val.S] = true
			st.assume(tAnd(tLe(intLit(0), x.Typ), tImp(tEq(x.Typ, intLit(0)), tEq(x.Val, intLit(0)))))
		}
	case Sl:
		st.sliceAssume(x)
	case St:
		u := under(t).(*types.Struct)
		for i, f := range x.F {
			st.assumeHeaders(f, u.Field(i).Type())
		}
	case Ar:
		u := under(t).(*types.Array)
		for _, e := range x.E {
			st.assumeHeaders(e, u.Elem())
		}
	}
}

// store writes v to the location l.
func (st *State) store(l Loc, v Value) {
	if l.ArrRoot {
		at := under(l.Type).(*types.Array)
		av, ok := v.(Ar)
		if !ok || at.Len() > 256 || int64(len(av.E)) != at.Len() {
			unsup("store of a whole heap-backed array")
		}
		for i, e := range av.E {
			st.store(l.index(intLit(int64(i))), e)
		}
		return
	}
	if l.Alloc != nil {
		root := st.locals[l.Alloc]
		st.locals[l.Alloc] = st.navSet(root, l.Alloc.Type().(*types.Pointer).Elem(), l.Steps, v)
		return
	}
	base := len(l.Dims)
	walkValue(l.Type, v, "", nil, func(path string, sort Sort, ty types.Type, idx []Term, val Term) {
		dims := append(append([]Term{}, l.Dims...), idx...)
		key := heapKey(l, path)
		h := st.heap(key, heapSort(base+len(idx), sort))
		st.setHeap(key, storeN(h, dims, val))
	})
}

func (st *State) navGet(v Value, t types.Type, steps []Step) Value {
	if len(steps) == 0 {
		return v
	}
	s := steps[0]
	if !s.IsIdx {
		sv, ok := v.(St)
		if !ok {
			unsup("field step on non-struct local (%T)", v)
		}
		ft := under(t).(*types.Struct).Field(s.Field).Type()
		return st.navGet(sv.F[s.Field], ft, steps[1:])
	}
	av, ok := v.(Ar)
	if !ok {
		unsup("index step on non-array local (%T)", v)
	}
	et := under(t).(*types.Array).Elem()
	if k, ok := litVal(s.Idx); ok {
		return st.navGet(av.E[k.Int64()], et, steps[1:])
	}
	// symbolic index: ite chain
	var res Value
	for i := len(av.E) - 1; i >= 0; i-- {
		e := st.navGet(av.E[i], et, steps[1:])
		if res == nil {
			res = e
		} else {
			res = iteValue(typeAfter(et, steps[1:]), tEq(s.Idx, intLit(int64(i))), e, res)
		}
	}
	return res
}

func typeAfter(t types.Type, steps []Step) types.Type {
	for _, s := range steps {
		if s.IsIdx {
			t = under(t).(*types.Array).Elem()
		} else {
			t = under(t).(*types.Struct).Field(s.Field).Type()
		}
	}
	return t
}

func (st *State) navSet(root Value, t types.Type, steps []Step, v Value) Value {
	if len(steps) == 0 {
		return v
	}
	s := steps[0]
	if !s.IsIdx {
		sv, ok := root.(St)
		if !ok {
			unsup("field store on non-struct local (%T)", root)
		}
		ft := under(t).(*types.Struct).Field(s.Field).Type()
		nf := append([]Value{}, sv.F...)
		nf[s.Field] = st.navSet(sv.F[s.Field], ft, steps[1:], v)
		return St{nf}
	}
	av, ok := root.(Ar)
	if !ok {
		unsup("index store on non-array local (%T)", root)
	}
	et := under(t).(*types.Array).Elem()
	ne := append([]Value{}, av.E...)
	if k, ok := litVal(s.Idx); ok {
		ne[k.Int64()] = st.navSet(av.E[k.Int64()], et, steps[1:], v)
		return Ar{ne}
	}
	for i := range ne {
		upd := st.navSet(av.E[i], et, steps[1:], v)
		ne[i] = iteValue(et, tEq(s.Idx, intLit(int64(i))), upd, av.E[i])
	}
	return Ar{ne}
}

// newRef allocates a fresh object reference.
func (st *State) newRef(hint string) Term {
	r := st.ex.ctx.Fresh("ref_"+hint, SInt)
	st.assume(tGt(r, st.allocTop))
	st.allocTop = r
	return r
}

// freshValue builds an unconstrained value of type t (with range assumptions).
func (st *State) freshValue(t types.Type, hint string) Value {
	v := buildValue(t, "", nil, func(path string, sort Sort, ty types.Type, idx []Term) Term {
		name := hint + path
		for _, i := range idx {
			name += "_" + i.S
		}
		c := st.ex.ctx.Fresh(name, sort)
		st.typeAssume(c, ty)
		return c
	})
	st.assumeHeaders(v, t)
	return v
}

// havocAll forgets the whole heap (call to an unknown function).
func (st *State) havocAll() {
	st.epoch = st.ex.nextEpoch()
	st.heaps = map[string]Term{}
	top := st.ex.ctx.Fresh("allocTop", SInt)
	st.assume(tGe(top, st.allocTop))
	st.allocTop = top
	// ghost globals are part of the state an unconstrained callee may change
	for _, cf := range st.ex.db.files {
		for name := range cf.Ghosts {
			if sc, ok := st.ghost[name].(Sc); ok {
				st.ghost[name] = Sc{st.ex.ctx.Fresh("ghost_"+name, sc.T.Sort)}
			}
		}
	}
}

// derefPtr turns a pointer value into a location.
func (st *State) derefPtr(v Value, pointee types.Type) Loc {
	switch p := v.(type) {
	case Loc:
		return p
	case Sc:
		return Loc{Kind: "O", Base: typeKeyString(pointee), Dims: []Term{p.T}, Type: pointee}
	}
	unsup("dereference of %T", v)
	return Loc{}
}

func (l Loc) field(i int) Loc {
	stt := under(l.Type).(*types.Struct)
	f := stt.Field(i)
	n := l
	n.Type = f.Type()
	if l.Alloc != nil {
		n.Steps = append(append([]Step{}, l.Steps...), Step{Field: i})
		return n
	}
	n.Path = l.Path + "." + f.Name()
	return n
}

func (l Loc) index(i Term) Loc {
	at := under(l.Type).(*types.Array)
	n := l
	n.Type = at.Elem()
	if l.ArrRoot {
		n.ArrRoot = false
		n.Dims = append(append([]Term{}, l.Dims...), i)
		return n
	}
	if l.Alloc != nil {
		n.Steps = append(append([]Step{}, l.Steps...), Step{IsIdx: true, Idx: i})
		return n
	}
	n.Path = l.Path + "[]"
	n.Dims = append(append([]Term{}, l.Dims...), i)
	return n
}

func elemLoc(s Sl, elem types.Type, i Term) Loc {
	return Loc{Kind: "E", Base: typeKeyString(elem), Dims: []Term{s.Ref, linNorm(tAdd(s.Off, i))}, Type: elem}
}

func keyIsUnder(key, prefix string) bool { return strings.HasPrefix(key, prefix) }
