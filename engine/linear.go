package main

import (
	"math/big"
	"sort"
	"strings"
)

// linNorm rewrites an integer term into a canonical linear form over its non-arithmetic subterms:
// (+ atom1 (* c atom2) ... const) with atoms sorted. Index terms are normalised so that the same element is
// always denoted by the same text (e.g. (off+1)+(a-(off+1)) becomes a), which is what makes quantifier
// instantiation by matching work across reslicing.
func linNorm(t Term) Term {
	if t.Sort != SInt {
		return t
	}
	coef := map[string]*big.Int{}
	k := new(big.Int)
	if !linCollect(t.S, big.NewInt(1), coef, k) {
		return t
	}
	var atoms []string
	for a, c := range coef {
		if c.Sign() != 0 {
			atoms = append(atoms, a)
		}
	}
	sort.Strings(atoms)
	var parts []string
	for _, a := range atoms {
		c := coef[a]
		switch {
		case c.Cmp(big.NewInt(1)) == 0:
			parts = append(parts, a)
		case c.Cmp(big.NewInt(-1)) == 0:
			parts = append(parts, "(- "+a+")")
		default:
			parts = append(parts, "(* "+bigLit(c).S+" "+a+")")
		}
	}
	if k.Sign() != 0 || len(parts) == 0 {
		parts = append(parts, bigLit(k).S)
	}
	if len(parts) == 1 {
		return Term{parts[0], SInt}
	}
	return Term{"(+ " + strings.Join(parts, " ") + ")", SInt}
}

// linCollect adds mult*term to the accumulator. Returns false if the text cannot be parsed.
func linCollect(s string, mult *big.Int, coef map[string]*big.Int, k *big.Int) bool {
	s = strings.TrimSpace(s)
	if v, ok := litVal(Term{s, SInt}); ok {
		k.Add(k, new(big.Int).Mul(mult, v))
		return true
	}
	if !strings.HasPrefix(s, "(") {
		addCoef(coef, s, mult)
		return true
	}
	items, _ := parseSexprList(s)
	if len(items) == 0 {
		return false
	}
	switch items[0] {
	case "+":
		for _, it := range items[1:] {
			if !linCollect(it, mult, coef, k) {
				return false
			}
		}
		return true
	case "-":
		if len(items) == 2 {
			return linCollect(items[1], new(big.Int).Neg(mult), coef, k)
		}
		if !linCollect(items[1], mult, coef, k) {
			return false
		}
		neg := new(big.Int).Neg(mult)
		for _, it := range items[2:] {
			if !linCollect(it, neg, coef, k) {
				return false
			}
		}
		return true
	case "*":
		if len(items) == 3 {
			if v, ok := litVal(Term{items[1], SInt}); ok {
				return linCollect(items[2], new(big.Int).Mul(mult, v), coef, k)
			}
			if v, ok := litVal(Term{items[2], SInt}); ok {
				return linCollect(items[1], new(big.Int).Mul(mult, v), coef, k)
			}
		}
	}
	addCoef(coef, s, mult)
	return true
}

func addCoef(coef map[string]*big.Int, atom string, c *big.Int) {
	if old, ok := coef[atom]; ok {
		old.Add(old, c)
		return
	}
	coef[atom] = new(big.Int).Set(c)
}
