package main

import (
	"fmt"
	"go/types"
	"strings"
)

// fpItem is one scalar of the input footprint: a label a replay harness understands and the SMT term
// that denotes it in the entry state.
type fpItem struct {
	Label string
	Term  Term
}

const fpElems = 16 // slice elements reported per slice
const fpDepth = 3

// buildFootprint lists the scalars that describe the inputs of the function under verification in its
// entry state: parameters, the fields of objects they point to, slice lengths and the first few elements.
// The solver is asked for their values in a counterexample so that the real code can be run on it.
func (ex *Exec) buildFootprint() []fpItem {
	var out []fpItem
	seen := map[string]bool{}
	add := func(label string, t Term) {
		if seen[label] || len(out) > 400 {
			return
		}
		seen[label] = true
		out = append(out, fpItem{label, t})
	}
	var walk func(label string, v Value, t types.Type, depth int)
	walk = func(label string, v Value, t types.Type, depth int) {
		if depth > fpDepth || t == nil {
			return
		}
		switch x := v.(type) {
		case Sc:
			add(label, x.T)
			if p, ok := under(t).(*types.Pointer); ok {
				if _, isStruct := under(p.Elem()).(*types.Struct); isStruct && depth < fpDepth {
					l := Loc{Kind: "O", Base: typeKeyString(p.Elem()), Dims: []Term{x.T}, Type: p.Elem()}
					walk(label, ex.pureLoad(l), p.Elem(), depth+1)
				}
			}
		case If:
			add(label+"#typ", x.Typ)
			add(label+"#val", x.Val)
		case Sl:
			add(label+"#len", x.Len)
			add(label+"#cap", x.Cap)
			add(label+"#ref", x.Ref)
			et := under(t).(*types.Slice).Elem()
			if depth < fpDepth {
				for i := 0; i < fpElems; i++ {
					l := elemLoc(x, et, intLit(int64(i)))
					walk(fmt.Sprintf("%s[%d]", label, i), ex.pureLoad(l), et, depth+1)
				}
			}
		case St:
			u, ok := under(t).(*types.Struct)
			if !ok {
				return
			}
			for i, f := range x.F {
				if u.Field(i).Name() == "HookableBase" || strings.HasPrefix(u.Field(i).Name(), "_") {
					continue
				}
				walk(label+"."+u.Field(i).Name(), f, u.Field(i).Type(), depth)
			}
		case Ar:
			u := under(t).(*types.Array)
			for i, e := range x.E {
				walk(fmt.Sprintf("%s[%d]", label, i), e, u.Elem(), depth)
			}
		}
	}
	if ex.fn != nil {
		for _, p := range ex.fn.Params {
			tv := ex.params[p.Name()]
			walk(p.Name(), tv.V, tv.T, 0)
		}
	}
	for name, s := range ex.ctx.declSet {
		if strings.HasPrefix(name, "zero_") && s == SInt {
			add(name, Term{name, SInt})
		}
	}
	return out
}

// pureLoad reads a location in the entry state without adding assumptions.
func (ex *Exec) pureLoad(l Loc) Value {
	st := ex.entry
	base := len(l.Dims)
	var v Value
	func() {
		defer func() {
			if r := recover(); r != nil {
				if _, ok := r.(unsupported); ok {
					v = nil
					return
				}
				panic(r)
			}
		}()
		v = buildValue(l.Type, "", nil, func(path string, sort Sort, ty types.Type, idx []Term) Term {
			dims := append(append([]Term{}, l.Dims...), idx...)
			h := st.heap(heapKey(l, path), heapSort(base+len(idx), sort))
			return selectN(h, dims)
		})
	}()
	return v
}

// ---------- s-expression parsing of (get-value ...) answers ----------

// parseValues returns the values, in order, of a get-value answer that follows the "@@values" marker.
func parseValues(out string) []string {
	i := strings.Index(out, "@@values")
	if i < 0 {
		return nil
	}
	rest := out[i+len("@@values"):]
	j := strings.Index(rest, "(")
	if j < 0 {
		return nil
	}
	items, _ := parseSexprList(rest[j:])
	var vals []string
	for _, it := range items {
		sub, _ := parseSexprList(it)
		if len(sub) < 2 {
			vals = append(vals, "")
			continue
		}
		v := strings.TrimSpace(sub[len(sub)-1])
		if strings.HasPrefix(v, "(- ") {
			v = "-" + strings.TrimSuffix(strings.TrimPrefix(v, "(- "), ")")
		}
		vals = append(vals, v)
	}
	return vals
}

// parseSexprList splits "(a b (c d) e)" into its top-level elements.
func parseSexprList(s string) ([]string, string) {
	s = strings.TrimLeft(s, " \n\t\r")
	if !strings.HasPrefix(s, "(") {
		return nil, s
	}
	var items []string
	depth := 0
	start := -1
	inStr := false
	for i := 0; i < len(s); i++ {
		c := s[i]
		if inStr {
			if c == '"' {
				inStr = false
			}
			continue
		}
		switch c {
		case '"':
			inStr = true
			if depth == 1 && start < 0 {
				start = i
			}
		case '(':
			depth++
			if depth == 2 && start < 0 {
				start = i
			}
		case ')':
			depth--
			if depth == 1 && start >= 0 && s[start] == '(' {
				items = append(items, s[start:i+1])
				start = -1
			}
			if depth == 0 {
				if start >= 0 {
					items = append(items, s[start:i])
				}
				return items, s[i+1:]
			}
		case ' ', '\n', '\t', '\r':
			if depth == 1 && start >= 0 && s[start] != '(' {
				items = append(items, s[start:i])
				start = -1
			}
		default:
			if depth == 1 && start < 0 {
				start = i
			}
		}
	}
	return items, ""
}
