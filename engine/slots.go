package main

import (
	"context"
	"fmt"
	"math/rand"
	"os"
	"path/filepath"
	"regexp"
	"runtime"
	"strings"
	"sync"
	"syscall"
	"time"
)

// acquireSolverSlot limits the number of solver processes running on the machine at the same time — across all akverif
// processes — to the number of CPUs, with advisory file locks in the temp directory. Solver limits are wall-clock limits;
// without this, several checks running side by side (thorough + quick, self-tests) starve each other into timeouts.
// The lock files are created on demand; if the directory cannot be used the limiter is simply off.
func acquireSolverSlot(ctx context.Context) func() {
	dir := filepath.Join(os.TempDir(), "akverif-slots")
	if err := os.MkdirAll(dir, 0o777); err != nil {
		return func() {}
	}
	n := runtime.NumCPU()
	if n < 2 {
		n = 2
	}
	start := rand.Intn(n)
	deadline := time.Now().Add(10 * time.Minute)
	for {
		for k := 0; k < n; k++ {
			p := filepath.Join(dir, fmt.Sprintf("slot-%d", (start+k)%n))
			f, err := os.OpenFile(p, os.O_CREATE|os.O_RDWR, 0o666)
			if err != nil {
				return func() {}
			}
			if syscall.Flock(int(f.Fd()), syscall.LOCK_EX|syscall.LOCK_NB) == nil {
				return func() {
					syscall.Flock(int(f.Fd()), syscall.LOCK_UN)
					f.Close()
				}
			}
			f.Close()
		}
		if ctx.Err() != nil || time.Now().After(deadline) {
			return func() {}
		}
		time.Sleep(time.Duration(15+rand.Intn(30)) * time.Millisecond)
	}
}

// execWorkers is the number of functions executed symbolically at the same time (AKVERIF_EXEC_WORKERS overrides).
func execWorkers() int {
	if s := os.Getenv("AKVERIF_EXEC_WORKERS"); s != "" {
		var n int
		if _, err := fmt.Sscanf(s, "%d", &n); err == nil && n >= 1 {
			return n
		}
	}
	n := runtime.NumCPU() / 2
	if n < 1 {
		n = 1
	}
	if n > 8 {
		n = 8
	}
	return n
}

// defsMu guards the Defs maps of contract files: synthetic predicates (induction hypotheses, `use forall` instances) are
// added while functions are verified in parallel.
var defsMu sync.RWMutex

// sharedProviders: packages whose contract files were written as the shared source of ext/iface contracts for library
// interfaces (messaging.Port, IDGenerator, tracing, ...). Their files are loaded first and their declarations win the
// global table; every package may still override a declaration for its own calls.
var sharedProviders = []string{"_std", "mem/rob", "noc/directconnection", "messaging", "timing", "queueing", "modeling",
	"hooking", "mem", "internal/codec", "daisen2/internal/httpapi"}

// providerRank accepts a directory relative to the contracts root or an import path.
func providerRank(pkg string) int {
	for i, p := range sharedProviders {
		if pkg == p || strings.HasSuffix(pkg, "/"+p) {
			return i
		}
	}
	return len(sharedProviders)
}

// ghostSortAt is ghostSortOf with knowledge of the state: a loop ghost initialised from another ghost or from the witness
// of a native model (`ghost pos = SortedKeys_pos`) has that ghost's sort.
func ghostSortAt(st *State, init *SExpr) Sort {
	if init != nil && init.Kind == "ident" {
		if v, ok := st.ghost[init.Op].(Sc); ok {
			return v.T.Sort
		}
		for _, suf := range []string{"_pos", "_pi", "_inv"} {
			if strings.HasSuffix(init.Op, suf) {
				return arrSort(SInt, SInt)
			}
		}
	}
	return ghostSortOf(init)
}

var (
	reCallOrd = regexp.MustCompile(`#call\d+\.`)
	reLineNum = regexp.MustCompile(`\.(\d+)(/\d+)?$`)
	reSafe    = regexp.MustCompile(`#(safe\.[a-z]+|frame|nopanic|safe\.callpanic\.[^#]*?)\.\d+`)
)

// normObName removes call ordinals and source line numbers from an obligation name (they shift when code is edited);
// the split-conjunct suffix /k is dropped with them.
func normObName(n string) string {
	n = reCallOrd.ReplaceAllString(n, "#call.")
	if reSafe.MatchString(n) {
		n = reLineNum.ReplaceAllString(n, "")
	}
	return n
}
