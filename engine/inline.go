package main

import (
	"go/types"

	"golang.org/x/tools/go/ssa"
)

// inlineStraightLine executes a call of a function literal that has no contract of its own by running its body on the
// caller's state: the typical `defer func() { _ = conn.Close() }()`. Only straight-line bodies (one basic block, no
// deferred calls of their own) are inlined; the callee's SSA values are distinct objects, so they can live in the caller's
// register map. The calls inside the body go through their own contracts as usual.
func (ex *Exec) inlineStraightLine(st *State, callee *ssa.Function, bindings []Value, args []TV) (Value, bool, bool) {
	if len(callee.Blocks) != 1 || callee.Recover != nil {
		return nil, false, false
	}
	for _, in := range callee.Blocks[0].Instrs {
		switch in.(type) {
		case *ssa.Defer, *ssa.Go, *ssa.If, *ssa.Jump, *ssa.Panic, *ssa.Select:
			return nil, false, false
		}
	}
	if len(bindings) != len(callee.FreeVars) || len(args) != len(callee.Params) {
		return nil, false, false
	}
	ex.note("function literal " + callee.Name() + " without a contract is executed inline (straight-line body)")
	for i, fv := range callee.FreeVars {
		st.regs[fv] = bindings[i]
	}
	for i, p := range callee.Params {
		st.regs[p] = args[i].V
	}
	for _, in := range callee.Blocks[0].Instrs {
		switch x := in.(type) {
		case *ssa.Return:
			switch len(x.Results) {
			case 0:
				return Tu{}, false, true
			case 1:
				return st.val(x.Results[0]), false, true
			}
			var tu Tu
			for _, r := range x.Results {
				tu.E = append(tu.E, st.val(r))
			}
			return tu, false, true
		case *ssa.RunDefers, *ssa.DebugRef:
		default:
			if ex.step(st, in) {
				return nil, true, true
			}
		}
	}
	return Tu{}, false, true
}

// namedFuncTypeKey returns "pkgpath.TypeName" and "pkg.TypeName" for a value whose static type is a named function type
// (context.CancelFunc, http.HandlerFunc, ...): such a call may have a trusted `ext <pkg>.<TypeName>(params)` contract, an
// assumption about every function of that type the code is handed.
func namedFuncTypeKey(t types.Type) []string {
	n, ok := types.Unalias(t).(*types.Named)
	if !ok || n.Obj().Pkg() == nil {
		return nil
	}
	if _, isSig := n.Underlying().(*types.Signature); !isSig {
		return nil
	}
	return []string{n.Obj().Pkg().Path() + "." + n.Obj().Name(), n.Obj().Pkg().Name() + "." + n.Obj().Name()}
}
