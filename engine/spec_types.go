package main

import (
	"go/types"
	"os"
	"runtime"
	"strconv"
	"strings"
)

// resolveType turns a type written in a contract ("*sequentialIDGenerator", "pkg.Name", "*pkg.Name") into a types.Type
// by looking the name up in the package of the function under verification (or one of its imports).
func (env *Env) resolveType(s string) types.Type {
	s = strings.TrimSpace(s)
	if strings.HasPrefix(s, "*") {
		return types.NewPointer(env.resolveType(s[1:]))
	}
	pkg := env.specPkg()
	if pkg == nil {
		sfail("cannot resolve type %s: package types not loaded", s)
	}
	if i := strings.Index(s, "["); i > 0 && strings.HasSuffix(s, "]") {
		s = s[:i] // name[T]: the type arguments are those of the function under verification
	}
	name := s
	if i := strings.Index(s, "."); i > 0 {
		var found *types.Package
		for _, imp := range pkg.Imports() {
			if imp.Name() == s[:i] {
				found = imp
			}
		}
		if found == nil && pkg.Name() == s[:i] {
			found = pkg
		}
		if found == nil {
			sfail("unknown package %s in type %s", s[:i], s)
		}
		pkg = found
		name = s[i+1:]
	}
	obj := pkg.Scope().Lookup(name)
	tn, ok := obj.(*types.TypeName)
	if !ok {
		if b := types.Universe.Lookup(name); b != nil {
			if tn2, ok := b.(*types.TypeName); ok {
				return tn2.Type()
			}
		}
		sfail("unknown type %s", s)
	}
	if nt, ok := tn.Type().(*types.Named); ok && nt.TypeParams().Len() > 0 && env.ex != nil && env.ex.fn != nil {
		// a generic type named inside a generic function: instantiate it with that function's own type parameters
		tps := env.ex.fn.TypeParams()
		if tps.Len() == nt.TypeParams().Len() {
			var targs []types.Type
			for i := 0; i < tps.Len(); i++ {
				targs = append(targs, tps.At(i))
			}
			if inst, err := types.Instantiate(nil, nt, targs, false); err == nil {
				return inst
			}
		}
	}
	return tn.Type()
}

// lookupUFunc finds an uninterpreted spec function declared with `ufunc` (in this package's contract files, or
// qualified as pkg.name) and returns its result sort.
func (env *Env) lookupUFunc(name string) (Sort, bool) {
	if env.cf != nil && env.cf.UFuncs != nil {
		if s, ok := env.cf.UFuncs[name]; ok {
			return s, true
		}
	}
	if i := strings.Index(name, "."); i > 0 {
		if cf := env.ex.db.byShortName(name[:i]); cf != nil && cf.UFuncs != nil {
			if s, ok := cf.UFuncs[name[i+1:]]; ok {
				return s, true
			}
		}
	}
	return "", false
}

// ufuncName gives the SMT name of a ufunc: the same whether it is referenced from its own package or qualified.
func (env *Env) ufuncName(name string) string {
	if i := strings.Index(name, "."); i > 0 {
		return "spec_" + sanitize(name)
	}
	if env.cf != nil {
		p := env.cf.Pkg
		if j := strings.LastIndex(p, "/"); j >= 0 {
			p = p[j+1:]
		}
		return "spec_" + sanitize(p+"."+name)
	}
	return "spec_" + sanitize(name)
}

// ghostSortOf guesses the sort of a ghost loop variable from its initial value.
func ghostSortOf(init *SExpr) Sort {
	if init == nil {
		return SInt
	}
	switch init.Kind {
	case "ident":
		switch init.Op {
		case "idperm":
			return arrSort(SInt, SInt)
		case "emptyset":
			return arrSort(SInt, SBool)
		case "true", "false":
			return SBool
		}
	case "call":
		if init.Op == "upd" && len(init.Args) > 0 {
			return ghostSortOf(init.Args[0])
		}
		if init.Op == "mapof" {
			return arrSort(SInt, SInt)
		}
	}
	return SInt
}

// shiftTerm implements x << y and x >> y for 64-bit unsigned operands with a symbolic shift amount:
// p = 2^y (64-case table), x >> y = x div p, x << y = (x * p) mod 2^64; shifts by 64 or more give 0.
func (ex *Exec) shiftTerm(st *State, left bool, x, y Term, bits uint, signed bool) Term {
	key := "pow2|" + y.S
	if st.pow2Seen == nil {
		st.pow2Seen = map[string]Term{}
	}
	p, ok := st.pow2Seen[key]
	if !ok && !strings.Contains(y.S, "!q") {
		// the shift amount mentions no bound variable: the power-of-two constant and its defining table are global to
		// the function (a definitional extension: for every value of y some p satisfies the table), so the definition
		// is never lost with the state a spec expression happened to be evaluated in (throw-away states under
		// quantifiers, the entry snapshot used for known-finding conditions)
		if ex.pow2Global == nil {
			ex.pow2Global = map[string]Term{}
		}
		if g, seen := ex.pow2Global[key]; seen {
			p, ok = g, true
		} else {
			p = ex.ctx.Fresh("pow2", SInt)
			var cases []Term
			for k := uint(0); k < bits; k++ {
				cases = append(cases, tImp(tEq(y, intLit(int64(k))), tEq(p, bigLit(pow2(k)))))
			}
			cases = append(cases, tGe(p, intLit(1)))
			ex.ctx.AxiomKey(p.S, tAnd(cases...).S)
			ex.pow2Global[key] = p
			ok = true
		}
	}
	if !ok {
		p = ex.ctx.Fresh("pow2", SInt)
		var cases []Term
		for k := uint(0); k < bits; k++ {
			cases = append(cases, tImp(tEq(y, intLit(int64(k))), tEq(p, bigLit(pow2(k)))))
		}
		cases = append(cases, tGe(p, intLit(1)))
		st.assume(tAnd(cases...))
		st.pow2Seen[key] = p
	}
	big := tGe(y, intLit(int64(bits)))
	if left {
		prod := st.named("shlprod", tMul(x, p))
		return tIte(big, intLit(0), wrapTerm(prod, bits, signed, false))
	}
	q, _ := ex.euclidPair(st, x, p)
	return tIte(big, intLit(0), q)
}

// specPkg is the Go package whose scope bare identifiers of the contract being evaluated refer to: the package of the
// contract file (which differs from the package of the function under verification when a callee's contract from
// another package is applied at a call site).
func (env *Env) specPkg() *types.Package {
	if env.ex.fn == nil {
		return env.ex.typesPkg
	}
	own := env.ex.fn.Pkg.Pkg
	if env.cf == nil || env.cf.Pkg == own.Path() || strings.HasSuffix(env.cf.Pkg, "/_std") {
		return own
	}
	if env.ex.ld != nil {
		if p := env.ex.ld.PP[env.cf.Pkg]; p != nil && p.Types != nil {
			return p.Types
		}
	}
	seen := map[*types.Package]bool{}
	var find func(p *types.Package) *types.Package
	find = func(p *types.Package) *types.Package {
		if seen[p] {
			return nil
		}
		seen[p] = true
		if p.Path() == env.cf.Pkg {
			return p
		}
		for _, imp := range p.Imports() {
			if r := find(imp); r != nil {
				return r
			}
		}
		return nil
	}
	if r := find(own); r != nil {
		return r
	}
	return own
}

// systemBusy reports whether the 1-minute load average exceeds the number of CPUs (solver wall-clock limits are
// then not comparable with the ones the baseline was established under).
func systemBusy() bool {
	data, err := os.ReadFile("/proc/loadavg")
	if err != nil {
		return false
	}
	f := strings.Fields(string(data))
	if len(f) == 0 {
		return false
	}
	l, err := strconv.ParseFloat(f[0], 64)
	if err != nil {
		return false
	}
	return l > float64(runtime.NumCPU())*0.9
}

// evalWitness evaluates a witness expression at a return. On a path where the expression cannot be bound (it names the
// witness of a call that this path did not make) any value will do: a fresh constant is used.
func (ex *Exec) evalWitness(env *Env, w Witness) (v Value) {
	defer func() {
		if r := recover(); r != nil {
			if se, ok := r.(specErr); ok && strings.HasPrefix(se.msg, "unknown identifier") {
				v = Sc{ex.ctx.Fresh("wit_"+w.Name, kindSort(w.Kind))}
				return
			}
			panic(r)
		}
	}()
	return env.eval(w.Expr).V
}

// mentions reports whether a spec expression refers to one of the given identifiers.
func mentions(e *SExpr, names map[string]bool) bool {
	if e == nil {
		return false
	}
	if e.Kind == "ident" && names[e.Op] {
		return true
	}
	for _, a := range e.Args {
		if mentions(a, names) {
			return true
		}
	}
	for _, v := range e.Vars {
		if mentions(v.Lo, names) || mentions(v.Hi, names) {
			return true
		}
	}
	return false
}

func lemClauses(cs []Clause) []*SExpr {
	out := make([]*SExpr, len(cs))
	for i, c := range cs {
		out[i] = c.Expr
	}
	return out
}

func conjExpr(es []*SExpr) *SExpr {
	if len(es) == 0 {
		return &SExpr{Kind: "ident", Op: "true"}
	}
	e := es[0]
	for _, x := range es[1:] {
		e = &SExpr{Kind: "binop", Op: "&&", Args: []*SExpr{e, x}}
	}
	return e
}

// specSig is a textual signature of a contract (to detect conflicting duplicate ext/iface declarations).
func specSig(s *FnSpec) string {
	var b strings.Builder
	for _, r := range s.Requires {
		b.WriteString("R:" + r.Src + ";")
	}
	for _, e := range s.Ensures {
		b.WriteString("E:" + e.Src + ";")
	}
	for _, a := range s.Assigns {
		b.WriteString("A:" + a.String() + ";")
	}
	if s.Panics != nil {
		b.WriteString("P:" + s.Panics.String())
	}
	b.WriteString(strings.Join(s.Params, ","))
	if s.Trusted {
		b.WriteString("T")
	}
	if s.Pure {
		b.WriteString("U")
	}
	if s.AssignsSet {
		b.WriteString("S")
	}
	if s.PanicsAny {
		b.WriteString("Y")
	}
	return b.String()
}
