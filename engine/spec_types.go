package main

import (
	"go/types"
	"strings"
)

// resolveType turns a type written in a contract ("*sequentialIDGenerator", "pkg.Name", "*pkg.Name") into a types.Type
// by looking the name up in the package of the function under verification (or one of its imports).
func (env *Env) resolveType(s string) types.Type {
	s = strings.TrimSpace(s)
	if strings.HasPrefix(s, "*") {
		return types.NewPointer(env.resolveType(s[1:]))
	}
	if env.ex.fn == nil {
		sfail("cannot resolve type %s outside a function", s)
	}
	pkg := env.ex.fn.Pkg.Pkg
	name := s
	if i := strings.Index(s, "."); i > 0 {
		var found *types.Package
		for _, imp := range pkg.Imports() {
			if imp.Name() == s[:i] {
				found = imp
			}
		}
		if found == nil && pkg.Name() == s[:i] {
			found = pkg
		}
		if found == nil {
			sfail("unknown package %s in type %s", s[:i], s)
		}
		pkg = found
		name = s[i+1:]
	}
	obj := pkg.Scope().Lookup(name)
	tn, ok := obj.(*types.TypeName)
	if !ok {
		if b := types.Universe.Lookup(name); b != nil {
			if tn2, ok := b.(*types.TypeName); ok {
				return tn2.Type()
			}
		}
		sfail("unknown type %s", s)
	}
	return tn.Type()
}
