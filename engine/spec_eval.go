package main

import (
	"fmt"
	"go/constant"

	"golang.org/x/tools/go/ssa"

	"go/types"
	"math/big"
	"strings"
)

// Env evaluates spec expressions in a pair of states (current, old).
type Env struct {
	ex         *Exec
	cur        *State
	old        *State
	sink       *State // where side assumptions (ranges, Euclid definitions) go; defaults to cur
	vars       map[string]TV
	cf         *ContractFile
	inQuant    int
	depth      int
	localsOK   bool
	loopHeader *ssa.BasicBlock
	probe      map[string]*Term // quantifier probe pass: variable name -> offset of the first slice it indexes
	head       *State           // loop-head snapshot (for athead(e) in ghost updates and invariants)
	// calleeWit is non-nil while a callee's contract is evaluated at a call site: witnesses of native models used inside the
	// callee (SortedKeys_pos, Slice_pi, Slice_inv) are existential there - created on first mention, shared by child
	// environments (pred bodies), never the caller's own witness of the same name
	calleeWit map[string]Value
}

type nilVal struct{}

// seqVal is a spec-level sequence: length and an index function (used by slicing / concatenation views).
type specErr struct{ msg string }

func sfail(format string, args ...interface{}) { panic(specErr{fmt.Sprintf(format, args...)}) }

func (env *Env) child() *Env {
	n := *env
	n.vars = make(map[string]TV, len(env.vars))
	for k, v := range env.vars {
		n.vars[k] = v
	}
	return &n
}

func (env *Env) assumeSide(t Term) {
	if env.inQuant > 0 {
		return
	}
	s := env.sink
	if s == nil {
		s = env.cur
	}
	s.assume(t)
}

func (env *Env) evalBool(e *SExpr) Term {
	tv := env.eval(e)
	sc, ok := tv.V.(Sc)
	if !ok || sc.T.Sort != SBool {
		sfail("expression %s is not boolean", e)
	}
	return sc.T
}

func (env *Env) evalInt(e *SExpr) Term {
	tv := env.eval(e)
	sc, ok := tv.V.(Sc)
	if !ok || sc.T.Sort != SInt {
		sfail("expression %s is not an integer", e)
	}
	return sc.T
}

func mathInt(t Term) TV { return TV{Sc{t}, nil} }
func boolTV(t Term) TV  { return TV{Sc{t}, types.Typ[types.Bool]} }

// loadSpec reads a location without adding assumptions when under a quantifier.
func (env *Env) loadSpec(st *State, l Loc) Value {
	if l.Alloc != nil {
		return st.load(l)
	}
	base := len(l.Dims)
	return buildValue(l.Type, "", nil, func(path string, sort Sort, ty types.Type, idx []Term) Term {
		dims := append(append([]Term{}, l.Dims...), idx...)
		h := st.heap(heapKey(l, path), heapSort(base+len(idx), sort))
		t := selectN(h, dims)
		if env.inQuant == 0 && ty != nil {
			env.typeFact(t, ty)
		}
		if env.inQuant == 0 && ty == nil && (strings.HasSuffix(path, "#len") || strings.HasSuffix(path, "#cap") || strings.HasSuffix(path, "#off")) {
			env.assumeSide(tLe(intLit(0), t))
		}
		return t
	})
}

func (env *Env) typeFact(t Term, ty types.Type) {
	if t.Sort != SInt {
		return
	}
	if _, ok := litVal(t); ok {
		return
	}
	if bits, signed, ok := intInfo(ty); ok {
		env.assumeSide(inRange(t, bits, signed))
	}
}

func (env *Env) eval(e *SExpr) TV {
	env.depth++
	defer func() { env.depth-- }()
	if env.depth > 200 {
		sfail("spec recursion too deep at %s", e)
	}
	switch e.Kind {
	case "lit":
		if strings.HasPrefix(e.Lit, "\"") {
			return TV{Sc{env.ex.strConst(strings.Trim(e.Lit, "\""))}, types.Typ[types.String]}
		}
		v, ok := new(big.Int).SetString(e.Lit, 0)
		if !ok {
			sfail("bad literal %s", e.Lit)
		}
		return mathInt(bigLit(v))
	case "ident":
		return env.ident(e.Op)
	case "old":
		n := env.child()
		n.cur = env.old
		if n.sink == nil {
			n.sink = env.cur
		}
		r := n.eval(e.Args[0])
		if sl, ok := r.V.(Sl); ok {
			r.V = OldSl{sl, env.old} // old(s)[i], firstIndex(old(s), v) read the OLD contents, not just the old header
		}
		return r
	case "sel":
		// package-qualified constant?
		if e.Args[0].Kind == "ident" {
			if _, isVar := env.vars[e.Args[0].Op]; !isVar {
				if tv, ok := env.qualified(e.Args[0].Op, e.Op); ok {
					return tv
				}
			}
		}
		base := env.eval(e.Args[0])
		return env.selectField(base, e.Op)
	case "index":
		base := env.eval(e.Args[0])
		idx := env.eval(e.Args[1])
		return env.index(base, idx)
	case "slice":
		base := env.eval(e.Args[0])
		s, sH, ok := asSl(base.V)
		if !ok {
			sfail("slicing of non-slice %s", e.Args[0])
		}
		lo := intLit(0)
		hi := s.Len
		if e.Args[1] != nil {
			lo = env.evalInt(e.Args[1])
		}
		if e.Args[2] != nil {
			hi = env.evalInt(e.Args[2])
		}
		res := Sl{s.Ref, linNorm(tAdd(s.Off, lo)), linNorm(tSub(hi, lo)), linNorm(tSub(s.Cap, lo))}
		if sH != nil {
			return TV{OldSl{res, sH}, base.T}
		}
		return TV{res, base.T}
	case "unop":
		x := env.eval(e.Args[0])
		sc := x.V.(Sc)
		if e.Op == "!" {
			return boolTV(tNot(sc.T))
		}
		return mathInt(tNeg(sc.T))
	case "cond":
		c := env.evalBool(e.Args[0])
		a := env.eval(e.Args[1])
		b := env.eval(e.Args[2])
		if a.T == nil || b.T == nil {
			as, aok := a.V.(Sc)
			bs, bok := b.V.(Sc)
			if aok && bok {
				t := a.T
				if t == nil {
					t = b.T
				}
				return TV{Sc{tIte(c, as.T, bs.T)}, t}
			}
		}
		if _, isNil := b.V.(nilVal); isNil {
			b = TV{zeroValue(a.T), a.T}
		}
		if _, isNil := a.V.(nilVal); isNil {
			a = TV{zeroValue(b.T), b.T}
		}
		return TV{iteValue(a.T, c, a.V, b.V), a.T}
	case "binop":
		return env.binop(e)
	case "forall", "exists":
		return env.quant(e)
	case "call":
		return env.call(e)
	}
	sfail("cannot evaluate %s", e)
	return TV{}
}

func (env *Env) ident(name string) TV {
	if tv, ok := env.vars[name]; ok {
		return tv
	}
	switch name {
	case "true":
		return boolTV(tTrue)
	case "false":
		return boolTV(tFalse)
	case "nil":
		return TV{nilVal{}, nil}
	case "idperm":
		c := env.ex.ctx.Const("idperm", arrSort(SInt, SInt))
		env.ex.ctx.AxiomKey("idperm", "(forall ((i Int)) (= (select idperm i) i))")
		return TV{Sc{c}, nil}
	case "emptyset":
		return TV{Sc{constArray(arrSort(SInt, SBool), tFalse)}, nil}
	case "MaxUint64":
		return mathInt(bigLit(new(big.Int).Sub(pow2(64), big.NewInt(1))))
	case "MaxInt64":
		return mathInt(bigLit(new(big.Int).Sub(pow2(63), big.NewInt(1))))
	case "allocTop":
		return mathInt(env.cur.allocTop)
	}
	if env.calleeWit != nil && (name == "SortedKeys_pos" || name == "Slice_pi" || name == "Slice_inv") {
		w, ok := env.calleeWit[name]
		if !ok {
			w = Sc{env.ex.ctx.Fresh("wit_callee_"+name, arrSort(SInt, SInt))}
			env.calleeWit[name] = w
		}
		return TV{w, nil}
	}
	if g, ok := env.cur.ghost[name]; ok {
		return TV{g, nil}
	}
	if env.localsOK {
		if tv, ok := env.localByName(name); ok {
			return tv
		}
		if tv, ok := env.ex.params[name]; ok {
			return tv // no local copy in this state (e.g. old(param)): the entry value
		}
	}
	if d := env.lookupDef(name); d != nil && len(d.Params) == 0 && d.Kind == "const" {
		return env.child().eval(d.Body)
	}
	// package-level Go constant or variable of the function's package
	if env.ex.fn != nil {
		if tv, ok := env.pkgObject(env.specPkg(), name); ok {
			return tv
		}
	}
	sfail("unknown identifier %s", name)
	return TV{}
}

func (env *Env) pkgObject(pkg *types.Package, name string) (TV, bool) {
	obj := pkg.Scope().Lookup(name)
	switch o := obj.(type) {
	case *types.Const:
		switch o.Val().Kind() {
		case constant.Int:
			v, _ := new(big.Int).SetString(o.Val().ExactString(), 10)
			return TV{Sc{bigLit(v)}, o.Type()}, true
		case constant.Bool:
			if constant.BoolVal(o.Val()) {
				return boolTV(tTrue), true
			}
			return boolTV(tFalse), true
		case constant.String:
			return TV{Sc{env.ex.strConst(constant.StringVal(o.Val()))}, o.Type()}, true
		}
	case *types.Var:
		l := Loc{Kind: "G", Base: pkg.Path() + "." + name, Type: o.Type()}
		return TV{env.loadSpec(env.cur, l), o.Type()}, true
	}
	return TV{}, false
}

func (env *Env) qualified(pkgName, name string) (TV, bool) {
	if env.ex.fn == nil {
		return TV{}, false
	}
	for _, imp := range env.specPkg().Imports() {
		if imp.Name() == pkgName {
			return env.pkgObject(imp, name)
		}
	}
	return TV{}, false
}

func (env *Env) lookupDef(name string) *SpecDef {
	defsMu.RLock()
	defer defsMu.RUnlock()
	if env.cf != nil {
		if d, ok := env.cf.Defs[name]; ok {
			return d
		}
	}
	if i := strings.Index(name, "."); i > 0 {
		// qualified: pkgname.def
		if cf := env.ex.db.byShortName(name[:i]); cf != nil {
			if d, ok := cf.Defs[name[i+1:]]; ok {
				return d
			}
		}
	}
	return nil
}

func (env *Env) selectField(base TV, name string) TV {
	if base.T == nil {
		sfail("field %s of untyped spec value", name)
	}
	t := base.T
	var loc *Loc
	switch v := base.V.(type) {
	case Loc:
		loc = &v
		if l := v; l.Alloc == nil || true {
			// a Loc value of pointer type designates the pointee
			if p, ok := under(t).(*types.Pointer); ok {
				t = p.Elem()
			}
		}
	case Sc:
		if p, ok := under(t).(*types.Pointer); ok {
			l := Loc{Kind: "O", Base: typeKeyString(p.Elem()), Dims: []Term{v.T}, Type: p.Elem()}
			loc = &l
			t = p.Elem()
		}
	}
	path, ft, ok := fieldPath(t, name)
	if !ok {
		// promotion through an embedded POINTER field: go through that field first
		if stt, isStruct := under(t).(*types.Struct); isStruct {
			for i := 0; i < stt.NumFields(); i++ {
				f := stt.Field(i)
				if !f.Embedded() {
					continue
				}
				if p, isPtr := under(f.Type()).(*types.Pointer); isPtr {
					if _, _, has := fieldPath(p.Elem(), name); has {
						return env.selectField(env.selectField(base, f.Name()), name)
					}
				}
			}
		}
		sfail("type %s has no field %s", t, name)
	}
	if loc != nil {
		l := *loc
		l.Type = t
		for _, i := range path {
			l = l.field(i)
		}
		return TV{env.loadSpec(env.cur, l), ft}
	}
	sv, ok := base.V.(St)
	if !ok {
		sfail("field %s of non-struct value (%T)", name, base.V)
	}
	var cur Value = sv
	ct := t
	for _, i := range path {
		cur = cur.(St).F[i]
		ct = under(ct).(*types.Struct).Field(i).Type()
	}
	return TV{cur, ct}
}

func (env *Env) index(base, idx TV) TV {
	i := idx.V.(Sc).T
	var oldH *State
	if o, ok := base.V.(OldSl); ok {
		base.V = o.Sl
		oldH = o.H
	}
	switch b := base.V.(type) {
	case Sl:
		et := under(base.T).(*types.Slice).Elem()
		if env.probe != nil {
			// record the offset of the first slice a probed variable indexes directly (coefficient 1, nothing else symbolic)
			coef := map[string]*big.Int{}
			k := new(big.Int)
			if linCollect(i.S, big.NewInt(1), coef, k) {
				nz := 0
				pv := ""
				for a, c := range coef {
					if c.Sign() != 0 {
						nz++
						if c.Cmp(big.NewInt(1)) == 0 {
							pv = a
						}
					}
				}
				if nz == 1 && pv != "" {
					if slot, isProbe := env.probe[pv]; isProbe && slot == nil && !strings.Contains(b.Off.S, "probe!q") {
						off := b.Off
						env.probe[pv] = &off
					}
				}
			}
		}
		hs := env.cur
		if oldH != nil {
			hs = oldH
		}
		return TV{env.loadSpec(hs, elemLoc(b, et, i)), et}
	case Ar:
		at := under(base.T).(*types.Array)
		return TV{env.cur.navGet(b, base.T, []Step{{IsIdx: true, Idx: i}}), at.Elem()}
	case Sc:
		if base.T == nil && strings.HasPrefix(string(b.T.Sort), "(Array") {
			return TV{Sc{tSelect(b.T, i, elemSort(b.T.Sort))}, nil}
		}
		if mt, ok := under(base.T).(*types.Map); ok {
			l := Loc{Kind: "M", Base: typeKeyString(base.T), Dims: []Term{b.T, i}, Type: mt.Elem()}
			return TV{env.loadSpec(env.cur, l), mt.Elem()}
		}
	}
	sfail("cannot index %T", base.V)
	return TV{}
}

func (env *Env) quant(e *SExpr) TV {
	// Pass 1 (probe): find, for each ranged variable, the offset of the first slice it indexes directly. The
	// variable is then made to range over absolute backing-array positions (j = a - off), so that s[j] is
	// select(arr, a): instantiation by matching then works across reslicing and in-place shifts.
	bases := map[string]Term{}
	if env.probe == nil {
		p := env.child()
		p.inQuant++
		p.probe = map[string]*Term{}
		any := false
		for _, v := range e.Vars {
			if v.Lo != nil && v.Type != "bool" {
				pn := "probe!q_" + sanitize(v.Name)
				p.vars[v.Name] = TV{Sc{Term{pn, SInt}}, nil}
				p.probe[pn] = nil
				any = true
			} else {
				p.vars[v.Name] = TV{Sc{Term{"probe!q_x_" + sanitize(v.Name), SInt}}, nil}
			}
		}
		if any {
			func() {
				defer func() {
					if r := recover(); r != nil {
						if _, ok := r.(specErr); !ok {
							if _, ok2 := r.(unsupported); !ok2 {
								panic(r)
							}
						}
					}
				}()
				p.eval(e.Args[0])
			}()
			for _, v := range e.Vars {
				if b := p.probe["probe!q_"+sanitize(v.Name)]; b != nil {
					bases[v.Name] = *b
				}
			}
		}
	}
	n := env.child()
	n.inQuant++
	var decls []string
	var guards []Term
	for _, v := range e.Vars {
		name := fmt.Sprintf("%s!q%d", sanitize(v.Name), env.ex.ctx.counter["q"])
		env.ex.ctx.counter["q"]++
		sort := SInt
		if v.Type == "bool" {
			sort = SBool
		}
		bt := Term{name, sort}
		if base, ok := bases[v.Name]; ok {
			bt = linNorm(tSub(Term{name, SInt}, base))
		}
		n.vars[v.Name] = TV{Sc{bt}, nil}
		decls = append(decls, fmt.Sprintf("(%s %s)", name, sort))
		if v.Lo != nil {
			// bounds are evaluated outside the new binder (they may use definitional extensions such as firstIndex)
			b := *n
			b.inQuant = env.inQuant
			if base, ok := bases[v.Name]; ok {
				a := Term{name, SInt}
				guards = append(guards, tLe(linNorm(tAdd(b.evalInt(v.Lo), base)), a), tLt(a, linNorm(tAdd(b.evalInt(v.Hi), base))))
			} else {
				guards = append(guards, tLe(b.evalInt(v.Lo), bt), tLt(bt, b.evalInt(v.Hi)))
			}
		}
		switch v.Type {
		case "uint64", "uint":
			guards = append(guards, inRange(bt, 64, false))
		case "uint32":
			guards = append(guards, inRange(bt, 32, false))
		case "uint8", "byte":
			guards = append(guards, inRange(bt, 8, false))
		case "int64":
			guards = append(guards, inRange(bt, 64, true))
		case "nat":
			guards = append(guards, tLe(intLit(0), bt))
		}
	}
	body := n.evalBool(e.Args[0])
	g := tAnd(guards...)
	var inner Term
	if e.Kind == "forall" {
		inner = tImp(g, body)
	} else {
		inner = tAnd(g, body)
	}
	if inner.S == "true" || inner.S == "false" {
		return boolTV(inner)
	}
	return boolTV(Term{fmt.Sprintf("(%s (%s) %s)", e.Kind, strings.Join(decls, " "), inner.S), SBool})
}

func (env *Env) isNilTest(a, b TV) (Term, bool) {
	if _, ok := b.V.(nilVal); ok {
		switch x := a.V.(type) {
		case Sc:
			return tEq(x.T, intLit(0)), true
		case If:
			return tEq(x.Typ, intLit(0)), true
		case Sl:
			return tEq(x.Ref, intLit(0)), true
		case nilVal:
			return tTrue, true
		case Loc:
			return tFalse, true
		}
	}
	return Term{}, false
}

func (env *Env) binop(e *SExpr) TV {
	op := e.Op
	switch op {
	case "&&":
		return boolTV(tAnd(env.evalBool(e.Args[0]), env.evalBool(e.Args[1])))
	case "||":
		return boolTV(tOr(env.evalBool(e.Args[0]), env.evalBool(e.Args[1])))
	case "==>":
		return boolTV(tImp(env.evalBool(e.Args[0]), env.evalBool(e.Args[1])))
	case "<==>":
		return boolTV(tEq(env.evalBool(e.Args[0]), env.evalBool(e.Args[1])))
	}
	a := env.eval(e.Args[0])
	b := env.eval(e.Args[1])
	if op == "==" || op == "!=" {
		var eq Term
		if t, ok := env.isNilTest(a, b); ok {
			eq = t
		} else if t, ok := env.isNilTest(b, a); ok {
			eq = t
		} else {
			as, aok := a.V.(Sc)
			bs, bok := b.V.(Sc)
			if aok && bok {
				if as.T.Sort != bs.T.Sort {
					sfail("comparison of different sorts in %s", e)
				}
				eq = tEq(as.T, bs.T)
			} else {
				t := a.T
				if t == nil {
					t = b.T
				}
				if t == nil {
					sfail("cannot compare %s", e)
				}
				if x, _, isSl := asSl(a.V); isSl {
					y, _, ok := asSl(b.V)
					if !ok {
						sfail("cannot compare a slice with %T in %s", b.V, e)
					}
					eq = tAnd(tEq(x.Ref, y.Ref), tEq(x.Off, y.Off), tEq(x.Len, y.Len))
				} else {
					eq = valuesEqual(t, a.V, b.V)
				}
			}
		}
		if op == "!=" {
			eq = tNot(eq)
		}
		return boolTV(eq)
	}
	if op == "in" {
		// k in m
		m, ok := b.V.(Sc)
		if !ok || b.T == nil {
			sfail("'in' needs a map on the right: %s", e)
		}
		if _, isMap := under(b.T).(*types.Map); !isMap {
			sfail("'in' needs a map on the right: %s", e)
		}
		return boolTV(env.cur.mapHas(b.T, m.T, a.V.(Sc).T))
	}
	x, xok := a.V.(Sc)
	y, yok := b.V.(Sc)
	if !xok || !yok {
		sfail("arithmetic on non-scalars in %s", e)
	}
	switch op {
	case "<":
		return boolTV(tLt(x.T, y.T))
	case "<=":
		return boolTV(tLe(x.T, y.T))
	case ">":
		return boolTV(tGt(x.T, y.T))
	case ">=":
		return boolTV(tGe(x.T, y.T))
	case "+":
		return mathInt(tAdd(x.T, y.T))
	case "-":
		return mathInt(tSub(x.T, y.T))
	case "*":
		return mathInt(tMul(x.T, y.T))
	case "/", "%":
		return mathInt(env.specDiv(op, x.T, y.T))
	case "<<":
		k, ok := litVal(y.T)
		if !ok {
			// symbolic amount: 64-bit unsigned semantics, exactly as the code's shift
			return mathInt(env.ex.shiftTerm(env.sinkState(), true, x.T, y.T, 64, false))
		}
		return mathInt(tMul(x.T, bigLit(pow2(uint(k.Uint64())))))
	case ">>":
		k, ok := litVal(y.T)
		if !ok {
			return mathInt(env.ex.shiftTerm(env.sinkState(), false, x.T, y.T, 64, false))
		}
		return mathInt(app(SInt, "div", x.T, bigLit(pow2(uint(k.Uint64())))))
	}
	sfail("operator %s not supported in specs", op)
	return TV{}
}

// specDiv: floor division / modulo for positive divisors. Symbolic divisors get the Euclidean encoding
// (fresh quotient and remainder) unless under a quantifier.
func (env *Env) specDiv(op string, x, y Term) Term {
	if yl, ok := litVal(y); ok && yl.Sign() > 0 {
		if xl, ok := litVal(x); ok {
			q, r := new(big.Int).DivMod(xl, yl, new(big.Int))
			if op == "/" {
				return bigLit(q)
			}
			return bigLit(r)
		}
		if op == "/" {
			return app(SInt, "div", x, y)
		}
		return app(SInt, "mod", x, y)
	}
	if env.inQuant > 0 && (strings.Contains(x.S, "!q") || strings.Contains(y.S, "!q")) {
		if op == "/" {
			return app(SInt, "div", x, y)
		}
		return app(SInt, "mod", x, y)
	}
	sink := env.sink
	if sink == nil {
		sink = env.cur
	}
	q, r := env.ex.euclidPair(sink, x, y)
	if op == "/" {
		return q
	}
	return r
}

func (env *Env) call(e *SExpr) TV {
	name := e.Op
	switch name {
	case "len":
		a := env.eval(e.Args[0])
		if o, ok := a.V.(OldSl); ok {
			a.V = o.Sl
		}
		switch v := a.V.(type) {
		case Sl:
			return mathInt(v.Len)
		case Ar:
			return mathInt(intLit(int64(len(v.E))))
		case Sc:
			if a.T != nil && isString(a.T) {
				return mathInt(env.ex.strLen(env.sinkState(), v.T))
			}
			if a.T != nil {
				if _, ok := under(a.T).(*types.Map); ok {
					return mathInt(env.cur.mapCard(a.T, v.T))
				}
			}
		}
		sfail("len of %T", a.V)
	case "cap":
		a := env.eval(e.Args[0])
		if v, _, ok := asSl(a.V); ok {
			return mathInt(v.Cap)
		}
		sfail("cap of %T", a.V)
	case "int", "uint64", "uint", "int64", "uint32", "uint8", "nat":
		return mathInt(env.evalInt(e.Args[0]))
	case "min", "max":
		x, y := env.evalInt(e.Args[0]), env.evalInt(e.Args[1])
		if name == "min" {
			return mathInt(tIte(tLe(x, y), x, y))
		}
		return mathInt(tIte(tGe(x, y), x, y))
	case "unchanged":
		cur := env.eval(e.Args[0])
		n := env.child()
		n.cur = env.old
		if n.sink == nil {
			n.sink = env.cur
		}
		old := n.eval(e.Args[0])
		if cs, ok := cur.V.(Sc); ok {
			return boolTV(tEq(cs.T, old.V.(Sc).T))
		}
		if cs, ok := cur.V.(Sl); ok {
			os := old.V.(Sl)
			return boolTV(tAnd(tEq(cs.Ref, os.Ref), tEq(cs.Off, os.Off), tEq(cs.Len, os.Len), tEq(cs.Cap, os.Cap)))
		}
		return boolTV(valuesEqual(cur.T, cur.V, old.V))
	case "upd":
		a := env.eval(e.Args[0]).V.(Sc)
		return TV{Sc{tStore(a.T, env.evalInt(e.Args[1]), env.eval(e.Args[2]).V.(Sc).T)}, nil}
	case "fresh":
		// fresh(x): the reference of x was allocated during this call
		a := env.eval(e.Args[0])
		var ref Term
		switch v := a.V.(type) {
		case Sc:
			ref = v.T
		case Sl:
			ref = v.Ref
		default:
			sfail("fresh of %T", a.V)
		}
		return boolTV(tGt(ref, env.old.allocTop))
	case "ref":
		a := env.eval(e.Args[0])
		if v, _, ok := asSl(a.V); ok {
			return mathInt(v.Ref)
		}
		return mathInt(a.V.(Sc).T)
	case "off":
		return mathInt(env.eval(e.Args[0]).V.(Sl).Off)
	case "typeid":
		a := env.eval(e.Args[0])
		if _, ok := a.V.(If); !ok {
			sfail("typeid(x): x is not an interface value")
		}
		return mathInt(a.V.(If).Typ)
	case "ifaceval":
		a := env.eval(e.Args[0])
		if _, ok := a.V.(If); !ok {
			sfail("ifaceval(x): x is not an interface value")
		}
		return mathInt(a.V.(If).Val)
	case "zero":
		// zero(): the zero value of the (single) type parameter of the generic function under verification
		if env.ex.zeroT != nil {
			return TV{zeroValue(env.ex.zeroT), env.ex.zeroT}
		}
		name := "T"
		if env.ex.fn != nil {
			if tps := env.ex.fn.TypeParams(); tps != nil && tps.Len() > 0 {
				name = tps.At(0).Obj().Name()
			} else if r := env.ex.fn.Signature.Recv(); r != nil {
				if n := namedOf(r.Type()); n != nil && n.TypeParams() != nil && n.TypeParams().Len() > 0 {
					name = n.TypeParams().At(0).Obj().Name()
				}
			}
		}
		return TV{Sc{env.ex.ctx.Const("zero_"+name, SInt)}, nil}
	case "deref":
		// deref(p): the value p points to
		a := env.eval(e.Args[0])
		pt, ok := under(a.T).(*types.Pointer)
		if !ok {
			sfail("deref of non-pointer %s", e.Args[0])
		}
		switch v := a.V.(type) {
		case Loc:
			return TV{env.loadSpec(env.cur, v), pt.Elem()}
		case Sc:
			return TV{env.loadSpec(env.cur, Loc{Kind: "O", Base: typeKeyString(pt.Elem()), Dims: []Term{v.T}, Type: pt.Elem()}), pt.Elem()}
		}
		sfail("deref of %T", a.V)
	case "hastype", "as":
		// hastype(x, "*T"): the dynamic type of interface x is *T; as(x, "*T"): x's value viewed as a *T
		a := env.eval(e.Args[0])
		iv, ok := a.V.(If)
		if !ok || len(e.Args) != 2 || e.Args[1].Kind != "lit" {
			sfail("%s(iface, \"type\") expected", name)
		}
		t := env.resolveType(strings.Trim(e.Args[1].Lit, "\""))
		if name == "hastype" {
			return boolTV(tEq(iv.Typ, env.ex.typeID(t)))
		}
		switch under(t).(type) {
		case *types.Struct, *types.Array, *types.Slice:
			// a value boxed by value lives in the box heap of its type
			return TV{env.loadSpec(env.cur, Loc{Kind: "O", Base: "box:" + typeKeyString(t), Dims: []Term{iv.Val}, Type: t}), t}
		}
		return TV{Sc{iv.Val}, t}
	case "firstIndex":
		// firstIndex(s, v): the least index at which slice s holds scalar v, or len(s) if none. A definitional
		// extension: the index always exists, so a fresh constant with the defining property is introduced.
		sv := env.eval(e.Args[0])
		sl, slH, ok := asSl(sv.V)
		if !ok {
			sfail("firstIndex(slice, value) expected")
		}
		v := env.eval(e.Args[1]).V.(Sc).T
		et := under(sv.T).(*types.Slice).Elem()
		if env.inQuant > 0 {
			// under a quantifier the value may depend on bound variables: the index becomes a Skolem FUNCTION of the
			// value, defined for every value by a quantified axiom (the slice itself must not depend on bound variables)
			if strings.Contains(sl.Ref.S+sl.Off.S+sl.Len.S, "!q") || strings.Contains(sl.Ref.S+sl.Off.S+sl.Len.S, "probe!") {
				sfail("firstIndex under a quantifier: the slice must not depend on the bound variables")
			}
			hs := env.cur
			if slH != nil {
				hs = slH
			}
			n := env.child()
			at := func(i Term) Term { return n.loadSpec(hs, elemLoc(sl, et, i)).(Sc).T }
			x, mm := Term{"x!fi", SInt}, Term{"m!fi", SInt}
			ck := "firstIndexF|" + at(mm).S + "|" + sl.Len.S
			fname, seen := env.ex.fidx[ck]
			if !seen {
				fname = Term{env.ex.ctx.Fun(fmt.Sprintf("fidxf!%d", len(env.ex.fidx)), []Sort{SInt}, SInt), SInt}
				env.ex.fidx[ck] = fname
			}
			fx := app(SInt, fname.S, x)
			def := tAnd(tLe(intLit(0), fx), tLe(fx, sl.Len), tImp(tLt(fx, sl.Len), tEq(at(fx), x)),
				Term{fmt.Sprintf("(forall ((m!fi Int)) %s)", tImp(tAnd(tLe(intLit(0), mm), tLt(mm, fx)), tNot(tEq(at(mm), x))).S), SBool})
			sink := env.sink
			if sink == nil {
				sink = env.cur
			}
			sink.assume(Term{fmt.Sprintf("(forall ((x!fi Int)) %s)", def.S), SBool})
			return mathInt(app(SInt, fname.S, v))
		}
		elemAt := func(i Term) Term {
			n := env.child()
			n.inQuant++
			hs := env.cur
			if slH != nil {
				hs = slH
			}
			return n.loadSpec(hs, elemLoc(sl, et, i)).(Sc).T
		}
		probe := elemAt(Term{"m!fi", SInt})
		ck := "firstIndex|" + probe.S + "|" + sl.Len.S + "|" + v.S
		p, seen := env.ex.fidx[ck]
		if !seen {
			p = env.ex.ctx.Fresh("fidx", SInt)
			env.ex.fidx[ck] = p
		}
		m := Term{"m!fi", SInt}
		def := tAnd(tLe(intLit(0), p), tLe(p, sl.Len), tImp(tLt(p, sl.Len), tEq(elemAt(p), v)),
			Term{fmt.Sprintf("(forall ((m!fi Int)) %s)", tImp(tAnd(tLe(intLit(0), m), tLt(m, p)), tNot(tEq(probe, v))).S), SBool})
		env.assumeSide(def)
		return mathInt(p)
	case "mapof":
		// mapof(j, expr): the integer-indexed array A with A[j] = expr for every j (a definitional extension: a fresh
		// array constant constrained pointwise). Lets lemmas over abstract arrays be applied to heap data.
		if len(e.Args) != 2 || e.Args[0].Kind != "ident" || env.inQuant > 0 {
			sfail("mapof(j, expr) expected outside quantifiers")
		}
		n := env.child()
		n.inQuant++
		bv := Term{fmt.Sprintf("%s!q%d", sanitize(e.Args[0].Op), env.ex.ctx.counter["q"]), SInt}
		env.ex.ctx.counter["q"]++
		n.vars[e.Args[0].Op] = TV{Sc{bv}, nil}
		body := n.eval(e.Args[1]).V.(Sc).T
		ck := "mapof|" + strings.ReplaceAll(body.S, bv.S, "?")
		arr, seen := env.ex.fidx[ck]
		if !seen {
			arr = env.ex.ctx.Fresh("mapof", arrSort(SInt, body.Sort))
			env.ex.fidx[ck] = arr
		}
		env.assumeSide(Term{fmt.Sprintf("(forall ((%s Int)) (= (select %s %s) %s))", bv.S, arr.S, bv.S, body.S), SBool})
		return TV{Sc{arr}, nil}
	case "caller":
		// caller(x): parameter x of the function under verification, seen from a callee's (interface) contract — used to
		// state rely conditions of callbacks about the object that invokes them
		if len(e.Args) != 1 || e.Args[0].Kind != "ident" {
			sfail("caller(paramName) expected")
		}
		tv, ok := env.ex.params[e.Args[0].Op]
		if !ok {
			sfail("caller(%s): the calling function has no such parameter", e.Args[0].Op)
		}
		return tv
	case "mkiface":
		// mkiface(typ, val): the interface value with that (type id, value) pair — inverse of typeid()/ifaceval()
		return TV{If{env.evalInt(e.Args[0]), env.evalInt(e.Args[1])}, nil}
	case "visited":
		// visited(k): key k has already been produced by the enclosing `range` over a map
		var pick *rangeIter
		for _, it := range env.cur.rangeIt {
			if pick == nil || (env.loopHeader != nil && it.nextIn != nil && it.nextIn.Block() == env.loopHeader) {
				pick = it
			}
		}
		if pick == nil {
			sfail("visited(k) used outside a range-over-map loop")
		}
		return boolTV(tSelect(pick.visited, env.evalInt(e.Args[0]), SBool))
	case "athead":
		// athead(e): e in the state at the head of the current loop iteration
		if env.head == nil {
			sfail("athead() outside a loop back-edge context")
		}
		n := env.child()
		n.cur = env.head
		if n.sink == nil {
			n.sink = env.cur
		}
		return n.eval(e.Args[0])
	case "atlock":
		// atlock(e): e in the state right after the most recent lock acquisition on this path (old(e) if none)
		n := env.child()
		if env.cur.lastLockSnap != nil {
			n.cur = env.cur.lastLockSnap
		} else {
			n.cur = env.old
		}
		if n.sink == nil {
			n.sink = env.cur
		}
		return n.eval(e.Args[0])
	case "nothingAssigned":
		// every heap array is what it was in the old state (strongest frame)
		if env.cur.epoch != env.old.epoch || len(env.cur.havockedPrefixes) != len(env.old.havockedPrefixes) {
			return boolTV(tFalse)
		}
		var conj []Term
		for _, k := range sortedKeys(env.cur.heaps) {
			c := env.cur.heaps[k]
			o := env.old.heap(k, c.Sort)
			conj = append(conj, tEq(c, o))
		}
		return boolTV(tAnd(conj...))
	case "strlen":
		return mathInt(env.ex.strLen(env.sinkState(), env.evalInt(e.Args[0])))
	case "strlt":
		// Go's `<` on strings (the same strict total order the code's comparisons use)
		if len(e.Args) != 2 {
			sfail("strlt(a, b) takes two strings")
		}
		return boolTV(env.ex.strLess(env.evalInt(e.Args[0]), env.evalInt(e.Args[1])))
	}
	if d := env.lookupDef(name); d != nil {
		if len(d.Params) != len(e.Args) {
			sfail("%s expects %d arguments, got %d", name, len(d.Params), len(e.Args))
		}
		n := env.child()
		args := make([]TV, len(e.Args))
		for i, a := range e.Args {
			args[i] = env.eval(a)
		}
		n.vars = map[string]TV{}
		for i, p := range d.Params {
			n.vars[p] = args[i]
		}
		// bound variables stay visible (defs may be used under quantifiers with explicit args only)
		if i := strings.Index(name, "."); i > 0 {
			n.cf = env.ex.db.byShortName(name[:i])
		}
		return n.eval(d.Body)
	}
	if uf, ok := env.lookupUFunc(name); ok {
		var args []Term
		for _, a := range e.Args {
			switch v := env.eval(a).V.(type) {
			case Sc:
				args = append(args, v.T)
			case If: // an interface value is its (dynamic type, value) pair
				args = append(args, v.Typ, v.Val)
			default:
				sfail("ufunc %s: argument %s must be a scalar or an interface value", name, a)
			}
		}
		return TV{Sc{env.ex.uf(env.cur, env.ufuncName(name), uf, args...)}, nil}
	}
	sfail("unknown spec function %s", name)
	return TV{}
}

func (env *Env) sinkState() *State {
	if env.inQuant > 0 {
		// a throw-away state: assumptions made under a quantifier are dropped
		return &State{ex: env.ex, ranged: map[string]bool{}}
	}
	if env.sink != nil {
		return env.sink
	}
	return env.cur
}

// safeEval runs f converting spec errors into Go errors.
func safeSpec(f func()) (err error) {
	defer func() {
		if r := recover(); r != nil {
			if se, ok := r.(specErr); ok {
				err = fmt.Errorf("spec error: %s", se.msg)
				return
			}
			panic(r)
		}
	}()
	f()
	return nil
}
