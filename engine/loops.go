package main

import (
	"fmt"
	"go/types"
	"sort"
	"strings"

	"golang.org/x/tools/go/ssa"
)

// staticLocalWrites returns the local cells (declared outside the loop) that a loop may assign.
func (ex *Exec) staticLocalWrites(li *loopInfo) map[*ssa.Alloc]bool {
	out := map[*ssa.Alloc]bool{}
	for b := range li.blocks {
		for _, in := range b.Instrs {
			var addr ssa.Value
			switch x := in.(type) {
			case *ssa.Store:
				addr = x.Addr
			case *ssa.MapUpdate:
				continue
			default:
				continue
			}
			for {
				switch a := addr.(type) {
				case *ssa.FieldAddr:
					addr = a.X
					continue
				case *ssa.IndexAddr:
					addr = a.X
					continue
				case *ssa.Alloc:
					if !li.blocks[a.Block()] {
						out[a] = true
					}
				}
				break
			}
		}
	}
	// a local whose address is passed to a call inside the loop may be written by the callee
	for b := range li.blocks {
		for _, in := range b.Instrs {
			if c, ok := in.(ssa.CallInstruction); ok {
				for _, a := range c.Common().Args {
					root := a
					for {
						switch r := root.(type) {
						case *ssa.FieldAddr:
							root = r.X
							continue
						case *ssa.IndexAddr:
							root = r.X
							continue
						}
						break
					}
					if al, ok := root.(*ssa.Alloc); ok && !li.blocks[al.Block()] {
						out[al] = true
					}
				}
			}
		}
	}
	return out
}

// discoverLoop symbolically runs the loop body once from an arbitrary state to collect the heap keys it may write.
func (ex *Exec) discoverLoop(st *State, li *loopInfo) *writeSet {
	ws := &writeSet{keys: map[string]Sort{}, locals: ex.staticLocalWrites(li)}
	saved := ex.discover
	savedPaths := ex.paths
	ex.discover = ws
	s2 := st.clone()
	ex.havocLocals(s2, ws)
	s2.havocAll()
	for g := range s2.ghost {
		if sc, ok := s2.ghost[g].(Sc); ok {
			s2.ghost[g] = Sc{ex.ctx.Fresh("ghost_"+g, sc.T.Sort)}
		}
	}
	s2.discoverLoop = li
	s2.visits = map[*ssa.BasicBlock]int{}
	ex.runBody(s2, li.header)
	ex.discover = saved
	ex.paths = savedPaths
	if saved != nil {
		for k, v := range ws.keys {
			saved.keys[k] = v
		}
		if ws.all {
			saved.all = true
		}
		for g := range ws.ghosts {
			if saved.ghosts == nil {
				saved.ghosts = map[string]bool{}
			}
			saved.ghosts[g] = true
		}
		for p := range ws.prefixes {
			saved.addPrefix(p)
		}
	}
	return ws
}

func (ex *Exec) havocLocals(st *State, ws *writeSet) {
	var allocs []*ssa.Alloc
	for a := range ws.locals {
		allocs = append(allocs, a)
	}
	sort.Slice(allocs, func(i, j int) bool { return allocs[i].Pos() < allocs[j].Pos() })
	for _, a := range allocs {
		cur, ok := st.locals[a]
		if !ok {
			continue
		}
		if containsLoc(cur) {
			unsup("local %s holds an interior pointer and is reassigned inside a loop", a.Comment)
		}
		st.locals[a] = st.freshValue(a.Type().(*types.Pointer).Elem(), "l_"+sanitize(a.Comment))
	}
}

func containsLoc(v Value) bool {
	switch x := v.(type) {
	case Loc:
		return true
	case St:
		for _, f := range x.F {
			if containsLoc(f) {
				return true
			}
		}
	case Ar:
		for _, f := range x.E {
			if containsLoc(f) {
				return true
			}
		}
	case Tu:
		for _, f := range x.E {
			if containsLoc(f) {
				return true
			}
		}
	}
	return false
}

func (ex *Exec) loopName(li *loopInfo, c Clause, i int, phase string) string {
	l := c.Label
	if l == "" {
		l = fmt.Sprintf("inv.%d", i)
	}
	return ex.obName(fmt.Sprintf("loop%d.%s.%s", li.ordinal, l, phase))
}

func (ex *Exec) loopEnv(cur *State) *Env {
	env := ex.fnEnv(cur, ex.entry)
	env.localsOK = true
	// inside the function a parameter name denotes its local copy (which the body may reassign), not the entry value;
	// old(p) still gives the entry value because the copy is initialised from it
	for a := range cur.locals {
		if _, isParam := ex.params[a.Comment]; isParam {
			delete(env.vars, a.Comment)
		}
	}
	return env
}

func (ex *Exec) loopEntry(st *State, li *loopInfo) {
	if st.discoverLoop == li {
		return // discovery run starts at the header
	}
	if li.ws == nil {
		li.ws = ex.discoverLoop(st, li)
	} else if ex.discover != nil {
		for k, v := range li.ws.keys {
			ex.discover.keys[k] = v
		}
		if li.ws.all {
			ex.discover.all = true
		}
		for g := range li.ws.ghosts {
			if ex.discover.ghosts == nil {
				ex.discover.ghosts = map[string]bool{}
			}
			ex.discover.ghosts[g] = true
		}
		for p := range li.ws.prefixes {
			ex.discover.addPrefix(p)
		}
	}
	if li.spec != nil {
		for _, g := range li.spec.Ghosts {
			if g.Init == nil {
				unsup("ghost loop variable %s has no initial value", g.Name)
			}
			st.ghost[g.Name] = ex.loopEnv(st).eval(g.Init).V
		}
		env := ex.loopEnv(st)
		env.loopHeader = li.header
		for i, inv := range li.spec.Invariants {
			if g, ok := ex.evalInv(env, li, inv); ok {
				st.oblige(ex.loopName(li, inv, i, "entry"), "inv-entry", g, inv.Src)
			}
		}
	}
	pre := st.clone()
	// havoc
	ex.havocLocals(st, li.ws)
	// ghost globals and call witnesses that the body (re)assigns — through callee contracts or native models — are
	// loop-carried state too: forget them at the head (the loop's own ghost variables are handled below)
	for _, g := range sortedStrings(li.ws.ghosts) {
		if sc, ok := st.ghost[g].(Sc); ok {
			st.ghost[g] = Sc{ex.ctx.Fresh("ghost_"+g, sc.T.Sort)}
		}
	}
	for _, it := range st.rangeIt {
		if it.nextIn != nil && li.blocks[it.nextIn.Block()] {
			it.visited = ex.ctx.Fresh("rng_visited", arrSort(SInt, SBool)) // keys visited so far: constrained by the invariant
		}
	}
	if li.ws.all {
		st.havocAll()
		ex.note("a loop calls a function without contract: whole heap havocked at the loop head")
	} else {
		// whole arrays havocked through callee `assigns key(...)`: every materialised key under the prefix is part of the
		// write set, and keys not materialised yet must not resolve to their pre-loop constants later
		for _, p := range sortedStrings(li.ws.prefixes) {
			for k, h := range st.heaps {
				if strings.HasPrefix(k, p) {
					if _, known := li.ws.keys[k]; !known {
						li.ws.keys[k] = h.Sort
					}
				}
			}
			st.havockedPrefixes = append(st.havockedPrefixes, p)
		}
		keys := make([]string, 0, len(li.ws.keys))
		for k := range li.ws.keys {
			keys = append(keys, k)
		}
		sort.Strings(keys)
		for _, k := range keys {
			srt := li.ws.keys[k]
			oldH := pre.heap(k, srt)
			newH := ex.ctx.Fresh("H_"+k, srt)
			st.heaps[k] = newH
			ex.frameAssume(st, k, oldH, newH)
		}
		top := ex.ctx.Fresh("allocTop", SInt)
		st.assume(tGe(top, st.allocTop))
		st.allocTop = top
	}
	if li.spec != nil {
		for _, g := range li.spec.Ghosts {
			if sc, ok := st.ghost[g.Name].(Sc); ok {
				st.ghost[g.Name] = Sc{ex.ctx.Fresh("ghost_"+g.Name, sc.T.Sort)}
			} else {
				unsup("ghost loop variable %s must be scalar or array sorted", g.Name)
			}
		}
		env := ex.loopEnv(st)
		env.loopHeader = li.header
		for _, inv := range li.spec.Invariants {
			if g, ok := ex.evalInv(env, li, inv); ok {
				st.assume(g)
			}
		}
		if ex.discover == nil {
			ex.obligs = append(ex.obligs, Oblig{Name: ex.obName(fmt.Sprintf("cover.loop%d", li.ordinal)), Kind: "cover",
				Asm: st.asm[:len(st.asm):len(st.asm)], Goal: tFalse, Cover: true, Desc: "loop invariant satisfiable"})
		}
	}
	if st.loopHeads == nil {
		st.loopHeads = map[*ssa.BasicBlock]*State{}
	}
	st.loopHeads[li.header] = st.clone()
}

// frameAssume: after havocking heap key k at a loop head, locations the function may not assign are unchanged.
func (ex *Exec) frameAssume(st *State, key string, oldH, newH Term) {
	if !ex.spec.AssignsSet || strings.HasPrefix(key, "G|") {
		return
	}
	// allowed first-dimension references for this key
	var allowed []Term
	r := Term{"r!f", SInt}
	for _, a := range ex.assignsLocs {
		if a.wholeKey && keyMatches(a.loc, key) {
			return // the whole array may be assigned: nothing to assume
		}
		if a.loc.Alloc != nil || len(a.loc.Dims) == 0 {
			continue
		}
		if keyMatches(a.loc, key) {
			allowed = append(allowed, tEq(r, a.loc.Dims[0]))
		}
	}
	allowed = append(allowed, tGt(r, ex.entry.allocTop))
	inner := elemSort(oldH.Sort)
	body := tImp(tNot(tOr(allowed...)), tEq(tSelect(newH, r, inner), tSelect(oldH, r, inner)))
	st.assume(Term{fmt.Sprintf("(forall ((r!f Int)) %s)", body.S), SBool})
}

// keyMatches reports whether heap key belongs to the subtree designated by assigns location a.
func keyMatches(a Loc, key string) bool {
	prefix := a.Kind + "|" + a.Base + "|" + a.Path
	if !strings.HasPrefix(key, prefix) {
		return false
	}
	rest := key[len(prefix):]
	return rest == "" || rest[0] == '.' || rest[0] == '[' || rest[0] == '#'
}

func (ex *Exec) loopBackEdge(st *State, li *loopInfo) {
	if ex.discover != nil {
		ex.endPath()
		return
	}
	if li.spec != nil {
		head := st.loopHeads[li.header]
		if head == nil {
			unsup("back edge without loop head snapshot")
		}
		// ghost updates: evaluated in the state at the end of the body (its locals are visible; the ghost variables
		// still have their loop-head values); athead(e) reads e in the loop-head state.
		if len(li.spec.Ghosts) > 0 {
			uenv := ex.loopEnv(st)
			uenv.loopHeader = li.header
			uenv.head = head
			newVals := map[string]Value{}
			for _, g := range li.spec.Ghosts {
				if g.Update != nil {
					newVals[g.Name] = ex.evalGhostUpdate(uenv, st, li, g)
				}
			}
			for k, v := range newVals {
				st.ghost[k] = v
			}
		}
		env := ex.loopEnv(st)
		env.loopHeader = li.header
		env.head = head
		for i, inv := range li.spec.Invariants {
			if g, ok := ex.evalInv(env, li, inv); ok {
				st.oblige(ex.loopName(li, inv, i, "preserved"), "inv-preserved", g, inv.Src)
			}
		}
		if li.spec.Decreases != nil {
			henv := ex.loopEnv(head)
			henv.loopHeader = li.header
			henv.sink = st
			before := henv.evalInt(li.spec.Decreases)
			after := env.evalInt(li.spec.Decreases)
			st.oblige(ex.obName(fmt.Sprintf("loop%d.decreases", li.ordinal)), "variant",
				tAnd(tLe(intLit(0), before), tLt(after, before)), "variant "+li.spec.Decreases.String())
		}
	}
	ex.endPath()
}

// evalGhostUpdate evaluates `backedge g = e` at a back edge. On a path of (changed) code where e names a local that this
// path never defined, the update cannot be bound: the ghost then gets an arbitrary value (sound: nothing is known about
// it), so the invariants that speak about it decide - instead of the whole function becoming 'contract unbound'.
func (ex *Exec) evalGhostUpdate(uenv *Env, st *State, li *loopInfo, g GhostLoopVar) (v Value) {
	defer func() {
		if r := recover(); r != nil {
			if se, isSpec := r.(specErr); isSpec && strings.HasPrefix(se.msg, "unknown identifier") {
				ex.note(fmt.Sprintf("loop %d ghost update of %s could not be bound on a path (%s): arbitrary value", li.ordinal, g.Name, se.msg))
				if sc, ok := st.ghost[g.Name].(Sc); ok {
					v = Sc{ex.ctx.Fresh("ghost_"+g.Name, sc.T.Sort)}
					return
				}
			}
			panic(r)
		}
	}()
	return uenv.eval(g.Update).V
}

// runBody runs from the loop header in discovery mode; paths end at back edges and loop exits.
func (ex *Exec) runBody(st *State, header *ssa.BasicBlock) {
	ex.run(st, header, nil)
}

// allocBefore orders local cells deterministically by block index, then by position in the block: among the cells that
// dominate a loop header the last one is the closest to the loop (hidden range cells have no source position).
func allocBefore(a, b *ssa.Alloc) bool {
	if a.Block() != b.Block() {
		return a.Block().Index < b.Block().Index
	}
	for _, in := range a.Block().Instrs {
		if in == ssa.Instruction(a) {
			return true
		}
		if in == ssa.Instruction(b) {
			return false
		}
	}
	return false
}

// localByName resolves a source-level local variable name to its current value.
func (env *Env) localByName(name string) (TV, bool) {
	if name == "rangeint" {
		name = "rangeint.iter" // hidden counter of `for i := range n` (the lexer cannot read the dotted SSA name)
	}
	var cands []*ssa.Alloc
	for a := range env.cur.locals {
		if a.Comment == name {
			cands = append(cands, a)
		}
	}
	if len(cands) == 0 {
		// a variable whose address escapes lives in the heap: its register holds a pointer to it
		var hc []*ssa.Alloc
		for v := range env.cur.regs {
			if a, ok := v.(*ssa.Alloc); ok && a.Heap && a.Comment == name {
				hc = append(hc, a)
			}
		}
		if len(hc) == 0 {
			return TV{}, false
		}
		sort.Slice(hc, func(i, j int) bool { return allocBefore(hc[i], hc[j]) })
		pick := hc[len(hc)-1]
		if env.loopHeader != nil {
			for _, c := range hc {
				if c.Block().Dominates(env.loopHeader) && c.Block() != env.loopHeader {
					pick = c
				}
			}
		}
		pt := pick.Type().(*types.Pointer)
		if _, isArr := under(pt.Elem()).(*types.Array); isArr {
			return TV{}, false
		}
		ref, isSc := env.cur.regs[pick].(Sc)
		if !isSc {
			return TV{}, false
		}
		switch under(pt.Elem()).(type) {
		case *types.Struct:
			return TV{ref, pt}, true // field selection goes through the pointer
		}
		l := Loc{Kind: "O", Base: typeKeyString(pt.Elem()), Dims: []Term{ref.T}, Type: pt.Elem()}
		return TV{env.loadSpec(env.cur, l), pt.Elem()}, true
	}
	pick := cands[0]
	if len(cands) > 1 {
		sort.Slice(cands, func(i, j int) bool { return allocBefore(cands[i], cands[j]) })
		pick = nil
		if env.loopHeader != nil {
			// prefer the cell declared outside (dominating) the loop
			for _, c := range cands {
				if c.Block().Dominates(env.loopHeader) && c.Block() != env.loopHeader {
					pick = c
				}
			}
		}
		if pick == nil {
			pick = cands[len(cands)-1]
		}
	}
	t := pick.Type().(*types.Pointer).Elem()
	return TV{env.cur.locals[pick], t}, true
}

// evalInv evaluates a loop invariant clause. A clause that mentions a local variable the (changed) code no longer has
// cannot be bound: it is dropped with a note, so that the function's other obligations decide (a refactoring that does
// not need the clause still verifies; code whose proof needed it now fails a named obligation).
func (ex *Exec) evalInv(env *Env, li *loopInfo, inv Clause) (g Term, ok bool) {
	defer func() {
		if r := recover(); r != nil {
			if se, isSpec := r.(specErr); isSpec && strings.HasPrefix(se.msg, "unknown identifier") {
				ex.note(fmt.Sprintf("loop %d invariant %q could not be bound (%s): clause dropped", li.ordinal, inv.Src, se.msg))
				g, ok = tTrue, false
				return
			}
			panic(r)
		}
	}()
	return env.evalBool(inv.Expr), true
}
