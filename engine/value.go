package main

import (
	"fmt"
	"go/types"
	"regexp"
	"strings"

	"golang.org/x/tools/go/ssa"
)

// ---------- symbolic values ----------

type Value interface{}

// Sc is a scalar: integers, booleans, strings (opaque Int), floats (opaque Int), object pointers, maps, funcs.
type Sc struct{ T Term }

// Sl is a slice header. Element i lives at index Off+i of backing array Ref.
type Sl struct{ Ref, Off, Len, Cap Term }

// St is a struct value.
type St struct{ F []Value }

// Ar is a fixed-size array value.
type Ar struct{ E []Value }

// Tu is a tuple (multiple results).
type Tu struct{ E []Value }

// If is an interface value.
type If struct{ Typ, Val Term }

// Fn is a function value (closure).
type Fn struct {
	Fn       *ssa.Function
	Bindings []Value
}

// Step navigates inside a local aggregate.
type Step struct {
	Field int
	Idx   Term
	IsIdx bool
}

// Loc is an address designator: either a path into a local cell, or a heap location.
type Loc struct {
	Alloc   *ssa.Alloc
	Steps   []Step
	Kind    string // "O" object field, "E" slice element, "G" global
	Base    string // type string of the root object / element type
	Path    string // leaf path prefix inside the root
	Dims    []Term // index terms: O: [ref, arr idx...], E: [ref, idx, arr idx...], G: [arr idx...]
	Type    types.Type
	ArrRoot bool // E-kind designator of a whole heap-backed array (Dims = [ref]); indexing adds the element index
}

type unsupported struct{ msg string }

func unsup(format string, args ...interface{}) {
	panic(unsupported{fmt.Sprintf(format, args...)})
}

// ---------- type classification ----------

func under(t types.Type) types.Type {
	for {
		switch tt := t.(type) {
		case *types.Named:
			t = tt.Underlying()
		case *types.Alias:
			t = types.Unalias(tt)
		default:
			return t
		}
	}
}

func shortType(t types.Type) string {
	return types.TypeString(t, func(p *types.Package) string { return "" })
}

func fullType(t types.Type) string {
	return types.TypeString(t, func(p *types.Package) string { return p.Path() })
}

// intInfo reports width/signedness for integer basic types.
func intInfo(t types.Type) (bits uint, signed bool, ok bool) {
	b, isB := under(t).(*types.Basic)
	if !isB {
		return 0, false, false
	}
	switch b.Kind() {
	case types.Int, types.Int64, types.UntypedInt:
		return 64, true, true
	case types.Int32, types.UntypedRune:
		return 32, true, true
	case types.Int16:
		return 16, true, true
	case types.Int8:
		return 8, true, true
	case types.Uint, types.Uint64, types.Uintptr:
		return 64, false, true
	case types.Uint32:
		return 32, false, true
	case types.Uint16:
		return 16, false, true
	case types.Uint8:
		return 8, false, true
	}
	return 0, false, false
}

func isBool(t types.Type) bool {
	b, ok := under(t).(*types.Basic)
	return ok && (b.Kind() == types.Bool || b.Kind() == types.UntypedBool)
}

func isString(t types.Type) bool {
	b, ok := under(t).(*types.Basic)
	return ok && (b.Kind() == types.String || b.Kind() == types.UntypedString)
}

func isFloat(t types.Type) bool {
	b, ok := under(t).(*types.Basic)
	return ok && (b.Kind() == types.Float64 || b.Kind() == types.Float32 || b.Kind() == types.UntypedFloat)
}

func scalarSort(t types.Type) Sort {
	if isBool(t) {
		return SBool
	}
	return SInt
}

// leaf describes one scalar component of a type.
type leaf struct {
	Path string // e.g. ".elements#len", ".tab[]" (array dimension marker)
	Sort Sort
	Type types.Type // Go type of the scalar (nil for header components)
	NArr int        // number of array dimensions in the path
}

const maxArrayExpand = 64

// leavesOf flattens a type into scalar leaves. Fixed arrays contribute an index dimension "[]".
func leavesOf(t types.Type, prefix string, narr int, out *[]leaf) {
	switch u := under(t).(type) {
	case *types.Basic:
		*out = append(*out, leaf{prefix, scalarSort(t), t, narr})
	case *types.Pointer, *types.Map, *types.Chan, *types.Signature, *types.TypeParam:
		*out = append(*out, leaf{prefix, SInt, t, narr})
	case *types.Interface:
		*out = append(*out, leaf{prefix + "#typ", SInt, nil, narr}, leaf{prefix + "#val", SInt, nil, narr})
	case *types.Slice:
		for _, c := range []string{"#ref", "#off", "#len", "#cap"} {
			*out = append(*out, leaf{prefix + c, SInt, nil, narr})
		}
	case *types.Struct:
		for i := 0; i < u.NumFields(); i++ {
			leavesOf(u.Field(i).Type(), prefix+"."+u.Field(i).Name(), narr, out)
		}
	case *types.Array:
		leavesOf(u.Elem(), prefix+"[]", narr+1, out)
	case *types.Tuple:
		for i := 0; i < u.Len(); i++ {
			leavesOf(u.At(i).Type(), fmt.Sprintf("%s.%d", prefix, i), narr, out)
		}
	default:
		unsup("type %s not supported", t)
	}
}

// buildValue constructs a Value of type t, asking get for each scalar leaf. idx holds array indices chosen so far.
func buildValue(t types.Type, prefix string, idx []Term, get func(path string, sort Sort, ty types.Type, idx []Term) Term) Value {
	switch u := under(t).(type) {
	case *types.Basic:
		return Sc{get(prefix, scalarSort(t), t, idx)}
	case *types.Pointer, *types.Map, *types.Chan, *types.Signature, *types.TypeParam:
		return Sc{get(prefix, SInt, t, idx)}
	case *types.Interface:
		return If{get(prefix+"#typ", SInt, nil, idx), get(prefix+"#val", SInt, nil, idx)}
	case *types.Slice:
		return Sl{get(prefix+"#ref", SInt, nil, idx), get(prefix+"#off", SInt, nil, idx), get(prefix+"#len", SInt, nil, idx), get(prefix+"#cap", SInt, nil, idx)}
	case *types.Struct:
		fs := make([]Value, u.NumFields())
		for i := range fs {
			fs[i] = buildValue(u.Field(i).Type(), prefix+"."+u.Field(i).Name(), idx, get)
		}
		return St{fs}
	case *types.Array:
		if u.Len() > maxArrayExpand {
			unsup("array of length %d too large to expand", u.Len())
		}
		es := make([]Value, u.Len())
		for i := range es {
			ni := append(append([]Term{}, idx...), intLit(int64(i)))
			es[i] = buildValue(u.Elem(), prefix+"[]", ni, get)
		}
		return Ar{es}
	case *types.Tuple:
		es := make([]Value, u.Len())
		for i := range es {
			es[i] = buildValue(u.At(i).Type(), fmt.Sprintf("%s.%d", prefix, i), idx, get)
		}
		return Tu{es}
	}
	unsup("type %s not supported", t)
	return nil
}

// walkValue decomposes a Value of type t into scalar leaves.
func walkValue(t types.Type, v Value, prefix string, idx []Term, put func(path string, sort Sort, ty types.Type, idx []Term, val Term)) {
	switch u := under(t).(type) {
	case *types.Basic:
		put(prefix, scalarSort(t), t, idx, asSc(v, t).T)
	case *types.Pointer, *types.Map, *types.Chan, *types.Signature, *types.TypeParam:
		put(prefix, SInt, t, idx, asSc(v, t).T)
	case *types.Interface:
		iv, ok := v.(If)
		if !ok {
			unsup("expected interface value for %s, got %T", t, v)
		}
		put(prefix+"#typ", SInt, nil, idx, iv.Typ)
		put(prefix+"#val", SInt, nil, idx, iv.Val)
	case *types.Slice:
		sv, ok := v.(Sl)
		if !ok {
			unsup("expected slice value for %s, got %T", t, v)
		}
		put(prefix+"#ref", SInt, nil, idx, sv.Ref)
		put(prefix+"#off", SInt, nil, idx, sv.Off)
		put(prefix+"#len", SInt, nil, idx, sv.Len)
		put(prefix+"#cap", SInt, nil, idx, sv.Cap)
	case *types.Struct:
		sv, ok := v.(St)
		if !ok {
			unsup("expected struct value for %s, got %T", t, v)
		}
		for i := 0; i < u.NumFields(); i++ {
			walkValue(u.Field(i).Type(), sv.F[i], prefix+"."+u.Field(i).Name(), idx, put)
		}
	case *types.Array:
		av, ok := v.(Ar)
		if !ok {
			unsup("expected array value for %s, got %T", t, v)
		}
		for i := range av.E {
			ni := append(append([]Term{}, idx...), intLit(int64(i)))
			walkValue(u.Elem(), av.E[i], prefix+"[]", ni, put)
		}
	case *types.Tuple:
		tv := v.(Tu)
		for i := range tv.E {
			walkValue(u.At(i).Type(), tv.E[i], fmt.Sprintf("%s.%d", prefix, i), idx, put)
		}
	default:
		unsup("type %s not supported", t)
	}
}

func asSc(v Value, t types.Type) Sc {
	switch x := v.(type) {
	case Sc:
		return x
	case Loc:
		unsup("interior pointer (%s) used as a first-class value of type %s", x.describe(), t)
	case *Loc:
		unsup("interior pointer used as a first-class value of type %s", t)
	}
	unsup("expected scalar for %s, got %T", t, v)
	return Sc{}
}

func (l Loc) describe() string {
	if l.Alloc != nil {
		return "local " + l.Alloc.Comment
	}
	return l.Kind + "|" + l.Base + "|" + l.Path
}

// zeroValue is the Go zero value of t.
func zeroValue(t types.Type) Value {
	return buildValue(t, "", nil, func(path string, sort Sort, ty types.Type, idx []Term) Term {
		if sort == SBool {
			return tFalse
		}
		return intLit(0)
	})
}

// valuesEqual builds the equality of two values of type t.
func valuesEqual(t types.Type, a, b Value) Term {
	var as, bs []Term
	walkValue(t, a, "", nil, func(_ string, _ Sort, _ types.Type, _ []Term, v Term) { as = append(as, v) })
	walkValue(t, b, "", nil, func(_ string, _ Sort, _ types.Type, _ []Term, v Term) { bs = append(bs, v) })
	var conj []Term
	for i := range as {
		conj = append(conj, tEq(as[i], bs[i]))
	}
	return tAnd(conj...)
}

// iteValue merges two values of type t.
func iteValue(t types.Type, c Term, a, b Value) Value {
	var as, bs []Term
	walkValue(t, a, "", nil, func(_ string, _ Sort, _ types.Type, _ []Term, v Term) { as = append(as, v) })
	walkValue(t, b, "", nil, func(_ string, _ Sort, _ types.Type, _ []Term, v Term) { bs = append(bs, v) })
	i := 0
	return buildValue(t, "", nil, func(_ string, _ Sort, _ types.Type, _ []Term) Term {
		r := tIte(c, as[i], bs[i])
		i++
		return r
	})
}

// fieldByName finds a (possibly promoted) field path in struct type t.
func fieldPath(t types.Type, name string) ([]int, types.Type, bool) {
	st, ok := under(t).(*types.Struct)
	if !ok {
		return nil, nil, false
	}
	for i := 0; i < st.NumFields(); i++ {
		if st.Field(i).Name() == name {
			return []int{i}, st.Field(i).Type(), true
		}
	}
	for i := 0; i < st.NumFields(); i++ {
		if st.Field(i).Embedded() {
			ft := st.Field(i).Type()
			if p, ok := under(ft).(*types.Pointer); ok {
				_ = p
				continue
			}
			if sub, ty, ok := fieldPath(ft, name); ok {
				return append([]int{i}, sub...), ty, true
			}
		}
	}
	return nil, nil, false
}

var aliasWordRe = regexp.MustCompile(`\b(byte|rune)\b`)

func typeKeyString(t types.Type) string {
	s := fullType(t)
	s = strings.ReplaceAll(s, "github.com/sarchlab/akita/v5/", "")
	// byte and rune are aliases: the same heap arrays must serve both spellings
	s = aliasWordRe.ReplaceAllStringFunc(s, func(w string) string {
		if w == "byte" {
			return "uint8"
		}
		return "int32"
	})
	return s
}
