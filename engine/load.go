package main

import (
	"fmt"
	"os"
	"sort"
	"strings"

	"go/types"
	"golang.org/x/tools/go/packages"
	"golang.org/x/tools/go/ssa"
	"golang.org/x/tools/go/ssa/ssautil"
)

const goBin = "/opt/veriftools/go1.26.8/bin"

var repoDir = "/repo"

// Loaded holds the SSA program for the packages a check needs.
type Loaded struct {
	Prog *ssa.Program
	Pkgs map[string]*ssa.Package // by import path
	PP   map[string]*packages.Package
}

func loadPackages(patterns ...string) (*Loaded, error) {
	os.Setenv("PATH", goBin+":"+os.Getenv("PATH"))
	os.Setenv("GOTOOLCHAIN", "local")
	os.Setenv("GOFLAGS", "-mod=mod")
	os.Setenv("GOPROXY", "off")
	os.Setenv("GOSUMDB", "off")
	env := append(os.Environ(),
		"PATH="+goBin+":"+os.Getenv("PATH"),
		"GOTOOLCHAIN=local", "GOFLAGS=-mod=mod", "GOPROXY=off", "GOSUMDB=off",
	)
	cfg := &packages.Config{
		Mode: packages.NeedName | packages.NeedFiles | packages.NeedCompiledGoFiles | packages.NeedImports |
			packages.NeedSyntax | packages.NeedTypes | packages.NeedTypesInfo | packages.NeedDeps | packages.NeedTypesSizes,
		Dir: repoDir,
		Env: env,
	}
	pkgs, err := packages.Load(cfg, patterns...)
	if err != nil {
		return nil, err
	}
	var errs []string
	for _, p := range pkgs {
		for _, e := range p.Errors {
			errs = append(errs, e.Error())
		}
	}
	if len(errs) > 0 {
		return nil, fmt.Errorf("load errors: %s", strings.Join(errs, "; "))
	}
	prog, spkgs := ssautil.AllPackages(pkgs, ssa.NaiveForm|ssa.GlobalDebug|ssa.InstantiateGenerics)
	l := &Loaded{Prog: prog, Pkgs: map[string]*ssa.Package{}, PP: map[string]*packages.Package{}}
	for i, sp := range spkgs {
		if sp == nil {
			continue
		}
		l.Pkgs[pkgs[i].PkgPath] = sp
		l.PP[pkgs[i].PkgPath] = pkgs[i]
	}
	// build only requested packages (dependencies are built lazily for function bodies we touch)
	for _, sp := range spkgs {
		if sp != nil {
			sp.Build()
		}
	}
	return l, nil
}

// allFunctions returns every function and method declared in the package, keyed by a stable name.
func (l *Loaded) allFunctions(pkgPath string) map[string]*ssa.Function {
	out := map[string]*ssa.Function{}
	sp := l.Pkgs[pkgPath]
	if sp == nil {
		return out
	}
	var add func(fn *ssa.Function)
	add = func(fn *ssa.Function) {
		if fn == nil || len(fn.Blocks) == 0 {
			return
		}
		out[funcKey(fn)] = fn
		for _, a := range fn.AnonFuncs {
			add(a)
		}
	}
	for _, m := range sp.Members {
		switch x := m.(type) {
		case *ssa.Function:
			add(x)
		case *ssa.Type:
			// methods of the named type (generic bodies included), both receivers
			if n, ok := x.Type().(*types.Named); ok {
				for i := 0; i < n.NumMethods(); i++ {
					add(l.Prog.FuncValue(n.Method(i)))
				}
			}
		}
	}
	return out
}

// funcKey: "Func", "(*T).M", "(T).M", closures "Func$1".
func funcKey(fn *ssa.Function) string {
	if fn.Origin() != nil {
		fn = fn.Origin()
	}
	name := fn.Name()
	if fn.Signature.Recv() != nil {
		rt := fn.Signature.Recv().Type()
		return "(" + shortType(rt) + ")." + name
	}
	if p := fn.Parent(); p != nil {
		return funcKey(p) + "$" + strings.TrimPrefix(name, p.Name()+"$")
	}
	return name
}

func sortedKeys[V any](m map[string]V) []string {
	ks := make([]string, 0, len(m))
	for k := range m {
		ks = append(ks, k)
	}
	sort.Strings(ks)
	return ks
}
