package main

import (
	"fmt"
	"go/constant"
	"go/token"
	"go/types"
	"math/big"
	"sort"
	"strings"

	"golang.org/x/tools/go/ssa"
)

// TV is a value with its Go type (nil type: mathematical integer / boolean of the spec language).
type TV struct {
	V Value
	T types.Type
}

// OldSl is a slice value produced by old(...): its contents are read from the heap of state H, not just its header.
type OldSl struct {
	Sl
	H *State
}

// asSl views a value as a slice, returning the state its contents live in (nil: the evaluating state).
func asSl(v Value) (Sl, *State, bool) {
	switch x := v.(type) {
	case Sl:
		return x, nil, true
	case OldSl:
		return x.Sl, x.H, true
	}
	return Sl{}, nil, false
}

// Exec verifies one function against its contract.
type Exec struct {
	ctx           *Ctx
	ld            *Loaded
	db            *SpecDB
	fn            *ssa.Function
	spec          *FnSpec
	cf            *ContractFile
	pkgPath       string
	obligs        []Oblig
	entry         *State
	params        map[string]TV
	loops         map[*ssa.BasicBlock]*loopInfo
	paths         int
	epochs        int
	callOrd       map[ssa.Instruction]int
	siteOrd       map[ssa.Instruction]int
	notes         map[string]bool // assumptions / abstractions used (for evidence)
	strIDs        map[string]int
	discover      *writeSet
	maxPaths      int
	assignsLocs   []assignLoc
	resultNames   []string
	euclid        map[string]*euclidEntry
	pow2Global    map[string]Term // shift amount (no bound variable) -> its power-of-two constant, defined by a global axiom
	unbound       []string        // postconditions that could not be bound to the (changed) code
	euclidOrder   []*euclidEntry
	footprint     []fpItem
	pure          *pureCtx
	purePC        Term
	fidx          map[string]Term
	numIfs        int            // number of conditional branches in the function (pruning is enabled for branch-heavy ones)
	pruned        int            // branches found infeasible
	sawReturn     bool           // some return instruction was reached on some path
	zeroT         types.Type     // while a generic callee's contract is applied: its first type argument
	typesPkg      *types.Package // for lemmas (no function under verification): the package whose names contracts refer to
	usedContracts map[string]*FnSpec
	pending       []pendingPath
	kf            []knownFinding
	whens         map[string][]Term
}

type writeSet struct {
	keys   map[string]Sort
	all    bool
	locals map[*ssa.Alloc]bool
	ghosts map[string]bool // ghost globals / call witnesses (re)assigned in the loop body
	// prefixes: whole heap arrays havocked through a callee's `assigns key("K|T|path")`: every key with such a prefix is
	// loop-carried, also the ones the discovery run never materialised (they are only named when first read)
	prefixes map[string]bool
}

func (ws *writeSet) addPrefix(p string) {
	if ws.prefixes == nil {
		ws.prefixes = map[string]bool{}
	}
	ws.prefixes[p] = true
}

// setGhost assigns a ghost variable; in discovery mode the name is recorded so that the loop head forgets it.
func (st *State) setGhost(name string, v Value) {
	if st.ex.discover != nil {
		if st.ex.discover.ghosts == nil {
			st.ex.discover.ghosts = map[string]bool{}
		}
		st.ex.discover.ghosts[name] = true
	}
	st.ghost[name] = v
}

type loopInfo struct {
	header  *ssa.BasicBlock
	ordinal int
	blocks  map[*ssa.BasicBlock]bool
	spec    *LoopSpec
	ws      *writeSet
}

type assignLoc struct {
	loc   Loc
	whole bool // slice contents "[*]": all indices of backing array
	wholeKey bool // an entire heap array (every reference)
	src   string
}

func (ex *Exec) nextEpoch() int { ex.epochs++; return ex.epochs }

func (ex *Exec) note(s string) { ex.notes[s] = true }

func (ex *Exec) addOblig(o Oblig) {
	if ex.discover != nil {
		return
	}
	ex.obligs = append(ex.obligs, o)
}

func (ex *Exec) obName(suffix string) string {
	return shortPkg(ex.pkgPath) + "." + funcKey(ex.fn) + "#" + suffix
}

func shortPkg(p string) string { return strings.TrimPrefix(p, "github.com/sarchlab/akita/v5/") }

// ---------- entry ----------

func newExec(ld *Loaded, db *SpecDB, fn *ssa.Function, spec *FnSpec, cf *ContractFile) *Exec {
	ex := &Exec{ctx: newCtx(), ld: ld, db: db, fn: fn, spec: spec, cf: cf, pkgPath: fn.Pkg.Pkg.Path(),
		params: map[string]TV{}, loops: map[*ssa.BasicBlock]*loopInfo{}, callOrd: map[ssa.Instruction]int{},
		siteOrd: map[ssa.Instruction]int{}, notes: map[string]bool{}, strIDs: map[string]int{}, maxPaths: 20000,
		euclid: map[string]*euclidEntry{}, usedContracts: map[string]*FnSpec{}, whens: map[string][]Term{}, fidx: map[string]Term{}}
	return ex
}

// verify symbolically executes the function and returns the obligations generated.
func (ex *Exec) verify() (obligs []Oblig, err error) {
	defer func() {
		if r := recover(); r != nil {
			if u, ok := r.(unsupported); ok {
				err = fmt.Errorf("outside subset: %s", u.msg)
				return
			}
			panic(r)
		}
	}()
	fn := ex.fn
	if len(fn.Blocks) == 0 {
		return nil, fmt.Errorf("function %s has no body", fn)
	}
	ex.numberSites()
	ex.findLoops()
	st := &State{ex: ex, locals: map[*ssa.Alloc]Value{}, regs: map[ssa.Value]Value{}, heaps: map[string]Term{},
		ghost: map[string]Value{}, ranged: map[string]bool{}, rangeIt: map[ssa.Value]*rangeIter{}, visits: map[*ssa.BasicBlock]int{}}
	st.allocTop = ex.ctx.Const("allocTop0", SInt)
	st.assume(tGe(st.allocTop, intLit(0)))
	for i, p := range fn.Params {
		v := ex.paramValue(st, p.Name(), p.Type())
		st.regs[p] = v
		ex.params[p.Name()] = TV{v, p.Type()}
		if i == 0 && fn.Signature.Recv() != nil {
			if sc, ok := v.(Sc); ok {
				if _, isPtr := under(p.Type()).(*types.Pointer); isPtr {
					st.assume(tNot(tEq(sc.T, intLit(0))))
					ex.note("pointer receivers are assumed non-nil")
				}
			}
		}
	}
	if len(fn.FreeVars) > 0 {
		unsup("closure with free variables verified standalone")
	}
	ex.initGhosts(st)
	// requires
	env := ex.fnEnv(st, st)
	for _, r := range ex.spec.Requires {
		st.assume(env.evalBool(r.Expr))
	}
	ex.useLemmas(st, env, ex.obName(""))
	ex.entry = st.clone()
	ex.entry.asm = st.asm[:len(st.asm):len(st.asm)]
	// vacuity guard: the precondition must be satisfiable
	ex.obligs = append(ex.obligs, Oblig{Name: ex.obName("cover.requires"), Kind: "cover", Asm: st.asm[:len(st.asm):len(st.asm)], Goal: tFalse, Cover: true, Desc: "precondition satisfiable"})
	ex.evalAssigns(st)
	ex.prepareKnownFindings()
	ex.footprint = ex.buildFootprint()
	ex.run(st, fn.Blocks[0], nil)
	if !ex.sawReturn {
		hasReturn := false
		for _, b := range fn.Blocks {
			for _, in := range b.Instrs {
				if _, ok := in.(*ssa.Return); ok {
					hasReturn = true
				}
			}
		}
		if hasReturn {
			// every path was pruned as infeasible or ended in a panic: nothing was proved about any return
			ex.obligs = append(ex.obligs, Oblig{Name: ex.obName("cover.return"), Kind: "cover", Asm: []Term{tFalse}, Goal: tFalse, Cover: true, Desc: "some return is reachable"})
		}
	}
	return ex.obligs, nil
}

func (ex *Exec) paramValue(st *State, name string, t types.Type) Value {
	v := buildValue(t, "", nil, func(path string, sort Sort, ty types.Type, idx []Term) Term {
		n := "p_" + name + path
		for _, i := range idx {
			n += "_" + i.S
		}
		c := ex.ctx.Const(n, sort)
		st.typeAssume(c, ty)
		return c
	})
	st.assumeHeaders(v, t)
	return v
}

func (ex *Exec) fnEnv(cur, old *State) *Env {
	env := &Env{ex: ex, cur: cur, old: old, vars: map[string]TV{}, cf: ex.cf}
	for k, v := range ex.params {
		env.vars[k] = v
	}
	return env
}

func (ex *Exec) numberSites() {
	c, s := 0, 0
	for _, b := range ex.fn.Blocks {
		for _, in := range b.Instrs {
			if _, isIf := in.(*ssa.If); isIf {
				ex.numIfs++
			}
			switch in.(type) {
			case *ssa.Call, *ssa.Defer:
				ex.callOrd[in] = c
				c++
			}
			ex.siteOrd[in] = s
			s++
		}
	}
}

func (ex *Exec) findLoops() {
	fn := ex.fn
	var headers []*ssa.BasicBlock
	seen := map[*ssa.BasicBlock]bool{}
	for _, b := range fn.Blocks {
		for _, s := range b.Succs {
			if s.Dominates(b) && !seen[s] {
				seen[s] = true
				headers = append(headers, s)
			}
		}
	}
	sort.Slice(headers, func(i, j int) bool { return headers[i].Index < headers[j].Index })
	for i, h := range headers {
		li := &loopInfo{header: h, ordinal: i, blocks: map[*ssa.BasicBlock]bool{h: true}}
		// natural loop: all blocks that can reach a back-edge source without passing through h
		var stack []*ssa.BasicBlock
		for _, p := range h.Preds {
			if h.Dominates(p) {
				stack = append(stack, p)
			}
		}
		for len(stack) > 0 {
			b := stack[len(stack)-1]
			stack = stack[:len(stack)-1]
			if li.blocks[b] {
				continue
			}
			li.blocks[b] = true
			stack = append(stack, b.Preds...)
		}
		if ex.spec != nil {
			li.spec = ex.spec.Loops[i]
		}
		ex.loops[h] = li
	}
}

// ---------- running ----------

func (ex *Exec) run(st *State, b *ssa.BasicBlock, from *ssa.BasicBlock) {
	ex.runFrom(st, b, 0, from)
}

// runFrom executes block b starting at instruction index idx (idx > 0 resumes a forked path).
func (ex *Exec) runFrom(st *State, b *ssa.BasicBlock, idx int, from *ssa.BasicBlock) {
	for {
		if idx == 0 {
			if st.discoverLoop != nil && !st.discoverLoop.blocks[b] {
				ex.endPath()
				return
			}
			if li, ok := ex.loops[b]; ok {
				if from != nil && li.blocks[from] && b.Dominates(from) {
					ex.loopBackEdge(st, li)
					return
				}
				ex.loopEntry(st, li)
			}
			st.cameFrom = from
			st.visits[b]++
			if st.visits[b] > 3 {
				unsup("block %d revisited on one path (irreducible or uncut loop)", b.Index)
			}
		}
		var next []*ssa.BasicBlock
		var conds []Term
		done := false
		for i := idx; i < len(b.Instrs); i++ {
			in := b.Instrs[i]
			switch x := in.(type) {
			case *ssa.If:
				c := st.scalar(x.Cond)
				next = []*ssa.BasicBlock{b.Succs[0], b.Succs[1]}
				conds = []Term{c, tNot(c)}
			case *ssa.Jump:
				next = []*ssa.BasicBlock{b.Succs[0]}
				conds = []Term{tTrue}
			case *ssa.Return:
				ex.doReturn(st, x)
				done = true
			case *ssa.Panic:
				ex.panicExit(st, in, "explicit panic")
				done = true
			default:
				mark := len(ex.pending)
				if ex.step(st, in) {
					done = true
				}
				// paths forked inside the instruction continue after it
				for len(ex.pending) > mark {
					p := ex.pending[len(ex.pending)-1]
					ex.pending = ex.pending[:len(ex.pending)-1]
					if v, ok := in.(ssa.Value); ok {
						p.st.regs[v] = p.res
					}
					ex.runFrom(p.st, b, i+1, from)
				}
			}
			if done {
				break
			}
		}
		if done {
			ex.endPath()
			return
		}
		idx = 0
		if len(next) == 1 {
			from, b = b, next[0]
			continue
		}
		// branch
		for i := range next {
			if conds[i].S == "false" {
				continue
			}
			if ex.numIfs >= 8 && ex.discover == nil && !ex.feasible(st, conds[i]) {
				continue // infeasible branch of a branch-heavy function: pruned
			}
			s2 := st
			if i == 0 && conds[1].S != "false" {
				s2 = st.clone()
			}
			s2.assume(conds[i])
			ex.runFrom(s2, next[i], 0, b)
		}
		return
	}
}

func (ex *Exec) endPath() {
	ex.paths++
	if ex.paths > ex.maxPaths {
		unsup("more than %d paths: function needs splitting with intermediate contracts", ex.maxPaths)
	}
}

// panicExit handles reaching a panic: allowed only under the contract's panics condition.
func (ex *Exec) panicExit(st *State, in ssa.Instruction, what string) {
	if ex.spec.PanicsAny || ex.discover != nil {
		return
	}
	goal := tFalse
	if ex.spec.Panics != nil {
		goal = ex.entryEnv(st).evalBool(ex.spec.Panics)
	}
	st.oblige(ex.obName(fmt.Sprintf("nopanic.%d", ex.siteOrd[in])), "nopanic", goal, what+" at "+ex.pos(in))
}

// safety emits an obligation that a runtime-panic condition cannot occur (or is allowed by the contract).
func (ex *Exec) safety(st *State, in ssa.Instruction, kind string, ok Term) {
	if ex.pure != nil {
		ex.pure.safe = append(ex.pure.safe, tImp(ex.purePC, ok))
		return
	}
	if ex.discover != nil {
		st.assume(ok)
		return
	}
	if !ex.spec.PanicsAny {
		goal := ok
		if ex.spec.Panics != nil {
			goal = tOr(ok, ex.entryEnv(st).evalBool(ex.spec.Panics))
		}
		st.oblige(ex.obName(fmt.Sprintf("safe.%s.%d", kind, ex.siteOrd[in])), "safe", goal, kind+" at "+ex.pos(in))
	}
	st.assume(ok)
}

func (ex *Exec) pos(in ssa.Instruction) string {
	p := ex.fn.Prog.Fset.Position(in.Pos())
	if !p.IsValid() {
		return "?"
	}
	return fmt.Sprintf("%s:%d", shortPath(p.Filename), p.Line)
}

func shortPath(p string) string { return strings.TrimPrefix(p, repoDir+"/") }

// ---------- values of SSA operands ----------

func (st *State) val(v ssa.Value) Value {
	switch x := v.(type) {
	case *ssa.Const:
		return st.ex.constValue(st, x)
	case *ssa.Global:
		return Loc{Kind: "G", Base: x.Pkg.Pkg.Path() + "." + x.Name(), Type: x.Type().(*types.Pointer).Elem()}
	case *ssa.Function:
		return Fn{Fn: x}
	case *ssa.Builtin:
		unsup("builtin %s used as value", x.Name())
	}
	if r, ok := st.regs[v]; ok {
		return r
	}
	unsup("value %s (%T) not available", v.Name(), v)
	return nil
}

func (st *State) scalar(v ssa.Value) Term { return asSc(st.val(v), v.Type()).T }

func (ex *Exec) strConst(s string) Term {
	if s == "" {
		return intLit(0)
	}
	id, ok := ex.strIDs[s]
	if !ok {
		id = len(ex.strIDs) + 1
		ex.strIDs[s] = id
	}
	return intLit(int64(id))
}

// strLess is Go's `<` on strings. Strings are tokens (equal tokens = equal strings); their order is an arbitrary strict
// total order: lexicographic on (strrank(x), x) with strrank an uninterpreted function into the reals. Every countable
// total order embeds into the rationals, so the real string order is one of the interpretations (with an injective
// strrank the tie-break is never used), and irreflexivity, transitivity and totality need no axioms.
func (ex *Exec) strLess(x, y Term) Term {
	ex.note("string ordering is an arbitrary strict total order on string values (literals are not compared by content)")
	real := Sort("Real")
	f := ex.ctx.Fun("strrank", []Sort{SInt}, real)
	rx, ry := app(real, f, x), app(real, f, y)
	return tOr(app(SBool, "<", rx, ry), tAnd(tEq(rx, ry), tLt(x, y)))
}

func (ex *Exec) strLen(st *State, s Term) Term {
	f := ex.ctx.Fun("strlen", []Sort{SInt}, SInt)
	if v, ok := litVal(s); ok {
		for str, id := range ex.strIDs {
			if int64(id) == v.Int64() {
				return intLit(int64(len(str)))
			}
		}
		if v.Sign() == 0 {
			return intLit(0)
		}
	}
	t := app(SInt, f, s)
	st.assume(tAnd(tGe(t, intLit(0)), tEq(tEq(t, intLit(0)), tEq(s, intLit(0)))))
	return t
}

func (ex *Exec) constValue(st *State, c *ssa.Const) Value {
	t := c.Type()
	if c.Value == nil {
		if _, ok := under(t).(*types.TypeParam); ok {
			return Sc{ex.ctx.Const("zero_"+shortType(t), SInt)}
		}
		if tp, ok := t.(*types.TypeParam); ok {
			return Sc{ex.ctx.Const("zero_"+tp.Obj().Name(), SInt)}
		}
		return zeroValue(t)
	}
	switch c.Value.Kind() {
	case constant.Bool:
		if constant.BoolVal(c.Value) {
			return Sc{tTrue}
		}
		return Sc{tFalse}
	case constant.Int:
		if isFloat(t) {
			return Sc{ex.floatConst(c.Value)}
		}
		v, _ := new(big.Int).SetString(c.Value.ExactString(), 10)
		return Sc{bigLit(v)}
	case constant.String:
		return Sc{ex.strConst(constant.StringVal(c.Value))}
	case constant.Float:
		return Sc{ex.floatConst(c.Value)}
	}
	unsup("constant %s", c)
	return nil
}

func (ex *Exec) floatConst(v constant.Value) Term {
	ex.note("floating point values are opaque tokens")
	return ex.ctx.Const("flt_"+sanitize(v.ExactString()), SInt)
}

// ---------- instructions ----------

// step executes a non-terminator instruction; returns true when the path ended.
func (ex *Exec) step(st *State, in ssa.Instruction) bool {
	switch x := in.(type) {
	case *ssa.DebugRef:
	case *ssa.Alloc:
		if at, ok := under(x.Type().(*types.Pointer).Elem()).(*types.Array); ok && (x.Heap || allocIsSliced(x)) {
			// arrays that are sliced (varargs, buffers) live in the slice-element heap so that slices can alias them
			r := st.newRef(sanitize(x.Comment))
			n := intLit(at.Len())
			ex.zeroFill(st, Sl{r, intLit(0), n, n}, at.Elem())
			st.regs[x] = Sc{r}
		} else if x.Heap {
			// escaping allocation: a fresh heap object
			elem := x.Type().(*types.Pointer).Elem()
			r := st.newRef(sanitize(x.Comment))
			st.store(Loc{Kind: "O", Base: typeKeyString(elem), Dims: []Term{r}, Type: elem}, ex.zeroOf(elem))
			st.regs[x] = Sc{r}
		} else {
			st.locals[x] = ex.zeroOf(x.Type().(*types.Pointer).Elem())
			st.regs[x] = Loc{Alloc: x, Type: x.Type().(*types.Pointer).Elem()}
		}
	case *ssa.Store:
		addr := st.val(x.Addr)
		loc := st.derefForAccess(in, addr, x.Addr.Type())
		v := st.val(x.Val)
		if l, ok := v.(Loc); ok && loc.Alloc == nil {
			if l.Kind != "E" || l.Alloc != nil {
				unsup("interior pointer (%s) stored into the heap at %s", l.describe(), ex.pos(in))
			}
			// &s[i] stored into a heap field: modelled as a pointer to a separate object whose contents are arbitrary
			// (reads through it are over-approximated; a WRITE through it would not be reflected in s[i] - listed as an
			// assumption in the evidence)
			ex.note("ASSUMPTION: a pointer to a slice element stored into the heap (" + ex.pos(in) + ") is modelled as a pointer to a separate object with arbitrary contents; writes through it are not reflected in the element")
			v = Sc{st.newRef("elemptr")}
		}
		ex.checkFrame(st, in, loc)
		st.store(loc, v)
	case *ssa.UnOp:
		st.regs[x] = ex.unop(st, x)
	case *ssa.BinOp:
		st.regs[x] = ex.binop(st, x, x.Op, st.val(x.X), st.val(x.Y), x.X.Type(), x.Type())
	case *ssa.FieldAddr:
		base := st.val(x.X)
		pt := under(x.X.Type()).(*types.Pointer).Elem()
		loc := st.derefForAccess(in, base, x.X.Type())
		_ = pt
		st.regs[x] = loc.field(x.Field)
	case *ssa.Field:
		sv, ok := st.val(x.X).(St)
		if !ok {
			unsup("Field on %T", st.val(x.X))
		}
		st.regs[x] = sv.F[x.Field]
	case *ssa.IndexAddr:
		st.regs[x] = ex.indexAddr(st, x)
	case *ssa.Index:
		st.regs[x] = ex.indexValue(st, x)
	case *ssa.Slice:
		st.regs[x] = ex.sliceOp(st, x)
	case *ssa.MakeSlice:
		st.regs[x] = ex.makeSlice(st, x)
	case *ssa.Phi:
		// NaiveForm still emits phis for && / || used as values: take the edge of the predecessor this path came from
		picked := false
		for i, p := range x.Block().Preds {
			if p == st.cameFrom {
				st.regs[x] = st.val(x.Edges[i])
				picked = true
				break
			}
		}
		if !picked {
			unsup("phi node without a known predecessor in %s", ex.fn)
		}
	case *ssa.Convert:
		st.regs[x] = ex.convert(st, x)
	case *ssa.ChangeType:
		v := st.val(x.X)
		if _, toIface := under(x.Type()).(*types.Interface); toIface {
			if sc, ok := v.(Sc); ok { // a type-parameter value converted to an interface
				v = If{ex.typeID(x.X.Type()), sc.T}
			}
		}
		st.regs[x] = v
	case *ssa.ChangeInterface:
		st.regs[x] = st.val(x.X)
	case *ssa.MakeInterface:
		st.regs[x] = ex.makeInterface(st, x)
	case *ssa.TypeAssert:
		st.regs[x] = ex.typeAssert(st, x)
	case *ssa.Extract:
		tv, ok := st.val(x.Tuple).(Tu)
		if !ok {
			unsup("extract from %T", st.val(x.Tuple))
		}
		st.regs[x] = tv.E[x.Index]
	case *ssa.Call:
		res, ended := ex.call(st, x, &x.Call)
		if ended {
			return true
		}
		st.regs[x] = res
	case *ssa.Defer:
		st.defers = append(st.defers, x)
	case *ssa.RunDefers:
		for i := len(st.defers) - 1; i >= 0; i-- {
			d := st.defers[i]
			_, ended := ex.call(st, d, &d.Call)
			if ended {
				return true
			}
		}
		st.defers = nil
	case *ssa.MakeMap:
		st.regs[x] = ex.makeMap(st, x)
	case *ssa.MapUpdate:
		ex.mapUpdate(st, x)
	case *ssa.Lookup:
		st.regs[x] = ex.lookup(st, x)
	case *ssa.Range:
		st.regs[x] = ex.rangeStart(st, x)
	case *ssa.Next:
		st.regs[x] = ex.rangeNext(st, x)
	case *ssa.MakeClosure:
		f := Fn{Fn: x.Fn.(*ssa.Function)}
		for _, b := range x.Bindings {
			f.Bindings = append(f.Bindings, st.val(b))
		}
		st.regs[x] = f
	default:
		unsup("instruction %T (%s) at %s", in, in, ex.pos(in))
	}
	return false
}

func (ex *Exec) zeroOf(t types.Type) Value {
	return buildValue(t, "", nil, func(path string, sort Sort, ty types.Type, idx []Term) Term {
		if sort == SBool {
			return tFalse
		}
		if ty != nil {
			if tp, ok := ty.(*types.TypeParam); ok {
				return ex.ctx.Const("zero_"+tp.Obj().Name(), SInt)
			}
		}
		return intLit(0)
	})
}

// derefForAccess turns an address value into a Loc, with a nil-check obligation for object pointers.
func (st *State) derefForAccess(in ssa.Instruction, addr Value, ptrType types.Type) Loc {
	switch p := addr.(type) {
	case Loc:
		return p
	case Sc:
		pt := under(ptrType).(*types.Pointer).Elem()
		st.ex.safety(st, in, "nil", tNot(tEq(p.T, intLit(0))))
		if at, ok := under(pt).(*types.Array); ok {
			return Loc{Kind: "E", Base: typeKeyString(at.Elem()), Dims: []Term{p.T}, Type: pt, ArrRoot: true}
		}
		return Loc{Kind: "O", Base: typeKeyString(pt), Dims: []Term{p.T}, Type: pt}
	}
	unsup("address of kind %T", addr)
	return Loc{}
}

func (ex *Exec) unop(st *State, x *ssa.UnOp) Value {
	switch x.Op {
	case token.MUL: // load
		addr := st.val(x.X)
		loc := st.derefForAccess(x, addr, x.X.Type())
		return st.load(loc)
	case token.NOT:
		return Sc{tNot(st.scalar(x.X))}
	case token.SUB:
		if isFloat(x.Type()) {
			return Sc{ex.uf(st, "fneg", SInt, st.scalar(x.X))}
		}
		bits, signed, ok := intInfo(x.Type())
		if !ok {
			unsup("negation of %s", x.Type())
		}
		return Sc{st.named("neg", wrapTerm(tNeg(st.scalar(x.X)), bits, signed, true))}
	case token.XOR:
		bits, signed, ok := intInfo(x.Type())
		if !ok {
			unsup("complement of %s", x.Type())
		}
		v := st.scalar(x.X)
		if signed {
			return Sc{tSub(tNeg(v), intLit(1))}
		}
		return Sc{tSub(bigLit(new(big.Int).Sub(pow2(bits), big.NewInt(1))), v)}
	}
	unsup("unary operator %s", x.Op)
	return nil
}

func (ex *Exec) uf(st *State, name string, ret Sort, args ...Term) Term {
	sorts := make([]Sort, len(args))
	for i, a := range args {
		sorts[i] = a.Sort
	}
	f := ex.ctx.Fun(name, sorts, ret)
	if len(args) == 0 {
		return Term{f, ret}
	}
	return app(ret, f, args...)
}

func (ex *Exec) binop(st *State, in ssa.Instruction, op token.Token, xv, yv Value, opType, resType types.Type) Value {
	// comparisons on non-scalars
	switch op {
	case token.EQL, token.NEQ:
		var eq Term
		switch a := xv.(type) {
		case If:
			b := yv.(If)
			eq = tAnd(tEq(a.Typ, b.Typ), tEq(a.Val, b.Val))
		case Sl:
			// only comparison with nil is legal Go
			b := yv.(Sl)
			if b.Ref.S == "0" {
				eq = tEq(a.Ref, intLit(0))
			} else {
				eq = tEq(b.Ref, intLit(0))
			}
		case St, Ar:
			eq = valuesEqual(opType, xv, yv)
		case Loc:
			unsup("comparison of interior pointers")
		default:
			eq = tEq(asSc(xv, opType).T, asSc(yv, opType).T)
		}
		if op == token.NEQ {
			return Sc{tNot(eq)}
		}
		return Sc{eq}
	}
	x, y := asSc(xv, opType).T, asSc(yv, opType).T
	if isFloat(opType) {
		ex.note("floating point arithmetic is uninterpreted")
		switch op {
		case token.LSS, token.LEQ, token.GTR, token.GEQ:
			names := map[token.Token]string{token.LSS: "flt", token.LEQ: "fle", token.GTR: "flt", token.GEQ: "fle"}
			if op == token.GTR || op == token.GEQ {
				x, y = y, x
			}
			return Sc{ex.uf(st, names[op], SBool, x, y)}
		}
		return Sc{ex.uf(st, "f"+sanitize(op.String()), SInt, x, y)}
	}
	if isString(opType) {
		switch op {
		case token.ADD:
			ex.note("string concatenation is uninterpreted")
			r := ex.uf(st, "strcat", SInt, x, y)
			return Sc{r}
		case token.LSS:
			return Sc{ex.strLess(x, y)}
		case token.GTR:
			return Sc{ex.strLess(y, x)}
		case token.LEQ:
			return Sc{tNot(ex.strLess(y, x))}
		case token.GEQ:
			return Sc{tNot(ex.strLess(x, y))}
		}
	}
	switch op {
	case token.LSS:
		return Sc{tLt(x, y)}
	case token.LEQ:
		return Sc{tLe(x, y)}
	case token.GTR:
		return Sc{tGt(x, y)}
	case token.GEQ:
		return Sc{tGe(x, y)}
	case token.LAND:
		return Sc{tAnd(x, y)}
	case token.LOR:
		return Sc{tOr(x, y)}
	}
	if isBool(resType) {
		unsup("boolean operator %s", op)
	}
	bits, signed, ok := intInfo(resType)
	if !ok {
		unsup("arithmetic on %s", resType)
	}
	switch op {
	case token.ADD:
		return Sc{st.named("add", wrapTerm(tAdd(x, y), bits, signed, true))}
	case token.SUB:
		return Sc{st.named("sub", wrapTerm(tSub(x, y), bits, signed, true))}
	case token.MUL:
		return Sc{st.named("mul", ex.wrapMul(st, tMul(x, y), x, y, bits, signed))}
	case token.QUO, token.REM:
		ex.safety(st, in, "divzero", tNot(tEq(y, intLit(0))))
		q, r := ex.divmod(st, x, y, signed)
		if op == token.QUO {
			if yl, isLit := litVal(y); signed && !(isLit && yl.Sign() > 0) {
				q = wrapTerm(q, bits, signed, true) // MinInt / -1 is the only quotient that leaves the range
			}
			if len(q.S) > 40 {
				c := ex.ctx.Fresh("quo", SInt)
				st.assume(tEq(c, q))
				q = c
			}
			return Sc{q}
		}
		if len(r.S) > 40 {
			c := ex.ctx.Fresh("rem", SInt)
			st.assume(tEq(c, r))
			r = c
		}
		return Sc{r}
	case token.AND, token.OR, token.XOR, token.AND_NOT, token.SHL, token.SHR:
		return Sc{ex.bitop(st, op, x, y, bits, signed)}
	}
	unsup("binary operator %s", op)
	return nil
}

func (ex *Exec) wrapMul(st *State, prod, x, y Term, bits uint, signed bool) Term {
	if _, ok := litVal(prod); ok {
		return wrapTerm(prod, bits, signed, false)
	}
	p := st.named("prod", prod)
	return wrapTerm(p, bits, signed, false)
}

// divmod implements Go's truncated division. Symbolic divisors use the Euclidean encoding.
func (ex *Exec) divmod(st *State, x, y Term, signed bool) (Term, Term) {
	if yl, ok := litVal(y); ok && yl.Sign() > 0 {
		if xl, ok := litVal(x); ok {
			q, r := new(big.Int).QuoRem(xl, yl, new(big.Int))
			return bigLit(q), bigLit(r)
		}
		if !signed {
			return app(SInt, "div", x, y), app(SInt, "mod", x, y)
		}
		// truncated: for negative x, -( (-x) div y )
		q := tIte(tGe(x, intLit(0)), app(SInt, "div", x, y), tNeg(app(SInt, "div", tNeg(x), y)))
		r := tSub(x, tMul(q, y))
		return st.named("quo", q), st.named("rem", r)
	}
	if !signed {
		return ex.euclidPair(st, x, y)
	}
	q := ex.ctx.Fresh("q", SInt)
	r := ex.ctx.Fresh("r", SInt)
	// signed truncated division: x = q*y + r, |r| < |y|, sign(r) = sign(x) or r = 0
	absy := tIte(tGe(y, intLit(0)), y, tNeg(y))
	st.assume(tImp(tNot(tEq(y, intLit(0))), tAnd(tEq(x, tAdd(tMul(q, y), r)),
		tImp(tGe(x, intLit(0)), tAnd(tLe(intLit(0), r), tLt(r, absy))),
		tImp(tLt(x, intLit(0)), tAnd(tLt(tNeg(absy), r), tLe(r, intLit(0)))))))
	return q, r
}

func isPow2Minus1(v *big.Int) (uint, bool) {
	if v.Sign() < 0 {
		return 0, false
	}
	n := new(big.Int).Add(v, big.NewInt(1))
	if n.BitLen() > 0 && new(big.Int).And(n, v).Sign() == 0 {
		return uint(n.BitLen() - 1), true
	}
	return 0, false
}

func (ex *Exec) bitop(st *State, op token.Token, x, y Term, bits uint, signed bool) Term {
	yl, yok := litVal(y)
	xl, xok := litVal(x)
	if xok && yok && xl.Sign() >= 0 && yl.Sign() >= 0 {
		var r *big.Int
		switch op {
		case token.AND:
			r = new(big.Int).And(xl, yl)
		case token.OR:
			r = new(big.Int).Or(xl, yl)
		case token.XOR:
			r = new(big.Int).Xor(xl, yl)
		case token.AND_NOT:
			r = new(big.Int).AndNot(xl, yl)
		case token.SHL:
			r = new(big.Int).Lsh(xl, uint(yl.Uint64()))
			return wrapTerm(bigLit(r), bits, signed, false)
		case token.SHR:
			r = new(big.Int).Rsh(xl, uint(yl.Uint64()))
		}
		return bigLit(r)
	}
	switch op {
	case token.SHL:
		if yok && yl.Sign() >= 0 && yl.Cmp(big.NewInt(64)) < 0 {
			return st.named("shl", wrapTerm(tMul(x, bigLit(pow2(uint(yl.Uint64())))), bits, signed, false))
		}
		if !yok && !signed {
			return st.named("shl", ex.shiftTerm(st, true, x, y, bits, signed))
		}
		if xok && xl.Cmp(big.NewInt(1)) == 0 {
			// 1 << y : pow2 table
			return ex.pow2Term(st, y, bits, signed)
		}
	case token.SHR:
		if yok && yl.Sign() >= 0 && !signed {
			if yl.Cmp(big.NewInt(int64(bits))) >= 0 {
				return intLit(0)
			}
			return app(SInt, "div", x, bigLit(pow2(uint(yl.Uint64()))))
		}
		if yok && yl.Sign() >= 0 && signed {
			return app(SInt, "div", x, bigLit(pow2(uint(yl.Uint64())))) // floor division = arithmetic shift
		}
		if !yok && !signed {
			return st.named("shr", ex.shiftTerm(st, false, x, y, bits, signed))
		}
	case token.AND:
		if yok && !signed {
			if k, ok := isPow2Minus1(yl); ok {
				return app(SInt, "mod", x, bigLit(pow2(k)))
			}
		}
		if xok && !signed {
			if k, ok := isPow2Minus1(xl); ok {
				return app(SInt, "mod", y, bigLit(pow2(k)))
			}
		}
		if yok && !signed {
			// mask of form ^(2^k-1) within width
			full := new(big.Int).Sub(pow2(bits), big.NewInt(1))
			inv := new(big.Int).Xor(yl, full)
			if k, ok := isPow2Minus1(inv); ok {
				return tSub(x, app(SInt, "mod", x, bigLit(pow2(k))))
			}
		}
	}
	ex.note("bit operation " + op.String() + " with symbolic operands is uninterpreted (range-bounded)")
	r := ex.uf(st, "bit_"+sanitize(op.String())+fmt.Sprint(bits), SInt, x, y)
	st.assume(inRange(r, bits, signed))
	if op == token.AND && !signed {
		st.assume(tAnd(tLe(r, x), tLe(r, y)))
	}
	if op == token.OR && !signed {
		st.assume(tAnd(tGe(r, x), tGe(r, y)))
	}
	return r
}

func (ex *Exec) pow2Term(st *State, y Term, bits uint, signed bool) Term {
	r := ex.ctx.Fresh("pow2", SInt)
	var cases []Term
	for k := uint(0); k < bits; k++ {
		cases = append(cases, tImp(tEq(y, intLit(int64(k))), tEq(r, wrapTerm(bigLit(pow2(k)), bits, signed, false))))
	}
	cases = append(cases, tImp(tGe(y, intLit(int64(bits))), tEq(r, intLit(0))))
	st.assume(tAnd(cases...))
	return r
}

func (ex *Exec) convert(st *State, x *ssa.Convert) Value {
	from, to := x.X.Type(), x.Type()
	v := st.val(x.X)
	fb, fs, fok := intInfo(from)
	tb, ts, tok := intInfo(to)
	switch {
	case fok && tok:
		t := asSc(v, from).T
		flo, fhi := intRange(fb, fs)
		tlo, thi := intRange(tb, ts)
		if flo.Cmp(tlo) >= 0 && fhi.Cmp(thi) <= 0 {
			return Sc{t}
		}
		nearby := fb <= tb
		return Sc{st.named("conv", wrapTerm(t, tb, ts, nearby))}
	case fok && isFloat(to):
		ex.note("int→float conversion is uninterpreted")
		return Sc{ex.uf(st, "itof", SInt, asSc(v, from).T)}
	case isFloat(from) && tok:
		ex.note("float→int conversion is uninterpreted (range-bounded)")
		r := ex.uf(st, fmt.Sprintf("ftoi%d", tb), SInt, asSc(v, from).T)
		st.assume(inRange(r, tb, ts))
		return Sc{r}
	case isFloat(from) && isFloat(to):
		return v
	case isString(to) || isString(from):
		ex.note("string conversions are uninterpreted")
		if sl, ok := v.(Sl); ok {
			return Sc{ex.uf(st, "bytes2str", SInt, sl.Ref, sl.Off, sl.Len)}
		}
		if isString(from) {
			if _, ok := under(to).(*types.Slice); ok {
				s := asSc(v, from).T
				r := st.newRef("strbytes")
				n := ex.strLen(st, s)
				return Sl{r, intLit(0), n, n}
			}
		}
		return Sc{ex.uf(st, "tostr", SInt, asSc(v, from).T)}
	}
	if _, ok := under(to).(*types.Pointer); ok {
		return v
	}
	unsup("conversion %s → %s", from, to)
	return nil
}

func (ex *Exec) indexAddr(st *State, x *ssa.IndexAddr) Value {
	i := st.scalar(x.Index)
	switch t := under(x.X.Type()).(type) {
	case *types.Slice:
		s, ok := st.val(x.X).(Sl)
		if !ok {
			unsup("IndexAddr on %T", st.val(x.X))
		}
		ex.safety(st, x, "index", tAnd(tLe(intLit(0), i), tLt(i, s.Len)))
		return elemLoc(s, t.Elem(), i)
	case *types.Pointer:
		at := under(t.Elem()).(*types.Array)
		loc := st.derefForAccess(x, st.val(x.X), x.X.Type())
		ex.safety(st, x, "index", tAnd(tLe(intLit(0), i), tLt(i, intLit(at.Len()))))
		return loc.index(i)
	}
	unsup("IndexAddr on %s", x.X.Type())
	return nil
}

func (ex *Exec) indexValue(st *State, x *ssa.Index) Value {
	i := st.scalar(x.Index)
	switch t := under(x.X.Type()).(type) {
	case *types.Array:
		av := st.val(x.X).(Ar)
		ex.safety(st, x, "index", tAnd(tLe(intLit(0), i), tLt(i, intLit(t.Len()))))
		return st.navGet(av, x.X.Type(), []Step{{IsIdx: true, Idx: i}})
	case *types.Basic: // string indexing
		ex.note("string indexing is uninterpreted")
		s := st.scalar(x.X)
		ex.safety(st, x, "index", tAnd(tLe(intLit(0), i), tLt(i, ex.strLen(st, s))))
		r := ex.uf(st, "strbyte", SInt, s, i)
		st.assume(inRange(r, 8, false))
		return Sc{r}
	}
	unsup("Index on %s", x.X.Type())
	return nil
}

func (ex *Exec) sliceOp(st *State, x *ssa.Slice) Value {
	var lo, hi, mx Term
	hasLo, hasHi, hasMax := x.Low != nil, x.High != nil, x.Max != nil
	if hasLo {
		lo = st.scalar(x.Low)
	} else {
		lo = intLit(0)
	}
	if hasHi {
		hi = st.scalar(x.High)
	}
	if hasMax {
		mx = st.scalar(x.Max)
	}
	switch t := under(x.X.Type()).(type) {
	case *types.Slice:
		s := st.val(x.X).(Sl)
		if !hasHi {
			hi = s.Len
		}
		capv := s.Cap
		if hasMax {
			capv = mx
			ex.safety(st, x, "slice", tAnd(tLe(intLit(0), lo), tLe(lo, hi), tLe(hi, mx), tLe(mx, s.Cap)))
		} else {
			ex.safety(st, x, "slice", tAnd(tLe(intLit(0), lo), tLe(lo, hi), tLe(hi, s.Cap)))
		}
		_ = t
		return Sl{s.Ref, st.named("off", tAdd(s.Off, lo)), st.named("len", tSub(hi, lo)), st.named("cap", tSub(capv, lo))}
	case *types.Basic: // string slicing
		ex.note("string slicing is uninterpreted")
		s := st.scalar(x.X)
		n := ex.strLen(st, s)
		if !hasHi {
			hi = n
		}
		ex.safety(st, x, "slice", tAnd(tLe(intLit(0), lo), tLe(lo, hi), tLe(hi, n)))
		r := ex.uf(st, "substr", SInt, s, lo, hi)
		st.assume(tEq(ex.strLen(st, r), tSub(hi, lo))) // Go slices strings by bytes: len(s[lo:hi]) == hi-lo
		return Sc{r}
	case *types.Pointer: // slicing an array through its pointer
		at, ok := under(t.Elem()).(*types.Array)
		if !ok {
			unsup("slice of %s", x.X.Type())
		}
		sc, isSc := st.val(x.X).(Sc)
		if !isSc {
			unsup("slicing an array that is not heap-backed")
		}
		n := intLit(at.Len())
		if !hasHi {
			hi = n
		}
		ex.safety(st, x, "slice", tAnd(tLe(intLit(0), lo), tLe(lo, hi), tLe(hi, n)))
		return Sl{sc.T, lo, st.named("len", tSub(hi, lo)), st.named("cap", tSub(n, lo))}
	}
	unsup("slice of %s", x.X.Type())
	return nil
}

func (ex *Exec) makeSlice(st *State, x *ssa.MakeSlice) Value {
	n := st.scalar(x.Len)
	c := st.scalar(x.Cap)
	ex.safety(st, x, "makeslice", tAnd(tLe(intLit(0), n), tLe(n, c), tLe(c, bigLit(pow2(62)))))
	elem := under(x.Type()).(*types.Slice).Elem()
	r := st.newRef("mk")
	s := Sl{r, intLit(0), n, c}
	ex.zeroFill(st, s, elem)
	return s
}

// zeroFill makes every element of the (fresh) backing array of s the zero value.
func (ex *Exec) zeroFill(st *State, s Sl, elem types.Type) {
	var ls []leaf
	leavesOf(elem, "", 0, &ls)
	for _, l := range ls {
		key := "E|" + typeKeyString(elem) + "|" + l.Path
		hs := heapSort(2+l.NArr, l.Sort)
		h := st.heap(key, hs)
		zero := "0"
		if l.Sort == SBool {
			zero = "false"
		}
		if l.Type != nil {
			if tp, ok := l.Type.(*types.TypeParam); ok {
				zero = ex.ctx.Const("zero_"+tp.Obj().Name(), SInt).S
			}
		}
		inner := elemSort(hs)
		z := Term{zero, l.Sort}
		var zt Term
		if zero == "0" || zero == "false" {
			zt = constArray(inner, z)
		} else {
			// symbolic zero (type parameter): constant arrays need a value literal, so define by a quantified axiom
			if l.NArr > 0 {
				unsup("array-typed element with a type-parameter leaf")
			}
			zt = ex.ctx.Fresh("zeroarr", inner)
			st.assume(Term{fmt.Sprintf("(forall ((j!z Int)) (= (select %s j!z) %s))", zt.S, z.S), SBool})
		}
		st.setHeap(key, tStore(h, s.Ref, zt))
		if ex.discover != nil {
			// writes to a freshly allocated backing array never need havoc
		}
	}
}

// constArray builds ((as const sort) v) for possibly nested array sorts.
func constArray(s Sort, v Term) Term {
	if !strings.HasPrefix(string(s), "(Array ") {
		return v
	}
	inner := constArray(elemSort(s), v)
	return Term{fmt.Sprintf("((as const %s) %s)", s, inner.S), s}
}

func (ex *Exec) typeID(t types.Type) Term {
	// concrete dynamic types get small distinct positive ids
	key := "type:" + fullType(t)
	id, ok := ex.strIDs[key]
	if !ok {
		id = len(ex.strIDs) + 1
		ex.strIDs[key] = id
	}
	return intLit(int64(id))
}

func (ex *Exec) makeInterface(st *State, x *ssa.MakeInterface) Value {
	v := st.val(x.X)
	t := x.X.Type()
	switch vv := v.(type) {
	case Sc:
		return If{ex.typeID(t), vv.T}
	case Loc:
		// pointer to an embedded/local object boxed in an interface: opaque token
		ex.note("interior pointer boxed into an interface is an opaque token")
		return If{ex.typeID(t), ex.ctx.Fresh("boxedloc", SInt)}
	case If:
		return vv
	}
	// aggregate boxed by value: box it into a fresh object holding the value
	r := st.newRef("box")
	st.store(Loc{Kind: "O", Base: "box:" + typeKeyString(t), Dims: []Term{r}, Type: t}, v)
	return If{ex.typeID(t), r}
}

func (ex *Exec) typeAssert(st *State, x *ssa.TypeAssert) Value {
	iv, ok := st.val(x.X).(If)
	if !ok {
		unsup("type assertion on %T", st.val(x.X))
	}
	var okT Term
	var res Value
	if _, isIface := under(x.AssertedType).(*types.Interface); isIface {
		// interface-to-interface: succeeds iff non-nil and implements; abstracted by an uninterpreted predicate
		p := ex.uf(st, "implements_"+sanitize(shortType(x.AssertedType)), SBool, iv.Typ)
		okT = tAnd(tNot(tEq(iv.Typ, intLit(0))), p)
		res = iv
	} else {
		okT = tEq(iv.Typ, ex.typeID(x.AssertedType))
		switch under(x.AssertedType).(type) {
		case *types.Struct, *types.Array, *types.Slice:
			res = st.load(Loc{Kind: "O", Base: "box:" + typeKeyString(x.AssertedType), Dims: []Term{iv.Val}, Type: x.AssertedType})
		default:
			res = Sc{iv.Val}
			st.typeAssume(iv.Val, x.AssertedType)
		}
	}
	if x.CommaOk {
		z := ex.zeroOf(x.AssertedType)
		return Tu{[]Value{iteValue(x.AssertedType, okT, res, z), Sc{okT}}}
	}
	ex.safety(st, x, "typeassert", okT)
	return res
}

// ---------- return / ensures ----------

func (ex *Exec) doReturn(st *State, r *ssa.Return) {
	if ex.discover != nil {
		return
	}
	env := ex.fnEnv(st, ex.entry)
	env.localsOK = true // postconditions may mention the function's locals (their values at this return); parameters win
	res := ex.fn.Signature.Results()
	for i, v := range r.Results {
		tv := TV{st.val(v), res.At(i).Type()}
		env.vars[fmt.Sprintf("result%d", i)] = tv
		if i == 0 {
			env.vars["result"] = tv
		}
		if n := res.At(i).Name(); n != "" && n != "_" {
			if _, clash := env.vars[n]; !clash {
				env.vars[n] = tv
			}
		}
	}
	ex.sawReturn = true
	// vacuity guard: at least one return path must be reachable under everything assumed so far (a contradictory
	// callee contract or invariant would otherwise "prove" every postcondition)
	ex.obligs = append(ex.obligs, Oblig{Name: ex.obName("cover.return"), Kind: "cover", Asm: st.asm[:len(st.asm):len(st.asm)], Goal: tFalse, Cover: true, Desc: "some return is reachable"})
	for _, w := range ex.spec.Witnesses {
		env.vars[w.Name] = TV{ex.evalWitness(env, w), nil}
	}
	for i, e := range ex.spec.Ensures {
		name := e.Label
		if name == "" {
			name = fmt.Sprintf("ensures.%d", i)
		}
		g, ok := ex.evalEnsures(env, name, e)
		if !ok {
			continue
		}
		st.oblige(ex.obName(name), "ensures", g, e.Src)
	}
	if ex.spec.Panics != nil {
		// panics is an iff: a normal return implies the panic condition did not hold on entry
		g := tNot(ex.entryEnv(st).evalBool(ex.spec.Panics))
		st.oblige(ex.obName("panics.iff"), "panics", g, "normal return only when !("+ex.spec.Panics.String()+")")
	}
}

// evalEnsures evaluates a postcondition at a return. A clause that names something the (changed) code no longer has - a
// local variable, the witness of a call that is gone - cannot be bound: it is skipped and remembered, the function is
// reported as UNDECIDED for that clause, and the remaining obligations still decide (a change that also breaks the
// property then fails one of them and is reported as a violation rather than as 'contract unbound').
func (ex *Exec) evalEnsures(env *Env, name string, e Clause) (g Term, ok bool) {
	defer func() {
		if r := recover(); r != nil {
			if se, isSpec := r.(specErr); isSpec && strings.HasPrefix(se.msg, "unknown identifier") {
				msg := fmt.Sprintf("postcondition %s could not be bound (%s)", name, se.msg)
				dup := false
				for _, u := range ex.unbound {
					if u == msg {
						dup = true
					}
				}
				if !dup {
					ex.unbound = append(ex.unbound, msg)
				}
				g, ok = tTrue, false
				return
			}
			panic(r)
		}
	}()
	return env.evalBool(e.Expr), true
}

// initGhosts creates the ghost globals declared in the contract file.
func (ex *Exec) initGhosts(st *State) {
	st.ghost["jsonEncCount"] = Sc{intLit(0)}
	st.ghost["jsonEncTyp"] = Sc{intLit(0)}
	st.ghost["jsonEncVal"] = Sc{intLit(0)}
	if ex.cf == nil {
		return
	}
	for _, name := range sortedKeys(ex.cf.Ghosts) {
		g := ex.cf.Ghosts[name]
		var sort Sort
		switch g.Kind {
		case "int":
			sort = SInt
		case "bool":
			sort = SBool
		case "map", "seq", "array":
			sort = arrSort(SInt, SInt)
		case "map2":
			sort = arrSort(SInt, arrSort(SInt, SInt))
		case "set":
			sort = arrSort(SInt, SBool)
		default:
			unsup("ghost kind %s", g.Kind)
		}
		st.ghost[name] = Sc{ex.ctx.Const("ghost_"+name, sort)}
	}
}

func allocIsSliced(a *ssa.Alloc) bool {
	if a.Referrers() == nil {
		return false
	}
	for _, r := range *a.Referrers() {
		if _, ok := r.(*ssa.Slice); ok {
			return true
		}
	}
	return false
}

// entryEnv evaluates over the entry state; side assumptions (Euclid definitions, ranges) go to st.
func (ex *Exec) entryEnv(st *State) *Env {
	env := ex.fnEnv(ex.entry, ex.entry)
	env.sink = st
	return env
}

type euclidEntry struct{ x, y, q, r Term }

// euclidPair returns quotient and remainder constants for floor division x / y (y > 0), defined by the
// Euclidean axiom in the sink state. Division is a function: every pair is related to every earlier pair
// by the congruence x1 = x2 ∧ y1 = y2 ⇒ q1 = q2 ∧ r1 = r2 (Ackermann instances), so the solver never has to
// rediscover uniqueness of Euclidean division.
func (ex *Exec) euclidPair(sink *State, x, y Term) (Term, Term) {
	key := x.S + "|" + y.S
	e, ok := ex.euclid[key]
	if !ok {
		e = &euclidEntry{x: x, y: y, q: ex.ctx.Fresh("q", SInt), r: ex.ctx.Fresh("r", SInt)}
		ex.euclid[key] = e
		ex.euclidOrder = append(ex.euclidOrder, e)
	}
	def := tImp(tGt(y, intLit(0)), tAnd(tEq(x, tAdd(tMul(e.q, y), e.r)), tLe(intLit(0), e.r), tLt(e.r, y), tImp(tGe(x, intLit(0)), tLe(intLit(0), e.q))))
	if sink.euclidSeen == nil {
		sink.euclidSeen = map[string]bool{}
	}
	if !sink.euclidSeen[key] {
		sink.euclidSeen[key] = true
		sink.assume(def)
		for _, o := range ex.euclidOrder {
			if o == e || !sink.euclidSeen[o.x.S+"|"+o.y.S] {
				continue
			}
			sink.assume(tImp(tAnd(tEq(o.x, x), tEq(o.y, y)), tAnd(tEq(o.q, e.q), tEq(o.r, e.r))))
		}
	}
	return e.q, e.r
}
