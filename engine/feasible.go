package main

import (
	"strings"

	"golang.org/x/tools/go/ssa"
)

// feasible asks one fast solver whether the path condition extended by cond is satisfiable, using only the
// quantifier-free assumptions (a sound weakening: if that is unsatisfiable so is the full path). Used to prune
// branches in functions with many paths; `unknown` keeps the branch.
func (ex *Exec) feasible(st *State, cond Term) bool {
	if cond.S == "true" {
		return true
	}
	var ground []Term
	for _, a := range st.asm {
		if strings.Contains(a.S, "(forall ") || strings.Contains(a.S, "(exists ") {
			continue
		}
		ground = append(ground, a)
	}
	ground = append(ground, cond)
	q := ex.ctx.Query(ground, tFalse, false)
	unsat, _ := solveGround(q)
	if unsat {
		ex.pruned++
	}
	return !unsat
}

// pureContractCall handles a call, inside a pure closure, to a function whose contract assigns nothing and DEFINES its
// result (an ensures clause of the form `result <==> E` or `result == E`): the call is replaced by E; the callee's
// requires become conditions the closure needs in order to be safe.
func (ex *Exec) pureContractCall(st *State, x *ssa.Call, pc Term) (Value, bool) {
	callee := x.Call.StaticCallee()
	if callee == nil {
		return nil, false
	}
	spec, cf := ex.db.fnSpecFor(callee, ex.pkgPath)
	if spec == nil || !(spec.Pure || (spec.AssignsSet && len(spec.Assigns) == 0)) {
		return nil, false
	}
	org := callee
	if callee.Origin() != nil {
		org = callee.Origin()
	}
	env := &Env{ex: ex, cur: st, old: st, vars: map[string]TV{}, cf: cf, inQuant: 1}
	// parameter names: the contract's own (ext declarations name them), else the function's, else the signature's
	var pnames []string
	if len(spec.Params) > 0 {
		pnames = spec.Params
	} else if len(org.Params) > 0 {
		for _, p := range org.Params {
			pnames = append(pnames, p.Name())
		}
	} else {
		sig := callee.Signature
		if sig.Recv() != nil {
			pnames = append(pnames, sig.Recv().Name())
		}
		for i := 0; i < sig.Params().Len(); i++ {
			pnames = append(pnames, sig.Params().At(i).Name())
		}
	}
	for i, n := range pnames {
		if i < len(x.Call.Args) && n != "" {
			env.vars[n] = TV{st.val(x.Call.Args[i]), x.Call.Args[i].Type()}
		}
	}
	for _, r := range spec.Requires {
		ex.pure.safe = append(ex.pure.safe, tImp(pc, env.evalBool(r.Expr)))
	}
	for _, e := range spec.Ensures {
		if e.Expr.Kind == "binop" && (e.Expr.Op == "<==>" || e.Expr.Op == "==") && e.Expr.Args[0].Kind == "ident" && e.Expr.Args[0].Op == "result" {
			ex.usedContracts[calleeName(callee)] = spec
			return env.eval(e.Expr.Args[1]).V, true
		}
	}
	return nil, false
}
