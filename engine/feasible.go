package main

import (
	"strings"
)

// feasible asks one fast solver whether the path condition extended by cond is satisfiable, using only the
// quantifier-free assumptions (a sound weakening: if that is unsatisfiable so is the full path). Used to prune
// branches in functions with many paths; `unknown` keeps the branch.
func (ex *Exec) feasible(st *State, cond Term) bool {
	if cond.S == "true" {
		return true
	}
	var ground []Term
	for _, a := range st.asm {
		if strings.Contains(a.S, "(forall ") || strings.Contains(a.S, "(exists ") {
			continue
		}
		ground = append(ground, a)
	}
	ground = append(ground, cond)
	q := ex.ctx.Query(ground, tFalse, false)
	unsat, _ := solveGround(q)
	if unsat {
		ex.pruned++
	}
	return !unsat
}
