package main

import (
	"encoding/json"
	"flag"
	"fmt"
	"os"
	"path/filepath"
	"sort"
	"strconv"
	"strings"
	"sync"
	"time"

	"golang.org/x/tools/go/ssa"
)

const verifDir = "/verif"

func main() {
	if len(os.Args) < 2 {
		usage()
	}
	if r := os.Getenv("AKVERIF_REPO"); r != "" {
		repoDir = r
	}
	switch os.Args[1] {
	case "check":
		os.Exit(cmdCheck(os.Args[2:]))
	case "list":
		db, err := loadSpecDB()
		if err != nil {
			fmt.Fprintln(os.Stderr, err)
			os.Exit(2)
		}
		for _, p := range db.allProperties() {
			fmt.Println(p, len(db.specsForProperty(p)))
		}
	case "ledger-update":
		os.Exit(cmdLedgerUpdate(os.Args[2:]))
	case "replay":
		os.Exit(cmdReplay(os.Args[2:]))
	case "sync-contracts":
		os.Exit(cmdSyncContracts())
	default:
		usage()
	}
}

func usage() {
	fmt.Fprintln(os.Stderr, "usage: akverif check <property> [--tier quick|thorough] [-v] | list | ledger-update | replay <file> | sync-contracts")
	os.Exit(2)
}

// ObResult is the verdict for one named obligation (all its path instances).
type ObResult struct {
	Name      string  `json:"name"`
	Kind      string  `json:"kind"`
	Status    string  `json:"status"` // discharged | failed | unknown | known-finding | cover-ok | cover-failed
	Instances int     `json:"instances"`
	Solver    string  `json:"solver,omitempty"`
	Secs      float64 `json:"secs"`
	Desc      string  `json:"desc,omitempty"`
	Detail    string  `json:"detail,omitempty"`
	model     map[string]string
	inputs    map[string]string
	coverUnsat int
	query     string
	output    string
	fn        string
}

type fnResult struct {
	spec    *FnSpec
	fn      *ssa.Function
	obligs  []Oblig
	err     error
	notes   []string
	used    []string
	paths   int
	ctx     *Ctx
	whens   map[string][]Term // obligation name -> known-finding conditions
	footprint []fpItem
	bounded string
}

type checkRun struct {
	id         string
	tier       string
	timeout    int
	verbose    bool
	db         *SpecDB
	ld         *Loaded
	results    []*fnResult
	kf         []knownFinding
	noEvidence bool
}

func cmdCheck(args []string) int {
	fs := flag.NewFlagSet("check", flag.ExitOnError)
	tier := fs.String("tier", "", "quick|thorough")
	verbose := fs.Bool("v", false, "verbose")
	only := fs.String("only", "", "only functions whose key contains this string")
	dump := fs.String("dump", "", "dump queries of obligations whose name contains this string to /verif/out/dump")
	noEv := fs.Bool("no-evidence", false, "do not write the evidence file (self-test runs against scratch copies)")
	if len(args) < 1 {
		usage()
	}
	id := args[0]
	fs.Parse(args[1:])
	if *tier == "" {
		*tier = os.Getenv("VERIF_TIER")
	}
	if *tier == "" {
		*tier = "quick"
	}
	start := time.Now()
	run := &checkRun{id: id, tier: *tier, timeout: 10, verbose: *verbose}
	defer func() { _ = noEv }()
	if *tier == "thorough" {
		run.timeout = 60
	}
	db, err := loadSpecDB()
	if err != nil {
		fmt.Fprintln(os.Stderr, "contract error:", err)
		return 2
	}
	run.db = db
	run.kf = loadKnownFindings(id)
	specs := db.specsForProperty(id)
	if len(specs) == 0 {
		fmt.Fprintf(os.Stderr, "no contracts are tagged with property %s\n", id)
		return 2
	}
	// packages to load
	pkgSet := map[string]bool{}
	for _, s := range specs {
		if s.Kind == "fn" || s.Kind == "lemma" {
			pkgSet[s.Pkg] = true
		}
	}
	var patterns []string
	for p := range pkgSet {
		patterns = append(patterns, p)
	}
	sort.Strings(patterns)
	if len(patterns) > 0 {
		ld, err := loadPackages(patterns...)
		if err != nil {
			fmt.Printf("UNDECIDED property=%s reason=load failed: %v\n", id, err)
			return 2
		}
		run.ld = ld
	}
	// verify functions (worklist with transitive contract use)
	done := map[string]bool{}
	work := append([]*FnSpec{}, specs...)
	undecided := []string{}
	// rounds: the functions of one round are executed symbolically in parallel (each has its own solver context and
	// state; the contract database and the SSA program are only read); the contracts they use form the next round
	for len(work) > 0 {
		var batch []*FnSpec
		for _, s := range work {
			if done[s.fullName()] || s.Trusted {
				continue
			}
			done[s.fullName()] = true
			if *only != "" && !strings.Contains(s.Key, *only) {
				continue
			}
			if s.Kind == "fn" || s.Kind == "lemma" {
				batch = append(batch, s)
			}
		}
		work = nil
		frs := make([]*fnResult, len(batch))
		var wg sync.WaitGroup
		sem := make(chan struct{}, execWorkers())
		for i, s := range batch {
			wg.Add(1)
			go func(i int, s *FnSpec) {
				defer wg.Done()
				sem <- struct{}{}
				defer func() { <-sem }()
				if s.Kind == "fn" {
					frs[i] = run.verifyFn(s)
				} else {
					frs[i] = run.verifyLemma(s)
				}
			}(i, s)
		}
		wg.Wait()
		for i, fr := range frs {
			s := batch[i]
			run.results = append(run.results, fr)
			if fr.err != nil {
				undecided = append(undecided, fmt.Sprintf("%s: %v", s.fullName(), fr.err))
				continue
			}
			for _, u := range fr.used {
				if us := run.findSpecByName(u); us != nil && us.Kind == "fn" && !us.Trusted && !done[us.fullName()] {
					if run.ld.Pkgs[us.Pkg] != nil {
						work = append(work, us)
					}
				}
			}
		}
	}
	// solve
	obres := run.solveAll(*dump)
	wall := time.Since(start).Seconds()
	run.noEvidence = *noEv
	return run.report(obres, undecided, wall)
}

func (run *checkRun) findSpecByName(name string) *FnSpec {
	for _, cf := range run.db.files {
		for _, s := range cf.Fns {
			if s.Kind == "fn" && s.fullName() == name {
				return s
			}
		}
	}
	return nil
}

func (run *checkRun) verifyFn(s *FnSpec) *fnResult {
	fr := &fnResult{spec: s, bounded: s.Bounded}
	sp := run.ld.Pkgs[s.Pkg]
	if sp == nil {
		fr.err = fmt.Errorf("package %s not loaded", s.Pkg)
		return fr
	}
	fns := run.ld.allFunctions(s.Pkg)
	fn := fns[s.Key]
	if fn == nil {
		fr.err = fmt.Errorf("contract unbound: function %s not found in %s", s.Key, shortPkg(s.Pkg))
		return fr
	}
	fr.fn = fn
	ex := newExec(run.ld, run.db, fn, s, run.db.files[s.Pkg])
	ex.kf = run.kf
	var obligs []Oblig
	err := safeSpec(func() {
		var e error
		obligs, e = ex.verify()
		if e != nil {
			panic(specErr{e.Error()})
		}
	})
	fr.obligs = obligs
	fr.err = err
	if err == nil && len(ex.unbound) > 0 {
		// the other obligations are still solved; the function stays undecided for the clauses that could not be bound
		fr.err = fmt.Errorf("%s", strings.Join(ex.unbound, "; "))
	}
	fr.notes = sortedStrings(ex.notes)
	for u := range ex.usedContracts {
		fr.used = append(fr.used, u)
	}
	sort.Strings(fr.used)
	fr.paths = ex.paths
	fr.ctx = ex.ctx
	fr.whens = ex.whens
	fr.footprint = ex.footprint
	if run.verbose {
		fmt.Fprintf(os.Stderr, "  %s: %d obligation instances, %d paths, err=%v\n", s.fullName(), len(obligs), ex.paths, err)
	}
	return fr
}

func (run *checkRun) verifyLemma(s *FnSpec) *fnResult {
	fr := &fnResult{spec: s}
	ex := &Exec{ctx: newCtx(), db: run.db, spec: s, cf: run.db.files[s.Pkg], pkgPath: s.Pkg, params: map[string]TV{},
		notes: map[string]bool{}, strIDs: map[string]int{}, euclid: map[string]*euclidEntry{}, usedContracts: map[string]*FnSpec{}, fidx: map[string]Term{}}
	st := &State{ex: ex, locals: map[*ssa.Alloc]Value{}, regs: map[ssa.Value]Value{}, heaps: map[string]Term{},
		ghost: map[string]Value{}, ranged: map[string]bool{}}
	st.allocTop = ex.ctx.Const("allocTop0", SInt)
	err := safeSpec(func() {
		env := &Env{ex: ex, cur: st, old: st, vars: map[string]TV{}, cf: ex.cf}
		if run.ld != nil {
			if pp := run.ld.PP[s.Pkg]; pp != nil {
				ex.typesPkg = pp.Types
			}
		}
		for i, p := range s.Params {
			kind := "int"
			if i < len(s.ParamKinds) {
				kind = s.ParamKinds[i]
			}
			switch kind {
			case "int", "bool", "map", "set", "seq", "array", "nat":
				env.vars[p] = TV{Sc{ex.ctx.Const("p_"+p, kindSort(kind))}, nil}
				if kind == "nat" {
					st.assume(tLe(intLit(0), env.vars[p].V.(Sc).T))
				}
			default:
				// a Go type: the lemma holds for every value of that type in every heap
				t := env.resolveType(kind)
				env.vars[p] = TV{st.freshValue(t, "p_"+p), t}
			}
		}
		if s.Induct != "" {
			// strong induction on a natural-number parameter: the statement may be assumed for every smaller value.
			// Built as a spec quantifier over a synthetic predicate (same absolute-index treatment as elsewhere).
			iv, ok := env.vars[s.Induct]
			if !ok {
				sfail("induct: unknown parameter %s", s.Induct)
			}
			st.assume(tLe(intLit(0), iv.V.(Sc).T))
			body := conjExpr(lemClauses(s.Ensures))
			if len(s.Requires) > 0 {
				body = &SExpr{Kind: "binop", Op: "==>", Args: []*SExpr{conjExpr(lemClauses(s.Requires)), body}}
			}
			dn := "lemma$ih$" + s.Key
			defsMu.Lock()
			ex.cf.Defs[dn] = &SpecDef{Name: dn, Kind: "pred", Params: s.Params, Body: body}
			defsMu.Unlock()
			var args []*SExpr
			for _, p := range s.Params {
				if p == s.Induct {
					args = append(args, &SExpr{Kind: "ident", Op: "ih$v"})
				} else {
					args = append(args, &SExpr{Kind: "ident", Op: p})
				}
			}
			q := &SExpr{Kind: "forall", Vars: []QVar{{Name: "ih$v", Type: "int", Lo: &SExpr{Kind: "lit", Lit: "0"}, Hi: &SExpr{Kind: "ident", Op: s.Induct}}},
				Args: []*SExpr{{Kind: "call", Op: dn, Args: args}}}
			st.assume(env.evalBool(q))
		}
		for _, r := range s.Requires {
			st.assume(env.evalBool(r.Expr))
		}
		ex.useLemmas(st, env, "lemma "+shortPkg(s.Pkg)+"."+s.Key+"#")
		ex.obligs = append(ex.obligs, Oblig{Name: "lemma " + shortPkg(s.Pkg) + "." + s.Key + "#cover.requires", Kind: "cover", Asm: st.asm[:len(st.asm):len(st.asm)], Goal: tFalse, Cover: true})
		for i, e := range s.Ensures {
			l := e.Label
			if l == "" {
				l = fmt.Sprintf("ensures.%d", i)
			}
			g := env.evalBool(e.Expr)
			ex.obligs = append(ex.obligs, Oblig{Name: "lemma " + shortPkg(s.Pkg) + "." + s.Key + "#" + l, Kind: "lemma", Asm: st.asm[:len(st.asm):len(st.asm)], Goal: g, Desc: e.Src})
			st.assume(g) // later conclusions may rely on earlier ones (each is proved in turn)
		}
	})
	fr.err = err
	fr.obligs = ex.obligs
	fr.ctx = ex.ctx
	fr.notes = sortedStrings(ex.notes)
	return fr
}

type job struct {
	fr   *fnResult
	ob   Oblig
	name string
}

func (run *checkRun) solveAll(dump string) []*ObResult {
	type inst struct {
		res SolveResult
		ob  Oblig
		fr  *fnResult
		q   string
	}
	var jobs []job
	for _, fr := range run.results {
		for _, ob := range fr.obligs {
			jobs = append(jobs, job{fr: fr, ob: ob, name: ob.Name})
		}
	}
	results := make([]inst, len(jobs))
	var wg sync.WaitGroup
	sem := make(chan struct{}, 8)
	for i := range jobs {
		wg.Add(1)
		go func(i int) {
			defer wg.Done()
			sem <- struct{}{}
			defer func() { <-sem }()
			j := jobs[i]
			if j.ob.Goal.S == "true" && !j.ob.Cover {
				results[i] = inst{res: SolveResult{Status: "unsat", Solver: "trivial"}, ob: j.ob, fr: j.fr}
				return
			}
			asm := j.ob.Asm
			// known findings: prove under the negation of the recorded condition
			if ws := j.fr.whens[j.ob.Name]; len(ws) > 0 && !j.ob.Cover {
				asm = append(append([]Term{}, asm...), tNot(tOr(ws...)))
			}
			if !j.ob.Cover {
				// stage 0: ground hypotheses only
				var ground []Term
				nq := 0
				for _, a := range asm {
					if strings.Contains(a.S, "(forall ") || strings.Contains(a.S, "(exists ") {
						nq++
						continue
					}
					ground = append(ground, a)
				}
				if nq > 0 {
					if ok, secs := solveGround(j.fr.ctx.Query(ground, j.ob.Goal, false)); ok {
						results[i] = inst{res: SolveResult{Status: "unsat", Solver: "z3-5.1.0 (ground hypotheses)", Secs: secs}, ob: j.ob, fr: j.fr}
						return
					}
				}
			}
			var fpTerms []Term
			for _, it := range j.fr.footprint {
				fpTerms = append(fpTerms, it.Term)
			}
			q := j.fr.ctx.Query(asm, j.ob.Goal, true, fpTerms...)
			if dump != "" && strings.Contains(j.ob.Name, dump) {
				dd := filepath.Join(verifDir, "out", "dump")
				if d := os.Getenv("AKVERIF_DUMPDIR"); d != "" {
					dd = d
				}
				os.MkdirAll(dd, 0o755)
				os.WriteFile(filepath.Join(dd, sanitize(j.ob.Name)+"_"+strconv.Itoa(i)+".smt2"), []byte(q), 0o644)
			}
			to := run.timeout
			if j.ob.Cover {
				to = 2 // vacuity probes only need a quick 'sat'; 'unknown' is not a failure
			}
			results[i] = inst{res: solve(q, to), ob: j.ob, fr: j.fr, q: q}
		}(i)
	}
	wg.Wait()
	// second chance: an `unknown` is most often a wall-clock limit hit while 8 queries (x3 solvers) compete for the
	// cores. Retry those few alone, two at a time, with a six-fold limit before they count as undecided.
	var again []int
	for i, r := range results {
		if r.res.Status == "unknown" && !r.ob.Cover && r.q != "" {
			again = append(again, i)
		}
	}
	if len(again) > 0 && len(again) <= 32 {
		sem2 := make(chan struct{}, 2)
		var wg2 sync.WaitGroup
		for _, i := range again {
			wg2.Add(1)
			go func(i int) {
				defer wg2.Done()
				sem2 <- struct{}{}
				defer func() { <-sem2 }()
				r2 := solveOpt(results[i].q, run.timeout*6, false)
				if r2.Status == "sat" || r2.Status == "unsat" {
					r2.Solver += " (second pass)"
					results[i].res = r2
				}
			}(i)
		}
		wg2.Wait()
	}
	// group by name
	byName := map[string]*ObResult{}
	var order []string
	for _, r := range results {
		o := byName[r.ob.Name]
		if o == nil {
			o = &ObResult{Name: r.ob.Name, Kind: r.ob.Kind, Status: "discharged", Desc: r.ob.Desc, fn: r.fr.spec.fullName()}
			if r.ob.Cover {
				o.Status = "cover-ok"
			}
			byName[r.ob.Name] = o
			order = append(order, r.ob.Name)
		}
		o.Instances++
		o.Secs += r.res.Secs
		if o.Solver == "" || r.res.Solver != "trivial" {
			o.Solver = r.res.Solver
		}
		if r.ob.Cover {
			// must be satisfiable: "sat" is good; "unsat" means the hypotheses are contradictory on this path
			// vacuous only if EVERY instance is contradictory; an undecided instance counts as possibly reachable
			switch r.res.Status {
			case "unsat":
				o.coverUnsat++
			case "error":
				o.Status = "error"
				o.output = r.res.Output
			}
			continue
		}
		switch r.res.Status {
		case "unsat":
		case "sat":
			if o.Status != "failed" {
				o.Status = "failed"
				o.model = r.res.Model
				o.inputs = map[string]string{}
				vals := parseValues(r.res.Output)
				for k, it := range r.fr.footprint {
					if k < len(vals) {
						o.inputs[it.Label] = vals[k]
					}
				}
				o.query = r.q
				o.output = r.res.Output
			}
		case "error":
			o.Status = "error"
			o.output = r.res.Output
			o.query = r.q
		default:
			if o.Status == "discharged" {
				o.Status = "unknown"
				o.query = r.q
				o.output = r.res.Output
			}
		}
	}
	var out []*ObResult
	for _, n := range order {
		o := byName[n]
		if o.Kind == "cover" && o.Status == "cover-ok" && o.coverUnsat == o.Instances {
			o.Status = "cover-failed"
		}
		out = append(out, o)
	}
	return out
}

// ---------- ledger ----------

type ledgerEntry struct {
	Status string `json:"status"`
	Solver string `json:"solver"`
}

func loadLedger() map[string]ledgerEntry {
	m := map[string]ledgerEntry{}
	data, err := os.ReadFile(filepath.Join(verifDir, "baseline_obligations.json"))
	if err != nil {
		return m
	}
	json.Unmarshal(data, &m)
	return m
}

func cmdLedgerUpdate(args []string) int {
	// merge the obligation results of the last runs (out/last/<id>.json) into the committed ledger
	// usage: ledger-update <property>... : replaces the ledger entries of the named properties' functions by the
	// results of their last (clean) runs
	led := loadLedger()
	if len(args) == 0 {
		fmt.Fprintln(os.Stderr, "ledger-update needs the property ids whose last run should be recorded")
		return 2
	}
	var files []string
	for _, id := range args {
		files = append(files, filepath.Join(verifDir, "out", "last", id+".json"))
	}
	// drop stale entries of the functions these runs cover
	for _, f := range files {
		var obs []*ObResult
		data, _ := os.ReadFile(f)
		if json.Unmarshal(data, &obs) != nil {
			continue
		}
		prefixes := map[string]bool{}
		for _, o := range obs {
			if i := strings.Index(o.Name, "#"); i > 0 {
				prefixes[o.Name[:i+1]] = true
			}
		}
		for k := range led {
			if i := strings.Index(k, "#"); i > 0 && prefixes[k[:i+1]] {
				delete(led, k)
			}
		}
	}
	for _, f := range files {
		var obs []*ObResult
		data, _ := os.ReadFile(f)
		if json.Unmarshal(data, &obs) != nil {
			continue
		}
		for _, o := range obs {
			if o.Status == "discharged" || o.Status == "cover-ok" || o.Status == "known-finding" {
				led[o.Name] = ledgerEntry{Status: o.Status, Solver: strings.TrimSuffix(o.Solver, " (cached)")}
			}
		}
	}
	data, _ := json.MarshalIndent(led, "", " ")
	os.WriteFile(filepath.Join(verifDir, "baseline_obligations.json"), append(data, '\n'), 0o644)
	fmt.Printf("ledger: %d obligations\n", len(led))
	memoMerge(args)
	return 0
}

func cmdSyncContracts() int {
	n := 0
	filepath.Walk(contractsDir, func(p string, info os.FileInfo, err error) error {
		if err == nil && !info.IsDir() && isContractFile(filepath.Base(p)) {
			rel, _ := filepath.Rel(contractsDir, p)
			dst := filepath.Join(repoDir, rel)
			data, _ := os.ReadFile(p)
			if old, err := os.ReadFile(dst); err != nil || string(old) != string(data) {
				if _, err := os.Stat(filepath.Dir(dst)); err == nil {
					os.WriteFile(dst, data, 0o644)
					n++
				}
			}
		}
		return nil
	})
	fmt.Printf("synced %d contract files into %s\n", n, repoDir)
	return 0
}
