package main

import (
	"fmt"
	"go/types"
	"strings"

	"golang.org/x/tools/go/ssa"
)

// call executes a call instruction; returns (result, pathEnded).
func (ex *Exec) call(st *State, in ssa.Instruction, c *ssa.CallCommon) (Value, bool) {
	// builtins
	if b, ok := c.Value.(*ssa.Builtin); ok {
		return ex.builtin(st, in, b, c), false
	}
	ord := ex.callOrd[in]
	if c.IsInvoke() {
		recv := st.val(c.Value)
		it := c.Value.Type()
		spec, cf := ex.db.ifaceSpec(it, c.Method.Name(), ex.pkgPath)
		args := []TV{{recv, it}}
		for _, a := range c.Args {
			args = append(args, TV{st.val(a), a.Type()})
		}
		sig := c.Method.Type().(*types.Signature)
		name := shortType(it) + "." + c.Method.Name()
		if spec == nil {
			return ex.unknownCall(st, in, name, sig), false
		}
		pnames := append([]string{"self"}, spec.Params...)
		if len(spec.Params) == 0 {
			for i := 0; i < sig.Params().Len(); i++ {
				pnames = append(pnames, sig.Params().At(i).Name())
			}
		}
		return ex.applyContract(st, in, ord, name, spec, cf, pnames, args, sig)
	}
	callee := c.StaticCallee()
	if callee == nil {
		// call of a function value
		if f, ok := st.val(c.Value).(Fn); ok {
			callee = f.Fn
		} else {
			sig := c.Signature()
			// a call through a package-level function variable may have a (trusted) contract: `ext <pkg>.<var>(params)`,
			// an assumption about whatever function is installed in the variable
			if ld, isLoad := c.Value.(*ssa.UnOp); isLoad {
				if g, isGlobal := ld.X.(*ssa.Global); isGlobal {
					for _, key := range []string{g.Pkg.Pkg.Path() + "." + g.Name(), shortPkg(g.Pkg.Pkg.Path()) + "." + g.Name()} {
						if spec, ok := ex.db.ext[key]; ok {
							args := make([]TV, len(c.Args))
							for i, a := range c.Args {
								args[i] = TV{st.val(a), a.Type()}
							}
							pn := spec.Params
							if len(pn) == 0 {
								for i := 0; i < sig.Params().Len(); i++ {
									pn = append(pn, sig.Params().At(i).Name())
								}
							}
							return ex.applyContract(st, in, ord, key, spec, ex.db.extCF[key], pn, args, sig)
						}
					}
				}
			}
			// a call through a value of a NAMED function type may have a (trusted) contract `ext <pkg>.<TypeName>(params)`
			for _, key := range namedFuncTypeKey(c.Value.Type()) {
				spec, ok := ex.db.local[ex.pkgPath+"|ext "+key]
				cf := ex.db.files[ex.pkgPath]
				if !ok {
					if _, bad := ex.db.conflicts["ext "+key]; bad {
						continue
					}
					spec, ok = ex.db.ext[key]
					cf = ex.db.extCF[key]
				}
				if ok {
					args := make([]TV, len(c.Args))
					for i, a := range c.Args {
						args[i] = TV{st.val(a), a.Type()}
					}
					pn := spec.Params
					if len(pn) == 0 {
						for i := 0; i < sig.Params().Len(); i++ {
							pn = append(pn, sig.Params().At(i).Name())
						}
					}
					return ex.applyContract(st, in, ord, key, spec, cf, pn, args, sig)
				}
			}
			return ex.unknownCall(st, in, "function value", sig), false
		}
	}
	name := calleeName(callee)
	// panicking library calls
	switch name {
	case "log.Panic", "log.Panicf", "log.Panicln", "log.Fatal", "log.Fatalf", "log.Fatalln", "os.Exit":
		ex.panicExit(st, in, name)
		return nil, true
	}
	args := make([]TV, len(c.Args))
	for i, a := range c.Args {
		args[i] = TV{st.val(a), a.Type()}
	}
	if lockOp(name) != "" && len(args) == 1 && ex.lockCall(st, in, name, args[0].V) {
		return Tu{}, false
	}
	if strings.HasPrefix(name, "encoding/json.") {
		if v, ok := ex.jsonCall(st, in, name, c); ok {
			return v, false
		}
	}
	if name == "maps.Keys" {
		if v, ok := ex.mapsKeysCall(st, callee, c); ok {
			return v, false
		}
	}
	if name == "slices.Sorted" {
		if v, ok := ex.slicesSortedCall(st, in, c); ok {
			return v, false
		}
	}
	if name == "sort.Slice" && len(c.Args) == 2 {
		if v, ok := ex.sortSlice(st, in, c); ok {
			return v, false
		}
	}
	spec, cf := ex.db.fnSpecFor(callee, ex.pkgPath)
	sig := callee.Signature
	if len(callee.FreeVars) > 0 {
		// a function literal with captured variables: a contract cannot name the captures, so a straight-line body is
		// executed inline; anything else is outside the subset
		f, isFn := st.val(c.Value).(Fn)
		if spec == nil && isFn {
			if v, ended, ok := ex.inlineStraightLine(st, callee, f.Bindings, args); ok {
				return v, ended
			}
		}
		if spec != nil {
			unsup("call of closure %s with captured variables through a contract", callee.Name())
		}
	}
	if spec == nil {
		if v, ok := ex.knownExternal(st, in, name, args, sig); ok {
			return v, false
		}
		return ex.unknownCall(st, in, name, sig), false
	}
	var pnames []string
	org := callee
	if callee.Origin() != nil {
		org = callee.Origin()
	}
	if len(spec.Params) > 0 {
		pnames = spec.Params
	} else {
		for _, p := range org.Params {
			pnames = append(pnames, p.Name())
		}
		if len(pnames) != len(args) { // external function without body
			pnames = nil
			if sig.Recv() != nil {
				pnames = append(pnames, sig.Recv().Name())
			}
			for i := 0; i < sig.Params().Len(); i++ {
				pnames = append(pnames, sig.Params().At(i).Name())
			}
		}
	}
	if ta := callee.TypeArgs(); len(ta) > 0 {
		// an instantiated generic callee: zero() in its contract is the zero value of the actual type argument
		saved := ex.zeroT
		ex.zeroT = ta[0]
		defer func() { ex.zeroT = saved }()
	}
	return ex.applyContract(st, in, ord, name, spec, cf, pnames, args, sig)
}

func calleeName(fn *ssa.Function) string {
	if fn.Origin() != nil {
		fn = fn.Origin()
	}
	if fn.Pkg == nil {
		// synthetic wrappers / instantiated methods of other packages
		if fn.Signature.Recv() != nil {
			return "(" + fullType(fn.Signature.Recv().Type()) + ")." + fn.Name()
		}
		return fn.Name()
	}
	p := fn.Pkg.Pkg.Path()
	return shortPkg(p) + "." + funcKey(fn)
}

// unknownCall: no contract — havoc everything and return an unconstrained value.
func (ex *Exec) unknownCall(st *State, in ssa.Instruction, name string, sig *types.Signature) Value {
	ex.note("call without contract: " + name + " (whole heap havocked, result unconstrained)")
	if ex.discover != nil {
		ex.discover.all = true
	}
	if ex.spec.AssignsSet && ex.discover == nil {
		st.oblige(ex.obName(fmt.Sprintf("frame.call%d", ex.callOrd[in])), "frame", tFalse,
			"call to "+name+" has no contract, so the caller's assigns clause cannot be established")
	}
	st.havocAll()
	return ex.freshResult(st, sig, "ret_"+sanitize(name))
}

func (ex *Exec) freshResult(st *State, sig *types.Signature, hint string) Value {
	res := sig.Results()
	switch res.Len() {
	case 0:
		return Tu{}
	case 1:
		return st.freshValue(res.At(0).Type(), hint)
	}
	es := make([]Value, res.Len())
	for i := range es {
		es[i] = st.freshValue(res.At(i).Type(), fmt.Sprintf("%s_%d", hint, i))
	}
	return Tu{es}
}

// knownExternal models a few pure library functions.
func (ex *Exec) knownExternal(st *State, in ssa.Instruction, name string, args []TV, sig *types.Signature) (Value, bool) {
	switch name {
	case "sort.Search":
		return ex.sortSearch(st, in, asSc(args[0].V, args[0].T).T, args[1].V), true
	case "fmt.Sprintf", "fmt.Sprint", "fmt.Errorf", "errors.New", "fmt.Sprintln", "strconv.Itoa", "strconv.FormatUint":
		ex.note(name + " returns an unconstrained value")
		v := ex.freshResult(st, sig, sanitize(name))
		if iv, ok := v.(If); ok {
			st.assume(tNot(tEq(iv.Typ, intLit(0)))) // errors.New / fmt.Errorf never return nil
		}
		return v, true
	case "fmt.Printf", "fmt.Println", "fmt.Print", "log.Printf", "log.Println", "log.Print", "fmt.Fprintf", "fmt.Fprintln":
		return ex.freshResult(st, sig, sanitize(name)), true
	}
	return nil, false
}

// applyContract replaces a call by its contract.
func (ex *Exec) applyContract(st *State, in ssa.Instruction, ord int, name string, spec *FnSpec, cf *ContractFile, pnames []string, args []TV, sig *types.Signature) (Value, bool) {
	if len(pnames) != len(args) {
		unsup("contract for %s: %d parameter names for %d arguments", name, len(pnames), len(args))
	}
	ex.usedContracts[name] = spec
	bind := func(cur, old *State) *Env {
		env := &Env{ex: ex, cur: cur, old: old, vars: map[string]TV{}, cf: cf}
		for i, p := range pnames {
			env.vars[p] = args[i]
		}
		return env
	}
	// receiver must be non-nil for pointer-receiver methods
	if sig.Recv() != nil && len(args) > 0 {
		if sc, ok := args[0].V.(Sc); ok {
			if _, isPtr := under(args[0].T).(*types.Pointer); isPtr {
				ex.safety(st, in, "nilrecv", tNot(tEq(sc.T, intLit(0))))
			}
		}
	}
	pre := st.clone()
	penv := bind(pre, pre)
	penv.sink = st
	for i, r := range spec.Requires {
		l := r.Label
		if l == "" {
			l = fmt.Sprintf("pre%d", i)
		}
		g := penv.evalBool(r.Expr)
		if ex.discover == nil {
			st.oblige(ex.obName(fmt.Sprintf("call%d.%s.%s", ord, sanitize(shortCallee(name)), l)), "requires", g, name+" requires "+r.Src)
		}
		st.assume(g)
	}
	// panics
	if spec.PanicsAny {
		if !ex.spec.PanicsAny && ex.discover == nil {
			st.oblige(ex.obName(fmt.Sprintf("call%d.%s.nopanic", ord, sanitize(shortCallee(name)))), "nopanic", tFalse, name+" may panic unconditionally per its contract")
		}
	} else if spec.Panics != nil {
		pc := penv.evalBool(spec.Panics)
		ex.safety(st, in, "callpanic."+sanitize(shortCallee(name)), tNot(pc))
	}
	// havoc assigns
	if !spec.AssignsSet && !spec.Pure {
		ex.note("contract of " + name + " has no assigns clause: whole heap havocked")
		if ex.discover != nil {
			ex.discover.all = true
		}
		if ex.spec.AssignsSet && ex.discover == nil {
			st.oblige(ex.obName(fmt.Sprintf("frame.call%d", ord)), "frame", tFalse, "callee "+name+" has no assigns clause")
		}
		st.havocAll()
	} else {
		for _, a := range spec.Assigns {
			al := penv.evalAssign(a)
			ex.checkFrameAssign(st, in, al)
			ex.havocAssign(st, al)
		}
	}
	if !spec.Pure {
		// the callee may have allocated: later allocations here must not reuse its references
		top := ex.ctx.Fresh("allocTop", SInt)
		st.assume(tGe(top, st.allocTop))
		st.allocTop = top
	}
	res := ex.freshResult(st, sig, "ret_"+sanitize(shortCallee(name)))
	// assume ensures
	eenv := bind(st, pre)
	rs := sig.Results()
	switch rs.Len() {
	case 0:
	case 1:
		eenv.vars["result"] = TV{res, rs.At(0).Type()}
		eenv.vars["result0"] = eenv.vars["result"]
		if n := rs.At(0).Name(); n != "" && n != "_" {
			if _, clash := eenv.vars[n]; !clash {
				eenv.vars[n] = eenv.vars["result"]
			}
		}
	default:
		for i, e := range res.(Tu).E {
			eenv.vars[fmt.Sprintf("result%d", i)] = TV{e, rs.At(i).Type()}
			if n := rs.At(i).Name(); n != "" && n != "_" {
				if _, clash := eenv.vars[n]; !clash {
					eenv.vars[n] = TV{e, rs.At(i).Type()}
				}
			}
		}
		eenv.vars["result"] = eenv.vars["result0"]
	}
	for i, rn := range spec.Results {
		if v, ok := eenv.vars[fmt.Sprintf("result%d", i)]; ok {
			eenv.vars[rn] = v
		}
	}
	// ghost loop variables mentioned in the callee's postconditions are witnesses it produced: existential for the caller
	// (the caller can name them <method>_<ghost>, e.g. up_pi, in its own witness clauses and postconditions)
	short := shortCallee(name)
	if i := strings.LastIndex(short, "."); i >= 0 {
		short = short[i+1:]
	}
	for _, ls := range spec.Loops {
		for _, g := range ls.Ghosts {
			if _, bound := eenv.vars[g.Name]; !bound {
				w := Sc{ex.ctx.Fresh("wit_"+sanitize(short)+"_"+g.Name, ghostSortAt(st, g.Init))}
				eenv.vars[g.Name] = TV{w, nil}
				if prev, ok := st.ghost[short+"_"+g.Name]; ok {
					st.setGhost(short+"_prev_"+g.Name, prev) // the call before the most recent one
				}
				st.setGhost(short+"_"+g.Name, w)
			}
		}
	}
	for _, wt := range spec.Witnesses {
		if _, bound := eenv.vars[wt.Name]; !bound {
			w := Sc{ex.ctx.Fresh("wit_"+sanitize(short)+"_"+wt.Name, kindSort(wt.Kind))}
			eenv.vars[wt.Name] = TV{w, nil}
			if prev, ok := st.ghost[short+"_"+wt.Name]; ok {
				st.setGhost(short+"_prev_"+wt.Name, prev)
			}
			st.setGhost(short+"_"+wt.Name, w)
		}
	}
	// witnesses of native models used INSIDE the callee (its own sort / sorted-keys calls) are existential for the caller:
	// they must neither be unknown here nor resolve to the caller's own witnesses of the same name
	eenv.calleeWit = map[string]Value{}
	for _, e := range spec.Ensures {
		st.assume(eenv.evalBool(e.Expr))
	}
	return res, false
}

func shortCallee(name string) string {
	if i := strings.LastIndex(name, "/"); i >= 0 {
		name = name[i+1:]
	}
	return name
}

// ---------- assigns / frame ----------

// evalAssign turns an assigns designator into a location (or a whole backing array / map).
func (env *Env) evalAssign(e *SExpr) assignLoc {
	if e.Kind == "call" && (e.Op == "elems" || e.Op == "contents") && len(e.Args) == 1 {
		tv := env.eval(e.Args[0])
		switch v := tv.V.(type) {
		case Sl:
			et := under(tv.T).(*types.Slice).Elem()
			return assignLoc{loc: Loc{Kind: "E", Base: typeKeyString(et), Dims: []Term{v.Ref}, Type: et}, whole: true, src: e.String()}
		case Sc:
			if mt, ok := under(tv.T).(*types.Map); ok {
				_ = mt
				return assignLoc{loc: Loc{Kind: "M", Base: typeKeyString(tv.T), Dims: []Term{v.T}, Type: tv.T}, whole: true, src: e.String()}
			}
		}
		sfail("elems() of %T", tv.V)
	}
	if e.Kind == "call" && e.Op == "key" && len(e.Args) == 1 && e.Args[0].Kind == "lit" {
		// key("E|uint8|"): every location of one heap array (coarse frame for data reachable through maps)
		parts := strings.SplitN(strings.Trim(e.Args[0].Lit, "\""), "|", 3)
		if len(parts) != 3 {
			sfail("key() expects \"Kind|Base|Path\"")
		}
		return assignLoc{loc: Loc{Kind: parts[0], Base: parts[1], Path: parts[2]}, whole: true, wholeKey: true, src: e.String()}
	}
	if e.Kind == "ident" {
		if g, ok := env.cur.ghost[e.Op]; ok {
			_ = g
			return assignLoc{loc: Loc{Kind: "ghost", Base: e.Op}, src: e.String()}
		}
	}
	l := env.evalLoc(e)
	return assignLoc{loc: l, src: e.String()}
}

// evalLoc evaluates a designator expression (x.f, s[i], *p) to a location.
func (env *Env) evalLoc(e *SExpr) Loc {
	switch e.Kind {
	case "sel":
		base := env.eval(e.Args[0])
		t := base.T
		var loc Loc
		switch v := base.V.(type) {
		case Loc:
			loc = v
			if p, ok := under(t).(*types.Pointer); ok {
				t = p.Elem()
			}
		case Sc:
			p, ok := under(t).(*types.Pointer)
			if !ok {
				sfail("designator %s: base is not a pointer", e)
			}
			t = p.Elem()
			loc = Loc{Kind: "O", Base: typeKeyString(t), Dims: []Term{v.T}, Type: t}
		default:
			// base may itself be a designator (x.f.g where x.f is a struct)
			loc = env.evalLoc(e.Args[0])
			t = loc.Type
		}
		loc.Type = t
		path, _, ok := fieldPath(t, e.Op)
		if !ok {
			sfail("designator %s: no field %s in %s", e, e.Op, t)
		}
		for _, i := range path {
			loc = loc.field(i)
		}
		return loc
	case "index":
		base := env.eval(e.Args[0])
		i := env.evalInt(e.Args[1])
		switch v := base.V.(type) {
		case Sl:
			return elemLoc(v, under(base.T).(*types.Slice).Elem(), i)
		case Sc:
			if mt, ok := under(base.T).(*types.Map); ok {
				return Loc{Kind: "M", Base: typeKeyString(base.T), Dims: []Term{v.T, i}, Type: mt.Elem()}
			}
		}
		l := env.evalLoc(e.Args[0])
		return l.index(i)
	case "ident":
		if tv, ok := env.vars[e.Op]; ok {
			if l, ok := tv.V.(Loc); ok {
				return l
			}
			if sc, ok := tv.V.(Sc); ok {
				if p, ok := under(tv.T).(*types.Pointer); ok {
					return Loc{Kind: "O", Base: typeKeyString(p.Elem()), Dims: []Term{sc.T}, Type: p.Elem()}
				}
			}
		}
		if env.ex.fn != nil {
			if obj, ok := env.specPkg().Scope().Lookup(e.Op).(*types.Var); ok {
				return Loc{Kind: "G", Base: env.specPkg().Path() + "." + e.Op, Type: obj.Type()}
			}
		}
	case "unop":
	}
	sfail("not a designator: %s", e)
	return Loc{}
}

func (ex *Exec) evalAssigns(st *State) {
	if !ex.spec.AssignsSet {
		return
	}
	env := ex.fnEnv(st, st)
	for _, a := range ex.spec.Assigns {
		ex.assignsLocs = append(ex.assignsLocs, env.evalAssign(a))
	}
}

// allowedWrite builds the condition under which writing location l is permitted by the function's assigns clause.
func (ex *Exec) allowedWrite(l Loc, whole bool) Term {
	var alts []Term
	for _, a := range ex.assignsLocs {
		if a.loc.Kind != l.Kind || a.loc.Base != l.Base {
			continue
		}
		if !(l.Path == a.loc.Path || strings.HasPrefix(l.Path, a.loc.Path+".") || strings.HasPrefix(l.Path, a.loc.Path+"[")) {
			continue
		}
		if len(a.loc.Dims) > len(l.Dims) {
			if !whole {
				continue
			}
		}
		var conj []Term
		for i := range a.loc.Dims {
			if i < len(l.Dims) {
				conj = append(conj, tEq(a.loc.Dims[i], l.Dims[i]))
			}
		}
		alts = append(alts, tAnd(conj...))
	}
	if len(l.Dims) > 0 && l.Kind != "G" {
		alts = append(alts, tGt(l.Dims[0], ex.entry.allocTop))
	}
	return tOr(alts...)
}

func (ex *Exec) checkFrame(st *State, in ssa.Instruction, l Loc) {
	if !ex.spec.AssignsSet || ex.discover != nil || l.Alloc != nil {
		return
	}
	st.oblige(ex.obName(fmt.Sprintf("frame.%d", ex.siteOrd[in])), "frame", ex.allowedWrite(l, false),
		"write to "+l.describe()+" at "+ex.pos(in)+" is covered by the assigns clause")
}

func (ex *Exec) checkFrameAssign(st *State, in ssa.Instruction, al assignLoc) {
	if !ex.spec.AssignsSet || ex.discover != nil || al.loc.Kind == "ghost" {
		return
	}
	st.oblige(ex.obName(fmt.Sprintf("frame.call%d.%s", ex.callOrd[in], sanitize(al.src))), "frame", ex.allowedWrite(al.loc, al.whole),
		"callee's assigns "+al.src+" is covered by the caller's assigns clause")
}

// havocAssign forgets the contents of an assigns designator.
func (ex *Exec) havocAssign(st *State, al assignLoc) {
	l := al.loc
	if l.Kind == "ghost" {
		if sc, ok := st.ghost[l.Base].(Sc); ok {
			st.setGhost(l.Base, Sc{ex.ctx.Fresh("ghost_"+l.Base, sc.T.Sort)})
		}
		return
	}
	if !al.whole {
		if l.Alloc != nil {
			st.store(l, st.freshValue(l.Type, "hv_"+sanitize(l.Alloc.Comment)))
			return
		}
		st.store(l, st.freshValue(l.Type, "hv"))
		return
	}
	if al.wholeKey {
		prefix := l.Kind + "|" + l.Base + "|" + l.Path
		for k, h := range st.heaps {
			if keyMatches(l, k) {
				st.heaps[k] = ex.ctx.Fresh("H_"+k, h.Sort)
				if ex.discover != nil {
					ex.discover.keys[k] = h.Sort
				}
			}
		}
		// keys never touched so far must not resolve to their entry-state constants afterwards
		st.havockedPrefixes = append(st.havockedPrefixes, prefix)
		if ex.discover != nil {
			ex.discover.addPrefix(prefix)
		}
		return
	}
	// whole backing array or whole map: every leaf key under the element type gets a fresh inner array at ref
	var elemT types.Type = l.Type
	prefix := l.Kind + "|" + l.Base + "|"
	var ls []leaf
	if l.Kind == "M" {
		mt := under(l.Type).(*types.Map)
		leavesOf(mt.Elem(), "", 0, &ls)
		ls = append(ls, leaf{Path: "#dom", Sort: SBool})
		// cardinality
		ck := prefix + "#card"
		h := st.heap(ck, heapSort(1, SInt))
		c := ex.ctx.Fresh("card", SInt)
		st.assume(tLe(intLit(0), c))
		st.setHeapRec(ck, tStore(h, l.Dims[0], c))
	} else {
		leavesOf(elemT, "", 0, &ls)
	}
	for _, lf := range ls {
		key := prefix + lf.Path
		hs := heapSort(2+lf.NArr, lf.Sort)
		h := st.heap(key, hs)
		inner := ex.ctx.Fresh("hv_arr", elemSort(hs))
		st.setHeapRec(key, tStore(h, l.Dims[0], inner))
	}
}

// setHeapRec is setHeap plus write-set recording in discovery mode.
func (st *State) setHeapRec(key string, val Term) {
	if st.ex.discover != nil {
		st.ex.discover.keys[key] = val.Sort
	}
	st.setHeap(key, val)
}

// useLemmas instantiates the lemmas named in `use` clauses: their requires become obligations, their ensures assumptions.
func (ex *Exec) useLemmas(st *State, env *Env, prefix string) {
	for i, u := range ex.spec.Uses {
		if u.Kind == "forall" {
			// use forall k :: lemma(args): the proved lemma holds for every k, so (requires ==> ensures) is assumed
			// universally; nothing is obliged (the requires are antecedents).
			call := u.Args[0]
			var lem *FnSpec
			if ex.cf != nil {
				lem = ex.cf.Fns["lemma "+call.Op]
			}
			if lem == nil || len(lem.Params) != len(call.Args) {
				sfail("use forall: unknown lemma %s or wrong number of arguments", call.Op)
			}
			bound := map[string]bool{}
			for _, v := range u.Vars {
				bound[v.Name] = true
			}
			depParams := map[string]bool{}
			for j, a := range call.Args {
				if mentions(a, bound) {
					depParams[lem.Params[j]] = true
				}
			}
			// hypotheses that do not depend on the bound variables are established once, here
			oenv := &Env{ex: ex, cur: env.cur, old: env.old, sink: st, vars: map[string]TV{}, cf: ex.cf}
			for j, a := range call.Args {
				if !depParams[lem.Params[j]] {
					oenv.vars[lem.Params[j]] = env.eval(a)
				}
			}
			var dep []*SExpr
			for j, r := range lem.Requires {
				if mentions(r.Expr, depParams) {
					dep = append(dep, r.Expr)
					continue
				}
				g := oenv.evalBool(r.Expr)
				ex.obligs = append(ex.obligs, Oblig{Name: fmt.Sprintf("%suse%d.%s.pre%d", prefix, i, call.Op, j), Kind: "requires",
					Asm: st.asm[:len(st.asm):len(st.asm)], Goal: g, Desc: "lemma " + call.Op + " requires " + r.Src})
				st.assume(g)
			}
			// the universal statement is built as a spec quantifier over a synthetic predicate, so that it gets the same
			// absolute-index treatment as every other quantifier (and therefore matches heap terms)
			body := conjExpr(lemClauses(lem.Ensures))
			if len(dep) > 0 {
				body = &SExpr{Kind: "binop", Op: "==>", Args: []*SExpr{conjExpr(dep), body}}
			}
			dn := fmt.Sprintf("lemma$%s$%s$%d", strings.ReplaceAll(sanitize(ex.obName("")), ".", "_"), call.Op, ex.ctx.counter["lemdef"])
			ex.ctx.counter["lemdef"]++
			defsMu.Lock()
			ex.cf.Defs[dn] = &SpecDef{Name: dn, Kind: "pred", Params: lem.Params, Body: body}
			defsMu.Unlock()
			q := &SExpr{Kind: "forall", Vars: u.Vars, Args: []*SExpr{{Kind: "call", Op: dn, Args: call.Args}}}
			aenv := env.child()
			aenv.sink = st
			st.assume(aenv.evalBool(q))
			ex.usedContracts["lemma "+shortPkg(ex.pkgPath)+"."+call.Op] = lem
			continue
		}
		var lem *FnSpec
		if ex.cf != nil {
			lem = ex.cf.Fns["lemma "+u.Op]
		}
		if lem == nil {
			sfail("use: unknown lemma %s", u.Op)
		}
		if len(lem.Params) != len(u.Args) {
			sfail("use: lemma %s takes %d arguments", u.Op, len(lem.Params))
		}
		lenv := &Env{ex: ex, cur: env.cur, old: env.old, sink: st, vars: map[string]TV{}, cf: ex.cf}
		for j, p := range lem.Params {
			lenv.vars[p] = env.eval(u.Args[j])
		}
		for j, r := range lem.Requires {
			g := lenv.evalBool(r.Expr)
			ex.obligs = append(ex.obligs, Oblig{Name: fmt.Sprintf("%suse%d.%s.pre%d", prefix, i, u.Op, j), Kind: "requires",
				Asm: st.asm[:len(st.asm):len(st.asm)], Goal: g, Desc: "lemma " + u.Op + " requires " + r.Src})
			st.assume(g)
		}
		for _, e := range lem.Ensures {
			st.assume(lenv.evalBool(e.Expr))
		}
		ex.usedContracts["lemma "+shortPkg(ex.pkgPath)+"."+u.Op] = lem
	}
}
