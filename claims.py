CLAIMS["C42"] = ("proof",
  "Every clause of the property is a postcondition on the real Freq methods (Period, Cycle, ThisTick, NextTick, NCyclesLater, NoEarlierThan), stated with mathematical integers over all f in [1,1e12] and all 64-bit times, with uint64 wrap-around modelled; each obligation is discharged unboundedly by z3/cvc5.",
  "Trusted: engine's SSA semantics, solvers. Claim covers results that fit in 64 bits (the property's 'every time' cannot be met by any uint64 result beyond that).",
  "DESIGN.md §5 C42")
CLAIMS["C24"] = ("proof",
  "The converter's contract (panics iff the address is below Offset or owned by another element; otherwise result = (a div IS*N)*IS + a mod IS with a = external-Offset) is proved on the real ConvertExternalToInternal/ConvertAddress/bankSelectionAddress for all 64-bit inputs; order preservation, injectivity, in-stripe and stripe-to-stripe contiguity and agreement with InterleavedAddressPortMapper.Find are lemmas proved from that postcondition over the unique decomposition a=(k*N+o)*IS+m.",
  "Precondition: IS>0, N>0, 0<=idx<N, IS*N<2^64 (a configuration for which IS*N wraps is outside the claim). Mapper agreement is stated for offsets that are multiples of IS*N (the only offsets the mapper can express). simplebankedmemory.selectBank (power-of-two shift) is not under contract.",
  "DESIGN.md §5 C24")
CLAIMS["C14"] = ("proof",
  "Every Buffer[T] operation named in the property (NewBuffer, PushTyped, Pop, Peek, UpdateFront, Clear, Elements, Restore, Size, Capacity, CanPush, Name) has a contract over the view 'elements as a sequence' - whole-view postconditions (length, every index, name and capacity unchanged, refusal exactly at capacity, zero value when empty, Elements/Restore copy) - proved on the generic body for every T, every capacity and every content length, including both append branches (in place / reallocate) and aliasing of backing arrays.",
  "Trusted: hooking.NumHooks/InvokeHook do not modify the buffer (hooks are arbitrary callbacks). The JSON round-trip clause of the property is handled under C08 (not claimed yet). Replay covers the first 6 elements of a counterexample.",
  "DESIGN.md §5 C14")
