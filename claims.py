CLAIMS["C42"] = ("proof",
  "Every clause of the property is a postcondition on the real Freq methods (Period, Cycle, ThisTick, NextTick, NCyclesLater, NoEarlierThan), stated with mathematical integers over all f in [1,1e12] and all 64-bit times, with uint64 wrap-around modelled; each obligation is discharged unboundedly by z3/cvc5.",
  "Trusted: engine's SSA semantics, solvers. Claim covers results that fit in 64 bits (the property's 'every time' cannot be met by any uint64 result beyond that).",
  "DESIGN.md §5 C42")
