CLAIMS["C42"] = ("proof",
  "Every clause of the property is a postcondition on the real Freq methods (Period, Cycle, ThisTick, NextTick, NCyclesLater, NoEarlierThan), stated with mathematical integers over all f in [1,1e12] and all 64-bit times, with uint64 wrap-around modelled; each obligation is discharged unboundedly by z3/cvc5.",
  "Trusted: engine's SSA semantics, solvers. Claim covers results that fit in 64 bits (the property's 'every time' cannot be met by any uint64 result beyond that).",
  "DESIGN.md §5 C42")
CLAIMS["C24"] = ("proof",
  "The converter's contract (panics iff the address is below Offset or owned by another element; otherwise result = (a div IS*N)*IS + a mod IS with a = external-Offset) is proved on the real ConvertExternalToInternal/ConvertAddress/bankSelectionAddress for all 64-bit inputs; order preservation, injectivity, in-stripe and stripe-to-stripe contiguity and agreement with InterleavedAddressPortMapper.Find are lemmas proved from that postcondition over the unique decomposition a=(k*N+o)*IS+m.",
  "Precondition: IS>0, N>0, 0<=idx<N, IS*N<2^64 (a configuration for which IS*N wraps is outside the claim). Mapper agreement is stated for offsets that are multiples of IS*N (the only offsets the mapper can express). simplebankedmemory.selectBank (power-of-two shift) is not under contract.",
  "DESIGN.md §5 C24")
