CLAIMS["C42"] = ("proof",
  "Every clause of the property is a postcondition on the real Freq methods (Period, Cycle, ThisTick, NextTick, NCyclesLater, NoEarlierThan), stated with mathematical integers over all f in [1,1e12] and all 64-bit times, with uint64 wrap-around modelled; each obligation is discharged unboundedly by z3/cvc5.",
  "Trusted: engine's SSA semantics, solvers. Claim covers results that fit in 64 bits (the property's 'every time' cannot be met by any uint64 result beyond that).",
  "DESIGN.md §5 C42")
CLAIMS["C24"] = ("proof",
  "The converter's contract (panics iff the address is below Offset or owned by another element; otherwise result = (a div IS*N)*IS + a mod IS with a = external-Offset) is proved on the real ConvertExternalToInternal/ConvertAddress/bankSelectionAddress for all 64-bit inputs; order preservation, injectivity, in-stripe and stripe-to-stripe contiguity and agreement with InterleavedAddressPortMapper.Find are lemmas proved from that postcondition over the unique decomposition a=(k*N+o)*IS+m.",
  "Precondition: IS>0, N>0, 0<=idx<N, IS*N<2^64 (a configuration for which IS*N wraps is outside the claim). Mapper agreement is stated for offsets that are multiples of IS*N (the only offsets the mapper can express). simplebankedmemory.selectBank (power-of-two shift) is not under contract.",
  "DESIGN.md §5 C24")
CLAIMS["C14"] = ("proof",
  "Every Buffer[T] operation named in the property (NewBuffer, PushTyped, Pop, Peek, UpdateFront, Clear, Elements, Restore, Size, Capacity, CanPush, Name) has a contract over the view 'elements as a sequence' - whole-view postconditions (length, every index, name and capacity unchanged, refusal exactly at capacity, zero value when empty, Elements/Restore copy) - proved on the generic body for every T, every capacity and every content length, including both append branches (in place / reallocate) and aliasing of backing arrays.",
  "Trusted: hooking.NumHooks/InvokeHook do not modify the buffer (hooks are arbitrary callbacks). The JSON round-trip clause of the property is handled under C08 (not claimed yet). Replay covers the first 6 elements of a counterexample.",
  "DESIGN.md §5 C14")
CLAIMS["C20"] = ("proof",
  "Proved on the real Storage code for all addresses, lengths, capacities and unit sizes: a Read or Write whose range address+len exceeds the capacity (including at address==capacity, crossing the capacity inside a unit, and ranges that wrap the 64-bit address space) returns an error; a failing Read/Write assigns nothing at all (heap equality with the entry state); a range inside the capacity succeeds with len(result)==len; chunking never indexes outside a unit or the caller's buffer; units are created zero-filled with exactly unitSize bytes and the unit map stays well-formed (loop invariants, callee contracts).",
  "PARTIAL: the byte-level view clause (a read returns the bytes last written, regardless of unit size) and the checkpoint clause are not yet under contract - they need a quantified view over a symbolic unit size. Preconditions: unitSize in (0,2^40], capacity <= 2^62. Trusted: sync.Mutex Lock/Unlock are sequential no-ops.",
  "DESIGN.md §5 C20")
