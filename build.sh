#!/bin/sh
# Builds the verification engine offline (x/tools v0.50.0 from the module cache).
set -e
cd /verif/engine
export PATH=/opt/veriftools/go1.26.8/bin:$PATH GOTOOLCHAIN=local GOFLAGS=-mod=mod GOPROXY=off GOSUMDB=off
mkdir -p /verif/bin /verif/out /verif/evidence
go build -o /verif/bin/akverif .
