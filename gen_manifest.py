#!/usr/bin/env python3
"""Regenerates MANIFEST.json from the tables below (claims) — run after changing what is claimed."""
import json, subprocess

BASE_OFF = "for m in $(cat /w/out/gomods.txt); do MF=$(cd /repo/$m && . /w/out/goenv.sh && gomodflag); (cd /repo/$m && go test $MF -json -vet=off -count=1 -timeout 25m ./...); done"

TECH = "contract-based deductive verification: WP/symbolic execution over go/ssa of the real functions, contracts in //go:build verif comment files, obligations discharged by z3/cvc5"

# id -> (level category, text, note, design_ref)
CLAIMS = {}
exec(open('/verif/claims.py').read())

NA = {}
exec(open('/verif/not_applicable.py').read())

props = [json.loads(l)['id'] for l in open('/verif/properties.jsonl')]
checks = []
for pid in props:
    if pid in CLAIMS:
        c = CLAIMS[pid]
        checks.append({
            "property_id": pid,
            "quick_cmd": f"./bin/akverif check {pid} --tier quick",
            "thorough_cmd": f"./bin/akverif check {pid} --tier thorough",
            "evidence_file": f"/verif/evidence/{pid}.json",
            "replay_cmd_template": "./bin/akverif replay {path}",
            "engine": "akverif",
            "level_claimed": {"category": c[0], "text": c[1], "design_ref": c[3]},
            "level_note": c[2],
            "technique": TECH,
        })
na = []
for pid in props:
    if pid not in CLAIMS:
        na.append({"property_id": pid, "reason": NA.get(pid, "engine support for this property's functions is not built yet (see DESIGN.md §6); not claimed")})
hooks = [l.split()[0] for l in subprocess.run(["git","-C","/repo","log","--format=%H %s"],capture_output=True,text=True).stdout.splitlines() if " verif-hook:" in l]
m = {
  "version": 1,
  "setup_cmd": "/verif/build.sh",
  "hooks": {"guard": "verif", "enable": "-tags verif (comment-only contract files zz_contracts_verif.go; parsed by the engine, never compiled)",
            "baseline_off_cmd": BASE_OFF, "source_commits": hooks, "add_only": True},
  "engines": [{"name": "akverif", "path": "/verif/engine", "serves_properties": sorted(CLAIMS.keys()),
               "kind_free_text": "verification-condition generator for Go (go/ssa NaiveForm + contracts) with z3/cvc5 portfolio"}],
  "checks": checks,
  "not_applicable": na,
  "notes": "See DESIGN.md. Contracts: /verif/contracts/<pkg>/zz_contracts_verif.go (master) mirrored into /repo/<pkg>/ behind //go:build verif. Known findings: /verif/known_findings.txt.",
}
json.dump(m, open('/verif/MANIFEST.json','w'), indent=1)
print("claimed:", sorted(CLAIMS.keys()))
