//go:build verif

// Contracts of the event constructor used by the wake-up primitives of package modeling (C13, C09). Comment-only.
package timing

//@ ghost var issued set
//@ pred wakeIDGenOK() = idGeneratorInstantiated ==> idGenerator != nil

//@ fn MakeEventBase
//@   property C13 C09
//@   requires wakeIDGenOK()
//@   label C13.mkbase.fields
//@   ensures result.Time_ == t && result.HandlerID_ == handlerID && !result.Secondary
//@   label C13.mkbase.idgen
//@   ensures wakeIDGenOK()
//@   assigns issued, idGenerator, idGeneratorInstantiated, key("O|timing.sequentialIDGenerator|nextID"), key("O|timing.parallelIDGenerator|nextID")
