//go:build verif

// Contracts for the event queue and the serial engine (C01, C02). Comment-only; read by /verif/engine.
package timing

// An event's time / class / handler are functions of the event value (the Event interface methods are pure getters).
//@ ufunc evTime(e) int
//@ ufunc evSecondary(e) bool
//@ ufunc evHandler(e) int

//@ iface timing.Event.Time
//@   trusted
//@   pure
//@   ensures result == evTime(self)
//@ iface timing.Event.IsSecondary
//@   trusted
//@   pure
//@   ensures result <==> evSecondary(self)
//@ iface timing.Event.HandlerID
//@   trusted
//@   pure
//@   ensures result == evHandler(self)

// Queue entries are ordered by (time, sequence number): FIFO among events of the same time.
//@ func keyLt(t1, s1, t2, s2) = t1 < t2 || (t1 == t2 && s1 < s2)
//@ pred entryLt(h, i, j) = keyLt(evTime(h[i].event), h[i].seq, evTime(h[j].event), h[j].seq)
//@ pred heapOrdered(h) = forall k in 1..len(h) :: !entryLt(h, k, (k - 1) / 2)
// ordered everywhere except possibly between i and its parent; i's children already respect i's parent
//@ pred upInv(h, i) = (forall k in 1..len(h) :: k != i ==> !entryLt(h, k, (k - 1) / 2)) && (forall k in 1..len(h) :: (k - 1) / 2 == i && i > 0 ==> !entryLt(h, k, (i - 1) / 2))
// pi is a permutation of 0..n-1 and cur is old rearranged by pi
//@ pred isPerm(pi, n) = (forall j in 0..n :: 0 <= pi[j] && pi[j] < n) && (forall j in 0..n :: forall k in 0..n :: j != k ==> pi[j] != pi[k])

//@ fn (eventHeap).less
//@   property C01
//@   requires 0 <= i && i < len(h) && 0 <= j && j < len(h)
//@   label C01.less
//@   ensures result <==> entryLt(h, i, j)
//@   assigns nothing

//@ fn (eventHeap).up
//@   property C01
//@   requires 0 <= i && i < len(h) && upInv(h, i)
//@   label C01.up.ordered
//@   ensures heapOrdered(h)
//@   label C01.up.perm
//@   ensures isPerm(pi, len(h))
//@   label C01.up.same
//@   ensures forall j in 0..len(h) :: h[j] == old(h)[pi[j]]
//@   assigns elems(h)
//@   loop 0: ghost pi = idperm
//@   loop 0: backedge pi = upd(upd(pi, athead(i), pi[i]), i, pi[athead(i)])
//@   loop 0: invariant 0 <= i && i < len(h) && upInv(h, i)
//@   loop 0: invariant isPerm(pi, len(h))
//@   loop 0: invariant forall j in 0..len(h) :: h[j] == old(h)[pi[j]]

// down(i, n) with n == len(h): ordered everywhere except possibly between i and its children; i's children
// already respect i's parent.
//@ pred downInv(h, i) = (forall k in 1..len(h) :: (k - 1) / 2 != i ==> !entryLt(h, k, (k - 1) / 2)) && (forall k in 1..len(h) :: (k - 1) / 2 == i && i > 0 ==> !entryLt(h, k, (i - 1) / 2))

//@ fn (eventHeap).down
//@   property C01
//@   requires 0 <= i && i < n && n == len(h) && n < 1<<61 && downInv(h, i)
//@   label C01.down.ordered
//@   ensures heapOrdered(h)
//@   label C01.down.perm
//@   ensures isPerm(pi, len(h))
//@   label C01.down.same
//@   ensures forall j in 0..len(h) :: h[j] == old(h)[pi[j]]
//@   assigns elems(h)
//@   loop 0: ghost pi = idperm
//@   loop 0: backedge pi = upd(upd(pi, athead(i), pi[i]), i, pi[athead(i)])
//@   loop 0: invariant 0 <= i && i < n && downInv(h, i)
//@   loop 0: invariant isPerm(pi, len(h))
//@   loop 0: invariant forall j in 0..len(h) :: h[j] == old(h)[pi[j]]

// In a heap every entry is reachable from the root through parents, so the root is minimal (strong induction on k).
//@ lemma heapRootMin(h eventHeap, k)
//@   property C01
//@   induct k
//@   requires heapOrdered(h)
//@   requires 0 <= k && k < len(h)
//@   label C01.lemma.rootmin
//@   ensures !entryLt(h, k, 0)

// popHeap removes the root: the rest is the old content minus the root, rearranged (sigma maps new positions to old ones,
// never to position 0), and is a heap again.
//@ fn popHeap
//@   property C01
//@   requires h != nil && len(deref(h)) > 0 && len(deref(h)) < 1<<60 && heapOrdered(deref(h))
//@   use forall k in 0..len(deref(h)) :: heapRootMin(deref(h), k)
//@   witness sigma map = mapof(j, down_pi[j] == 0 ? old(len(deref(h))) - 1 : down_pi[j])
//@   label C01.popheap.min
//@   ensures forall k in 0..old(len(deref(h))) :: !keyLt(evTime(old(deref(h))[k].event), old(deref(h))[k].seq, evTime(result), old(deref(h)[0].seq))
//@   label C01.popheap.root
//@   ensures result == old(deref(h)[0].event)
//@   label C01.popheap.len
//@   ensures len(deref(h)) == old(len(deref(h))) - 1
//@   label C01.popheap.ordered
//@   ensures heapOrdered(deref(h))
//@   label C01.popheap.range
//@   ensures forall j in 0..len(deref(h)) :: 1 <= sigma[j] && sigma[j] < old(len(deref(h)))
//@   label C01.popheap.inj
//@   ensures forall j in 0..len(deref(h)) :: forall k in 0..len(deref(h)) :: j != k ==> sigma[j] != sigma[k]
//@   label C01.popheap.same
//@   ensures forall j in 0..len(deref(h)) :: deref(h)[j] == old(deref(h))[sigma[j]]
//@   assigns h, elems(deref(h))

// ---- the queue: a heap of (event, seq) entries; seq numbers are unique and below nextSeq ----
//@ pred queueWF(q) = len(q.events) < 1<<60 && heapOrdered(q.events) && (forall j in 0..len(q.events) :: q.events[j].seq < q.nextSeq) && (forall j in 0..len(q.events) :: forall k in 0..len(q.events) :: j != k ==> q.events[j].seq != q.events[k].seq)

//@ fn (*unsafeEventQueue).Len
//@   property C01 C02
//@   label C01.len
//@   ensures result == len(q.events)
//@   assigns nothing

//@ fn (*unsafeEventQueue).Peek
//@   property C01 C02
//@   requires len(q.events) > 0 && heapOrdered(q.events)
//@   use forall k in 0..len(q.events) :: heapRootMin(q.events, k)
//@   label C01.peek
//@   ensures result == q.events[0].event
//@   label C01.peek.min
//@   ensures forall k in 0..len(q.events) :: !keyLt(evTime(q.events[k].event), q.events[k].seq, evTime(result), q.events[0].seq)
//@   assigns nothing

// Push adds the entry (evt, old nextSeq): the new content is the old content plus that entry, rearranged by pi.
//@ fn (*unsafeEventQueue).Push
//@   property C01
//@   requires queueWF(q) && q.nextSeq < MaxUint64 && len(q.events) + 1 < 1<<60
//@   witness pi map = up_pi
//@   label C01.push.len
//@   ensures len(q.events) == old(len(q.events)) + 1 && int(q.nextSeq) == int(old(q.nextSeq)) + 1
//@   label C01.push.wf
//@   ensures queueWF(q)
//@   label C01.push.perm
//@   ensures isPerm(pi, len(q.events))
//@   label C01.push.old
//@   ensures forall j in 0..len(q.events) :: pi[j] < old(len(q.events)) ==> q.events[j] == old(q.events)[pi[j]]
//@   label C01.push.new
//@   ensures forall j in 0..len(q.events) :: pi[j] == old(len(q.events)) ==> q.events[j].event == evt && q.events[j].seq == old(q.nextSeq)
//@   assigns q.events, q.nextSeq, elems(q.events)

// Pop removes the root entry; the rest is the old content minus the root (sigma: new position -> old position, never 0).
//@ fn (*unsafeEventQueue).Pop
//@   property C01
//@   requires queueWF(q) && len(q.events) > 0
//@   witness sigma map = popHeap_sigma
//@   label C01.pop.min
//@   ensures forall k in 0..old(len(q.events)) :: !keyLt(evTime(old(q.events)[k].event), old(q.events)[k].seq, evTime(result), old(q.events[0].seq))
//@   label C01.pop.root
//@   ensures result == old(q.events[0].event)
//@   label C01.pop.len
//@   ensures len(q.events) == old(len(q.events)) - 1 && q.nextSeq == old(q.nextSeq)
//@   label C01.pop.wf
//@   ensures queueWF(q)
//@   label C01.pop.range
//@   ensures forall j in 0..len(q.events) :: 1 <= sigma[j] && sigma[j] < old(len(q.events))
//@   label C01.pop.inj
//@   ensures forall j in 0..len(q.events) :: forall k in 0..len(q.events) :: j != k ==> sigma[j] != sigma[k]
//@   label C01.pop.same
//@   ensures forall j in 0..len(q.events) :: q.events[j] == old(q.events)[sigma[j]]
//@   assigns q.events, elems(q.events)
