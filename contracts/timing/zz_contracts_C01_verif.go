//go:build verif

// Contracts for the event queue and the serial engine (C01, C02). Comment-only; read by /verif/engine.
package timing

// An event's time / class / handler are functions of the event value (the Event interface methods are pure getters).
//@ ufunc evTime(e) int
//@ ufunc evSecondary(e) bool
//@ ufunc evHandler(e) int

//@ iface timing.Event.Time
//@   trusted
//@   pure
//@   ensures result == evTime(self)
//@ iface timing.Event.IsSecondary
//@   trusted
//@   pure
//@   ensures result <==> evSecondary(self)
//@ iface timing.Event.HandlerID
//@   trusted
//@   pure
//@   ensures result == evHandler(self)

// Queue entries are ordered by (time, sequence number): FIFO among events of the same time.
//@ func keyLt(t1, s1, t2, s2) = t1 < t2 || (t1 == t2 && s1 < s2)
//@ pred entryLt(h, i, j) = keyLt(evTime(h[i].event), h[i].seq, evTime(h[j].event), h[j].seq)
//@ pred heapOrdered(h) = forall k in 1..len(h) :: !entryLt(h, k, (k - 1) / 2)
// ordered everywhere except possibly between i and its parent; i's children already respect i's parent
//@ pred upInv(h, i) = (forall k in 1..len(h) :: k != i ==> !entryLt(h, k, (k - 1) / 2)) && (forall k in 1..len(h) :: (k - 1) / 2 == i && i > 0 ==> !entryLt(h, k, (i - 1) / 2))
// pi is a permutation of 0..n-1 and cur is old rearranged by pi
//@ pred isPerm(pi, n) = (forall j in 0..n :: 0 <= pi[j] && pi[j] < n) && (forall j in 0..n :: forall k in 0..n :: j != k ==> pi[j] != pi[k])

//@ fn (eventHeap).less
//@   property C01
//@   requires 0 <= i && i < len(h) && 0 <= j && j < len(h)
//@   label C01.less
//@   ensures result <==> entryLt(h, i, j)
//@   assigns nothing

//@ fn (eventHeap).up
//@   property C01
//@   requires 0 <= i && i < len(h) && upInv(h, i)
//@   label C01.up.ordered
//@   ensures heapOrdered(h)
//@   label C01.up.perm
//@   ensures isPerm(pi, len(h))
//@   label C01.up.same
//@   ensures forall j in 0..len(h) :: h[j] == old(h)[pi[j]]
//@   assigns elems(h)
//@   loop 0: ghost pi = idperm
//@   loop 0: backedge pi = upd(upd(pi, athead(i), pi[i]), i, pi[athead(i)])
//@   loop 0: invariant 0 <= i && i < len(h) && upInv(h, i)
//@   loop 0: invariant isPerm(pi, len(h))
//@   loop 0: invariant forall j in 0..len(h) :: h[j] == old(h)[pi[j]]

// down(i, n) with n == len(h): ordered everywhere except possibly between i and its children; i's children
// already respect i's parent.
//@ pred downInv(h, i) = (forall k in 1..len(h) :: (k - 1) / 2 != i ==> !entryLt(h, k, (k - 1) / 2)) && (forall k in 1..len(h) :: (k - 1) / 2 == i && i > 0 ==> !entryLt(h, k, (i - 1) / 2))

//@ fn (eventHeap).down
//@   property C01
//@   requires 0 <= i && i < n && n == len(h) && n < 1<<61 && downInv(h, i)
//@   label C01.down.ordered
//@   ensures heapOrdered(h)
//@   label C01.down.perm
//@   ensures isPerm(pi, len(h))
//@   label C01.down.same
//@   ensures forall j in 0..len(h) :: h[j] == old(h)[pi[j]]
//@   assigns elems(h)
//@   loop 0: ghost pi = idperm
//@   loop 0: backedge pi = upd(upd(pi, athead(i), pi[i]), i, pi[athead(i)])
//@   loop 0: invariant 0 <= i && i < n && downInv(h, i)
//@   loop 0: invariant isPerm(pi, len(h))
//@   loop 0: invariant forall j in 0..len(h) :: h[j] == old(h)[pi[j]]

// In a heap every entry is reachable from the root through parents, so the root is minimal (strong induction on k).
//@ lemma heapRootMin(h eventHeap, k)
//@   property C01
//@   induct k
//@   requires heapOrdered(h)
//@   requires 0 <= k && k < len(h)
//@   label C01.lemma.rootmin
//@   ensures !entryLt(h, k, 0)

// popHeap removes the root: the rest is the old content minus the root, rearranged (sigma maps new positions to old ones,
// never to position 0), and is a heap again.
//@ fn popHeap
//@   property C01
//@   requires h != nil && len(deref(h)) > 0 && len(deref(h)) < 1<<60 && heapOrdered(deref(h))
//@   use forall k in 0..len(deref(h)) :: heapRootMin(deref(h), k)
//@   witness sigma map = mapof(j, down_pi[j] == 0 ? old(len(deref(h))) - 1 : down_pi[j])
//@   label C01.popheap.min
//@   ensures forall k in 0..old(len(deref(h))) :: !keyLt(evTime(old(deref(h))[k].event), old(deref(h))[k].seq, evTime(result), old(deref(h)[0].seq))
//@   label C01.popheap.root
//@   ensures result == old(deref(h)[0].event)
//@   label C01.popheap.len
//@   ensures len(deref(h)) == old(len(deref(h))) - 1 && ref(deref(h)) == old(ref(deref(h)))
//@   label C01.popheap.ordered
//@   ensures heapOrdered(deref(h))
//@   label C01.popheap.range
//@   ensures forall j in 0..len(deref(h)) :: 1 <= sigma[j] && sigma[j] < old(len(deref(h)))
//@   label C01.popheap.inj
//@   ensures forall j in 0..len(deref(h)) :: forall k in 0..len(deref(h)) :: j != k ==> sigma[j] != sigma[k]
//@   label C01.popheap.same
//@   ensures forall j in 0..len(deref(h)) :: deref(h)[j] == old(deref(h))[sigma[j]]
//@   assigns h, elems(deref(h))

// ---- the queue: a heap of (event, seq) entries; seq numbers are unique and below nextSeq ----
//@ pred queueWF(q) = len(q.events) < 1<<60 && heapOrdered(q.events) && (forall j in 0..len(q.events) :: q.events[j].seq < q.nextSeq) && (forall j in 0..len(q.events) :: forall k in 0..len(q.events) :: j != k ==> q.events[j].seq != q.events[k].seq)

//@ fn (*unsafeEventQueue).Len
//@   property C01 C02
//@   label C01.len
//@   ensures result == len(q.events)
//@   assigns nothing

//@ fn (*unsafeEventQueue).Peek
//@   property C01 C02
//@   requires len(q.events) > 0 && heapOrdered(q.events)
//@   use forall k in 0..len(q.events) :: heapRootMin(q.events, k)
//@   label C01.peek
//@   ensures result == q.events[0].event
//@   label C01.peek.min
//@   ensures forall k in 0..len(q.events) :: !keyLt(evTime(q.events[k].event), q.events[k].seq, evTime(result), q.events[0].seq)
//@   assigns nothing

// Push adds the entry (evt, old nextSeq): the new content is the old content plus that entry, rearranged by pi.
//@ fn (*unsafeEventQueue).Push
//@   property C01
//@   requires queueWF(q) && q.nextSeq < MaxUint64 && len(q.events) + 1 < 1<<60
//@   witness pi map = up_pi
//@   label C01.push.len
//@   ensures len(q.events) == old(len(q.events)) + 1 && int(q.nextSeq) == int(old(q.nextSeq)) + 1
//@   label C01.push.ref
//@   ensures ref(q.events) != 0 && (ref(q.events) == old(ref(q.events)) || fresh(q.events))
//@   label C01.push.wf
//@   ensures queueWF(q)
//@   label C01.push.perm
//@   ensures isPerm(pi, len(q.events))
//@   label C01.push.old
//@   ensures forall j in 0..len(q.events) :: pi[j] < old(len(q.events)) ==> q.events[j] == old(q.events)[pi[j]]
//@   label C01.push.new
//@   ensures forall j in 0..len(q.events) :: pi[j] == old(len(q.events)) ==> q.events[j].event == evt && q.events[j].seq == old(q.nextSeq)
//@   assigns q.events, q.nextSeq, elems(q.events)

// Pop removes the root entry; the rest is the old content minus the root (sigma: new position -> old position, never 0).
//@ fn (*unsafeEventQueue).Pop
//@   property C01
//@   requires queueWF(q) && len(q.events) > 0
//@   witness sigma map = popHeap_sigma
//@   label C01.pop.min
//@   ensures forall k in 0..old(len(q.events)) :: !keyLt(evTime(old(q.events)[k].event), old(q.events)[k].seq, evTime(result), old(q.events[0].seq))
//@   label C01.pop.root
//@   ensures result == old(q.events[0].event)
//@   label C01.pop.len
//@   ensures len(q.events) == old(len(q.events)) - 1 && q.nextSeq == old(q.nextSeq) && ref(q.events) == old(ref(q.events))
//@   label C01.pop.wf
//@   ensures queueWF(q)
//@   label C01.pop.range
//@   ensures forall j in 0..len(q.events) :: 1 <= sigma[j] && sigma[j] < old(len(q.events))
//@   label C01.pop.inj
//@   ensures forall j in 0..len(q.events) :: forall k in 0..len(q.events) :: j != k ==> sigma[j] != sigma[k]
//@   label C01.pop.same
//@   ensures forall j in 0..len(q.events) :: q.events[j] == old(q.events)[sigma[j]]
//@   assigns q.events, elems(q.events)

// ---- the serial engine ----
// Ghost log of handler invocations (appended by the Handler.Handle contract).
//@ ghost var handledCount int
//@ ghost var handledTyp int
//@ ghost var handledVal int
//@ ghost var handledMaxTime int

//@ pred engineWF(e) = e.queue != nil && e.secondaryQueue != nil && e.queue != e.secondaryQueue && queueWF(e.queue) && queueWF(e.secondaryQueue) && ref(e.queue.events) != 0 && ref(e.secondaryQueue.events) != 0 && ref(e.queue.events) != ref(e.secondaryQueue.events)
//@ pred nonEmpty(e) = len(e.queue.events) > 0 || len(e.secondaryQueue.events) > 0
// the queue nextEvent takes from: the primary one unless it is empty or its head is strictly later than the secondary head
//@ pred takesPrimary(e) = len(e.queue.events) > 0 && (len(e.secondaryQueue.events) == 0 || evTime(e.queue.events[0].event) <= evTime(e.secondaryQueue.events[0].event))

// RELY (trusted): an event handler may schedule any number of events (through Engine.Schedule, whose contract keeps
// the engine well-formed and only adds entries that are not in the past) and may change any other state; it does not
// replace the engine's queues, registry or clock. Everything a handler does to the heap is otherwise unconstrained.
//@ iface timing.Handler.Handle(evt)
//@   trusted
//@   ensures handledCount == old(handledCount) + 1 && handledTyp == typeid(evt) && handledVal == ifaceval(evt)
//@   ensures handledMaxTime == max(old(handledMaxTime), evTime(evt))
//@   ensures caller(e).queue == old(caller(e).queue) && caller(e).secondaryQueue == old(caller(e).secondaryQueue) && caller(e).time == old(caller(e).time) && caller(e).registry == old(caller(e).registry)
//@   ensures engineWF(caller(e))

//@ ext sync/atomic.LoadInt32(addr)
//@   trusted
//@   pure
//@ fn (*SerialEngine).waitForResume
//@   trusted
//@   assigns e.paused

//@ fn (*SerialEngine).noMoreEvent
//@   property C01 C02
//@   requires e.queue != nil && e.secondaryQueue != nil
//@   label C01.nomore
//@   ensures result <==> (len(e.queue.events) == 0 && len(e.secondaryQueue.events) == 0)
//@   assigns nothing

//@ fn (*SerialEngine).nextEventTime
//@   property C02
//@   requires engineWF(e) && nonEmpty(e)
//@   label C02.nexttime.head
//@   ensures takesPrimary(e) ==> result == evTime(e.queue.events[0].event)
//@   label C02.nexttime.head2
//@   ensures !takesPrimary(e) ==> result == evTime(e.secondaryQueue.events[0].event)
//@   label C02.nexttime.min.primary
//@   ensures forall k in 0..len(e.queue.events) :: int(result) <= evTime(e.queue.events[k].event)
//@   label C02.nexttime.min.secondary
//@   ensures forall k in 0..len(e.secondaryQueue.events) :: int(result) <= evTime(e.secondaryQueue.events[k].event)
//@   assigns nothing

//@ fn (*SerialEngine).nextEvent
//@   property C01 C02
//@   requires engineWF(e) && nonEmpty(e)
//@   witness sigma map = Pop_sigma
//@   label C01.next.wf
//@   ensures engineWF(e) && e.time == old(e.time) && e.queue == old(e.queue) && e.secondaryQueue == old(e.secondaryQueue) && e.registry == old(e.registry)
//@   label C01.next.primary
//@   ensures old(takesPrimary(e)) ==> result == old(e.queue.events[0].event) && len(e.queue.events) == old(len(e.queue.events)) - 1 && len(e.secondaryQueue.events) == old(len(e.secondaryQueue.events))
//@   label C01.next.secondary
//@   ensures !old(takesPrimary(e)) ==> result == old(e.secondaryQueue.events[0].event) && len(e.secondaryQueue.events) == old(len(e.secondaryQueue.events)) - 1 && len(e.queue.events) == old(len(e.queue.events))
//@   label C01.next.min.primary
//@   ensures forall k in 0..old(len(e.queue.events)) :: evTime(result) <= evTime(old(e.queue.events)[k].event)
//@   label C01.next.min.secondary
//@   ensures forall k in 0..old(len(e.secondaryQueue.events)) :: evTime(result) <= evTime(old(e.secondaryQueue.events)[k].event)
//@   label C01.next.primaries.first
//@   ensures !old(takesPrimary(e)) ==> (forall k in 0..old(len(e.queue.events)) :: evTime(result) < evTime(old(e.queue.events)[k].event))
//@   label C01.next.fifo
//@   ensures old(takesPrimary(e)) ==> (forall k in 0..old(len(e.queue.events)) :: !keyLt(evTime(old(e.queue.events)[k].event), old(e.queue.events)[k].seq, evTime(result), old(e.queue.events[0].seq)))
//@   label C01.next.rest.primary
//@   ensures old(takesPrimary(e)) ==> (forall j in 0..len(e.queue.events) :: e.queue.events[j] == old(e.queue.events)[sigma[j]] && 1 <= sigma[j] && sigma[j] < old(len(e.queue.events))) && (forall j in 0..len(e.secondaryQueue.events) :: e.secondaryQueue.events[j] == old(e.secondaryQueue.events)[j])
//@   label C01.next.rest.secondary
//@   ensures !old(takesPrimary(e)) ==> (forall j in 0..len(e.secondaryQueue.events) :: e.secondaryQueue.events[j] == old(e.secondaryQueue.events)[sigma[j]] && 1 <= sigma[j] && sigma[j] < old(len(e.secondaryQueue.events))) && (forall j in 0..len(e.queue.events) :: e.queue.events[j] == old(e.queue.events)[j])
//@   assigns e.queue.events, e.secondaryQueue.events, elems(e.queue.events), elems(e.secondaryQueue.events)

//@ fn (*SerialEngine).Schedule
//@   property C01
//@   requires engineWF(e) && e.queue.nextSeq < MaxUint64 && e.secondaryQueue.nextSeq < MaxUint64 && len(e.queue.events) + 1 < 1<<60 && len(e.secondaryQueue.events) + 1 < 1<<60
//@   panics evTime(evt) < int(e.time)
//@   witness pi map = Push_pi
//@   label C01.schedule.wf
//@   ensures engineWF(e) && e.time == old(e.time)
//@   label C01.schedule.primary
//@   ensures !evSecondary(evt) ==> len(e.queue.events) == old(len(e.queue.events)) + 1 && len(e.secondaryQueue.events) == old(len(e.secondaryQueue.events)) && (forall j in 0..len(e.queue.events) :: (pi[j] < old(len(e.queue.events)) ==> e.queue.events[j] == old(e.queue.events)[pi[j]]) && (pi[j] == old(len(e.queue.events)) ==> e.queue.events[j].event == evt && e.queue.events[j].seq == old(e.queue.nextSeq)))
//@   label C01.schedule.secondary
//@   ensures evSecondary(evt) ==> len(e.secondaryQueue.events) == old(len(e.secondaryQueue.events)) + 1 && len(e.queue.events) == old(len(e.queue.events)) && (forall j in 0..len(e.secondaryQueue.events) :: (pi[j] < old(len(e.secondaryQueue.events)) ==> e.secondaryQueue.events[j] == old(e.secondaryQueue.events)[pi[j]]) && (pi[j] == old(len(e.secondaryQueue.events)) ==> e.secondaryQueue.events[j].event == evt && e.secondaryQueue.events[j].seq == old(e.secondaryQueue.nextSeq)))
//@   label C01.schedule.perm
//@   ensures isPerm(pi, evSecondary(evt) ? len(e.secondaryQueue.events) : len(e.queue.events))
//@   assigns e.queue.events, e.queue.nextSeq, e.secondaryQueue.events, e.secondaryQueue.nextSeq, elems(e.queue.events), elems(e.secondaryQueue.events)

// One dispatch: removes the minimum (time, class, seq) entry, advances the clock to it (never backwards) and invokes
// its handler exactly once.
//@ fn (*SerialEngine).dispatchNext
//@   property C01 C02
//@   requires engineWF(e) && nonEmpty(e) && e.registry != nil
//@   panics any
//@   label C01.dispatch.once
//@   ensures handledCount == old(handledCount) + 1
//@   label C01.dispatch.min
//@   ensures mkiface(handledTyp, handledVal) == (old(takesPrimary(e)) ? old(e.queue.events[0].event) : old(e.secondaryQueue.events[0].event))
//@   label C01.dispatch.time
//@   ensures int(e.time) == evTime(mkiface(handledTyp, handledVal)) && e.time >= old(e.time)
//@   label C01.dispatch.max
//@   ensures handledMaxTime == max(old(handledMaxTime), int(e.time))
//@   label C01.dispatch.wf
//@   ensures engineWF(e) && e.queue == old(e.queue) && e.secondaryQueue == old(e.secondaryQueue) && e.registry == old(e.registry)

//@ fn (*SerialEngine).Run
//@   property C01
//@   requires engineWF(e) && e.registry != nil
//@   panics any
//@   label C01.run.drained
//@   ensures len(e.queue.events) == 0 && len(e.secondaryQueue.events) == 0
//@   loop 0: invariant engineWF(e) && e.registry != nil

// RunUntil(t) uses the same step as Run and stops at the first pending event later than t.
//@ fn (*SerialEngine).RunUntil
//@   property C02
//@   requires engineWF(e) && e.registry != nil
//@   panics any
//@   label C02.until.left.primary
//@   ensures forall k in 0..len(e.queue.events) :: evTime(e.queue.events[k].event) > int(t)
//@   label C02.until.left.secondary
//@   ensures forall k in 0..len(e.secondaryQueue.events) :: evTime(e.secondaryQueue.events[k].event) > int(t)
//@   label C02.until.handled
//@   ensures handledMaxTime <= max(old(handledMaxTime), int(t))
//@   label C02.until.clock
//@   ensures (handledCount == old(handledCount) ==> e.time == old(e.time)) && (handledCount > old(handledCount) ==> int(e.time) <= int(t))
//@   loop 0: invariant engineWF(e) && e.registry != nil && handledCount >= old(handledCount) && handledMaxTime <= max(old(handledMaxTime), int(t))
//@   loop 0: invariant (handledCount == old(handledCount) ==> e.time == old(e.time)) && (handledCount > old(handledCount) ==> int(e.time) <= int(t))
