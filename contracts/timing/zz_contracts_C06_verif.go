//go:build verif

// Contracts for package timing, property C06 (comment-only; read by /verif/engine, never compiled into a build).
// C06 (claimed part): FIELD COMPLETENESS of the serial-engine and ID-generator checkpoints. The `fn` blocks of
// SerialEngine.SaveCheckpoint/LoadCheckpoint, decodeEvents, unsafeEventQueue.snapshot/restore and
// sequentialIDGenerator.SaveCheckpoint/LoadCheckpoint live in zz_contracts_C07_verif.go (one block per function); they are
// tagged `property C07 C06` and carry the C06.* clauses. This file holds the definitions those clauses use.
// Trusted: encoding/json inverts itself on serialEngineCheckpoint / idGeneratorCheckpoint; the reflection-based event codec
// (EncodeSlice/DecodeSlice, internal/codec) inverts itself on event lists (C08).
package timing

// the DTO handed to the encoder
//@ func c06Eng() = as(mkiface(jsonEncTyp, jsonEncVal), "serialEngineCheckpoint")
// the list encoded by call number n is queue q in pop order: a permutation pi of the heap array, (time, seq) ascending
//@ pred c06Encoded(n, q, pi) = encLen[n] == len(q.events) && isPerm(pi, len(q.events)) && (forall k in 0..len(q.events) :: encTyp[n][k] == typeid(q.events[pi[k]].event) && encVal[n][k] == ifaceval(q.events[pi[k]].event)) && (forall k in 1..len(q.events) :: !keyLt(evTime(q.events[pi[k]].event), q.events[pi[k]].seq, evTime(q.events[pi[k - 1]].event), q.events[pi[k - 1]].seq))
// queue q holds exactly the n decoded events (evT, evV: their type ids and values in list order): the entry at heap position j is
// list element src[j] and carries sequence number old(nextSeq)+src[j], so ties in time pop in list order
//@ pred c06Restored(q, n, src, evT, evV) = len(q.events) == n && (forall j in 0..len(q.events) :: 0 <= src[j] && src[j] < n && typeid(q.events[j].event) == evT[src[j]] && ifaceval(q.events[j].event) == evV[src[j]] && int(q.events[j].seq) == int(old(q.nextSeq)) + src[j])
