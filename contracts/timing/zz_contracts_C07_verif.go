//go:build verif

// Contracts for package timing, property C07 (comment-only; read by /verif/engine, never compiled into a build).
// C07 (part a): loading an engine / ID-generator checkpoint never panics, whatever the archive holds, and every
// mismatch (engine queues not empty, an event whose handler is not registered, an undecodable event list, an ID
// generator of another kind) is an error that leaves the entity untouched.
// The decoded DTO (local `dto`) is ARBITRARY (native encoding/json model): nothing is assumed about the payload.
package timing

// ---- trusted: the reflection-based type-tagged codec (internal/codec, out of the engine's reach) ----
// DecodeSlice: an arbitrary slice of non-nil values (each element comes from reflect.New(...).Interface() and passed the
// `result.(T)` assertion) or an error; on error the slice is nil. Modifies nothing.
// Its length is below 2^44: the elements are 16-byte interface values and Go's heap arena is 2^48 bytes.
// decCount / decLen (ghost): how many lists have been decoded so far, and the length of the most recent one.
//@ ghost var decCount int
//@ ghost var decLen int
//@ ext internal/codec.(*Registry[T]).DecodeSlice(r, data)
//@   trusted
//@   requires r != nil
//@   ensures forall i in 0..len(result0) :: result0[i] != nil
//@   ensures result1 != nil ==> len(result0) == 0
//@   ensures len(result0) < 1<<44
//@   ensures decCount == old(decCount) + 1 && decLen == len(result0)
//@   assigns decCount, decLen
// EncodeSlice: arbitrary bytes and an arbitrary error. Modifies nothing.
// encCount / encLen / encTyp / encVal / encOut (ghost log, C06): how many lists have been encoded so far and, per call number,
// the length of the list handed over, its elements (type id, value) in order, and the reference of the bytes returned.
//@ ghost var encCount int
//@ ghost var encLen map
//@ ghost var encTyp map2
//@ ghost var encVal map2
//@ ghost var encOut map
//@ ext internal/codec.(*Registry[T]).EncodeSlice(r, vs)
//@   trusted
//@   requires r != nil
//@   ensures encCount == old(encCount) + 1 && encLen == upd(old(encLen), old(encCount), len(vs)) && encOut == upd(old(encOut), old(encCount), ref(result0))
//@   ensures encTyp == upd(old(encTyp), old(encCount), mapof(i, typeid(vs[i]))) && encVal == upd(old(encVal), old(encCount), mapof(i, ifaceval(vs[i])))
//@   ensures result1 == nil ==> fresh(result0)
//@   assigns encCount, encLen, encTyp, encVal, encOut

// eventCodec is initialised at its declaration (eventcodec.go) and assigned nowhere else.
//@ pred evCodecReady() = eventCodec != nil

// every event of the list names a handler registered with the engine
//@ pred handlersKnown(e, evs) = forall i in 0..len(evs) :: evHandler(evs[i]) in e.registry
// every queued event names a registered handler
//@ pred queueHandlersKnown(e, q) = forall j in 0..len(q.events) :: evHandler(q.events[j].event) in e.registry

// ---- decodeEvents: the handler existence check ----
//@ fn (*SerialEngine).decodeEvents
//@   property C07 C06
//@   requires e != nil && evCodecReady()
//@   witness inRef int = ref(data)
//@   witness outRef int = ref(result0)
//@   label C06.decode.handles
//@   ensures inRef == ref(data) && outRef == ref(result0)
//@   label C07.decode.unknown.handler
//@   ensures result1 == nil ==> handlersKnown(e, result0)
//@   label C07.decode.nonnil
//@   ensures forall i in 0..len(result0) :: result0[i] != nil
//@   label C07.decode.error.nil
//@   ensures result1 != nil ==> len(result0) == 0
//@   label C07.decode.bound
//@   ensures len(result0) < 1<<44
//@   label C07.decode.count
//@   ensures decCount == old(decCount) + 1 && (result1 == nil ==> decLen == len(result0))
//@   assigns decCount, decLen
//@   loop 0: invariant -1 <= rangeindex && rangeindex < len(events) && err == nil
//@   loop 0: invariant forall i in 0..rangeindex + 1 :: evHandler(events[i]) in e.registry
//@   loop 0: invariant forall i in 0..len(events) :: events[i] != nil

// ---- restore: push the events in order; src[j] = index (in events) of the event now at heap position j ----
//@ fn (*unsafeEventQueue).restore
//@   property C07 C06
//@   requires q != nil && len(q.events) == 0 && queueWF(q) && int(q.nextSeq) + len(events) < MaxUint64 && len(events) < 1<<59
//@   witness src map = src
//@   label C07.restore.len
//@   ensures len(q.events) == len(events) && int(q.nextSeq) == int(old(q.nextSeq)) + len(events)
//@   label C07.restore.wf
//@   ensures queueWF(q)
//@   label C07.restore.ref
//@   ensures ref(q.events) == old(ref(q.events)) || fresh(q.events)
//@   label C07.restore.src
//@   ensures forall j in 0..len(q.events) :: 0 <= src[j] && src[j] < len(events) && q.events[j].event == events[src[j]]
//@   label C06.restore.seq
//@   ensures forall j in 0..len(q.events) :: int(q.events[j].seq) == int(old(q.nextSeq)) + src[j]
//@   assigns q.events, q.nextSeq, elems(q.events)
//@   loop 0: ghost src = idperm
//@   loop 0: backedge src = mapof(j, Push_pi[j] < athead(len(q.events)) ? src[Push_pi[j]] : rangeindex)
//@   loop 0: invariant -1 <= rangeindex && rangeindex < len(events) && len(q.events) == rangeindex + 1
//@   loop 0: invariant queueWF(q) && int(q.nextSeq) == int(old(q.nextSeq)) + rangeindex + 1
//@   loop 0: invariant ref(q.events) == old(ref(q.events)) || fresh(q.events)
//@   loop 0: invariant forall j in 0..len(q.events) :: 0 <= src[j] && src[j] <= rangeindex && q.events[j].event == events[src[j]]
//@   loop 0: invariant forall j in 0..len(q.events) :: int(q.events[j].seq) == int(old(q.nextSeq)) + src[j]

// ---- LoadCheckpoint ----
// seqRoom: the sequence counters are not within 2^59 of wrapping around (C01 assumes the same of Push).
//@ pred seqRoom(e) = int(e.queue.nextSeq) + (1<<59) < MaxUint64 && int(e.secondaryQueue.nextSeq) + (1<<59) < MaxUint64

//@ pred qSame(q) = q.nextSeq == old(q.nextSeq) && ref(q.events) == old(ref(q.events)) && off(q.events) == old(off(q.events)) && len(q.events) == old(len(q.events)) && cap(q.events) == old(cap(q.events)) && (forall j in 0..len(q.events) :: q.events[j] == old(q.events[j]))
//@ fn (*SerialEngine).LoadCheckpoint
//@   property C07 C06
//@   requires e != nil && engineWF(e) && seqRoom(e) && evCodecReady()
//@   witness s1 map = restore_prev_src
//@   witness s2 map = restore_src
//@   witness nPrim int = len(primary)
//@   witness nSec int = len(secondary)
//@   witness primRef int = ref(primary)
//@   witness secRef int = ref(secondary)
//@   witness primT map = mapof(i, typeid(primary[i]))
//@   witness primV map = mapof(i, ifaceval(primary[i]))
//@   witness secT map = mapof(i, typeid(secondary[i]))
//@   witness secV map = mapof(i, ifaceval(secondary[i]))
//@   witness dPrim int = ref(dto.Primary)
//@   witness dSec int = ref(dto.Secondary)
//@   witness d1in int = decodeEvents_prev_inRef
//@   witness d1out int = decodeEvents_prev_outRef
//@   witness d2in int = decodeEvents_inRef
//@   witness d2out int = decodeEvents_outRef
//@   label C06.engine.load.primary.field
//@   ensures result == nil ==> d1in == dPrim && d1out == primRef
//@   label C06.engine.load.secondary.field
//@   ensures result == nil ==> d2in == dSec && d2out == secRef
//@   label C06.engine.load.primary.content
//@   ensures result == nil ==> c06Restored(e.queue, nPrim, s1, primT, primV)
//@   label C06.engine.load.secondary.content
//@   ensures result == nil ==> c06Restored(e.secondaryQueue, nSec, s2, secT, secV)
//@   witness dtoTime int = int(dto.Time)   // dto is declared after the first return: a witness tolerates the unbound path
//@   label C07.engine.nonempty.mismatch
//@   ensures old(len(e.queue.events)) != 0 || old(len(e.secondaryQueue.events)) != 0 ==> result != nil
//@   label C07.engine.error.unchanged
//@   ensures result != nil ==> e.time == old(e.time) && qSame(e.queue) && qSame(e.secondaryQueue)
//@   label C07.engine.ok.handlers
//@   ensures result == nil ==> queueHandlersKnown(e, e.queue) && queueHandlersKnown(e, e.secondaryQueue)
//@   label C07.engine.ok.time
//@   ensures result == nil ==> int(e.time) == dtoTime
//@   label C07.engine.ok.wf
//@   ensures result == nil ==> engineWF(e)
//@   label C07.engine.config
//@   ensures e.queue == old(e.queue) && e.secondaryQueue == old(e.secondaryQueue) && e.registry == old(e.registry)
//@   assigns e.time, e.queue.events, e.queue.nextSeq, elems(e.queue.events), e.secondaryQueue.events, e.secondaryQueue.nextSeq, elems(e.secondaryQueue.events), decCount, decLen

// ---- the sequential ID generator ----
//@ fn (*sequentialIDGenerator).LoadCheckpoint
//@   property C07 C06
//@   requires g != nil
//@   label C07.idgen.kind.mismatch
//@   ensures dto.Kind != "sequential" ==> result != nil
//@   label C07.idgen.error.unchanged
//@   ensures result != nil ==> g.nextID == old(g.nextID)
//@   label C07.idgen.ok
//@   ensures result == nil ==> g.nextID == dto.NextID && dto.Kind == "sequential"
//@   assigns g.nextID

//@ fn (*sequentialIDGenerator).SaveCheckpoint
//@   property C07 C06
//@   requires g != nil
//@   label C07.idgen.save.written
//@   ensures jsonEncCount == old(jsonEncCount) + 1 && as(mkiface(jsonEncTyp, jsonEncVal), "idGeneratorCheckpoint").Kind == "sequential" && as(mkiface(jsonEncTyp, jsonEncVal), "idGeneratorCheckpoint").NextID == g.nextID
//@   assigns jsonEncTyp, jsonEncVal, jsonEncCount

// the parallel generator is not checkpointable: always an error, nothing touched
//@ fn (*parallelIDGenerator).LoadCheckpoint
//@   property C07
//@   label C07.idgen.parallel.load
//@   ensures result != nil
//@   assigns nothing
//@ fn (*parallelIDGenerator).SaveCheckpoint
//@   property C07
//@   label C07.idgen.parallel.save
//@   ensures result != nil
//@   assigns nothing

// ---- the save side: snapshot lists the queued events in pop order ((time, seq) ascending) without touching the queue ----
//@ fn (*unsafeEventQueue).snapshot
//@   property C07 C06
//@   requires q != nil
//@   witness pi map = Slice_pi
//@   label C07.snapshot.len
//@   ensures len(result) == len(q.events)
//@   label C07.snapshot.perm
//@   ensures isPerm(pi, len(q.events))
//@   label C07.snapshot.same
//@   ensures forall k in 0..len(result) :: result[k] == q.events[pi[k]].event
//@   label C07.snapshot.sorted
//@   ensures forall k in 1..len(result) :: !keyLt(evTime(q.events[pi[k]].event), q.events[pi[k]].seq, evTime(q.events[pi[k - 1]].event), q.events[pi[k - 1]].seq)
//@   label C07.snapshot.fresh
//@   ensures len(result) == 0 || fresh(result)
//@   assigns nothing
//@   loop 0: invariant -1 <= rangeindex && rangeindex < len(sorted) && len(out) == len(sorted) && fresh(out) && len(sorted) == len(q.events)
//@   loop 0: invariant forall k in 0..rangeindex + 1 :: out[k] == sorted[k].event

//@ fn (*SerialEngine).SaveCheckpoint
//@   property C07 C06
//@   requires e != nil && e.queue != nil && e.secondaryQueue != nil && evCodecReady()
//@   witness p1 map = snapshot_prev_pi
//@   witness p2 map = snapshot_pi
//@   label C07.engine.save.time
//@   ensures jsonEncCount == old(jsonEncCount) + 1 ==> c06Eng().Time == e.time
//@   label C07.engine.save.error
//@   ensures jsonEncCount == old(jsonEncCount) ==> result != nil
//@   label C06.engine.save.once
//@   ensures result == nil ==> jsonEncCount == old(jsonEncCount) + 1 && encCount == old(encCount) + 2
//@   label C06.engine.save.primary.field
//@   ensures result == nil ==> ref(c06Eng().Primary) == encOut[old(encCount)]
//@   label C06.engine.save.secondary.field
//@   ensures result == nil ==> ref(c06Eng().Secondary) == encOut[old(encCount) + 1] && ref(c06Eng().Secondary) != ref(c06Eng().Primary)
//@   label C06.engine.save.primary.poporder
//@   ensures result == nil ==> c06Encoded(old(encCount), e.queue, p1)
//@   label C06.engine.save.secondary.poporder
//@   ensures result == nil ==> c06Encoded(old(encCount) + 1, e.secondaryQueue, p2)
//@   assigns jsonEncTyp, jsonEncVal, jsonEncCount, encCount, encLen, encTyp, encVal, encOut
