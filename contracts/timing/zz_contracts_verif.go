//go:build verif

// Contracts for package timing (comment-only; read by /verif/engine, never compiled into a build).
package timing

//@ const PS = 1000000000000
//@ const TWO64 = 18446744073709551616
//@ func period(f) = PS / f
//@ pred validFreq(f) = 1 <= f && f <= PS

// ---- C42: clock arithmetic ----

//@ fn (Freq).Period
//@   property C42 C12
//@   panics f == 0
//@   label C42.period.floor
//@   ensures int(result) * int(f) <= PS && PS < (int(result) + 1) * int(f)
//@   label C42.period.eq
//@   ensures result == period(f)
//@   assigns nothing

//@ fn (Freq).Cycle
//@   property C42
//@   requires validFreq(f)
//@   label C42.cycle.floor
//@   ensures int(result) * period(f) <= int(time) && int(time) < (int(result) + 1) * period(f)
//@   assigns nothing

//@ fn (Freq).ThisTick
//@   property C42 C12
//@   requires validFreq(f)
//@   label C42.thistick.least
//@   ensures forall q nat :: q * period(f) >= int(now) && (q == 0 || (q - 1) * period(f) < int(now)) && q * period(f) < TWO64 ==> int(result) == q * period(f)
//@   assigns nothing

//@ fn (Freq).NextTick
//@   property C42 C12
//@   requires validFreq(f)
//@   label C42.nexttick.least
//@   ensures forall q nat :: q * period(f) > int(now) && (q - 1) * period(f) <= int(now) && q * period(f) < TWO64 ==> int(result) == q * period(f)
//@   assigns nothing

//@ fn (Freq).NCyclesLater
//@   property C42
//@   requires validFreq(f)
//@   label C42.ncycles.exact
//@   ensures forall q nat :: n >= 0 && q * period(f) >= int(now) && (q == 0 || (q - 1) * period(f) < int(now)) && (q + int(n)) * period(f) < TWO64 ==> int(result) == (q + int(n)) * period(f)
//@   assigns nothing

//@ fn (Freq).NoEarlierThan
//@   property C42
//@   requires validFreq(f)
//@   label C42.noearlier.least
//@   ensures forall q nat :: q * period(f) >= int(t) && (q == 0 || (q - 1) * period(f) < int(t)) && q * period(f) < TWO64 ==> int(result) == q * period(f)
//@   assigns nothing

// ---- C41: generated IDs are unique; the sequential counter is reproducible ----

//@ fn (*sequentialIDGenerator).Generate
//@   property C41
//@   requires g.nextID < MaxUint64
//@   label C41.seq.next
//@   ensures int(result) == int(old(g.nextID)) + 1 && g.nextID == result
//@   label C41.seq.nonzero
//@   ensures result != 0 && result > old(g.nextID)
//@   assigns g.nextID

//@ fn (*parallelIDGenerator).Generate
//@   property C41
//@   requires g.nextID < MaxUint64
//@   label C41.par.next
//@   ensures int(result) == int(old(g.nextID)) + 1 && g.nextID == result
//@   label C41.par.nonzero
//@   ensures result != 0 && result > old(g.nextID)
//@   assigns g.nextID

// Uniqueness follows from the two postconditions: every ID handed out is at most the counter, and each new one exceeds it.
//@ lemma idsDistinct(n0, r1, n1, m, r2)
//@   property C41
//@   requires n0 >= 0 && r1 == n0 + 1 && n1 == r1 && m >= n1 && r2 == m + 1
//@   label C41.lemma.distinct
//@   ensures r2 > r1 && r1 != 0 && r2 != 0

// The generator singleton is guarded by idGeneratorMutex. Rely/guarantee: once a generator is installed it is
// never replaced (that is what keeps the ID sequence from restarting when two goroutines race to create it).
//@ lockinv idGeneratorMutex
//@   assigns idGenerator, idGeneratorInstantiated
//@   requires idGeneratorInstantiated ==> idGenerator != nil
//@   ensures old(idGeneratorInstantiated) ==> idGeneratorInstantiated && idGenerator == old(idGenerator)

//@ fn GetIDGenerator
//@   property C41
//@   requires idGeneratorInstantiated ==> idGenerator != nil
//@   label C41.get.instantiated
//@   ensures idGeneratorInstantiated && result == idGenerator && result != nil
//@   label C41.get.stable
//@   ensures old(idGeneratorInstantiated) ==> result == old(idGenerator) && nothingAssigned()
//@   label C41.get.fresh
//@   ensures !old(idGeneratorInstantiated) && !atlock(idGeneratorInstantiated) ==> hastype(result, "*sequentialIDGenerator") && as(result, "*sequentialIDGenerator").nextID == 0 && fresh(as(result, "*sequentialIDGenerator"))
//@   label C41.get.raced
//@   ensures !old(idGeneratorInstantiated) && atlock(idGeneratorInstantiated) ==> result == atlock(idGenerator)
//@   assigns idGenerator, idGeneratorInstantiated

//@ fn UseSequentialIDGenerator
//@   property C41
//@   panics any
//@   label C41.useseq
//@   ensures idGeneratorInstantiated && hastype(idGenerator, "*sequentialIDGenerator") && as(idGenerator, "*sequentialIDGenerator").nextID == 0 && fresh(as(idGenerator, "*sequentialIDGenerator"))
//@   label C41.useseq.first
//@   ensures !old(idGeneratorInstantiated)
//@   assigns idGenerator, idGeneratorInstantiated

//@ fn GetIDGeneratorNextID
//@   property C41
//@   requires hastype(idGenerator, "*sequentialIDGenerator") && as(idGenerator, "*sequentialIDGenerator") != nil
//@   label C41.getnext
//@   ensures result == as(idGenerator, "*sequentialIDGenerator").nextID
//@   assigns nothing

//@ fn SetIDGeneratorNextID
//@   property C41
//@   requires hastype(idGenerator, "*sequentialIDGenerator") && as(idGenerator, "*sequentialIDGenerator") != nil
//@   label C41.setnext
//@   ensures as(idGenerator, "*sequentialIDGenerator").nextID == id
//@   assigns as(idGenerator, "*sequentialIDGenerator").nextID
