//go:build verif

// Contracts for package timing (comment-only; read by /verif/engine, never compiled into a build).
package timing

//@ const PS = 1000000000000
//@ const TWO64 = 18446744073709551616
//@ func period(f) = PS / f
//@ pred validFreq(f) = 1 <= f && f <= PS

// ---- C42: clock arithmetic ----

//@ fn (Freq).Period
//@   property C42 C12
//@   panics f == 0
//@   label C42.period.floor
//@   ensures int(result) * int(f) <= PS && PS < (int(result) + 1) * int(f)
//@   label C42.period.eq
//@   ensures result == period(f)

//@ fn (Freq).Cycle
//@   property C42
//@   requires validFreq(f)
//@   label C42.cycle.floor
//@   ensures int(result) * period(f) <= int(time) && int(time) < (int(result) + 1) * period(f)

//@ fn (Freq).ThisTick
//@   property C42 C12
//@   requires validFreq(f)
//@   label C42.thistick.least
//@   ensures forall q nat :: q * period(f) >= int(now) && (q == 0 || (q - 1) * period(f) < int(now)) && q * period(f) < TWO64 ==> int(result) == q * period(f)

//@ fn (Freq).NextTick
//@   property C42 C12
//@   requires validFreq(f)
//@   label C42.nexttick.least
//@   ensures forall q nat :: q * period(f) > int(now) && (q - 1) * period(f) <= int(now) && q * period(f) < TWO64 ==> int(result) == q * period(f)

//@ fn (Freq).NCyclesLater
//@   property C42
//@   requires validFreq(f)
//@   label C42.ncycles.exact
//@   ensures forall q nat :: n >= 0 && q * period(f) >= int(now) && (q == 0 || (q - 1) * period(f) < int(now)) && (q + int(n)) * period(f) < TWO64 ==> int(result) == (q + int(n)) * period(f)

//@ fn (Freq).NoEarlierThan
//@   property C42
//@   requires validFreq(f)
//@   label C42.noearlier.least
//@   ensures forall q nat :: q * period(f) >= int(t) && (q == 0 || (q - 1) * period(f) < int(t)) && q * period(f) < TWO64 ==> int(result) == q * period(f)
