//go:build verif

// C32 - traces are well-formed task trees (the per-call part).
package tracing

// ---------------------------------------------------------------------------------------------------------------------
// Vocabulary. The hook log (c33HookN/Dom/Pos/Typ/Val), the hook count c33Hooks, c33Now/c33Name/c33MsgID/c33MsgRspTo and
// the TRUSTED interface contracts of NamedHookable.{NumHooks,CurrentTime,Name,InvokeHook} and messaging.Msg.Meta are
// declared once for the package in zz_contracts_C33_verif.go (entry n of the log = receiver, position and boxed item of
// the n-th InvokeHook: the TaskStart / TaskEnd / Milestone / TaskTag value handed to every attached tracer).
// ---------------------------------------------------------------------------------------------------------------------
// the three (domain name, message ID) -> task ID registries of registry.go; 0 = no entry (generated IDs are never 0: C41)
//@ ghost var c32Recv map2
//@ ghost var c32InBuf map2
//@ ghost var c32OutBuf map2
//@ ufunc c32RKind(t) int
//@ ufunc c32RElem(t) int
//@ ufunc c32RName(t) int
//@ ufunc c32PortName(p) int
//@ ufunc c32PortCompT(p) int
//@ ufunc c32PortCompV(p) int

//@ pred c32LogSame() = c33HookN == old(c33HookN) && c33HookDom == old(c33HookDom) && c33HookPos == old(c33HookPos) && c33HookTyp == old(c33HookTyp) && c33HookVal == old(c33HookVal)
//@ pred c32LogKept() = c33HookN >= old(c33HookN) && (forall n int :: n < old(c33HookN) ==> c33HookDom[n] == old(c33HookDom)[n] && c33HookPos[n] == old(c33HookPos)[n] && c33HookTyp[n] == old(c33HookTyp)[n] && c33HookVal[n] == old(c33HookVal)[n])
//@ pred c32At(n, d, pos) = c33HookDom[n] == ifaceval(d) && c33HookPos[n] == pos
//@ pred c32IsStart(n, d, id, parent, kind, what, loc) = c32At(n, d, HookPosTaskStart) && hastype(c33Item(n), "TaskStart") && as(c33Item(n), "TaskStart").ID == id && as(c33Item(n), "TaskStart").ParentID == parent && as(c33Item(n), "TaskStart").Kind == kind && as(c33Item(n), "TaskStart").What == what && as(c33Item(n), "TaskStart").Location == loc && as(c33Item(n), "TaskStart").Time == c33Now(d)
//@ pred c32IsEnd(n, d, id) = c32At(n, d, HookPosTaskEnd) && hastype(c33Item(n), "TaskEnd") && as(c33Item(n), "TaskEnd").ID == id && as(c33Item(n), "TaskEnd").Time == c33Now(d)
//@ pred c32IsMilestone(n, d, task, kind, what) = c32At(n, d, HookPosMilestone) && hastype(c33Item(n), "Milestone") && as(c33Item(n), "Milestone").TaskID == task && as(c33Item(n), "Milestone").Kind == kind && as(c33Item(n), "Milestone").What == what && as(c33Item(n), "Milestone").Time == c33Now(d)

// ---------------------------------------------------------------------------------------------------------------------
// msgTypeName: reflection is outside the engine; reflect.Type values are modelled by the dynamic type id they describe.
// ---------------------------------------------------------------------------------------------------------------------
//@ ext reflect.TypeOf(i)
//@   pure
//@   ensures ifaceval(result) == typeid(i) && (typeid(result) == 0 <==> typeid(i) == 0)
//@ iface reflect.Type.Kind()
//@   trusted
//@   pure
//@   panics typeid(self) == 0
//@   ensures result == c32RKind(ifaceval(self))
//@ iface reflect.Type.Elem()
//@   trusted
//@   pure
//@   requires c32RKind(ifaceval(self)) == reflect.Pointer
//@   ensures ifaceval(result) == c32RElem(ifaceval(self)) && typeid(result) != 0
//@ iface reflect.Type.Name()
//@   trusted
//@   pure
//@   panics typeid(self) == 0
//@   ensures result == c32RName(ifaceval(self))
//@ func c32TypeName(m) = c32RKind(typeid(m)) == reflect.Pointer ? c32RName(c32RElem(typeid(m))) : c32RName(typeid(m))
//@ fn msgTypeName
//@   property C32
//@   pure
//@   panics typeid(msg) == 0
//@   label C32.typename
//@   ensures result == c32TypeName(msg)

// ---------------------------------------------------------------------------------------------------------------------
// registry.go: map[struct{domain string; msgID uint64}]uint64 is outside the engine's subset (struct map keys), so the
// nine registry primitives are ASSUMED (trusted) to behave as a map keyed by (domain name, message ID), viewed through
// the ghosts c32Recv / c32InBuf / c32OutBuf (0 = no entry; generated IDs are nonzero by C41.seq.nonzero/C41.par.nonzero).
// ---------------------------------------------------------------------------------------------------------------------
// lookup-or-create: the entry of (nm, id) is r afterwards; it is the old entry if there was one; no other entry changes.
//@ pred c32RegGet(reg, reg0, nm, id, r) = r != 0 && (reg0[nm][id] != 0 ==> r == reg0[nm][id]) && reg == upd(reg0, nm, upd(reg0[nm], id, r))
// an ID is drawn from the generator (c33Drawn / c33Issued of the C33 file) exactly when the entry did not exist; it is new
//@ pred c32Drew(reg0, nm, id, r) = reg0[nm][id] != 0 ? (c33Drawn == old(c33Drawn) && c33Issued == old(c33Issued)) : (c33Drawn == old(c33Drawn) + 1 && !old(c33Issued)[r] && c33Issued == upd(old(c33Issued), r, true))
//@ pred c32RegDel(reg, reg0, nm, id) = reg == upd(reg0, nm, upd(reg0[nm], id, 0))

//@ fn lookupOrCreateReceiverTaskID
//@   trusted
//@   requires c33IDGenOK()
//@   ensures c33IDGenOK()
//@   panics typeid(msg) == 0
//@   ensures c32RegGet(c32Recv, old(c32Recv), c33Name(domain), c33MsgID(msg), result) && c32Drew(old(c32Recv), c33Name(domain), c33MsgID(msg), result)
//@   assigns c32Recv, c33Drawn, c33Issued, key("G|github.com/sarchlab/akita/v5/timing.idGenerator|"), key("G|github.com/sarchlab/akita/v5/timing.idGeneratorInstantiated|"), key("O|timing.sequentialIDGenerator|nextID"), key("O|timing.parallelIDGenerator|nextID")
//@ fn receiverTaskIDByMsgID
//@   trusted
//@   pure
//@   ensures result0 == c32Recv[c33Name(domain)][msgID] && (result1 <==> result0 != 0)
//@ fn forgetReceiverTaskID
//@   trusted
//@   panics typeid(msg) == 0
//@   ensures c32RegDel(c32Recv, old(c32Recv), c33Name(domain), c33MsgID(msg))
//@   assigns c32Recv
//@ fn forgetReceiverTaskIDByMsgID
//@   trusted
//@   ensures c32RegDel(c32Recv, old(c32Recv), c33Name(domain), msgID)
//@   assigns c32Recv
//@ fn lookupOrCreateIncomingBufferTaskID
//@   trusted
//@   requires c33IDGenOK()
//@   ensures c33IDGenOK()
//@   panics typeid(msg) == 0
//@   ensures c32RegGet(c32InBuf, old(c32InBuf), c33Name(domain), c33MsgID(msg), result) && c32Drew(old(c32InBuf), c33Name(domain), c33MsgID(msg), result)
//@   assigns c32InBuf, c33Drawn, c33Issued, key("G|github.com/sarchlab/akita/v5/timing.idGenerator|"), key("G|github.com/sarchlab/akita/v5/timing.idGeneratorInstantiated|"), key("O|timing.sequentialIDGenerator|nextID"), key("O|timing.parallelIDGenerator|nextID")
//@ fn forgetIncomingBufferTaskIDByMsgID
//@   trusted
//@   ensures c32RegDel(c32InBuf, old(c32InBuf), c33Name(domain), msgID)
//@   assigns c32InBuf
//@ fn lookupOrCreateOutgoingBufferTaskID
//@   trusted
//@   requires c33IDGenOK()
//@   ensures c33IDGenOK()
//@   panics typeid(msg) == 0
//@   ensures c32RegGet(c32OutBuf, old(c32OutBuf), c33Name(domain), c33MsgID(msg), result) && c32Drew(old(c32OutBuf), c33Name(domain), c33MsgID(msg), result)
//@   assigns c32OutBuf, c33Drawn, c33Issued, key("G|github.com/sarchlab/akita/v5/timing.idGenerator|"), key("G|github.com/sarchlab/akita/v5/timing.idGeneratorInstantiated|"), key("O|timing.sequentialIDGenerator|nextID"), key("O|timing.parallelIDGenerator|nextID")
//@ fn forgetOutgoingBufferTaskIDByMsgID
//@   trusted
//@   ensures c32RegDel(c32OutBuf, old(c32OutBuf), c33Name(domain), msgID)
//@   assigns c32OutBuf

// ---- exported registry wrappers owned by C32 (the no-observer fast path touches nothing) ----
//@ fn MsgIDAtOutgoingBuffer
//@   property C32
//@   requires c33IDGenOK()
//@   ensures c33IDGenOK()
//@   panics (c33H(domain) != 0 && typeid(msg) == 0)
//@   label C32.outid.off
//@   ensures c33H(domain) == 0 ==> result == 0 && nothingAssigned()
//@   label C32.outid.on
//@   ensures c33H(domain) != 0 ==> c32RegGet(c32OutBuf, old(c32OutBuf), c33Name(domain), c33MsgID(msg), result) && c32Drew(old(c32OutBuf), c33Name(domain), c33MsgID(msg), result)
//@   assigns c32OutBuf, c33Drawn, c33Issued, key("G|github.com/sarchlab/akita/v5/timing.idGenerator|"), key("G|github.com/sarchlab/akita/v5/timing.idGeneratorInstantiated|"), key("O|timing.sequentialIDGenerator|nextID"), key("O|timing.parallelIDGenerator|nextID")
//@ fn ForgetMsgIDAtIncomingBuffer
//@   property C32
//@   label C32.forgetin.off
//@   ensures c33H(domain) == 0 ==> nothingAssigned()
//@   label C32.forgetin.on
//@   ensures c33H(domain) != 0 ==> c32RegDel(c32InBuf, old(c32InBuf), c33Name(domain), msgID)
//@   assigns c32InBuf
//@ fn ForgetMsgIDAtOutgoingBuffer
//@   property C32
//@   label C32.forgetout.off
//@   ensures c33H(domain) == 0 ==> nothingAssigned()
//@   label C32.forgetout.on
//@   ensures c33H(domain) != 0 ==> c32RegDel(c32OutBuf, old(c32OutBuf), c33Name(domain), msgID)
//@   assigns c32OutBuf

// ---------------------------------------------------------------------------------------------------------------------
// (2) request helpers of api.go
// ---------------------------------------------------------------------------------------------------------------------
// the location StartTask derives for req_in/req_out tasks is singleKindLocation's (C33 file: fn singleKindLocation)
//@ pred c32ReqPanics(domain, msg, id) = (c33H(domain) != 0 && (typeid(domain) == 0 || typeid(msg) == 0 || id == 0 || c32TypeName(msg) == "" || c33Name(domain) == ""))

//@ fn TraceReqInitiate
//@   property C32
//@   panics c32ReqPanics(domain, msg, c33MsgID(msg))
//@   label C32.initiate.off
//@   ensures c33H(domain) == 0 ==> c32LogSame() && nothingAssigned()
//@   label C32.initiate.one
//@   ensures c33H(domain) != 0 ==> c33HookN == old(c33HookN) + 1 && c32LogKept()
//@   label C32.initiate.start
//@   ensures c33H(domain) != 0 ==> c32IsStart(old(c33HookN), domain, c33MsgID(msg), taskParentID, ReqOutTaskKind, c32TypeName(msg), as(c33Item(old(c33HookN)), "TaskStart").Location)
//@   label C32.initiate.registries
//@   ensures c32Recv == old(c32Recv) && c32InBuf == old(c32InBuf) && c32OutBuf == old(c32OutBuf)
//@   assigns c33HookN, c33HookDom, c33HookPos, c33HookTyp, c33HookVal

//@ fn TraceReqFinalize
//@   property C32
//@   panics (c33H(domain) != 0 && typeid(msg) == 0)
//@   label C32.finalize.off
//@   ensures c33H(domain) == 0 ==> c32LogSame() && nothingAssigned()
//@   label C32.finalize.one
//@   ensures c33H(domain) != 0 ==> c33HookN == old(c33HookN) + 1 && c32LogKept()
//@   label C32.finalize.end
//@   ensures c33H(domain) != 0 ==> c32IsEnd(old(c33HookN), domain, c33MsgID(msg))
//@   label C32.finalize.registries
//@   ensures c32Recv == old(c32Recv) && c32InBuf == old(c32InBuf) && c32OutBuf == old(c32OutBuf)
//@   assigns c33HookN, c33HookDom, c33HookPos, c33HookTyp, c33HookVal

// the receiver-side task ID of (msg, domain): the registry entry (created on first use)
//@ func c32RecvID(domain, msg) = c32Recv[c33Name(domain)][c33MsgID(msg)]
//@ fn TraceReqReceive
//@   property C32
//@   requires c33IDGenOK()
//@   ensures c33IDGenOK()
//@   panics c32ReqPanics(domain, msg, 1)
//@   label C32.receive.off
//@   ensures c33H(domain) == 0 ==> c32LogSame() && nothingAssigned()
//@   label C32.receive.one
//@   ensures c33H(domain) != 0 ==> c33HookN == old(c33HookN) + 1 && c32LogKept()
//@   label C32.receive.id
//@   ensures c33H(domain) != 0 ==> c32RegGet(c32Recv, old(c32Recv), c33Name(domain), c33MsgID(msg), c32RecvID(domain, msg))
//@   label C32.receive.drawn                     // an ID is drawn only for a message seen for the first time, and it is a new one
//@   ensures c33H(domain) != 0 ==> c32Drew(old(c32Recv), c33Name(domain), c33MsgID(msg), c32RecvID(domain, msg))
//@   label C32.receive.start
//@   ensures c33H(domain) != 0 ==> c32IsStart(old(c33HookN), domain, c32RecvID(domain, msg), c33MsgID(msg), ReqInTaskKind, c32TypeName(msg), as(c33Item(old(c33HookN)), "TaskStart").Location)
//@   label C32.receive.registries
//@   ensures c32InBuf == old(c32InBuf) && c32OutBuf == old(c32OutBuf)
//@   assigns c33HookN, c33HookDom, c33HookPos, c33HookTyp, c33HookVal, c32Recv, c33Drawn, c33Issued, key("G|github.com/sarchlab/akita/v5/timing.idGenerator|"), key("G|github.com/sarchlab/akita/v5/timing.idGeneratorInstantiated|"), key("O|timing.sequentialIDGenerator|nextID"), key("O|timing.parallelIDGenerator|nextID")

//@ fn TraceReqComplete
//@   property C32
//@   requires c33IDGenOK()
//@   ensures c33IDGenOK()
//@   panics (c33H(domain) != 0 && typeid(msg) == 0)
//@   label C32.complete.off
//@   ensures c33H(domain) == 0 ==> c32LogSame() && nothingAssigned()
//@   label C32.complete.one
//@   ensures c33H(domain) != 0 ==> c33HookN == old(c33HookN) + 1 && c32LogKept()
//@   label C32.complete.end                       // the ID ended is the registered one = the ID TraceReqReceive started
//@   ensures c33H(domain) != 0 && old(c32RecvID(domain, msg)) != 0 ==> c32IsEnd(old(c33HookN), domain, old(c32RecvID(domain, msg)))
//@   label C32.complete.forgotten
//@   ensures c33H(domain) != 0 ==> c32RegDel(c32Recv, old(c32Recv), c33Name(domain), c33MsgID(msg))
//@   label C32.complete.registries
//@   ensures c32InBuf == old(c32InBuf) && c32OutBuf == old(c32OutBuf)
//@   assigns c33HookN, c33HookDom, c33HookPos, c33HookTyp, c33HookVal, c32Recv, c33Drawn, c33Issued, key("G|github.com/sarchlab/akita/v5/timing.idGenerator|"), key("G|github.com/sarchlab/akita/v5/timing.idGeneratorInstantiated|"), key("O|timing.sequentialIDGenerator|nextID"), key("O|timing.parallelIDGenerator|nextID")

// ---------------------------------------------------------------------------------------------------------------------
// (3) reset teardown helpers
// ---------------------------------------------------------------------------------------------------------------------
//@ fn EndTaskOnReset
//@   property C32
//@   label C32.resettask.off
//@   ensures c33H(domain) == 0 ==> c32LogSame() && nothingAssigned()
//@   label C32.resettask.one
//@   ensures c33H(domain) != 0 ==> c33HookN == old(c33HookN) + 1 && c32LogKept()
//@   label C32.resettask.end
//@   ensures c33H(domain) != 0 ==> c32IsEnd(old(c33HookN), domain, taskID)
//@   label C32.resettask.registries
//@   ensures c32Recv == old(c32Recv) && c32InBuf == old(c32InBuf) && c32OutBuf == old(c32OutBuf)
//@   assigns c33HookN, c33HookDom, c33HookPos, c33HookTyp, c33HookVal

//@ func c32RecvByID(domain, id) = c32Recv[c33Name(domain)][id]
//@ pred c32ResetLive(domain, id) = c33H(domain) != 0 && old(c32RecvByID(domain, id)) != 0
//@ fn EndReqInOnReset
//@   property C32
//@   label C32.resetreq.noop                     // no observer, or no req_in registered: nothing is ended, nothing changes
//@   ensures !c32ResetLive(domain, reqMsgID) ==> c32LogSame() && nothingAssigned()
//@   label C32.resetreq.one
//@   ensures c32ResetLive(domain, reqMsgID) ==> c33HookN == old(c33HookN) + 1 && c32LogKept()
//@   label C32.resetreq.end
//@   ensures c32ResetLive(domain, reqMsgID) ==> c32IsEnd(old(c33HookN), domain, old(c32RecvByID(domain, reqMsgID)))
//@   label C32.resetreq.entry0                   // (ground form of the next clause: the entry is gone)
//@   ensures c32ResetLive(domain, reqMsgID) ==> c32RecvByID(domain, reqMsgID) == 0
//@   label C32.resetreq.forgotten
//@   ensures c32ResetLive(domain, reqMsgID) ==> c32RegDel(c32Recv, old(c32Recv), c33Name(domain), reqMsgID)
//@   label C32.resetreq.registries
//@   ensures c32InBuf == old(c32InBuf) && c32OutBuf == old(c32OutBuf)
//@   assigns c33HookN, c33HookDom, c33HookPos, c33HookTyp, c33HookVal, c32Recv

// ---------------------------------------------------------------------------------------------------------------------
// (1) the port buffer tracers (incomingbuffertracer.go / outgoingbuffertracer.go)
// ---------------------------------------------------------------------------------------------------------------------
// TRUSTED (interface, any port implementation): pure getters. The current head of a port's buffers is ghost state
// (c32InHead*/c32OutHead*, keyed by the port): nothing in this package changes it.
//@ ghost var c32InHeadT map
//@ ghost var c32InHeadV map
//@ ghost var c32OutHeadT map
//@ ghost var c32OutHeadV map
//@ iface messaging.Port.Name()
//@   trusted
//@   pure
//@   panics typeid(self) == 0
//@   ensures result == c32PortName(self)
//@ iface messaging.Port.Component()
//@   trusted
//@   pure
//@   panics typeid(self) == 0
//@   ensures typeid(result) == c32PortCompT(self) && ifaceval(result) == c32PortCompV(self)
//@ iface messaging.Port.PeekIncoming()
//@   trusted
//@   pure
//@   panics typeid(self) == 0
//@   ensures typeid(result) == c32InHeadT[ifaceval(self)] && ifaceval(result) == c32InHeadV[ifaceval(self)]
//@ iface messaging.Port.PeekOutgoing()
//@   trusted
//@   pure
//@   panics typeid(self) == 0
//@   ensures typeid(result) == c32OutHeadT[ifaceval(self)] && ifaceval(result) == c32OutHeadV[ifaceval(self)]

//@ func c32InHead(port) = mkiface(c32InHeadT[ifaceval(port)], c32InHeadV[ifaceval(port)])
//@ func c32OutHead(port) = mkiface(c32OutHeadT[ifaceval(port)], c32OutHeadV[ifaceval(port)])
// the parent of a buffer task: the req_out task of the request (a response is filed under the request it answers)
//@ func c32Parent(msg) = c33MsgRspTo(msg) != 0 ? c33MsgRspTo(msg) : c33MsgID(msg)
// the deterministic buffer-task ID of (message, component): the registry entry
//@ func c32InID(domain, msg) = c32InBuf[c33Name(domain)][c33MsgID(msg)]
//@ func c32OutID(domain, msg) = c32OutBuf[c33Name(domain)][c33MsgID(msg)]
//@ pred c32DepthOK(d) = 0 <= d && d < MaxInt64

//@ fn (*incomingBufferHook).markReachedHead
//@   property C32
//@   requires c33IDGenOK()
//@   panics typeid(port) == 0
//@   label C32.in.head.off
//@   ensures c33H(domain) == 0 ==> c32LogSame() && nothingAssigned()
//@   label C32.in.head.milestone
//@   ensures c33H(domain) != 0 ==> c33HookN == old(c33HookN) + 1 && c32LogKept() && c32IsMilestone(old(c33HookN), domain, taskID, MilestoneKindQueue, c32PortName(port))
//@   ensures c33IDGenOK()
//@   assigns c33HookN, c33HookDom, c33HookPos, c33HookTyp, c33HookVal, c33Drawn, c33Issued, key("G|github.com/sarchlab/akita/v5/timing.idGenerator|"), key("G|github.com/sarchlab/akita/v5/timing.idGeneratorInstantiated|"), key("O|timing.sequentialIDGenerator|nextID"), key("O|timing.parallelIDGenerator|nextID")

// what a delivery does when the component is observed: one task started (log entry n0), at most one milestone after it
//@ pred c32InDelivered(h, domain, port, msg, n0, d0, reg0) = c32RegGet(c32InBuf, reg0, c33Name(domain), c33MsgID(msg), c32InID(domain, msg)) && c32IsStart(n0, domain, c32InID(domain, msg), c32Parent(msg), IncomingBufferTaskKind, c32TypeName(msg), as(c33Item(n0), "TaskStart").Location) && c33HookN == n0 + (d0 == 0 ? 2 : 1) && (d0 == 0 ==> c32IsMilestone(n0 + 1, domain, c32InID(domain, msg), MilestoneKindQueue, c32PortName(port))) && h.depth == d0 + 1
//@ fn (*incomingBufferHook).onDeliver
//@   property C32
//@   requires h != nil && c32DepthOK(h.depth) && c33IDGenOK()
//@   panics c33H(domain) != 0 && (typeid(domain) == 0 || typeid(msg) == 0 || typeid(port) == 0 || c32TypeName(msg) == "" || c33Name(domain) == "")
//@   label C32.in.deliver.off
//@   ensures c33H(domain) == 0 ==> c32LogSame() && nothingAssigned()
//@   label C32.in.deliver.on
//@   ensures c33H(domain) != 0 ==> c32InDelivered(h, domain, port, msg, old(c33HookN), old(h.depth), old(c32InBuf))
//@   label C32.in.deliver.kept
//@   ensures c32LogKept() && c32Recv == old(c32Recv) && c32OutBuf == old(c32OutBuf)
//@   ensures c33IDGenOK()
//@   assigns h.depth, c32InBuf, c33HookN, c33HookDom, c33HookPos, c33HookTyp, c33HookVal, c33Drawn, c33Issued, key("G|github.com/sarchlab/akita/v5/timing.idGenerator|"), key("G|github.com/sarchlab/akita/v5/timing.idGeneratorInstantiated|"), key("O|timing.sequentialIDGenerator|nextID"), key("O|timing.parallelIDGenerator|nextID")

// what a retrieval does when the component is observed: the registered task of the retrieved message is ended (log entry
// n0) and its registry entry released (reg1); then, if another message is now at the head, one milestone on ITS task.
//@ func c32RegCleared(reg0, nm, id) = upd(reg0, nm, upd(reg0[nm], id, 0))
//@ pred c32InRetrieved(h, domain, port, retrieved, n0, d0, reg0) = (reg0[c33Name(domain)][c33MsgID(retrieved)] != 0 ==> c32IsEnd(n0, domain, reg0[c33Name(domain)][c33MsgID(retrieved)])) && c32At(n0, domain, HookPosTaskEnd) && hastype(c33Item(n0), "TaskEnd") && h.depth == (d0 > 0 ? d0 - 1 : 0) && (typeid(c32InHead(port)) == 0 ? (c33HookN == n0 + 1 && c32InBuf == c32RegCleared(reg0, c33Name(domain), c33MsgID(retrieved))) : (c33HookN == n0 + 2 && c32RegGet(c32InBuf, c32RegCleared(reg0, c33Name(domain), c33MsgID(retrieved)), c33Name(domain), c33MsgID(c32InHead(port)), c32InID(domain, c32InHead(port))) && c32IsMilestone(n0 + 1, domain, c32InID(domain, c32InHead(port)), MilestoneKindQueue, c32PortName(port))))
//@ fn (*incomingBufferHook).onRetrieve
//@   property C32
//@   requires h != nil && c32DepthOK(h.depth) && c33IDGenOK()
//@   panics c33H(domain) != 0 && (typeid(retrieved) == 0 || typeid(port) == 0)
//@   label C32.in.retrieve.off
//@   ensures c33H(domain) == 0 ==> c32LogSame() && nothingAssigned()
//@   label C32.in.retrieve.on
//@   ensures c33H(domain) != 0 ==> c32InRetrieved(h, domain, port, retrieved, old(c33HookN), old(h.depth), old(c32InBuf))
//@   label C32.in.retrieve.kept
//@   ensures c32LogKept() && c32Recv == old(c32Recv) && c32OutBuf == old(c32OutBuf)
//@   ensures c33IDGenOK()
//@   assigns h.depth, c32InBuf, c33HookN, c33HookDom, c33HookPos, c33HookTyp, c33HookVal, c33Drawn, c33Issued, key("G|github.com/sarchlab/akita/v5/timing.idGenerator|"), key("G|github.com/sarchlab/akita/v5/timing.idGeneratorInstantiated|"), key("O|timing.sequentialIDGenerator|nextID"), key("O|timing.parallelIDGenerator|nextID")

// The hook entry point. The component is the port's owner, the message is the hook item; the three type assertions are
// free booleans for the engine, so each case reads "nothing happened, or exactly the delivery / retrieval effect".
//@ func c32Owner(p) = mkiface(c32PortCompT(p), c32PortCompV(p))
//@ pred c32Nothing(h) = c32LogSame() && h.depth == old(h.depth) && c32InBuf == old(c32InBuf)
//@ fn (*incomingBufferHook).Func
//@   property C32
//@   requires h != nil && c32DepthOK(h.depth) && c33IDGenOK()
//@   panics any
//@   label C32.in.func.otherpos                  // any other hook position: nothing is started, ended or recorded
//@   ensures ctx.Pos != messaging.HookPosPortMsgRecvd && ctx.Pos != messaging.HookPosPortMsgRetrieveIncoming ==> c32LogSame() && nothingAssigned()
//@   label C32.in.func.recvd
//@   ensures ctx.Pos == messaging.HookPosPortMsgRecvd ==> c32Nothing(h) || (c33H(c32Owner(ctx.Domain)) != 0 && c32InDelivered(h, c32Owner(ctx.Domain), ctx.Domain, ctx.Item, old(c33HookN), old(h.depth), old(c32InBuf)))
//@   label C32.in.func.retrieved
//@   ensures ctx.Pos != messaging.HookPosPortMsgRecvd && ctx.Pos == messaging.HookPosPortMsgRetrieveIncoming ==> c32Nothing(h) || (c33H(c32Owner(ctx.Domain)) != 0 && c32InRetrieved(h, c32Owner(ctx.Domain), ctx.Domain, ctx.Item, old(c33HookN), old(h.depth), old(c32InBuf)))
//@   label C32.in.func.kept
//@   ensures c32LogKept() && c32Recv == old(c32Recv) && c32OutBuf == old(c32OutBuf)
//@   assigns h.depth, c32InBuf, c33HookN, c33HookDom, c33HookPos, c33HookTyp, c33HookVal, c33Drawn, c33Issued, key("G|github.com/sarchlab/akita/v5/timing.idGenerator|"), key("G|github.com/sarchlab/akita/v5/timing.idGeneratorInstantiated|"), key("O|timing.sequentialIDGenerator|nextID"), key("O|timing.parallelIDGenerator|nextID")

// ---- the outgoing buffer tracer: the same contract over the outgoing registry, HookPosPortMsgSend / HookPosPortMsgRetrieveOutgoing ----
//@ fn (*outgoingBufferHook).markReachedHead
//@   property C32
//@   requires c33IDGenOK()
//@   panics typeid(port) == 0
//@   label C32.out.head.off
//@   ensures c33H(domain) == 0 ==> c32LogSame() && nothingAssigned()
//@   label C32.out.head.milestone
//@   ensures c33H(domain) != 0 ==> c33HookN == old(c33HookN) + 1 && c32LogKept() && c32IsMilestone(old(c33HookN), domain, taskID, MilestoneKindQueue, c32PortName(port))
//@   ensures c33IDGenOK()
//@   assigns c33HookN, c33HookDom, c33HookPos, c33HookTyp, c33HookVal, c33Drawn, c33Issued, key("G|github.com/sarchlab/akita/v5/timing.idGenerator|"), key("G|github.com/sarchlab/akita/v5/timing.idGeneratorInstantiated|"), key("O|timing.sequentialIDGenerator|nextID"), key("O|timing.parallelIDGenerator|nextID")

// what a sendy does when the component is observed: one task started (log entry n0), at most one milestone after it
//@ pred c32OutSent(h, domain, port, msg, n0, d0, reg0) = c32RegGet(c32OutBuf, reg0, c33Name(domain), c33MsgID(msg), c32OutID(domain, msg)) && c32IsStart(n0, domain, c32OutID(domain, msg), c32Parent(msg), OutgoingBufferTaskKind, c32TypeName(msg), as(c33Item(n0), "TaskStart").Location) && c33HookN == n0 + (d0 == 0 ? 2 : 1) && (d0 == 0 ==> c32IsMilestone(n0 + 1, domain, c32OutID(domain, msg), MilestoneKindQueue, c32PortName(port))) && h.depth == d0 + 1
//@ fn (*outgoingBufferHook).onSend
//@   property C32
//@   requires h != nil && c32DepthOK(h.depth) && c33IDGenOK()
//@   panics c33H(domain) != 0 && (typeid(domain) == 0 || typeid(msg) == 0 || typeid(port) == 0 || c32TypeName(msg) == "" || c33Name(domain) == "")
//@   label C32.out.send.off
//@   ensures c33H(domain) == 0 ==> c32LogSame() && nothingAssigned()
//@   label C32.out.send.on
//@   ensures c33H(domain) != 0 ==> c32OutSent(h, domain, port, msg, old(c33HookN), old(h.depth), old(c32OutBuf))
//@   label C32.out.send.kept
//@   ensures c32LogKept() && c32Recv == old(c32Recv) && c32InBuf == old(c32InBuf)
//@   ensures c33IDGenOK()
//@   assigns h.depth, c32OutBuf, c33HookN, c33HookDom, c33HookPos, c33HookTyp, c33HookVal, c33Drawn, c33Issued, key("G|github.com/sarchlab/akita/v5/timing.idGenerator|"), key("G|github.com/sarchlab/akita/v5/timing.idGeneratorInstantiated|"), key("O|timing.sequentialIDGenerator|nextID"), key("O|timing.parallelIDGenerator|nextID")

// what a retrieval does when the component is observed: the registered task of the retrieved message is ended (log entry
// n0) and its registry entry released (reg1); then, if another message is now at the head, one milestone on ITS task.
//@ pred c32OutRetrieved(h, domain, port, retrieved, n0, d0, reg0) = (reg0[c33Name(domain)][c33MsgID(retrieved)] != 0 ==> c32IsEnd(n0, domain, reg0[c33Name(domain)][c33MsgID(retrieved)])) && c32At(n0, domain, HookPosTaskEnd) && hastype(c33Item(n0), "TaskEnd") && h.depth == (d0 > 0 ? d0 - 1 : 0) && (typeid(c32OutHead(port)) == 0 ? (c33HookN == n0 + 1 && c32OutBuf == c32RegCleared(reg0, c33Name(domain), c33MsgID(retrieved))) : (c33HookN == n0 + 2 && c32RegGet(c32OutBuf, c32RegCleared(reg0, c33Name(domain), c33MsgID(retrieved)), c33Name(domain), c33MsgID(c32OutHead(port)), c32OutID(domain, c32OutHead(port))) && c32IsMilestone(n0 + 1, domain, c32OutID(domain, c32OutHead(port)), MilestoneKindQueue, c32PortName(port))))
//@ fn (*outgoingBufferHook).onRetrieve
//@   property C32
//@   requires h != nil && c32DepthOK(h.depth) && c33IDGenOK()
//@   panics c33H(domain) != 0 && (typeid(retrieved) == 0 || typeid(port) == 0)
//@   label C32.out.retrieve.off
//@   ensures c33H(domain) == 0 ==> c32LogSame() && nothingAssigned()
//@   label C32.out.retrieve.on
//@   ensures c33H(domain) != 0 ==> c32OutRetrieved(h, domain, port, retrieved, old(c33HookN), old(h.depth), old(c32OutBuf))
//@   label C32.out.retrieve.kept
//@   ensures c32LogKept() && c32Recv == old(c32Recv) && c32InBuf == old(c32InBuf)
//@   ensures c33IDGenOK()
//@   assigns h.depth, c32OutBuf, c33HookN, c33HookDom, c33HookPos, c33HookTyp, c33HookVal, c33Drawn, c33Issued, key("G|github.com/sarchlab/akita/v5/timing.idGenerator|"), key("G|github.com/sarchlab/akita/v5/timing.idGeneratorInstantiated|"), key("O|timing.sequentialIDGenerator|nextID"), key("O|timing.parallelIDGenerator|nextID")

// The hook entry point. The component is the port's owner, the message is the hook item; the three type assertions are
// free booleans for the engine, so each case reads "nothing happened, or exactly the sendy / retrieval effect".
//@ pred c32OutNothing(h) = c32LogSame() && h.depth == old(h.depth) && c32OutBuf == old(c32OutBuf)
//@ fn (*outgoingBufferHook).Func
//@   property C32
//@   requires h != nil && c32DepthOK(h.depth) && c33IDGenOK()
//@   panics any
//@   label C32.out.func.otherpos                  // any other hook position: nothing is started, ended or recorded
//@   ensures ctx.Pos != messaging.HookPosPortMsgSend && ctx.Pos != messaging.HookPosPortMsgRetrieveOutgoing ==> c32LogSame() && nothingAssigned()
//@   label C32.out.func.sent
//@   ensures ctx.Pos == messaging.HookPosPortMsgSend ==> c32OutNothing(h) || (c33H(c32Owner(ctx.Domain)) != 0 && c32OutSent(h, c32Owner(ctx.Domain), ctx.Domain, ctx.Item, old(c33HookN), old(h.depth), old(c32OutBuf)))
//@   label C32.out.func.retrieved
//@   ensures ctx.Pos != messaging.HookPosPortMsgSend && ctx.Pos == messaging.HookPosPortMsgRetrieveOutgoing ==> c32OutNothing(h) || (c33H(c32Owner(ctx.Domain)) != 0 && c32OutRetrieved(h, c32Owner(ctx.Domain), ctx.Domain, ctx.Item, old(c33HookN), old(h.depth), old(c32OutBuf)))
//@   label C32.out.func.kept
//@   ensures c32LogKept() && c32Recv == old(c32Recv) && c32InBuf == old(c32InBuf)
//@   assigns h.depth, c32OutBuf, c33HookN, c33HookDom, c33HookPos, c33HookTyp, c33HookVal, c33Drawn, c33Issued, key("G|github.com/sarchlab/akita/v5/timing.idGenerator|"), key("G|github.com/sarchlab/akita/v5/timing.idGeneratorInstantiated|"), key("O|timing.sequentialIDGenerator|nextID"), key("O|timing.parallelIDGenerator|nextID")
