//go:build verif

// Contracts for package tracing, property C34 (comment-only; read by /verif/engine, never compiled into a build).
package tracing

// ---- C34: aggregate tracers compute exact statistics ----
//
// History model.  A tracer sees a stream of StartTask / EndTask (/ AddTaskTag) events in time order.  A task is
// *tracked* from the StartTask that the filter accepts until its EndTask; inflightTasks[id] holds the start time of a
// tracked task.  "For any stream of events" is unfolded by induction over the stream: the constructor establishes the
// statistic of the empty stream, and each event handler's contract is the one-step relation (how the reported
// statistic must change).  Unsigned overflow of the accumulated picosecond counters is excluded by a stated
// precondition (the exact sum fits in 64 bits).

// ---------- TotalTimeTracer: TotalTime() == Σ (end − start) over the ended tracked tasks ----------

//@ fn NewTotalTimeTracer
//@   property C34
//@   label C34.total.new
//@   ensures result != nil && fresh(result) && result.totalTime == 0 && result.inflightTasks != nil && len(result.inflightTasks) == 0 && result.filter == filter
//@   label C34.total.new.empty
//@   ensures forall k uint64 :: !(k in result.inflightTasks)
//@   assigns nothing

//@ fn (*TotalTimeTracer).TotalTime
//@   property C34
//@   label C34.total.get
//@   ensures result == t.totalTime
//@   assigns nothing

//@ fn (*TotalTimeTracer).EndTask
//@   property C34
//@   requires t.inflightTasks != nil
//@   requires (task.ID in t.inflightTasks) ==> t.inflightTasks[task.ID] <= task.Time     // events arrive in time order
//@   requires (task.ID in t.inflightTasks) ==> int(t.totalTime) + int(task.Time) - int(t.inflightTasks[task.ID]) <= MaxUint64
//@   label C34.total.end.tracked
//@   ensures old(task.ID in t.inflightTasks) ==> int(t.totalTime) == int(old(t.totalTime)) + (int(task.Time) - int(old(t.inflightTasks[task.ID])))
//@   label C34.total.end.untracked
//@   ensures !old(task.ID in t.inflightTasks) ==> t.totalTime == old(t.totalTime)
//@   label C34.total.end.removed
//@   ensures !(task.ID in t.inflightTasks)
//@   label C34.total.end.others
//@   ensures forall k uint64 :: k != task.ID ==> ((k in t.inflightTasks) <==> old(k in t.inflightTasks)) && t.inflightTasks[k] == old(t.inflightTasks[k])
//@   label C34.total.end.frame
//@   ensures t.inflightTasks == old(t.inflightTasks) && t.filter == old(t.filter)
//@   assigns t.totalTime, elems(t.inflightTasks)

// ---------- AverageTimeTracer: AverageTime() == floor(Σ durations / count), TotalCount() == count ----------
//
// c34AvgSum is a logical variable: the exact sum S of the durations of the tasks ended so far.  The tracer keeps that sum
// in t.totalTime (representation invariant: int(t.totalTime) == S) and reports averageTime.  "The tracer reports
// floor(S / n)" is avg*n <= S < (avg+1)*n (n > 0); with n == 0 nothing has ended, S == 0 and the tracer reports 0.
// EndTask of a tracked task with duration d must re-establish this for S + d and n + 1, whatever S was.

//@ ghost var c34AvgSum int

//@ pred c34AvgExact(avg, n, s) = n >= 0 && s >= 0 && (n == 0 ? (avg == 0 && s == 0) : (avg * n <= s && s < (avg + 1) * n))

//@ fn NewAverageTimeTracer
//@   property C34
//@   label C34.avg.new
//@   ensures result != nil && fresh(result) && result.inflightTasks != nil && len(result.inflightTasks) == 0 && result.filter == filter
//@   label C34.avg.new.exact
//@   ensures c34AvgExact(int(result.averageTime), int(result.taskCount), 0) && result.taskCount == 0 && result.totalTime == 0
//@   label C34.avg.new.empty
//@   ensures forall k uint64 :: !(k in result.inflightTasks)
//@   assigns nothing

//@ fn (*AverageTimeTracer).AverageTime
//@   property C34
//@   label C34.avg.get
//@   ensures result == t.averageTime
//@   assigns nothing

//@ fn (*AverageTimeTracer).TotalCount
//@   property C34
//@   label C34.avg.count.get
//@   ensures result == t.taskCount
//@   assigns nothing

//@ fn (*AverageTimeTracer).EndTask
//@   property C34
//@   requires t.inflightTasks != nil && t.taskCount < MaxUint64
//@   requires int(t.totalTime) == c34AvgSum                                              // the stored sum is the exact sum so far
//@   requires c34AvgExact(int(t.averageTime), int(t.taskCount), c34AvgSum)               // the reported average is exact so far
//@   requires (task.ID in t.inflightTasks) ==> t.inflightTasks[task.ID] <= task.Time     // events arrive in time order
//@   requires (task.ID in t.inflightTasks) ==> c34AvgSum + int(task.Time) - int(t.inflightTasks[task.ID]) <= MaxUint64
//@   label C34.avg.end.floor
//@   ensures old(task.ID in t.inflightTasks) ==> c34AvgExact(int(t.averageTime), int(t.taskCount), c34AvgSum + (int(task.Time) - int(old(t.inflightTasks[task.ID]))))
//@   label C34.avg.end.sum
//@   ensures old(task.ID in t.inflightTasks) ==> int(t.totalTime) == c34AvgSum + (int(task.Time) - int(old(t.inflightTasks[task.ID])))
//@   label C34.avg.end.count
//@   ensures old(task.ID in t.inflightTasks) ==> int(t.taskCount) == int(old(t.taskCount)) + 1
//@   label C34.avg.end.untracked
//@   ensures !old(task.ID in t.inflightTasks) ==> t.averageTime == old(t.averageTime) && t.taskCount == old(t.taskCount) && t.totalTime == old(t.totalTime)
//@   label C34.avg.end.removed
//@   ensures !(task.ID in t.inflightTasks)
//@   label C34.avg.end.others
//@   ensures forall k uint64 :: k != task.ID ==> ((k in t.inflightTasks) <==> old(k in t.inflightTasks)) && t.inflightTasks[k] == old(t.inflightTasks[k])
//@   label C34.avg.end.frame
//@   ensures t.inflightTasks == old(t.inflightTasks) && t.filter == old(t.filter)
//@   assigns t.averageTime, t.totalTime, t.taskCount, elems(t.inflightTasks)

// ---------- TagCountTracer: per tag name, #tags recorded and #distinct tracked tasks that carried it ----------
//
// inflightTasks[id] is the set of tag names already seen on tracked task id (one set per task, never shared).
// AddTaskTag(tag): tagCount[What] grows by one — always; taskWithTagCount[What] grows by one iff the task is tracked
// and What was not yet in its set (so a task is counted once per tag name, however many tags it carries).

//@ pred c34TagWF(t) = t.inflightTasks != nil && t.tagCount != nil && t.taskWithTagCount != nil && t.tagCount != t.taskWithTagCount && (forall k uint64 :: k in t.inflightTasks ==> t.inflightTasks[k] != nil) && (forall k uint64, j uint64 :: k in t.inflightTasks && j in t.inflightTasks && k != j ==> t.inflightTasks[k] != t.inflightTasks[j])

//@ fn NewTagCountTracer
//@   property C34
//@   label C34.tag.new
//@   ensures result != nil && fresh(result) && result.filter == filter && len(result.tagNames) == 0 && len(result.inflightTasks) == 0 && len(result.tagCount) == 0 && len(result.taskWithTagCount) == 0
//@   label C34.tag.new.empty
//@   ensures (forall k uint64 :: !(k in result.inflightTasks)) && (forall w string :: !(w in result.tagCount) && !(w in result.taskWithTagCount))
//@   label C34.tag.new.wf
//@   ensures c34TagWF(result)
//@   assigns nothing

//@ fn (*TagCountTracer).GetTagCount
//@   property C34
//@   label C34.tag.getcount
//@   ensures result == ((tagName in t.tagCount) ? t.tagCount[tagName] : 0)
//@   assigns nothing

//@ fn (*TagCountTracer).GetTaskCount
//@   property C34
//@   label C34.tag.gettasks
//@   ensures result == ((tagName in t.taskWithTagCount) ? t.taskWithTagCount[tagName] : 0)
//@   assigns nothing

//@ fn (*TagCountTracer).AddTaskTag
//@   property C34
//@   requires c34TagWF(t)
//@   requires (tag.What in t.tagCount) ==> t.tagCount[tag.What] < MaxUint64
//@   requires (tag.What in t.taskWithTagCount) ==> t.taskWithTagCount[tag.What] < MaxUint64
//@   label C34.tag.add.count
//@   ensures (tag.What in t.tagCount) && int(t.tagCount[tag.What]) == (old(tag.What in t.tagCount) ? int(old(t.tagCount[tag.What])) : 0) + 1
//@   label C34.tag.add.count.others
//@   ensures forall w string :: w != tag.What ==> ((w in t.tagCount) <==> old(w in t.tagCount)) && t.tagCount[w] == old(t.tagCount[w])
//@   label C34.tag.add.tasks.first
//@   ensures old((tag.TaskID in t.inflightTasks) && !((tag.What in t.inflightTasks[tag.TaskID]) && t.inflightTasks[tag.TaskID][tag.What])) ==> (tag.What in t.taskWithTagCount) && int(t.taskWithTagCount[tag.What]) == (old(tag.What in t.taskWithTagCount) ? int(old(t.taskWithTagCount[tag.What])) : 0) + 1
//@   label C34.tag.add.tasks.again
//@   ensures !old((tag.TaskID in t.inflightTasks) && !((tag.What in t.inflightTasks[tag.TaskID]) && t.inflightTasks[tag.TaskID][tag.What])) ==> ((tag.What in t.taskWithTagCount) <==> old(tag.What in t.taskWithTagCount)) && t.taskWithTagCount[tag.What] == old(t.taskWithTagCount[tag.What])
//@   label C34.tag.add.tasks.others
//@   ensures forall w string :: w != tag.What ==> ((w in t.taskWithTagCount) <==> old(w in t.taskWithTagCount)) && t.taskWithTagCount[w] == old(t.taskWithTagCount[w])
//@   label C34.tag.add.seen
//@   ensures (tag.TaskID in t.inflightTasks) ==> (tag.What in t.inflightTasks[tag.TaskID]) && t.inflightTasks[tag.TaskID][tag.What]
//@   label C34.tag.add.seen.others
//@   ensures forall k uint64, w string :: (k in t.inflightTasks) && (k != tag.TaskID || w != tag.What) ==> ((w in t.inflightTasks[k]) <==> old(w in t.inflightTasks[k])) && t.inflightTasks[k][w] == old(t.inflightTasks[k][w])
//@   label C34.tag.add.tracked
//@   ensures forall k uint64 :: ((k in t.inflightTasks) <==> old(k in t.inflightTasks)) && t.inflightTasks[k] == old(t.inflightTasks[k])
//@   label C34.tag.add.names.new
//@   ensures !old(tag.What in t.tagCount) ==> len(t.tagNames) == old(len(t.tagNames)) + 1 && t.tagNames[old(len(t.tagNames))] == tag.What
//@   label C34.tag.add.names.known
//@   ensures old(tag.What in t.tagCount) ==> len(t.tagNames) == old(len(t.tagNames))
//@   label C34.tag.add.names.prefix
//@   ensures forall i in 0..old(len(t.tagNames)) :: t.tagNames[i] == old(t.tagNames[i])
//@   label C34.tag.add.wf
//@   ensures c34TagWF(t) && t.inflightTasks == old(t.inflightTasks) && t.tagCount == old(t.tagCount) && t.taskWithTagCount == old(t.taskWithTagCount) && t.filter == old(t.filter)
//@   assigns t.tagNames, elems(t.tagNames), elems(t.tagCount), elems(t.taskWithTagCount), elems(t.inflightTasks[tag.TaskID])

//@ fn (*TagCountTracer).EndTask
//@   property C34
//@   requires c34TagWF(t)
//@   label C34.tag.end.removed
//@   ensures !(task.ID in t.inflightTasks)
//@   label C34.tag.end.others
//@   ensures forall k uint64 :: k != task.ID ==> ((k in t.inflightTasks) <==> old(k in t.inflightTasks)) && t.inflightTasks[k] == old(t.inflightTasks[k])
//@   label C34.tag.end.wf
//@   ensures c34TagWF(t) && t.inflightTasks == old(t.inflightTasks)
//@   assigns elems(t.inflightTasks)

//@ fn (*TagCountTracer).GetTagNames
//@   property C34
//@   label C34.tag.names.copy
//@   ensures len(result) == len(t.tagNames) && fresh(result) && (forall i in 0..len(t.tagNames) :: result[i] == t.tagNames[i])
//@   assigns nothing

// ---------- BusyTimeTracer: BusyTime() == length of the union of the tracked tasks' intervals ----------

//@ pred c34Ivl(x) = x != nil && x.start <= x.end

//@ fn (*BusyTimeTracer).BusyTime
//@   property C34
//@   label C34.busy.get
//@   ensures result == t.busyTime
//@   assigns nothing

// two closed intervals intersect iff each starts no later than the other ends
//@ fn (*BusyTimeTracer).taskTimeOverlap
//@   property C34
//@   requires c34Ivl(t1) && c34Ivl(t2)
//@   label C34.busy.overlap
//@   ensures result <==> (t1.start <= t2.end && t2.start <= t1.end)
//@   assigns nothing

//@ fn (*BusyTimeTracer).extendTaskTime
//@   property C34
//@   requires base != nil && t2 != nil
//@   label C34.busy.extend
//@   ensures base.start == min(old(base.start), old(t2.start)) && base.end == max(old(base.end), old(t2.end))
//@   label C34.busy.extend.frame
//@   ensures base != t2 ==> t2.start == old(t2.start) && t2.end == old(t2.end)
//@   label C34.busy.extend.completed
//@   ensures base.completed == old(base.completed)
//@   assigns base.start, base.end

// taskBusyTime(tasks) must return |⋃ [start_i, end_i]| (the measure of the union).  The spec language has no recursive
// spec functions, so the union measure of an UNBOUNDED list cannot be written; it is stated here in closed form
// (inclusion–exclusion over interval intersections) for len(tasks) <= 3 — a BOUNDED stand-in, labelled so.
// The loop invariants describe exactly what the code computes for up to three tasks (which task is the "leader" of a
// group, which tasks it absorbs, the hull of the group), so every state the solver considers at a loop head is a
// reachable one and a counterexample to the postcondition is a real run.  (Before fix 476a2936 the n3 clause failed
// with chained intervals such as [0,2],[1,4],[3,5]; selftest canary C34_prefix_busy_leader_only restores that code.)

//@ func c34S(ts, k) = int(ts[k].start)
//@ func c34E(ts, k) = int(ts[k].end)
//@ func c34Len(ts, k) = c34E(ts, k) - c34S(ts, k)
//@ func c34I2(ts, a, b) = max(0, min(c34E(ts, a), c34E(ts, b)) - max(c34S(ts, a), c34S(ts, b)))
//@ func c34I3(ts) = max(0, min(c34E(ts, 0), min(c34E(ts, 1), c34E(ts, 2))) - max(c34S(ts, 0), max(c34S(ts, 1), c34S(ts, 2))))
//@ func c34Union2(ts) = c34Len(ts, 0) + c34Len(ts, 1) - c34I2(ts, 0, 1)
//@ func c34Union3(ts) = c34Len(ts, 0) + c34Len(ts, 1) + c34Len(ts, 2) - c34I2(ts, 0, 1) - c34I2(ts, 0, 2) - c34I2(ts, 1, 2) + c34I3(ts)

// what the code does (used in invariants only):
//@ pred c34Ov(ts, a, b) = c34S(ts, a) <= c34E(ts, b) && c34S(ts, b) <= c34E(ts, a)
// group of leader 0: task 1 joins iff it meets task 0; task 2 joins iff it meets the interval extended so far
//@ pred c34M01(ts) = c34Ov(ts, 0, 1)
//@ pred c34M02(ts) = (c34M01(ts) ? min(c34S(ts, 0), c34S(ts, 1)) : c34S(ts, 0)) <= c34E(ts, 2) && c34S(ts, 2) <= (c34M01(ts) ? max(c34E(ts, 0), c34E(ts, 1)) : c34E(ts, 0))
//@ pred c34Abs(ts, l, j) = l == 0 ? (j == 1 ? c34M01(ts) : (j == 2 && c34M02(ts))) : (l == 1 && j == 2 && c34Ov(ts, 1, 2))
//@ pred c34L1(ts) = !c34M01(ts)
//@ pred c34L2(ts) = !c34M02(ts) && !(c34L1(ts) && c34Ov(ts, 1, 2))
//@ pred c34Cov(ts, r, j) = j <= r || (0 <= r && c34Abs(ts, 0, j)) || (1 <= r && c34L1(ts) && c34Abs(ts, 1, j))     // (a third leader can only cover itself)
//@ pred c34Mem(ts, l, j, q) = j <= q && j > l && !c34Cov(ts, l - 1, j) && c34Abs(ts, l, j)
//@ func c34Lo(ts, l, q) = min(c34S(ts, l), min((c34Mem(ts, l, 1, q) ? c34S(ts, 1) : c34S(ts, l)), (c34Mem(ts, l, 2, q) ? c34S(ts, 2) : c34S(ts, l))))     // (task 0 is never absorbed)
//@ func c34Hi(ts, l, q) = max(c34E(ts, l), max((c34Mem(ts, l, 1, q) ? c34E(ts, 1) : c34E(ts, l)), (c34Mem(ts, l, 2, q) ? c34E(ts, 2) : c34E(ts, l))))
//@ func c34Hull(ts, l, n) = c34Hi(ts, l, n - 1) - c34Lo(ts, l, n - 1)
//@ func c34B(ts, r, n) = (0 <= r ? c34Hull(ts, 0, n) : 0) + ((1 <= r && c34L1(ts)) ? c34Hull(ts, 1, n) : 0) + ((2 <= r && c34L2(ts)) ? c34Len(ts, 2) : 0)

// the tasks are pre-existing objects that the function never writes (the loops only write the local extTime copy)
//@ pred c34Stable(ts, k) = k < len(ts) ==> ts[k] == old(ts[k]) && !fresh(ts[k]) && ts[k].start == old(ts[k].start) && ts[k].end == old(ts[k].end)

//@ fn (*BusyTimeTracer).taskBusyTime
//@   property C34
//@   bounded len(tasks) <= 3: the union measure is stated in closed form (inclusion-exclusion); an unbounded statement needs recursive spec functions
//@   requires len(tasks) <= 3
//@   requires 0 < len(tasks) ==> c34Ivl(tasks[0]) && tasks[0].end <= 1<<61 && tasks[0] <= allocTop   // (allocated objects: holds for every pointer value)
//@   requires 1 < len(tasks) ==> c34Ivl(tasks[1]) && tasks[1].end <= 1<<61 && tasks[1] <= allocTop   // (allocated objects: holds for every pointer value)
//@   requires 2 < len(tasks) ==> c34Ivl(tasks[2]) && tasks[2].end <= 1<<61 && tasks[2] <= allocTop   // (allocated objects: holds for every pointer value)
//@   requires (1 < len(tasks) ==> tasks[0].start <= tasks[1].start) && (2 < len(tasks) ==> tasks[1].start <= tasks[2].start)   // list order = StartTask order = time order
//@   label C34.busy.union.n0
//@   ensures len(tasks) == 0 ==> result == 0
//@   label C34.busy.union.n1
//@   ensures len(tasks) == 1 ==> int(result) == c34Len(tasks, 0)
//@   label C34.busy.union.n2
//@   ensures len(tasks) == 2 ==> int(result) == c34Union2(tasks)
//@   label C34.busy.union.n3
//@   ensures len(tasks) == 3 ==> int(result) == c34Union3(tasks)
//@   label C34.busy.union.inputs.unchanged
//@   ensures c34Stable(tasks, 0) && c34Stable(tasks, 1) && c34Stable(tasks, 2)
// Frame: the assigns clause below names whole heap arrays (all taskTimeStartEnd fields, all map[int]bool maps) instead of
// `assigns nothing`.  `assigns nothing` also verifies (every frame obligation discharges), but the engine then adds
// quantified frame axioms at the loop heads under which no solver can produce a model, so a broken loop body comes
// back `unknown` instead of `failed`.  What callers need — the task objects are not modified — is the explicit
// postcondition above; the writes themselves only hit the fresh coveredMask and the local extTime.
//@   assigns key("O|tracing.taskTimeStartEnd|"), key("M|map[int]bool|")
//@   label C34.busy.inv.outer.shape
//@   loop 0: invariant -1 <= rangeindex && rangeindex < len(tasks) && coveredMask != nil && fresh(coveredMask)
//@   label C34.busy.inv.outer.covered
//@   loop 0: invariant (0 < len(tasks) ==> ((0 in coveredMask) <==> c34Cov(tasks, rangeindex, 0))) && (1 < len(tasks) ==> ((1 in coveredMask) <==> c34Cov(tasks, rangeindex, 1))) && (2 < len(tasks) ==> ((2 in coveredMask) <==> c34Cov(tasks, rangeindex, 2)))
//@   label C34.busy.inv.outer.inputs
//@   loop 0: invariant c34Stable(tasks, 0) && c34Stable(tasks, 1) && c34Stable(tasks, 2)
//@   label C34.busy.inv.outer.sum
//@   loop 0: invariant int(busyTime) == c34B(tasks, rangeindex, len(tasks))
//@   label C34.busy.inv.inner.shape
//@   loop 1: invariant -1 <= rangeindex && rangeindex < len(tasks) && 0 <= i && i < len(tasks) && t1 == tasks[i] && !c34Cov(tasks, i - 1, i) && coveredMask != nil && fresh(coveredMask)
//@   label C34.busy.inv.inner.covered
//@   loop 1: invariant (0 < len(tasks) ==> ((0 in coveredMask) <==> (c34Cov(tasks, i - 1, 0) || 0 == i || c34Mem(tasks, i, 0, rangeindex)))) && (1 < len(tasks) ==> ((1 in coveredMask) <==> (c34Cov(tasks, i - 1, 1) || 1 == i || c34Mem(tasks, i, 1, rangeindex)))) && (2 < len(tasks) ==> ((2 in coveredMask) <==> (c34Cov(tasks, i - 1, 2) || 2 == i || c34Mem(tasks, i, 2, rangeindex))))
//@   label C34.busy.inv.inner.hull
//@   loop 1: invariant int(extTime.start) == c34Lo(tasks, i, rangeindex) && int(extTime.end) == c34Hi(tasks, i, rangeindex)
//@   label C34.busy.inv.inner.inputs
//@   loop 1: invariant c34Stable(tasks, 0) && c34Stable(tasks, 1) && c34Stable(tasks, 2) && fresh(extTime)
//@   label C34.busy.inv.inner.sum
//@   loop 1: invariant int(busyTime) == c34B(tasks, i - 1, len(tasks))

// ---- BusyTimeTracer event handlers: the task list is a container/list; its TRUSTED sequence model (ghost llen / lseq /
// lown / lpos, contracts of New/PushBack/Remove/Front/Next) is the one given in contracts/mem/vm/zz_contracts_C26_verif.go;
// the ghost variables are declared here too because ghost state is per package.
//@ ghost var llen map
//@ ghost var lseq map2
//@ ghost var lown map
//@ ghost var lpos map

//@ func c34Task(e) = as(e.Value, "*taskTimeStartEnd")

// StartTask without a filter (every task is tracked): the task is appended to the list as an open interval starting now.
//@ fn (*BusyTimeTracer).StartTask
//@   property C34
//@   requires t.filter == nil && t.taskTimes != nil && t.inflightTasks != nil
//@   label C34.busy.start.tracked
//@   ensures (task.ID in t.inflightTasks) && t.inflightTasks[task.ID] != nil && t.inflightTasks[task.ID] == lseq[t.taskTimes][old(llen)[t.taskTimes]] && llen[t.taskTimes] == old(llen)[t.taskTimes] + 1
//@   label C34.busy.start.interval
//@   ensures hastype(t.inflightTasks[task.ID].Value, "*taskTimeStartEnd") && fresh(c34Task(t.inflightTasks[task.ID])) && c34Task(t.inflightTasks[task.ID]).start == task.Time && !c34Task(t.inflightTasks[task.ID]).completed
//@   label C34.busy.start.others
//@   ensures forall k uint64 :: k != task.ID ==> ((k in t.inflightTasks) <==> old(k in t.inflightTasks)) && t.inflightTasks[k] == old(t.inflightTasks[k])
//@   label C34.busy.start.frame
//@   ensures t.busyTime == old(t.busyTime) && t.taskTimes == old(t.taskTimes) && t.inflightTasks == old(t.inflightTasks)
//@   assigns elems(t.inflightTasks), llen, lseq, lown, lpos

// c34Elem(t, i): the i-th element of the tracer's task list, viewed as a *list.Element (the conditional only types the ghost integer)
//@ func c34Elem(t, i) = true ? lseq[t.taskTimes][i] : t.inflightTasks[0]
//@ pred c34ListWF(t) = t.taskTimes != nil && llen[t.taskTimes] >= 0 && (forall i in 0..llen[t.taskTimes] :: c34Elem(t, i) != nil && lown[c34Elem(t, i)] == t.taskTimes && lpos[c34Elem(t, i)] == i && hastype(c34Elem(t, i).Value, "*taskTimeStartEnd") && c34Task(c34Elem(t, i)) != nil)

// the start time of the first task (in list order = start order) that has not ended, if any
//@ fn (*BusyTimeTracer).startTimeOfFirstImcompleteTask
//@   property C34
//@   requires c34ListWF(t)
//@   label C34.busy.firstopen.none
//@   ensures (forall i in 0..llen[t.taskTimes] :: c34Task(c34Elem(t, i)).completed) ==> !result1 && result0 == 0
//@   label C34.busy.firstopen.found
//@   ensures forall p in 0..llen[t.taskTimes] :: (!c34Task(c34Elem(t, p)).completed && (forall i in 0..p :: c34Task(c34Elem(t, i)).completed)) ==> result1 && result0 == c34Task(c34Elem(t, p)).start
//@   assigns nothing
//@   loop 0: invariant e != nil ==> lown[e] == t.taskTimes && 0 <= lpos[e] && lpos[e] < llen[t.taskTimes] && c34Elem(t, lpos[e]) == e
//@   loop 0: invariant forall i in 0..(e == nil ? llen[t.taskTimes] : lpos[e]) :: c34Task(c34Elem(t, i)).completed

// TRUSTED (standard library): Init on an EMPTY list leaves it empty and returns it (the only use here: right after list.New()).
//@ ext container/list.(*List).Init(l)
//@   trusted
//@   requires l != nil && llen[l] == 0
//@   ensures result == l
//@   assigns nothing

// the empty stream: nothing tracked, empty task list, zero busy time
//@ fn NewBusyTimeTracer
//@   property C34
//@   label C34.busy.new
//@   ensures result != nil && fresh(result) && result.busyTime == 0 && result.filter == filter && result.inflightTasks != nil && len(result.inflightTasks) == 0 && result.taskTimes != nil && fresh(result.taskTimes) && llen[result.taskTimes] == 0
//@   label C34.busy.new.wf
//@   ensures c34ListWF(result) && (forall k uint64 :: !(k in result.inflightTasks))
//@   assigns llen

// ---- NOT under contract (engine limits, see the C34 report) ----
// * (*TotalTimeTracer).StartTask, (*AverageTimeTracer).StartTask, (*TagCountTracer).StartTask, and BusyTimeTracer.StartTask
//   with a non-nil filter: they call t.filter(task), a function VALUE; the engine has no contracts for function values
//   ("call to function value has no contract": whole heap havocked, frame obligation fails).  The EndTask/AddTaskTag
//   contracts above therefore take "the task is tracked" as `id in t.inflightTasks`.
// * (*BusyTimeTracer).collapse / EndTask / TerminateAllTasks: collapse calls taskBusyTime, whose contract is bounded
//   (len <= 3) with a coarse frame (see there), so a caller could only be verified for lists of at most three tasks.
