//go:build verif

// Contracts for package tracing, property C33 (comment-only; read by /verif/engine, never compiled into a build).
package tracing

// ---- C33: observing a simulation does not change it -- the per-call part: non-interference as FRAMES ----
//
// The statement is a two-run hyperproperty (same outcome with and without observers); per-call contracts cannot decide it.
// What is decided here, on the real code of tracing/api.go and tracing/tracehook.go:
//   (a) every helper `assigns` only OBSERVER-OWNED state: the ghost view of the hook invocations (c33Hook*), the hook list of
//       the domain (c33Hooks, CollectTrace only), the tracing package's own registries (C32's ghost view c32Recv / c32InBuf /
//       c32OutBuf of registry.go) and the ID generator (c33Drawn / c33Issued + its counter objects);
//   (b) with no hook attached (NumHooks() == 0) NOTHING is assigned (nothingAssigned()), no hook is invoked, no ID is drawn
//       and the value returned to the simulation is the constant 0;
//   (c) with a hook attached, exactly one hook invocation is made, carrying the caller's task fields, and an ID is drawn only
//       where the documentation says so (tag / milestone with ID 0; first registry lookup of a (domain, message)).
// RELY (trusted, stated once here): an attached hook is an arbitrary callback, assumed NOT to write the hookable, the caller
// or any simulation state (same assumption as hooking.(*HookableBase).InvokeHook `assigns nothing` in
// /verif/contracts/hooking/zz_contracts_verif.go); NumHooks / CurrentTime / Name / Hooks only read.
// The nil-interface dereference `domain.NumHooks()` with domain == nil is not modelled by the engine (no obligation).
//
// Ghost view (shared with zz_contracts_C32_verif.go, which reuses these names):
//   c33Hooks[ifaceval(d)]   number of hooks attached to domain d (what NumHooks() returns; changed by AcceptHook only)
//   c33HookN                number of InvokeHook calls so far; entry n of the log: c33HookDom[n] (domain), c33HookPos[n]
//                           (position), c33HookTyp[n]/c33HookVal[n] (dynamic type and boxed value of ctx.Item)
//   c33Drawn / c33Issued    how many IDs were drawn from timing.GetIDGenerator() / which ones
//@ ghost var c33Hooks map
//@ ghost var c33HookN int
//@ ghost var c33HookDom map
//@ ghost var c33HookPos map
//@ ghost var c33HookTyp map
//@ ghost var c33HookVal map
//@ ghost var c33Drawn int
//@ ghost var c33Issued set

//@ ufunc c33Now(d) int
//@ ufunc c33Name(d) int
//@ ufunc c33MsgID(m) int
//@ ufunc c33MsgRspTo(m) int

// TRUSTED interface methods of the domain (any component / port / buffer): pure observers of the domain.
//@ iface tracing.NamedHookable.NumHooks()
//@   trusted
//@   pure
//@   ensures result == c33Hooks[ifaceval(self)] && result >= 0

//@ iface tracing.NamedHookable.CurrentTime()
//@   trusted
//@   pure
//@   ensures result == c33Now(self)

//@ iface tracing.NamedHookable.Name()
//@   trusted
//@   pure
//@   ensures result == c33Name(self)

// TRUSTED: the hooks themselves (arbitrary callbacks). RELY: they write nothing but their own (observer) state, which is
// abstracted by the ghost log.
//@ iface tracing.NamedHookable.InvokeHook(ctx)
//@   trusted
//@   ensures c33HookN == old(c33HookN) + 1
//@   ensures c33HookDom == upd(old(c33HookDom), old(c33HookN), ifaceval(self))
//@   ensures c33HookPos == upd(old(c33HookPos), old(c33HookN), ctx.Pos)
//@   ensures c33HookTyp == upd(old(c33HookTyp), old(c33HookN), typeid(ctx.Item))
//@   ensures c33HookVal == upd(old(c33HookVal), old(c33HookN), ifaceval(ctx.Item))
//@   assigns c33HookN, c33HookDom, c33HookPos, c33HookTyp, c33HookVal

//@ iface messaging.Msg.Meta()
//@   trusted
//@   pure
//@   panics typeid(self) == 0
//@   ensures result.ID == c33MsgID(self) && result.RspTo == c33MsgRspTo(self)

// TRUSTED (interface; both implementations only bump their own counter, property C41).
//@ iface timing.IDGenerator.Generate()
//@   trusted
//@   ensures c33Drawn == old(c33Drawn) + 1
//@   ensures !old(c33Issued)[result] && c33Issued == upd(old(c33Issued), result, true)
//@   assigns c33Drawn, c33Issued, key("O|timing.sequentialIDGenerator|nextID"), key("O|timing.parallelIDGenerator|nextID")

//@ pred c33IDGenOK() = timing.idGeneratorInstantiated ==> timing.idGenerator != nil
//@ pred c33NoHookLogged() = c33HookN == old(c33HookN) && c33HookDom == old(c33HookDom) && c33HookPos == old(c33HookPos) && c33HookTyp == old(c33HookTyp) && c33HookVal == old(c33HookVal)
//@ pred c33OneHook(domain, pos) = c33HookN == old(c33HookN) + 1 && c33HookDom[old(c33HookN)] == ifaceval(domain) && c33HookPos[old(c33HookN)] == pos
//@ func c33Item(n) = mkiface(c33HookTyp[n], c33HookVal[n])

//@ fn singleKindLocation
//@   property C33
//@   label C33.loc.pipeline
//@   ensures kind == PipelineTaskKind ==> result == what
//@   label C33.loc.other
//@   ensures kind != PipelineTaskKind && kind != ReqInTaskKind && kind != ReqOutTaskKind ==> result == componentName
//@   assigns nothing

//@ fn allRequiredFieldsMustBeNotEmpty
//@   property C33
//@   panics id == 0 || typeid(domain) == 0 || kind == "" || what == ""
//@   assigns nothing

//@ fn domainMustHaveName
//@   property C33
//@   panics c33Name(domain) == ""
//@   assigns nothing

//@ fn EndTask
//@   property C33
//@   label C33.end.nohook
//@   ensures c33Hooks[ifaceval(domain)] == 0 ==> nothingAssigned() && c33NoHookLogged()
//@   label C33.end.hook
//@   ensures c33Hooks[ifaceval(domain)] != 0 ==> c33OneHook(domain, HookPosTaskEnd) && hastype(c33Item(old(c33HookN)), "TaskEnd") && as(c33Item(old(c33HookN)), "TaskEnd").ID == t.ID && as(c33Item(old(c33HookN)), "TaskEnd").Time == c33Now(domain)
//@   label C32.kept.end
//@   ensures c32LogKept()
//@   label C33.end.noid
//@   ensures c33Drawn == old(c33Drawn)
//@   assigns c33HookN, c33HookDom, c33HookPos, c33HookTyp, c33HookVal

//@ func c33H(domain) = c33Hooks[ifaceval(domain)]
//@ func c33Last() = c33Item(old(c33HookN))

//@ fn StartTask
//@   property C33
//@   panics c33H(domain) != 0 && (typeid(domain) == 0 || t.ID == 0 || t.Kind == "" || t.What == "" || c33Name(domain) == "")
//@   label C33.start.nohook
//@   ensures c33H(domain) == 0 ==> nothingAssigned() && c33NoHookLogged()
//@   label C33.start.hook
//@   ensures c33H(domain) != 0 ==> c33OneHook(domain, HookPosTaskStart) && hastype(c33Last(), "TaskStart")
//@   label C33.start.item
//@   ensures c33H(domain) != 0 ==> as(c33Last(), "TaskStart").ID == t.ID && as(c33Last(), "TaskStart").ParentID == t.ParentID && as(c33Last(), "TaskStart").Kind == t.Kind && as(c33Last(), "TaskStart").What == t.What && as(c33Last(), "TaskStart").Time == c33Now(domain)
//@   label C33.start.location
//@   ensures c33H(domain) != 0 ==> as(c33Last(), "TaskStart").Location == (old(t.Location) != "" ? old(t.Location) : (t.Kind == PipelineTaskKind ? t.What : ((t.Kind == ReqInTaskKind || t.Kind == ReqOutTaskKind) ? as(c33Last(), "TaskStart").Location : c33Name(domain))))
//@   label C32.kept.start
//@   ensures c32LogKept()
//@   label C33.start.noid
//@   ensures c33Drawn == old(c33Drawn) && c33Issued == old(c33Issued)
//@   assigns c33HookN, c33HookDom, c33HookPos, c33HookTyp, c33HookVal

//@ fn AddTaskTag
//@   property C33
//@   requires c33IDGenOK()
//@   label C33.tag.nohook
//@   ensures c33H(domain) == 0 ==> nothingAssigned() && c33NoHookLogged() && c33Drawn == old(c33Drawn) && c33Issued == old(c33Issued)
//@   label C33.tag.hook
//@   ensures c33H(domain) != 0 ==> c33OneHook(domain, HookPosTaskTag) && hastype(c33Last(), "TaskTag")
//@   label C33.tag.item
//@   ensures c33H(domain) != 0 ==> as(c33Last(), "TaskTag").TaskID == tag.TaskID && as(c33Last(), "TaskTag").What == tag.What && as(c33Last(), "TaskTag").Time == c33Now(domain)
//@   label C33.tag.id.given
//@   ensures c33H(domain) != 0 && old(tag.ID) != 0 ==> as(c33Last(), "TaskTag").ID == old(tag.ID) && c33Drawn == old(c33Drawn) && c33Issued == old(c33Issued)
//@   label C33.tag.id.drawn
//@   ensures c33H(domain) != 0 && old(tag.ID) == 0 ==> c33Drawn == old(c33Drawn) + 1 && !old(c33Issued)[as(c33Last(), "TaskTag").ID] && c33Issued == upd(old(c33Issued), as(c33Last(), "TaskTag").ID, true)
//@   label C32.kept.tag
//@   ensures c32LogKept()
//@   label C33.tag.idgen
//@   ensures c33IDGenOK()
//@   assigns c33HookN, c33HookDom, c33HookPos, c33HookTyp, c33HookVal, c33Drawn, c33Issued, key("G|github.com/sarchlab/akita/v5/timing.idGenerator|"), key("G|github.com/sarchlab/akita/v5/timing.idGeneratorInstantiated|"), key("O|timing.sequentialIDGenerator|nextID"), key("O|timing.parallelIDGenerator|nextID")

//@ fn AddMilestone
//@   property C33
//@   requires c33IDGenOK()
//@   label C33.ms.nohook
//@   ensures c33H(domain) == 0 ==> nothingAssigned() && c33NoHookLogged() && c33Drawn == old(c33Drawn) && c33Issued == old(c33Issued)
//@   label C33.ms.hook
//@   ensures c33H(domain) != 0 ==> c33OneHook(domain, HookPosMilestone) && hastype(c33Last(), "Milestone")
//@   label C33.ms.item
//@   ensures c33H(domain) != 0 ==> as(c33Last(), "Milestone").TaskID == m.TaskID && as(c33Last(), "Milestone").What == m.What && as(c33Last(), "Milestone").Kind == m.Kind && as(c33Last(), "Milestone").Time == c33Now(domain)
//@   label C33.ms.id.given
//@   ensures c33H(domain) != 0 && old(m.ID) != 0 ==> as(c33Last(), "Milestone").ID == old(m.ID) && c33Drawn == old(c33Drawn) && c33Issued == old(c33Issued)
//@   label C33.ms.id.drawn
//@   ensures c33H(domain) != 0 && old(m.ID) == 0 ==> c33Drawn == old(c33Drawn) + 1 && !old(c33Issued)[as(c33Last(), "Milestone").ID] && c33Issued == upd(old(c33Issued), as(c33Last(), "Milestone").ID, true)
//@   label C32.kept.ms
//@   ensures c32LogKept()
//@   label C33.ms.idgen
//@   ensures c33IDGenOK()
//@   assigns c33HookN, c33HookDom, c33HookPos, c33HookTyp, c33HookVal, c33Drawn, c33Issued, key("G|github.com/sarchlab/akita/v5/timing.idGenerator|"), key("G|github.com/sarchlab/akita/v5/timing.idGeneratorInstantiated|"), key("O|timing.sequentialIDGenerator|nextID"), key("O|timing.parallelIDGenerator|nextID")

// ---- tracehook.go: CollectTrace attaches one hook to the domain and does nothing else ----
// TRUSTED: Hooks() returns a fresh copy of the hook list (hooks in it are non-nil objects); AcceptHook appends (its duplicate
// check cannot fire: the hook object is freshly allocated by CollectTrace).
//@ ufunc c33HTyp(d, i) int
//@ ufunc c33HVal(d, i) int
//@ func c33HookAt(d, i) = mkiface(c33HTyp(d, i), c33HVal(d, i))
//@ pred c33Traces(d, i, tracer) = hastype(c33HookAt(d, i), "*traceHook") && as(c33HookAt(d, i), "*traceHook").t == tracer
//@ iface tracing.NamedHookable.Hooks()
//@   trusted
//@   ensures fresh(result) && len(result) == c33Hooks[ifaceval(self)]
//@   ensures forall i in 0..len(result) :: typeid(result[i]) == c33HTyp(self, i) && ifaceval(result[i]) == c33HVal(self, i) && (hastype(result[i], "*traceHook") ==> as(result[i], "*traceHook") != nil)
//@   assigns nothing

//@ iface tracing.NamedHookable.AcceptHook(hook)
//@   trusted
//@   ensures c33Hooks == upd(old(c33Hooks), ifaceval(self), old(c33Hooks)[ifaceval(self)] + 1)
//@   assigns c33Hooks

//@ fn CollectTrace
//@   property C33
//@   panics exists i in 0..c33H(domain) :: c33Traces(domain, i, tracer)
//@   loop 0: invariant -1 <= rangeindex && rangeindex < len(hooks) && len(hooks) == c33H(domain)
//@   loop 0: invariant forall j in 0..rangeindex + 1 :: !c33Traces(domain, j, tracer)
//@   loop 0: invariant forall i in 0..len(hooks) :: typeid(hooks[i]) == c33HTyp(domain, i) && ifaceval(hooks[i]) == c33HVal(domain, i) && (hastype(hooks[i], "*traceHook") ==> as(hooks[i], "*traceHook") != nil)
//@   label C33.collect.attached
//@   ensures c33H(domain) == old(c33H(domain)) + 1
//@   label C33.collect.silent
//@   ensures c33NoHookLogged() && c33Drawn == old(c33Drawn) && c33Issued == old(c33Issued)
//@   assigns c33Hooks

// ---- registry wrappers.  registry.go keeps map[struct{domain string; msgID uint64}]uint64: struct map keys are OUTSIDE the
// engine's subset ("spec error: outside subset: map key of type ...receiverTaskKey"), so lookupOrCreate* / forget* cannot be
// verified; zz_contracts_C32_verif.go ASSUMES them as a map keyed by (c33Name(domain), message ID) (ghosts c32Recv, c32InBuf,
// c32OutBuf; 0 = no entry).  On top of that assumption the wrappers are verified: fast path = nothing at all; hooked path =
// registry + ID generator only, and the returned ID is a function of (domain name, message ID, registry), never of any other
// simulation state.  NOTE (reported, not a contract failure): the returned value DOES depend on whether an observer is
// attached (0 without, a generated ID with), so it must only ever flow into tracing calls.
//@ fn MsgIDAtReceiver
//@   property C33
//@   requires c33IDGenOK()                    // (C32) the lookup may draw an ID: timing.GetIDGenerator()'s own precondition
//@   label C32.idgen.MsgIDAtReceiver
//@   ensures c33IDGenOK()
//@   panics c33H(domain) != 0 && typeid(msg) == 0
//@   label C33.recvid.nohook
//@   ensures c33H(domain) == 0 ==> result == 0 && nothingAssigned() && c33Drawn == old(c33Drawn) && c33Issued == old(c33Issued) && c32Recv == old(c32Recv)
//@   label C33.recvid.hook.value
//@   ensures c33H(domain) != 0 ==> result != 0 && result == c32Recv[c33Name(domain)][c33MsgID(msg)] && (old(c32Recv)[c33Name(domain)][c33MsgID(msg)] != 0 ==> result == old(c32Recv)[c33Name(domain)][c33MsgID(msg)] && c32Recv == old(c32Recv))
//@   label C33.recvid.hook.draw
//@   ensures c33H(domain) != 0 ==> c32RegGet(c32Recv, old(c32Recv), c33Name(domain), c33MsgID(msg), result) && c32Drew(old(c32Recv), c33Name(domain), c33MsgID(msg), result)
//@   label C33.recvid.silent
//@   ensures c33NoHookLogged() && c32InBuf == old(c32InBuf) && c32OutBuf == old(c32OutBuf)
//@   assigns c32Recv, c33Drawn, c33Issued, key("G|github.com/sarchlab/akita/v5/timing.idGenerator|"), key("G|github.com/sarchlab/akita/v5/timing.idGeneratorInstantiated|"), key("O|timing.sequentialIDGenerator|nextID"), key("O|timing.parallelIDGenerator|nextID")

//@ fn MsgIDAtIncomingBuffer
//@   property C33
//@   requires c33IDGenOK()                    // (C32) the lookup may draw an ID: timing.GetIDGenerator()'s own precondition
//@   label C32.idgen.MsgIDAtIncomingBuffer
//@   ensures c33IDGenOK()
//@   panics c33H(domain) != 0 && typeid(msg) == 0
//@   label C33.inid.nohook
//@   ensures c33H(domain) == 0 ==> result == 0 && nothingAssigned() && c33Drawn == old(c33Drawn) && c33Issued == old(c33Issued) && c32InBuf == old(c32InBuf)
//@   label C33.inid.hook.value
//@   ensures c33H(domain) != 0 ==> result != 0 && result == c32InBuf[c33Name(domain)][c33MsgID(msg)] && (old(c32InBuf)[c33Name(domain)][c33MsgID(msg)] != 0 ==> result == old(c32InBuf)[c33Name(domain)][c33MsgID(msg)] && c32InBuf == old(c32InBuf))
//@   label C33.inid.hook.draw
//@   ensures c33H(domain) != 0 ==> c32RegGet(c32InBuf, old(c32InBuf), c33Name(domain), c33MsgID(msg), result) && c32Drew(old(c32InBuf), c33Name(domain), c33MsgID(msg), result)
//@   label C33.inid.silent
//@   ensures c33NoHookLogged() && c32Recv == old(c32Recv) && c32OutBuf == old(c32OutBuf)
//@   assigns c32InBuf, c33Drawn, c33Issued, key("G|github.com/sarchlab/akita/v5/timing.idGenerator|"), key("G|github.com/sarchlab/akita/v5/timing.idGeneratorInstantiated|"), key("O|timing.sequentialIDGenerator|nextID"), key("O|timing.parallelIDGenerator|nextID")

//@ fn ForgetMsgIDAtReceiver
//@   property C33
//@   label C33.forgetrecv.nohook
//@   ensures c33H(domain) == 0 ==> nothingAssigned() && c32Recv == old(c32Recv)
//@   label C33.forgetrecv.hook
//@   ensures c33H(domain) != 0 ==> c32RegDel(c32Recv, old(c32Recv), c33Name(domain), msgID)
//@   label C33.forgetrecv.silent
//@   ensures c33NoHookLogged() && c33Drawn == old(c33Drawn) && c33Issued == old(c33Issued)
//@   assigns c32Recv
