//go:build verif

// Contracts for package tracing, property C36 (comment-only; read by /verif/engine, never compiled into a build).
// C36: the trace database records exactly the traced tasks.
package tracing

// ---- abstract history state (logical variables: the state BEFORE the call; each contract states the coupling
//      invariant for the state AFTER the event, written out with the event's transition) ----
// c36Started[id]: StartTask(id) has been called and EndTask(id) has not (the task is running).
// c36Ran[id]    : the task is running and tracing was on at some instant since its StartTask.
// Transitions (from the property statement):
//   StartTask(id)  : Started'[id] = true;  Ran'[id] = Ran[id] || tracing
//   StartTracing   : Ran'[k] = Ran[k] || Started[k]   (every running task now runs while tracing is on)
//   EndTask(id)    : Started'[id] = Ran'[id] = false; one row is written to `trace` IFF Started[id] && Ran[id]
//   AddTaskTag / AddMilestone / StopTracing: unchanged.
//@ ghost var c36Started set
//@ ghost var c36Ran set

// ---- ghost view of the recorder (datarecording.DataRecorder is an interface): one append-only log per table name ----
// c36Cnt[table] = number of InsertData calls so far; c36Rec/c36Typ/c36Val[table][n] = recorder identity, dynamic type and
// boxed value of the n-th entry.
//@ ghost var c36Cnt map
//@ ghost var c36Rec map2
//@ ghost var c36Typ map2
//@ ghost var c36Val map2

// the clock reading during the call (the tracer is called from inside one event: the engine does not advance meanwhile)
//@ ufunc c36Now(tt) int

// TRUSTED (interface, any engine): reading the clock has no side effect.
//@ iface timing.TimeTeller.CurrentTime()
//@   trusted
//@   pure
//@   ensures result == c36Now(self)

// TRUSTED (interface, any recorder): InsertData appends one entry to the table's log and touches nothing of the tracer.
//@ iface datarecording.DataRecorder.InsertData(tableName, entry)
//@   trusted
//@   ensures c36Cnt == upd(old(c36Cnt), tableName, old(c36Cnt)[tableName] + 1)
//@   ensures c36Rec == upd(old(c36Rec), tableName, upd(old(c36Rec)[tableName], old(c36Cnt)[tableName], ifaceval(self)))
//@   ensures c36Typ == upd(old(c36Typ), tableName, upd(old(c36Typ)[tableName], old(c36Cnt)[tableName], typeid(entry)))
//@   ensures c36Val == upd(old(c36Val), tableName, upd(old(c36Val)[tableName], old(c36Cnt)[tableName], ifaceval(entry)))
//@   assigns c36Cnt, c36Rec, c36Typ, c36Val
//@ iface datarecording.DataRecorder.Flush()
//@   trusted
//@   assigns nothing
//@ iface datarecording.DataRecorder.CreateTable(tableName, sampleEntry)
//@   trusted
//@   assigns nothing

//@ func c36Row(tbl, n) = mkiface(c36Typ[tbl][n], c36Val[tbl][n])
//@ func c36N0(tbl) = old(c36Cnt)[tbl]
// nothing already in the logs is rewritten
//@ pred c36LogKept() = forall tb int, n int :: n < old(c36Cnt)[tb] ==> c36Rec[tb][n] == old(c36Rec)[tb][n] && c36Typ[tb][n] == old(c36Typ)[tb][n] && c36Val[tb][n] == old(c36Val)[tb][n]
//@ pred c36LogSame() = c36Cnt == old(c36Cnt) && c36Rec == old(c36Rec) && c36Typ == old(c36Typ) && c36Val == old(c36Val)

// ---- representation invariant ----
// every entry of the in-flight map is a task object filed under its own ID (so distinct keys hold distinct objects);
// `<= allocTop`: the entry is an allocated object (true of every pointer value; the heap model has to be told)
//@ pred c36Shape(t) = forall k uint64 :: (k in t.tracingTasks) ==> t.tracingTasks[k] != nil && t.tracingTasks[k] <= allocTop && t.tracingTasks[k].ID == k
// the tag / milestone lists of distinct in-flight tasks never share a backing array (each list only ever grows by append
// from nil), so appending to one task's list cannot rewrite another's
//@ pred c36Sep(t) = (forall k uint64 :: (k in t.tracingTasks) ==> ref(t.tracingTasks[k].Tags) <= allocTop && ref(t.tracingTasks[k].Milestones) <= allocTop) && (forall k uint64, j uint64 :: (k in t.tracingTasks) && (j in t.tracingTasks) && k != j && ref(t.tracingTasks[k].Tags) != 0 ==> ref(t.tracingTasks[k].Tags) != ref(t.tracingTasks[j].Tags)) && (forall k uint64, j uint64 :: (k in t.tracingTasks) && (j in t.tracingTasks) && k != j && ref(t.tracingTasks[k].Milestones) != 0 ==> ref(t.tracingTasks[k].Milestones) != ref(t.tracingTasks[j].Milestones))
// coupling with the abstract state, pointwise (s, r = Started[k], Ran[k] of the state the invariant is stated for)
//@ pred c36KAbs(s, r) = r ==> s
//@ pred c36KIn(t, k, s) = s ==> (k in t.tracingTasks)
//@ pred c36KRec(t, k, s, r) = (k in t.tracingTasks) && s ==> (t.tracingTasks[k].toRecord <==> r)
// an entry that exists only because a tag or milestone mentioned the ID (no StartTask yet) is not a running task:
//@ pred c36KPh(t, k, s) = (k in t.tracingTasks) && !s ==> !t.tracingTasks[k].toRecord
// the entry's own `started` flag is the abstract Started (false for an entry only a tag or milestone has mentioned)
//@ pred c36KSt(t, k, s) = (k in t.tracingTasks) ==> (t.tracingTasks[k].started <==> s)
//@ pred c36Inv(t) = c36Shape(t) && c36Sep(t) && (forall k uint64 :: c36KSt(t, k, c36Started[k])) && (forall k uint64 :: c36KAbs(c36Started[k], c36Ran[k])) && (forall k uint64 :: c36KIn(t, k, c36Started[k])) && (forall k uint64 :: c36KRec(t, k, c36Started[k], c36Ran[k])) && (forall k uint64 :: c36KPh(t, k, c36Started[k]))

// entries other than id: same keys, same objects (their fields are protected by the assigns clauses)
//@ pred c36Others(t, id) = forall k uint64 :: k != id ==> ((k in t.tracingTasks) <==> old(k in t.tracingTasks)) && t.tracingTasks[k] == old(t.tracingTasks[k])
//@ pred c36AllSame(t) = forall k uint64 :: ((k in t.tracingTasks) <==> old(k in t.tracingTasks)) && t.tracingTasks[k] == old(t.tracingTasks[k])

// ---- small functions ----
//@ fn (*DBTracer).IsTracing
//@   property C36
//@   label C36.istracing
//@   ensures result == t.isTracing
//@   assigns nothing

//@ fn (*DBTracer).startingTaskMustBeValid
//@   property C36
//@   panics task.ID == 0 || task.Kind == "" || task.What == "" || task.Location == ""
//@   assigns nothing

//@ fn NewDBTracer
//@   property C36
//@   label C36.new
//@   ensures result != nil && fresh(result) && !result.isTracing && !result.terminated && result.backend == dataRecorder && result.timeTeller == timeTeller && result.tracingTasks != nil
//@   label C36.new.empty
//@   ensures forall k uint64 :: !(k in result.tracingTasks)
//@   label C36.new.nolog
//@   ensures c36LogSame()
//@   assigns nothing

// ---- StartTask ----
//@ func c36StartS(k, id) = k == id || c36Started[k]
//@ func c36StartR(k, id, tr) = k == id ? (c36Ran[k] || tr) : c36Ran[k]
//@ fn (*DBTracer).StartTask
//@   property C36
//@   requires t.tracingTasks != nil && c36Inv(t)
//@   panics task.ID == 0 || task.Kind == "" || task.What == "" || task.Location == ""
//@   label C36.start.present
//@   ensures (task.ID in t.tracingTasks) && t.tracingTasks[task.ID] != nil
//@   label C36.start.fields
//@   ensures t.tracingTasks[task.ID].ID == task.ID && t.tracingTasks[task.ID].ParentID == task.ParentID && t.tracingTasks[task.ID].Kind == task.Kind && t.tracingTasks[task.ID].What == task.What && t.tracingTasks[task.ID].Location == task.Location && t.tracingTasks[task.ID].StartTime == task.Time
//@   label C36.start.sameobject
//@   ensures old(task.ID in t.tracingTasks) ? t.tracingTasks[task.ID] == old(t.tracingTasks[task.ID]) : fresh(t.tracingTasks[task.ID])
//@   label C36.start.others
//@   ensures c36Others(t, task.ID)
//@   label C36.start.nolog
//@   ensures c36LogSame() && t.isTracing == old(t.isTracing)
//@   label C36.start.inv.shape
//@   ensures c36Shape(t)
//@   label C36.start.inv.sep
//@   ensures c36Sep(t)
//@   label C36.start.inv.in
//@   ensures forall k uint64 :: c36KIn(t, k, c36StartS(k, task.ID))
//@   label C36.start.inv.torecord
//@   ensures forall k uint64 :: c36KRec(t, k, c36StartS(k, task.ID), c36StartR(k, task.ID, old(t.isTracing)))
//@   label C36.start.inv.torecord.this
//@   ensures t.tracingTasks[task.ID].toRecord <==> (c36Ran[task.ID] || old(t.isTracing))
//@   label C36.start.inv.started
//@   ensures forall k uint64 :: c36KSt(t, k, c36StartS(k, task.ID))
//@   label C36.start.inv.placeholder
//@   ensures forall k uint64 :: c36KPh(t, k, c36StartS(k, task.ID))
//@   assigns elems(t.tracingTasks), t.tracingTasks[task.ID].ID, t.tracingTasks[task.ID].ParentID, t.tracingTasks[task.ID].Kind, t.tracingTasks[task.ID].What, t.tracingTasks[task.ID].Location, t.tracingTasks[task.ID].StartTime, t.tracingTasks[task.ID].started, t.tracingTasks[task.ID].toRecord

// ---- StartTracing ----
//@ fn (*DBTracer).StartTracing
//@   property C36
//@   requires c36Inv(t)
//@   label C36.starttracing.on
//@   ensures t.isTracing && t.tracingStartTime == c36Now(t.timeTeller)
//@   label C36.starttracing.same
//@   ensures c36AllSame(t) && c36LogSame()
//@   label C36.starttracing.inv.shape
//@   ensures c36Shape(t)
//@   label C36.starttracing.inv.sep
//@   ensures c36Sep(t)
//@   label C36.starttracing.inv.torecord
//@   ensures forall k uint64 :: c36KRec(t, k, c36Started[k], c36Ran[k] || c36Started[k])
//@   label C36.starttracing.inv.started
//@   ensures forall k uint64 :: c36KSt(t, k, c36Started[k])
//@   label C36.starttracing.inv.placeholder
//@   ensures forall k uint64 :: c36KPh(t, k, c36Started[k])
//@   assigns t.isTracing, t.tracingStartTime, key("O|tracing.runningTask|.toRecord")
//@   label C36.starttracing.loop.shape
//@   loop 0: invariant c36Shape(t) && c36AllSame(t)
//@   label C36.starttracing.loop.started
//@   loop 0: invariant forall k uint64 :: (k in t.tracingTasks) ==> (t.tracingTasks[k].started <==> old(t.tracingTasks[k].started))
//@   label C36.starttracing.loop.marked
//@   loop 0: invariant forall k uint64 :: (k in t.tracingTasks) && t.tracingTasks[k].started ==> (t.tracingTasks[k].toRecord <==> (old(t.tracingTasks[k].toRecord) || visited(k)))
// the placeholder conjunct carried through the loop (a postcondition after a loop is proved from the loop's invariants, so
// code that marks a placeholder is refuted HERE, at `...inv.placeholder.atloop.preserved`)
//@   label C36.starttracing.inv.placeholder.atloop
//@   loop 0: invariant forall k uint64 :: (k in t.tracingTasks) && !t.tracingTasks[k].started ==> (t.tracingTasks[k].toRecord <==> old(t.tracingTasks[k].toRecord))

// ---- StopTracing ----
//@ fn (*DBTracer).StopTracing
//@   property C36
//@   label C36.stop.off
//@   ensures !t.isTracing
//@   label C36.stop.onerow
//@   ensures c36Cnt == upd(old(c36Cnt), segmentTableName, old(c36Cnt)[segmentTableName] + 1)
//@   label C36.stop.row
//@   ensures hastype(c36Row(segmentTableName, c36N0(segmentTableName)), "segmentTableEntry") && c36Rec[segmentTableName][c36N0(segmentTableName)] == ifaceval(t.backend)
//@   label C36.stop.logkept
//@   ensures c36LogKept()
//@   assigns t.isTracing, c36Cnt, c36Rec, c36Typ, c36Val

// ---- AddTaskTag: the tag is appended to the task's list (an entry is created if the ID is not in flight) ----
//@ pred c36TagEq(x, tag) = x.ID == tag.ID && x.TaskID == tag.TaskID && x.What == tag.What && x.Time == tag.Time
//@ fn (*DBTracer).AddTaskTag
//@   property C36
//@   requires t.tracingTasks != nil && c36Inv(t)
//@   label C36.tag.present
//@   ensures (tag.TaskID in t.tracingTasks) && t.tracingTasks[tag.TaskID] != nil
//@   label C36.tag.sameobject
//@   ensures old(tag.TaskID in t.tracingTasks) ? t.tracingTasks[tag.TaskID] == old(t.tracingTasks[tag.TaskID]) : fresh(t.tracingTasks[tag.TaskID])
//@   label C36.tag.appended
//@   ensures len(t.tracingTasks[tag.TaskID].Tags) == (old(tag.TaskID in t.tracingTasks) ? old(len(t.tracingTasks[tag.TaskID].Tags)) : 0) + 1 && c36TagEq(t.tracingTasks[tag.TaskID].Tags[len(t.tracingTasks[tag.TaskID].Tags) - 1], tag)
//@   label C36.tag.prefix
//@   ensures old(tag.TaskID in t.tracingTasks) ==> (forall i in 0..old(len(t.tracingTasks[tag.TaskID].Tags)) :: t.tracingTasks[tag.TaskID].Tags[i].ID == old(t.tracingTasks[tag.TaskID].Tags[i].ID) && t.tracingTasks[tag.TaskID].Tags[i].TaskID == old(t.tracingTasks[tag.TaskID].Tags[i].TaskID) && t.tracingTasks[tag.TaskID].Tags[i].What == old(t.tracingTasks[tag.TaskID].Tags[i].What) && t.tracingTasks[tag.TaskID].Tags[i].Time == old(t.tracingTasks[tag.TaskID].Tags[i].Time))
//@   label C36.tag.others.lists
//@   ensures forall k uint64 :: k != tag.TaskID && (k in t.tracingTasks) ==> (forall i in 0..len(t.tracingTasks[k].Tags) :: t.tracingTasks[k].Tags[i].ID == old(t.tracingTasks[k].Tags[i].ID) && t.tracingTasks[k].Tags[i].TaskID == old(t.tracingTasks[k].Tags[i].TaskID) && t.tracingTasks[k].Tags[i].What == old(t.tracingTasks[k].Tags[i].What) && t.tracingTasks[k].Tags[i].Time == old(t.tracingTasks[k].Tags[i].Time))
//@   label C36.tag.inv.sep
//@   ensures c36Sep(t)
//@   label C36.tag.others
//@   ensures c36Others(t, tag.TaskID)
//@   label C36.tag.nolog
//@   ensures c36LogSame() && t.isTracing == old(t.isTracing)
//@   label C36.tag.inv.shape
//@   ensures c36Shape(t)
//@   label C36.tag.inv.torecord
//@   ensures forall k uint64 :: c36KRec(t, k, c36Started[k], c36Ran[k])
//@   label C36.tag.inv.started
//@   ensures forall k uint64 :: c36KSt(t, k, c36Started[k])
//@   label C36.tag.inv.placeholder
//@   ensures forall k uint64 :: c36KPh(t, k, c36Started[k])
//@   label C36.tag.unstarted.notrecorded
//@   ensures !old(tag.TaskID in t.tracingTasks) ==> !t.tracingTasks[tag.TaskID].toRecord
//@   assigns elems(t.tracingTasks), t.tracingTasks[tag.TaskID].Tags, elems(t.tracingTasks[tag.TaskID].Tags)

// ---- AddMilestone: stored unless the task already has a milestone at the same instant ----
//@ func c36Ms(t, k) = t.tracingTasks[k].Milestones
//@ pred c36MsEq(x, m) = x.ID == m.ID && x.TaskID == m.TaskID && x.Time == m.Time && x.Kind == m.Kind && x.What == m.What
//@ pred c36MsDistinct(t, k) = forall i in 0..len(t.tracingTasks[k].Milestones) :: forall j in 0..len(t.tracingTasks[k].Milestones) :: i != j ==> t.tracingTasks[k].Milestones[i].Time != t.tracingTasks[k].Milestones[j].Time
//@ fn (*DBTracer).AddMilestone
//@   property C36
//@   requires t.tracingTasks != nil && c36Inv(t)
//@   requires (milestone.TaskID in t.tracingTasks) ==> c36MsDistinct(t, milestone.TaskID)
//@   label C36.ms.present
//@   ensures (milestone.TaskID in t.tracingTasks) && t.tracingTasks[milestone.TaskID] != nil
//@   label C36.ms.sameobject
//@   ensures old(milestone.TaskID in t.tracingTasks) ? t.tracingTasks[milestone.TaskID] == old(t.tracingTasks[milestone.TaskID]) : fresh(t.tracingTasks[milestone.TaskID])
//@   label C36.ms.new.appended
//@   ensures !old(milestone.TaskID in t.tracingTasks) ==> len(c36Ms(t, milestone.TaskID)) == 1 && c36MsEq(c36Ms(t, milestone.TaskID)[0], milestone)
//@   label C36.ms.fresh.appended
//@   ensures old(milestone.TaskID in t.tracingTasks) && (forall i in 0..old(len(c36Ms(t, milestone.TaskID))) :: old(c36Ms(t, milestone.TaskID)[i].Time) != milestone.Time) ==> len(c36Ms(t, milestone.TaskID)) == old(len(c36Ms(t, milestone.TaskID))) + 1 && c36MsEq(c36Ms(t, milestone.TaskID)[old(len(c36Ms(t, milestone.TaskID)))], milestone)
//@   label C36.ms.sameinstant.dropped
//@   ensures old(milestone.TaskID in t.tracingTasks) ==> (forall i in 0..old(len(c36Ms(t, milestone.TaskID))) :: old(c36Ms(t, milestone.TaskID)[i].Time) == milestone.Time ==> len(c36Ms(t, milestone.TaskID)) == old(len(c36Ms(t, milestone.TaskID))))
//@   label C36.ms.length
//@   ensures old(milestone.TaskID in t.tracingTasks) ==> len(c36Ms(t, milestone.TaskID)) == old(len(c36Ms(t, milestone.TaskID))) || len(c36Ms(t, milestone.TaskID)) == old(len(c36Ms(t, milestone.TaskID))) + 1
//@   label C36.ms.prefix
//@   ensures old(milestone.TaskID in t.tracingTasks) ==> (forall i in 0..old(len(c36Ms(t, milestone.TaskID))) :: c36Ms(t, milestone.TaskID)[i].ID == old(c36Ms(t, milestone.TaskID)[i].ID) && c36Ms(t, milestone.TaskID)[i].TaskID == old(c36Ms(t, milestone.TaskID)[i].TaskID) && c36Ms(t, milestone.TaskID)[i].Time == old(c36Ms(t, milestone.TaskID)[i].Time) && c36Ms(t, milestone.TaskID)[i].Kind == old(c36Ms(t, milestone.TaskID)[i].Kind) && c36Ms(t, milestone.TaskID)[i].What == old(c36Ms(t, milestone.TaskID)[i].What))
//@   label C36.ms.oneperinstant
//@   ensures c36MsDistinct(t, milestone.TaskID)
//@   label C36.ms.others.lists
//@   ensures forall k uint64 :: k != milestone.TaskID && (k in t.tracingTasks) ==> (forall i in 0..len(t.tracingTasks[k].Milestones) :: t.tracingTasks[k].Milestones[i].ID == old(t.tracingTasks[k].Milestones[i].ID) && t.tracingTasks[k].Milestones[i].TaskID == old(t.tracingTasks[k].Milestones[i].TaskID) && t.tracingTasks[k].Milestones[i].Time == old(t.tracingTasks[k].Milestones[i].Time) && t.tracingTasks[k].Milestones[i].Kind == old(t.tracingTasks[k].Milestones[i].Kind) && t.tracingTasks[k].Milestones[i].What == old(t.tracingTasks[k].Milestones[i].What))
//@   label C36.ms.inv.sep
//@   ensures c36Sep(t)
//@   label C36.ms.others
//@   ensures c36Others(t, milestone.TaskID)
//@   label C36.ms.nolog
//@   ensures c36LogSame() && t.isTracing == old(t.isTracing)
//@   label C36.ms.inv.shape
//@   ensures c36Shape(t)
//@   label C36.ms.inv.torecord
//@   ensures forall k uint64 :: c36KRec(t, k, c36Started[k], c36Ran[k])
//@   label C36.ms.inv.started
//@   ensures forall k uint64 :: c36KSt(t, k, c36Started[k])
//@   label C36.ms.inv.placeholder
//@   ensures forall k uint64 :: c36KPh(t, k, c36Started[k])
//@   assigns elems(t.tracingTasks), t.tracingTasks[milestone.TaskID].Milestones, elems(t.tracingTasks[milestone.TaskID].Milestones)
//@   label C36.ms.loop.range
//@   loop 0: invariant -1 <= rangeindex && rangeindex < len(task.Milestones) && task != nil && (milestone.TaskID in t.tracingTasks) && t.tracingTasks[milestone.TaskID] == task
//@   label C36.ms.loop.same
//@   loop 0: invariant (old(milestone.TaskID in t.tracingTasks) ? task == old(t.tracingTasks[milestone.TaskID]) && ref(task.Milestones) == old(ref(t.tracingTasks[milestone.TaskID].Milestones)) && off(task.Milestones) == old(off(t.tracingTasks[milestone.TaskID].Milestones)) && len(task.Milestones) == old(len(t.tracingTasks[milestone.TaskID].Milestones)) : fresh(task) && len(task.Milestones) == 0 && !task.toRecord && !task.started && task.ID == milestone.TaskID) && c36Others(t, milestone.TaskID)
//@   label C36.ms.loop.lastdiffers
//@   loop 0: invariant rangeindex >= 0 ==> task.Milestones[rangeindex].Time != milestone.Time     // ground instance of the next one
//@   label C36.ms.loop.noneyet
//@   loop 0: invariant forall i in 0..rangeindex + 1 :: task.Milestones[i].Time != milestone.Time

// ---- EndTask: the task leaves the in-flight map; it is written (one trace row, then its milestones, then its tags)
//      IFF it had been started and ran while tracing was on ----
//@ func c36T0(t, id) = old(t.tracingTasks[id])                                  // the entry on entry (nil / meaningless if absent)
//@ pred c36Written(id) = c36Started[id] && c36Ran[id]                           // the abstract verdict
//@ func c36TraceRow(n) = as(c36Row(traceTableName, n), "taskTableEntry")
//@ func c36MsRow(n) = as(c36Row(milestoneTableName, n), "milestoneTableEntry")
//@ func c36TagRow(n) = as(c36Row(tagTableName, n), "tagTableEntry")
// (`<= allocTop`: the boxed row is an allocated object, so boxing the next row cannot overwrite it)
//@ pred c36MsRowOK(n, x, be) = hastype(c36Row(milestoneTableName, n), "milestoneTableEntry") && c36Val[milestoneTableName][n] <= allocTop && c36Rec[milestoneTableName][n] == be && c36MsRow(n).ID == x.ID && c36MsRow(n).TaskID == x.TaskID && c36MsRow(n).Kind == x.Kind && c36MsRow(n).What == x.What
//@ pred c36TagRowOK(n, x, be) = hastype(c36Row(tagTableName, n), "tagTableEntry") && c36Val[tagTableName][n] <= allocTop && c36Rec[tagTableName][n] == be && c36TagRow(n).ID == x.ID && c36TagRow(n).TaskID == x.TaskID && c36TagRow(n).What == x.What
//@ fn (*DBTracer).EndTask
//@   property C36
//@   requires c36Inv(t)
//@   label C36.end.removed
//@   ensures !(task.ID in t.tracingTasks)
//@   label C36.end.others
//@   ensures c36Others(t, task.ID)
//@   label C36.end.iff.count
//@   ensures c36Cnt[traceTableName] == c36N0(traceTableName) + (c36Written(task.ID) ? 1 : 0)
//@   label C36.end.notwritten.nothing
//@   ensures !c36Written(task.ID) ==> c36LogSame()
//@   label C36.end.second.noop
//@   ensures !old(task.ID in t.tracingTasks) ==> c36LogSame() && c36AllSame(t)
//@   label C36.end.row
//@   ensures c36Written(task.ID) ==> hastype(c36Row(traceTableName, c36N0(traceTableName)), "taskTableEntry") && c36Rec[traceTableName][c36N0(traceTableName)] == ifaceval(t.backend)
//@   label C36.end.row.fields
//@   ensures c36Written(task.ID) ==> c36TraceRow(c36N0(traceTableName)).ID == task.ID && c36TraceRow(c36N0(traceTableName)).ParentID == old(t.tracingTasks[task.ID].ParentID) && c36TraceRow(c36N0(traceTableName)).Kind == old(t.tracingTasks[task.ID].Kind) && c36TraceRow(c36N0(traceTableName)).What == old(t.tracingTasks[task.ID].What) && c36TraceRow(c36N0(traceTableName)).Location == old(t.tracingTasks[task.ID].Location)
//@   label C36.end.milestones.count
//@   ensures c36Written(task.ID) ==> c36Cnt[milestoneTableName] == c36N0(milestoneTableName) + old(len(t.tracingTasks[task.ID].Milestones))
//@   label C36.end.milestones.rows
//@   ensures c36Written(task.ID) ==> (forall n in 0..old(len(t.tracingTasks[task.ID].Milestones)) :: c36MsRowOK(c36N0(milestoneTableName) + n, old(t.tracingTasks[task.ID].Milestones)[n], ifaceval(t.backend)))
//@   label C36.end.tags.count
//@   ensures c36Written(task.ID) ==> c36Cnt[tagTableName] == c36N0(tagTableName) + old(len(t.tracingTasks[task.ID].Tags))
//@   label C36.end.tags.rows
//@   ensures c36Written(task.ID) ==> (forall n in 0..old(len(t.tracingTasks[task.ID].Tags)) :: c36TagRowOK(c36N0(tagTableName) + n, old(t.tracingTasks[task.ID].Tags)[n], ifaceval(t.backend)))
//@   label C36.end.segments.untouched
//@   ensures c36Cnt[segmentTableName] == c36N0(segmentTableName)
//@   label C36.end.logkept
//@   ensures c36LogKept()
//@   label C36.end.endtime
//@   ensures old(task.ID in t.tracingTasks) ==> c36T0(t, task.ID).EndTime == task.Time
//@   label C36.end.tracing
//@   ensures t.isTracing == old(t.isTracing)
//@   label C36.end.inv.shape
//@   ensures c36Shape(t)
//@   label C36.end.inv.sep
//@   ensures c36Sep(t)
//@   label C36.end.inv.in
//@   ensures forall k uint64 :: c36KIn(t, k, k != task.ID && c36Started[k])
//@   label C36.end.inv.torecord
//@   ensures forall k uint64 :: c36KRec(t, k, k != task.ID && c36Started[k], k != task.ID && c36Ran[k])
//@   label C36.end.inv.started
//@   ensures forall k uint64 :: c36KSt(t, k, k != task.ID && c36Started[k])
//@   label C36.end.inv.placeholder
//@   ensures forall k uint64 :: c36KPh(t, k, k != task.ID && c36Started[k])
//@   assigns elems(t.tracingTasks), t.tracingTasks[task.ID].EndTime, c36Cnt, c36Rec, c36Typ, c36Val
// (the loops only call InsertData: the map and the task objects are not in their write set, so what is known about them
// before the loops still holds after them; the invariants only carry the log, which InsertData changes)
//@   label C36.end.loop0.shape
//@   loop 0: invariant -1 <= rangeindex && rangeindex < len(originalTask.Milestones) && originalTask == c36T0(t, task.ID) && old(task.ID in t.tracingTasks)
//@   label C36.end.loop0.counts
//@   loop 0: invariant c36Cnt[traceTableName] == c36N0(traceTableName) + 1 && c36Cnt[milestoneTableName] == c36N0(milestoneTableName) + rangeindex + 1 && c36Cnt[tagTableName] == c36N0(tagTableName) && c36Cnt[segmentTableName] == c36N0(segmentTableName)
//@   label C36.end.loop0.logkept
//@   loop 0: invariant c36LogKept()
//@   label C36.end.loop0.tracerow
//@   loop 0: invariant hastype(c36Row(traceTableName, c36N0(traceTableName)), "taskTableEntry") && c36Rec[traceTableName][c36N0(traceTableName)] == ifaceval(t.backend) && c36TraceRow(c36N0(traceTableName)).ID == task.ID && c36TraceRow(c36N0(traceTableName)).ParentID == old(t.tracingTasks[task.ID].ParentID) && c36TraceRow(c36N0(traceTableName)).Kind == old(t.tracingTasks[task.ID].Kind) && c36TraceRow(c36N0(traceTableName)).What == old(t.tracingTasks[task.ID].What) && c36TraceRow(c36N0(traceTableName)).Location == old(t.tracingTasks[task.ID].Location)
//@   label C36.end.loop0.lastrow
//@   loop 0: invariant rangeindex >= 0 ==> c36MsRowOK(c36N0(milestoneTableName) + rangeindex, old(t.tracingTasks[task.ID].Milestones)[rangeindex], ifaceval(t.backend))     // ground instance of the next one (a broken row is then refuted, not just undecided)
//@   label C36.end.loop0.rows
//@   loop 0: invariant forall n in 0..rangeindex + 1 :: c36MsRowOK(c36N0(milestoneTableName) + n, old(t.tracingTasks[task.ID].Milestones)[n], ifaceval(t.backend))
//@   label C36.end.loop1.shape
//@   loop 1: invariant -1 <= rangeindex && rangeindex < len(originalTask.Tags) && originalTask == c36T0(t, task.ID) && old(task.ID in t.tracingTasks)
//@   label C36.end.loop1.counts
//@   loop 1: invariant c36Cnt[traceTableName] == c36N0(traceTableName) + 1 && c36Cnt[milestoneTableName] == c36N0(milestoneTableName) + old(len(t.tracingTasks[task.ID].Milestones)) && c36Cnt[tagTableName] == c36N0(tagTableName) + rangeindex + 1 && c36Cnt[segmentTableName] == c36N0(segmentTableName)
//@   label C36.end.loop1.logkept
//@   loop 1: invariant c36LogKept()
//@   label C36.end.loop1.tracerow
//@   loop 1: invariant hastype(c36Row(traceTableName, c36N0(traceTableName)), "taskTableEntry") && c36Rec[traceTableName][c36N0(traceTableName)] == ifaceval(t.backend) && c36TraceRow(c36N0(traceTableName)).ID == task.ID && c36TraceRow(c36N0(traceTableName)).ParentID == old(t.tracingTasks[task.ID].ParentID) && c36TraceRow(c36N0(traceTableName)).Kind == old(t.tracingTasks[task.ID].Kind) && c36TraceRow(c36N0(traceTableName)).What == old(t.tracingTasks[task.ID].What) && c36TraceRow(c36N0(traceTableName)).Location == old(t.tracingTasks[task.ID].Location)
//@   label C36.end.loop1.msrows
//@   loop 1: invariant forall n in 0..old(len(t.tracingTasks[task.ID].Milestones)) :: c36MsRowOK(c36N0(milestoneTableName) + n, old(t.tracingTasks[task.ID].Milestones)[n], ifaceval(t.backend))
//@   label C36.end.loop1.lastrow
//@   loop 1: invariant rangeindex >= 0 ==> c36TagRowOK(c36N0(tagTableName) + rangeindex, old(t.tracingTasks[task.ID].Tags)[rangeindex], ifaceval(t.backend))     // ground instance of the next one
//@   label C36.end.loop1.rows
//@   loop 1: invariant forall n in 0..rangeindex + 1 :: c36TagRowOK(c36N0(tagTableName) + n, old(t.tracingTasks[task.ID].Tags)[n], ifaceval(t.backend))

// ---- Terminate: closes an open tracing window (one segment row) and drops the tasks still in flight: a task that has
//      not ended before termination is never recorded ----
// TRUSTED (standard library / runtime): the stack dump only fills the local buffer; printing has no effect on the heap.
//@ ext runtime.Stack(buf, all)
//@   trusted
//@   ensures 0 <= result && result <= len(buf)
//@   assigns elems(buf)
//@ ext fmt.Println(a)
//@   trusted
//@   assigns nothing
//@ fn captureBacktrace
//@   property C36
//@   assigns nothing

//@ fn (*DBTracer).Terminate
//@   property C36
//@   label C36.term.terminated
//@   ensures t.terminated
//@   label C36.term.again.noop
//@   ensures old(t.terminated) ==> c36LogSame() && t.tracingTasks == old(t.tracingTasks) && t.isTracing == old(t.isTracing) && c36AllSame(t)
//@   label C36.term.dropped
//@   ensures !old(t.terminated) ==> t.tracingTasks == nil && !t.isTracing
//@   label C36.term.segment
//@   ensures !old(t.terminated) ==> c36Cnt == (old(t.isTracing) ? upd(old(c36Cnt), segmentTableName, c36N0(segmentTableName) + 1) : old(c36Cnt))
//@   label C36.term.segment.row
//@   ensures !old(t.terminated) && old(t.isTracing) ==> hastype(c36Row(segmentTableName, c36N0(segmentTableName)), "segmentTableEntry") && c36Rec[segmentTableName][c36N0(segmentTableName)] == ifaceval(t.backend)
//@   label C36.term.logkept
//@   ensures c36LogKept()
//@   assigns t.terminated, t.firstTerminateBacktrace, t.isTracing, t.tracingTasks, c36Cnt, c36Rec, c36Typ, c36Val
