//go:build verif

// Contracts for package sourcefs, property C39 (comment-only; read by /verif/engine, never compiled into a build).
package sourcefs

// ---- C39: source tools only serve the recorded source, within bounds (archive side) ----
// What tar/gzip/fs.ValidPath/MapFS do is the standard library's business (TRUSTED below).  Claimed here:
//  * ReadArchive: every stored entry is at most maxArchiveFileBytes long, the running total never exceeds
//    maxArchiveTotalBytes, no single read pulls more than maxArchiveFileBytes+1 bytes into memory, errors otherwise;
//  * WriteArchive: the header names handed to the tar writer are keys of `files`, in non-decreasing string order, each
//    with constant header fields (regular file, mode 0644) and Size == len(content) of that key;
//  * OpenTraceSource: a key is inserted into the MapFS only if fs.ValidPath(key).

// ---------- trusted: readers ----------
// c39PeakRead: the largest number of bytes a single io.ReadAll has returned so far (memory high-water mark per read).
//@ ghost var c39PeakRead int
// c39BytesRead: the total number of bytes all io.ReadAll calls have returned so far (what was decompressed into memory).
//@ ghost var c39BytesRead int

//@ ext bytes.NewReader(b)
//@   trusted
//@   ensures result != nil
//@   assigns nothing
//@ ext compress/gzip.NewReader(r)
//@   trusted
//@   ensures result1 == nil ==> result0 != nil
//@   assigns nothing
//@ ext compress/gzip.(*Reader).Close(z)
//@   trusted
//@   assigns nothing
//@ ext archive/tar.NewReader(r)
//@   trusted
//@   ensures result != nil
//@   assigns nothing
// a hostile archive: header contents are arbitrary
//@ ext archive/tar.(*Reader).Next(tr)
//@   trusted
//@   ensures result1 == nil ==> result0 != nil && fresh(result0)
//@   assigns nothing
// io.LimitReader(r, n) is &io.LimitedReader{R: r, N: n}; ReadAll of it returns at most max(n, 0) bytes
// (GOROOT/src/io/io.go: LimitedReader.Read never returns more than N in total).
//@ ext io.LimitReader(r, n)
//@   trusted
//@   ensures hastype(result, "*io.LimitedReader") && fresh(as(result, "*io.LimitedReader")) && as(result, "*io.LimitedReader").N == n
//@   assigns nothing
//@ ext io.ReadAll(r)
//@   trusted
//@   ensures hastype(r, "*io.LimitedReader") ==> len(result0) <= max(old(as(r, "*io.LimitedReader").N), 0)
//@   ensures c39PeakRead == max(old(c39PeakRead), len(result0)) && c39BytesRead == old(c39BytesRead) + len(result0) && fresh(result0)
//@   assigns c39PeakRead, c39BytesRead

//@ fn ReadArchive
//@   property C39
//@   label C39.read.entrycap
//@   ensures result1 == nil ==> result0 != nil && (forall k int :: (k in result0) ==> len(result0[k]) <= maxArchiveFileBytes)
//@   label C39.read.totalcap
//@   ensures result1 == nil ==> c39BytesRead - old(c39BytesRead) <= maxArchiveTotalBytes
//@   label C39.read.totalcap.always
//@   ensures c39BytesRead - old(c39BytesRead) <= maxArchiveTotalBytes + maxArchiveFileBytes + 1
//@   label C39.read.peak
//@   ensures c39PeakRead <= max(old(c39PeakRead), maxArchiveFileBytes + 1)
//@   label C39.read.error.nil
//@   ensures result1 != nil ==> result0 == nil
//@   assigns c39PeakRead, c39BytesRead
//@   label C39.read.inv.total
//@   loop 0: invariant 0 <= total && total <= maxArchiveTotalBytes && c39BytesRead - old(c39BytesRead) == total
//@   label C39.read.inv.entries
//@   loop 0: invariant files != nil && fresh(files) && gz != nil && tr != nil && (forall k int :: (k in files) ==> len(files[k]) <= maxArchiveFileBytes)
//@   label C39.read.inv.peak
//@   loop 0: invariant c39PeakRead <= max(old(c39PeakRead), maxArchiveFileBytes + 1)

// ---------- trusted: writers; the ghost log records every header handed to (*tar.Writer).WriteHeader ----------
//@ ghost var c39Written int
//@ ghost var c39Name map
//@ ghost var c39Size map
//@ ghost var c39Mode map
//@ ghost var c39Type map

//@ ext compress/gzip.NewWriter(w)
//@   trusted
//@   ensures result != nil && fresh(result)
//@   assigns nothing
//@ ext compress/gzip.(*Writer).Close(z)
//@   trusted
//@   assigns nothing
//@ ext archive/tar.NewWriter(w)
//@   trusted
//@   ensures result != nil && fresh(result)
//@   assigns nothing
//@ ext archive/tar.(*Writer).Close(tw)
//@   trusted
//@   assigns nothing
//@ ext archive/tar.(*Writer).WriteHeader(tw, hdr)
//@   trusted
//@   requires tw != nil && hdr != nil
//@   ensures c39Written == old(c39Written) + 1 && c39Name == upd(old(c39Name), old(c39Written), hdr.Name) && c39Size == upd(old(c39Size), old(c39Written), hdr.Size) && c39Mode == upd(old(c39Mode), old(c39Written), hdr.Mode) && c39Type == upd(old(c39Type), old(c39Written), hdr.Typeflag)
//@   assigns c39Written, c39Name, c39Size, c39Mode, c39Type
//@ ext archive/tar.(*Writer).Write(tw, b)
//@   trusted
//@   requires tw != nil
//@   assigns nothing
// sort.Strings: afterwards x is in non-decreasing order and holds the same strings (Strings_pi: new x[k] == old x[pi[k]]).
//@ ext sort.Strings(x)
//@   trusted
//@   witness pi map = idperm
//@   ensures forall k in 0..len(x) - 1 :: !strlt(x[k+1], x[k])
//@   ensures forall k in 0..len(x) :: 0 <= pi[k] && pi[k] < len(x) && x[k] == old(x)[pi[k]]
//@   assigns elems(x)

//@ pred c39LogKeeps(from) = forall k int :: k < from ==> c39Name[k] == old(c39Name)[k] && c39Size[k] == old(c39Size)[k] && c39Mode[k] == old(c39Mode)[k] && c39Type[k] == old(c39Type)[k]

//@ fn WriteArchive
//@   property C39
//@   requires 0 <= len(files) && len(files) < 4611686018427387904      // true of every Go map (address space); the engine does not assume it for a parameter map
//@   label C39.write.sorted
//@   ensures forall k int :: old(c39Written) <= k && k + 1 < c39Written ==> !strlt(c39Name[k+1], c39Name[k])
//@   label C39.write.fromfiles
//@   ensures forall k int :: old(c39Written) <= k && k < c39Written ==> (c39Name[k] in files) && c39Size[k] == len(files[c39Name[k]])
//@   label C39.write.constfields
//@   ensures forall k int :: old(c39Written) <= k && k < c39Written ==> c39Mode[k] == 420 && c39Type[k] == 48
//@   label C39.write.count
//@   ensures c39Written >= old(c39Written) && (result == nil ==> c39Written - old(c39Written) == len(paths))
//@   label C39.write.log.keeps
//@   ensures c39LogKeeps(old(c39Written))
//@   assigns c39Written, c39Name, c39Size, c39Mode, c39Type
//@   label C39.write.inv0
//@   loop 0: invariant fresh(paths) && (forall i in 0..len(paths) :: paths[i] in files)
//@   label C39.write.inv1.range
//@   loop 1: invariant fresh(paths) && -1 <= rangeindex && rangeindex < len(paths) && c39Written == old(c39Written) + rangeindex + 1 && gz != nil && tw != nil
//@   label C39.write.inv1.names
//@   loop 1: invariant forall k int :: old(c39Written) <= k && k < c39Written ==> c39Name[k] == paths[k - old(c39Written)] && c39Size[k] == len(files[c39Name[k]]) && c39Mode[k] == 420 && c39Type[k] == 48
// ground instances of the two invariants above for the header written last (these are what a broken edit refutes)
//@   label C39.write.inv1.last
//@   loop 1: invariant rangeindex >= 0 ==> c39Name[c39Written - 1] == paths[rangeindex] && c39Size[c39Written - 1] == len(files[paths[rangeindex]])
//@   label C39.write.inv1.lastorder
//@   loop 1: invariant rangeindex >= 1 ==> !strlt(paths[rangeindex], paths[rangeindex - 1])
//@   label C39.write.inv1.keeps
//@   loop 1: invariant c39LogKeeps(old(c39Written))

// ---------- OpenTraceSource: only fs.ValidPath keys enter the MapFS ----------
//@ ufunc c39Valid(name) bool
//@ ufunc c39Join2(a, b) int

//@ ext io/fs.ValidPath(name)
//@   trusted
//@   pure
//@   ensures result <==> c39Valid(name)
//@ ext path.Join(elem)
//@   trusted
//@   pure
//@   ensures len(elem) == 2 ==> result == c39Join2(elem[0], elem[1])
//@ ext encoding/base64.(*Encoding).DecodeString(enc, s)
//@   trusted
//@   ensures fresh(result0)
//@   assigns nothing
// what the trace database holds is arbitrary (an externally produced trace)
//@ ext database/sql.(*DB).Query(db, query, args)
//@   trusted
//@   ensures result1 == nil ==> result0 != nil
//@   assigns nothing
//@ ext database/sql.(*DB).QueryRow(db, query, args)
//@   trusted
//@   ensures result != nil
//@   assigns nothing
//@ ext database/sql.(*Row).Scan(r, dest)
//@   trusted
//@   assigns key("O|string|")
//@ ext database/sql.(*Rows).Next(rs)
//@   trusted
//@   assigns nothing
//@ ext database/sql.(*Rows).Err(rs)
//@   trusted
//@   assigns nothing
//@ ext database/sql.(*Rows).Close(rs)
//@   trusted
//@   assigns nothing
// Scan stores the row through the destination pointers: here two string variables
//@ ext database/sql.(*Rows).Scan(rs, dest)
//@   trusted
//@   assigns key("O|string|")
// fs.WalkDir calls the callback, which may write whatever it captured: no frame (whole heap havocked)
//@ ext io/fs.WalkDir(fsys, root, fn)
//@   trusted

//@ fn hasTable
//@   property C39
//@   requires db != nil
//@   assigns key("O|string|")      // Row.Scan writes the local `found` through a pointer; it only has the pointer, so its frame is the class of string variables

//@ fn NewSource
//@   property C39
//@   label C39.newsource.fsys
//@   ensures result1 == nil ==> result0 != nil && fresh(result0) && result0.fsys == fsys
//@   panics any

//@ fn OpenTraceSource
//@   property C39
//@   panics any
//@   label C39.open.inv0.valid
//@   loop 0: invariant mapFS != nil && fresh(mapFS) && rootSet != nil && fresh(rootSet) && rows != nil && (forall k int :: (k in mapFS) ==> c39Valid(k))
//@   label C39.open.inv1.valid
//@   loop 1: invariant mapFS != nil && fresh(mapFS) && rootSet != nil && fresh(rootSet) && rows != nil && files != nil && (forall k int :: (k in mapFS) ==> c39Valid(k))

// ---------- accessors used by the HTTP / agent tools (daisen2/internal/httpapi) ----------
//@ fn (*Source).FS
//@   property C39
//@   label C39.source.fs
//@   ensures s == nil ? result == nil : result == s.fsys
//@   pure
//@ fn (*Source).IsEmpty
//@   property C39
//@   label C39.source.isempty
//@   ensures result <==> (s == nil || s.Files == 0)
//@   pure
