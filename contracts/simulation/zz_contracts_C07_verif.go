//go:build verif

// Contracts for package simulation, property C07 (comment-only; read by /verif/engine, never compiled into a build).
// C07: (a) the entity-set coverage check accepts an archive exactly when its entity names are the rebuilt simulation's
// entity names; (b) the archive writer emits its entries in strictly increasing name order and rejects duplicates; the
// archive reader never panics and rejects duplicate / unexpected entries.
package simulation

// ---- entities: Name() is an opaque, side-effect-free attribute (trusted interface contract) ----
//@ ufunc entName(e) int
//@ iface simulation.Entity.Name
//@   trusted
//@   pure
//@   panics typeid(self) == 0
//@   ensures result == entName(self)

//@ pred entitiesOK(s) = forall i in 0..len(s.entities) :: s.entities[i] != nil

// ---- checkpointCoverage: names in the archive == names of the rebuilt entities ----
// named (witness) = the local map `rebuilt` = exactly the set of entity names; src[k] = an entity carrying name k.
//@ fn (*Simulation).checkpointCoverage
//@   property C07
//@   requires s != nil && entitiesOK(s)
//@   witness src map = src
//@   label C07.coverage.rebuilt.complete
//@   ensures forall i in 0..len(s.entities) :: entName(s.entities[i]) in rebuilt
//@   label C07.coverage.rebuilt.exact
//@   ensures forall k int :: (k in rebuilt) ==> 0 <= src[k] && src[k] < len(s.entities) && entName(s.entities[src[k]]) == k
//@   label C07.coverage.extra.mismatch
//@   ensures result == nil ==> (forall k int :: (k in payloads) ==> (k in rebuilt))
//@   label C07.coverage.missing.mismatch
//@   ensures result == nil ==> (forall k int :: (k in rebuilt) ==> (k in payloads))
//@   assigns nothing
//@   loop 0: ghost src = idperm
//@   loop 0: backedge src = upd(src, entName(entity), rangeindex)
//@   loop 0: invariant -1 <= rangeindex && rangeindex < len(s.entities) && rebuilt != nil && fresh(rebuilt)
//@   loop 0: invariant forall i in 0..rangeindex + 1 :: entName(s.entities[i]) in rebuilt
//@   loop 0: invariant forall k int :: (k in rebuilt) ==> 0 <= src[k] && src[k] <= rangeindex && entName(s.entities[src[k]]) == k
//@   loop 1: invariant forall k int :: (k in payloads) && visited(k) ==> (k in rebuilt)
//@   loop 2: invariant forall k int :: (k in rebuilt) && visited(k) ==> (k in payloads)

// ---- trusted: standard library used by the archive code (archive/tar, compress/gzip, io, errors, strings, net/url) ----
// Readers: what a corrupt or hostile archive yields is unconstrained. tarRead (ghost) counts the headers that
// (*tar.Reader).Next has returned successfully.
//@ ghost var tarRead int
//@ ext compress/gzip.NewReader(r)
//@   trusted
//@   ensures result1 == nil ==> result0 != nil
//@   assigns nothing
//@ ext compress/gzip.(*Reader).Close(z)
//@   trusted
//@   assigns nothing
//@ ext archive/tar.NewReader(r)
//@   trusted
//@   ensures result != nil
//@   assigns nothing
//@ ext archive/tar.(*Reader).Next(tr)
//@   trusted
//@   ensures result1 == nil ==> result0 != nil && fresh(result0) && tarRead == old(tarRead) + 1
//@   ensures result1 != nil ==> tarRead == old(tarRead)
//@   assigns tarRead
//@ ext errors.Is(err, target)
//@   trusted
//@   ensures err == nil ==> !result
//@   assigns nothing
//@ ext io.ReadAll(r)
//@   trusted
//@   assigns nothing
//@ ext strings.HasPrefix(s, prefix)
//@   trusted
//@   assigns nothing
//@ ext strings.TrimPrefix(s, prefix)
//@   trusted
//@   assigns nothing
//@ ext net/url.PathUnescape(s)
//@   trusted
//@   assigns nothing
//@ ext net/url.PathEscape(s)
//@   trusted
//@   assigns nothing

//@ fn entityName
//@   property C07
//@   assigns nothing
//@ fn entityPath
//@   property C07
//@   assigns nothing

// ---- readArchiveStream: never panics; on success there is a non-empty build ID and EVERY entry read is accounted for:
// one build_id entry plus one DISTINCT map key per entity entry (a duplicate would leave len(payloads) short). ----
//@ fn readArchiveStream
//@   property C07
//@   label C07.read.ok.buildid
//@   ensures result2 == nil ==> result0 != "" && result1 != nil
//@   label C07.read.ok.no.duplicates
//@   ensures result2 == nil ==> len(result1) + 1 == tarRead - old(tarRead)
//@   label C07.read.error.empty
//@   ensures result2 != nil ==> result1 == nil && result0 == ""
//@   assigns tarRead
//@   loop 0: invariant payloads != nil && fresh(payloads) && gz != nil && tr != nil
//@   loop 0: invariant len(payloads) + (foundBuildID ? 1 : 0) == tarRead - old(tarRead)

// ---- the writer side. Trusted: archive/tar + compress/gzip writers. The ghost log tarName/tarMode/tarSize/tarMtime*/
// tarDataRef records, per header handed to (*tar.Writer).WriteHeader (index tarWritten), what was handed over. ----
//@ ghost var tarWritten int
//@ ghost var tarName map
//@ ghost var tarMode map
//@ ghost var tarSize map
//@ ghost var tarDataRef map
//@ ext compress/gzip.NewWriter(w)
//@   trusted
//@   ensures result != nil && fresh(result)
//@   assigns nothing
//@ ext compress/gzip.(*Writer).Close(z)
//@   trusted
//@   assigns nothing
//@ ext archive/tar.NewWriter(w)
//@   trusted
//@   ensures result != nil && fresh(result)
//@   assigns nothing
//@ ext archive/tar.(*Writer).Close(tw)
//@   trusted
//@   assigns nothing
//@ ext time.Unix(sec, nsec)
//@   trusted
//@   assigns nothing
//@ ext archive/tar.(*Writer).WriteHeader(tw, hdr)
//@   trusted
//@   requires tw != nil && hdr != nil
//@   ensures tarWritten == old(tarWritten) + 1 && tarName == upd(old(tarName), old(tarWritten), hdr.Name) && tarMode == upd(old(tarMode), old(tarWritten), hdr.Mode) && tarSize == upd(old(tarSize), old(tarWritten), hdr.Size)
//@   assigns tarWritten, tarName, tarMode, tarSize
//@ ext archive/tar.(*Writer).Write(tw, b)
//@   trusted
//@   requires tw != nil
//@   ensures tarDataRef == upd(old(tarDataRef), tarWritten - 1, ref(b))
//@   assigns tarDataRef

//@ pred logKeeps(from) = forall k int :: k < from ==> tarName[k] == old(tarName)[k] && tarMode[k] == old(tarMode)[k] && tarSize[k] == old(tarSize)[k] && tarDataRef[k] == old(tarDataRef)[k]

//@ fn writeTarEntry
//@   property C07
//@   requires tw != nil
//@   label C07.entry.logged
//@   ensures result == nil ==> tarWritten == old(tarWritten) + 1 && tarName[old(tarWritten)] == path && tarMode[old(tarWritten)] == 384 && tarSize[old(tarWritten)] == len(data) && tarDataRef[old(tarWritten)] == ref(data)
//@   label C07.entry.log.kept
//@   ensures logKeeps(old(tarWritten))
//@   label C07.entry.log.monotone
//@   ensures tarWritten >= old(tarWritten)
//@   assigns tarWritten, tarName, tarMode, tarSize, tarDataRef

//@ pred permOf(pi, n) = (forall j in 0..n :: 0 <= pi[j] && pi[j] < n) && (forall j in 0..n :: forall k in 0..n :: j != k ==> pi[j] != pi[k])

// writeArchiveStream: on success the log holds build_id first, then the entries' payloads in the order pi (a permutation
// of the input) in which the names never decrease (strlt = Go's string <) and are pairwise different: strictly
// increasing, whatever the input order was; two entries with the same name make it fail.
//@ fn writeArchiveStream
//@   property C07
//@   witness pi map = Slice_pi
//@   label C07.write.count
//@   ensures result == nil ==> tarWritten == old(tarWritten) + 1 + len(entries)
//@   label C07.write.buildid.first
//@   ensures result == nil ==> tarName[old(tarWritten)] == buildIDPath
//@   label C07.write.perm
//@   ensures result == nil ==> permOf(pi, len(entries))
//@   label C07.write.payload.order
//@   ensures result == nil ==> (forall k in 0..len(entries) :: tarDataRef[old(tarWritten) + 1 + k] == ref(entries[pi[k]].data) && tarMode[old(tarWritten) + 1 + k] == 384)
//@   label C07.write.sorted
//@   ensures result == nil ==> (forall k in 1..len(entries) :: !strlt(entries[pi[k]].name, entries[pi[k - 1]].name))
//@   label C07.write.strictly.increasing
//@   ensures result == nil ==> (forall k in 1..len(entries) :: strlt(entries[pi[k - 1]].name, entries[pi[k]].name))
//@   label C07.write.duplicates.rejected
//@   ensures result == nil ==> (forall a in 0..len(entries) :: forall b in 0..len(entries) :: a != b ==> entries[pi[a]].name != entries[pi[b]].name)
//@   label C07.write.log.kept
//@   ensures logKeeps(old(tarWritten))
//@   assigns tarWritten, tarName, tarMode, tarSize, tarDataRef
//@   loop 0: ghost at = idperm
//@   loop 0: backedge at = upd(at, entry.name, rangeindex)
//@   loop 0: invariant -1 <= rangeindex && rangeindex < len(sorted) && len(sorted) == len(entries) && (len(sorted) == 0 || fresh(sorted)) && seen != nil && fresh(seen) && tw != nil && gz != nil
//@   loop 0: invariant permOf(Slice_pi, len(entries)) && (forall k in 0..len(sorted) :: sorted[k].name == entries[Slice_pi[k]].name && ref(sorted[k].data) == ref(entries[Slice_pi[k]].data))
//@   loop 0: invariant forall i in 0..len(sorted) :: forall j in 0..len(sorted) :: i < j ==> !strlt(sorted[j].name, sorted[i].name)
//@   loop 0: invariant len(sorted) >= 2 ==> !strlt(sorted[1].name, sorted[0].name)        // ground instance of the previous invariant (so a broken sort order is refuted, not merely undecided)
//@   loop 0: invariant rangeindex >= 1 ==> sorted[0].name != sorted[1].name                  // ground instance of the distinctness invariant below
//@   loop 0: invariant tarWritten == old(tarWritten) + 2 + rangeindex && tarName[old(tarWritten)] == buildIDPath && logKeeps(old(tarWritten))
//@   loop 0: invariant forall k in 0..rangeindex + 1 :: tarDataRef[old(tarWritten) + 1 + k] == ref(sorted[k].data) && tarMode[old(tarWritten) + 1 + k] == 384
//@   loop 0: invariant forall k in 0..rangeindex + 1 :: sorted[k].name in seen
//@   loop 0: invariant forall n int :: (n in seen) ==> 0 <= at[n] && at[n] <= rangeindex && sorted[at[n]].name == n
//@   loop 0: invariant forall a in 0..rangeindex + 1 :: forall b in 0..rangeindex + 1 :: a != b ==> sorted[a].name != sorted[b].name
