//go:build verif

// Contracts for package simulation, property C07 (comment-only; read by /verif/engine, never compiled into a build).
// C07: (a) the entity-set coverage check accepts an archive exactly when its entity names are the rebuilt simulation's
// entity names; (b) the archive writer emits its entries in strictly increasing name order and rejects duplicates; the
// archive reader never panics and rejects duplicate / unexpected entries.
package simulation

// ---- entities: Name() is an opaque, side-effect-free attribute (trusted interface contract) ----
//@ ufunc entName(e) int
//@ iface simulation.Entity.Name
//@   trusted
//@   pure
//@   panics typeid(self) == 0
//@   ensures result == entName(self)

//@ pred entitiesOK(s) = forall i in 0..len(s.entities) :: s.entities[i] != nil

// ---- checkpointCoverage: names in the archive == names of the rebuilt entities ----
// named (witness) = the local map `rebuilt` = exactly the set of entity names; src[k] = an entity carrying name k.
//@ fn (*Simulation).checkpointCoverage
//@   property C07
//@   requires s != nil && entitiesOK(s)
//@   witness src map = src
//@   label C07.coverage.rebuilt.complete
//@   ensures forall i in 0..len(s.entities) :: entName(s.entities[i]) in rebuilt
//@   label C07.coverage.rebuilt.exact
//@   ensures forall k int :: (k in rebuilt) ==> 0 <= src[k] && src[k] < len(s.entities) && entName(s.entities[src[k]]) == k
//@   label C07.coverage.extra.mismatch
//@   ensures result == nil ==> (forall k int :: (k in payloads) ==> (k in rebuilt))
//@   label C07.coverage.missing.mismatch
//@   ensures result == nil ==> (forall k int :: (k in rebuilt) ==> (k in payloads))
//@   assigns nothing
//@   loop 0: ghost src = idperm
//@   loop 0: backedge src = upd(src, entName(entity), rangeindex)
//@   loop 0: invariant -1 <= rangeindex && rangeindex < len(s.entities) && rebuilt != nil && fresh(rebuilt)
//@   loop 0: invariant forall i in 0..rangeindex + 1 :: entName(s.entities[i]) in rebuilt
//@   loop 0: invariant forall k int :: (k in rebuilt) ==> 0 <= src[k] && src[k] <= rangeindex && entName(s.entities[src[k]]) == k
//@   loop 1: invariant forall k int :: (k in payloads) && visited(k) ==> (k in rebuilt)
//@   loop 2: invariant forall k int :: (k in rebuilt) && visited(k) ==> (k in payloads)

// ---- trusted: standard library used by the archive code (archive/tar, compress/gzip, io, errors, strings, net/url) ----
// Readers: what a corrupt or hostile archive yields is unconstrained. tarRead (ghost) counts the headers that
// (*tar.Reader).Next has returned successfully.
//@ ghost var tarRead int
//@ ext compress/gzip.NewReader(r)
//@   trusted
//@   ensures result1 == nil ==> result0 != nil
//@   assigns nothing
//@ ext compress/gzip.(*Reader).Close(z)
//@   trusted
//@   assigns nothing
//@ ext archive/tar.NewReader(r)
//@   trusted
//@   ensures result != nil
//@   assigns nothing
//@ ext archive/tar.(*Reader).Next(tr)
//@   trusted
//@   ensures result1 == nil ==> result0 != nil && fresh(result0) && tarRead == old(tarRead) + 1
//@   ensures result1 != nil ==> tarRead == old(tarRead)
//@   assigns tarRead
//@ ext errors.Is(err, target)
//@   trusted
//@   ensures err == nil ==> !result
//@   assigns nothing
//@ ext io.ReadAll(r)
//@   trusted
//@   assigns nothing
//@ ext strings.HasPrefix(s, prefix)
//@   trusted
//@   assigns nothing
//@ ext strings.TrimPrefix(s, prefix)
//@   trusted
//@   assigns nothing
//@ ext net/url.PathUnescape(s)
//@   trusted
//@   assigns nothing
//@ ext net/url.PathEscape(s)
//@   trusted
//@   assigns nothing

//@ fn entityName
//@   property C07
//@   assigns nothing
//@ fn entityPath
//@   property C07
//@   assigns nothing

// ---- readArchiveStream: never panics; on success there is a non-empty build ID and EVERY entry read is accounted for:
// one build_id entry plus one DISTINCT map key per entity entry (a duplicate would leave len(payloads) short). ----
//@ fn readArchiveStream
//@   property C07
//@   label C07.read.ok.buildid
//@   ensures result2 == nil ==> result0 != "" && result1 != nil
//@   label C07.read.ok.no.duplicates
//@   ensures result2 == nil ==> len(result1) + 1 == tarRead - old(tarRead)
//@   label C07.read.error.empty
//@   ensures result2 != nil ==> result1 == nil && result0 == ""
//@   assigns tarRead
//@   loop 0: invariant payloads != nil && fresh(payloads) && gz != nil && tr != nil
//@   loop 0: invariant len(payloads) + (foundBuildID ? 1 : 0) == tarRead - old(tarRead)
