//go:build verif

// C35 — "The data recorder persists every entry exactly once".
// Sequential contracts of InsertData / Flush / insertEntryForTable / getLocationID / flushLocationTable over a ghost log of
// prepared-statement executions, plus the lock discipline of sqliteWriter.mu (sequentialised rely/guarantee).
// SQLite and reflection are out of reach: database/sql and reflect calls carry TRUSTED ext contracts (see below).
package datarecording

// ---------------------------------------------------------------------------------------------------------------------
// Ghost log of (*sql.Stmt).ExecContext: c35Cnt[stmt] = number of executions so far; the n-th execution of stmt was
// issued for the entry (c35Typ[stmt][n], c35Val[stmt][n]) = the value most recently handed to reflect.ValueOf
// (c35CurTyp/c35CurVal): the row is built, field by field, from that reflected value.
//@ ghost var c35Cnt map
//@ ghost var c35Typ map2
//@ ghost var c35Val map2
//@ ghost var c35CurTyp int
//@ ghost var c35CurVal int
// c35Q: scratch flag of Flush's loops (declared globally only so that it is defined on every path): "so far no call of
// insertEntryForTable found the guarded data changed by another holder of the lock"
//@ ghost var c35Q bool

// TRUSTED (standard library): executing a prepared statement appends one row to the statement's log; the error is arbitrary.
//@ ext database/sql.(*Stmt).ExecContext(s, ctx, args)
//@   trusted
//@   ensures c35Cnt == upd(old(c35Cnt), s, old(c35Cnt)[s] + 1)
//@   ensures c35Typ == upd(old(c35Typ), s, upd(old(c35Typ)[s], old(c35Cnt)[s], c35CurTyp))
//@   ensures c35Val == upd(old(c35Val), s, upd(old(c35Val)[s], old(c35Cnt)[s], c35CurVal))
//@   assigns c35Cnt, c35Typ, c35Val
// TRUSTED: plain statements (BEGIN/COMMIT TRANSACTION, DDL) do not touch the recorder or the row log.
//@ ext database/sql.(*DB).ExecContext(db, ctx, query, args)
//@   trusted
//@   assigns nothing
//@ ext context.Background()
//@   trusted
//@   pure
//@ ext fmt.Printf(format, a)
//@   trusted
//@   assigns nothing

// TRUSTED (reflection is opaque): reflect.ValueOf remembers which value is being reflected; the other reflect calls are
// side-effect free and do not panic for in-range field indices.
//@ ext reflect.ValueOf(i)
//@   trusted
//@   ensures c35CurTyp == typeid(i) && c35CurVal == ifaceval(i)
//@   assigns c35CurTyp, c35CurVal
//@ ext reflect.(Value).Type(v)
//@   trusted
//@   pure
//@   ensures result != nil
//@ ext reflect.(Value).NumField(v)
//@   trusted
//@   pure
//@ ext reflect.(Value).Field(v, i)
//@   trusted
//@   pure
// reflect.(Value).Interface: trusted `assigns nothing` contract declared in internal/codec (C08 file); ext contracts are global.
//@ ext reflect.(Value).String(v)
//@   trusted
//@   pure
//@ iface reflect.Type.Field(i)
//@   trusted
//@   pure
//@ ext reflect.(StructTag).Lookup(tag, key)
//@   trusted
//@   pure
// strings.Contains: trusted pure contract declared in daisen2/internal/httpapi (C38 file).

// ---------------------------------------------------------------------------------------------------------------------
// Representation.
//@ func c35Tab(t, k) = t.tables[k]
//@ func c35Ent(t, k) = t.tables[k].entries

// immutable shape (set up by CreateTable, which is outside the contract's reach: reflection + SQL DDL)
//@ pred c35Shape(t) = t != nil && t.DB != nil && t.tables != nil && t.locationInfo != nil
//@   && "location" in t.tables
//@   && (forall k int :: k in t.tables ==> t.tables[k] != nil && t.tables[k] <= allocTop && t.tables[k].statement != nil)
//@   && (forall k1 int, k2 int :: k1 in t.tables && k2 in t.tables && k1 != k2 ==> t.tables[k1] != t.tables[k2] && t.tables[k1].statement != t.tables[k2].statement)

// guarded data: the batches never share storage
//@ pred c35Disj(t) = (forall k1 int, k2 int :: k1 in t.tables && k2 in t.tables && k1 != k2 && cap(t.tables[k1].entries) > 0 ==> ref(t.tables[k1].entries) != ref(t.tables[k2].entries))
//@   && (forall k int :: k in t.tables ==> ref(t.tables[k].entries) <= allocTop && (cap(t.tables[k].entries) > 0 ==> ref(t.tables[k].entries) != 0) && len(t.tables[k].entries) <= cap(t.tables[k].entries))

// location interning: IDs are 1..n and pairwise different (hence a bijection onto 1..n)
//@ pred c35LocBij(t) = len(t.locationInfo) < MaxInt64 ==> ((forall s int :: s in t.locationInfo ==> 1 <= t.locationInfo[s] && t.locationInfo[s] <= len(t.locationInfo))
//@   && (forall s1 int, s2 int :: s1 in t.locationInfo && s2 in t.locationInfo && s1 != s2 ==> t.locationInfo[s1] != t.locationInfo[s2]))
// (stated arithmetic bound: fewer than 2^63-1 interned locations; a Go map cannot hold that many)

// Lock invariant of sqliteWriter.mu. Guarded: every table's batch, entryCount, the location map.
// Stability relation (what every holder does, hence what every other goroutine may rely on across an acquisition):
// batches only grow at the end, interned locations are never re-numbered.
//@ lockinv sqliteWriter.mu(t)
//@   assigns key("O|datarecording.table|.entries"), t.entryCount, elems(t.locationInfo)
//@   requires c35Disj(t) && c35LocBij(t)
//@   ensures forall k int :: k in t.tables ==> len(t.tables[k].entries) >= old(len(t.tables[k].entries))
//@   ensures forall k int :: k in t.tables ==> (forall j in 0..old(len(t.tables[k].entries)) :: t.tables[k].entries[j] == old(t.tables[k].entries[j]))
//@   ensures forall s int :: old(s in t.locationInfo) ==> s in t.locationInfo && t.locationInfo[s] == old(t.locationInfo[s])

// ---------------------------------------------------------------------------------------------------------------------
//@ fn (*sqliteWriter).fieldIgnored
//@   property C35
//@   pure
//@ fn (*sqliteWriter).fieldLocation
//@   property C35
//@   pure

//@ fn (*sqliteWriter).getLocationID
//@   property C35
//@   requires c35Shape(t) && c35LocBij(t) && c35Disj(t)
//@   witness loc int = loc
//@   label C35.loc.result
//@   ensures loc in t.locationInfo && result == t.locationInfo[loc]
//@   label C35.loc.known
//@   ensures old(loc in t.locationInfo) ==> result == old(t.locationInfo[loc]) && len(t.locationInfo) == old(len(t.locationInfo)) && t.entryCount == old(t.entryCount)
//@     && len(t.tables["location"].entries) == old(len(t.tables["location"].entries)) && ref(t.tables["location"].entries) == old(ref(t.tables["location"].entries))
//@     && off(t.tables["location"].entries) == old(off(t.tables["location"].entries))
//@   label C35.loc.new
//@   ensures !old(loc in t.locationInfo) ==> len(t.locationInfo) == old(len(t.locationInfo)) + 1
//@     && (old(len(t.locationInfo)) < MaxInt64 ==> result == old(len(t.locationInfo)) + 1)
//@     && (old(t.entryCount) < MaxInt64 ==> t.entryCount == old(t.entryCount) + 1)
//@     && len(t.tables["location"].entries) == old(len(t.tables["location"].entries)) + 1
//@   label C35.loc.new.row
//@   ensures !old(loc in t.locationInfo) ==> hastype(t.tables["location"].entries[old(len(t.tables["location"].entries))], "location")
//@     && as(t.tables["location"].entries[old(len(t.tables["location"].entries))], "location").ID == result
//@     && as(t.tables["location"].entries[old(len(t.tables["location"].entries))], "location").Locale == loc
//@   label C35.loc.others
//@   ensures forall s int :: s != loc ==> ((s in t.locationInfo) <==> old(s in t.locationInfo)) && (old(s in t.locationInfo) ==> t.locationInfo[s] == old(t.locationInfo[s]))
//@   label C35.loc.prefix
//@   ensures forall j in 0..old(len(t.tables["location"].entries)) :: t.tables["location"].entries[j] == old(t.tables["location"].entries[j])
//@   label C35.loc.storage
//@   ensures ref(t.tables["location"].entries) == old(ref(t.tables["location"].entries)) || fresh(t.tables["location"].entries)
//@   label C35.loc.bijection
//@   ensures c35LocBij(t)
//@   label C35.loc.disjoint
//@   ensures c35Disj(t)
//@   assigns elems(t.locationInfo), t.tables["location"].entries, elems(t.tables["location"].entries), t.entryCount

// ---------------------------------------------------------------------------------------------------------------------
// One row for one entry. Runs under the lock: what it can promise about the batches RELATIVE TO ITS ENTRY STATE is only what
// the lock's stability relation gives (batches may have grown while it waited for the lock) — unless nobody interfered:
// the witness `quiet` says the guarded data found at acquisition was the data seen at entry.
//@ pred c35HdrSame(t) = forall k int :: k in t.tables ==> atlock(len(t.tables[k].entries)) == old(len(t.tables[k].entries)) && atlock(ref(t.tables[k].entries)) == old(ref(t.tables[k].entries)) && atlock(off(t.tables[k].entries)) == old(off(t.tables[k].entries))
//@ fn (*sqliteWriter).insertEntryForTable
//@   property C35
//@   requires c35Shape(t) && c35Disj(t) && c35LocBij(t)
//@   requires exists k int :: k in t.tables && t.tables[k] == table
//@   panics any
//@   witness quiet bool = c35HdrSame(t)
//@   label C35.row.count
//@   ensures c35Cnt == upd(old(c35Cnt), table.statement, old(c35Cnt)[table.statement] + 1)
//@   label C35.row.entry
//@   ensures c35Typ == upd(old(c35Typ), table.statement, upd(old(c35Typ)[table.statement], old(c35Cnt)[table.statement], typeid(task)))
//@     && c35Val == upd(old(c35Val), table.statement, upd(old(c35Val)[table.statement], old(c35Cnt)[table.statement], ifaceval(task)))
//@   label C35.row.grow
//@   ensures forall k int :: k in t.tables ==> len(t.tables[k].entries) >= old(len(t.tables[k].entries))
//@   label C35.row.prefix
//@   ensures forall k int :: k in t.tables ==> (forall j in 0..old(len(t.tables[k].entries)) :: t.tables[k].entries[j] == old(t.tables[k].entries[j]))
//@   label C35.row.locs
//@   ensures forall s int :: old(s in t.locationInfo) ==> s in t.locationInfo && t.locationInfo[s] == old(t.locationInfo[s])
//@   label C35.row.quiet
//@   ensures quiet ==> (forall k int :: k in t.tables && k != "location" ==> len(t.tables[k].entries) == old(len(t.tables[k].entries)) && ref(t.tables[k].entries) == old(ref(t.tables[k].entries)) && off(t.tables[k].entries) == old(off(t.tables[k].entries)))
//@   label C35.row.inv
//@   ensures c35Disj(t) && c35LocBij(t)
//@   assigns key("O|datarecording.table|.entries"), table.entries, key("E|any|"), t.entryCount, elems(t.locationInfo), c35Cnt, c35Typ, c35Val, c35CurTyp, c35CurVal
//@   loop 0: invariant 0 <= i && (fresh(v) || cap(v) == 0) && c35Disj(t) && c35LocBij(t)
//@   loop 0: invariant cap(v) > 0 ==> (forall k int :: k in t.tables ==> ref(t.tables[k].entries) != ref(v))
//@   loop 0: invariant c35Cnt == old(c35Cnt) && c35Typ == old(c35Typ) && c35Val == old(c35Val) && c35CurTyp == typeid(task) && c35CurVal == ifaceval(task)
//@   loop 0: invariant forall k int :: k in t.tables ==> len(t.tables[k].entries) >= atlock(len(t.tables[k].entries))
//@   loop 0: invariant forall j in 0..atlock(len(t.tables["location"].entries)) :: t.tables["location"].entries[j] == atlock(t.tables["location"].entries[j])
//@   loop 0: invariant forall k int :: k in t.tables && k != "location" && cap(t.tables[k].entries) > 0 ==> ref(t.tables[k].entries) != ref(t.tables["location"].entries)
//@   loop 0: invariant forall k int :: k in t.tables && k != "location" ==> (forall j in 0..atlock(len(t.tables[k].entries)) :: t.tables[k].entries[j] == atlock(t.tables[k].entries[j]))
//@   loop 0: invariant forall k int :: k in t.tables && k != "location" ==> len(t.tables[k].entries) == atlock(len(t.tables[k].entries)) && ref(t.tables[k].entries) == atlock(ref(t.tables[k].entries)) && off(t.tables[k].entries) == atlock(off(t.tables[k].entries))
//@   loop 0: invariant forall s int :: atlock(s in t.locationInfo) ==> s in t.locationInfo && t.locationInfo[s] == atlock(t.locationInfo[s])

// ---------------------------------------------------------------------------------------------------------------------
// InsertData: exactly one entry is appended to the named table's batch (state at lock acquisition -> state at release); when the
// batch limit is reached the whole batch, ending with this entry, goes to the table's prepared statement and the batch is emptied.
// Arithmetic assumption stated in the clauses: entryCount has not reached MaxInt64 / is not negative (it counts batched entries).
//@ fn (*sqliteWriter).InsertData
//@   property C35
//@   requires c35Shape(t) && c35Disj(t) && c35LocBij(t)
//@   panics any
//@   witness atomic bool = Flush_atomic
//@   label C35.insert.exists
//@   ensures old(tableName in t.tables)
//@   label C35.insert.batched
//@   ensures atlock(t.entryCount) < MaxInt64 && atlock(t.entryCount) + 1 < t.batchSize ==>
//@        len(t.tables[tableName].entries) == atlock(len(t.tables[tableName].entries)) + 1
//@     && t.tables[tableName].entries[atlock(len(t.tables[tableName].entries))] == entry
//@     && t.entryCount == atlock(t.entryCount) + 1
//@     && c35Cnt == old(c35Cnt) && c35Typ == old(c35Typ) && c35Val == old(c35Val)
//@   label C35.insert.batched.prefix
//@   ensures atlock(t.entryCount) < MaxInt64 && atlock(t.entryCount) + 1 < t.batchSize ==>
//@     (forall j in 0..atlock(len(t.tables[tableName].entries)) :: t.tables[tableName].entries[j] == atlock(t.tables[tableName].entries[j]))
//@   label C35.insert.batched.others
//@   ensures atlock(t.entryCount) < MaxInt64 && atlock(t.entryCount) + 1 < t.batchSize ==>
//@     (forall k int :: k in t.tables && k != tableName ==> len(t.tables[k].entries) == atlock(len(t.tables[k].entries)) && ref(t.tables[k].entries) == atlock(ref(t.tables[k].entries)))
//@   label C35.insert.flushed
//@   ensures atomic && tableName != "location" && 0 <= atlock(t.entryCount) && atlock(t.entryCount) < MaxInt64 && atlock(t.entryCount) + 1 >= t.batchSize ==>
//@        len(t.tables[tableName].entries) == 0
//@     && c35Cnt[t.tables[tableName].statement] == old(c35Cnt)[t.tables[tableName].statement] + atlock(len(t.tables[tableName].entries)) + 1
//@     && c35Typ[t.tables[tableName].statement][c35Cnt[t.tables[tableName].statement] - 1] == typeid(entry)
//@     && c35Val[t.tables[tableName].statement][c35Cnt[t.tables[tableName].statement] - 1] == ifaceval(entry)
//@   label C35.insert.inv
//@   ensures c35Disj(t) && c35LocBij(t)
//@   assigns key("O|datarecording.table|.entries"), key("E|any|"), t.entryCount, elems(t.locationInfo), c35Cnt, c35Typ, c35Val, c35CurTyp, c35CurVal, c35Q

// ---------------------------------------------------------------------------------------------------------------------
// Flushing. No lock is taken here: flushLocationTable is read sequentially.
//@ func c35LocStmt(t) = t.tables["location"].statement
//@ fn (*sqliteWriter).flushLocationTable
//@   property C35
//@   requires c35Shape(t) && c35Disj(t)
//@   panics any
//@   label C35.flushloc.count
//@   ensures c35Cnt == upd(old(c35Cnt), c35LocStmt(t), old(c35Cnt)[c35LocStmt(t)] + old(len(t.tables["location"].entries)))
//@   label C35.flushloc.rows
//@   ensures forall j in 0..old(len(t.tables["location"].entries)) :: c35Typ[c35LocStmt(t)][old(c35Cnt)[c35LocStmt(t)] + j] == typeid(old(t.tables["location"].entries[j])) && c35Val[c35LocStmt(t)][old(c35Cnt)[c35LocStmt(t)] + j] == ifaceval(old(t.tables["location"].entries[j]))
//@   label C35.flushloc.oldrows
//@   ensures forall s int, n int :: (s != c35LocStmt(t) || n < old(c35Cnt)[s]) ==> c35Typ[s][n] == old(c35Typ)[s][n] && c35Val[s][n] == old(c35Val)[s][n]
//@   label C35.flushloc.empty
//@   ensures len(t.tables["location"].entries) == 0 && c35Disj(t)
//@   assigns t.tables["location"].entries, c35Cnt, c35Typ, c35Val, c35CurTyp, c35CurVal
//@   loop 0: invariant -1 <= rangeindex && rangeindex < old(len(t.tables["location"].entries)) && table == t.tables["location"]
//@   loop 0: invariant len(table.entries) == old(len(table.entries)) && ref(table.entries) == old(ref(table.entries)) && off(table.entries) == old(off(table.entries))
//@   loop 0: invariant c35Cnt == upd(old(c35Cnt), c35LocStmt(t), old(c35Cnt)[c35LocStmt(t)] + rangeindex + 1)
//@   loop 0: invariant forall j in 0..rangeindex + 1 :: c35Typ[c35LocStmt(t)][old(c35Cnt)[c35LocStmt(t)] + j] == typeid(old(t.tables["location"].entries[j])) && c35Val[c35LocStmt(t)][old(c35Cnt)[c35LocStmt(t)] + j] == ifaceval(old(t.tables["location"].entries[j]))
//@   loop 0: invariant forall s int, n int :: (s != c35LocStmt(t) || n < old(c35Cnt)[s]) ==> c35Typ[s][n] == old(c35Typ)[s][n] && c35Val[s][n] == old(c35Val)[s][n]
//@   loop 1: invariant 0 <= i && (fresh(v) || cap(v) == 0)

//@ fn (*sqliteWriter).mustExecute
//@   property C35
//@   requires t != nil && t.DB != nil
//@   panics any
//@   assigns nothing

// Flush (sequential statement): every batched entry of every table goes to that table's prepared statement exactly once, in
// batch order, and every batch is emptied. The statement needs the batches to stay put between Flush's unlocked reads and its
// unlocked clear; the only thing Flush can rely on across insertEntryForTable's lock acquisitions is the lock's stability
// relation (batches may GROW). Obligation C35.flush.atomic is that missing guarantee.
//@ pred c35HdrOld(t, k) = len(t.tables[k].entries) == old(len(t.tables[k].entries)) && ref(t.tables[k].entries) == old(ref(t.tables[k].entries)) && off(t.tables[k].entries) == old(off(t.tables[k].entries))
//@ func c35St(t, k) = t.tables[k].statement
//@ fn (*sqliteWriter).Flush
//@   property C35
//@   requires c35Shape(t) && c35Disj(t) && c35LocBij(t)
//@   panics any
//@   witness atomic bool = c35Q
//@   label C35.flush.idle
//@   ensures old(t.entryCount) == 0 ==> c35Cnt == old(c35Cnt) && c35Typ == old(c35Typ) && c35Val == old(c35Val) && (forall k int :: k in t.tables ==> c35HdrOld(t, k))
//@   label C35.flush.count
//@   ensures old(t.entryCount) != 0 && atomic ==> (forall k int :: k in t.tables && k != "location" ==> c35Cnt[c35St(t, k)] == old(c35Cnt)[c35St(t, k)] + old(len(t.tables[k].entries)))
//@   label C35.flush.order
//@   ensures old(t.entryCount) != 0 && atomic ==> (forall k int :: k in t.tables && k != "location" ==> (forall j in 0..old(len(t.tables[k].entries)) :: c35Typ[c35St(t, k)][old(c35Cnt)[c35St(t, k)] + j] == typeid(old(t.tables[k].entries[j])) && c35Val[c35St(t, k)][old(c35Cnt)[c35St(t, k)] + j] == ifaceval(old(t.tables[k].entries[j]))))
//@   label C35.flush.empty
//@   ensures old(t.entryCount) != 0 && atomic ==> (forall k int :: k in t.tables ==> len(t.tables[k].entries) == 0)
//@   label C35.flush.location
//@   ensures old(t.entryCount) != 0 && atomic ==> c35Cnt[c35LocStmt(t)] >= old(c35Cnt)[c35LocStmt(t)] + old(len(t.tables["location"].entries))
//@   label C35.flush.oldrows
//@   ensures forall s int, n int :: n < old(c35Cnt)[s] ==> c35Typ[s][n] == old(c35Typ)[s][n] && c35Val[s][n] == old(c35Val)[s][n]
//@   label C35.flush.reset
//@   ensures old(t.entryCount) != 0 && atomic ==> t.entryCount == 0
//@   label C35.flush.inv
//@   ensures c35Disj(t) && c35LocBij(t)
//@   assigns key("O|datarecording.table|.entries"), key("E|any|"), t.entryCount, elems(t.locationInfo), c35Cnt, c35Typ, c35Val, c35CurTyp, c35CurVal, c35Q
//  ---- loop 0: the tables, in map order. c35Q = "no call of insertEntryForTable so far found the guarded data changed by somebody else"
//@   loop 0: ghost c35Q = true
//@   loop 0: backedge c35Q = c35Q
//@   loop 0: invariant old(t.entryCount) != 0 && c35Disj(t) && c35LocBij(t)
//@   loop 0: invariant forall s int :: c35Cnt[s] >= old(c35Cnt)[s]
//@   loop 0: invariant c35Q ==> (forall k int :: k in t.tables && k != "location" ==> c35Cnt[c35St(t, k)] == old(c35Cnt)[c35St(t, k)] + (visited(k) ? old(len(t.tables[k].entries)) : 0))
//@   loop 0: invariant c35Q ==> (forall k int :: k in t.tables && k != "location" ==> (visited(k) ? len(t.tables[k].entries) == 0 : c35HdrOld(t, k)))
//@   loop 0: invariant c35Q ==> (forall k int :: k in t.tables && k != "location" && !visited(k) ==> (forall j in 0..old(len(t.tables[k].entries)) :: t.tables[k].entries[j] == old(t.tables[k].entries[j])))
//@   loop 0: invariant c35Q ==> (forall k int :: k in t.tables && k != "location" && visited(k) ==> (forall j in 0..old(len(t.tables[k].entries)) :: c35Typ[c35St(t, k)][old(c35Cnt)[c35St(t, k)] + j] == typeid(old(t.tables[k].entries[j])) && c35Val[c35St(t, k)][old(c35Cnt)[c35St(t, k)] + j] == ifaceval(old(t.tables[k].entries[j]))))
//@   loop 0: invariant forall s int, n int :: n < old(c35Cnt)[s] ==> c35Typ[s][n] == old(c35Typ)[s][n] && c35Val[s][n] == old(c35Val)[s][n]
//@   loop 0: invariant len(t.tables["location"].entries) >= old(len(t.tables["location"].entries)) && c35Cnt[c35LocStmt(t)] == old(c35Cnt)[c35LocStmt(t)]
//  ---- loop 1: the batch of the current table (same ghost c35Q: it carries over from and back to loop 0)
//@   loop 1: ghost c35Q = c35Q
//@   loop 1: backedge c35Q = c35Q && insertEntryForTable_quiet
//@   loop 1: invariant old(t.entryCount) != 0 && c35Disj(t) && c35LocBij(t)
//@   loop 1: invariant tableName in t.tables && tableName != "location" && table == t.tables[tableName] && visited(tableName)
//@   loop 1: invariant -1 <= rangeindex
//@   loop 1: invariant c35Q ==> rangeindex < old(len(t.tables[tableName].entries))
//@   loop 1: invariant c35Q ==> c35Cnt[table.statement] == old(c35Cnt)[table.statement] + rangeindex + 1
//@   loop 1: invariant c35Q ==> c35HdrOld(t, tableName)
//@   loop 1: invariant c35Q ==> (forall j in 0..old(len(t.tables[tableName].entries)) :: t.tables[tableName].entries[j] == old(t.tables[tableName].entries[j]))
//@   loop 1: invariant c35Q ==> (forall j in 0..rangeindex + 1 :: c35Typ[table.statement][old(c35Cnt)[table.statement] + j] == typeid(old(t.tables[tableName].entries[j])) && c35Val[table.statement][old(c35Cnt)[table.statement] + j] == ifaceval(old(t.tables[tableName].entries[j])))
//@   loop 1: invariant forall s int :: c35Cnt[s] >= old(c35Cnt)[s]
//@   loop 1: invariant c35Q ==> (forall k int :: k in t.tables && k != "location" && k != tableName ==> c35Cnt[c35St(t, k)] == old(c35Cnt)[c35St(t, k)] + (visited(k) ? old(len(t.tables[k].entries)) : 0))
//@   loop 1: invariant c35Q ==> (forall k int :: k in t.tables && k != "location" && k != tableName ==> (visited(k) ? len(t.tables[k].entries) == 0 : c35HdrOld(t, k)))
//@   loop 1: invariant c35Q ==> (forall k int :: k in t.tables && k != "location" && !visited(k) ==> (forall j in 0..old(len(t.tables[k].entries)) :: t.tables[k].entries[j] == old(t.tables[k].entries[j])))
//@   loop 1: invariant c35Q ==> (forall k int :: k in t.tables && k != "location" && k != tableName && visited(k) ==> (forall j in 0..old(len(t.tables[k].entries)) :: c35Typ[c35St(t, k)][old(c35Cnt)[c35St(t, k)] + j] == typeid(old(t.tables[k].entries[j])) && c35Val[c35St(t, k)][old(c35Cnt)[c35St(t, k)] + j] == ifaceval(old(t.tables[k].entries[j]))))
//@   loop 1: invariant forall s int, n int :: n < old(c35Cnt)[s] ==> c35Typ[s][n] == old(c35Typ)[s][n] && c35Val[s][n] == old(c35Val)[s][n]
//@   loop 1: invariant len(t.tables["location"].entries) >= old(len(t.tables["location"].entries)) && c35Cnt[c35LocStmt(t)] == old(c35Cnt)[c35LocStmt(t)]
