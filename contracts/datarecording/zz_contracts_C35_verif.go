//go:build verif

// C35 — "The data recorder persists every entry exactly once".
// Contracts of InsertData / Flush / flushLocked / insertEntryForTable / getLocationID / flushLocationTable over a ghost log of
// prepared-statement executions, plus the lock discipline of sqliteWriter.mu (sequentialised rely/guarantee).
// History: before /repo commit c71cfbe3 Flush read and cleared the batches WITHOUT the lock (entries inserted while a flush
// was running were lost: 20000 inserts -> 1535..3624 rows, see /verif/replay/datarecording_c35_race_test.go.tmpl); its
// postconditions could then only be stated under a never-discharged witness `atomic`. Since the fix Flush holds the lock
// for its whole body and the postconditions hold unconditionally from the state at Lock() to the state at Unlock().
// SQLite and reflection are out of reach: database/sql and reflect calls carry TRUSTED ext contracts (see below).
package datarecording

// ---------------------------------------------------------------------------------------------------------------------
// Ghost log of (*sql.Stmt).ExecContext: c35Cnt[stmt] = number of executions so far; the n-th execution of stmt was
// issued for the entry (c35Typ[stmt][n], c35Val[stmt][n]) = the value most recently handed to reflect.ValueOf
// (c35CurTyp/c35CurVal): the row is built, field by field, from that reflected value.
//@ ghost var c35Cnt map
//@ ghost var c35Typ map2
//@ ghost var c35Val map2
//@ ghost var c35CurTyp int
//@ ghost var c35CurVal int

// TRUSTED (standard library): executing a prepared statement appends one row to the statement's log; the error is arbitrary.
//@ ext database/sql.(*Stmt).ExecContext(s, ctx, args)
//@   trusted
//@   ensures c35Cnt == upd(old(c35Cnt), s, old(c35Cnt)[s] + 1)
//@   ensures c35Typ == upd(old(c35Typ), s, upd(old(c35Typ)[s], old(c35Cnt)[s], c35CurTyp))
//@   ensures c35Val == upd(old(c35Val), s, upd(old(c35Val)[s], old(c35Cnt)[s], c35CurVal))
//@   assigns c35Cnt, c35Typ, c35Val
// TRUSTED: plain statements (BEGIN/COMMIT TRANSACTION, DDL) do not touch the recorder or the row log.
//@ ext database/sql.(*DB).ExecContext(db, ctx, query, args)
//@   trusted
//@   assigns nothing
//@ ext context.Background()
//@   trusted
//@   pure
//@ ext fmt.Printf(format, a)
//@   trusted
//@   assigns nothing

// TRUSTED (reflection is opaque): reflect.ValueOf remembers which value is being reflected; the other reflect calls are
// side-effect free and do not panic for in-range field indices.
//@ ext reflect.ValueOf(i)
//@   trusted
//@   ensures c35CurTyp == typeid(i) && c35CurVal == ifaceval(i)
//@   assigns c35CurTyp, c35CurVal
//@ ext reflect.(Value).Type(v)
//@   trusted
//@   pure
//@   ensures result != nil
//@ ext reflect.(Value).NumField(v)
//@   trusted
//@   pure
//@ ext reflect.(Value).Field(v, i)
//@   trusted
//@   pure
// reflect.(Value).Interface: trusted `assigns nothing` contract declared in internal/codec (C08 file); ext contracts are global.
//@ ext reflect.(Value).String(v)
//@   trusted
//@   pure
//@ iface reflect.Type.Field(i)
//@   trusted
//@   pure
//@ ext reflect.(StructTag).Lookup(tag, key)
//@   trusted
//@   pure
// strings.Contains: trusted pure contract declared in daisen2/internal/httpapi (C38 file).

// local copy of the trusted contract used by C03 (ext declared in the caller's package take precedence over global ones)
//@ ext sort.Strings(x)
//@   trusted
//@   witness pi map = idperm
//@   witness inv map = idperm
//@   ensures forall k in 0..len(x) - 1 :: !strlt(x[k+1], x[k])
//@   ensures forall k in 0..len(x) :: 0 <= pi[k] && pi[k] < len(x) && x[k] == old(x)[pi[k]] && inv[pi[k]] == k
//@   ensures forall j in 0..len(x) :: 0 <= inv[j] && inv[j] < len(x) && pi[inv[j]] == j
//@   assigns elems(x)

// ---------------------------------------------------------------------------------------------------------------------
// Representation.
//@ func c35Tab(t, k) = t.tables[k]
//@ func c35Ent(t, k) = t.tables[k].entries

// immutable shape (set up by CreateTable, which is outside the contract's reach: reflection + SQL DDL)
//@ pred c35Shape(t) = t != nil && t.DB != nil && t.tables != nil && t.locationInfo != nil
//@   && "location" in t.tables && 0 <= len(t.tables) && len(t.tables) < 4611686018427387904     // true of every Go map (needed for make's capacity)
//@   && (forall k int :: k in t.tables ==> t.tables[k] != nil && t.tables[k] <= allocTop && t.tables[k].statement != nil)
//@   && (forall k1 int, k2 int :: k1 in t.tables && k2 in t.tables && k1 != k2 ==> t.tables[k1] != t.tables[k2] && t.tables[k1].statement != t.tables[k2].statement)

// guarded data: the batches never share storage
//@ pred c35Disj(t) = (forall k1 int, k2 int :: k1 in t.tables && k2 in t.tables && k1 != k2 && cap(t.tables[k1].entries) > 0 ==> ref(t.tables[k1].entries) != ref(t.tables[k2].entries))
//@   && (forall k int :: k in t.tables ==> ref(t.tables[k].entries) <= allocTop && (cap(t.tables[k].entries) > 0 ==> ref(t.tables[k].entries) != 0) && len(t.tables[k].entries) <= cap(t.tables[k].entries))

// location interning: IDs are 1..n and pairwise different (hence a bijection onto 1..n)
//@ pred c35LocBij(t) = len(t.locationInfo) < MaxInt64 ==> ((forall s int :: s in t.locationInfo ==> 1 <= t.locationInfo[s] && t.locationInfo[s] <= len(t.locationInfo))
//@   && (forall s1 int, s2 int :: s1 in t.locationInfo && s2 in t.locationInfo && s1 != s2 ==> t.locationInfo[s1] != t.locationInfo[s2]))
// (stated arithmetic bound: fewer than 2^63-1 interned locations; a Go map cannot hold that many)

// Lock invariant of sqliteWriter.mu. Guarded: every table's batch, entryCount, the location map.
// Stability relation (what every holder does, hence what every other goroutine may rely on across an acquisition):
// interned locations are never re-numbered. (Batches grow under InsertData and are emptied under Flush: nothing about
// their contents survives an acquisition, and nothing below relies on it.)
//@ lockinv sqliteWriter.mu(t)
//@   assigns key("O|datarecording.table|.entries"), t.entryCount, elems(t.locationInfo)
//@   requires c35Disj(t) && c35LocBij(t)
//@   ensures forall s int :: old(s in t.locationInfo) ==> s in t.locationInfo && t.locationInfo[s] == old(t.locationInfo[s])

// ---------------------------------------------------------------------------------------------------------------------
//@ fn (*sqliteWriter).fieldIgnored
//@   property C35
//@   pure
//@ fn (*sqliteWriter).fieldLocation
//@   property C35
//@   pure

//@ fn (*sqliteWriter).getLocationID
//@   property C35
//@   requires c35Shape(t) && c35LocBij(t) && c35Disj(t)
//@   witness loc int = loc
//@   label C35.loc.result
//@   ensures loc in t.locationInfo && result == t.locationInfo[loc]
//@   label C35.loc.known
//@   ensures old(loc in t.locationInfo) ==> result == old(t.locationInfo[loc]) && len(t.locationInfo) == old(len(t.locationInfo)) && t.entryCount == old(t.entryCount)
//@     && len(t.tables["location"].entries) == old(len(t.tables["location"].entries)) && ref(t.tables["location"].entries) == old(ref(t.tables["location"].entries))
//@     && off(t.tables["location"].entries) == old(off(t.tables["location"].entries))
//@   label C35.loc.new
//@   ensures !old(loc in t.locationInfo) ==> len(t.locationInfo) == old(len(t.locationInfo)) + 1
//@     && (old(len(t.locationInfo)) < MaxInt64 ==> result == old(len(t.locationInfo)) + 1)
//@     && (old(t.entryCount) < MaxInt64 ==> t.entryCount == old(t.entryCount) + 1)
//@     && len(t.tables["location"].entries) == old(len(t.tables["location"].entries)) + 1
//@   label C35.loc.new.row
//@   ensures !old(loc in t.locationInfo) ==> hastype(t.tables["location"].entries[old(len(t.tables["location"].entries))], "location")
//@     && as(t.tables["location"].entries[old(len(t.tables["location"].entries))], "location").ID == result
//@     && as(t.tables["location"].entries[old(len(t.tables["location"].entries))], "location").Locale == loc
//@   label C35.loc.others
//@   ensures forall s int :: s != loc ==> ((s in t.locationInfo) <==> old(s in t.locationInfo)) && (old(s in t.locationInfo) ==> t.locationInfo[s] == old(t.locationInfo[s]))
//@   label C35.loc.prefix
//@   ensures forall j in 0..old(len(t.tables["location"].entries)) :: t.tables["location"].entries[j] == old(t.tables["location"].entries[j])
//@   label C35.loc.storage
//@   ensures ref(t.tables["location"].entries) == old(ref(t.tables["location"].entries)) || fresh(t.tables["location"].entries)
//@   label C35.loc.bijection
//@   ensures c35LocBij(t)
//@   label C35.loc.disjoint
//@   ensures c35Disj(t)
//@   assigns elems(t.locationInfo), t.tables["location"].entries, elems(t.tables["location"].entries), t.entryCount

// ---------------------------------------------------------------------------------------------------------------------
// One row for one entry (the caller holds the lock): exactly one execution of the table's statement, for this entry; the only
// batch that may change is the location table's (new locations appended at the end).
//@ func c35LocStmt(t) = t.tables["location"].statement
//@ func c35St(t, k) = t.tables[k].statement
//@ pred c35HdrOld(t, k) = len(t.tables[k].entries) == old(len(t.tables[k].entries)) && ref(t.tables[k].entries) == old(ref(t.tables[k].entries)) && off(t.tables[k].entries) == old(off(t.tables[k].entries))
//@ pred c35PrefixOld(t, k) = forall j in 0..old(len(t.tables[k].entries)) :: t.tables[k].entries[j] == old(t.tables[k].entries[j])
//@ pred c35RowsOld(t, k, n) = forall j in 0..n :: c35Typ[c35St(t, k)][old(c35Cnt)[c35St(t, k)] + j] == typeid(old(t.tables[k].entries[j])) && c35Val[c35St(t, k)][old(c35Cnt)[c35St(t, k)] + j] == ifaceval(old(t.tables[k].entries[j]))
//@ pred c35Below(t, k, i) = i < old(len(t.tables[k].entries))
//@ fn (*sqliteWriter).insertEntryForTable
//@   property C35
//@   requires c35Shape(t) && c35Disj(t) && c35LocBij(t)
//@   requires table != nil && table.statement != nil
//@   panics any
//@   label C35.row.count
//@   ensures c35Cnt == upd(old(c35Cnt), table.statement, old(c35Cnt)[table.statement] + 1)
//@   label C35.row.entry
//@   ensures c35Typ == upd(old(c35Typ), table.statement, upd(old(c35Typ)[table.statement], old(c35Cnt)[table.statement], typeid(task)))
//@     && c35Val == upd(old(c35Val), table.statement, upd(old(c35Val)[table.statement], old(c35Cnt)[table.statement], ifaceval(task)))
//@   label C35.row.batches
//@   ensures forall k int :: k in t.tables && k != "location" ==> c35HdrOld(t, k)
//@   label C35.row.locbatch
//@   ensures len(t.tables["location"].entries) >= old(len(t.tables["location"].entries))
//@   label C35.row.prefix
//@   ensures forall k int :: k in t.tables ==> (forall j in 0..old(len(t.tables[k].entries)) :: t.tables[k].entries[j] == old(t.tables[k].entries[j]))
//@   label C35.row.locs
//@   ensures forall s int :: old(s in t.locationInfo) ==> s in t.locationInfo && t.locationInfo[s] == old(t.locationInfo[s])
//@   label C35.row.inv
//@   ensures c35Disj(t) && c35LocBij(t)
//@   assigns t.tables["location"].entries, elems(t.tables["location"].entries), t.entryCount, elems(t.locationInfo), c35Cnt, c35Typ, c35Val, c35CurTyp, c35CurVal
//@   loop 0: invariant 0 <= i && (fresh(v) || cap(v) == 0) && c35Disj(t) && c35LocBij(t)
//@   loop 0: invariant cap(v) > 0 ==> (forall k int :: k in t.tables ==> ref(t.tables[k].entries) != ref(v))
//@   loop 0: invariant c35Cnt == old(c35Cnt) && c35Typ == old(c35Typ) && c35Val == old(c35Val) && c35CurTyp == typeid(task) && c35CurVal == ifaceval(task)
//@   loop 0: invariant len(t.tables["location"].entries) >= old(len(t.tables["location"].entries))
//@   loop 0: invariant ref(t.tables["location"].entries) == old(ref(t.tables["location"].entries)) || fresh(t.tables["location"].entries)
//@   loop 0: invariant forall j in 0..old(len(t.tables["location"].entries)) :: t.tables["location"].entries[j] == old(t.tables["location"].entries[j])
//@   loop 0: invariant forall k int :: k in t.tables && k != "location" && cap(t.tables[k].entries) > 0 ==> ref(t.tables[k].entries) != ref(t.tables["location"].entries)
//@   loop 0: invariant forall k int :: k in t.tables && k != "location" ==> (forall j in 0..old(len(t.tables[k].entries)) :: t.tables[k].entries[j] == old(t.tables[k].entries[j]))
//@   loop 0: invariant forall k int :: k in t.tables && k != "location" ==> c35HdrOld(t, k)
//@   loop 0: invariant forall s int :: old(s in t.locationInfo) ==> s in t.locationInfo && t.locationInfo[s] == old(t.locationInfo[s])

// ---------------------------------------------------------------------------------------------------------------------
// flushLocationTable (caller holds the lock): every batched location row is executed exactly once, in order; batch emptied.
//@ fn (*sqliteWriter).flushLocationTable
//@   property C35
//@   requires c35Shape(t) && c35Disj(t)
//@   panics any
//@   label C35.flushloc.count
//@   ensures c35Cnt == upd(old(c35Cnt), c35LocStmt(t), old(c35Cnt)[c35LocStmt(t)] + old(len(t.tables["location"].entries)))
//@   label C35.flushloc.rows
//@   ensures forall j in 0..old(len(t.tables["location"].entries)) :: c35Typ[c35LocStmt(t)][old(c35Cnt)[c35LocStmt(t)] + j] == typeid(old(t.tables["location"].entries[j])) && c35Val[c35LocStmt(t)][old(c35Cnt)[c35LocStmt(t)] + j] == ifaceval(old(t.tables["location"].entries[j]))
//@   label C35.flushloc.oldrows
//@   ensures forall s int, n int :: (s != c35LocStmt(t) || n < old(c35Cnt)[s]) ==> c35Typ[s][n] == old(c35Typ)[s][n] && c35Val[s][n] == old(c35Val)[s][n]
//@   label C35.flushloc.empty
//@   ensures len(t.tables["location"].entries) == 0 && c35Disj(t)
//@   assigns t.tables["location"].entries, c35Cnt, c35Typ, c35Val, c35CurTyp, c35CurVal
//@   loop 0: invariant -1 <= rangeindex && rangeindex < old(len(t.tables["location"].entries)) && table == t.tables["location"]
//@   loop 0: invariant c35HdrOld(t, "location")
//@   loop 0: invariant c35Cnt == upd(old(c35Cnt), c35LocStmt(t), old(c35Cnt)[c35LocStmt(t)] + rangeindex + 1)
//@   loop 0: invariant forall j in 0..rangeindex + 1 :: c35Typ[c35LocStmt(t)][old(c35Cnt)[c35LocStmt(t)] + j] == typeid(old(t.tables["location"].entries[j])) && c35Val[c35LocStmt(t)][old(c35Cnt)[c35LocStmt(t)] + j] == ifaceval(old(t.tables["location"].entries[j]))
//@   loop 0: invariant forall s int, n int :: (s != c35LocStmt(t) || n < old(c35Cnt)[s]) ==> c35Typ[s][n] == old(c35Typ)[s][n] && c35Val[s][n] == old(c35Val)[s][n]
//@   loop 1: invariant 0 <= i && (fresh(v) || cap(v) == 0)

//@ fn (*sqliteWriter).mustExecute
//@   property C35
//@   requires t != nil && t.DB != nil
//@   panics any
//@   assigns nothing

// ---------------------------------------------------------------------------------------------------------------------
// flushLocked (caller holds the lock; plain sequential contract): every batched entry of every table goes to that table's
// prepared statement exactly once, in batch order; every batch is emptied; entryCount is reset.
// The tables are visited in the order of the sorted name slice: c35Pos(k) = position of name k in that slice
// (where[k] = index at which loop 0 appended k, Strings_inv = inverse of sort.Strings' permutation).
//@ func c35Pos(k) = Strings_inv[where[k]]
//@ pred c35Names(t, names) = (forall i in 0..len(names) :: (names[i] in t.tables) && c35Pos(names[i]) == i)
//@   && (forall n int :: (n in t.tables) ==> 0 <= c35Pos(n) && c35Pos(n) < len(names) && names[c35Pos(n)] == n)
//@ fn (*sqliteWriter).flushLocked
//@   property C35
//@   requires c35Shape(t) && c35Disj(t) && c35LocBij(t)
//@   panics any
//@   label C35.flush.idle
//@   ensures old(t.entryCount) == 0 ==> c35Cnt == old(c35Cnt) && c35Typ == old(c35Typ) && c35Val == old(c35Val) && (forall k int :: k in t.tables ==> c35HdrOld(t, k)) && t.entryCount == 0
//@   label C35.flush.count
//@   ensures old(t.entryCount) != 0 ==> (forall k int :: k in t.tables && k != "location" ==> c35Cnt[c35St(t, k)] == old(c35Cnt)[c35St(t, k)] + old(len(t.tables[k].entries)))
//@   label C35.flush.order
//@   ensures old(t.entryCount) != 0 ==> (forall k int :: k in t.tables && k != "location" ==> (forall j in 0..old(len(t.tables[k].entries)) :: c35Typ[c35St(t, k)][old(c35Cnt)[c35St(t, k)] + j] == typeid(old(t.tables[k].entries[j])) && c35Val[c35St(t, k)][old(c35Cnt)[c35St(t, k)] + j] == ifaceval(old(t.tables[k].entries[j]))))
//@   label C35.flush.empty
//@   ensures old(t.entryCount) != 0 ==> (forall k int :: k in t.tables ==> len(t.tables[k].entries) == 0)
//@   label C35.flush.location
//@   ensures old(t.entryCount) != 0 ==> c35Cnt[c35LocStmt(t)] >= old(c35Cnt)[c35LocStmt(t)] + old(len(t.tables["location"].entries))
//@   label C35.flush.oldrows
//@   ensures forall s int, n int :: n < old(c35Cnt)[s] ==> c35Typ[s][n] == old(c35Typ)[s][n] && c35Val[s][n] == old(c35Val)[s][n]
//@   label C35.flush.reset
//@   ensures t.entryCount == 0
//@   label C35.flush.locs
//@   ensures forall s int :: old(s in t.locationInfo) ==> s in t.locationInfo && t.locationInfo[s] == old(t.locationInfo[s])
//@   label C35.flush.inv
//@   ensures c35Disj(t) && c35LocBij(t)
//@   assigns key("O|datarecording.table|.entries"), t.tables["location"].entries, key("E|any|"), t.entryCount, elems(t.locationInfo), c35Cnt, c35Typ, c35Val, c35CurTyp, c35CurVal
//  ---- loop 0: collect the table names
//@   loop 0: ghost where = idperm
//@   loop 0: backedge where = upd(where, tableName, athead(len(tableNames)))
//@   loop 0: invariant fresh(tableNames) && off(tableNames) == 0
//@   loop 0: invariant forall i in 0..len(tableNames) :: (tableNames[i] in t.tables) && visited(tableNames[i]) && where[tableNames[i]] == i
//@   loop 0: invariant forall n int :: visited(n) ==> 0 <= where[n] && where[n] < len(tableNames) && tableNames[where[n]] == n
//  ---- loop 1: the tables in name order; table k is done iff c35Pos(k) <= rangeindex
//@   loop 1: invariant -1 <= rangeindex && rangeindex < len(tableNames) && fresh(tableNames) && c35Names(t, tableNames)
//@   loop 1: invariant old(t.entryCount) != 0 && c35Disj(t) && c35LocBij(t)
//@   loop 1: invariant forall k int :: k in t.tables && k != "location" ==> c35Cnt[c35St(t, k)] == old(c35Cnt)[c35St(t, k)] + (c35Pos(k) <= rangeindex ? old(len(t.tables[k].entries)) : 0)
//@   loop 1: invariant forall k int :: k in t.tables && k != "location" ==> (c35Pos(k) <= rangeindex ? len(t.tables[k].entries) == 0 : c35HdrOld(t, k))
//@   loop 1: invariant forall k int :: k in t.tables && k != "location" && c35Pos(k) > rangeindex ==> (forall j in 0..old(len(t.tables[k].entries)) :: t.tables[k].entries[j] == old(t.tables[k].entries[j]))
//@   loop 1: invariant forall k int :: k in t.tables && k != "location" && c35Pos(k) <= rangeindex ==> (forall j in 0..old(len(t.tables[k].entries)) :: c35Typ[c35St(t, k)][old(c35Cnt)[c35St(t, k)] + j] == typeid(old(t.tables[k].entries[j])) && c35Val[c35St(t, k)][old(c35Cnt)[c35St(t, k)] + j] == ifaceval(old(t.tables[k].entries[j])))
//@   loop 1: invariant forall s int, n int :: n < old(c35Cnt)[s] ==> c35Typ[s][n] == old(c35Typ)[s][n] && c35Val[s][n] == old(c35Val)[s][n]
//@   loop 1: invariant forall s int :: c35Cnt[s] >= old(c35Cnt)[s]
//@   loop 1: invariant len(t.tables["location"].entries) >= old(len(t.tables["location"].entries)) && c35Cnt[c35LocStmt(t)] == old(c35Cnt)[c35LocStmt(t)]
//@   loop 1: invariant forall s int :: old(s in t.locationInfo) ==> s in t.locationInfo && t.locationInfo[s] == old(t.locationInfo[s])
//  ---- loop 2: the batch of the current table (tableName; the tables before it in name order are done)
//@   loop 2: invariant fresh(tableNames) && c35Names(t, tableNames)
//@   loop 2: invariant old(t.entryCount) != 0 && c35Disj(t) && c35LocBij(t)
//@   loop 2: invariant tableName in t.tables && tableName != "location" && table == t.tables[tableName]
//@   loop 2: invariant -1 <= rangeindex && c35Below(t, tableName, rangeindex)
//@   loop 2: invariant c35Cnt[table.statement] == old(c35Cnt)[table.statement] + rangeindex + 1
//@   loop 2: invariant c35HdrOld(t, tableName) && c35PrefixOld(t, tableName)
//@   loop 2: invariant table.statement == c35St(t, tableName) && c35RowsOld(t, tableName, rangeindex + 1)
//@   loop 2: invariant forall k int :: k in t.tables && k != "location" && k != tableName ==> c35Cnt[c35St(t, k)] == old(c35Cnt)[c35St(t, k)] + (c35Pos(k) < c35Pos(tableName) ? old(len(t.tables[k].entries)) : 0)
//@   loop 2: invariant forall k int :: k in t.tables && k != "location" && k != tableName ==> (c35Pos(k) < c35Pos(tableName) ? len(t.tables[k].entries) == 0 : c35HdrOld(t, k))
//@   loop 2: invariant forall k int :: k in t.tables && k != "location" && c35Pos(k) > c35Pos(tableName) ==> (forall j in 0..old(len(t.tables[k].entries)) :: t.tables[k].entries[j] == old(t.tables[k].entries[j]))
//@   loop 2: invariant forall k int :: k in t.tables && k != "location" && c35Pos(k) < c35Pos(tableName) ==> (forall j in 0..old(len(t.tables[k].entries)) :: c35Typ[c35St(t, k)][old(c35Cnt)[c35St(t, k)] + j] == typeid(old(t.tables[k].entries[j])) && c35Val[c35St(t, k)][old(c35Cnt)[c35St(t, k)] + j] == ifaceval(old(t.tables[k].entries[j])))
//@   loop 2: invariant forall s int, n int :: n < old(c35Cnt)[s] ==> c35Typ[s][n] == old(c35Typ)[s][n] && c35Val[s][n] == old(c35Val)[s][n]
//@   loop 2: invariant forall s int :: c35Cnt[s] >= old(c35Cnt)[s]
//@   loop 2: invariant len(t.tables["location"].entries) >= old(len(t.tables["location"].entries)) && c35Cnt[c35LocStmt(t)] == old(c35Cnt)[c35LocStmt(t)]
//@   loop 2: invariant forall s int :: old(s in t.locationInfo) ==> s in t.locationInfo && t.locationInfo[s] == old(t.locationInfo[s])

// ---------------------------------------------------------------------------------------------------------------------
// Flush: the whole flush happens under the lock. From the state at Lock() to the state at Unlock(): every batched entry is
// executed exactly once in batch order on its table's statement, every batch is empty, entryCount is 0.
//@ fn (*sqliteWriter).Flush
//@   property C35
//@   requires c35Shape(t)
//@   panics any
//@   label C35.Flush.count
//@   ensures atlock(t.entryCount) != 0 ==> (forall k int :: k in t.tables && k != "location" ==> c35Cnt[c35St(t, k)] == old(c35Cnt)[c35St(t, k)] + atlock(len(t.tables[k].entries)))
//@   label C35.Flush.order
//@   ensures atlock(t.entryCount) != 0 ==> (forall k int :: k in t.tables && k != "location" ==> (forall j in 0..atlock(len(t.tables[k].entries)) :: c35Typ[c35St(t, k)][old(c35Cnt)[c35St(t, k)] + j] == typeid(atlock(t.tables[k].entries[j])) && c35Val[c35St(t, k)][old(c35Cnt)[c35St(t, k)] + j] == ifaceval(atlock(t.tables[k].entries[j]))))
//@   label C35.Flush.empty
//@   ensures atlock(t.entryCount) != 0 ==> (forall k int :: k in t.tables ==> len(t.tables[k].entries) == 0)
//@   label C35.Flush.idle
//@   ensures atlock(t.entryCount) == 0 ==> c35Cnt == old(c35Cnt) && c35Typ == old(c35Typ) && c35Val == old(c35Val)
//@   label C35.Flush.oldrows
//@   ensures forall s int, n int :: n < old(c35Cnt)[s] ==> c35Typ[s][n] == old(c35Typ)[s][n] && c35Val[s][n] == old(c35Val)[s][n]
//@   label C35.Flush.reset
//@   ensures t.entryCount == 0 && c35Disj(t) && c35LocBij(t)
//@   assigns key("O|datarecording.table|.entries"), key("E|any|"), t.entryCount, elems(t.locationInfo), c35Cnt, c35Typ, c35Val, c35CurTyp, c35CurVal

// ---------------------------------------------------------------------------------------------------------------------
// InsertData (state at Lock() -> state at Unlock()): exactly one entry is appended to the named table's batch; when the batch
// limit is reached the whole batch, ending with this entry, goes to the table's prepared statement and the batch is emptied.
// Arithmetic assumption stated in the clauses: entryCount has not reached MaxInt64 / is not negative (it counts batched entries).
//@ fn (*sqliteWriter).InsertData
//@   property C35
//@   requires c35Shape(t)
//@   panics any
//@   label C35.insert.exists
//@   ensures old(tableName in t.tables)
//@   label C35.insert.batched
//@   ensures atlock(t.entryCount) < MaxInt64 && atlock(t.entryCount) + 1 < t.batchSize ==>
//@        len(t.tables[tableName].entries) == atlock(len(t.tables[tableName].entries)) + 1
//@     && t.tables[tableName].entries[atlock(len(t.tables[tableName].entries))] == entry
//@     && t.entryCount == atlock(t.entryCount) + 1
//@     && c35Cnt == old(c35Cnt) && c35Typ == old(c35Typ) && c35Val == old(c35Val)
//@   label C35.insert.batched.prefix
//@   ensures atlock(t.entryCount) < MaxInt64 && atlock(t.entryCount) + 1 < t.batchSize ==>
//@     (forall j in 0..atlock(len(t.tables[tableName].entries)) :: t.tables[tableName].entries[j] == atlock(t.tables[tableName].entries[j]))
//@   label C35.insert.batched.others
//@   ensures atlock(t.entryCount) < MaxInt64 && atlock(t.entryCount) + 1 < t.batchSize ==>
//@     (forall k int :: k in t.tables && k != tableName ==> len(t.tables[k].entries) == atlock(len(t.tables[k].entries)) && ref(t.tables[k].entries) == atlock(ref(t.tables[k].entries)))
//@   label C35.insert.flushed
//@   ensures tableName != "location" && 0 <= atlock(t.entryCount) && atlock(t.entryCount) < MaxInt64 && atlock(t.entryCount) + 1 >= t.batchSize ==>
//@        len(t.tables[tableName].entries) == 0
//@     && c35Cnt[t.tables[tableName].statement] == old(c35Cnt)[t.tables[tableName].statement] + atlock(len(t.tables[tableName].entries)) + 1
//@     && c35Typ[t.tables[tableName].statement][c35Cnt[t.tables[tableName].statement] - 1] == typeid(entry)
//@     && c35Val[t.tables[tableName].statement][c35Cnt[t.tables[tableName].statement] - 1] == ifaceval(entry)
//@   label C35.insert.inv
//@   ensures c35Disj(t) && c35LocBij(t)
//@   assigns key("O|datarecording.table|.entries"), key("E|any|"), t.entryCount, elems(t.locationInfo), c35Cnt, c35Typ, c35Val, c35CurTyp, c35CurVal
