//go:build verif

// Contracts for the wake-up primitives of package modeling (comment-only; read by /verif/engine, never compiled).
//   C12  ticking components tick on clock edges, once per instant, while busy
//   C13  event-driven components wake no later than requested
//   C09  no lost wakeups: whoever calls a wake primitive is left with a pending event
package modeling

// ---- ghost view of the engine (timing.EventScheduler is an interface; only its trusted contract sees these) ----
// sched[h][u] = number of scheduled, not yet dispatched events of handler h at time u. Schedule increments it; the
// dispatcher takes the event out BEFORE it invokes Handle (C01: dispatchNext pops, sets the clock, then calls the
// handler), so inside Handle(e) the event e is no longer counted. now = the engine's clock.
//@ ghost var sched map2
//@ ghost var now int
//@ ghost var lastSecondary bool
// IDs handed out by the ID generator (declared per package; see mem/rob's iface timing.IDGenerator.Generate).
//@ ghost var issued set

//@ pred idGenOK() = timing.idGeneratorInstantiated ==> timing.idGenerator != nil

// Time / handler / class of an event value. TickEvent and TimerFiredEvent embed timing.EventBase by value, whose
// getters return the fields (promoted methods); any other event type is described by timing's uninterpreted attributes.
//@ func evT(e) = hastype(e, "TickEvent") ? int(as(e, "TickEvent").EventBase.Time_) : (hastype(e, "TimerFiredEvent") ? int(as(e, "TimerFiredEvent").EventBase.Time_) : timing.evTime(e))
//@ func evH(e) = hastype(e, "TickEvent") ? as(e, "TickEvent").EventBase.HandlerID_ : (hastype(e, "TimerFiredEvent") ? as(e, "TimerFiredEvent").EventBase.HandlerID_ : timing.evHandler(e))
//@ pred evS(e) = hastype(e, "TickEvent") ? as(e, "TickEvent").EventBase.Secondary : (hastype(e, "TimerFiredEvent") ? as(e, "TimerFiredEvent").EventBase.Secondary : timing.evSecondary(e))
//@ func plusOne(s, h, u) = upd(s, h, upd(s[h], u, s[h][u] + 1))

// TRUSTED (interface, any engine): the clock is read without side effects; Schedule refuses events in the past
// (C01: SerialEngine.Schedule panics iff evTime(evt) < e.time) and otherwise adds exactly one pending event.
//@ iface timing.EventScheduler.CurrentTime
//@   trusted
//@   pure
//@   ensures int(result) == now
//@ iface timing.EventScheduler.Schedule(evt)
//@   trusted
//@   panics evT(evt) < now
//@   ensures sched == plusOne(old(sched), evH(evt), evT(evt)) && (lastSecondary <==> evS(evt))
//@   assigns sched, lastSecondary

//@ pred countsOK(h) = forall u int :: sched[h][u] >= 0

// ---- event constructors ----
//@ fn MakeTickEvent
//@   property C12 C09
//@   requires idGenOK()
//@   label C12.mktick.fields
//@   ensures result.EventBase.Time_ == time && result.EventBase.HandlerID_ == handlerID && !result.EventBase.Secondary
//@   label C12.mktick.idgen
//@   ensures idGenOK()
//@   assigns issued, key("G|github.com/sarchlab/akita/v5/timing.idGenerator|"), key("G|github.com/sarchlab/akita/v5/timing.idGeneratorInstantiated|"), key("O|timing.sequentialIDGenerator|nextID"), key("O|timing.parallelIDGenerator|nextID")

//@ fn MakeTimerFiredEvent
//@   property C13 C09
//@   requires idGenOK()
//@   label C13.mktimer.fields
//@   ensures result.EventBase.Time_ == time && result.EventBase.HandlerID_ == handlerID && !result.EventBase.Secondary
//@   label C13.mktimer.idgen
//@   ensures idGenOK()
//@   assigns issued, key("G|github.com/sarchlab/akita/v5/timing.idGenerator|"), key("G|github.com/sarchlab/akita/v5/timing.idGeneratorInstantiated|"), key("O|timing.sequentialIDGenerator|nextID"), key("O|timing.parallelIDGenerator|nextID")

// =====================================================================================================================
// C13 (+ C09): event-driven components
// =====================================================================================================================

//@ fn (*EventDrivenComponent[S, T, R]).Name
//@   property C13 C09
//@   requires c != nil
//@   label C13.name
//@   ensures result == c.name
//@   assigns nothing

//@ pred edWF(c) = c != nil && c.engine != nil && idGenOK() && 0 <= now
// Dedup guard invariant: a recorded wakeup time is not in the past and an event is really pending there.
//@ pred edInv(c) = countsOK(c.name) && (c.pendingWakeup != MaxUint64 ==> int(c.pendingWakeup) >= now && sched[c.name][c.pendingWakeup] >= 1)
// The same right after the dispatcher took the event at time `at` out of the queue: the recorded wakeup may be that event.
//@ pred edInvDispatched(c, at) = countsOK(c.name) && (c.pendingWakeup != MaxUint64 ==> int(c.pendingWakeup) >= now) && (c.pendingWakeup != MaxUint64 && int(c.pendingWakeup) != at ==> sched[c.name][c.pendingWakeup] >= 1)
//@ pred edGuard(c, t) = c.pendingWakeup != MaxUint64 && c.pendingWakeup <= t

//@ fn (*EventDrivenComponent[S, T, R]).ScheduleWakeAt
//@   property C13 C09
//@   requires edWF(c) && edInv(c)
//@   panics int(t) < now && !edGuard(c, t)
//@   witness u int = c.pendingWakeup
//@   label C13.wakeat.pending
//@   ensures sched[c.name][u] >= 1 && u <= int(t) && u >= now
//@   label C13.wakeat.dedup
//@   ensures old(edGuard(c, t)) ==> sched == old(sched) && c.pendingWakeup == old(c.pendingWakeup)
//@   label C13.wakeat.new
//@   ensures !old(edGuard(c, t)) ==> sched == plusOne(old(sched), c.name, int(t)) && c.pendingWakeup == t && !lastSecondary
//@   label C13.wakeat.inv
//@   ensures edWF(c) && edInv(c)
//@   assigns sched, lastSecondary, c.pendingWakeup, issued, key("G|github.com/sarchlab/akita/v5/timing.idGenerator|"), key("G|github.com/sarchlab/akita/v5/timing.idGeneratorInstantiated|"), key("O|timing.sequentialIDGenerator|nextID"), key("O|timing.parallelIDGenerator|nextID")

//@ fn (*EventDrivenComponent[S, T, R]).ScheduleWakeNow
//@   property C13 C09
//@   requires edWF(c) && edInv(c)
//@   label C13.wakenow.pending
//@   ensures sched[c.name][now] >= 1 && int(c.pendingWakeup) == now
//@   label C13.wakenow.dedup
//@   ensures old(edGuard(c, now)) ==> sched == old(sched) && c.pendingWakeup == old(c.pendingWakeup)
//@   label C13.wakenow.new
//@   ensures !old(edGuard(c, now)) ==> sched == plusOne(old(sched), c.name, now)
//@   label C13.wakenow.inv
//@   ensures edWF(c) && edInv(c)
//@   assigns sched, lastSecondary, c.pendingWakeup, issued, key("G|github.com/sarchlab/akita/v5/timing.idGenerator|"), key("G|github.com/sarchlab/akita/v5/timing.idGeneratorInstantiated|"), key("O|timing.sequentialIDGenerator|nextID"), key("O|timing.parallelIDGenerator|nextID")

//@ fn (*EventDrivenComponent[S, T, R]).NotifyRecv
//@   property C13 C09
//@   requires edWF(c) && edInv(c)
//@   label C13.recv.pending
//@   ensures sched[c.name][now] >= 1 && int(c.pendingWakeup) == now
//@   label C13.recv.dedup
//@   ensures old(edGuard(c, now)) ==> sched == old(sched) && c.pendingWakeup == old(c.pendingWakeup)
//@   label C13.recv.new
//@   ensures !old(edGuard(c, now)) ==> sched == plusOne(old(sched), c.name, now)
//@   label C13.recv.inv
//@   ensures edWF(c) && edInv(c)
//@   assigns sched, lastSecondary, c.pendingWakeup, issued, key("G|github.com/sarchlab/akita/v5/timing.idGenerator|"), key("G|github.com/sarchlab/akita/v5/timing.idGeneratorInstantiated|"), key("O|timing.sequentialIDGenerator|nextID"), key("O|timing.parallelIDGenerator|nextID")

//@ fn (*EventDrivenComponent[S, T, R]).NotifyPortFree
//@   property C13 C09
//@   requires edWF(c) && edInv(c)
//@   label C13.free.pending
//@   ensures sched[c.name][now] >= 1 && int(c.pendingWakeup) == now
//@   label C13.free.dedup
//@   ensures old(edGuard(c, now)) ==> sched == old(sched) && c.pendingWakeup == old(c.pendingWakeup)
//@   label C13.free.new
//@   ensures !old(edGuard(c, now)) ==> sched == plusOne(old(sched), c.name, now)
//@   label C13.free.inv
//@   ensures edWF(c) && edInv(c)
//@   assigns sched, lastSecondary, c.pendingWakeup, issued, key("G|github.com/sarchlab/akita/v5/timing.idGenerator|"), key("G|github.com/sarchlab/akita/v5/timing.idGeneratorInstantiated|"), key("O|timing.sequentialIDGenerator|nextID"), key("O|timing.parallelIDGenerator|nextID")

// Log of processor invocations (written only by the EventProcessor.Process contract).
//@ ghost var procCount int
//@ ghost var procComp int
//@ ghost var procTime int

// TRUSTED RELY (arbitrary user callback): the processor may do anything to other state and may call the component's
// wake primitives (whose contracts keep edInv); it does not rewire the component and it cannot move the clock.
// It is entitled to the dedup invariant when it starts (requires): a stale guard would swallow its wake requests.
//@ iface modeling.EventProcessor.Process(comp, at)
//@   trusted
//@   requires comp != nil && edInv(comp)
//@   ensures procCount == old(procCount) + 1 && procComp == comp && procTime == int(at)
//@   ensures now == old(now) && comp.name == old(comp.name) && comp.engine == old(comp.engine) && comp.processor == old(comp.processor)
//@   ensures edWF(comp) && edInv(comp)

//@ fn (*EventDrivenComponent[S, T, R]).Handle
//@   property C13 C09
//@   requires edWF(c) && c.processor != nil && now == timing.evTime(e) && edInvDispatched(c, now)
//@   label C13.handle.once
//@   ensures procCount == old(procCount) + 1 && procComp == c && procTime == timing.evTime(e)
//@   label C13.handle.inv
//@   ensures edWF(c) && edInv(c) && now == old(now)
//@   label C13.handle.noerr
//@   ensures result == nil

// =====================================================================================================================
// C12 (+ C09): tick scheduling
// =====================================================================================================================

//@ const TWO64W = 18446744073709551616
// Clock edges as closed terms over timing.period (C42 describes ThisTick/NextTick by their defining property).
//@ func thisEdge(f, n) = ((n + timing.period(f) - 1) / timing.period(f)) * timing.period(f)
//@ func nextEdge(f, n) = ((n + timing.period(f)) / timing.period(f)) * timing.period(f)

// The frequency is usable and the clock leaves two periods of headroom below 2^64 (tick times do not wrap).
//@ pred tsWF(t) = t != nil && t.engine != nil && timing.validFreq(t.freq) && idGenOK() && 0 <= now && now + 2 * timing.period(t.freq) < TWO64W

// ran(t): the recorded tick (at nextTickTime) has already been dispatched (Handle marks it with markTickRun).
//@ pred ran(t) = t.hasRunTick && t.lastRunTickTime == t.nextTickTime
// Parts of the scheduler invariant that hold at every point, also between the dispatch of a tick and markTickRun:
//  - counts are 0 or 1: no instant carries two ticks of this handler (C12 "at most once per instant");
//  - nothing is pending before the first request, and nothing beyond the most recent tick time;
//  - the recorded tick time is at most the next edge; a tick that has run was scheduled (<= nextTickTime) and is not
//    in the future.
//@ pred tsBase(t) = countsOK(t.handlerID) && (forall u int :: sched[t.handlerID][u] <= 1) && (!t.hasScheduledTick ==> (forall u int :: sched[t.handlerID][u] == 0)) && (t.hasScheduledTick ==> (forall u int :: u > int(t.nextTickTime) ==> sched[t.handlerID][u] == 0)) && (t.hasScheduledTick ==> int(t.nextTickTime) <= nextEdge(t.freq, now)) && (t.hasRunTick ==> t.hasScheduledTick && t.lastRunTickTime <= t.nextTickTime && int(t.lastRunTickTime) <= now)
// Scheduler invariant between any two operations: a recorded tick time that is not in the past IS pending unless that
// very tick has run, in which case it is NOT pending (the dispatcher took it out).
//@ pred tsInv(t) = tsBase(t) && (t.hasScheduledTick && int(t.nextTickTime) >= now && !ran(t) ==> sched[t.handlerID][t.nextTickTime] >= 1) && (ran(t) ==> sched[t.handlerID][t.nextTickTime] == 0)
// State in which Handle is entered: the dispatcher has just taken this scheduler's tick of the current instant out
// of the queue (it was scheduled, so now <= nextTickTime; counts were <= 1, so none is left at now) and the run is
// not yet marked. A later recorded tick is pending.
//@ pred tsInvDispatched(t) = tsBase(t) && t.hasScheduledTick && now <= int(t.nextTickTime) && sched[t.handlerID][now] == 0 && (int(t.nextTickTime) > now ==> sched[t.handlerID][t.nextTickTime] >= 1)

//@ fn (*TickScheduler).markTickRun
//@   property C12 C09
//@   requires t != nil
//@   label C12.mark
//@   ensures t.lastRunTickTime == time && t.hasRunTick
//@   assigns t.lastRunTickTime, t.hasRunTick

//@ fn (*TickScheduler).CurrentTime
//@   property C12 C09
//@   requires t != nil && t.engine != nil
//@   label C12.curtime
//@   ensures int(result) == now
//@   assigns nothing

// Edge arithmetic, from the Euclidean division facts (p = period, n = q*p + r).
//@ lemma edgeFacts(p, n, q2, r2, q3, r3)
//@   property C12 C09
//@   requires p >= 1 && n >= 0 && n + p - 1 == q2 * p + r2 && 0 <= r2 && r2 < p && n + p == q3 * p + r3 && 0 <= r3 && r3 < p
//@   label C12.lemma.thisedge
//@   ensures q2 * p >= n && q2 * p < n + p && q2 >= 0 && (q2 == 0 || (q2 - 1) * p < n)
//@   label C12.lemma.nextedge
//@   ensures q3 * p > n && (q3 - 1) * p <= n && q3 * p <= n + p && q3 >= 1
//@   label C12.lemma.order
//@   ensures q2 * p <= q3 * p

// TickNow: the recorded tick is still pending and serves the request / the tick of this instant has already run.
//@ pred tnKeep(t) = t.hasScheduledTick && int(t.nextTickTime) >= now && !ran(t)
//@ pred tnAfterRun(t) = t.hasScheduledTick && int(t.nextTickTime) >= now && ran(t)
//@ pred tlGuard(t) = t.hasScheduledTick && int(t.nextTickTime) >= nextEdge(t.freq, now)

//@ fn (*TickScheduler).TickNow
//@   property C12 C09
//@   requires tsWF(t) && tsInv(t)
//@   use edgeFacts(timing.period(t.freq), now, (now + timing.period(t.freq) - 1) / timing.period(t.freq), (now + timing.period(t.freq) - 1) % timing.period(t.freq), (now + timing.period(t.freq)) / timing.period(t.freq), (now + timing.period(t.freq)) % timing.period(t.freq))
//@   witness w int = t.nextTickTime
// C09, from the property statement: after TickNow a tick is pending at or after the current instant.
//@   label C09.ticknow.pending
//@   ensures sched[t.handlerID][w] >= 1 && w >= now
//@   label C12.ticknow.dedup
//@   ensures old(tnKeep(t)) ==> sched == old(sched) && t.nextTickTime == old(t.nextTickTime) && t.hasScheduledTick
//@   label C12.ticknow.edge
//@   ensures !old(tnKeep(t)) && !old(tnAfterRun(t)) ==> sched == plusOne(old(sched), t.handlerID, thisEdge(t.freq, now)) && int(t.nextTickTime) == thisEdge(t.freq, now) && t.hasScheduledTick && (lastSecondary <==> t.secondary)
// the tick of this instant has run: the component is not ticked a second time at this instant but at the next edge
//@   label C12.ticknow.afterrun
//@   ensures old(tnAfterRun(t)) ==> int(old(t.nextTickTime)) == now && sched == plusOne(old(sched), t.handlerID, nextEdge(t.freq, now)) && int(t.nextTickTime) == nextEdge(t.freq, now) && nextEdge(t.freq, now) > now && t.hasScheduledTick && (lastSecondary <==> t.secondary)
//@   label C12.ticknow.increasing
//@   ensures !old(tnKeep(t)) && old(t.hasScheduledTick) ==> t.nextTickTime > old(t.nextTickTime)
//@   label C12.ticknow.inv
//@   ensures tsWF(t) && tsInv(t)
//@   assigns sched, lastSecondary, t.nextTickTime, t.hasScheduledTick, issued, key("G|github.com/sarchlab/akita/v5/timing.idGenerator|"), key("G|github.com/sarchlab/akita/v5/timing.idGeneratorInstantiated|"), key("O|timing.sequentialIDGenerator|nextID"), key("O|timing.parallelIDGenerator|nextID")

//@ fn (*TickScheduler).TickLater
//@   property C12 C09
//@   requires tsWF(t) && tsInv(t)
//@   use edgeFacts(timing.period(t.freq), now, (now + timing.period(t.freq) - 1) / timing.period(t.freq), (now + timing.period(t.freq) - 1) % timing.period(t.freq), (now + timing.period(t.freq)) / timing.period(t.freq), (now + timing.period(t.freq)) % timing.period(t.freq))
//@   label C12.later.pending
//@   ensures sched[t.handlerID][t.nextTickTime] >= 1 && int(t.nextTickTime) > now && int(t.nextTickTime) == nextEdge(t.freq, now)
//@   label C12.later.dedup
//@   ensures old(tlGuard(t)) ==> sched == old(sched) && t.nextTickTime == old(t.nextTickTime) && t.hasScheduledTick
//@   label C12.later.edge
//@   ensures !old(tlGuard(t)) ==> sched == plusOne(old(sched), t.handlerID, nextEdge(t.freq, now)) && t.hasScheduledTick && (lastSecondary <==> t.secondary)
//@   label C12.later.increasing
//@   ensures !old(tlGuard(t)) && old(t.hasScheduledTick) ==> t.nextTickTime > old(t.nextTickTime)
//@   label C12.later.inv
//@   ensures tsWF(t) && tsInv(t)
//@   assigns sched, lastSecondary, t.nextTickTime, t.hasScheduledTick, issued, key("G|github.com/sarchlab/akita/v5/timing.idGenerator|"), key("G|github.com/sarchlab/akita/v5/timing.idGeneratorInstantiated|"), key("O|timing.sequentialIDGenerator|nextID"), key("O|timing.parallelIDGenerator|nextID")

// Log of ticker invocations (written only by the Ticker.Tick contract).
//@ ghost var tickCount int
//@ ghost var tickProgress bool

// TRUSTED RELY (arbitrary user callback): Tick may change any other state and may call the component's own
// TickNow/TickLater (whose contracts keep tsInv and do not touch the last-run mark); it does not rewire the scheduler
// and cannot move the clock.
//@ iface modeling.Ticker.Tick
//@   trusted
//@   ensures tickCount == old(tickCount) + 1 && (tickProgress <==> result)
//@   ensures now == old(now) && caller(c).TickScheduler == old(caller(c).TickScheduler) && caller(c).ticker == old(caller(c).ticker)
//@   ensures caller(c).TickScheduler.freq == old(caller(c).TickScheduler.freq) && caller(c).TickScheduler.handlerID == old(caller(c).TickScheduler.handlerID) && caller(c).TickScheduler.engine == old(caller(c).TickScheduler.engine) && caller(c).TickScheduler.secondary == old(caller(c).TickScheduler.secondary)
//@   ensures tsWF(caller(c).TickScheduler) && tsInv(caller(c).TickScheduler) && caller(c).TickScheduler.hasRunTick == old(caller(c).TickScheduler.hasRunTick) && caller(c).TickScheduler.lastRunTickTime == old(caller(c).TickScheduler.lastRunTickTime)

//@ pred tcWF(c) = c != nil && c.ticker != nil && tsWF(c.TickScheduler)

//@ fn (*TickingComponent).Handle
//@   property C12 C09
//@   requires tcWF(c) && tsInvDispatched(c.TickScheduler) && now == timing.evTime(e)
//@   label C12.handle.marked
//@   ensures c.TickScheduler.hasRunTick && int(c.TickScheduler.lastRunTickTime) == now
//@   label C12.handle.once
//@   ensures tickCount == old(tickCount) + 1
//@   label C12.handle.progress
//@   ensures tickProgress ==> sched[c.TickScheduler.handlerID][nextEdge(c.TickScheduler.freq, now)] >= 1 && int(c.TickScheduler.nextTickTime) == nextEdge(c.TickScheduler.freq, now) && nextEdge(c.TickScheduler.freq, now) > now
//@   label C12.handle.inv
//@   ensures tcWF(c) && tsInv(c.TickScheduler) && now == old(now)
//@   label C12.handle.noerr
//@   ensures result == nil

//@ fn (*TickingComponent).NotifyRecv
//@   property C12 C09
//@   requires c != nil && tsWF(c.TickScheduler) && tsInv(c.TickScheduler)
//@   label C12.recv.pending
//@   ensures sched[c.TickScheduler.handlerID][nextEdge(c.TickScheduler.freq, now)] >= 1 && int(c.TickScheduler.nextTickTime) == nextEdge(c.TickScheduler.freq, now) && nextEdge(c.TickScheduler.freq, now) > now
//@   label C12.recv.dedup
//@   ensures old(tlGuard(c.TickScheduler)) ==> sched == old(sched)
//@   label C12.recv.edge
//@   ensures !old(tlGuard(c.TickScheduler)) ==> sched == plusOne(old(sched), c.TickScheduler.handlerID, nextEdge(c.TickScheduler.freq, now))
//@   label C12.recv.inv
//@   ensures tsWF(c.TickScheduler) && tsInv(c.TickScheduler)
//@   assigns sched, lastSecondary, c.TickScheduler.nextTickTime, c.TickScheduler.hasScheduledTick, issued, key("G|github.com/sarchlab/akita/v5/timing.idGenerator|"), key("G|github.com/sarchlab/akita/v5/timing.idGeneratorInstantiated|"), key("O|timing.sequentialIDGenerator|nextID"), key("O|timing.parallelIDGenerator|nextID")

//@ fn (*TickingComponent).NotifyPortFree
//@   property C12 C09
//@   requires c != nil && tsWF(c.TickScheduler) && tsInv(c.TickScheduler)
//@   label C12.free.pending
//@   ensures sched[c.TickScheduler.handlerID][nextEdge(c.TickScheduler.freq, now)] >= 1 && int(c.TickScheduler.nextTickTime) == nextEdge(c.TickScheduler.freq, now) && nextEdge(c.TickScheduler.freq, now) > now
//@   label C12.free.dedup
//@   ensures old(tlGuard(c.TickScheduler)) ==> sched == old(sched)
//@   label C12.free.edge
//@   ensures !old(tlGuard(c.TickScheduler)) ==> sched == plusOne(old(sched), c.TickScheduler.handlerID, nextEdge(c.TickScheduler.freq, now))
//@   label C12.free.inv
//@   ensures tsWF(c.TickScheduler) && tsInv(c.TickScheduler)
//@   assigns sched, lastSecondary, c.TickScheduler.nextTickTime, c.TickScheduler.hasScheduledTick, issued, key("G|github.com/sarchlab/akita/v5/timing.idGenerator|"), key("G|github.com/sarchlab/akita/v5/timing.idGeneratorInstantiated|"), key("O|timing.sequentialIDGenerator|nextID"), key("O|timing.parallelIDGenerator|nextID")
