//go:build verif

// Contracts for package modeling, property C43 (comment-only; read by /verif/engine, never compiled into a build).
package modeling

// ---- C43: Spec/State validation admits only losslessly serializable types ----
// Reflection is opaque to the engine.  reflect.Type is axiomatised here, TRUSTED, as uninterpreted functions over the
// interface value (kind, element, key kind, fields with exported / json tag, implements), and "lossless" is an
// uninterpreted predicate whose DEFINITION (written from the property statement) is carried by the trusted contracts
// of the reflect.Type methods: every Type value they hand out satisfies c43Def.  The recursion of the definition is cut
// with uninterpreted helpers (c43ElemLL = lossless(Elem), c43FieldLL(i) = lossless(Field(i).Type)) and the quantifier
// over struct fields is skolemised (c43BadUnexp / c43BadDash / c43BadLossy choose an offending field when one exists),
// so every obligation is ground.
// NOT modelled / assumed: that `lossless(T)` implies a JSON round trip of every value of T (encoding/json's semantics;
// known to be false for NaN/Inf floats, invalid UTF-8 strings, duplicate JSON names).

//@ ufunc c43Kind(t) int
//@ ufunc c43Lossless(t) bool
//@ ufunc c43ElemLL(t) bool
//@ ufunc c43KeyKind(t) int
//@ ufunc c43NumField(t) int
//@ ufunc c43FieldLL(t, i) bool
//@ ufunc c43FieldPkgPath(t, i) int
//@ ufunc c43FieldTag(t, i) int
//@ ufunc c43TagGet(tag, key) int
//@ ufunc c43Impl(t, u) bool
//@ ufunc c43PtrTyp(t) int
//@ ufunc c43PtrVal(t) int
//@ ufunc c43BadUnexp(t) int
//@ ufunc c43BadDash(t) int
//@ ufunc c43BadLossy(t) int

// reflect.Kind values (GOROOT/src/reflect/type.go): Bool=1, Int..Int64=2..6, Uint..Uint64=7..11, Uintptr=12,
// Float32=13, Float64=14, Array=17, Map=21, Slice=23, String=24, Struct=25.
//@ pred c43Prim(k) = (1 <= k && k <= 11) || k == 13 || k == 14 || k == 24
//@ pred c43KeyOK(k) = k == 24 || (2 <= k && k <= 11)

//@ pred c43Exported(t, i) = c43FieldPkgPath(t, i) == ""
//@ pred c43Dash(t, i) = c43TagGet(c43FieldTag(t, i), "json") == "-"
//@ pred c43InRange(t, i) = 0 <= i && i < c43NumField(t)
//@ pred c43ImplM(t) = c43Impl(t, jsonMarshalerType)
//@ pred c43Pair(t) = c43ImplM(t) && c43Impl(mkiface(c43PtrTyp(t), c43PtrVal(t)), jsonUnmarshalerType)

// A struct is lossless iff it has the Marshal/Unmarshal pair, or it has no custom marshaler and NO field is
// unexported, NO field is excluded with json:"-", and NO (remaining) field has a lossy type.  The three skolem functions
// return an offending field index when there is one (and then that index really offends).
//@ pred c43StructLL(t) = c43Pair(t) || (!c43ImplM(t) && !c43InRange(t, c43BadUnexp(t)) && !c43InRange(t, c43BadDash(t)) && !c43InRange(t, c43BadLossy(t)))
//@ pred c43Def(t) = c43Lossless(t) <==> (c43Prim(c43Kind(t)) || ((c43Kind(t) == 23 || c43Kind(t) == 17) && c43ElemLL(t)) || (c43Kind(t) == 21 && c43KeyOK(c43KeyKind(t)) && c43ElemLL(t)) || (c43Kind(t) == 25 && c43StructLL(t)))

// the skolem axioms, part of what every reflect.Type value satisfies:
// an in-range index returned by a skolem function really offends.
//@ pred c43SkolemOK(t) = (c43InRange(t, c43BadUnexp(t)) ==> !c43Exported(t, c43BadUnexp(t))) && (c43InRange(t, c43BadDash(t)) ==> c43Dash(t, c43BadDash(t))) && (c43InRange(t, c43BadLossy(t)) ==> !c43Dash(t, c43BadLossy(t)) && !c43FieldLL(t, c43BadLossy(t)))

//@ pred c43Ax(t) = c43Def(t) && c43SkolemOK(t)

// ---------- TRUSTED: package reflect ----------
//@ iface reflect.Type.Kind()
//@   trusted
//@   pure
//@   ensures int(result) == c43Kind(self)
//@ iface reflect.Type.Elem()
//@   trusted
//@   pure
//@   requires c43Kind(self) == 23 || c43Kind(self) == 17 || c43Kind(self) == 21 || c43Kind(self) == 22 || c43Kind(self) == 18
//@   ensures result != nil && c43Ax(result) && (c43Lossless(result) <==> c43ElemLL(self))
//@ iface reflect.Type.Key()
//@   trusted
//@   pure
//@   requires c43Kind(self) == 21
//@   ensures result != nil && c43Kind(result) == c43KeyKind(self)
//@ iface reflect.Type.NumField()
//@   trusted
//@   pure
//@   requires c43Kind(self) == 25
//@   ensures result == c43NumField(self) && result >= 0
//@ iface reflect.Type.Field(i)
//@   trusted
//@   requires c43Kind(self) == 25 && c43InRange(self, i)
//@   ensures result.Type != nil && c43Ax(result.Type) && (c43Lossless(result.Type) <==> c43FieldLL(self, i)) && result.PkgPath == c43FieldPkgPath(self, i) && result.Tag == c43FieldTag(self, i)
//@   assigns nothing
//@ iface reflect.Type.Implements(u)
//@   trusted
//@   pure
//@   ensures result <==> c43Impl(self, u)
//@ iface reflect.Type.String()
//@   trusted
//@   pure
//@ ext reflect.PointerTo(t)
//@   trusted
//@   pure
//@   ensures result != nil && typeid(result) == c43PtrTyp(t) && ifaceval(result) == c43PtrVal(t)
//@ ext reflect.(StructTag).Get(tag, key)
//@   trusted
//@   pure
//@   ensures result == c43TagGet(tag, key)
//@ ext reflect.(Kind).String(k)
//@   trusted
//@   pure
//@ ext reflect.New(typ)
//@   trusted
//@   assigns nothing
//@ ext reflect.(Value).Elem(v)
//@   trusted
//@   assigns nothing
//@ ext reflect.(Value).Interface(v)
//@   trusted
//@   assigns nothing

//@ fn serializesToEmpty
//@   property C43
//@   requires t != nil && c43Kind(t) == 25
//@   assigns nothing
//@   loop 0: invariant 0 <= i

//@ fn validateFieldType
//@   property C43
//@   requires t != nil && c43Ax(t)
//@   label C43.field.sound
//@   ensures result == nil ==> c43Lossless(t)
//@   assigns nothing

//@ fn validateStructType
//@   property C43
//@   requires t != nil && c43Kind(t) == 25 && c43Ax(t)
//@   label C43.struct.sound
//@   ensures result == nil ==> c43Lossless(t)
//@   assigns nothing
//@   label C43.struct.inv.range
//@   loop 0: invariant 0 <= i && !c43ImplM(t)
//@   label C43.struct.inv.exported
//@   loop 0: invariant !(0 <= c43BadUnexp(t) && c43BadUnexp(t) < i)
//@   label C43.struct.inv.nodash
//@   loop 0: invariant !(0 <= c43BadDash(t) && c43BadDash(t) < i)
//@   label C43.struct.inv.fieldtypes
//@   loop 0: invariant !(0 <= c43BadLossy(t) && c43BadLossy(t) < i)
