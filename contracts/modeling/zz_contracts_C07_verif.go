//go:build verif

// Contracts for package modeling, property C07 (comment-only; read by /verif/engine, never compiled into a build).
// C07 (part a): loading a component checkpoint never panics, whatever the archive holds, and a spec hash that differs
// (or an undecodable payload / state) is an error that leaves the component untouched.
// The decoded DTO (local `dto`) is ARBITRARY (native encoding/json model): nothing is assumed about the payload.
package modeling

// ---- trusted: standard library digests (arbitrary results, nothing modified) ----
//@ ext crypto/sha256.Sum256(data)
//@   trusted
//@   assigns nothing
//@ ext encoding/hex.EncodeToString(src)
//@   trusted
//@   assigns nothing

// ---- the tick scheduler's checkpointed fields ----
//@ fn (*TickScheduler).snapshot
//@   property C07
//@   requires t != nil
//@   label C07.sched.snapshot
//@   ensures nextTickTime == t.nextTickTime && (scheduled <==> t.hasScheduledTick)
//@   assigns nothing
//@ fn (*TickScheduler).snapshotLastRun
//@   property C07
//@   requires t != nil
//@   label C07.sched.snapshotLastRun
//@   ensures lastRun == t.lastRunTickTime && (hasRun <==> t.hasRunTick)
//@   assigns nothing
//@ fn (*TickScheduler).restore
//@   property C07
//@   requires t != nil
//@   label C07.sched.restore
//@   ensures t.nextTickTime == nextTickTime && (t.hasScheduledTick <==> scheduled)
//@   assigns t.nextTickTime, t.hasScheduledTick
//@ fn (*TickScheduler).restoreLastRun
//@   property C07
//@   requires t != nil
//@   label C07.sched.restoreLastRun
//@   ensures t.lastRunTickTime == lastRun && (t.hasRunTick <==> hasRun)
//@   assigns t.lastRunTickTime, t.hasRunTick

// ---- specHash: NO panics clause — it must not panic (it is on the LoadCheckpoint path); a spec that json cannot
// marshal (e.g. a float64 field holding +Inf) is an error (fixed in /repo e4b8946c; it used to panic) ----
//@ fn (*Component[S, T, R]).specHash
//@   property C07
//@   requires c != nil
//@   witness failed bool = result1 != nil
//@   label C07.spechash.error.empty
//@   ensures result1 != nil ==> result0 == ""
//@   label C07.spechash.failed.witness
//@   ensures failed <==> result1 != nil
//@   assigns jsonEncTyp, jsonEncVal, jsonEncCount
//@ fn (*EventDrivenComponent[S, T, R]).specHash
//@   property C07
//@   requires c != nil
//@   witness failed bool = result1 != nil
//@   label C07.spechash.error.empty
//@   ensures result1 != nil ==> result0 == ""
//@   label C07.spechash.failed.witness
//@   ensures failed <==> result1 != nil
//@   assigns jsonEncTyp, jsonEncVal, jsonEncCount

// ---- Component.LoadCheckpoint ----
//@ pred hasSched(c) = c.TickingComponent != nil && c.TickingComponent.TickScheduler != nil
//@ pred schedSame(t) = t.nextTickTime == old(t.nextTickTime) && (t.hasScheduledTick <==> old(t.hasScheduledTick)) && t.lastRunTickTime == old(t.lastRunTickTime) && (t.hasRunTick <==> old(t.hasRunTick))

//@ fn (*Component[S, T, R]).LoadCheckpoint
//@   property C07 C06 C08
//@   requires c != nil
//@   witness decoded int = state     // the State value decoded from dto.State (declared after the first returns)
//@   label C06.comp.load.state
//@   ensures result == nil ==> c.State == decoded
//@   witness gotHash int = got     // `got` is declared after the first return: a witness tolerates the unbound path
//@   witness hashErr bool = specHash_failed   // unbound (arbitrary) on the path that returns before specHash is called
//@   label C07.comp.spechash.unhashable
//@   ensures hashErr ==> result != nil
//@   label C07.comp.spechash.mismatch
//@   ensures gotHash != dto.SpecHash ==> result != nil
//@   label C07.comp.error.unchanged
//@   ensures result != nil ==> c.State == old(c.State) && (hasSched(c) ==> schedSame(c.TickingComponent.TickScheduler))
//@   label C07.comp.ok.scheduler
//@   ensures result == nil && hasSched(c) ==> c.TickingComponent.TickScheduler.nextTickTime == dto.Scheduler.NextTickTime && (c.TickingComponent.TickScheduler.hasScheduledTick <==> dto.Scheduler.HasScheduledTick) && c.TickingComponent.TickScheduler.lastRunTickTime == dto.Scheduler.LastRunTickTime && (c.TickingComponent.TickScheduler.hasRunTick <==> dto.Scheduler.HasRunTick)
//@   label C07.comp.config
//@   ensures c.spec == old(c.spec) && c.TickingComponent == old(c.TickingComponent)
//@   assigns c.State, c.TickingComponent.TickScheduler.nextTickTime, c.TickingComponent.TickScheduler.hasScheduledTick, c.TickingComponent.TickScheduler.lastRunTickTime, c.TickingComponent.TickScheduler.hasRunTick, jsonEncTyp, jsonEncVal, jsonEncCount

// ---- EventDrivenComponent.LoadCheckpoint ----
//@ fn (*EventDrivenComponent[S, T, R]).LoadCheckpoint
//@   property C07 C06 C08
//@   requires c != nil
//@   witness decoded int = state     // the State value decoded from dto.State (declared after the first returns)
//@   label C06.ed.load.state
//@   ensures result == nil ==> c.State == decoded
//@   witness gotHash int = got
//@   witness hashErr bool = specHash_failed
//@   label C07.ed.spechash.unhashable
//@   ensures hashErr ==> result != nil
//@   label C07.ed.spechash.mismatch
//@   ensures gotHash != dto.SpecHash ==> result != nil
//@   label C07.ed.error.unchanged
//@   ensures result != nil ==> c.State == old(c.State) && c.pendingWakeup == old(c.pendingWakeup)
//@   label C07.ed.ok
//@   ensures result == nil ==> c.pendingWakeup == dto.PendingWakeup
//@   label C07.ed.config
//@   ensures c.spec == old(c.spec) && c.name == old(c.name) && c.engine == old(c.engine)
//@   assigns c.State, c.pendingWakeup, jsonEncTyp, jsonEncVal, jsonEncCount
