//go:build verif

// Contracts for package modeling, property C06 (comment-only; read by /verif/engine, never compiled into a build).
// C06 (claimed part): FIELD COMPLETENESS of the per-component checkpoint. SaveCheckpoint hands the encoder a DTO whose every
// field is the corresponding piece of the component (spec hash, marshalled state, every field of the scheduler guard /
// the pending wake-up); LoadCheckpoint (contract block in zz_contracts_C07_verif.go, tagged C07 C06) reads every one back.
// Trusted: encoding/json is the inverse of itself on componentCheckpoint / eventDrivenCheckpoint (strings, raw bytes,
// bools, uint64 times) and on the user's State type (C43/C08).
package modeling

// the DTO handed to the encoder
//@ func c06Comp() = as(mkiface(jsonEncTyp, jsonEncVal), "componentCheckpoint")
//@ func c06ED() = as(mkiface(jsonEncTyp, jsonEncVal), "eventDrivenCheckpoint")
// the very same byte slice
//@ pred c06SameSl(a, b) = ref(a) == ref(b) && off(a) == off(b) && len(a) == len(b)

//@ fn (*Component[S, T, R]).SaveCheckpoint
//@   property C06 C08
//@   requires c != nil
//@   witness wrote int = hash     // the value returned by c.specHash() (local `hash`, unbound on the early error returns)
//@   label C06.comp.save.spechash
//@   ensures result == nil ==> c06Comp().SpecHash == wrote
//@   label C06.comp.save.state
//@   ensures result == nil ==> c06SameSl(c06Comp().State, state)
//@   label C06.comp.save.hasScheduledTick
//@   ensures result == nil && hasSched(c) ==> (c06Comp().Scheduler.HasScheduledTick <==> c.TickingComponent.TickScheduler.hasScheduledTick)
//@   label C06.comp.save.nextTickTime
//@   ensures result == nil && hasSched(c) ==> c06Comp().Scheduler.NextTickTime == c.TickingComponent.TickScheduler.nextTickTime
//@   label C06.comp.save.hasRunTick
//@   ensures result == nil && hasSched(c) ==> (c06Comp().Scheduler.HasRunTick <==> c.TickingComponent.TickScheduler.hasRunTick)
//@   label C06.comp.save.lastRunTickTime
//@   ensures result == nil && hasSched(c) ==> c06Comp().Scheduler.LastRunTickTime == c.TickingComponent.TickScheduler.lastRunTickTime
//@   label C06.comp.save.noscheduler
//@   ensures result == nil && !hasSched(c) ==> !c06Comp().Scheduler.HasScheduledTick && c06Comp().Scheduler.NextTickTime == 0 && !c06Comp().Scheduler.HasRunTick && c06Comp().Scheduler.LastRunTickTime == 0
//@   assigns jsonEncTyp, jsonEncVal, jsonEncCount

//@ fn (*EventDrivenComponent[S, T, R]).SaveCheckpoint
//@   property C06 C08
//@   requires c != nil
//@   witness wrote int = hash
//@   label C06.ed.save.spechash
//@   ensures result == nil ==> c06ED().SpecHash == wrote
//@   label C06.ed.save.state
//@   ensures result == nil ==> c06SameSl(c06ED().State, state)
//@   label C06.ed.save.pendingWakeup
//@   ensures result == nil ==> c06ED().PendingWakeup == c.pendingWakeup
//@   assigns jsonEncTyp, jsonEncVal, jsonEncCount
