//go:build verif

// TRUSTED contracts for standard-library functions used by the code under contract (assumed, never verified).
package std

// Mutexes: the engine reads mutex-protected code sequentially (no interleavings are modelled).
//@ ext sync.(*Mutex).Lock
//@   trusted
//@   assigns nothing
//@ ext sync.(*Mutex).Unlock
//@   trusted
//@   assigns nothing
//@ ext sync.(*RWMutex).Lock
//@   trusted
//@   assigns nothing
//@ ext sync.(*RWMutex).Unlock
//@   trusted
//@   assigns nothing
//@ ext sync.(*RWMutex).RLock
//@   trusted
//@   assigns nothing
//@ ext sync.(*RWMutex).RUnlock
//@   trusted
//@   assigns nothing
