//go:build verif

// TRUSTED contracts for standard-library functions used by the code under contract (assumed, never verified).
package std

// Mutexes: the engine reads mutex-protected code sequentially (no interleavings are modelled).
//@ ext sync.(*Mutex).Lock
//@   trusted
//@   assigns nothing
//@ ext sync.(*Mutex).Unlock
//@   trusted
//@   assigns nothing
//@ ext sync.(*RWMutex).Lock
//@   trusted
//@   assigns nothing
//@ ext sync.(*RWMutex).Unlock
//@   trusted
//@   assigns nothing
//@ ext sync.(*RWMutex).RLock
//@   trusted
//@   assigns nothing
//@ ext sync.(*RWMutex).RUnlock
//@   trusted
//@   assigns nothing

// sync/atomic: linearizable read-modify-write (sequential reading; concurrent callers rely on this trusted contract).
//@ ext sync/atomic.AddUint64(addr, delta)
//@   trusted
//@   ensures int(deref(addr)) == (int(old(deref(addr))) + int(delta)) % 18446744073709551616 && result == deref(addr)
//@   assigns addr
//@ ext sync/atomic.LoadUint64(addr)
//@   trusted
//@   pure
//@   ensures result == deref(addr)
//@ ext sync/atomic.StoreUint64(addr, val)
//@   trusted
//@   ensures deref(addr) == val
//@   assigns addr

// Streams: what a reader yields is unconstrained (any byte sequence); a successful io.ReadFull fills the whole buffer.
//@ ext io.ReadFull(r, buf)
//@   trusted
//@   ensures n >= 0 && n <= len(buf)
//@   assigns elems(buf)
//@ iface io.Writer.Write(p)
//@   trusted
//@   assigns nothing
//@ ext encoding/binary.(littleEndian).Uint64(le, b)
//@   trusted
//@   pure
//@ ext encoding/binary.(littleEndian).PutUint64(le, b, v)
//@   trusted
//@   assigns elems(b)
