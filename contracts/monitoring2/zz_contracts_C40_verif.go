//go:build verif

// C40 — "Monitor requests never race with a running simulation" (the part contracts can reach).
// Permission reading: the ghost flag c40Quiescent means "no event handler is running and none will start".
// It is produced only by Engine.Pause (TRUSTED ASSUMPTION = property C05; see the report: timing.SerialEngine.Pause only sets
// a flag and returns while the current handler may still be running) and consumed by Engine.Continue. Every access of a
// handler to simulation state (engine time, TickLater -> Engine.Schedule) requires it.
// Handlers are entered by net/http at arbitrary moments: they have NO precondition on c40Quiescent.
package monitoring2

//@ ghost var c40Quiescent bool

// TRUSTED ASSUMPTION, KNOWN TO BE FALSE FOR timing.SerialEngine: "Engine.Pause() returns with no event handler running"
// (that statement is property C05, not verified here). SerialEngine.Pause only stores paused=1 under pauseMu and returns; the
// engine goroutine tests the flag between two events, so the handler of the CURRENT event may still be running when Pause
// returns. Observed on real code (go test -race, /verif/replay/monitoring2_c40_race_test.go.tmpl, TestC40ComponentDetailsWhileRunning):
// GET /api/component/Comp - which does call pauseForInspection() first - races: goseth serializer.go:197 (read of the
// component's field, via monitor.go:519) against the running handler's write, dispatched from serialengine.go:144.
// Hence every obligation discharged below through this contract (C40.perm.serialize in listComponentDetails, the lock
// invariant enginePaused ==> c40Quiescent) is a statement about engines whose Pause really quiesces, NOT about SerialEngine.
//@ iface timing.Engine.Pause()
//@   trusted
//@   ensures c40Quiescent
//@   assigns c40Quiescent
//@ iface timing.Engine.Continue()
//@   trusted
//@   ensures !c40Quiescent
//@   assigns c40Quiescent
//@ iface timing.Engine.CurrentTime()
//@   trusted
//@   label C40.perm.time
//@   requires c40Quiescent
//@   pure
// TickLater reads the engine time and pushes an event on the engine's (unsynchronised) queue.
//@ iface monitoring2.tickingComponent.TickLater()
//@   trusted
//@   label C40.perm.ticklater
//@   requires c40Quiescent
//@   assigns nothing
// Component names are immutable configuration.
//@ iface monitoring2.Component.Name()
//@   trusted
//@   pure

// TRUSTED (standard library): writing the HTTP response does not touch the monitor or the simulation.
//@ iface http.ResponseWriter.WriteHeader(statusCode)
//@   trusted
//@   assigns nothing
//@ iface http.ResponseWriter.Write(b)
//@   trusted
//@   assigns nothing
//@ iface http.ResponseWriter.Header()
//@   trusted
//@   assigns nothing
//@ ext fmt.Fprintf(w, format, a)
//@   trusted
//@   assigns nothing

// Lock invariant of engineControlMu: the enginePaused flag is the permission's witness.
//@ lockinv Monitor.engineControlMu(m)
//@   assigns m.enginePaused, c40Quiescent
//@   requires m.enginePaused ==> c40Quiescent

//@ fn (*Monitor).engineStateResponseLocked
//@   property C40
//@   pure

//@ fn (*Monitor).findComponentOr404
//@   property C40
//@   requires m != nil
//@   panics any
//@   assigns nothing

// GET /api/now
//@ fn (*Monitor).now
//@   property C40
//@   requires m != nil && m.engine != nil
//@   panics any
//@   assigns nothing

// GET /api/tick/<component>
//@ fn (*Monitor).tick
//@   property C40
//@   requires m != nil && r != nil && r.URL != nil
//@   panics any
//@   assigns nothing

// POST /api/pause, /api/continue, GET /api/engine/state: the protocol done right (under engineControlMu; enginePaused tracks
// the permission). writeEngineState only writes the response.
//@ ext encoding/json.NewEncoder(w)
//@   trusted
//@   assigns nothing
//@ ext log.Printf(format, v)
//@   trusted
//@   assigns nothing
//@ ext net/http.Error(w, error, code)
//@   trusted
//@   assigns nothing
//@ ext net/http.(Header).Set(h, key, value)
//@   trusted
//@   assigns nothing
//@ fn (*Monitor).writeEngineState
//@   property C40
//@   panics any
//@   assigns nothing
//@ fn (*Monitor).pauseEngine
//@   property C40
//@   requires m != nil && m.engine != nil
//@   panics any
//@   label C40.pause.permission
//@   ensures m.enginePaused && c40Quiescent
//@   assigns m.enginePaused, c40Quiescent
//@ fn (*Monitor).continueEngine
//@   property C40
//@   requires m != nil && m.engine != nil
//@   panics any
//@   label C40.continue.released
//@   ensures !m.enginePaused
//@   assigns m.enginePaused, c40Quiescent
//@ fn (*Monitor).apiEngineState
//@   property C40
//@   requires m != nil
//@   panics any
//@   assigns m.enginePaused, c40Quiescent

// The two handlers that DO pause (closures: see the report for what the engine says).
//@ fn (*Monitor).pauseForInspection
//@   property C40
//@   requires m != nil && m.engine != nil
//@   panics any
//@   label C40.inspect.permission
//@   ensures c40Quiescent
//@   assigns m.enginePaused, c40Quiescent

// local declaration (takes precedence over the two conflicting global ones of other properties' files)
//@ ext strings.TrimPrefix(s, prefix)
//@   trusted
//@   pure

// GET /api/component/<name>: serialises the component (reads its whole state) between pauseForInspection() and resume().
//@ ext github.com/syifan/goseth.NewSerializer()
//@   trusted
//@   ensures result != nil
//@   assigns nothing
//@ iface goseth.Serializer.SetRoot(item)
//@   trusted
//@   assigns nothing
//@ iface goseth.Serializer.SetMaxDepth(depth)
//@   trusted
//@   assigns nothing
//@ iface goseth.Serializer.Serialize(writer)
//@   trusted
//@   label C40.perm.serialize
//@   requires c40Quiescent
//@   assigns nothing
// No assigns clause: the deferred `resume()` is a call of a function VALUE (closure returned by pauseForInspection), which the
// engine cannot bind to a contract; what IS checked is that Serialize's permission holds where it is called.
//@ fn (*Monitor).listComponentDetails
//@   property C40
//@   requires m != nil && m.engine != nil && r != nil && r.URL != nil
//@   panics any

// GET /api/hangdetector/buffers: reads the level of every registered buffer (queueing.Buffer.Size = len(elements), port queues).
//@ iface monitoring2.bufferState.Size()
//@   trusted
//@   label C40.perm.bufsize
//@   requires c40Quiescent
//@   pure
//@ iface monitoring2.bufferState.Name()
//@   trusted
//@   pure
//@ iface monitoring2.bufferState.Capacity()
//@   trusted
//@   pure
//@ fn (*Monitor).hangDetectorBuffers
//@   property C40
//@   requires m != nil && r != nil && r.URL != nil
//@   panics any
