//go:build verif

// Contracts for package httpapi, property C39 (comment-only; read by /verif/engine, never compiled into a build).
package httpapi

// ---- C39: source tools only serve the recorded source (request side) ----
// Every read of the recorded-source fs.FS with a request-derived name is dominated by fs.ValidPath(name) == true on
// that same value (or the name is "." / was produced by listing the same tree).  The obligation sits in the TRUSTED
// contracts of io/fs.ReadFile / ReadDir / Stat and fs.FS.Open (`requires c39Served(name)`) and is therefore checked at
// every call site of every function under contract in this package.  What fs.ValidPath / MapFS do is the standard
// library's business.

//@ ufunc c39Valid(name) bool          // fs.ValidPath(name)
//@ ufunc c39Clean(p) int              // path.Clean(p)
//@ ufunc c39Join2(a, b) int           // path.Join(a, b)
//@ ufunc c39TrimPrefix(s, p) int
//@ ufunc c39TrimSuffix(s, p) int
//@ ufunc c39EntName(e) int            // DirEntry.Name()
//@ ufunc c39InTree(name) bool         // name is the path of an entry that listing the tree produced

//@ pred c39Served(name) = name == "." || c39Valid(name) || c39InTree(name)

//@ ext io/fs.ValidPath(name)
//@   trusted
//@   pure
//@   ensures result <==> c39Valid(name)
//@ ext path.Clean(p)
//@   trusted
//@   pure
//@   ensures result == c39Clean(p)
//@ ext path.Join(elem)
//@   trusted
//@   pure
//@   ensures len(elem) == 2 ==> result == c39Join2(elem[0], elem[1])
//@ ext strings.TrimPrefix(s, prefix)
//@   trusted
//@   pure
//@   ensures result == c39TrimPrefix(s, prefix)
//@ ext strings.TrimSuffix(s, suffix)
//@   trusted
//@   pure
//@   ensures result == c39TrimSuffix(s, suffix)

//@ ext io/fs.ReadFile(fsys, name)
//@   trusted
//@   label C39.fs.readfile.valid
//@   requires c39Served(name)
//@   ensures fresh(result0)
//@   assigns nothing
//@ ext io/fs.Stat(fsys, name)
//@   trusted
//@   label C39.fs.stat.valid
//@   requires c39Served(name)
//@   assigns nothing
// the entries ReadDir returns for directory `name` are entries of the tree, at path.Join(name, e.Name())
//@ ext io/fs.ReadDir(fsys, name)
//@   trusted
//@   label C39.fs.readdir.valid
//@   requires c39Served(name)
//@   ensures fresh(result0) && (forall i in 0..len(result0) :: c39InTree(c39Join2(name, c39EntName(result0[i]))))
//@   assigns nothing
//@ iface fs.FS.Open(name)
//@   trusted
//@   label C39.fs.open.valid
//@   requires c39Served(name)
//@   assigns nothing
//@ iface fs.DirEntry.Name()
//@   trusted
//@   pure
//@   ensures result == c39EntName(self)
//@ iface fs.DirEntry.IsDir()
//@   trusted
//@   pure

//@ ext net/http.(*Request).FormValue(r, key)
//@   trusted

//@ fn normalizeReadPath
//@   property C39
//@   label C39.normalize.valid
//@   ensures result1 == nil ==> c39Valid(result0) && result0 == c39Clean(c39TrimPrefix(c38Trim(p), "./"))
//@   label C39.normalize.reject
//@   ensures !c39Valid(c39Clean(c39TrimPrefix(c38Trim(p), "./"))) ==> result1 != nil
//@   assigns nothing

//@ fn runCodeRead
//@   property C39
//@   panics any

//@ fn runCodeLs
//@   property C39
//@   panics any

//@ fn (*Server).httpCodeLs
//@   property C39
//@   requires r != nil
//@   panics any

//@ fn (*Server).httpCodeRead
//@   property C39
//@   requires r != nil
//@   panics any

// httpCodeRead: at most maxCodeReadBytes+1 bytes of a recorded file are pulled into memory
//@ ext io.LimitReader(r, n)
//@   trusted
//@   ensures hastype(result, "*io.LimitedReader") && fresh(as(result, "*io.LimitedReader")) && as(result, "*io.LimitedReader").N == n
//@   assigns nothing
//@ ext io.ReadAll(r)
//@   trusted
//@   ensures hastype(r, "*io.LimitedReader") ==> len(result0) <= max(old(as(r, "*io.LimitedReader").N), 0)
//@   ensures fresh(result0)
//@   assigns nothing

// listDir / fileAnnotation / runCodeSearch / sortedFilePaths are NOT under contract: listDir's sort.Slice comparison calls
// interface methods (engine: "call to t10 inside a pure closure"), sortedFilePaths collects its paths inside an
// fs.WalkDir callback (a branching closure with captured variables).
