//go:build verif

// Contracts for package httpapi, property C37 (comment-only; read by /verif/engine, never compiled into a build).
package httpapi

// ---- C37: the trace query tool cannot modify the trace ----
//
// What SQLite does with a given text is outside the engine (strings are opaque tokens, SQL is external).  What is
// claimed here is the PROTOCOL around it (runDataQuery), the control flow of the text filter relative to uninterpreted
// string functions (sanitizeReadonlySQL), and the row / byte caps of the formatter (formatRows).

// ---------- strings / regexp: TRUSTED, deterministic, uninterpreted ----------
// (strings.TrimSpace, strings.Contains are already given by the C38 file: c38Trim, c38Contains.)

//@ ufunc c37TrimRight(s, cutset) int
//@ ufunc c37TrimLeft(s, cutset) int
//@ ufunc c37Upper(s) int
//@ ufunc c37ReMatch(re, s) bool
//@ ufunc c37HasPrefix(s, prefix) bool

//@ ext strings.TrimRight(s, cutset)
//@   trusted
//@   pure
//@   ensures result == c37TrimRight(s, cutset)
//@ ext strings.TrimLeft(s, cutset)
//@   trusted
//@   pure
//@   ensures result == c37TrimLeft(s, cutset)
//@ ext strings.ToUpper(s)
//@   trusted
//@   pure
//@   ensures result == c37Upper(s)
//@ ext strings.HasPrefix(s, prefix)
//@   trusted
//@   pure
//@   ensures result <==> c37HasPrefix(s, prefix)
//@ ext regexp.(*Regexp).MatchString(re, s)
//@   trusted
//@   pure
//@   ensures result <==> c37ReMatch(re, s)

// The statement the filter works on, and the filter itself, written from the property statement / doc comment:
// "single-statement SQL with a SELECT/WITH prefix".
//@ func c37Stmt(query) = c37TrimRight(c38Trim(query), "; \t\n\r")
//@ func c37Head(query) = c37Upper(c37TrimLeft(c37Stmt(query), "( \t\n\r"))
//@ pred c37SingleStmt(query) = c37Stmt(query) != "" && !c38Contains(c37Stmt(query), ";")
//@ pred c37Accept(query) = c37SingleStmt(query) && (c37HasPrefix(c37Head(query), "SELECT") || c37HasPrefix(c37Head(query), "WITH"))

//@ fn sanitizeReadonlySQL
//@   property C37
//@   requires limitClausePattern != nil      // package variable initialised by regexp.MustCompile and never reassigned
//@   label C37.sanitize.iff
//@   ensures result1 == nil <==> c37Accept(query)
//@   label C37.sanitize.reject.empty
//@   ensures result1 != nil ==> result0 == ""
//@   label C37.sanitize.keep
//@   ensures result1 == nil && c37ReMatch(limitClausePattern, c37Stmt(query)) ==> result0 == c37Stmt(query)
//@   witness out int = result0
//@   ensures result0 == out
//@   assigns nothing

// ---------- database/sql: TRUSTED, with a ghost typestate per connection ----------
// c37Dedicated[c]: c was handed out by (*DB).Conn (a dedicated connection, not the pool's implicit one).
// c37QueryOnly[c]: the last successful `PRAGMA query_only` statement on c was `= ON`.
// c37Closed[c]:    c.Close() has been called (the connection went back to the pool).
// c37OffTried[c]:  number of `PRAGMA query_only = OFF` statements attempted on c.
// A query is an event: c37Queries counts them, c37LastSQL / c37LastConn describe the last one.

//@ ghost var c37Dedicated set
//@ ghost var c37QueryOnly set
//@ ghost var c37Closed set
//@ ghost var c37OffTried map
//@ ghost var c37Queries int
//@ ghost var c37LastSQL int
//@ ghost var c37LastConn int
//@ ghost var c37Conns int

//@ ext context.WithTimeout(parent, timeout)
//@   trusted
//@   assigns nothing
// the cancel function WithTimeout returns: releases the context's timer, touches nothing of ours
//@ ext context.CancelFunc()
//@   trusted
//@   assigns nothing

//@ ext database/sql.(*DB).Conn(db, ctx)
//@   trusted
//@   ensures result1 == nil ==> result0 != nil && !old(c37Dedicated)[result0] && !c37Closed[result0] && c37OffTried[result0] == 0
//@   ensures result1 == nil ==> c37Dedicated == upd(old(c37Dedicated), result0, true) && c37Conns == old(c37Conns) + 1
//@   ensures result1 != nil ==> c37Dedicated == old(c37Dedicated) && c37Conns == old(c37Conns)
//@   assigns c37Dedicated, c37Conns

//@ ext database/sql.(*Conn).ExecContext(c, ctx, query, args)
//@   trusted
//@   label C37.exec.open
//@   requires !c37Closed[c]
//@   ensures (result1 == nil && query == "PRAGMA query_only = ON") ==> c37QueryOnly == upd(old(c37QueryOnly), c, true)
//@   ensures (result1 == nil && query == "PRAGMA query_only = OFF") ==> c37QueryOnly == upd(old(c37QueryOnly), c, false)
//@   ensures (result1 != nil || (query != "PRAGMA query_only = ON" && query != "PRAGMA query_only = OFF")) ==> c37QueryOnly == old(c37QueryOnly)
//@   ensures c37OffTried == (query == "PRAGMA query_only = OFF" ? upd(old(c37OffTried), c, old(c37OffTried)[c] + 1) : old(c37OffTried))
//@   assigns c37QueryOnly, c37OffTried

// The single place model-influenced SQL reaches SQLite.  The obligation is checked at every call site in the package.
//@ ext database/sql.(*Conn).QueryContext(c, ctx, query, args)
//@   trusted
//@   label C37.query.dedicated
//@   requires c37Dedicated[c] && !c37Closed[c]
//@   label C37.query.readonly
//@   requires c37QueryOnly[c]
//@   ensures c37Queries == old(c37Queries) + 1 && c37LastSQL == query && c37LastConn == c
//@   ensures result1 == nil ==> result0 != nil
//@   assigns c37Queries, c37LastSQL, c37LastConn

// Model-influenced SQL must never run on the pool's implicit (writable, shared) connection.
//@ ext database/sql.(*DB).QueryContext(db, ctx, query, args)
//@   trusted
//@   label C37.query.nopool
//@   requires false
//@   assigns nothing
//@ ext database/sql.(*DB).ExecContext(db, ctx, query, args)
//@   trusted
//@   label C37.exec.nopool
//@   requires false
//@   assigns nothing

//@ ext database/sql.(*Conn).Close(c)
//@   trusted
//@   ensures c37Closed == upd(old(c37Closed), c, true)
//@   assigns c37Closed

//@ ext database/sql.(*Rows).Close(rs)
//@   trusted
//@   assigns nothing

// ---------- formatRows: row cap and byte cap ----------
// strings.Builder: Len() is len(b.buf) (transcribed from GOROOT/src/strings/builder.go); a string/byte slice is shorter
// than 2^62 bytes (address-space bound: stated assumption, keeps `body.Len()+len(line)+1` from wrapping).

//@ ext strings.(*Builder).WriteString(b, s)
//@   trusted
//@   ensures len(b.buf) == old(len(b.buf)) + strlen(s) && len(b.buf) < 4611686018427387904
//@   assigns b.buf, b.addr
//@ ext strings.(*Builder).Len(b)
//@   trusted
//@   pure
//@   ensures result == len(b.buf)
//@ ext strings.(*Builder).String(b)
//@   trusted
//@   pure
//@   ensures strlen(result) == len(b.buf)
//@ ext strings.Join(elems, sep)
//@   trusted
//@   pure
//@   ensures strlen(result) < 4611686018427387904
//@ ext strings.ReplaceAll(s, old_, new_)
//@   trusted
//@   pure

//@ ext database/sql.(*Rows).Columns(rs)
//@   trusted
//@   assigns nothing
//@ ext database/sql.(*Rows).Next(rs)
//@   trusted
//@   assigns nothing
//@ ext database/sql.(*Rows).Err(rs)
//@   trusted
//@   assigns nothing
// Scan writes the row's values through the destination pointers (here: the elements of `vals`).
//@ ext database/sql.(*Rows).Scan(rs, dest)
//@   trusted
//@   assigns key("E|interface{}|")

//@ fn rawCellToString
//@   property C37
//@   assigns nothing
//@ fn cellToString
//@   property C37
//@   assigns nothing

//@ fn formatRows
//@   property C37
//@   requires rows != nil
//@   requires byteCap >= 1      // the header's newline alone is one byte; the only caller passes dataQueryByteCap = 64 KiB
//@   witness nrows int = n
//@   witness blen int = len(body.buf)
//@   witness hdrlen int = hdr
//@   label C37.format.rowcap
//@   ensures result1 == nil ==> nrows <= max(rowCap, 0)
//@   label C37.format.bytecap.rows
//@   ensures result1 == nil ==> blen <= max(byteCap, hdrlen)
//@   assigns key("E|interface{}|")     // rows.Scan writes the cells of the (fresh) `vals` through the pointers in `ptrs`; it only has the pointers, so its frame is the element class
//@   label C37.format.inv.n
//@   loop 0: invariant 0 <= n && n <= max(rowCap, 0)
//@   loop 0: ghost hdr = len(body.buf)
//@   loop 0: backedge hdr = hdr
//@   label C37.format.inv.bytes
//@   loop 0: invariant len(body.buf) <= max(byteCap, hdr) && hdr < 4611686018427387904 && len(body.buf) >= 0
// The byte cap as the property states it ("limited to the documented ... byte caps"): the body never exceeds byteCap.
// With .bytecap.rows this comes down to the header line fitting.  `fits` is a constant ghost whose value inside the loop
// is tied to nothing else, so assuming it there helps no other proof; its obligation is the one at loop ENTRY.
//@   loop 0: ghost fits = len(body.buf) <= max(byteCap, 0)
//@   loop 0: backedge fits = fits
//@   label C37.format.bytecap.header
//@   loop 0: invariant fits
//@   label C37.format.inv1
//@   loop 1: invariant -1 <= rangeindex && rangeindex < len(vals) && len(ptrs) == len(vals)
//@   label C37.format.inv2
//@   loop 2: invariant -1 <= rangeindex && rangeindex < len(vals) && len(cells) == len(vals)

// ---------- runDataQuery: the protocol ----------
//@ fn runDataQuery
//@   property C37
//@   requires limitClausePattern != nil
//@   witness cn int = conn
//@   label C37.run.reject
//@   ensures !c37Accept(query) ==> c37Queries == old(c37Queries) && c37Conns == old(c37Conns)
//@   label C37.run.onequery
//@   ensures c37Queries <= old(c37Queries) + 1
//@   label C37.run.sanitized
//@   witness safeText int = safe
//@   ensures c37Queries != old(c37Queries) ==> c37LastSQL == safeText
//@   label C37.run.oneconn
//@   ensures c37Conns <= old(c37Conns) + 1 && (c37Queries != old(c37Queries) ==> c37Conns == old(c37Conns) + 1 && c37LastConn == cn)
//@   label C37.run.closed
//@   ensures c37Conns != old(c37Conns) ==> c37Closed[cn]
//@   label C37.run.off
//@   ensures c37Conns != old(c37Conns) ==> c37OffTried[cn] == old(c37OffTried)[cn] + 1 || (c37OffTried[cn] == old(c37OffTried)[cn] && c37Queries == old(c37Queries) && (c37QueryOnly[cn] <==> old(c37QueryOnly)[cn]))
//@   label C37.run.query.off
//@   ensures c37Queries != old(c37Queries) ==> c37OffTried[cn] == old(c37OffTried)[cn] + 1
//@   label C37.run.others
//@   ensures forall k int :: k != cn ==> (c37QueryOnly[k] <==> old(c37QueryOnly)[k]) && c37OffTried[k] == old(c37OffTried)[k] && (c37Closed[k] <==> old(c37Closed)[k])
//@   assigns c37Dedicated, c37QueryOnly, c37Closed, c37OffTried, c37Queries, c37LastSQL, c37LastConn, c37Conns, key("E|interface{}|")
