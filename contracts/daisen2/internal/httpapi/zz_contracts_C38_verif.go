//go:build verif

// Contracts for package httpapi, property C38 (comment-only; read by /verif/engine, never compiled into a build).
package httpapi

// ---- C38: outbound LLM connections never reach internal addresses ----
//
// net.IP is []byte.  An address is given in one of three encodings: 4 bytes a.b.c.d, 16 bytes (IPv6), or the
// IPv4-mapped 16-byte form ::ffff:a.b.c.d (ten zero bytes, 0xff 0xff, then a b c d).

// ---------- the specification: which addresses are "internal" (written from the property statement + RFCs) ----------

//@ pred c38Mapped(ip) = len(ip) == 16 && ip[0] == 0 && ip[1] == 0 && ip[2] == 0 && ip[3] == 0 && ip[4] == 0 && ip[5] == 0 && ip[6] == 0 && ip[7] == 0 && ip[8] == 0 && ip[9] == 0 && ip[10] == 255 && ip[11] == 255
//@ pred c38IsV4(ip) = len(ip) == 4 || c38Mapped(ip)
//@ func c38A(ip) = len(ip) == 4 ? ip[0] : ip[12]
//@ func c38B(ip) = len(ip) == 4 ? ip[1] : ip[13]
//@ func c38C(ip) = len(ip) == 4 ? ip[2] : ip[14]
//@ func c38D(ip) = len(ip) == 4 ? ip[3] : ip[15]

// IPv4 a.b.c.d: loopback 127/8 (RFC 1122), private 10/8, 172.16/12, 192.168/16 (RFC 1918), link-local 169.254/16
// (RFC 3927), unspecified 0.0.0.0, link-local multicast 224.0.0.0/24 (RFC 5771).
//@ pred c38V4Internal(a, b, c, d) = a == 127 || a == 10 || (a == 172 && 16 <= b && b <= 31) || (a == 192 && b == 168) || (a == 169 && b == 254) || (a == 0 && b == 0 && c == 0 && d == 0) || (a == 224 && b == 0 && c == 0)

// IPv6 (RFC 4291 / 4193): loopback ::1, unspecified ::, unique local fc00::/7, link-local unicast fe80::/10,
// link-local multicast ffX2::/16 (first byte ff, any flags nibble, scope nibble 2).
//@ pred c38Hi15Zero(ip) = ip[0] == 0 && ip[1] == 0 && ip[2] == 0 && ip[3] == 0 && ip[4] == 0 && ip[5] == 0 && ip[6] == 0 && ip[7] == 0 && ip[8] == 0 && ip[9] == 0 && ip[10] == 0 && ip[11] == 0 && ip[12] == 0 && ip[13] == 0 && ip[14] == 0
//@ pred c38V6Internal(ip) = (c38Hi15Zero(ip) && (ip[15] == 0 || ip[15] == 1)) || ip[0] == 252 || ip[0] == 253 || (ip[0] == 254 && 128 <= ip[1] && ip[1] <= 191) || (ip[0] == 255 && ip[1] % 16 == 2)

//@ pred c38Internal(ip) = (c38IsV4(ip) && c38V4Internal(c38A(ip), c38B(ip), c38C(ip), c38D(ip))) || (len(ip) == 16 && c38V6Internal(ip))

// ---------- TRUSTED: the five net.IP predicates, transcribed from GOROOT/src/net/ip.go (go1.26) ----------
// To4() != nil  <==>  c38IsV4(ip), and then ip4[k] is c38A..D.  Equal(x) for a 16-byte x compares the 16 bytes, or,
// for a 4-byte receiver, x[0:12] with the v4-in-v6 prefix and the last four bytes.  x&0xf0==16 is x/16==1,
// x&0xfe==0xfc is x/2==126, x&0x0f==2 is x%16==2, x&0xc0==0x80 is x/64==2 (x a byte).
// Assumes nobody mutates the package variables net.IPv4zero / IPv6unspecified / IPv6loopback.

//@ ext net.(IP).IsLoopback(ip)
//@   trusted
//@   pure
//@   ensures result <==> (c38IsV4(ip) ? c38A(ip) == 127 : (len(ip) == 16 && c38Hi15Zero(ip) && ip[15] == 1))

//@ ext net.(IP).IsPrivate(ip)
//@   trusted
//@   pure
//@   ensures result <==> (c38IsV4(ip) ? (c38A(ip) == 10 || (c38A(ip) == 172 && c38B(ip) / 16 == 1) || (c38A(ip) == 192 && c38B(ip) == 168)) : (len(ip) == 16 && ip[0] / 2 == 126))

//@ ext net.(IP).IsUnspecified(ip)
//@   trusted
//@   pure
//@   ensures result <==> ((c38IsV4(ip) && c38A(ip) == 0 && c38B(ip) == 0 && c38C(ip) == 0 && c38D(ip) == 0) || (len(ip) == 16 && c38Hi15Zero(ip) && ip[15] == 0))

//@ ext net.(IP).IsLinkLocalUnicast(ip)
//@   trusted
//@   pure
//@   ensures result <==> (c38IsV4(ip) ? (c38A(ip) == 169 && c38B(ip) == 254) : (len(ip) == 16 && ip[0] == 254 && ip[1] / 64 == 2))

//@ ext net.(IP).IsLinkLocalMulticast(ip)
//@   trusted
//@   pure
//@   ensures result <==> (c38IsV4(ip) ? (c38A(ip) == 224 && c38B(ip) == 0 && c38C(ip) == 0) : (len(ip) == 16 && ip[0] == 255 && ip[1] % 16 == 2))

// To4 and Equal are what the five predicates are built from (not called by the code under contract today; given so
// that a rewrite of isInternalIP in terms of them stays decidable).
//@ ext net.(IP).To4(ip)
//@   trusted
//@   pure
//@   ensures c38IsV4(ip) ? (len(result) == 4 && result[0] == c38A(ip) && result[1] == c38B(ip) && result[2] == c38C(ip) && result[3] == c38D(ip)) : result == nil

//@ pred c38SameBytes(ip, x) = len(ip) == len(x) && (forall k in 0..len(ip) :: ip[k] == x[k])
//@ pred c38Eq4in16(a, x) = len(a) == 4 && c38Mapped(x) && a[0] == x[12] && a[1] == x[13] && a[2] == x[14] && a[3] == x[15]
//@ ext net.(IP).Equal(ip, x)
//@   trusted
//@   pure
//@   ensures result <==> (c38SameBytes(ip, x) || c38Eq4in16(ip, x) || c38Eq4in16(x, ip))

// ---------- the classifier ----------

//@ fn isInternalIP
//@   property C38
//@   label C38.isinternal.iff
//@   ensures result <==> c38Internal(ip)
//@   pure

// ---------- the environment, strings, URLs, DNS: external, modelled by TRUSTED contracts ----------
// Strings are opaque tokens.  Deterministic string functions are uninterpreted spec functions; what the resolver
// answers is NOT a function (it may change between two calls: DNS rebinding), so each resolution is an event recorded
// in ghost state: how many resolutions happened, which host the last one asked for, whether every address of the
// last answer is non-internal, and the set of backing arrays of the last answer's addresses.

//@ ufunc c38Env(key) int
//@ ufunc c38Trim(s) int
//@ ufunc c38Lower(s) int
//@ ufunc c38URLOk(raw) bool
//@ ufunc c38URLScheme(raw) int
//@ ufunc c38URLHost(raw) int
//@ ufunc c38Hostname(hostfield) int

//@ ghost var c38Lookups int
//@ ghost var c38LastHost int
//@ ghost var c38LastClean bool    // every address of the last successful answer is non-internal ...
//@ ghost var c38LastBad int       // ... and otherwise this is the index of an internal one (witness: keeps the loop invariants quantifier-free)
//@ ghost var c38LastAnswer set

//@ pred c38OptIn() = c38Lower(c38Trim(c38Env("DAISEN_ALLOW_PRIVATE_LLM_URL"))) == "1" || c38Lower(c38Trim(c38Env("DAISEN_ALLOW_PRIVATE_LLM_URL"))) == "true" || c38Lower(c38Trim(c38Env("DAISEN_ALLOW_PRIVATE_LLM_URL"))) == "yes"

//@ ext os.Getenv(key)
//@   trusted
//@   pure
//@   ensures result == c38Env(key)
//@ ext strings.TrimSpace(s)
//@   trusted
//@   pure
//@   ensures result == c38Trim(s)
//@ ext strings.ToLower(s)
//@   trusted
//@   pure
//@   ensures result == c38Lower(s)

//@ ext net/url.Parse(rawURL)
//@   trusted
//@   ensures (result1 == nil <==> c38URLOk(rawURL)) && (result1 == nil ==> result0 != nil && fresh(result0) && result0.Scheme == c38URLScheme(rawURL) && result0.Host == c38URLHost(rawURL))
//@   assigns nothing
//@ ext net/url.(*URL).Hostname(u)
//@   trusted
//@   pure
//@   ensures result == c38Hostname(u.Host)

// c38LastClean <==> no address of the answer is internal: "==>" is the quantified clause, "<==" is stated through its
// witness c38LastBad (not clean ==> the answer has an internal address at that index).  Resolved addresses have length
// 4 or 16.  c38LastAnswer holds (at least) the backing arrays of the answer's addresses.
//@ ext net.LookupIP(host)
//@   trusted
//@   ensures c38Lookups == old(c38Lookups) + 1 && c38LastHost == host
//@   ensures result1 == nil && c38LastClean ==> (forall j in 0..len(result0) :: !c38Internal(result0[j]))
//@   ensures result1 == nil && !c38LastClean ==> 0 <= c38LastBad && c38LastBad < len(result0) && c38Internal(result0[c38LastBad])
//@   ensures result1 == nil ==> (forall j in 0..len(result0) :: (len(result0[j]) == 4 || len(result0[j]) == 16) && c38LastAnswer[ref(result0[j])])
//@   assigns c38Lookups, c38LastHost, c38LastClean, c38LastBad, c38LastAnswer

//@ fn allowPrivateLLMHosts
//@   property C38
//@   label C38.optin.iff
//@   ensures result <==> c38OptIn()
//@   pure

//@ fn guardLLMURL
//@   property C38
//@   label C38.guardurl.nil
//@   ensures result == nil ==> c38OptIn() || (c38Lookups == old(c38Lookups) + 1 && c38LastClean)
//@   label C38.guardurl.target
//@   ensures result == nil ==> c38OptIn() || (c38URLOk(rawURL) && (c38URLScheme(rawURL) == "http" || c38URLScheme(rawURL) == "https") && c38LastHost == c38Hostname(c38URLHost(rawURL)))
//@   label C38.guardurl.optin
//@   ensures c38OptIn() ==> result == nil && c38Lookups == old(c38Lookups)
//@   assigns c38Lookups, c38LastHost, c38LastClean, c38LastBad, c38LastAnswer
//@   label C38.guardurl.inv.range
//@   loop 0: invariant -1 <= rangeindex && rangeindex < len(ips)
//@   label C38.guardurl.inv.clean
//@   loop 0: invariant c38LastClean || c38LastBad > rangeindex

// ---------- dialling ----------
// host:port strings: SplitHostPort/JoinHostPort are inverse deterministic string functions.  IP.String() prints an
// address as a literal; ghost state remembers, per literal text, whether the address it was printed from is
// internal and which backing array it came from.  A dial is an event (counted).

//@ ufunc c38SplitOk(hostport) bool
//@ ufunc c38HostOf(hostport) int
//@ ufunc c38PortOf(hostport) int
//@ ufunc c38IsIPLiteral(s) bool
//@ ufunc c38Contains(s, sub) bool

//@ ghost var c38LitInternal set
//@ ghost var c38LitSrc map
//@ ghost var c38Dials int

//@ ext net.SplitHostPort(hostport)
//@   trusted
//@   pure
//@   ensures (result2 == nil <==> c38SplitOk(hostport)) && (result2 == nil ==> result0 == c38HostOf(hostport) && result1 == c38PortOf(hostport))
//@ ext net.JoinHostPort(host, port)
//@   trusted
//@   pure
//@   ensures c38SplitOk(result) && c38HostOf(result) == host && c38PortOf(result) == port
//@ ext strings.Contains(s, substr)
//@   trusted
//@   pure
//@   ensures result <==> c38Contains(s, substr)
//@ ext net.(IP).String(ip)
//@   trusted
//@   ensures c38LitInternal == upd(old(c38LitInternal), result, c38Internal(ip)) && c38LitSrc == upd(old(c38LitSrc), result, ref(ip))
//@   ensures (len(ip) == 4 || len(ip) == 16) ==> c38IsIPLiteral(result)
//@   assigns c38LitInternal, c38LitSrc

//@ ext net.(*Resolver).LookupIP(r, ctx, network, host)
//@   trusted
//@   ensures c38Lookups == old(c38Lookups) + 1 && c38LastHost == host
//@   ensures result1 == nil && c38LastClean ==> (forall j in 0..len(result0) :: !c38Internal(result0[j]))
//@   ensures result1 == nil && !c38LastClean ==> 0 <= c38LastBad && c38LastBad < len(result0) && c38Internal(result0[c38LastBad])
//@   ensures result1 == nil ==> (forall j in 0..len(result0) :: (len(result0[j]) == 4 || len(result0[j]) == 16) && c38LastAnswer[ref(result0[j])])
//@   assigns c38Lookups, c38LastHost, c38LastClean, c38LastBad, c38LastAnswer

// The proxy bypass: addr is the host:port of a configured proxy.  One environment variable `key` designates addr when
// its trimmed value v is non-empty and the URL v (or "http://"+v when v has no "://": string concatenation is opaque
// to the specification, so this case is over-approximated by "any addr") parses with Host == addr or a non-empty
// Hostname equal to addr's host part.
//@ func c38AddrHost(addr) = c38SplitOk(addr) ? c38HostOf(addr) : addr
//@ pred c38ProxyVal(v, addr) = v != "" && (!c38Contains(v, "://") || (c38URLOk(v) && (c38URLHost(v) == addr || (c38Hostname(c38URLHost(v)) != "" && c38Hostname(c38URLHost(v)) == c38AddrHost(addr)))))
//@ pred c38ProxyTarget(addr) = c38ProxyVal(c38Trim(c38Env("HTTPS_PROXY")), addr) || c38ProxyVal(c38Trim(c38Env("https_proxy")), addr) || c38ProxyVal(c38Trim(c38Env("HTTP_PROXY")), addr) || c38ProxyVal(c38Trim(c38Env("http_proxy")), addr) || c38ProxyVal(c38Trim(c38Env("ALL_PROXY")), addr) || c38ProxyVal(c38Trim(c38Env("all_proxy")), addr)

// The single place a connection is opened.  The obligation is checked at every call site in the package.
//@ pred c38Vetted(address) = c38LastClean && c38IsIPLiteral(c38HostOf(address)) && !c38LitInternal[c38HostOf(address)] && c38LastAnswer[c38LitSrc[c38HostOf(address)]]
//@ ext net.(*Dialer).DialContext(d, ctx, network, address)
//@   trusted
//@   label C38.dial.vetted
//@   requires c38OptIn() || c38ProxyTarget(address) || c38Vetted(address)
//@   ensures c38Dials == old(c38Dials) + 1
//@   assigns c38Dials

//@ fn dialTargetIsProxy
//@   property C38
//@   label C38.isproxy.sound
//@   ensures result ==> c38ProxyTarget(addr)
//@   assigns nothing
//@   label C38.isproxy.inv.range
//@   loop 0: invariant -1 <= rangeindex && rangeindex < 6

//@ fn guardedDialContext
//@   property C38
//@   requires net.DefaultResolver != nil      // assumption about a standard-library global (a nil *Resolver is legal in net anyway)
//@   label C38.dial.conn
//@   ensures result1 == nil ==> c38OptIn() || c38ProxyTarget(addr) || (c38Lookups == old(c38Lookups) + 1 && c38LastClean && c38SplitOk(addr) && c38LastHost == c38HostOf(addr))
//@   label C38.dial.noattempt
//@   ensures !c38OptIn() && !c38ProxyTarget(addr) && c38Dials != old(c38Dials) ==> c38Lookups == old(c38Lookups) + 1 && c38LastClean && c38SplitOk(addr) && c38LastHost == c38HostOf(addr)
//@   label C38.dial.onelookup
//@   ensures c38Lookups <= old(c38Lookups) + 1
//@   assigns c38Lookups, c38LastHost, c38LastClean, c38LastBad, c38LastAnswer, c38LitInternal, c38LitSrc, c38Dials
//@   label C38.dial.inv0.range
//@   loop 0: invariant -1 <= rangeindex && rangeindex < len(ips)
//@   label C38.dial.inv0.clean
//@   loop 0: invariant c38LastClean || c38LastBad > rangeindex
//@   label C38.dial.inv1.range
//@   loop 1: invariant -1 <= rangeindex && rangeindex < len(ips)
//@   label C38.dial.inv1.dials
//@   loop 1: invariant c38Dials >= old(c38Dials)

// ---------- redirects and proxied requests re-check the target ----------
// (*url.URL).String(): re-parsing the text gives back the same Scheme and Host (round trip of net/url, trusted).

//@ ext net/url.(*URL).String(u)
//@   trusted
//@   pure
//@   ensures c38URLScheme(result) == u.Scheme && c38URLHost(result) == u.Host

// CheckRedirect closure of guardedLLMClient: a redirect is followed only under opt-in or after its target host has been
// resolved (in this call) with no internal address; never after 10 hops.
//@ fn init$1
//@   property C38
//@   requires req != nil && req.URL != nil
//@   label C38.redirect.checked
//@   ensures result == nil ==> c38OptIn() || (c38Lookups == old(c38Lookups) + 1 && c38LastClean && c38LastHost == c38Hostname(req.URL.Host))
//@   label C38.redirect.limit
//@   ensures result == nil ==> len(via) < 10
//@   assigns c38Lookups, c38LastHost, c38LastClean, c38LastBad, c38LastAnswer

// A request is handed to a proxy (non-nil proxy URL, nil error) only under opt-in or after its target host has been
// resolved with no internal address.  llmProxyFromEnvironment is a function variable (arbitrary callee: it may write
// anything, so there is no assigns clause here); req.URL is read after it returns.
// The proxy selector is a package-level function variable (http.ProxyFromEnvironment by default). TRUSTED assumption
// about whatever function is installed there: it only reads the request and the environment (it resolves nothing).
//@ ext daisen2/internal/httpapi.llmProxyFromEnvironment(req)
//@   trusted
//@   assigns nothing

//@ fn proxyForLLMRequest
//@   property C38
//@   panics any
//@   label C38.proxy.checked
//@   ensures result0 != nil && result1 == nil ==> c38OptIn() || (c38Lookups > old(c38Lookups) && c38LastClean && c38LastHost == c38Hostname(req.URL.Host))
