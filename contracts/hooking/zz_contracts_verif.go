//go:build verif

// Contracts for package hooking (comment-only; read by /verif/engine, never compiled into a build).
// These two are TRUSTED (assumed, not verified): invoking hooks runs arbitrary user callbacks; the
// assumption recorded in every evidence file is that hooks observe and do not modify the domain object.
package hooking

//@ fn (*HookableBase).NumHooks
//@   trusted
//@   pure
//@   ensures result >= 0

//@ fn (*HookableBase).InvokeHook
//@   trusted
//@   assigns nothing
