//go:build verif

// Contracts for package messaging, property C03 (comment-only; read by /verif/engine, never compiled into a build).
// C03, decidable part: "No result depends on map iteration order". The engine hands out the keys of a ranged map in an
// ARBITRARY order, so a postcondition that pins the result as a function of the map's CONTENTS holds for every order.
//
// PortOwnerBase.Ports ranges over the map po.ports. Its result is pinned completely:
//   * the names behind the result (local portList) are STRICTLY increasing,
//   * every one of them is a key of po.ports and result[k] is the port stored under it,
//   * every key of po.ports occurs among them.
// A strictly increasing list of keys that contains every key is THE sorted key list: one value per map contents.
package messaging

// ---- trusted: standard library. sort.Strings sorts in place: afterwards x is in non-decreasing order and is a
// PERMUTATION of its old contents (Strings_pi: new x[k] == old x[pi[k]]; Strings_inv is the inverse of pi).
//@ ext sort.Strings(x)
//@   trusted
//@   witness pi map = idperm
//@   witness inv map = idperm
//@   ensures forall k in 0..len(x) - 1 :: !strlt(x[k+1], x[k])
//@   ensures forall k in 0..len(x) :: 0 <= pi[k] && pi[k] < len(x) && x[k] == old(x)[pi[k]] && inv[pi[k]] == k
//@   ensures forall j in 0..len(x) :: 0 <= inv[j] && inv[j] < len(x) && pi[inv[j]] == j
//@   assigns elems(x)

//@ fn (PortOwnerBase).Ports
//@   property C03
//@   requires 0 <= len(po.ports) && len(po.ports) < 4611686018427387904      // true of every Go map; the engine does not assume it (needed for make's capacity)
//@   label C03.Ports.deterministic
//@   ensures forall k in 0..len(portList) - 1 :: strlt(portList[k], portList[k+1])
//@   label C03.Ports.values
//@   ensures len(result) == len(portList) && (forall k in 0..len(portList) :: (portList[k] in po.ports) && result[k] == po.ports[portList[k]])
//@   label C03.Ports.complete
//@   ensures forall n int :: (n in po.ports) ==> 0 <= Strings_inv[where[n]] && Strings_inv[where[n]] < len(portList) && portList[Strings_inv[where[n]]] == n
//@   assigns nothing
// loop 0 collects the names (where[n] = index at which n was appended; the names collected so far are distinct because
// each was unvisited when it was appended); sort.Strings permutes them; loop 1 looks each one up.
//@   loop 0: ghost where = idperm
//@   loop 0: backedge where = upd(where, k, athead(len(portList)))
//@   loop 0: invariant fresh(portList) && off(portList) == 0
//@   loop 0: invariant forall i in 0..len(portList) :: (portList[i] in po.ports) && visited(portList[i]) && where[portList[i]] == i
//@   label C03.Ports.complete.collect
//@   loop 0: invariant forall n int :: visited(n) ==> 0 <= where[n] && where[n] < len(portList) && portList[where[n]] == n
//@   loop 1: invariant -1 <= rangeindex && rangeindex < len(portList) && len(list) == rangeindex + 1 && fresh(list) && fresh(portList)
//@   label C03.Ports.deterministic.atloop
//@   loop 1: invariant forall i in 0..len(portList) - 1 :: strlt(portList[i], portList[i+1])
// ground instance of the invariant above (so that a broken order is refuted with a counterexample, not merely undecided)
//@   label C03.Ports.deterministic.atloop.first2
//@   loop 1: invariant len(portList) >= 2 ==> strlt(portList[0], portList[1])
//@   loop 1: invariant forall i in 0..len(portList) :: (portList[i] in po.ports)
//@   label C03.Ports.complete.atloop
//@   loop 1: invariant forall n int :: (n in po.ports) ==> 0 <= Strings_inv[where[n]] && Strings_inv[where[n]] < len(portList) && portList[Strings_inv[where[n]]] == n
//@   label C03.Ports.values.atloop
//@   loop 1: invariant forall i in 0..rangeindex + 1 :: list[i] == po.ports[portList[i]]
//@   label C03.Ports.values.atloop.last
//@   loop 1: invariant rangeindex >= 0 ==> list[rangeindex] == po.ports[portList[rangeindex]]
