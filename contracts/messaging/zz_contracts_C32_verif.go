//go:build verif

// C32 helper (verified, not trusted): the buffer tracers of package tracing ask a message's metadata whether it is a response.
package messaging

//@ fn (MsgMeta).IsRsp
//@   property C32
//@   pure
//@   label C32.isrsp
//@   ensures result <==> m.RspTo != 0
