//go:build verif

// Contracts for package messaging, property C11 (comment-only; read by /verif/engine).
package messaging

//@ func inSeq(p) = p.incomingBuf.elements
//@ func outSeq(p) = p.outgoingBuf.elements
//@ pred portWF(p) = len(p.incomingBuf.elements) <= max(int(p.incomingBuf.cap), 0) && len(p.outgoingBuf.elements) <= max(int(p.outgoingBuf.cap), 0)

//@ fn (*defaultPort).NumIncoming
//@   property C11
//@   label C11.numincoming
//@   ensures result == len(p.incomingBuf.elements)
//@   assigns nothing

//@ fn (*defaultPort).CanSend
//@   property C11
//@   label C11.cansend
//@   ensures result <==> len(p.outgoingBuf.elements) < int(p.outgoingBuf.cap)
//@   assigns nothing
