//go:build verif

// Contracts for package messaging, property C11 (comment-only; read by /verif/engine, never compiled into a build).
// C11: ports are bounded FIFO channels with accurate capacity and notifications.
// View of a port p: in(p) = p.incomingBuf.elements, out(p) = p.outgoingBuf.elements (front at index 0),
// capacities p.incomingBuf.cap / p.outgoingBuf.cap. The Buffer methods are used through their C14 contracts.
package messaging

// ---- notification counters (ghost): incremented ONLY by the interface contracts below ----
// nRecv/nFree: NotifyRecv/NotifyPortFree calls received by owner components; nSend/nAvail: NotifySend/NotifyAvailable
// calls received by connections. recvPort/freePort/availPort: the port handed over by the most recent such call.
//@ ghost var nRecv int
//@ ghost var nFree int
//@ ghost var nSend int
//@ ghost var nAvail int
//@ ghost var recvPort int
//@ ghost var freePort int
//@ ghost var availPort int

// RELY (trusted): the notified party is an arbitrary Component / Connection implementation. It is assumed not to
// re-enter and modify THIS port (nor anything else the caller reads afterwards) during the notification: the contracts
// assign only the ghost counters. Invoking a method on a nil interface value panics (nil dereference).
//@ iface messaging.Component.NotifyRecv(port)
//@   trusted
//@   panics typeid(self) == 0
//@   ensures nRecv == old(nRecv) + 1 && recvPort == ifaceval(port)
//@   assigns nRecv, recvPort
//@ iface messaging.Component.NotifyPortFree(port)
//@   trusted
//@   panics typeid(self) == 0
//@   ensures nFree == old(nFree) + 1 && freePort == ifaceval(port)
//@   assigns nFree, freePort
//@ iface messaging.Connection.NotifySend()
//@   trusted
//@   panics typeid(self) == 0
//@   ensures nSend == old(nSend) + 1
//@   assigns nSend
//@ iface messaging.Connection.NotifyAvailable(port)
//@   trusted
//@   panics typeid(self) == 0
//@   ensures nAvail == old(nAvail) + 1 && availPort == ifaceval(port)
//@   assigns nAvail, availPort
//@ iface messaging.Connection.Name()
//@   trusted
//@   pure
//@   panics typeid(self) == 0

// Messages are immutable interface values; Meta() is a pure getter (trusted: any Msg implementation). Its routing fields
// are functions of the message value.
//@ ufunc msgSrc(m) int
//@ ufunc msgDst(m) int
//@ iface messaging.Msg.Meta()
//@   trusted
//@   pure
//@   panics typeid(self) == 0
//@   ensures result.Src == msgSrc(self) && result.Dst == msgDst(self)

// ---- the view and its invariant ----
// the two buffers never share a backing array (both are nil in a new port); needed because a push rewrites the pushed
// buffer's backing array (frame elems(...)).
//@ pred sep(p) = (ref(p.incomingBuf.elements) != ref(p.outgoingBuf.elements) || (ref(p.incomingBuf.elements) == 0 && len(p.incomingBuf.elements) == 0 && len(p.outgoingBuf.elements) == 0)) && ref(p.incomingBuf.elements) <= allocTop && ref(p.outgoingBuf.elements) <= allocTop
// sizes never exceed capacity; a nil Msg is not a message (Retrieve*/Peek* use nil for "empty").
//@ pred portWF(p) = sep(p) && queueing.bufWF(p.incomingBuf) && queueing.bufWF(p.outgoingBuf) && (forall i in 0..len(p.incomingBuf.elements) :: p.incomingBuf.elements[i] != nil) && (forall i in 0..len(p.outgoingBuf.elements) :: p.outgoingBuf.elements[i] != nil)
//@ pred cfgSame(p) = p.incomingBuf.cap == old(p.incomingBuf.cap) && p.outgoingBuf.cap == old(p.outgoingBuf.cap) && p.incomingBuf.name == old(p.incomingBuf.name) && p.outgoingBuf.name == old(p.outgoingBuf.name)
//@ pred inFull(p) = len(p.incomingBuf.elements) > 0 && len(p.incomingBuf.elements) == int(p.incomingBuf.cap)
//@ pred outFull(p) = len(p.outgoingBuf.elements) > 0 && len(p.outgoingBuf.elements) == int(p.outgoingBuf.cap)
//@ pred countersSameBut(a, b, c, d) = (a || nRecv == old(nRecv)) && (b || nFree == old(nFree)) && (c || nSend == old(nSend)) && (d || nAvail == old(nAvail))

// ---- pure queries agree with the view ----
//@ fn (*defaultPort).NumIncoming
//@   property C11
//@   label C11.numincoming
//@   ensures result == len(p.incomingBuf.elements)
//@   assigns nothing

//@ fn (*defaultPort).NumOutgoing
//@   property C11
//@   label C11.numoutgoing
//@   ensures result == len(p.outgoingBuf.elements)
//@   assigns nothing

//@ fn (*defaultPort).CanSend
//@   property C11
//@   label C11.cansend
//@   ensures result <==> len(p.outgoingBuf.elements) < int(p.outgoingBuf.cap)
//@   assigns nothing

//@ fn (*defaultPort).CanDeliver
//@   property C11
//@   label C11.candeliver
//@   ensures result <==> len(p.incomingBuf.elements) < int(p.incomingBuf.cap)
//@   assigns nothing

//@ fn (*defaultPort).Name
//@   property C11
//@   ensures result == p.name
//@   assigns nothing

//@ fn (*defaultPort).AsRemote
//@   property C11
//@   ensures result == p.name
//@   assigns nothing

//@ fn (*defaultPort).Component
//@   property C11
//@   ensures result == p.comp
//@   assigns nothing

//@ fn (*defaultPort).Connection
//@   property C11
//@   ensures result == p.conn
//@   assigns nothing

//@ fn (*defaultPort).SetComponent
//@   property C11
//@   label C11.setcomponent
//@   ensures p.comp == comp
//@   assigns p.comp

//@ fn (*defaultPort).SetConnection
//@   property C11
//@   panics p.conn != nil
//@   label C11.setconnection
//@   ensures p.conn == conn
//@   assigns p.conn

// ---- message validity (Send) ----
//@ fn dstMustNotBeEmpty
//@   property C11
//@   panics port == ""
//@   assigns nothing

//@ fn srcDstMustNotBeTheSame
//@   property C11
//@   panics msg == nil || msgSrc(msg) == msgDst(msg)
//@   assigns nothing

//@ fn portMustBeMsgSrc
//@   property C11
//@   requires hastype(port, "*defaultPort")
//@   panics msg == nil || as(port, "*defaultPort").name != msgSrc(msg)
//@   assigns nothing

//@ pred msgInvalid(p, msg) = msg == nil || p.name != msgSrc(msg) || msgDst(msg) == "" || msgSrc(msg) == msgDst(msg)
//@ fn (*defaultPort).msgMustBeValid
//@   property C11
//@   panics msgInvalid(p, msg)
//@   assigns nothing

// ---- Send: append to out, NotifySend exactly when out was empty ----
//@ fn (*defaultPort).Send
//@   property C11
//@   requires portWF(p)
//@   panics msgInvalid(p, msg) || len(p.outgoingBuf.elements) >= int(p.outgoingBuf.cap) || (len(p.outgoingBuf.elements) == 0 && p.conn == nil)
//@   label C11.send.len
//@   ensures len(p.outgoingBuf.elements) == old(len(p.outgoingBuf.elements)) + 1
//@   label C11.send.prefix
//@   ensures forall i in 0..old(len(p.outgoingBuf.elements)) :: p.outgoingBuf.elements[i] == old(p.outgoingBuf.elements[i])
//@   label C11.send.last
//@   ensures p.outgoingBuf.elements[old(len(p.outgoingBuf.elements))] == msg
//@   label C11.send.wf
//@   ensures portWF(p) && cfgSame(p)
//@   label C11.send.notify
//@   ensures nSend == old(nSend) + (old(len(p.outgoingBuf.elements)) == 0 ? 1 : 0)
//@   label C11.send.othercounters
//@   ensures countersSameBut(false, false, true, false)
//@   label C11.send.incoming
//@   ensures unchanged(p.incomingBuf.elements)
//@   label C11.send.incoming.contents
//@   ensures forall i in 0..len(p.incomingBuf.elements) :: p.incomingBuf.elements[i] == old(p.incomingBuf.elements[i])
//@   assigns p.outgoingBuf.elements, elems(p.outgoingBuf.elements), nSend

// ---- Deliver: append to in, NotifyRecv exactly when in was empty (and there is an owner) ----
// ASSUMPTION msg != nil: the code does not check it (Send does, through msg.Meta()). After Deliver(nil) the Retrieve*/Peek*
// methods cannot tell "empty" from "nil at the front": RetrieveIncoming removes the element, returns nil and skips
// NotifyAvailable even when the buffer was full (reproduced on the real code, see the C11 report).
//@ fn (*defaultPort).Deliver
//@   property C11
//@   requires portWF(p) && msg != nil
//@   panics len(p.incomingBuf.elements) >= int(p.incomingBuf.cap)
//@   label C11.deliver.len
//@   ensures len(p.incomingBuf.elements) == old(len(p.incomingBuf.elements)) + 1
//@   label C11.deliver.prefix
//@   ensures forall i in 0..old(len(p.incomingBuf.elements)) :: p.incomingBuf.elements[i] == old(p.incomingBuf.elements[i])
//@   label C11.deliver.last
//@   ensures p.incomingBuf.elements[old(len(p.incomingBuf.elements))] == msg
//@   label C11.deliver.wf
//@   ensures portWF(p) && cfgSame(p)
//@   label C11.deliver.notify
//@   ensures nRecv == old(nRecv) + (old(len(p.incomingBuf.elements)) == 0 && p.comp != nil ? 1 : 0)
//@   label C11.deliver.notify.port
//@   ensures old(len(p.incomingBuf.elements)) == 0 && p.comp != nil ==> recvPort == p
//@   label C11.deliver.othercounters
//@   ensures countersSameBut(true, false, false, false)
//@   label C11.deliver.outgoing
//@   ensures unchanged(p.outgoingBuf.elements)
//@   label C11.deliver.outgoing.contents
//@   ensures forall i in 0..len(p.outgoingBuf.elements) :: p.outgoingBuf.elements[i] == old(p.outgoingBuf.elements[i])
//@   assigns p.incomingBuf.elements, elems(p.incomingBuf.elements), nRecv, recvPort

// ---- NotifyAvailable (called by the connection): forwarded to the owner as NotifyPortFree ----
//@ fn (*defaultPort).NotifyAvailable
//@   property C11
//@   label C11.notifyavailable
//@   ensures nFree == old(nFree) + (p.comp != nil ? 1 : 0) && (p.comp != nil ==> freePort == p)
//@   assigns nFree, freePort

//@ fn (*defaultPort).PeekIncoming
//@   property C11
//@   label C11.peekincoming.empty
//@   ensures len(p.incomingBuf.elements) == 0 ==> result == nil
//@   label C11.peekincoming.front
//@   ensures len(p.incomingBuf.elements) > 0 ==> result == p.incomingBuf.elements[0]
//@   assigns nothing

//@ fn (*defaultPort).PeekOutgoing
//@   property C11
//@   label C11.peekoutgoing.empty
//@   ensures len(p.outgoingBuf.elements) == 0 ==> result == nil
//@   label C11.peekoutgoing.front
//@   ensures len(p.outgoingBuf.elements) > 0 ==> result == p.outgoingBuf.elements[0]
//@   assigns nothing

// ---- RetrieveIncoming: pop the oldest incoming message, NotifyAvailable exactly when in was full ----
//@ fn (*defaultPort).RetrieveIncoming
//@   property C11
//@   requires portWF(p)
//@   panics inFull(p) && p.conn == nil
//@   label C11.retrievein.empty
//@   ensures old(len(p.incomingBuf.elements)) == 0 ==> result == nil && len(p.incomingBuf.elements) == 0
//@   label C11.retrievein.front
//@   ensures old(len(p.incomingBuf.elements)) > 0 ==> result == old(p.incomingBuf.elements[0]) && result != nil && len(p.incomingBuf.elements) == old(len(p.incomingBuf.elements)) - 1
//@   label C11.retrievein.shift
//@   ensures forall i in 0..len(p.incomingBuf.elements) :: p.incomingBuf.elements[i] == old(p.incomingBuf.elements[i + 1])
//@   label C11.retrievein.wf
//@   ensures portWF(p) && cfgSame(p)
//@   label C11.retrievein.notify
//@   ensures nAvail == old(nAvail) + (old(inFull(p)) ? 1 : 0)
//@   label C11.retrievein.notify.port
//@   ensures old(inFull(p)) ==> availPort == p
//@   label C11.retrievein.othercounters
//@   ensures countersSameBut(false, false, false, true)
//@   assigns p.incomingBuf.elements, nAvail, availPort

// ---- RetrieveOutgoing: pop the oldest outgoing message, NotifyPortFree exactly when out was full ----
//@ fn (*defaultPort).RetrieveOutgoing
//@   property C11
//@   requires portWF(p)
//@   panics outFull(p) && p.comp == nil
//@   label C11.retrieveout.empty
//@   ensures old(len(p.outgoingBuf.elements)) == 0 ==> result == nil && len(p.outgoingBuf.elements) == 0
//@   label C11.retrieveout.front
//@   ensures old(len(p.outgoingBuf.elements)) > 0 ==> result == old(p.outgoingBuf.elements[0]) && result != nil && len(p.outgoingBuf.elements) == old(len(p.outgoingBuf.elements)) - 1
//@   label C11.retrieveout.shift
//@   ensures forall i in 0..len(p.outgoingBuf.elements) :: p.outgoingBuf.elements[i] == old(p.outgoingBuf.elements[i + 1])
//@   label C11.retrieveout.wf
//@   ensures portWF(p) && cfgSame(p)
//@   label C11.retrieveout.notify
//@   ensures nFree == old(nFree) + (old(outFull(p)) ? 1 : 0)
//@   label C11.retrieveout.notify.port
//@   ensures old(outFull(p)) ==> freePort == p
//@   label C11.retrieveout.othercounters
//@   ensures countersSameBut(false, true, false, false)
//@   assigns p.outgoingBuf.elements, nFree, freePort

// ---- NewPort: two empty buffers of the requested capacities ----
//@ fn NewPort
//@   property C11
//@   label C11.new.type
//@   ensures hastype(result, "*defaultPort") && fresh(as(result, "*defaultPort"))
//@   label C11.new.empty
//@   ensures len(as(result, "*defaultPort").incomingBuf.elements) == 0 && len(as(result, "*defaultPort").outgoingBuf.elements) == 0
//@   label C11.new.cap
//@   ensures as(result, "*defaultPort").incomingBuf.cap == incomingBufCap && as(result, "*defaultPort").outgoingBuf.cap == outgoingBufCap
//@   label C11.new.owner
//@   ensures as(result, "*defaultPort").comp == comp && as(result, "*defaultPort").conn == nil && as(result, "*defaultPort").name == name
//@   label C11.new.wf
//@   ensures portWF(as(result, "*defaultPort"))
//@   assigns nothing
