//go:build verif

// Contracts for package messaging, property C07 (comment-only; read by /verif/engine, never compiled into a build).
// C07 (part a): loading a port checkpoint never panics, whatever the archive holds, and every mismatch (a buffer
// capacity that differs, more buffered messages than the capacity, an undecodable message list) is an error.
// The decoded DTO (local `dto`) is ARBITRARY (native encoding/json model): nothing is assumed about the payload.
package messaging

// ---- trusted: the reflection-based type-tagged codec (internal/codec, out of the engine's reach) ----
// DecodeSlice: an arbitrary slice of non-nil values (each element comes from reflect.New(...).Interface() and passed the
// `result.(T)` assertion) or an error; on error the slice is nil. Modifies nothing.
// Its length is below 2^44: the elements are 16-byte interface values and Go's heap arena is 2^48 bytes.
// decCount / decLen (ghost): how many lists have been decoded so far, and the length of the most recent one.
//@ ghost var decCount int
//@ ghost var decLen int
//@ ext internal/codec.(*Registry[T]).DecodeSlice(r, data)
//@   trusted
//@   requires r != nil
//@   ensures forall i in 0..len(result0) :: result0[i] != nil
//@   ensures result1 != nil ==> len(result0) == 0
//@   ensures len(result0) < 1<<44
//@   ensures decCount == old(decCount) + 1 && decLen == len(result0)
//@   assigns decCount, decLen
// EncodeSlice: arbitrary bytes and an arbitrary error. Modifies nothing.
// encCount / encLen / encTyp / encVal / encOut (ghost log, C06): how many lists have been encoded so far and, per call number,
// the length of the list handed over, its elements (type id, value) in order, and the reference of the bytes returned.
//@ ghost var encCount int
//@ ghost var encLen map
//@ ghost var encTyp map2
//@ ghost var encVal map2
//@ ghost var encOut map
//@ ext internal/codec.(*Registry[T]).EncodeSlice(r, vs)
//@   trusted
//@   requires r != nil
//@   ensures encCount == old(encCount) + 1 && encLen == upd(old(encLen), old(encCount), len(vs)) && encOut == upd(old(encOut), old(encCount), ref(result0))
//@   ensures encTyp == upd(old(encTyp), old(encCount), mapof(i, typeid(vs[i]))) && encVal == upd(old(encVal), old(encCount), mapof(i, ifaceval(vs[i])))
//@   ensures result1 == nil ==> fresh(result0)
//@   assigns encCount, encLen, encTyp, encVal, encOut

// msgCodec is initialised at its declaration (msgcodec.go) and assigned nowhere else.
//@ pred codecReady() = msgCodec != nil

// ---- loadBuffer: one buffer ----
//@ pred bufSame(b) = ref(b.elements) == old(ref(b.elements)) && off(b.elements) == old(off(b.elements)) && len(b.elements) == old(len(b.elements)) && cap(b.elements) == old(cap(b.elements))

//@ fn loadBuffer
//@   property C07
//@   requires buf != nil && codecReady()
//@   label C07.buf.capacity.mismatch
//@   ensures bc.Capacity != old(int(buf.cap)) ==> result != nil
//@   label C07.buf.overflow.mismatch
//@   ensures bc.Capacity == old(int(buf.cap)) && decCount == old(decCount) + 1 && decLen > old(int(buf.cap)) ==> result != nil
//@   label C07.buf.decoded.once
//@   ensures bc.Capacity == old(int(buf.cap)) <==> decCount == old(decCount) + 1
//@   label C07.buf.not.decoded
//@   ensures bc.Capacity != old(int(buf.cap)) ==> decCount == old(decCount) && decLen == old(decLen)
//@   label C07.buf.error.unchanged
//@   ensures result != nil ==> bufSame(buf)
//@   label C07.buf.ok.shape
//@   ensures result == nil ==> bc.Capacity == int(buf.cap) && len(buf.elements) <= int(buf.cap) && queueing.bufWF(buf)
//@   label C07.buf.ok.contents
//@   ensures result == nil ==> len(buf.elements) == decLen
//@   label C07.buf.ok.nonnil
//@   ensures result == nil ==> (forall i in 0..len(buf.elements) :: buf.elements[i] != nil)
//@   label C07.buf.ok.fresh
//@   ensures result == nil ==> (len(buf.elements) == 0 ? ref(buf.elements) == 0 : fresh(buf.elements))
//@   label C07.buf.config
//@   ensures buf.cap == old(buf.cap) && buf.name == old(buf.name)
//@   assigns buf.elements, decCount, decLen

// ---- LoadCheckpoint: both buffers, incoming first ----
//@ fn (*defaultPort).LoadCheckpoint
//@   property C07
//@   requires p != nil && codecReady()
//@   label C07.port.incoming.capacity.mismatch
//@   ensures dto.Incoming.Capacity != old(int(p.incomingBuf.cap)) ==> result != nil && bufSame(p.incomingBuf) && bufSame(p.outgoingBuf)
//@   label C07.port.outgoing.capacity.mismatch
//@   ensures dto.Outgoing.Capacity != old(int(p.outgoingBuf.cap)) ==> result != nil && bufSame(p.outgoingBuf)
//@   label C07.port.error.outgoing.unchanged
//@   ensures result != nil ==> bufSame(p.outgoingBuf)
//@   label C07.port.ok.shape
//@   ensures result == nil ==> dto.Incoming.Capacity == int(p.incomingBuf.cap) && dto.Outgoing.Capacity == int(p.outgoingBuf.cap)
//@   label C07.port.ok.wf
//@   ensures result == nil ==> portWF(p)
//@   label C07.port.config
//@   ensures cfgSame(p) && p.name == old(p.name) && p.comp == old(p.comp) && p.conn == old(p.conn)
//@   assigns p.incomingBuf.elements, p.outgoingBuf.elements, decCount, decLen

// ---- saveBuffer / SaveCheckpoint: the capacity written is the buffer's own; nothing is modified ----
//@ fn saveBuffer
//@   property C07
//@   requires buf != nil && codecReady()
//@   label C07.save.buf.capacity
//@   ensures result1 == nil ==> result0.Capacity == int(buf.cap)
//@   assigns encCount, encLen, encTyp, encVal, encOut

//@ fn (*defaultPort).SaveCheckpoint
//@   property C07
//@   requires p != nil && codecReady()
//@   label C07.save.port.written
//@   ensures jsonEncCount == old(jsonEncCount) + 1 ==> as(mkiface(jsonEncTyp, jsonEncVal), "portCheckpoint").Incoming.Capacity == int(p.incomingBuf.cap) && as(mkiface(jsonEncTyp, jsonEncVal), "portCheckpoint").Outgoing.Capacity == int(p.outgoingBuf.cap)
//@   label C07.save.port.error
//@   ensures jsonEncCount == old(jsonEncCount) ==> result != nil
//@   assigns jsonEncTyp, jsonEncVal, jsonEncCount, encCount, encLen, encTyp, encVal, encOut
