//go:build verif

// Contracts for queueing.Pipeline (C15). Comment-only; read by /verif/engine.
package queueing

//@ fn (*Pipeline[T]).stageRange
//@   property C15
//@   requires len(p.stages) > 0
//@   witness imin int = gmin
//@   witness imax int = gmax
//@   label C15.range.lower
//@   ensures forall i in 0..len(p.stages) :: result0 <= p.stages[i].Stage
//@   label C15.range.upper
//@   ensures forall i in 0..len(p.stages) :: p.stages[i].Stage <= result1
//@   label C15.range.attained
//@   ensures 0 <= imin && imin < len(p.stages) && p.stages[imin].Stage == result0 && 0 <= imax && imax < len(p.stages) && p.stages[imax].Stage == result1
//@   assigns nothing
//@   loop 0: ghost gmin = 0
//@   loop 0: ghost gmax = 0
//@   loop 0: backedge gmin = (st < athead(minStage) ? athead(i) : gmin)
//@   loop 0: backedge gmax = (st > athead(maxStage) ? athead(i) : gmax)
//@   loop 0: invariant 1 <= i && i <= len(p.stages)
//@   loop 0: invariant forall k in 0..i :: minStage <= p.stages[k].Stage && p.stages[k].Stage <= maxStage
//@   loop 0: invariant 0 <= gmin && gmin < i && p.stages[gmin].Stage == minStage && 0 <= gmax && gmax < i && p.stages[gmax].Stage == maxStage

// slot of (stage st, lane l) in the occupancy table based at stage `base`
//@ func slotOf(p, st, l, base) = (st - base) * p.width + l
//@ func recSlot(p, i, base) = (p.stages[i].Stage - base) * p.width + p.stages[i].Lane
//@ pred lanesOK(p) = forall i in 0..len(p.stages) :: 0 <= p.stages[i].Lane && p.stages[i].Lane < p.width

//@ fn (*Pipeline[T]).buildOccupancy
//@   property C15
//@   requires 0 < p.width && p.width <= 1<<30 && 0 <= maxStage - minStage && maxStage - minStage <= 1<<30 && minStage >= 0 && maxStage <= 1<<30
//@   requires lanesOK(p)
//@   requires forall i in 0..len(p.stages) :: minStage <= p.stages[i].Stage && p.stages[i].Stage <= maxStage + 1
//@   witness own map = gown
//@   label C15.occ.len
//@   ensures len(result) == (maxStage - minStage + 2) * p.width && fresh(result)
//@   label C15.occ.sound
//@   ensures forall i in 0..len(p.stages) :: result[recSlot(p, i, minStage)]
//@   label C15.occ.complete
//@   ensures forall j in 0..len(result) :: result[j] ==> 0 <= own[j] && own[j] < len(p.stages) && recSlot(p, own[j], minStage) == j
//@   assigns nothing
//@   loop 0: invariant -1 <= rangeindex && rangeindex < len(occ) && len(occ) == occSlots && fresh(occ) && occSlots == (maxStage - minStage + 2) * p.width
//@   loop 0: invariant forall k in 0..rangeindex + 1 :: !occ[k]
//@   loop 1: ghost gown = idperm
//@   loop 1: backedge gown = upd(gown, recSlot(p, athead(i), minStage), athead(i))
//@   loop 1: invariant 0 <= i && i <= len(p.stages) && len(occ) == (maxStage - minStage + 2) * p.width && fresh(occ)
//@   loop 1: invariant forall k in 0..i :: occ[recSlot(p, k, minStage)]
//@   loop 1: invariant forall j in 0..len(occ) :: occ[j] ==> 0 <= gown[j] && gown[j] < i && recSlot(p, gown[j], minStage) == j

// ---- representation invariant ----
//@ pred pipeCfg(p) = 0 <= p.width && p.width <= 1<<30 && 1 <= p.numStages && p.numStages <= 1<<30
//@ pred recsOK(p) = forall i in 0..len(p.stages) :: 0 <= p.stages[i].Lane && p.stages[i].Lane < p.width && 0 <= p.stages[i].Stage && p.stages[i].Stage < p.numStages && p.stages[i].CycleLeft >= 0
//@ pred distinctOK(p) = forall i in 0..len(p.stages) :: forall j in 0..len(p.stages) :: i != j ==> !(p.stages[i].Lane == p.stages[j].Lane && p.stages[i].Stage == p.stages[j].Stage)
//@ pred pipeWF(p) = pipeCfg(p) && recsOK(p) && distinctOK(p)
// only records still at stage 0 can have dwell cycles left (AcceptWithDelay sets them at stage 0; a record advances only with CycleLeft == 0)
//@ pred dwellOK(p) = forall i in 0..len(p.stages) :: p.stages[i].Stage > 0 ==> p.stages[i].CycleLeft == 0
//@ pred laneFree0(p, l) = forall i in 0..len(p.stages) :: !(p.stages[i].Stage == 0 && p.stages[i].Lane == l)
//@ pred hasFreeLane(p) = exists l in 0..p.width :: laneFree0(p, l)

// CanAccept counts the stage-0 records. Pigeonhole without induction: the ghost pair (gat, gpos) is a permutation of
// the lanes 0..width-1 that keeps the lanes used so far in positions 0..occupied-1, so gat[occupied] is a free lane.
//@ fn (*Pipeline[T]).CanAccept
//@   property C15
//@   requires pipeWF(p)
//@   witness fl int = gat[gocc]
//@   witness own map = gown
//@   label C15.canaccept.free
//@   ensures result ==> 0 <= fl && fl < p.width && laneFree0(p, fl)
//@   label C15.canaccept.full
//@   ensures !result ==> (forall l in 0..p.width :: 0 <= own[l] && own[l] < len(p.stages) && p.stages[own[l]].Stage == 0 && p.stages[own[l]].Lane == l)
//@   label C15.canaccept.iff.fwd
//@   ensures result ==> hasFreeLane(p)
//@   label C15.canaccept.iff.bwd
//@   ensures hasFreeLane(p) ==> result
//@   assigns nothing
//@   loop 0: ghost gat = idperm
//@   loop 0: ghost gpos = idperm
//@   loop 0: ghost gown = idperm
//@   loop 0: ghost gocc = 0
//@   loop 0: backedge gocc = occupied
//@   loop 0: backedge gat = (p.stages[athead(rangeindex) + 1].Stage == 0 ? upd(upd(gat, athead(occupied), p.stages[athead(rangeindex) + 1].Lane), gpos[p.stages[athead(rangeindex) + 1].Lane], gat[athead(occupied)]) : gat)
//@   loop 0: backedge gpos = (p.stages[athead(rangeindex) + 1].Stage == 0 ? upd(upd(gpos, p.stages[athead(rangeindex) + 1].Lane, athead(occupied)), gat[athead(occupied)], gpos[p.stages[athead(rangeindex) + 1].Lane]) : gpos)
//@   loop 0: backedge gown = (p.stages[athead(rangeindex) + 1].Stage == 0 ? upd(gown, p.stages[athead(rangeindex) + 1].Lane, athead(rangeindex) + 1) : gown)
//@   loop 0: invariant -1 <= rangeindex && rangeindex < len(p.stages) && 0 <= occupied && occupied <= p.width && gocc == occupied
//@   loop 0: invariant forall k in rangeindex + 1..len(p.stages) :: p.stages[k].Stage == 0 ==> gpos[p.stages[k].Lane] >= occupied
//@   loop 0: invariant forall l in 0..p.width :: 0 <= gpos[l] && gpos[l] < p.width && gat[gpos[l]] == l
//@   loop 0: invariant forall q in 0..p.width :: 0 <= gat[q] && gat[q] < p.width && gpos[gat[q]] == q
//@   loop 0: invariant forall l in 0..p.width :: gpos[l] < occupied ==> 0 <= gown[l] && gown[l] <= rangeindex && p.stages[gown[l]].Stage == 0 && p.stages[gown[l]].Lane == l
//@   loop 0: invariant forall k in 0..rangeindex + 1 :: p.stages[k].Stage == 0 ==> gpos[p.stages[k].Lane] < occupied
