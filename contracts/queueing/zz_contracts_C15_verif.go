//go:build verif

// Contracts for queueing.Pipeline (C15). Comment-only; read by /verif/engine.
package queueing

//@ fn (*Pipeline[T]).stageRange
//@   property C15
//@   requires len(p.stages) > 0
//@   witness imin int = gmin
//@   witness imax int = gmax
//@   label C15.range.lower
//@   ensures forall i in 0..len(p.stages) :: result0 <= p.stages[i].Stage
//@   label C15.range.upper
//@   ensures forall i in 0..len(p.stages) :: p.stages[i].Stage <= result1
//@   label C15.range.attained
//@   ensures 0 <= imin && imin < len(p.stages) && p.stages[imin].Stage == result0 && 0 <= imax && imax < len(p.stages) && p.stages[imax].Stage == result1
//@   assigns nothing
//@   loop 0: ghost gmin = 0
//@   loop 0: ghost gmax = 0
//@   loop 0: backedge gmin = (st < athead(minStage) ? athead(i) : gmin)
//@   loop 0: backedge gmax = (st > athead(maxStage) ? athead(i) : gmax)
//@   loop 0: invariant 1 <= i && i <= len(p.stages)
//@   loop 0: invariant forall k in 0..i :: minStage <= p.stages[k].Stage && p.stages[k].Stage <= maxStage
//@   loop 0: invariant 0 <= gmin && gmin < i && p.stages[gmin].Stage == minStage && 0 <= gmax && gmax < i && p.stages[gmax].Stage == maxStage

// slot of (stage st, lane l) in the occupancy table based at stage `base`
//@ func slotOf(p, st, l, base) = (st - base) * p.width + l
//@ func recSlot(p, i, base) = (p.stages[i].Stage - base) * p.width + p.stages[i].Lane
//@ pred lanesOK(p) = forall i in 0..len(p.stages) :: 0 <= p.stages[i].Lane && p.stages[i].Lane < p.width

// c15OccComplete: a spec switch that is never assigned. The completeness half of the occupancy table (a set slot is held by
// a record, witness `own`) is PROVED for buildOccupancy whatever its value, but it is handed to callers only under the switch:
// stated unconditionally, the inverse pair occSound/occOwned sends every solver into a matching loop in advanceItems
// (index-safety there: cvc5 2 s without it, > 60 s with it).
//@ ghost var c15OccComplete bool
//@ fn (*Pipeline[T]).buildOccupancy
//@   property C15
//@   requires 0 < p.width && p.width <= 1<<30 && 0 <= maxStage - minStage && maxStage - minStage <= 1<<30 && minStage >= 0 && maxStage <= 1<<30
//@   requires lanesOK(p)
//@   requires forall i in 0..len(p.stages) :: minStage <= p.stages[i].Stage && p.stages[i].Stage <= maxStage + 1
//@   witness own map = gown
//@   witness off map = mapof(s, (s - minStage) * p.width)
//@   label C15.occ.len
//@   ensures len(result) == off[maxStage + 2] && fresh(result)
//@   label C15.occ.rows
//@   ensures off[minStage] == 0 && off[maxStage] == (maxStage - minStage) * p.width && goffDef(off, minStage, p.width, minStage - 1, maxStage + 3) && goffMono(off, p.width, minStage, maxStage + 3)
//@   label C15.occ.sound
//@   ensures occSound(p, result, off)
//@   label C15.occ.complete
//@   ensures c15OccComplete ==> occOwned(p, result, off, own)
//@   assigns nothing
//@   loop 0: invariant -1 <= rangeindex && rangeindex < len(occ) && len(occ) == occSlots && fresh(occ) && occSlots == (maxStage - minStage + 2) * p.width
//@   loop 0: invariant forall k in 0..rangeindex + 1 :: !occ[k]
//@   loop 1: ghost gown = idperm
//@   loop 1: backedge gown = upd(gown, recSlot(p, athead(i), minStage), athead(i))
//@   loop 1: invariant 0 <= i && i <= len(p.stages) && len(occ) == (maxStage - minStage + 2) * p.width && fresh(occ)
//@   loop 1: invariant forall k in 0..i :: occ[recSlot(p, k, minStage)]
//@   loop 1: invariant forall j in 0..len(occ) :: occ[j] ==> 0 <= gown[j] && gown[j] < i && recSlot(p, gown[j], minStage) == j

// ---- representation invariant ----
//@ pred pipeCfg(p) = 0 <= p.width && p.width <= 1<<30 && 1 <= p.numStages && p.numStages <= 1<<30
//@ pred recsOK(p) = forall i in 0..len(p.stages) :: 0 <= p.stages[i].Lane && p.stages[i].Lane < p.width && 0 <= p.stages[i].Stage && p.stages[i].Stage < p.numStages && p.stages[i].CycleLeft >= 0
//@ pred distinctOK(p) = forall i in 0..len(p.stages) :: forall j in 0..len(p.stages) :: i != j ==> !(p.stages[i].Lane == p.stages[j].Lane && p.stages[i].Stage == p.stages[j].Stage)
//@ pred pipeWF(p) = pipeCfg(p) && recsOK(p) && distinctOK(p)
// only records still at stage 0 can have dwell cycles left (AcceptWithDelay sets them at stage 0; a record advances only with CycleLeft == 0)
//@ pred dwellOK(p) = forall i in 0..len(p.stages) :: p.stages[i].Stage > 0 ==> p.stages[i].CycleLeft == 0
//@ pred laneFree0(p, l) = forall i in 0..len(p.stages) :: !(p.stages[i].Stage == 0 && p.stages[i].Lane == l)
// (idperm[l] == l is a tautology: it gives the solvers a trigger for the witness lane)
//@ pred hasFreeLane(p) = exists l in 0..p.width :: idperm[l] == l && laneFree0(p, l)

// CanAccept counts the stage-0 records. Pigeonhole without induction: the ghost pair (gat, gpos) is a permutation of
// the lanes 0..width-1 that keeps the lanes used so far in positions 0..occupied-1, so gat[occupied] is a free lane.
//@ fn (*Pipeline[T]).CanAccept
//@   property C15
//@   requires pipeWF(p)
//@   witness fl int = gat[gocc]
//@   witness own map = gown
//@   label C15.canaccept.free
//@   ensures result ==> 0 <= fl && fl < p.width && laneFree0(p, fl)
//@   label C15.canaccept.full
//@   ensures !result ==> (forall l in 0..p.width :: 0 <= own[l] && own[l] < len(p.stages) && p.stages[own[l]].Stage == 0 && p.stages[own[l]].Lane == l)
//@   label C15.canaccept.iff.fwd
//@   ensures result ==> idperm[fl] == fl && hasFreeLane(p)
//@   label C15.canaccept.iff.bwd
//@   ensures hasFreeLane(p) ==> result
//@   assigns nothing
//@   loop 0: ghost gat = idperm
//@   loop 0: ghost gpos = idperm
//@   loop 0: ghost gown = idperm
//@   loop 0: ghost gocc = 0
//@   loop 0: backedge gocc = occupied
//@   loop 0: backedge gat = (p.stages[athead(rangeindex) + 1].Stage == 0 ? upd(upd(gat, athead(occupied), p.stages[athead(rangeindex) + 1].Lane), gpos[p.stages[athead(rangeindex) + 1].Lane], gat[athead(occupied)]) : gat)
//@   loop 0: backedge gpos = (p.stages[athead(rangeindex) + 1].Stage == 0 ? upd(upd(gpos, p.stages[athead(rangeindex) + 1].Lane, athead(occupied)), gat[athead(occupied)], gpos[p.stages[athead(rangeindex) + 1].Lane]) : gpos)
//@   loop 0: backedge gown = (p.stages[athead(rangeindex) + 1].Stage == 0 ? upd(gown, p.stages[athead(rangeindex) + 1].Lane, athead(rangeindex) + 1) : gown)
//@   loop 0: invariant -1 <= rangeindex && rangeindex < len(p.stages) && 0 <= occupied && occupied <= p.width && gocc == occupied
//@   loop 0: invariant forall k in rangeindex + 1..len(p.stages) :: p.stages[k].Stage == 0 ==> gpos[p.stages[k].Lane] >= occupied
//@   loop 0: invariant forall l in 0..p.width :: 0 <= gpos[l] && gpos[l] < p.width && gat[gpos[l]] == l
//@   loop 0: invariant forall q in 0..p.width :: 0 <= gat[q] && gat[q] < p.width && gpos[gat[q]] == q
//@   loop 0: invariant forall l in 0..p.width :: idperm[l] == l && gpos[l] < occupied ==> 0 <= gown[l] && gown[l] <= rangeindex && p.stages[gown[l]].Stage == 0 && p.stages[gown[l]].Lane == l
//@   loop 0: invariant forall k in 0..rangeindex + 1 :: p.stages[k].Stage == 0 ==> gpos[p.stages[k].Lane] < occupied

// Accept appends one record (first free lane at stage 0, stage 0, no dwell); everything else is unchanged.
//@ fn (*Pipeline[T]).Accept
//@   property C15
//@   requires pipeWF(p) && hasFreeLane(p)
//@   witness own map = gown
//@   label C15.accept.len
//@   ensures len(p.stages) == old(len(p.stages)) + 1
//@   label C15.accept.ref
//@   ensures ref(p.stages) != 0 && (ref(p.stages) == old(ref(p.stages)) || fresh(p.stages))
//@   label C15.accept.prefix
//@   ensures forall i in 0..old(len(p.stages)) :: p.stages[i] == old(p.stages[i])
//@   label C15.accept.record
//@   ensures p.stages[old(len(p.stages))].Stage == 0 && p.stages[old(len(p.stages))].CycleLeft == 0 && p.stages[old(len(p.stages))].Item == item
//@   label C15.accept.lane
//@   ensures 0 <= p.stages[old(len(p.stages))].Lane && p.stages[old(len(p.stages))].Lane < p.width
//@   label C15.accept.lane.free
//@   ensures forall i in 0..old(len(p.stages)) :: !(old(p.stages[i].Stage) == 0 && old(p.stages[i].Lane) == p.stages[old(len(p.stages))].Lane)
//@   label C15.accept.lane.first
//@   ensures forall k in 0..p.stages[old(len(p.stages))].Lane :: 0 <= own[k] && own[k] < old(len(p.stages)) && old(p.stages)[own[k]].Stage == 0 && old(p.stages)[own[k]].Lane == k
//@   label C15.accept.wf
//@   ensures pipeWF(p) && (old(dwellOK(p)) ==> dwellOK(p)) && p.width == old(p.width) && p.numStages == old(p.numStages)
//@   assigns p.stages, elems(p.stages)
//@   loop 0: ghost gown = idperm
//@   loop 0: backedge gown = (p.stages[athead(rangeindex) + 1].Stage == 0 ? upd(gown, p.stages[athead(rangeindex) + 1].Lane, athead(rangeindex) + 1) : gown)
//@   loop 0: invariant -1 <= rangeindex && rangeindex < len(p.stages) && len(used) == p.width
//@   loop 0: invariant forall k in 0..rangeindex + 1 :: p.stages[k].Stage == 0 ==> used[p.stages[k].Lane]
//@   loop 0: invariant forall l in 0..p.width :: used[l] ==> 0 <= gown[l] && gown[l] <= rangeindex && p.stages[gown[l]].Stage == 0 && p.stages[gown[l]].Lane == l
//@   loop 1: invariant 0 <= lane && lane <= p.width
//@   loop 1: invariant forall k in 0..lane :: idperm[k] == k ==> 0 <= gown[k] && gown[k] < len(p.stages) && p.stages[gown[k]].Stage == 0 && p.stages[gown[k]].Lane == k

// AcceptWithDelay = Accept, then the new record's dwell counter is set to delay.
//@ fn (*Pipeline[T]).AcceptWithDelay
//@   property C15
//@   requires pipeWF(p) && hasFreeLane(p) && delay >= 0
//@   witness own map = Accept_own
//@   label C15.acceptdelay.len
//@   ensures len(p.stages) == old(len(p.stages)) + 1
//@   label C15.acceptdelay.ref
//@   ensures ref(p.stages) != 0 && (ref(p.stages) == old(ref(p.stages)) || fresh(p.stages))
//@   label C15.acceptdelay.prefix
//@   ensures forall i in 0..old(len(p.stages)) :: p.stages[i] == old(p.stages[i])
//@   label C15.acceptdelay.record
//@   ensures p.stages[old(len(p.stages))].Stage == 0 && p.stages[old(len(p.stages))].CycleLeft == delay && p.stages[old(len(p.stages))].Item == item
//@   label C15.acceptdelay.lane
//@   ensures 0 <= p.stages[old(len(p.stages))].Lane && p.stages[old(len(p.stages))].Lane < p.width
//@   label C15.acceptdelay.lane.free
//@   ensures forall i in 0..old(len(p.stages)) :: !(old(p.stages[i].Stage) == 0 && old(p.stages[i].Lane) == p.stages[old(len(p.stages))].Lane)
//@   label C15.acceptdelay.lane.first
//@   ensures forall k in 0..p.stages[old(len(p.stages))].Lane :: 0 <= own[k] && own[k] < old(len(p.stages)) && old(p.stages)[own[k]].Stage == 0 && old(p.stages)[own[k]].Lane == k
//@   label C15.acceptdelay.wf
//@   ensures pipeWF(p) && (old(dwellOK(p)) ==> dwellOK(p)) && p.width == old(p.width) && p.numStages == old(p.numStages)
//@   assigns p.stages, elems(p.stages)

//@ fn NewPipeline
//@   property C15
//@   label C15.new
//@   ensures result.width == width && result.numStages == numStages && len(result.stages) == 0
//@   label C15.new.wf
//@   ensures 0 <= width && width <= 1<<30 && 1 <= numStages && numStages <= 1<<30 ==> pipeWF(result) && dwellOK(result)
//@   label C15.new.nil
//@   ensures ref(result.stages) == 0
//@   assigns nothing

//@ fn (*Pipeline[T]).Clear
//@   property C15
//@   label C15.clear
//@   ensures len(p.stages) == 0 && p.width == old(p.width) && p.numStages == old(p.numStages) && (old(pipeCfg(p)) ==> pipeWF(p) && dwellOK(p))
//@   assigns p.stages

//@ fn (*Pipeline[T]).Stages
//@   property C15
//@   label C15.stages.len
//@   ensures len(result) == len(p.stages) && fresh(result)
//@   label C15.stages.same
//@   ensures forall i in 0..len(result) :: result[i] == p.stages[i]
//@   assigns nothing

// ---- advanceItems (phase 2 of Tick) ----
// goff[s] = offset of the row of stage s in the occupancy table, (s - minStage) * width exactly as the code computes it.
// Rows are at least `width` apart (goffMono): with 0 <= Lane < width this makes the slot of a (stage, lane) pair
// injective by linear reasoning only. slotG(j) = slot of record j.
//@ func slotG(p, goff, j) = goff[p.stages[j].Stage] + p.stages[j].Lane
// (a recurrence goff[s+1] == goff[s] + w would be linear, but it is a matching loop: every solver diverges on it)
//@ pred goffDef(goff, base, w, lo, hi) = forall s in lo..hi :: goff[s] == (s - base) * w
//@ pred goffMono(goff, w, lo, hi) = forall a int, b int :: lo <= a && a < b && b < hi ==> goff[a] + w <= goff[b]
// the same for the records against the row of the stage being scanned (single bound variable)
//@ pred rowSep(p, goff, stage) = forall j in 0..len(p.stages) :: (p.stages[j].Stage < stage ==> goff[p.stages[j].Stage] + p.width <= goff[stage]) && (p.stages[j].Stage > stage ==> goff[stage] + p.width <= goff[p.stages[j].Stage])
// the occupancy table is exact: every record's slot is set (occSound); a set slot k is held by record own[k] (occOwned)
//@ pred occSound(p, occ, goff) = forall j in 0..len(p.stages) :: occ[slotG(p, goff, j)]
//@ pred occOwned(p, occ, goff, own) = forall k in 0..len(occ) :: occ[k] ==> 0 <= own[k] && own[k] < len(p.stages) && slotG(p, goff, own[k]) == k
// record j is exactly as it was on entry / has taken its step (dwell counter down by one, or at most one stage up)
//@ pred recSame(p, j) = p.stages[j].Stage == old(p.stages)[j].Stage && p.stages[j].CycleLeft == old(p.stages)[j].CycleLeft
//@ pred recDone(p, j) = (old(p.stages)[j].CycleLeft > 0 ==> p.stages[j].Stage == old(p.stages)[j].Stage && p.stages[j].CycleLeft == old(p.stages)[j].CycleLeft - 1) && (old(p.stages)[j].CycleLeft == 0 ==> p.stages[j].CycleLeft == 0 && (p.stages[j].Stage == old(p.stages)[j].Stage || p.stages[j].Stage == old(p.stages)[j].Stage + 1))
// a record waiting at the last stage: it stays there; dwell cycles left (single-stage pipelines only, under dwellOK) count down by one
//@ pred recLast(p, j) = p.stages[j].Stage == old(p.stages)[j].Stage && (old(p.stages)[j].CycleLeft > 0 ==> p.stages[j].CycleLeft == old(p.stages)[j].CycleLeft - 1) && (old(p.stages)[j].CycleLeft == 0 ==> p.stages[j].CycleLeft == 0)
//@ pred recKeep(p) = forall j in 0..len(p.stages) :: p.stages[j].Lane == old(p.stages)[j].Lane && p.stages[j].Item == old(p.stages)[j].Item
//@ pred advFrame(p) = len(p.stages) == old(len(p.stages)) && ref(p.stages) == old(ref(p.stages)) && off(p.stages) == old(off(p.stages))
//@ pred stagesIn(p, lo, hi) = forall j in 0..len(p.stages) :: lo <= p.stages[j].Stage && p.stages[j].Stage <= hi
//@ pred advRange(p, lo, hi) = forall j in 0..len(p.stages) :: lo <= old(p.stages)[j].Stage && (old(p.stages)[j].Stage <= hi || old(p.stages)[j].Stage == p.numStages - 1)

//@ fn (*Pipeline[T]).advanceItems
//@   property C15
//@   requires pipeWF(p) && len(p.stages) > 0
//@   label C15.adv.shape
//@   ensures advFrame(p) && p.width == old(p.width) && p.numStages == old(p.numStages)
//@   label C15.adv.keep
//@   ensures recKeep(p)
//@   label C15.adv.last
//@   ensures forall j in 0..len(p.stages) :: old(p.stages)[j].Stage == p.numStages - 1 ==> recLast(p, j)
//@   label C15.adv.step
//@   ensures forall j in 0..len(p.stages) :: old(p.stages)[j].Stage < p.numStages - 1 ==> recDone(p, j)
//@   label C15.adv.wf
//@   ensures pipeWF(p)
//@   label C15.adv.dwell
//@   ensures old(dwellOK(p)) ==> dwellOK(p)
//@   assigns elems(p.stages)
//@   loop 0: invariant 0 <= i && i <= n && n == len(p.stages) && lastStage == p.numStages - 1 && advFrame(p)
//@   loop 0: invariant forall j in 0..len(p.stages) :: (old(p.stages)[j].Stage == lastStage && j < i ==> recLast(p, j)) && (!(old(p.stages)[j].Stage == lastStage && j < i) ==> recSame(p, j))
//@   loop 0: invariant recKeep(p)
//@   loop 1: ghost goff = buildOccupancy_off
//@   loop 1: backedge goff = goff
//@   loop 1: invariant minStage - 1 <= stage && stage <= maxStage && maxStage <= lastStage - 1 && lastStage == p.numStages - 1 && occBase == minStage && 0 <= minStage && n == len(p.stages)
//@   loop 1: invariant advFrame(p) && fresh(occ)
//@   loop 1: invariant goffDef(goff, minStage, p.width, minStage - 1, maxStage + 4)
//@   loop 1: invariant goffMono(goff, p.width, minStage, maxStage + 4)
//@   loop 1: invariant goff[minStage] == 0 && len(occ) == goff[maxStage + 3] && goff[stage + 1] == (stage + 1 - occBase) * p.width && 0 <= goff[stage + 1] && goff[stage + 1] + p.width <= len(occ)
//@   loop 1: invariant recsOK(p) && stagesIn(p, minStage, maxStage + 1) && advRange(p, minStage, maxStage)
//@   loop 1: invariant distinctOK(p)
//@   loop 1: invariant occSound(p, occ, goff)
//@   loop 1: invariant recKeep(p)
//@   loop 1: invariant forall j in 0..len(p.stages) :: (old(p.stages)[j].Stage <= stage ==> recSame(p, j)) && (old(p.stages)[j].Stage > maxStage ==> recLast(p, j))
//@   loop 1: invariant forall j in 0..len(p.stages) :: stage < old(p.stages)[j].Stage && old(p.stages)[j].Stage <= maxStage ==> recDone(p, j)
//@   loop 2: invariant minStage <= stage && stage <= maxStage && maxStage <= lastStage - 1 && lastStage == p.numStages - 1 && occBase == minStage && 0 <= minStage && n == len(p.stages) && n > 0 && 0 <= i && i <= n
//@   loop 2: invariant advFrame(p) && fresh(occ)
//@   loop 2: invariant goff[stage + 1] == (stage + 1 - occBase) * p.width && goff[stage] == (stage - occBase) * p.width && 0 <= goff[stage] && goff[stage + 1] == goff[stage] + p.width && goff[stage + 1] + p.width <= len(occ)
//@   loop 2: invariant recsOK(p) && stagesIn(p, minStage, maxStage + 1)
//@   loop 2: invariant distinctOK(p)
//@   loop 2: invariant rowSep(p, goff, stage)
//@   loop 2: invariant occSound(p, occ, goff)
//@   loop 2: invariant recKeep(p)
//@   loop 2: invariant forall j in 0..len(p.stages) :: (old(p.stages)[j].Stage < stage || (old(p.stages)[j].Stage == stage && j >= i) ==> recSame(p, j)) && (old(p.stages)[j].Stage > maxStage ==> recLast(p, j))
//@   loop 2: invariant forall j in 0..len(p.stages) :: (stage < old(p.stages)[j].Stage && old(p.stages)[j].Stage <= maxStage) || (old(p.stages)[j].Stage == stage && j < i) ==> recDone(p, j)

// ---- the sink (interface Sink[T]: arbitrary user code; TRUSTED rely) ----
// c15Room: hypothesis of the progress clause: the sink answers CanPush() == true whenever asked (never assigned).
// c15CanPush: the sink currently has room (answer of the last CanPush, forgotten by the next push).
// c15PushLog[0..c15PushN) = the items pushed so far, in order. The sink does not touch the pipeline's storage.
//@ ghost var c15Room bool
//@ ghost var c15CanPush bool
//@ ghost var c15PushN int
//@ ghost var c15PushLog map

//@ iface queueing.Sink.CanPush()
//@   trusted
//@   ensures (result <==> c15CanPush) && (c15Room ==> result)
//@   assigns c15CanPush
//@ iface queueing.Sink.PushTyped(e)
//@   trusted
//@   panics !c15CanPush
//@   ensures c15PushN == old(c15PushN) + 1 && c15PushLog == upd(old(c15PushLog), old(c15PushN), e)
//@   assigns c15PushN, c15PushLog, c15CanPush

// ---- Tick ----
// remaining ticks of a record: stages still to traverse + dwell cycles + the tick that emits it
//@ func remOld(p, j) = (p.numStages - 1 - old(p.stages)[j].Stage) + old(p.stages)[j].CycleLeft + 1
//@ func remNew(p, k) = (p.numStages - 1 - p.stages[k].Stage) + p.stages[k].CycleLeft + 1
// record k now == record j on entry
//@ pred recEq(p, k, j) = p.stages[k].Lane == old(p.stages)[j].Lane && p.stages[k].Stage == old(p.stages)[j].Stage && p.stages[k].CycleLeft == old(p.stages)[j].CycleLeft && p.stages[k].Item == old(p.stages)[j].Item
// record k now is record j on entry after at most one step: same lane and item; untouched, or dwell counter down by one,
// or (no dwell left) one stage up
//@ pred recStepped(p, k, j) = p.stages[k].Lane == old(p.stages)[j].Lane && p.stages[k].Item == old(p.stages)[j].Item && ((p.stages[k].Stage == old(p.stages)[j].Stage && p.stages[k].CycleLeft == old(p.stages)[j].CycleLeft) || (old(p.stages)[j].CycleLeft > 0 && p.stages[k].Stage == old(p.stages)[j].Stage && p.stages[k].CycleLeft == old(p.stages)[j].CycleLeft - 1) || (old(p.stages)[j].CycleLeft == 0 && p.stages[k].CycleLeft == 0 && p.stages[k].Stage == old(p.stages)[j].Stage + 1))
// NOT DECIDED (dropped from the contract, see the report): for pipelines with two or more stages, "a record without dwell
// cycles below the last stage advances whenever the sink has room" (tickProgress for numStages >= 2). It needs the
// completeness half of the occupancy table inside advanceItems' loops, which no solver handles (matching loop).
// Decided instead: ready records are emitted (progress.ready), dwelling records count down by exactly one whatever the
// stage count (progress.dwell), and the full clause for single-stage pipelines (progress.single).
//@ pred tickProgress(p, em, to) = forall j in 0..old(len(p.stages)) :: (remOld(p, j) == 1 ==> em[j]) && (!em[j] ==> remNew(p, to[j]) == remOld(p, j) - 1)

//@ fn (*Pipeline[T]).Tick
//@   property C15
//@   requires pipeWF(p)
//@   witness em set = gem
//@   witness lp map = glp
//@   witness to map = gto
//@   witness from map = gfrom
//@   witness src map = gsrc
//@   label C15.tick.cfg
//@   ensures p.width == old(p.width) && p.numStages == old(p.numStages)
//@   label C15.tick.count
//@   ensures c15PushN >= old(c15PushN) && len(p.stages) + (c15PushN - old(c15PushN)) == old(len(p.stages))
//@   label C15.tick.emitted
//@   ensures forall j in 0..old(len(p.stages)) :: em[j] ==> old(c15PushN) <= lp[j] && lp[j] < c15PushN && c15PushLog[lp[j]] == old(p.stages)[j].Item && src[lp[j]] == j && old(p.stages)[j].Stage == p.numStages - 1 && old(p.stages)[j].CycleLeft == 0
//@   label C15.tick.kept
//@   ensures forall j in 0..old(len(p.stages)) :: !em[j] ==> 0 <= to[j] && to[j] < len(p.stages) && from[to[j]] == j && recStepped(p, to[j], j)
//@   label C15.tick.onto
//@   ensures forall k in 0..len(p.stages) :: 0 <= from[k] && from[k] < old(len(p.stages)) && !em[from[k]] && to[from[k]] == k
//@   label C15.tick.log
//@   ensures forall q in old(c15PushN)..c15PushN :: 0 <= src[q] && src[q] < old(len(p.stages)) && em[src[q]] && lp[src[q]] == q
//@   label C15.tick.logprefix
//@   ensures forall q in 0..old(c15PushN) :: c15PushLog[q] == old(c15PushLog)[q]
//@   label C15.tick.wf
//@   ensures pipeWF(p)
//@   label C15.tick.dwell
//@   ensures old(dwellOK(p)) ==> dwellOK(p)
//@   label C15.tick.progress.ready
//@   ensures c15Room ==> (forall j in 0..old(len(p.stages)) :: !em[j] ==> from[to[j]] == j && recStepped(p, to[j], j) && remOld(p, j) != 1)
//@   label C15.tick.progress.dwell
//@   ensures forall j in 0..old(len(p.stages)) :: !em[j] && old(p.stages)[j].CycleLeft > 0 ==> remNew(p, to[j]) == remOld(p, j) - 1
//@   label C15.tick.progress.single
//@   ensures c15Room && old(dwellOK(p)) && p.numStages == 1 ==> tickProgress(p, em, to)
//@   assigns p.stages, elems(p.stages), c15PushN, c15PushLog, c15CanPush
//@   loop 0: ghost gem = emptyset
//@   loop 0: ghost glp = idperm
//@   loop 0: ghost gsrc = idperm
//@   loop 0: ghost gto = idperm
//@   loop 0: ghost gfrom = idperm
//@   loop 0: backedge gem = (n < athead(n) ? upd(gem, gfrom[athead(i)], true) : gem)
//@   loop 0: backedge glp = (n < athead(n) ? upd(glp, gfrom[athead(i)], athead(c15PushN)) : glp)
//@   loop 0: backedge gsrc = (n < athead(n) ? upd(gsrc, athead(c15PushN), gfrom[athead(i)]) : gsrc)
//@   loop 0: backedge gto = (n < athead(n) ? upd(gto, gfrom[athead(n) - 1], athead(i)) : gto)
//@   loop 0: backedge gfrom = (n < athead(n) ? upd(gfrom, athead(i), gfrom[athead(n) - 1]) : gfrom)
//@   loop 0: invariant -1 <= i && i < n && n <= len(p.stages) && advFrame(p) && lastStage == p.numStages - 1 && p.width == old(p.width) && p.numStages == old(p.numStages)
//@   loop 0: invariant c15PushN >= old(c15PushN) && n + (c15PushN - old(c15PushN)) == len(p.stages)
//@   loop 0: invariant forall k in 0..n :: 0 <= gfrom[k] && gfrom[k] < len(p.stages) && !gem[gfrom[k]] && gto[gfrom[k]] == k
//@   loop 0: invariant forall k in 0..n :: recEq(p, k, gfrom[k])
//@   loop 0: invariant forall j in 0..len(p.stages) :: !gem[j] ==> 0 <= gto[j] && gto[j] < n && gfrom[gto[j]] == j
//@   loop 0: invariant forall j in 0..len(p.stages) :: gem[j] ==> old(c15PushN) <= glp[j] && glp[j] < c15PushN && c15PushLog[glp[j]] == old(p.stages)[j].Item && gsrc[glp[j]] == j && old(p.stages)[j].Stage == p.numStages - 1 && old(p.stages)[j].CycleLeft == 0
//@   loop 0: invariant forall q in old(c15PushN)..c15PushN :: 0 <= gsrc[q] && gsrc[q] < len(p.stages) && gem[gsrc[q]] && glp[gsrc[q]] == q
//@   loop 0: invariant forall q in 0..old(c15PushN) :: c15PushLog[q] == old(c15PushLog)[q]
//@   loop 0: invariant c15Room ==> (forall k in i + 1..n :: !(p.stages[k].Stage == lastStage && p.stages[k].CycleLeft == 0))
