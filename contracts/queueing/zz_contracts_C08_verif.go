//go:build verif

// Contracts for package queueing, property C08 (comment-only; read by /verif/engine, never compiled into a build).
// C08: the custom JSON codecs of the encapsulated containers are FIELD COMPLETE in both directions: MarshalJSON hands the
// encoder a DTO whose every field is the corresponding field of the container (the very same slice, hence the same
// elements / stage records in the same order), UnmarshalJSON copies every field of the decoded DTO back.
// With the trusted standard-library fact `json.Unmarshal(json.Marshal(dto)) == dto` for bufferState[T] / pipelineState[T]
// (given that T itself round-trips) the round trip is the identity on (name, cap, elements) / (width, numStages, stages).
package queueing

// the value handed to the encoder
//@ func c08Buf() = as(mkiface(jsonEncTyp, jsonEncVal), "bufferState[T]")
//@ func c08Pipe() = as(mkiface(jsonEncTyp, jsonEncVal), "pipelineState[T]")
// the very same slice (hence the same elements in the same order)
//@ pred c08SameSl(a, b) = ref(a) == ref(b) && off(a) == off(b) && len(a) == len(b)

//@ fn (Buffer[T]).MarshalJSON
//@   property C08
//@   label C08.buf.marshal.once
//@   ensures jsonEncCount == old(jsonEncCount) + 1
//@   label C08.buf.marshal.name
//@   ensures c08Buf().Name == b.name
//@   label C08.buf.marshal.cap
//@   ensures c08Buf().Cap == b.cap
//@   label C08.buf.marshal.elements
//@   ensures c08SameSl(c08Buf().Elements, b.elements) && (forall i in 0..len(b.elements) :: c08Buf().Elements[i] == b.elements[i])
//@   assigns jsonEncTyp, jsonEncVal, jsonEncCount

//@ fn (*Buffer[T]).UnmarshalJSON
//@   property C08
//@   requires b != nil
//@   label C08.buf.unmarshal.name
//@   ensures result == nil ==> b.name == s.Name
//@   label C08.buf.unmarshal.cap
//@   ensures result == nil ==> b.cap == s.Cap
//@   label C08.buf.unmarshal.elements
//@   ensures result == nil ==> c08SameSl(b.elements, s.Elements)
//@   label C08.buf.unmarshal.error.untouched
//@   ensures result != nil ==> b.name == old(b.name) && b.cap == old(b.cap) && ref(b.elements) == old(ref(b.elements)) && off(b.elements) == old(off(b.elements)) && len(b.elements) == old(len(b.elements))
//@   assigns b.name, b.cap, b.elements

//@ fn (Pipeline[T]).MarshalJSON
//@   property C08
//@   label C08.pipe.marshal.once
//@   ensures jsonEncCount == old(jsonEncCount) + 1
//@   label C08.pipe.marshal.width
//@   ensures c08Pipe().Width == p.width
//@   label C08.pipe.marshal.numStages
//@   ensures c08Pipe().NumStages == p.numStages
//@   label C08.pipe.marshal.stages
//@   ensures c08SameSl(c08Pipe().Stages, p.stages)
//@   label C08.pipe.marshal.records
//@   ensures forall i in 0..len(p.stages) :: c08Pipe().Stages[i].Lane == p.stages[i].Lane && c08Pipe().Stages[i].Stage == p.stages[i].Stage && c08Pipe().Stages[i].CycleLeft == p.stages[i].CycleLeft && c08Pipe().Stages[i].Item == p.stages[i].Item
//@   assigns jsonEncTyp, jsonEncVal, jsonEncCount

//@ fn (*Pipeline[T]).UnmarshalJSON
//@   property C08
//@   requires p != nil
//@   label C08.pipe.unmarshal.width
//@   ensures result == nil ==> p.width == s.Width
//@   label C08.pipe.unmarshal.numStages
//@   ensures result == nil ==> p.numStages == s.NumStages
//@   label C08.pipe.unmarshal.stages
//@   ensures result == nil ==> c08SameSl(p.stages, s.Stages)
//@   label C08.pipe.unmarshal.error.untouched
//@   ensures result != nil ==> p.width == old(p.width) && p.numStages == old(p.numStages) && ref(p.stages) == old(ref(p.stages)) && off(p.stages) == old(off(p.stages)) && len(p.stages) == old(len(p.stages))
//@   assigns p.width, p.numStages, p.stages
