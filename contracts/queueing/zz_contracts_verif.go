//go:build verif

// Contracts for package queueing (comment-only; read by /verif/engine, never compiled into a build).
package queueing

// ---- C14: Buffer is a bounded FIFO queue. View = b.elements as a sequence, front at index 0. ----

//@ pred bufWF(b) = len(b.elements) <= max(int(b.cap), 0)

//@ fn NewBuffer
//@   property C14
//@   label C14.new
//@   ensures result.name == name && result.cap == capacity && len(result.elements) == 0 && ref(result.elements) == 0
//@   assigns nothing

//@ fn (*Buffer[T]).Name
//@   property C14
//@   ensures result == b.name
//@   assigns nothing

//@ fn (*Buffer[T]).Capacity
//@   property C14
//@   label C14.capacity
//@   ensures result == b.cap
//@   assigns nothing

//@ fn (*Buffer[T]).Size
//@   property C14 C11
//@   label C14.size
//@   ensures result == len(b.elements)
//@   assigns nothing

//@ fn (*Buffer[T]).CanPush
//@   property C14 C11
//@   label C14.canpush
//@   ensures result <==> len(b.elements) < int(b.cap)
//@   assigns nothing

//@ fn (*Buffer[T]).PushTyped
//@   property C14 C11
//@   requires bufWF(b)
//@   panics len(b.elements) >= int(b.cap)
//@   label C14.push.len
//@   ensures len(b.elements) == old(len(b.elements)) + 1
//@   label C14.push.prefix
//@   ensures forall i in 0..old(len(b.elements)) :: b.elements[i] == old(b.elements[i])
//@   label C14.push.last
//@   ensures b.elements[old(len(b.elements))] == e
//@   label C14.push.frame
//@   ensures bufWF(b) && b.cap == old(b.cap) && b.name == old(b.name)
//@   label C14.push.storage
//@   ensures ref(b.elements) != 0 && (ref(b.elements) == old(ref(b.elements)) || fresh(b.elements))
//@   assigns b.elements, elems(b.elements)

//@ fn (*Buffer[T]).Peek
//@   property C14 C11
//@   label C14.peek.empty
//@   ensures len(b.elements) == 0 ==> result == zero()
//@   label C14.peek.front
//@   ensures len(b.elements) > 0 ==> result == b.elements[0]
//@   assigns nothing

//@ fn (*Buffer[T]).UpdateFront
//@   property C14
//@   label C14.updatefront.len
//@   ensures len(b.elements) == old(len(b.elements))
//@   label C14.updatefront.front
//@   ensures len(b.elements) > 0 ==> b.elements[0] == e
//@   label C14.updatefront.rest
//@   ensures forall i in 1..len(b.elements) :: b.elements[i] == old(b.elements[i])
//@   label C14.updatefront.frame
//@   ensures b.cap == old(b.cap) && b.name == old(b.name)
//@   assigns elems(b.elements)

//@ fn (*Buffer[T]).Pop
//@   property C14 C11
//@   label C14.pop.empty
//@   ensures old(len(b.elements)) == 0 ==> result == zero() && len(b.elements) == 0
//@   label C14.pop.front
//@   ensures old(len(b.elements)) > 0 ==> result == old(b.elements[0]) && len(b.elements) == old(len(b.elements)) - 1
//@   label C14.pop.shift
//@   ensures forall i in 0..len(b.elements) :: b.elements[i] == old(b.elements[i + 1])
//@   label C14.pop.frame
//@   ensures b.cap == old(b.cap) && b.name == old(b.name) && (old(bufWF(b)) ==> bufWF(b)) && ref(b.elements) == old(ref(b.elements))
//@   assigns b.elements

//@ fn (*Buffer[T]).Clear
//@   property C14
//@   label C14.clear
//@   ensures len(b.elements) == 0 && b.cap == old(b.cap) && b.name == old(b.name) && ref(b.elements) == 0
//@   assigns b.elements

//@ fn (*Buffer[T]).Elements
//@   property C14
//@   label C14.elements.len
//@   ensures len(result) == len(b.elements)
//@   label C14.elements.same
//@   ensures forall i in 0..len(result) :: result[i] == b.elements[i]
//@   label C14.elements.copy
//@   ensures fresh(result)
//@   assigns nothing

//@ fn (*Buffer[T]).Restore
//@   property C14
//@   panics len(elements) > int(b.cap)
//@   label C14.restore.len
//@   ensures len(b.elements) == len(elements)
//@   label C14.restore.same
//@   ensures forall i in 0..len(elements) :: b.elements[i] == elements[i]
//@   label C14.restore.frame
//@   ensures b.cap == old(b.cap) && b.name == old(b.name) && bufWF(b)
//@   label C14.restore.copy
//@   ensures len(elements) > 0 ==> ref(b.elements) != ref(elements) && fresh(b.elements)
//@   label C14.restore.empty
//@   ensures len(elements) == 0 ==> ref(b.elements) == 0
//@   assigns b.elements
