//go:build verif

// Contracts for package codec, property C08 (comment-only; read by /verif/engine, never compiled into a build).
// C08, the part of the type-tagged list codec that contracts can reach: EncodeSlice/DecodeSlice keep the LENGTH and the ORDER
// (the i-th value is the i-th thing marshalled and lands in the i-th payload slot; the i-th payload is the one decoded into the
// i-th result slot), an unknown type tag is rejected, and nothing outside the result is touched.
// NOT reachable (reflection + string building): which tag string tagOf computes, that decodeOne builds a value whose
// dynamic type is the registered one, and that json round-trips the payload (trusted standard-library behaviour).
package codec

// ---- trusted: package reflect (standard library). Results are arbitrary; nothing pre-existing is modified. ----
//@ ext reflect.TypeOf(i)
//@   trusted
//@   ensures (result == nil) <==> (i == nil)
//@   assigns nothing
//@ ufunc c08Kind(t) int
//@ iface reflect.Type.Kind()
//@   trusted
//@   ensures int(result) == c08Kind(self)
//@   assigns nothing
// Elem of a pointer type does not panic and is a type
//@ iface reflect.Type.Elem()
//@   trusted
//@   requires c08Kind(self) == int(reflect.Ptr)
//@   ensures result != nil
//@   assigns nothing
//@ iface reflect.Type.PkgPath()
//@   trusted
//@   assigns nothing
//@ iface reflect.Type.String()
//@   trusted
//@   assigns nothing
//@ iface reflect.Type.Name()
//@   trusted
//@   assigns nothing
// New of a non-nil type, Interface/Elem of the pointer value New returned: documented not to panic
//@ ext reflect.New(typ)
//@   trusted
//@   requires typ != nil
//@   assigns nothing
//@ ext reflect.(Value).Interface(v)
//@   trusted
//@   assigns nothing
//@ ext reflect.(Value).Elem(v)
//@   trusted
//@   assigns nothing

// json.Unmarshal into the object reflect.New just allocated: arbitrary error, nothing pre-existing is modified
// (the native encoding/json model only covers targets of the form &local)
//@ ext encoding/json.Unmarshal(data, v)
//@   trusted
//@   assigns nothing

// every registered tag maps to a type (Register is the only writer and rejects nil)
//@ pred regWF(r) = r.types != nil && (forall k int :: k in r.types ==> r.types[k] != nil)

//@ fn (*Registry[T]).Register
//@   property C08
//@   requires r != nil && regWF(r)
//@   label C08.codec.register.wf
//@   ensures regWF(r)
//@   panics any       // panics iff v is a nil interface value; not expressible for a value of type-parameter type
//@   assigns elems(r.types)

//@ fn tagOf
//@   property C08
//@   requires t != nil
//@   assigns nothing

//@ fn (*Registry[T]).decodeOne
//@   property C08
//@   requires r != nil && regWF(r)
//@   label C08.codec.decodeOne.known
//@   ensures result1 == nil ==> tp.Type in r.types
//@   assigns nothing

//@ fn (*Registry[T]).DecodeSlice
//@   property C08
//@   requires r != nil && regWF(r)
//@   witness n int = len(payloads)
//@   witness tags map = mapof(k, payloads[k].Type)     // the type tag of the k-th decoded payload
//@   witness made map = gMade                          // the value decodeOne built from the k-th payload
//@   label C08.codec.decode.len
//@   ensures result1 == nil ==> len(result0) == n
//@   label C08.codec.decode.tags.known
//@   ensures result1 == nil ==> forall k in 0..n :: tags[k] in r.types
//@   label C08.codec.decode.order
//@   ensures result1 == nil ==> forall k in 0..n :: result0[k] == made[k]
//@   label C08.codec.decode.error
//@   ensures result1 != nil ==> len(result0) == 0
//@   assigns nothing
//@   loop 0: ghost gMade = idperm
//@   loop 0: backedge gMade = upd(gMade, i, v)
//@   loop 0: invariant -1 <= rangeindex && rangeindex < len(payloads) && len(out) == len(payloads) && fresh(out)
//@   loop 0: invariant forall k in 0..rangeindex + 1 :: payloads[k].Type in r.types
//@   loop 0: invariant forall k in 0..rangeindex + 1 :: out[k] == gMade[k]

//@ fn (*Registry[T]).EncodeSlice
//@   property C08
//@   requires r != nil
//@   requires forall i in 0..len(vs) :: vs[i] != nil
//@   witness n int = len(payloads)
//@   witness encV map = gV                               // the value handed to the k-th json.Marshal call
//@   witness rawRef map = gRaw                           // the bytes that call returned
//@   witness slot map = mapof(k, ref(payloads[k].Payload))   // the bytes stored in the k-th payload
//@   label C08.codec.encode.len
//@   ensures result1 == nil ==> n == len(vs)
//@   label C08.codec.encode.count
//@   ensures result1 == nil ==> jsonEncCount == old(jsonEncCount) + len(vs) + 1
//@   label C08.codec.encode.order
//@   ensures result1 == nil ==> forall k in 0..len(vs) :: encV[k] == vs[k] && slot[k] == rawRef[k]
//@   assigns jsonEncTyp, jsonEncVal, jsonEncCount
//@   loop 0: ghost gV = idperm
//@   loop 0: ghost gRaw = idperm
//@   loop 0: backedge gV = upd(gV, i, jsonEncVal)
//@   loop 0: backedge gRaw = upd(gRaw, i, ref(raw))
//@   loop 0: invariant -1 <= rangeindex && rangeindex < len(vs) && len(payloads) == len(vs) && fresh(payloads)
//@   loop 0: invariant jsonEncCount == old(jsonEncCount) + rangeindex + 1
//@   loop 0: invariant forall k in 0..rangeindex + 1 :: gV[k] == vs[k] && ref(payloads[k].Payload) == gRaw[k]
