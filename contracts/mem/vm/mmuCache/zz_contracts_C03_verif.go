//go:build verif

// Contracts for package mem/vm/mmuCache, property C03 (comment-only; read by /verif/engine, never compiled into a build).
// C03, decidable part: "No result depends on map iteration order".
//
// ctrlMiddleware.endInflightTasks (Reset path) ends the req_out task BottomReqID of every entry of the MAP State.InflightReqs
// (keyed by the forwarded request's ID, which is also the entry's BottomReqID: c03Keyed).
// The observable effect is the SEQUENCE of TaskEnd hook invocations (what every tracer attached to the component sees, e.g.
// the row order of a DBTracer's "trace" table), logged in the ghost (c03EndN, c03EndSeq). Order-independence: the log is
// pinned as a function of the map's CONTENTS -- exactly its keys (members, complete), in increasing order (deterministic).
// History: before /repo commit 8468750f the function ranged over the map directly and the hooks ran in Go's randomized map
// order (200 identical resets with 8 entries gave 8 distinct TaskEnd orders); the order clauses were not provable then.
package mmuCache

// ---- trusted: tracing entry points end in arbitrary user hooks (assumed not to touch the component); EndTaskOnReset is logged.
//@ ghost var c03EndN int
//@ ghost var c03EndSeq map
//@ ext tracing.EndTaskOnReset(domain, taskID)
//@   trusted
//@   ensures c03EndN == old(c03EndN) + 1 && c03EndSeq == upd(old(c03EndSeq), old(c03EndN), taskID)
//@   assigns c03EndN, c03EndSeq
//@ ext tracing.EndReqInOnReset(domain, id)
//@   trusted
//@   assigns nothing
// slices.Sorted(maps.Keys(m)) is modelled natively by the engine (trusted standard library): a fresh, strictly ascending
// slice of exactly the keys of m; SortedKeys_pos[k] is the index of key k.

//@ pred c03LogKeeps(from) = forall k int :: k < from ==> c03EndSeq[k] == old(c03EndSeq)[k]
//@ func c03IR(m) = m.comp.State.InflightReqs
//@ pred c03Keyed(m) = forall a uint64 :: (a in c03IR(m)) ==> c03IR(m)[a].BottomReqID == a

//@ fn (*ctrlMiddleware).endInflightTasks
//@   property C03
//@   requires m != nil && m.comp != nil && c03Keyed(m)
//@   label C03.endInflightTasks.members
//@   ensures old(c03EndN) <= c03EndN && (forall k int :: old(c03EndN) <= k && k < c03EndN ==> (c03EndSeq[k] in c03IR(m)))
//@   label C03.endInflightTasks.complete
//@   ensures forall a uint64 :: (a in c03IR(m)) ==> 0 <= SortedKeys_pos[a] && old(c03EndN) + SortedKeys_pos[a] < c03EndN && c03EndSeq[old(c03EndN) + SortedKeys_pos[a]] == a
//@   label C03.endInflightTasks.log.keeps
//@   ensures c03LogKeeps(old(c03EndN))
// ORDER: a function of the contents alone = increasing key
//@   label C03.endInflightTasks.deterministic
//@   ensures forall k int :: old(c03EndN) <= k && k + 1 < c03EndN ==> c03EndSeq[k] < c03EndSeq[k+1]
//@   label C03.endInflightTasks.deterministic.first2
//@   ensures old(c03EndN) + 2 <= c03EndN ==> c03EndSeq[old(c03EndN)] < c03EndSeq[old(c03EndN) + 1]
//@   assigns c03EndN, c03EndSeq
//@   loop 0: invariant -1 <= rangeindex && rangeindex < len(c03IR(m)) && c03EndN == old(c03EndN) + rangeindex + 1 && c03LogKeeps(old(c03EndN)) && c03Keyed(m)
//@   label C03.endInflightTasks.last.atloop
//@   loop 0: invariant rangeindex >= 0 ==> (c03EndSeq[c03EndN - 1] in c03IR(m)) && SortedKeys_pos[c03EndSeq[c03EndN - 1]] == rangeindex
//@   label C03.endInflightTasks.members.atloop
//@   loop 0: invariant forall k int :: old(c03EndN) <= k && k < c03EndN ==> (c03EndSeq[k] in c03IR(m)) && SortedKeys_pos[c03EndSeq[k]] == k - old(c03EndN)
//@   label C03.endInflightTasks.complete.atloop
//@   loop 0: invariant forall a uint64 :: (a in c03IR(m)) && SortedKeys_pos[a] <= rangeindex ==> c03EndSeq[old(c03EndN) + SortedKeys_pos[a]] == a
//@   label C03.endInflightTasks.deterministic.atloop
//@   loop 0: invariant forall k int :: old(c03EndN) <= k && k + 1 < c03EndN ==> c03EndSeq[k] < c03EndSeq[k+1]
