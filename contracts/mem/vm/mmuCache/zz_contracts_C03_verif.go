//go:build verif

// Contracts for package mem/vm/mmuCache, property C03 (comment-only; read by /verif/engine, never compiled into a build).
// C03, decidable part: "No result depends on map iteration order".
//
// ctrlMiddleware.endInflightTasks (Reset path) ends the req_out task BottomReqID of every entry of the MAP
// State.InflightReqs (keyed by the forwarded request's ID, which is also the entry's BottomReqID: c03Keyed). The observable
// effect is the SEQUENCE of TaskEnd hook invocations, logged in the ghost (c03EndN, c03EndSeq). Order-independence: the
// log is pinned as a function of the map's contents -- its key set in increasing order (members, complete, deterministic).
// (Before /repo commit 8468750f the function ranged over the map directly and the hooks ran in Go's randomized map order:
// 200 identical resets with 8 in-flight requests gave 8 distinct TaskEnd orders. Now: slices.Sorted(maps.Keys(m)).)
package mmuCache

// ---- trusted: tracing entry points end in arbitrary user hooks (assumed not to touch the component); EndTaskOnReset is logged.
//@ ghost var c03EndN int
//@ ghost var c03EndSeq map
//@ ext tracing.EndTaskOnReset(domain, taskID)
//@   trusted
//@   ensures c03EndN == old(c03EndN) + 1 && c03EndSeq == upd(old(c03EndSeq), old(c03EndN), taskID)
//@   assigns c03EndN, c03EndSeq
//@ ext tracing.EndReqInOnReset(domain, id)
//@   trusted
//@   assigns nothing

// ---- trusted: standard library iterators. maps.Keys(m) is the (lazy) sequence of m's keys; slices.Sorted(seq) collects a
// sequence into a fresh slice in ascending order. Modelled for the nested call slices.Sorted(maps.Keys(m)) only: the ghost
// set c03KeySet is the key set handed out by the LAST maps.Keys call; Sorted's result is the strictly ascending enumeration
// of that set (map keys are distinct). Witnesses: Sorted_n = len(result), Sorted_at[i] = result[i], Sorted_idx[k] = index of key k.
//@ ghost var c03KeySet set
//@ ext maps.Keys(m)
//@   trusted
//@   ensures forall k int :: c03KeySet[k] <==> (k in m)
//@   assigns c03KeySet
//@ ext slices.Sorted(seq)
//@   trusted
//@   witness n int = 0
//@   witness at map = idperm
//@   witness idx map = idperm
//@   ensures n == len(result) && 0 <= n && (forall i in 0..len(result) :: at[i] == result[i])
//@   ensures forall i int :: 0 <= i && i + 1 < n ==> at[i] < at[i+1]
//@   ensures forall i int :: 0 <= i && i < n ==> c03KeySet[at[i]] && idx[at[i]] == i
//@   ensures forall k int :: c03KeySet[k] ==> 0 <= idx[k] && idx[k] < n && at[idx[k]] == k
//@   assigns nothing

//@ func c03IR(m) = m.comp.State.InflightReqs
//@ pred c03Keyed(m) = forall a uint64 :: (a in c03IR(m)) ==> c03IR(m)[a].BottomReqID == a
//@ pred c03LogKeeps(from) = forall k int :: k < from ==> c03EndSeq[k] == old(c03EndSeq)[k]

//@ fn (*ctrlMiddleware).endInflightTasks
//@   property C03
//@   requires m != nil && m.comp != nil && c03Keyed(m)
//@   label C03.endInflightTasks.members
//@   ensures old(c03EndN) <= c03EndN && (forall k int :: old(c03EndN) <= k && k < c03EndN ==> (c03EndSeq[k] in c03IR(m)))
//@   label C03.endInflightTasks.complete
//@   ensures forall a uint64 :: (a in c03IR(m)) ==> old(c03EndN) <= old(c03EndN) + Sorted_idx[a] && old(c03EndN) + Sorted_idx[a] < c03EndN && c03EndSeq[old(c03EndN) + Sorted_idx[a]] == a
//@   label C03.endInflightTasks.log.keeps
//@   ensures c03LogKeeps(old(c03EndN))
// ORDER: a function of the contents alone = increasing key
//@   label C03.endInflightTasks.deterministic
//@   ensures forall k int :: old(c03EndN) <= k && k + 1 < c03EndN ==> c03EndSeq[k] < c03EndSeq[k+1]
//@   label C03.endInflightTasks.deterministic.first2
//@   ensures old(c03EndN) + 2 <= c03EndN ==> c03EndSeq[old(c03EndN)] < c03EndSeq[old(c03EndN) + 1]
//@   assigns c03EndN, c03EndSeq, c03KeySet
//@   loop 0: invariant -1 <= rangeindex && rangeindex < Sorted_n && c03EndN == old(c03EndN) + rangeindex + 1
//@   loop 0: invariant c03LogKeeps(old(c03EndN)) && c03Keyed(m)
//@   label C03.endInflightTasks.deterministic.atloop
//@   loop 0: invariant forall i int :: 0 <= i && i <= rangeindex ==> c03EndSeq[old(c03EndN) + i] == Sorted_at[i]
