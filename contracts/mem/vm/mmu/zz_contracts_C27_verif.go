//go:build verif

// Contracts for package mmu, property C27 (comment-only; read by /verif/engine, never compiled into a build).
// C27: with automatic page allocation each (process, virtual page) gets exactly one mapping, and no auto-allocated page
// overlaps the physical range of any other page in the table, whether pre-inserted or auto-allocated.
package mmu

// ---- ghost view of a page table seen through the interface vm.PageTable ----
// The MMU only holds a vm.PageTable interface value. Its default implementation vm.pageTableImpl is under contract in
// /verif/contracts/mem/vm/zz_contracts_C26_verif.go (view: mapped(pt,p,v), pageAt(pt,p,v)); the interface contracts below
// restate those (Find = C26.Find.*, Insert = C26.Insert.* + panics, ReverseLookup = C26.Reverse.match/none) over a ghost
// view keyed by the table's identity t = ifaceval(table) and the flat key pk(p, v) = p * 2^64 + v of a (PID, VAddr) pair:
//   ptIn[t][k] == 1   iff k = pk(p, v) for a mapped (p, v)            (C26: mapped(pt, p, v))
//   ptPA[t][k]        PAddr of that page                             (C26: pageAt(pt, p, v).PAddr)
//   ptSz[t][k]        PageSize of that page                          (C26: pageAt(pt, p, v).PageSize)
//   ptFr[t][k]        floor(PAddr / 2^ptLog2(t)): the page's frame number at the table's own granularity (derived from ptPA)
//   ptInsN[t]         number of Insert calls on t so far (history counter)
//   ptLog2(t)         the table's page-size exponent (pageTableImpl.log2PageSize): Find aligns the address with it
// The implementation's private representation (maps, container/list) cannot be reached from package mmu except through
// these methods, so it is abstracted by the view: TRUSTED at the interface, proved for pageTableImpl under C26.
//@ ghost var ptIn map2
//@ ghost var ptPA map2
//@ ghost var ptSz map2
//@ ghost var ptFr map2
//@ ghost var ptInsN map
//@ ufunc ptLog2(t) int

//@ func pk(p, v) = int(p) * 18446744073709551616 + int(v)
//@ func alignTo(a, s) = (int(a) >> int(s)) << int(s)
//@ pred zeroPg(p) = p.PID == 0 && p.PAddr == 0 && p.VAddr == 0 && p.PageSize == 0 && !p.Valid && p.DeviceID == 0 && !p.Unified && !p.IsMigrating && !p.IsPinned

//@ iface vm.PageTable.Find(pid, Addr)
//@   trusted
//@   ensures result1 <==> ptIn[ifaceval(self)][pk(pid, alignTo(Addr, ptLog2(ifaceval(self))))] == 1
//@   ensures result1 ==> result0.PID == pid && result0.VAddr == alignTo(Addr, ptLog2(ifaceval(self))) && result0.PAddr == ptPA[ifaceval(self)][pk(pid, result0.VAddr)] && result0.PageSize == ptSz[ifaceval(self)][pk(pid, result0.VAddr)]
//@   ensures !result1 ==> zeroPg(result0)
//@   assigns nothing

//@ iface vm.PageTable.Insert(page)
//@   trusted
//@   panics ptIn[ifaceval(self)][pk(page.PID, page.VAddr)] == 1
//@   ensures ptIn == upd(old(ptIn), ifaceval(self), upd(old(ptIn)[ifaceval(self)], pk(page.PID, page.VAddr), 1))
//@   ensures ptPA == upd(old(ptPA), ifaceval(self), upd(old(ptPA)[ifaceval(self)], pk(page.PID, page.VAddr), page.PAddr))
//@   ensures ptSz == upd(old(ptSz), ifaceval(self), upd(old(ptSz)[ifaceval(self)], pk(page.PID, page.VAddr), page.PageSize))
//@   ensures ptFr == upd(old(ptFr), ifaceval(self), upd(old(ptFr)[ifaceval(self)], pk(page.PID, page.VAddr), int(page.PAddr) >> ptLog2(ifaceval(self))))
//@   ensures ptInsN == upd(old(ptInsN), ifaceval(self), old(ptInsN)[ifaceval(self)] + 1)
//@   assigns ptIn, ptPA, ptSz, ptFr, ptInsN

//@ iface vm.PageTable.ReverseLookup(pAddr)
//@   trusted
//@   ensures result1 ==> result0.PAddr == pAddr && ptIn[ifaceval(self)][pk(result0.PID, result0.VAddr)] == 1 && ptPA[ifaceval(self)][pk(result0.PID, result0.VAddr)] == pAddr && ptSz[ifaceval(self)][pk(result0.PID, result0.VAddr)] == result0.PageSize
//@   ensures !result1 ==> zeroPg(result0) && (forall k int :: ptIn[ifaceval(self)][k] == 1 ==> ptPA[ifaceval(self)][k] != pAddr)
//@   assigns nothing

// ---- trusted one-line getters of modeling.Component (return c.spec / c.resources) ----
//@ ext modeling.(*Component[S, T, R]).Spec(c)
//@   trusted
//@   pure
//@   ensures result == c.spec
//@ ext modeling.(*Component[S, T, R]).Resources(c)
//@   trusted
//@   pure
//@   ensures result == c.resources

// ---- the MMU's table, page size and the no-aliasing vocabulary ----
//@ func tbl(m) = ifaceval(m.comp.resources.PageTable)
//@ func lg(m) = m.comp.spec.Log2PageSize
//@ func psz(m) = 1 << int(m.comp.spec.Log2PageSize)
// the MMU is wired to a page table and its page size is representable (1 << 64 would be 0)
//@ pred mmuPT(m) = m != nil && m.comp != nil && m.comp.resources.PageTable != nil && m.comp.spec.Log2PageSize < 64
// [a, a+n) and [b, b+c) share no address (mathematical integers; an empty range overlaps nothing)
//@ pred disj(a, n, b, c) = n <= 0 || c <= 0 || int(a) + int(n) <= int(b) || int(b) + int(c) <= int(a)
// every page of the table has the MMU's page size and starts on a multiple of it
//@ pred ptUniformP(t, ps) = forall k int :: ptIn[t][k] == 1 ==> ptSz[t][k] == ps && ptPA[t][k] == ptFr[t][k] * ps
//@ pred ptUniform(m) = ptUniformP(tbl(m), psz(m))
// the frame [r, r+pageSize) is disjoint from every page of the table
//@ pred frameFreeP(t, r, ps) = forall k int :: ptIn[t][k] == 1 ==> disj(r, ps, ptPA[t][k], ptSz[t][k])
//@ pred frameFree(m, r) = frameFreeP(tbl(m), r, psz(m))

//@ fn (*translationMW).pageTable
//@   property C27
//@   requires m != nil && m.comp != nil
//@   label C27.pagetable
//@   ensures result == m.comp.resources.PageTable
//@   assigns nothing

// allocatePhysicalPage: partial correctness (termination of the probe loop is not claimed).
//@ fn (*translationMW).allocatePhysicalPage
//@   property C27
//@   requires mmuPT(m)
//@   label C27.alloc.aligned
//@   ensures alignTo(result, lg(m)) == result
//@   label C27.alloc.probe
//@   ensures forall k int :: ptIn[tbl(m)][k] == 1 ==> ptPA[tbl(m)][k] != result
//@   label C27.alloc.disjoint.uniform
//@   ensures ptUniform(m) ==> frameFree(m, result)
//@   label C27.alloc.disjoint
//@   ensures frameFree(m, result)
//@   label C27.alloc.cursor
//@   ensures int(result) + psz(m) <= MaxUint64 ==> m.comp.State.NextPhysicalPage == int(result) + psz(m)
//@   assigns m.comp.State.NextPhysicalPage

// createDefaultPage: the page built for (pid, vAddr) is filed under the MMU-aligned address, has the MMU's page size and
// the freshly allocated frame.
//@ fn (*translationMW).createDefaultPage
//@   property C27
//@   requires mmuPT(m)
//@   label C27.default.key
//@   ensures result.PID == pid && result.VAddr == alignTo(vAddr, lg(m))
//@   label C27.default.size
//@   ensures result.PageSize == psz(m)
//@   label C27.default.flags
//@   ensures result.Valid && result.DeviceID == deviceID && result.Unified && !result.IsMigrating && !result.IsPinned
//@   label C27.default.aligned
//@   ensures alignTo(result.PAddr, lg(m)) == result.PAddr && int(result.PAddr) == (int(result.PAddr) >> int(lg(m))) * psz(m)
//@   label C27.default.probe
//@   ensures forall k int :: ptIn[tbl(m)][k] == 1 ==> ptPA[tbl(m)][k] != result.PAddr
//@   label C27.default.disjoint.uniform
//@   ensures ptUniform(m) ==> frameFree(m, result.PAddr)
//@   label C27.default.disjoint
//@   ensures frameFree(m, result.PAddr)
//@   label C27.default.cursor
//@   ensures int(result.PAddr) + psz(m) <= MaxUint64 ==> m.comp.State.NextPhysicalPage == int(result.PAddr) + psz(m)
//@   assigns m.comp.State.NextPhysicalPage

// ---- ports, ID generator, tracing: same ghosts and the same TRUSTED contracts as /verif/contracts/mem/rob/zz_contracts_C21_verif.go
// (same names, same meaning; repeated verbatim so that this file stands alone) ----
//@ ghost var canSend set
//@ ghost var sendCnt map
//@ ghost var sentTyp map2
//@ ghost var sentVal map2
//@ ghost var issued set
//@ iface messaging.Port.CanSend()
//@   trusted
//@   ensures result <==> canSend[ifaceval(self)]
//@   assigns nothing
//@ iface messaging.Port.Send(msg)
//@   trusted
//@   panics !canSend[ifaceval(self)]
//@   ensures sendCnt == upd(old(sendCnt), ifaceval(self), old(sendCnt)[ifaceval(self)] + 1)
//@   ensures sentTyp == upd(old(sentTyp), ifaceval(self), upd(old(sentTyp)[ifaceval(self)], old(sendCnt)[ifaceval(self)], typeid(msg)))
//@   ensures sentVal == upd(old(sentVal), ifaceval(self), upd(old(sentVal)[ifaceval(self)], old(sendCnt)[ifaceval(self)], ifaceval(msg)))
//@   assigns canSend, sendCnt, sentTyp, sentVal
//@ ufunc portRemote(p) int
//@ iface messaging.Port.AsRemote()
//@   trusted
//@   assigns nothing
//@   ensures result == portRemote(self)
//@ ext messaging.(PortOwnerBase).GetPortByName(po, name)
//@   trusted
//@   pure
//@   panics !(name in po.ports)
//@   ensures result == po.ports[name]
//@ ext modeling.(*TickingComponent).Name(c)
//@   trusted
//@   pure
//@ ext tracing.AddMilestone(domain, ms)
//@   trusted
//@   assigns nothing
//@ ext tracing.EndTask(domain, end)
//@   trusted
//@   assigns nothing
//@ ext tracing.ForgetMsgIDAtReceiver(msgID, domain)
//@   trusted
//@   assigns nothing
//@ iface timing.IDGenerator.Generate()
//@   trusted
//@   ensures !old(issued)[result] && issued == upd(old(issued), result, true)
//@   assigns issued, key("O|timing.sequentialIDGenerator|nextID"), key("O|timing.parallelIDGenerator|nextID")
//@ pred idGenOK() = timing.idGeneratorInstantiated ==> timing.idGenerator != nil

//@ func topP(m) = ifaceval(m.comp.TickingComponent.PortOwnerBase.ports["Top"])
//@ pred mmuWF(m) = mmuPT(m) && m.comp.TickingComponent != nil && m.comp.TickingComponent.PortOwnerBase != nil && ("Top" in m.comp.TickingComponent.PortOwnerBase.ports)

//@ fn (*translationMW).topPort
//@   property C27
//@   requires mmuWF(m)
//@   label C27.topport
//@   ensures result == m.comp.TickingComponent.PortOwnerBase.ports["Top"]
//@   assigns nothing

//@ fn (*translationMW).traceReqComplete
//@   property C27
//@   requires m != nil && m.comp != nil
//@   assigns nothing

// doPageWalkHit answers the walk when the Top port has room: it reads the walk's entry, sends one response that carries the
// entry's page and queues the entry for removal. It never touches the page table, the allocation cursor or the walks.
//@ func walk(m, i) = m.comp.State.WalkingTranslations[i]
//@ fn (*translationMW).doPageWalkHit
//@   property C27
//@   requires mmuWF(m) && idGenOK() && 0 <= walkingIndex && walkingIndex < len(m.comp.State.WalkingTranslations)
//@   label C27.hit.result
//@   ensures result <==> old(canSend)[topP(m)]
//@   label C27.hit.sent
//@   ensures result ==> sendCnt[topP(m)] == old(sendCnt)[topP(m)] + 1 && hastype(mkiface(sentTyp[topP(m)][old(sendCnt)[topP(m)]], sentVal[topP(m)][old(sendCnt)[topP(m)]]), "vmprotocol.TranslationRsp")
//@   label C27.hit.page
//@   ensures result ==> as(mkiface(sentTyp[topP(m)][old(sendCnt)[topP(m)]], sentVal[topP(m)][old(sendCnt)[topP(m)]]), "vmprotocol.TranslationRsp").Page == walk(m, walkingIndex).Page
//@   label C27.hit.rspto
//@   ensures result ==> as(mkiface(sentTyp[topP(m)][old(sendCnt)[topP(m)]], sentVal[topP(m)][old(sendCnt)[topP(m)]]), "vmprotocol.TranslationRsp").MsgMeta.RspTo == walk(m, walkingIndex).ReqID && as(mkiface(sentTyp[topP(m)][old(sendCnt)[topP(m)]], sentVal[topP(m)][old(sendCnt)[topP(m)]]), "vmprotocol.TranslationRsp").MsgMeta.Dst == walk(m, walkingIndex).ReqSrc
//@   label C27.hit.silent
//@   ensures !result ==> sendCnt == old(sendCnt) && len(m.comp.State.ToRemoveFromPTW) == old(len(m.comp.State.ToRemoveFromPTW))
//@   label C27.hit.queued
//@   ensures result ==> len(m.comp.State.ToRemoveFromPTW) == old(len(m.comp.State.ToRemoveFromPTW)) + 1 && m.comp.State.ToRemoveFromPTW[old(len(m.comp.State.ToRemoveFromPTW))] == walkingIndex
//@   label C27.hit.queue.place
//@   ensures (ref(m.comp.State.ToRemoveFromPTW) == old(ref(m.comp.State.ToRemoveFromPTW)) && off(m.comp.State.ToRemoveFromPTW) == old(off(m.comp.State.ToRemoveFromPTW))) || fresh(m.comp.State.ToRemoveFromPTW)
//@   label C27.hit.idgen
//@   ensures idGenOK()
//@   assigns m.comp.State.ToRemoveFromPTW, elems(m.comp.State.ToRemoveFromPTW), canSend, sendCnt, sentTyp, sentVal, issued, key("G|github.com/sarchlab/akita/v5/timing.idGenerator|"), key("G|github.com/sarchlab/akita/v5/timing.idGeneratorInstantiated|"), key("O|timing.sequentialIDGenerator|nextID"), key("O|timing.parallelIDGenerator|nextID")

// ---- finalizePageWalk: the end of one page walk ----
// wkey: the flat key of the page the walk is about, aligned with the MMU's page size. The table aligns Find's address with
// its own exponent ptLog2; Builder.Build (validatePageTablePageSize) refuses a table whose exponent differs from the MMU's.
//@ func wkey(m, i) = pk(m.comp.State.WalkingTranslations[i].PID, alignTo(m.comp.State.WalkingTranslations[i].VAddr, m.comp.spec.Log2PageSize))
// the frame [r, r+ps) is disjoint from every page of table t other than the one filed under k0
//@ pred frameFreeExceptP(t, r, ps, k0) = forall k int :: k != k0 && ptIn[t][k] == 1 ==> disj(r, ps, ptPA[t][k], ptSz[t][k])
// the view of table t differs from its entry value at key k0 only
//@ pred onlyKeyP(t, k0) = ptIn == upd(old(ptIn), t, upd(old(ptIn)[t], k0, ptIn[t][k0])) && ptPA == upd(old(ptPA), t, upd(old(ptPA)[t], k0, ptPA[t][k0])) && ptSz == upd(old(ptSz), t, upd(old(ptSz)[t], k0, ptSz[t][k0])) && ptFr == upd(old(ptFr), t, upd(old(ptFr)[t], k0, ptFr[t][k0]))
// no two pages of the table overlap
//@ pred noAliasP(t) = forall j int, k int :: j != k && ptIn[t][j] == 1 && ptIn[t][k] == 1 ==> disj(ptPA[t][j], ptSz[t][j], ptPA[t][k], ptSz[t][k])

//@ fn (*translationMW).finalizePageWalk
//@   property C27
//@   requires mmuWF(m) && idGenOK() && 0 <= walkingIndex && walkingIndex < len(m.comp.State.WalkingTranslations)
//@   requires ptLog2(tbl(m)) == m.comp.spec.Log2PageSize
//@   panics ptIn[tbl(m)][wkey(m, walkingIndex)] != 1 && !m.comp.spec.AutoPageAllocation
//@   label C27.walk.found.noinsert
//@   ensures old(ptIn[tbl(m)][wkey(m, walkingIndex)]) == 1 ==> ptIn == old(ptIn) && ptPA == old(ptPA) && ptSz == old(ptSz) && ptFr == old(ptFr) && ptInsN == old(ptInsN) && m.comp.State.NextPhysicalPage == old(m.comp.State.NextPhysicalPage)
//@   label C27.walk.miss.oneinsert
//@   ensures old(ptIn[tbl(m)][wkey(m, walkingIndex)]) != 1 ==> ptInsN == upd(old(ptInsN), tbl(m), old(ptInsN)[tbl(m)] + 1) && onlyKeyP(tbl(m), wkey(m, walkingIndex))
//@   label C27.walk.miss.page
//@   ensures old(ptIn[tbl(m)][wkey(m, walkingIndex)]) != 1 ==> ptSz[tbl(m)][wkey(m, walkingIndex)] == psz(m) && alignTo(ptPA[tbl(m)][wkey(m, walkingIndex)], lg(m)) == ptPA[tbl(m)][wkey(m, walkingIndex)]
//@   label C27.walk.miss.frame
//@   ensures old(ptIn[tbl(m)][wkey(m, walkingIndex)]) != 1 ==> ptPA[tbl(m)][wkey(m, walkingIndex)] == ptFr[tbl(m)][wkey(m, walkingIndex)] * psz(m)
//@   label C27.walk.miss.disjoint.uniform
//@   ensures old(ptIn[tbl(m)][wkey(m, walkingIndex)]) != 1 && old(ptUniform(m)) ==> frameFreeExceptP(tbl(m), ptPA[tbl(m)][wkey(m, walkingIndex)], psz(m), wkey(m, walkingIndex))
//@   label C27.walk.miss.disjoint
//@   ensures old(ptIn[tbl(m)][wkey(m, walkingIndex)]) != 1 ==> frameFreeExceptP(tbl(m), ptPA[tbl(m)][wkey(m, walkingIndex)], psz(m), wkey(m, walkingIndex))
//@   label C27.walk.mapped
//@   ensures ptIn[tbl(m)][wkey(m, walkingIndex)] == 1
//@   label C27.walk.answer
//@   ensures walk(m, walkingIndex).Page.PAddr == ptPA[tbl(m)][wkey(m, walkingIndex)] && walk(m, walkingIndex).Page.PageSize == ptSz[tbl(m)][wkey(m, walkingIndex)] && walk(m, walkingIndex).Page.PID == walk(m, walkingIndex).PID && walk(m, walkingIndex).Page.VAddr == alignTo(walk(m, walkingIndex).VAddr, lg(m))
//@   label C27.walk.uniform.kept
//@   ensures old(ptUniform(m)) ==> ptUniform(m)
//@   label C27.walk.noalias.kept.uniform
//@   ensures old(ptUniform(m)) && old(noAliasP(tbl(m))) ==> noAliasP(tbl(m))
//@   label C27.walk.queue.place
//@   ensures (ref(m.comp.State.ToRemoveFromPTW) == old(ref(m.comp.State.ToRemoveFromPTW)) && off(m.comp.State.ToRemoveFromPTW) == old(off(m.comp.State.ToRemoveFromPTW))) || fresh(m.comp.State.ToRemoveFromPTW)
//@   label C27.walk.idgen
//@   ensures idGenOK()
//@   assigns m.comp.State.WalkingTranslations[walkingIndex].Page, m.comp.State.NextPhysicalPage, ptIn, ptPA, ptSz, ptFr, ptInsN, m.comp.State.ToRemoveFromPTW, elems(m.comp.State.ToRemoveFromPTW), canSend, sendCnt, sentTyp, sentVal, issued, key("G|github.com/sarchlab/akita/v5/timing.idGenerator|"), key("G|github.com/sarchlab/akita/v5/timing.idGeneratorInstantiated|"), key("O|timing.sequentialIDGenerator|nextID"), key("O|timing.parallelIDGenerator|nextID")

// ---- walkPageTable: one tick of all walks (several walks may be about the same page) ----
//@ fn (*translationMW).toRemove
//@   property C27
//@   requires m != nil && m.comp != nil
//@   label C27.toremove.hit
//@   ensures result ==> 0 <= at && at < len(m.comp.State.ToRemoveFromPTW) && m.comp.State.ToRemoveFromPTW[at] == index
//@   label C27.toremove.miss
//@   ensures !result ==> (forall j in 0..len(m.comp.State.ToRemoveFromPTW) :: m.comp.State.ToRemoveFromPTW[j] != index)
//@   witness at int = i
//@   assigns nothing
//@   loop 0: invariant 0 <= i && i <= len(m.comp.State.ToRemoveFromPTW)
//@   loop 0: invariant forall j in 0..i :: m.comp.State.ToRemoveFromPTW[j] != index

// the table only grows: a mapping that exists is never replaced, moved or resized
//@ pred growsP(t) = forall k int :: old(ptIn)[t][k] == 1 ==> ptIn[t][k] == 1 && ptPA[t][k] == old(ptPA)[t][k] && ptSz[t][k] == old(ptSz)[t][k] && ptFr[t][k] == old(ptFr)[t][k]
// every mapping added since entry has the MMU's page size and an aligned frame
//@ pred addedUniformP(t, ps) = forall k int :: ptIn[t][k] == 1 && old(ptIn)[t][k] != 1 ==> ptSz[t][k] == ps && ptPA[t][k] == ptFr[t][k] * ps
// other tables are untouched
//@ pred otherTablesP(t) = forall u int :: u != t ==> ptIn[u] == old(ptIn)[u] && ptPA[u] == old(ptPA)[u] && ptSz[u] == old(ptSz)[u] && ptFr[u] == old(ptFr)[u] && ptInsN[u] == old(ptInsN)[u]

//@ fn (*translationMW).walkPageTable
//@   property C27
//@   requires mmuWF(m) && idGenOK() && m.comp.spec.AutoPageAllocation
//@   requires ptLog2(tbl(m)) == m.comp.spec.Log2PageSize
//@   label C27.tick.grows
//@   ensures growsP(tbl(m))
//@   label C27.tick.inserts
//@   ensures old(ptInsN)[tbl(m)] <= ptInsN[tbl(m)] && ptInsN[tbl(m)] <= old(ptInsN)[tbl(m)] + old(len(m.comp.State.WalkingTranslations))
//@   label C27.tick.added
//@   ensures addedUniformP(tbl(m), psz(m))
//@   label C27.tick.others
//@   ensures otherTablesP(tbl(m))
//@   label C27.tick.uniform.kept
//@   ensures old(ptUniform(m)) ==> ptUniform(m)
//@   label C27.tick.noalias.kept.uniform
//@   ensures old(ptUniform(m)) && old(noAliasP(tbl(m))) ==> noAliasP(tbl(m))
//@   label C27.tick.cleared
//@   ensures len(m.comp.State.ToRemoveFromPTW) == 0
//@   label C27.tick.idgen
//@   ensures idGenOK()
//@   assigns m.comp.State.WalkingTranslations, elems(m.comp.State.WalkingTranslations), m.comp.State.NextPhysicalPage, ptIn, ptPA, ptSz, ptFr, ptInsN, m.comp.State.ToRemoveFromPTW, elems(m.comp.State.ToRemoveFromPTW), canSend, sendCnt, sentTyp, sentVal, issued, key("G|github.com/sarchlab/akita/v5/timing.idGenerator|"), key("G|github.com/sarchlab/akita/v5/timing.idGeneratorInstantiated|"), key("O|timing.sequentialIDGenerator|nextID"), key("O|timing.parallelIDGenerator|nextID")
//@   loop 0: invariant 0 <= i && i <= len(m.comp.State.WalkingTranslations) && idGenOK()
//@   loop 0: invariant ref(m.comp.State.WalkingTranslations) == old(ref(m.comp.State.WalkingTranslations)) && off(m.comp.State.WalkingTranslations) == old(off(m.comp.State.WalkingTranslations)) && len(m.comp.State.WalkingTranslations) == old(len(m.comp.State.WalkingTranslations))
//@   loop 0: invariant growsP(tbl(m)) && otherTablesP(tbl(m)) && addedUniformP(tbl(m), psz(m))
//@   loop 0: invariant old(ptInsN)[tbl(m)] <= ptInsN[tbl(m)] && ptInsN[tbl(m)] <= old(ptInsN)[tbl(m)] + i
//@   loop 0: invariant old(ptUniform(m)) ==> ptUniform(m)
//@   loop 0: invariant old(ptUniform(m)) && old(noAliasP(tbl(m))) ==> noAliasP(tbl(m))
//@   loop 0: invariant (ref(m.comp.State.ToRemoveFromPTW) == old(ref(m.comp.State.ToRemoveFromPTW)) && off(m.comp.State.ToRemoveFromPTW) == old(off(m.comp.State.ToRemoveFromPTW))) || fresh(m.comp.State.ToRemoveFromPTW)
//@   loop 1: invariant 0 <= i
//@   loop 1: invariant (ref(tmp) == old(ref(m.comp.State.WalkingTranslations)) && off(tmp) == old(off(m.comp.State.WalkingTranslations))) || fresh(tmp)

// ---- the wiring check behind `requires ptLog2(tbl(m)) == Log2PageSize` ----
// Builder.Build (resolvePageTable) refuses an injected page table that reports another page-size exponent than the MMU's:
// when the table implements the package's pageTable interface (the local `ok` of the type assertion; vm.pageTableImpl
// does) and the function returns normally, the exponents agree. The panic condition itself mentions that local, which a
// `panics` clause (entry state) cannot name, hence `panics any`.
//@ iface mmu.pageTable.GetLog2PageSize()
//@   trusted
//@   ensures result == ptLog2(ifaceval(self))
//@   assigns nothing
//@ fn validatePageTablePageSize
//@   property C27
//@   label C27.validate.match
//@   ensures ok ==> ptLog2(ifaceval(pt)) == log2PageSize
//@   panics any
//@   assigns nothing
