//go:build verif

// Contracts for package mmu, property C27 (comment-only; read by /verif/engine, never compiled into a build).
// C27: with automatic page allocation each (process, virtual page) gets exactly one mapping, and no auto-allocated page
// overlaps the physical range of any other page in the table, whether pre-inserted or auto-allocated.
package mmu

// ---- ghost view of a page table seen through the interface vm.PageTable ----
// The MMU only holds a vm.PageTable interface value. Its default implementation vm.pageTableImpl is under contract in
// /verif/contracts/mem/vm/zz_contracts_C26_verif.go (view: mapped(pt,p,v), pageAt(pt,p,v)); the interface contracts below
// restate those (Find = C26.Find.*, Insert = C26.Insert.* + panics, ReverseLookup = C26.Reverse.match/none) over a ghost
// view keyed by the table's identity t = ifaceval(table) and the flat key pk(p, v) = p * 2^64 + v of a (PID, VAddr) pair:
//   ptIn[t][k] == 1   iff k = pk(p, v) for a mapped (p, v)            (C26: mapped(pt, p, v))
//   ptPA[t][k]        PAddr of that page                             (C26: pageAt(pt, p, v).PAddr)
//   ptSz[t][k]        PageSize of that page                          (C26: pageAt(pt, p, v).PageSize)
//   ptFr[t][k]        floor(PAddr / 2^ptLog2(t)): the page's frame number at the table's own granularity (derived from ptPA)
//   ptInsN[t]         number of Insert calls on t so far (history counter)
//   ptLog2(t)         the table's page-size exponent (pageTableImpl.log2PageSize): Find aligns the address with it
// The implementation's private representation (maps, container/list) cannot be reached from package mmu except through
// these methods, so it is abstracted by the view: TRUSTED at the interface, proved for pageTableImpl under C26.
//@ ghost var ptIn map2
//@ ghost var ptPA map2
//@ ghost var ptSz map2
//@ ghost var ptFr map2
//@ ghost var ptInsN map
//@ ufunc ptLog2(t) int

//@ func pk(p, v) = int(p) * 18446744073709551616 + int(v)
//@ func alignTo(a, s) = (int(a) >> int(s)) << int(s)
//@ pred zeroPg(p) = p.PID == 0 && p.PAddr == 0 && p.VAddr == 0 && p.PageSize == 0 && !p.Valid && p.DeviceID == 0 && !p.Unified && !p.IsMigrating && !p.IsPinned

//@ iface vm.PageTable.Find(pid, Addr)
//@   trusted
//@   ensures result1 <==> ptIn[ifaceval(self)][pk(pid, alignTo(Addr, ptLog2(ifaceval(self))))] == 1
//@   ensures result1 ==> result0.PID == pid && result0.VAddr == alignTo(Addr, ptLog2(ifaceval(self))) && result0.PAddr == ptPA[ifaceval(self)][pk(pid, result0.VAddr)] && result0.PageSize == ptSz[ifaceval(self)][pk(pid, result0.VAddr)]
//@   ensures !result1 ==> zeroPg(result0)
//@   assigns nothing

//@ iface vm.PageTable.Insert(page)
//@   trusted
//@   panics ptIn[ifaceval(self)][pk(page.PID, page.VAddr)] == 1
//@   ensures ptIn == upd(old(ptIn), ifaceval(self), upd(old(ptIn)[ifaceval(self)], pk(page.PID, page.VAddr), 1))
//@   ensures ptPA == upd(old(ptPA), ifaceval(self), upd(old(ptPA)[ifaceval(self)], pk(page.PID, page.VAddr), page.PAddr))
//@   ensures ptSz == upd(old(ptSz), ifaceval(self), upd(old(ptSz)[ifaceval(self)], pk(page.PID, page.VAddr), page.PageSize))
//@   ensures ptFr == upd(old(ptFr), ifaceval(self), upd(old(ptFr)[ifaceval(self)], pk(page.PID, page.VAddr), int(page.PAddr) >> ptLog2(ifaceval(self))))
//@   ensures ptInsN == upd(old(ptInsN), ifaceval(self), old(ptInsN)[ifaceval(self)] + 1)
//@   assigns ptIn, ptPA, ptSz, ptFr, ptInsN

//@ iface vm.PageTable.ReverseLookup(pAddr)
//@   trusted
//@   ensures result1 ==> result0.PAddr == pAddr && ptIn[ifaceval(self)][pk(result0.PID, result0.VAddr)] == 1 && ptPA[ifaceval(self)][pk(result0.PID, result0.VAddr)] == pAddr && ptSz[ifaceval(self)][pk(result0.PID, result0.VAddr)] == result0.PageSize
//@   ensures !result1 ==> zeroPg(result0) && (forall k int :: ptIn[ifaceval(self)][k] == 1 ==> ptPA[ifaceval(self)][k] != pAddr)
//@   assigns nothing

// ---- trusted one-line getters of modeling.Component (return c.spec / c.resources) ----
//@ ext modeling.(*Component[S, T, R]).Spec(c)
//@   trusted
//@   pure
//@   ensures result == c.spec
//@ ext modeling.(*Component[S, T, R]).Resources(c)
//@   trusted
//@   pure
//@   ensures result == c.resources

// ---- the MMU's table, page size and the no-aliasing vocabulary ----
//@ func tbl(m) = ifaceval(m.comp.resources.PageTable)
//@ func lg(m) = m.comp.spec.Log2PageSize
//@ func psz(m) = 1 << int(m.comp.spec.Log2PageSize)
// the MMU is wired to a page table and its page size is representable (1 << 64 would be 0)
//@ pred mmuPT(m) = m != nil && m.comp != nil && m.comp.resources.PageTable != nil && m.comp.spec.Log2PageSize < 64
// [a, a+n) and [b, b+c) share no address (mathematical integers; an empty range overlaps nothing)
//@ pred disj(a, n, b, c) = n <= 0 || c <= 0 || int(a) + int(n) <= int(b) || int(b) + int(c) <= int(a)
// every page of the table has the MMU's page size and starts on a multiple of it
//@ pred ptUniform(m) = forall k int :: ptIn[tbl(m)][k] == 1 ==> ptSz[tbl(m)][k] == psz(m) && ptPA[tbl(m)][k] == ptFr[tbl(m)][k] * psz(m)
// the frame [r, r+pageSize) is disjoint from every page of the table
//@ pred frameFree(m, r) = forall k int :: ptIn[tbl(m)][k] == 1 ==> disj(r, psz(m), ptPA[tbl(m)][k], ptSz[tbl(m)][k])

//@ fn (*translationMW).pageTable
//@   property C27
//@   requires m != nil && m.comp != nil
//@   label C27.pagetable
//@   ensures result == m.comp.resources.PageTable
//@   assigns nothing

// allocatePhysicalPage: partial correctness (termination of the probe loop is not claimed).
//@ fn (*translationMW).allocatePhysicalPage
//@   property C27
//@   requires mmuPT(m)
//@   label C27.alloc.aligned
//@   ensures alignTo(result, lg(m)) == result
//@   label C27.alloc.probe
//@   ensures forall k int :: ptIn[tbl(m)][k] == 1 ==> ptPA[tbl(m)][k] != result
//@   label C27.alloc.disjoint.uniform
//@   ensures ptUniform(m) ==> frameFree(m, result)
//@   label C27.alloc.disjoint
//@   ensures frameFree(m, result)
//@   label C27.alloc.cursor
//@   ensures int(result) + psz(m) <= MaxUint64 ==> m.comp.State.NextPhysicalPage == int(result) + psz(m)
//@   assigns m.comp.State.NextPhysicalPage
