//go:build verif

// Contracts for package mem/vm/gmmu, property C03 (comment-only; read by /verif/engine, never compiled into a build).
// C03, decidable part: "No result depends on map iteration order" (the engine iterates a map in an ARBITRARY order).
//
// ctrlMiddleware.endInflightTasks (Reset path): loop 0 walks the SLICE WalkingTranslations (ordered), loop 1 ranges over
// the MAP RemoteMemReqs and ends the req_out task keyed by each map key. The observable effect is the SEQUENCE of TaskEnd
// hook invocations, logged in the ghost (c03EndN, c03EndSeq). Honest order-independence: the remote phase of the log is
// the key set of RemoteMemReqs in increasing order. The set part holds; the order part (C03.endInflightTasks.deterministic*)
// does NOT hold for the code as written (same defect as mem/datamover, see the C03 report).
package gmmu

// ---- trusted: tracing entry points end in arbitrary user hooks (assumed not to touch the component); EndTaskOnReset is logged.
//@ ghost var c03EndN int
//@ ghost var c03EndSeq map
//@ ext tracing.EndTaskOnReset(domain, taskID)
//@   trusted
//@   ensures c03EndN == old(c03EndN) + 1 && c03EndSeq == upd(old(c03EndSeq), old(c03EndN), taskID)
//@   assigns c03EndN, c03EndSeq
//@ ext tracing.EndReqInOnReset(domain, id)
//@   trusted
//@   assigns nothing

//@ func c03RM(m) = m.comp.State.RemoteMemReqs
//@ pred c03LogKeeps(from) = forall k int :: k < from ==> c03EndSeq[k] == old(c03EndSeq)[k]

//@ fn (*ctrlMiddleware).endInflightTasks
//@   property C03
//@   requires m != nil && m.comp != nil
//@   label C03.endInflightTasks.remote.members
//@   ensures old(c03EndN) <= mid && mid <= c03EndN && (forall k int :: mid <= k && k < c03EndN ==> (c03EndSeq[k] in c03RM(m)))
//@   label C03.endInflightTasks.remote.complete
//@   ensures forall a uint64 :: (a in c03RM(m)) ==> mid <= pos[a] && pos[a] < c03EndN && c03EndSeq[pos[a]] == a
//@   label C03.endInflightTasks.log.keeps
//@   ensures c03LogKeeps(old(c03EndN))
// ORDER: a function of the contents alone = increasing key
//@   label C03.endInflightTasks.deterministic
//@   ensures forall k int :: mid <= k && k + 1 < c03EndN ==> c03EndSeq[k] < c03EndSeq[k+1]
//@   label C03.endInflightTasks.deterministic.first2
//@   ensures mid + 2 <= c03EndN ==> c03EndSeq[mid] < c03EndSeq[mid + 1]
//@   assigns c03EndN, c03EndSeq
//@   loop 0: invariant -1 <= rangeindex && rangeindex < len(m.comp.State.WalkingTranslations)
//@   loop 0: invariant old(c03EndN) <= c03EndN && c03LogKeeps(old(c03EndN))
//@   loop 1: ghost mid = c03EndN
//@   loop 1: backedge mid = mid
//@   loop 1: ghost pos = idperm
//@   loop 1: backedge pos = upd(pos, reqOutID, athead(c03EndN))
//@   loop 1: invariant old(c03EndN) <= mid && mid <= c03EndN && c03LogKeeps(old(c03EndN))
//@   loop 1: invariant forall k int :: mid <= k && k < c03EndN ==> (c03EndSeq[k] in c03RM(m)) && visited(c03EndSeq[k])
//@   loop 1: invariant forall a uint64 :: visited(a) ==> mid <= pos[a] && pos[a] < c03EndN && c03EndSeq[pos[a]] == a
