//go:build verif

// Contracts for package gmmu, property C18 (comment-only; read by /verif/engine, never compiled into a build).
// C18 (per-step part): the control middleware answers each control request exactly once, echoing its command / ID / source,
// refuses unsupported verbs, and moves ControlState as mem/CONTROL_PROTOCOL.md says.
// View: the "Control" port's incoming head is the request being handled; m.comp.State.ControlState is the lifecycle state;
// m.comp.State.WalkingTranslations / RemoteMemReqs are the in-flight bookkeeping (quiescent <==> both empty).
package gmmu

// ---- ghost view of the ports (same names, meaning and trusted interface contracts as mem/rob's C21 file; ghost state is per package) ----
//@ ghost var canSend set
//@ ghost var sendCnt map
//@ ghost var sentTyp map2
//@ ghost var sentVal map2
//@ ghost var inTyp map
//@ ghost var inVal map
//@ ghost var retrCnt map

// ---- trusted: messaging.Port is an interface (any implementation); sequential reading of one component's tick ----
//@ iface messaging.Port.CanSend()
//@   trusted
//@   ensures result <==> canSend[ifaceval(self)]
//@   assigns nothing
//@ iface messaging.Port.Send(msg)
//@   trusted
//@   panics !canSend[ifaceval(self)]
//@   ensures sendCnt == upd(old(sendCnt), ifaceval(self), old(sendCnt)[ifaceval(self)] + 1)
//@   ensures sentTyp == upd(old(sentTyp), ifaceval(self), upd(old(sentTyp)[ifaceval(self)], old(sendCnt)[ifaceval(self)], typeid(msg)))
//@   ensures sentVal == upd(old(sentVal), ifaceval(self), upd(old(sentVal)[ifaceval(self)], old(sendCnt)[ifaceval(self)], ifaceval(msg)))
//@   assigns canSend, sendCnt, sentTyp, sentVal
//@ iface messaging.Port.PeekIncoming()
//@   trusted
//@   ensures typeid(result) == inTyp[ifaceval(self)] && ifaceval(result) == inVal[ifaceval(self)] && (typeid(result) == 0 ==> ifaceval(result) == 0)
//@   assigns nothing
//@ iface messaging.Port.RetrieveIncoming()
//@   trusted
//@   ensures typeid(result) == old(inTyp)[ifaceval(self)] && ifaceval(result) == old(inVal)[ifaceval(self)] && (typeid(result) == 0 ==> ifaceval(result) == 0)
//@   ensures retrCnt == upd(old(retrCnt), ifaceval(self), old(retrCnt)[ifaceval(self)] + (old(inTyp)[ifaceval(self)] == 0 ? 0 : 1))
//@   ensures forall p int :: p != ifaceval(self) ==> inTyp[p] == old(inTyp)[p] && inVal[p] == old(inVal)[p]
//@   assigns inTyp, inVal, retrCnt
//@ ufunc portRemote(p) int
//@ iface messaging.Port.AsRemote()
//@   trusted
//@   assigns nothing
//@   ensures result == portRemote(self)

//@ ext messaging.(PortOwnerBase).GetPortByName(po, name)
//@   trusted
//@   pure
//@   panics !(name in po.ports)
//@   ensures result == po.ports[name]
//@ ext modeling.(*Component[S, T, R]).Spec(c)
//@   trusted
//@   pure
//@   ensures result == c.spec

// ---- trusted: the ID generator is an interface value (C41) ----
//@ ghost var issued set
//@ iface timing.IDGenerator.Generate()
//@   trusted
//@   ensures !old(issued)[result] && issued == upd(old(issued), result, true)
//@   assigns issued, key("O|timing.sequentialIDGenerator|nextID"), key("O|timing.parallelIDGenerator|nextID")
//@ pred idGenOK() = timing.idGeneratorInstantiated ==> timing.idGenerator != nil
// (endInflightTasks and the tracing entry points are under contract in the package's C03 file: they only append to the ghost log c03EndN/c03EndSeq)

// ---- views (c18-prefixed: no clash with the package's other contract files) ----
//@ func c18Port(m, n) = m.comp.TickingComponent.PortOwnerBase.ports[n]
//@ func c18Ctl(m) = ifaceval(c18Port(m, "Control"))
//@ func c18SentAt(p, n) = mkiface(sentTyp[p][n], sentVal[p][n])
//@ func c18Last(p) = c18SentAt(p, sendCnt[p] - 1)
//@ func c18Rsp(p) = as(c18Last(p), "memcontrolprotocol.Rsp")
//@ pred c18IsRsp(x) = hastype(x, "memcontrolprotocol.Rsp")
//@ pred c18OneSent(p) = sendCnt == upd(old(sendCnt), p, old(sendCnt)[p] + 1) && sentTyp == upd(old(sentTyp), p, upd(old(sentTyp)[p], old(sendCnt)[p], sentTyp[p][old(sendCnt)[p]])) && sentVal == upd(old(sentVal), p, upd(old(sentVal)[p], old(sendCnt)[p], sentVal[p][old(sendCnt)[p]]))
//@ pred c18NoSend() = sendCnt == old(sendCnt) && sentTyp == old(sentTyp) && sentVal == old(sentVal) && canSend == old(canSend)
//@ pred c18NoRetr() = inTyp == old(inTyp) && inVal == old(inVal) && retrCnt == old(retrCnt)
//@ pred c18OneRetr(p) = retrCnt == upd(old(retrCnt), p, old(retrCnt)[p] + 1)
//@ func c18Head(p) = mkiface(inTyp[p], inVal[p])
//@ pred c18IsReq(x) = hastype(x, "memcontrolprotocol.Req")
//@ func c18Req(x) = as(x, "memcontrolprotocol.Req")
//@ pred c18Supported(c) = c == memcontrolprotocol.CmdPause || c == memcontrolprotocol.CmdDrain || c == memcontrolprotocol.CmdEnable || c == memcontrolprotocol.CmdReset
// the response sent last on the control port answers (cmd, id, src) with (success, err)
//@ pred c18Answers(m, cmd, id, src, success, err) = c18IsRsp(c18Last(c18Ctl(m))) && c18Rsp(c18Ctl(m)).Command == cmd && c18Rsp(c18Ctl(m)).RspTo == id && c18Rsp(c18Ctl(m)).Dst == src && c18Rsp(c18Ctl(m)).Success == success && c18Rsp(c18Ctl(m)).Error == err
//@ pred c18WF(m) = m.comp != nil && m.comp.TickingComponent != nil && m.comp.TickingComponent.PortOwnerBase != nil && ("Control" in m.comp.TickingComponent.PortOwnerBase.ports) && m != nil && ("Top" in m.comp.TickingComponent.PortOwnerBase.ports) && c18Ctl(m) != c18P(m, "Top") && ("Bottom" in m.comp.TickingComponent.PortOwnerBase.ports) && c18Ctl(m) != c18P(m, "Bottom")
//@ pred c18Quiet(m) = len(m.comp.State.WalkingTranslations) == 0 && len(m.comp.State.RemoteMemReqs) == 0
//@ pred c18Kept(m) = unchanged(m.comp.State.ControlState) && unchanged(m.comp.State.CurrentCmdID) && unchanged(m.comp.State.CurrentCmdSrc) && unchanged(m.comp.State.WalkingTranslations) && unchanged(m.comp.State.RemoteMemReqs)

//@ fn (*ctrlMiddleware).ctrlPort
//@   property C18
//@   requires c18WF(m)
//@   label C18.gmmu.ctrlport
//@   ensures result == c18Port(m, "Control")
//@   assigns nothing

//@ fn makeCtrlRsp
//@   property C18
//@   requires idGenOK()
//@   label C18.gmmu.mkrsp.fields
//@   ensures result.Command == cmd && result.Success == success && result.Error == errStr && result.Dst == dst && result.RspTo == rspTo
//@   label C18.gmmu.mkrsp.idgen
//@   ensures idGenOK()
//@   assigns issued, key("G|github.com/sarchlab/akita/v5/timing.idGenerator|"), key("G|github.com/sarchlab/akita/v5/timing.idGeneratorInstantiated|"), key("O|timing.sequentialIDGenerator|nextID"), key("O|timing.parallelIDGenerator|nextID")

// ---- sync verbs: handled only when the control port can send; then ONE response and the request leaves the head ----
//@ fn (*ctrlMiddleware).handlePause
//@   property C18
//@   requires c18WF(m) && idGenOK() && inTyp[c18Ctl(m)] != 0
//@   label C18.gmmu.pause.progress
//@   ensures result <==> old(canSend[c18Ctl(m)])
//@   label C18.gmmu.pause.once
//@   ensures result ==> c18OneSent(c18Ctl(m)) && c18OneRetr(c18Ctl(m))
//@   label C18.gmmu.pause.blocked
//@   ensures !result ==> c18NoSend() && c18NoRetr() && c18Kept(m)
//@   label C18.gmmu.pause.echo
//@   ensures result ==> c18Answers(m, memcontrolprotocol.CmdPause, req.ID, req.Src, true, "")
//@   label C18.gmmu.pause.state
//@   ensures result ==> m.comp.State.ControlState == memcontrolprotocol.StatePaused && unchanged(m.comp.State.WalkingTranslations) && unchanged(m.comp.State.RemoteMemReqs)
//@   label C18.gmmu.pause.idgen
//@   ensures idGenOK()
//@   assigns m.comp.State.ControlState, canSend, sendCnt, sentTyp, sentVal, inTyp, inVal, retrCnt, issued, key("G|github.com/sarchlab/akita/v5/timing.idGenerator|"), key("G|github.com/sarchlab/akita/v5/timing.idGeneratorInstantiated|"), key("O|timing.sequentialIDGenerator|nextID"), key("O|timing.parallelIDGenerator|nextID")

//@ fn (*ctrlMiddleware).handleEnable
//@   property C18
//@   requires c18WF(m) && idGenOK() && inTyp[c18Ctl(m)] != 0
//@   label C18.gmmu.enable.progress
//@   ensures result <==> old(canSend[c18Ctl(m)])
//@   label C18.gmmu.enable.once
//@   ensures result ==> c18OneSent(c18Ctl(m)) && c18OneRetr(c18Ctl(m))
//@   label C18.gmmu.enable.blocked
//@   ensures !result ==> c18NoSend() && c18NoRetr() && c18Kept(m)
//@   label C18.gmmu.enable.echo
//@   ensures result ==> c18Answers(m, memcontrolprotocol.CmdEnable, req.ID, req.Src, true, "")
//@   label C18.gmmu.enable.state
//@   ensures result ==> m.comp.State.ControlState == memcontrolprotocol.StateEnabled && unchanged(m.comp.State.WalkingTranslations) && unchanged(m.comp.State.RemoteMemReqs)
//@   label C18.gmmu.enable.idgen
//@   ensures idGenOK()
//@   assigns m.comp.State.ControlState, canSend, sendCnt, sentTyp, sentVal, inTyp, inVal, retrCnt, issued, key("G|github.com/sarchlab/akita/v5/timing.idGenerator|"), key("G|github.com/sarchlab/akita/v5/timing.idGeneratorInstantiated|"), key("O|timing.sequentialIDGenerator|nextID"), key("O|timing.parallelIDGenerator|nextID")

//@ fn (*ctrlMiddleware).handleUnsupported
//@   property C18
//@   requires c18WF(m) && idGenOK() && inTyp[c18Ctl(m)] != 0
//@   label C18.gmmu.unsupported.progress
//@   ensures result <==> old(canSend[c18Ctl(m)])
//@   label C18.gmmu.unsupported.once
//@   ensures result ==> c18OneSent(c18Ctl(m)) && c18OneRetr(c18Ctl(m))
//@   label C18.gmmu.unsupported.blocked
//@   ensures !result ==> c18NoSend() && c18NoRetr() && c18Kept(m)
//@   label C18.gmmu.unsupported.echo
//@   ensures result ==> c18Answers(m, req.Command, req.ID, req.Src, false, memcontrolprotocol.ErrUnsupported)
//@   label C18.gmmu.unsupported.state
//@   ensures c18Kept(m)
//@   label C18.gmmu.unsupported.idgen
//@   ensures idGenOK()
//@   assigns canSend, sendCnt, sentTyp, sentVal, inTyp, inVal, retrCnt, issued, key("G|github.com/sarchlab/akita/v5/timing.idGenerator|"), key("G|github.com/sarchlab/akita/v5/timing.idGeneratorInstantiated|"), key("O|timing.sequentialIDGenerator|nextID"), key("O|timing.parallelIDGenerator|nextID")

// ---- drain: accepted silently (no response yet); the request's ID and source are remembered for the deferred ack ----
//@ fn (*ctrlMiddleware).handleDrain
//@   property C18
//@   requires c18WF(m) && inTyp[c18Ctl(m)] != 0
//@   label C18.gmmu.drain.accept
//@   ensures result && c18NoSend() && c18OneRetr(c18Ctl(m))
//@   label C18.gmmu.drain.remember
//@   ensures m.comp.State.ControlState == memcontrolprotocol.StateDraining && m.comp.State.CurrentCmdID == req.ID && m.comp.State.CurrentCmdSrc == req.Src && unchanged(m.comp.State.WalkingTranslations) && unchanged(m.comp.State.RemoteMemReqs)
//@   assigns m.comp.State.ControlState, m.comp.State.CurrentCmdID, m.comp.State.CurrentCmdSrc, inTyp, inVal, retrCnt

//@ func c18P(m, n) = ifaceval(c18Port(m, n))
//@ fn (*ctrlMiddleware).topPort
//@   property C18
//@   requires c18WF(m)
//@   label C18.gmmu.topport
//@   ensures result == c18Port(m, "Top")
//@   assigns nothing
//@ fn (*ctrlMiddleware).bottomPort
//@   property C18
//@   requires c18WF(m)
//@   label C18.gmmu.bottomport
//@   ensures result == c18Port(m, "Bottom")
//@   assigns nothing


// ---- reset: in-flight bookkeeping cleared, agent enabled, then ONE ack ----
//@ pred c18OthersKept(m) = forall p int :: p != c18Ctl(m) && p != c18P(m, "Top") && p != c18P(m, "Bottom") ==> inTyp[p] == old(inTyp)[p] && inVal[p] == old(inVal)[p] && retrCnt[p] == old(retrCnt)[p]
//@ pred c18CtlInKept(m) = inTyp[c18Ctl(m)] == old(inTyp)[c18Ctl(m)] && inVal[c18Ctl(m)] == old(inVal)[c18Ctl(m)] && retrCnt[c18Ctl(m)] == old(retrCnt)[c18Ctl(m)]
//@ pred c18ResetDone(m) = m.comp.State.ControlState == memcontrolprotocol.StateEnabled && len(m.comp.State.WalkingTranslations) == 0 && len(m.comp.State.RemoteMemReqs) == 0 && len(m.comp.State.ToRemoveFromPTW) == 0 && m.comp.State.CurrentCmdID == 0 && m.comp.State.CurrentCmdSrc == ""
//@ fn (*ctrlMiddleware).handleReset
//@   property C18
//@   requires c18WF(m) && idGenOK() && inTyp[c18Ctl(m)] != 0
//@   label C18.gmmu.reset.progress
//@   ensures result <==> old(canSend[c18Ctl(m)])
//@   label C18.gmmu.reset.once
//@   ensures result ==> c18OneSent(c18Ctl(m)) && retrCnt[c18Ctl(m)] == old(retrCnt)[c18Ctl(m)] + 1 && c18OthersKept(m)
//@   label C18.gmmu.reset.blocked
//@   ensures !result ==> c18NoSend() && c18NoRetr() && c18Kept(m)
//@   label C18.gmmu.reset.echo
//@   ensures result ==> c18Answers(m, memcontrolprotocol.CmdReset, req.ID, req.Src, true, "")
//@   label C18.gmmu.reset.state
//@   ensures result ==> c18ResetDone(m)
//@   label C18.gmmu.reset.idgen
//@   ensures idGenOK()
//@   assigns m.comp.State.ControlState, m.comp.State.CurrentCmdID, m.comp.State.CurrentCmdSrc, m.comp.State.WalkingTranslations, m.comp.State.RemoteMemReqs, m.comp.State.ToRemoveFromPTW, c03EndN, c03EndSeq, canSend, sendCnt, sentTyp, sentVal, inTyp, inVal, retrCnt, issued, key("G|github.com/sarchlab/akita/v5/timing.idGenerator|"), key("G|github.com/sarchlab/akita/v5/timing.idGeneratorInstantiated|"), key("O|timing.sequentialIDGenerator|nextID"), key("O|timing.parallelIDGenerator|nextID")
//@   loop 0: invariant c18WF(m) && idGenOK()
//@   loop 0: invariant c18CtlInKept(m) && c18OthersKept(m)
//@   loop 0: invariant sendCnt == old(sendCnt) && sentTyp == old(sentTyp) && sentVal == old(sentVal) && canSend == old(canSend)
//@   loop 0: invariant c18ResetDone(m)
//@   loop 1: invariant c18WF(m) && idGenOK()
//@   loop 1: invariant c18CtlInKept(m) && c18OthersKept(m)
//@   loop 1: invariant sendCnt == old(sendCnt) && sentTyp == old(sentTyp) && sentVal == old(sentVal) && canSend == old(canSend)
//@   loop 1: invariant c18ResetDone(m)

// ---- deferred drain ack: only when quiescent (c18Quiet) and the port can send; lands in Paused ----
//@ fn (*ctrlMiddleware).completePendingDrain
//@   property C18
//@   requires c18WF(m) && idGenOK()
//@   label C18.gmmu.drain.progress
//@   ensures result <==> old(m.comp.State.ControlState == memcontrolprotocol.StateDraining && c18Quiet(m) && canSend[c18Ctl(m)])
//@   label C18.gmmu.drain.once
//@   ensures (result ==> c18OneSent(c18Ctl(m))) && c18NoRetr()
//@   label C18.gmmu.drain.echo
//@   ensures result ==> c18Answers(m, memcontrolprotocol.CmdDrain, old(m.comp.State.CurrentCmdID), old(m.comp.State.CurrentCmdSrc), true, "")
//@   label C18.gmmu.drain
//@   ensures result ==> m.comp.State.ControlState == memcontrolprotocol.StatePaused && c18Quiet(m) && unchanged(m.comp.State.WalkingTranslations) && unchanged(m.comp.State.RemoteMemReqs)
//@   label C18.gmmu.drain.wait
//@   ensures !result ==> c18NoSend() && c18Kept(m)
//@   label C18.gmmu.drain.idgen
//@   ensures idGenOK()
//@   assigns m.comp.State.ControlState, canSend, sendCnt, sentTyp, sentVal, issued, key("G|github.com/sarchlab/akita/v5/timing.idGenerator|"), key("G|github.com/sarchlab/akita/v5/timing.idGeneratorInstantiated|"), key("O|timing.sequentialIDGenerator|nextID"), key("O|timing.parallelIDGenerator|nextID")

// ---- one control step: the message at the head of the Control port ----
//@ func c18Hd(m) = old(c18Head(c18Ctl(m)))
//@ func c18HdCmd(m) = c18Req(c18Hd(m)).Command
//@ pred c18HdSync(m) = c18IsReq(c18Hd(m)) && c18HdCmd(m) != memcontrolprotocol.CmdDrain
//@ fn (*ctrlMiddleware).handleIncoming
//@   property C18
//@   requires c18WF(m) && idGenOK()
//@   label C18.gmmu.idle
//@   ensures old(inTyp)[c18Ctl(m)] == 0 ==> !result && c18NoSend() && c18NoRetr() && c18Kept(m)
//@   label C18.gmmu.nonreq
//@   ensures old(inTyp)[c18Ctl(m)] != 0 && !c18IsReq(c18Hd(m)) ==> result && c18NoSend() && c18OneRetr(c18Ctl(m)) && c18Kept(m)
//@   label C18.gmmu.once
//@   ensures c18HdSync(m) ==> (result <==> old(canSend[c18Ctl(m)])) && (result ==> c18OneSent(c18Ctl(m)) && retrCnt[c18Ctl(m)] == old(retrCnt)[c18Ctl(m)] + 1)
//@   label C18.gmmu.once.blocked
//@   ensures c18HdSync(m) && !result ==> c18NoSend() && c18NoRetr() && c18Kept(m)
//@   label C18.gmmu.sendframe
//@   ensures c18NoSend() || c18OneSent(c18Ctl(m))
//@   label C18.gmmu.echo
//@   ensures c18HdSync(m) && result ==> c18IsRsp(c18Last(c18Ctl(m))) && c18Rsp(c18Ctl(m)).Command == c18HdCmd(m) && c18Rsp(c18Ctl(m)).RspTo == c18Req(c18Hd(m)).ID && c18Rsp(c18Ctl(m)).Dst == c18Req(c18Hd(m)).Src
//@   label C18.gmmu.unsupported
//@   ensures c18HdSync(m) && result && !c18Supported(c18HdCmd(m)) ==> !c18Rsp(c18Ctl(m)).Success && c18Rsp(c18Ctl(m)).Error == memcontrolprotocol.ErrUnsupported && c18Kept(m)
//@   label C18.gmmu.supported
//@   ensures c18HdSync(m) && result && c18Supported(c18HdCmd(m)) ==> c18Rsp(c18Ctl(m)).Success && c18Rsp(c18Ctl(m)).Error == ""
//@   label C18.gmmu.pause
//@   ensures c18HdSync(m) && result && c18HdCmd(m) == memcontrolprotocol.CmdPause ==> m.comp.State.ControlState == memcontrolprotocol.StatePaused && unchanged(m.comp.State.WalkingTranslations) && unchanged(m.comp.State.RemoteMemReqs)
//@   label C18.gmmu.enable
//@   ensures c18HdSync(m) && result && c18HdCmd(m) == memcontrolprotocol.CmdEnable ==> m.comp.State.ControlState == memcontrolprotocol.StateEnabled && unchanged(m.comp.State.WalkingTranslations) && unchanged(m.comp.State.RemoteMemReqs)
//@   label C18.gmmu.reset
//@   ensures c18HdSync(m) && result && c18HdCmd(m) == memcontrolprotocol.CmdReset ==> c18ResetDone(m)
//@   label C18.gmmu.drain.accepted
//@   ensures c18IsReq(c18Hd(m)) && c18HdCmd(m) == memcontrolprotocol.CmdDrain ==> result && c18NoSend() && c18OneRetr(c18Ctl(m)) && m.comp.State.ControlState == memcontrolprotocol.StateDraining && m.comp.State.CurrentCmdID == c18Req(c18Hd(m)).ID && m.comp.State.CurrentCmdSrc == c18Req(c18Hd(m)).Src && unchanged(m.comp.State.WalkingTranslations) && unchanged(m.comp.State.RemoteMemReqs)
//@   label C18.gmmu.step.idgen
//@   ensures idGenOK()
//@   assigns m.comp.State.ControlState, m.comp.State.CurrentCmdID, m.comp.State.CurrentCmdSrc, m.comp.State.WalkingTranslations, m.comp.State.RemoteMemReqs, m.comp.State.ToRemoveFromPTW, c03EndN, c03EndSeq, canSend, sendCnt, sentTyp, sentVal, inTyp, inVal, retrCnt, issued, key("G|github.com/sarchlab/akita/v5/timing.idGenerator|"), key("G|github.com/sarchlab/akita/v5/timing.idGeneratorInstantiated|"), key("O|timing.sequentialIDGenerator|nextID"), key("O|timing.parallelIDGenerator|nextID")

// ---- one tick: commands are taken one at a time; while a drain is pending no request is retrieved ----
//@ pred c18DrainPending(m) = m.comp.State.ControlState == memcontrolprotocol.StateDraining && !(c18Quiet(m) && canSend[c18Ctl(m)])
//@ pred c18DrainDue(m) = m.comp.State.ControlState == memcontrolprotocol.StateDraining && c18Quiet(m) && canSend[c18Ctl(m)]
//@ fn (*ctrlMiddleware).Tick
//@   property C18
//@   requires c18WF(m) && idGenOK()
//@   label C18.gmmu.serial
//@   ensures old(c18DrainPending(m)) ==> !result && c18NoSend() && c18NoRetr() && c18Kept(m)
//@   label C18.gmmu.serial.one
//@   ensures old(retrCnt)[c18Ctl(m)] <= retrCnt[c18Ctl(m)] && retrCnt[c18Ctl(m)] <= old(retrCnt)[c18Ctl(m)] + 1
//@   label C18.gmmu.serial.ackfirst
//@   ensures old(c18DrainDue(m)) ==> sendCnt[c18Ctl(m)] > old(sendCnt)[c18Ctl(m)] && c18IsRsp(c18SentAt(c18Ctl(m), old(sendCnt)[c18Ctl(m)])) && as(c18SentAt(c18Ctl(m), old(sendCnt)[c18Ctl(m)]), "memcontrolprotocol.Rsp").Command == memcontrolprotocol.CmdDrain && as(c18SentAt(c18Ctl(m), old(sendCnt)[c18Ctl(m)]), "memcontrolprotocol.Rsp").RspTo == old(m.comp.State.CurrentCmdID)
//@   label C18.gmmu.serial.sends
//@   ensures old(sendCnt)[c18Ctl(m)] <= sendCnt[c18Ctl(m)] && sendCnt[c18Ctl(m)] <= old(sendCnt)[c18Ctl(m)] + (old(c18DrainDue(m)) ? 2 : 1)
//@   label C18.gmmu.tick.idgen
//@   ensures idGenOK()
//@   assigns m.comp.State.ControlState, m.comp.State.CurrentCmdID, m.comp.State.CurrentCmdSrc, m.comp.State.WalkingTranslations, m.comp.State.RemoteMemReqs, m.comp.State.ToRemoveFromPTW, c03EndN, c03EndSeq, canSend, sendCnt, sentTyp, sentVal, inTyp, inVal, retrCnt, issued, key("G|github.com/sarchlab/akita/v5/timing.idGenerator|"), key("G|github.com/sarchlab/akita/v5/timing.idGeneratorInstantiated|"), key("O|timing.sequentialIDGenerator|nextID"), key("O|timing.parallelIDGenerator|nextID")
