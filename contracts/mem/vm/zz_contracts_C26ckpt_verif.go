//go:build verif

// Contracts for package vm, property C26 (checkpoint half) and C07 (comment-only; read by /verif/engine).
package vm

//@ ext container/list.(*List).Len(l)
//@   trusted
//@   pure
//@   requires l != nil
//@   ensures result == llen[l]

//@ fn (*pageTableImpl).LoadCheckpoint
//@   property C26 C07
//@   requires pt.tables != nil
//@   assigns pt.tables, llen, lseq, lown, lpos
//@   loop 0: ghost llen = llen
//@   loop 0: backedge llen = llen
//@   loop 0: ghost lseq = lseq
//@   loop 0: backedge lseq = lseq
//@   loop 0: ghost lown = lown
//@   loop 0: backedge lown = lown
//@   loop 0: ghost lpos = lpos
//@   loop 0: backedge lpos = lpos
//@   loop 1: ghost llen = llen
//@   loop 1: backedge llen = llen
//@   loop 1: ghost lseq = lseq
//@   loop 1: backedge lseq = lseq
//@   loop 1: ghost lown = lown
//@   loop 1: backedge lown = lown
//@   loop 1: ghost lpos = lpos
//@   loop 1: backedge lpos = lpos
//@   loop 0: invariant -1 <= rangeindex && rangeindex < len(dto.Tables)
//@   loop 1: invariant -1 <= rangeindex && rangeindex < len(entry.Pages) && table != nil && table.entries != nil && fresh(table) && table.entriesTable != nil && fresh(table.entriesTable)
//@   loop 1: invariant llen[table.entries] <= 1
