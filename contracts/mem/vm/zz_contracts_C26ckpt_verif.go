//go:build verif

// Contracts for package vm, property C26 (checkpoint half) and C07 (comment-only; read by /verif/engine).
package vm

// PushFront is not used by the page table today; its contract is here so that a change from PushBack to PushFront is judged
// by the order postconditions (every element moves one position back) and not by a missing contract.
//@ ext container/list.(*List).PushFront(l, v)
//@   trusted
//@   requires l != nil
//@   ensures result != nil && fresh(result) && result <= allocTop && result.Value == v
//@   ensures llen == upd(old(llen), l, old(llen)[l] + 1)
//@   ensures lseq[l][0] == result && (forall i int :: i >= 0 ==> lseq[l][i + 1] == old(lseq)[l][i]) && (forall k int :: k != l ==> lseq[k] == old(lseq)[k])
//@   ensures lown == upd(old(lown), result, l) && lpos[result] == 0
//@   ensures forall x int :: x != result ==> lpos[x] == (old(lown)[x] == l ? old(lpos)[x] + 1 : old(lpos)[x])
//@   assigns llen, lseq, lown, lpos

//@ ext container/list.(*List).Len(l)
//@   trusted
//@   pure
//@   requires l != nil
//@   ensures result == llen[l] && 0 <= result && result <= 1<<59   // an element takes at least 32 bytes of a 64-bit address space

// listHolds(t, pg, n): t's list is exactly pg[0..n) in order: n well-placed fresh elements, the k-th holding page pg[k]
// (field by field: Page values are compared as structs).
//@ pred listLen(t, n) = llen[t.entries] == n && n >= 0
//@ pred listElems(t, n) = forall k int :: 0 <= k && k < n ==> elemAt(t, k) != nil && fresh(elemAt(t, k)) && elemAt(t, k) <= allocTop && lown[elemAt(t, k)] == t.entries && lpos[elemAt(t, k)] == k && hastype(elemAt(t, k).Value, "Page") && ifaceval(elemAt(t, k).Value) <= allocTop
//@ pred listPages(t, pg, n) = forall k in 0..n :: pageOf(elemAt(t, k)) == pg[k]
// the same fact indexed from the list side (the two forms instantiate from different terms)
//@ pred listPagesL(t, pg, n) = forall k int :: 0 <= k && k < n ==> pageOf(elemAt(t, k)) == pg[k]
//@ pred listHolds(t, pg, n) = listLen(t, n) && listElems(t, n) && listPages(t, pg, n) && listPagesL(t, pg, n)
// mapPoints(t): every map entry points at an element of t's list that holds a page with that VAddr.
//@ pred mapPoints(t) = forall v uint64 :: v in t.entriesTable ==> t.entriesTable[v] != nil && t.entriesTable[v] <= allocTop && lown[t.entriesTable[v]] == t.entries && 0 <= lpos[t.entriesTable[v]] && lpos[t.entriesTable[v]] < llen[t.entries] && lseq[t.entries][lpos[t.entriesTable[v]]] == t.entriesTable[v] && hastype(t.entriesTable[v].Value, "Page") && ifaceval(t.entriesTable[v].Value) <= allocTop && pageOf(t.entriesTable[v]).VAddr == v
// mapCovers(t, n): the VAddr of every listed page is a key, and the key points at the LAST listed page with that VAddr
// (a later duplicate replaces the map entry while the list keeps both elements).
//@ pred mapCovers(t, n) = forall k int :: 0 <= k && k < n ==> (pageOf(elemAt(t, k)).VAddr in t.entriesTable) && ((forall k2 int :: k < k2 && k2 < n ==> pageOf(elemAt(t, k2)).VAddr != pageOf(elemAt(t, k)).VAddr) ==> t.entriesTable[pageOf(elemAt(t, k)).VAddr] == elemAt(t, k))
// listClean(t, p): the listed pages have pairwise different VAddr and all carry PID p.
//@ pred listClean(t, p) = forall k int :: 0 <= k && k < llen[t.entries] ==> pageOf(elemAt(t, k)).PID == p && (forall k2 int :: k < k2 && k2 < llen[t.entries] ==> pageOf(elemAt(t, k2)).VAddr != pageOf(elemAt(t, k)).VAddr)
//@ pred tableShape(t) = t != nil && t.entries != nil && t.entriesTable != nil && fresh(t) && fresh(t.entries) && fresh(t.entriesTable) && t <= allocTop && t.entries <= allocTop && t.entriesTable <= allocTop
//@ pred tableBuilt(t, pg, n) = tableShape(t) && listHolds(t, pg, n) && mapPoints(t) && mapCovers(t, n)

// builtUpTo(pt, tabs, src, n): pt.tables is what the first n entries of tabs build: its PIDs are exactly theirs, and the
// table of PID p is built from the LAST entry with that PID (index src[p]; a later entry with the same PID replaces the table).
//@ pred builtUpTo(pt, tabs, src, n) = (forall i in 0..n :: tabs[i].PID in pt.tables)
//@   && (forall p uint32 :: p in pt.tables ==> 0 <= src[p] && src[p] < n && tabs[src[p]].PID == p && (forall i in src[p] + 1..n :: tabs[i].PID != p))
//@   && (forall p uint32 :: p in pt.tables ==> tableShape(pt.tables[p]))
//@   && (forall p uint32 :: p in pt.tables ==> listLen(pt.tables[p], len(tabs[src[p]].Pages)))
//@   && (forall p uint32 :: p in pt.tables ==> listElems(pt.tables[p], llen[pt.tables[p].entries]))
//@   && (forall p uint32 :: p in pt.tables ==> listPages(pt.tables[p], tabs[src[p]].Pages, len(tabs[src[p]].Pages)))
//@   && (forall p uint32 :: (p in pt.tables) && dtoClean(tabs) ==> listClean(pt.tables[p], p))
//@   && (forall p uint32 :: p in pt.tables ==> mapPoints(pt.tables[p]))
//@   && (forall p uint32 :: p in pt.tables ==> mapCovers(pt.tables[p], llen[pt.tables[p].entries]))
//@   && tablesSep(pt)
//@ pred oldLists() = forall k int :: k <= old(allocTop) ==> llen[k] == old(llen)[k] && lseq[k] == old(lseq)[k] && lown[k] == old(lown)[k] && lpos[k] == old(lpos)[k]
//@ pred apartFrom(pt, table) = forall p uint32 :: p in pt.tables ==> pt.tables[p] != table && pt.tables[p].entries != table.entries && pt.tables[p].entriesTable != table.entriesTable

// ckptSrc[p]: index of the checkpoint entry the table of PID p was built from (witness of LoadCheckpoint's postcondition).
//@ ghost var ckptSrc map

// dtoClean(tabs): what SaveCheckpoint writes for a well-formed page table (and what LoadCheckpoint needs to rebuild one):
// inside one entry no two pages share a VAddr, and every page carries its entry's PID.
//@ pred dtoClean(tabs) = forall i in 0..len(tabs) :: forall k in 0..len(tabs[i].Pages) :: tabs[i].Pages[k].PID == tabs[i].PID && (forall k2 in k + 1..len(tabs[i].Pages) :: tabs[i].Pages[k2].VAddr != tabs[i].Pages[k].VAddr)

// LoadCheckpoint (dto = the decoded value, arbitrary: the archive is not trusted).
//@ fn (*pageTableImpl).LoadCheckpoint
//@   property C26 C07
//@   requires pt.tables != nil
//@   label C26.load.mismatch
//@   ensures dto.Log2PageSize != pt.log2PageSize ==> result != nil
//@   label C26.load.error.unchanged
//@   ensures result != nil ==> pt.tables == old(pt.tables) && llen == old(llen) && lseq == old(lseq) && lown == old(lown) && lpos == old(lpos)
//@   label C26.load.shape
//@   ensures result == nil ==> dto.Log2PageSize == pt.log2PageSize
//@   label C26.load.fresh
//@   ensures result == nil ==> pt.tables != nil && fresh(pt.tables)
//@   label C26.load.tables
//@   ensures result == nil ==> builtUpTo(pt, dto.Tables, ckptSrc, len(dto.Tables))
//@   label C26.load.preexisting
//@   ensures oldLists()
//@   label C26.load.wf
//@   ensures result == nil && (forall p uint32 :: p in pt.tables ==> listClean(pt.tables[p], p)) ==> tablesWF(pt)
//@   label C26.load.clean
//@   ensures result == nil && dtoClean(dto.Tables) ==> (forall p uint32 :: p in pt.tables ==> listClean(pt.tables[p], p))
//@   assigns pt.tables, llen, lseq, lown, lpos, ckptSrc
//@   loop 0: ghost oi = -1
//@   loop 0: backedge oi = oi + 1
//@   loop 0: ghost ckptSrc = idperm
//@   loop 0: backedge ckptSrc = upd(ckptSrc, entry.PID, oi + 1)
//@   loop 0: invariant -1 <= rangeindex && rangeindex < len(dto.Tables) && oi == rangeindex
//@   loop 0: invariant pt.tables != nil && fresh(pt.tables) && oldLists()
//@   loop 0: invariant builtUpTo(pt, dto.Tables, ckptSrc, oi + 1)
//@   loop 1: invariant -1 <= rangeindex && rangeindex < len(entry.Pages) && oldLists()
//@   loop 1: invariant tableBuilt(table, entry.Pages, rangeindex + 1)
//@   loop 1: invariant builtUpTo(pt, dto.Tables, ckptSrc, oi + 1) && apartFrom(pt, table)

// ---- SaveCheckpoint ----
// encDTO: the value handed to the JSON encoder (a snapshot of the local dto).
//@ const encDTO = as(mkiface(jsonEncTyp, jsonEncVal), "pageTableCheckpoint")
// pagesOf(pg, t): pg is the content of t's list, in list order, field by field.
//@ pred pagesOf(pg, t) = len(pg) == llen[t.entries] && (forall k in 0..len(pg) :: pg[k] == pageOf(elemAt(t, k)))
// savedUpTo(pt, tabs, pids, n): tabs has one entry per pids[0..n), in that order, each with its process's pages.
//@ pred savedUpTo(pt, tabs, pids, n) = len(tabs) == n && (forall i in 0..n :: tabs[i].PID == pids[i])
//@   && (forall i in 0..n :: (tabs[i].PID in pt.tables) && ref(tabs[i].Pages) <= allocTop && pagesOf(tabs[i].Pages, pt.tables[tabs[i].PID]))

//@ fn (*pageTableImpl).SaveCheckpoint
//@   property C26
//@   requires tablesWF(pt)
//@   requires len(pt.tables) <= 4294967296   // a map keyed by a uint32 cannot hold more (needed for make's capacity)
//@   label C26.save.once
//@   ensures jsonEncCount == 1 && encDTO.Log2PageSize == pt.log2PageSize
//@   label C26.save.pids
//@   ensures forall i in 0..len(encDTO.Tables) :: (encDTO.Tables[i].PID in pt.tables)
//@   label C26.save.ascending
//@   ensures forall i in 0..len(encDTO.Tables) :: forall j in 0..len(encDTO.Tables) :: i < j ==> encDTO.Tables[i].PID < encDTO.Tables[j].PID
//@   label C26.save.complete
//@   ensures forall p uint32 :: (p in pt.tables) ==> 0 <= ckptIdx[p] && ckptIdx[p] < len(encDTO.Tables) && encDTO.Tables[ckptIdx[p]].PID == p
//@   label C26.save.pages
//@   ensures forall i in 0..len(encDTO.Tables) :: pagesOf(encDTO.Tables[i].Pages, pt.tables[encDTO.Tables[i].PID])
//@   assigns nothing
//@   witness ckptIdx map = mapof(p, Slice_inv[where[p]])
//@   loop 0: ghost where = idperm
//@   loop 0: backedge where = upd(where, pid, athead(len(pids)))
//@   loop 0: invariant fresh(pids) && off(pids) == 0
//@   loop 0: invariant forall k in 0..len(pids) :: (pids[k] in pt.tables) && visited(pids[k]) && where[pids[k]] == k
//@   loop 0: invariant forall p uint32 :: visited(p) ==> 0 <= where[p] && where[p] < len(pids) && pids[where[p]] == p
//@   loop 1: invariant -1 <= rangeindex && rangeindex < len(pids)
//@   loop 1: invariant fresh(dto.Tables) && off(dto.Tables) == 0 && dto.Log2PageSize == pt.log2PageSize
//@   loop 1: invariant savedUpTo(pt, dto.Tables, pids, rangeindex + 1)
//@   loop 1: ghost oi = -1
//@   loop 1: backedge oi = oi + 1
//@   loop 1: invariant oi == rangeindex
//@   loop 2: invariant fresh(dto.Tables) && off(dto.Tables) == 0 && dto.Log2PageSize == pt.log2PageSize && savedUpTo(pt, dto.Tables, pids, oi + 1)
//@   loop 2: invariant fresh(pages) && (forall i in 0..len(dto.Tables) :: ref(dto.Tables[i].Pages) != ref(pages))
//@   loop 2: invariant elem != nil ==> lown[elem] == table.entries && 0 <= lpos[elem] && lpos[elem] < llen[table.entries] && lseq[table.entries][lpos[elem]] == elem
//@   loop 2: invariant len(pages) == (elem == nil ? llen[table.entries] : lpos[elem])
//@   loop 2: invariant forall k in 0..len(pages) :: pages[k] == pageOf(elemAt(table, k))
