//go:build verif

// Contracts for package addresstranslator, property C25 (comment-only; read by /verif/engine, never compiled into a build).
// C25 (per-step part): the address translator turns ONE translation response (a vm.Page) plus the request it kept for
// that translation into ONE translated request whose physical address is the page's frame plus the request's page offset
// (offset preserved), every other payload field carried over, and sends exactly one message per handled message.
// The whole statement of C25 (every stack shape, histories, "no translation uses the old mapping") is a history property
// of several components and is NOT decided here.
package addresstranslator

// ---- ghost view of the ports: same names, meaning and TRUSTED contracts as mem/idealmemcontroller's C18 file ----
//@ ghost var canSend set
//@ ghost var sendCnt map
//@ ghost var sentTyp map2
//@ ghost var sentVal map2
//@ ghost var inTyp map
//@ ghost var inVal map
//@ ghost var retrCnt map
//@ ghost var issued set

// ---- trusted: messaging.Port is an interface (any implementation); sequential reading of one component's tick ----
//@ iface messaging.Port.CanSend()
//@   trusted
//@   ensures result <==> canSend[ifaceval(self)]
//@   assigns nothing
//@ iface messaging.Port.Send(msg)
//@   trusted
//@   panics !canSend[ifaceval(self)]
//@   ensures sendCnt == upd(old(sendCnt), ifaceval(self), old(sendCnt)[ifaceval(self)] + 1)
//@   ensures sentTyp == upd(old(sentTyp), ifaceval(self), upd(old(sentTyp)[ifaceval(self)], old(sendCnt)[ifaceval(self)], typeid(msg)))
//@   ensures sentVal == upd(old(sentVal), ifaceval(self), upd(old(sentVal)[ifaceval(self)], old(sendCnt)[ifaceval(self)], ifaceval(msg)))
//@   assigns canSend, sendCnt, sentTyp, sentVal
//@ iface messaging.Port.PeekIncoming()
//@   trusted
//@   ensures typeid(result) == inTyp[ifaceval(self)] && ifaceval(result) == inVal[ifaceval(self)] && (typeid(result) == 0 ==> ifaceval(result) == 0)
//@   assigns nothing
//@ iface messaging.Port.RetrieveIncoming()
//@   trusted
//@   ensures typeid(result) == old(inTyp)[ifaceval(self)] && ifaceval(result) == old(inVal)[ifaceval(self)] && (typeid(result) == 0 ==> ifaceval(result) == 0)
//@   ensures retrCnt == upd(old(retrCnt), ifaceval(self), old(retrCnt)[ifaceval(self)] + (old(inTyp)[ifaceval(self)] == 0 ? 0 : 1))
//@   ensures forall p int :: p != ifaceval(self) ==> inTyp[p] == old(inTyp)[p] && inVal[p] == old(inVal)[p]
//@   assigns inTyp, inVal, retrCnt
//@ ufunc portRemote(p) int
//@ iface messaging.Port.AsRemote()
//@   trusted
//@   assigns nothing
//@   ensures result == portRemote(self)
//@ iface messaging.Port.Name()
//@   trusted
//@   assigns nothing
//@ ext messaging.(PortOwnerBase).GetPortByName(po, name)
//@   trusted
//@   pure
//@   panics !(name in po.ports)
//@   ensures result == po.ports[name]
// trusted one-line getters of modeling.Component (return c.spec / c.resources)
//@ ext modeling.(*Component[S, T, R]).Spec(c)
//@   trusted
//@   pure
//@   ensures result == c.spec
//@ ext modeling.(*Component[S, T, R]).Resources(c)
//@   trusted
//@   pure
//@   ensures result == c.resources
// tracing hooks are arbitrary user callbacks: assumed not to touch the component, its ports or the ID generator
//@ ext tracing.AddMilestone(domain, ms)
//@   trusted
//@   assigns nothing
//@ ext tracing.MsgIDAtReceiver(msg, domain)
//@   trusted
//@   assigns nothing
//@ ext tracing.MsgIDAtIncomingBuffer(msg, domain)
//@   trusted
//@   assigns nothing
//@ ext tracing.TraceReqReceive(domain, msg)
//@   trusted
//@   assigns nothing
//@ ext tracing.TraceReqInitiate(domain, msg, parentID)
//@   trusted
//@   assigns nothing
//@ ext tracing.TraceReqFinalize(domain, msg)
//@   trusted
//@   assigns nothing
//@ ext tracing.TraceReqComplete(domain, msg)
//@   trusted
//@   assigns nothing
// the ID generator is an interface value (C41)
//@ iface timing.IDGenerator.Generate()
//@   trusted
//@   ensures !old(issued)[result] && issued == upd(old(issued), result, true)
//@   assigns issued, key("O|timing.sequentialIDGenerator|nextID"), key("O|timing.parallelIDGenerator|nextID")
//@ pred idGenOK() = timing.idGeneratorInstantiated ==> timing.idGenerator != nil
// the address-to-port mappers are user-supplied interface values: a pure function of (mapper, address)
//@ ufunc mapFind(m, a) int
//@ iface mem.AddressToPortMapper.Find(address)
//@   trusted
//@   assigns nothing
//@   ensures result == mapFind(self, address)

// ---- page arithmetic, with the code's own Log2PageSize shifts ----
//@ func pageBase(a, l) = (int(a) >> int(l)) << int(l)
//@ func pageOff(a, l) = int(a) - pageBase(a, l)
//@ func pageSz(l) = 1 << int(l)

//@ fn addrToPageID
//@   property C25
//@   requires log2PageSize < 64
//@   label C25.at.pageid
//@   ensures result == pageBase(addr, log2PageSize)
//@   label C25.at.pageid.range
//@   ensures int(result) <= int(addr) && int(addr) - int(result) < pageSz(log2PageSize)
//@   assigns nothing

// ---- the translated request: frame from the page, page offset preserved, payload carried over ----
//@ pred isRead(rs) = rs.Type == "memprotocol.ReadReq"
//@ pred isWrite(rs) = rs.Type == "memprotocol.WriteReq"
//@ func rdOf(x) = as(x, "memprotocol.ReadReq")
//@ func wrOf(x) = as(x, "memprotocol.WriteReq")
//@ pred sameSl(a, b) = ref(a) == ref(b) && off(a) == off(b) && len(a) == len(b)
// a page frame lies inside the 64-bit physical address space (PAddr + offset does not wrap)
//@ pred frameFits(pa, l) = int(pa) + pageSz(l) <= MaxUint64 + 1

//@ fn createTranslatedReq
//@   property C25
//@   requires idGenOK() && log2PageSize < 64 && frameFits(page.PAddr, log2PageSize) && memProviderMapper != nil
//@   panics !isRead(reqState) && !isWrite(reqState)
//@   label C25.at.xlate.kind
//@   ensures (isRead(reqState) ==> hastype(result, "memprotocol.ReadReq")) && (isWrite(reqState) ==> hastype(result, "memprotocol.WriteReq"))
//@   label C25.at.xlate.paddr.read
//@   ensures isRead(reqState) ==> int(rdOf(result).Address) == int(page.PAddr) + pageOff(reqState.Address, log2PageSize)
//@   label C25.at.xlate.paddr.write
//@   ensures isWrite(reqState) ==> int(wrOf(result).Address) == int(page.PAddr) + pageOff(reqState.Address, log2PageSize)
//@   label C25.at.xlate.inframe
//@   ensures isRead(reqState) ==> int(page.PAddr) <= int(rdOf(result).Address) && int(rdOf(result).Address) < int(page.PAddr) + pageSz(log2PageSize)
//@   label C25.at.xlate.read.payload
//@   ensures isRead(reqState) ==> rdOf(result).AccessByteSize == reqState.AccessByteSize && rdOf(result).CanWaitForCoalesce == reqState.CanWaitForCoalesce && rdOf(result).PID == 0
//@   label C25.at.xlate.write.payload
//@   ensures isWrite(reqState) ==> sameSl(wrOf(result).Data, reqState.Data) && sameSl(wrOf(result).DirtyMask, reqState.DirtyMask) && wrOf(result).CanWaitForCoalesce == reqState.CanWaitForCoalesce && wrOf(result).PID == 0
//@   label C25.at.xlate.read.route
//@   ensures isRead(reqState) ==> rdOf(result).Src == bottomPortRemote && rdOf(result).Dst == mapFind(memProviderMapper, rdOf(result).Address) && rdOf(result).RspTo == 0
//@   label C25.at.xlate.write.route
//@   ensures isWrite(reqState) ==> wrOf(result).Src == bottomPortRemote && wrOf(result).Dst == mapFind(memProviderMapper, wrOf(result).Address) && wrOf(result).RspTo == 0
//@   label C25.at.xlate.freshid
//@   ensures (isRead(reqState) ==> !old(issued)[rdOf(result).ID] && issued[rdOf(result).ID]) && (isWrite(reqState) ==> !old(issued)[wrOf(result).ID] && issued[wrOf(result).ID])
//@   label C25.at.xlate.idgen
//@   ensures idGenOK()
//@   assigns issued, key("G|github.com/sarchlab/akita/v5/timing.idGenerator|"), key("G|github.com/sarchlab/akita/v5/timing.idGeneratorInstantiated|"), key("O|timing.sequentialIDGenerator|nextID"), key("O|timing.parallelIDGenerator|nextID")

// ---- trusted: Meta() of the request types is the promoted (MsgMeta).Meta, which returns the embedded metadata ----
//@ pred isRd(x) = hastype(x, "memprotocol.ReadReq")
//@ pred isWr(x) = hastype(x, "memprotocol.WriteReq")
//@ pred isTRsp(x) = hastype(x, "vmprotocol.TranslationRsp")
//@ pred isTReq(x) = hastype(x, "vmprotocol.TranslationReq")
//@ func tRsp(x) = as(x, "vmprotocol.TranslationRsp")
//@ func tReq(x) = as(x, "vmprotocol.TranslationReq")
//@ func reqID(x) = isRd(x) ? rdOf(x).ID : wrOf(x).ID
//@ func reqSrc(x) = isRd(x) ? rdOf(x).Src : wrOf(x).Src
//@ func reqDst(x) = isRd(x) ? rdOf(x).Dst : wrOf(x).Dst
//@ func reqRspTo(x) = isRd(x) ? rdOf(x).RspTo : wrOf(x).RspTo
//@ func reqAddr(x) = isRd(x) ? rdOf(x).Address : wrOf(x).Address
//@ func reqPID(x) = isRd(x) ? rdOf(x).PID : wrOf(x).PID
//@ iface messaging.Msg.Meta()
//@   trusted
//@   pure
//@   ensures isRd(self) || isWr(self) ==> result.ID == reqID(self) && result.Src == reqSrc(self) && result.Dst == reqDst(self) && result.RspTo == reqRspTo(self)
//@ iface memprotocol.AccessReq.GetAddress()
//@   trusted
//@   pure
//@   ensures isRd(self) || isWr(self) ==> result == reqAddr(self)
//@ iface memprotocol.AccessReq.GetPID()
//@   trusted
//@   pure
//@   ensures isRd(self) || isWr(self) ==> result == reqPID(self)

// ---- bookkeeping helpers ----
//@ fn buildReqToBottom
//@   property C25
//@   requires isRd(translatedReq) || isWr(translatedReq)
//@   label C25.at.link
//@   ensures result.ReqFromTopID == reqState.ID && result.ReqFromTopSrc == reqState.Src && result.ReqFromTopDst == reqState.Dst && result.ReqFromTopType == reqState.Type
//@   label C25.at.link.down
//@   ensures result.ReqToBottomID == reqID(translatedReq) && result.ReqToBottomSrc == reqSrc(translatedReq) && result.ReqToBottomDst == reqDst(translatedReq)
//@   assigns nothing

//@ fn restoreMemMsg
//@   property C25
//@   label C25.at.restore
//@   ensures typ == "memprotocol.WriteReq" ? (isWr(result) && wrOf(result).ID == id && wrOf(result).Src == src && wrOf(result).Dst == dst) : (isRd(result) && rdOf(result).ID == id && rdOf(result).Src == src && rdOf(result).Dst == dst)
//@   assigns nothing

//@ fn findTransactionByReqID
//@   property C25
//@   label C25.at.find.range
//@   ensures -1 <= result && result < len(transactions)
//@   label C25.at.find.hit
//@   ensures result >= 0 ==> transactions[result].TranslationReqID == id
//@   label C25.at.find.first
//@   ensures forall j in 0..(result < 0 ? len(transactions) : result) :: transactions[j].TranslationReqID != id
//@   assigns nothing
//@   loop 0: invariant -1 <= rangeindex && rangeindex < len(transactions)
//@   loop 0: invariant forall j in 0..rangeindex + 1 :: transactions[j].TranslationReqID != id

//@ fn removeTransaction
//@   property C25
//@   requires state != nil && 0 <= idx && idx < len(state.Transactions)
//@   label C25.at.remove.len
//@   ensures len(state.Transactions) == old(len(state.Transactions)) - 1
//@   label C25.at.remove.before
//@   ensures forall j in 0..idx :: state.Transactions[j].TranslationReqID == old(state.Transactions[j].TranslationReqID)
//@   label C25.at.remove.after
//@   ensures forall j in idx..len(state.Transactions) :: state.Transactions[j].TranslationReqID == old(state.Transactions[j + 1].TranslationReqID)
//@   assigns state.Transactions, elems(state.Transactions)

// ---- the component: three distinct ports, a representable page size ----
//@ func topP(m) = ifaceval(m.comp.TickingComponent.PortOwnerBase.ports["Top"])
//@ func botP(m) = ifaceval(m.comp.TickingComponent.PortOwnerBase.ports["Bottom"])
//@ func trP(m) = ifaceval(m.comp.TickingComponent.PortOwnerBase.ports["Translation"])
//@ func lg(m) = m.comp.spec.Log2PageSize
//@ pred atWF(m) = m.comp != nil && m.comp.TickingComponent != nil && m.comp.TickingComponent.PortOwnerBase != nil && ("Top" in m.comp.TickingComponent.PortOwnerBase.ports) && ("Bottom" in m.comp.TickingComponent.PortOwnerBase.ports) && ("Translation" in m.comp.TickingComponent.PortOwnerBase.ports) && topP(m) != botP(m) && topP(m) != trP(m) && botP(m) != trP(m) && m.comp.spec.Log2PageSize < 64

//@ fn (*respondPipelineMW).topPort
//@   property C25
//@   requires atWF(m)
//@   ensures result == m.comp.TickingComponent.PortOwnerBase.ports["Top"]
//@   assigns nothing
//@ fn (*respondPipelineMW).bottomPort
//@   property C25
//@   requires atWF(m)
//@   ensures result == m.comp.TickingComponent.PortOwnerBase.ports["Bottom"]
//@   assigns nothing
//@ fn (*respondPipelineMW).translationPort
//@   property C25
//@   requires atWF(m)
//@   ensures result == m.comp.TickingComponent.PortOwnerBase.ports["Translation"]
//@   assigns nothing
//@ fn (*parseTranslateMW).topPort
//@   property C25
//@   requires atWF(m)
//@   ensures result == m.comp.TickingComponent.PortOwnerBase.ports["Top"]
//@   assigns nothing
//@ fn (*parseTranslateMW).translationPort
//@   property C25
//@   requires atWF(m)
//@   ensures result == m.comp.TickingComponent.PortOwnerBase.ports["Translation"]
//@   assigns nothing

// tracing of a completed translation: reads only
//@ fn (*respondPipelineMW).traceTranslationComplete
//@   property C25
//@   requires atWF(m) && trans != nil
//@   assigns nothing

// ---- views of the ports ----
//@ func sentAt(p, n) = mkiface(sentTyp[p][n], sentVal[p][n])
//@ func sentOn(p) = sentAt(p, sendCnt[p] - 1)
//@ pred oneMoreSent(p) = sendCnt == upd(old(sendCnt), p, old(sendCnt)[p] + 1) && sentTyp == upd(old(sentTyp), p, upd(old(sentTyp)[p], old(sendCnt)[p], sentTyp[p][old(sendCnt)[p]])) && sentVal == upd(old(sentVal), p, upd(old(sentVal)[p], old(sendCnt)[p], sentVal[p][old(sendCnt)[p]]))
//@ pred nothingSent() = sendCnt == old(sendCnt) && sentTyp == old(sentTyp) && sentVal == old(sentVal) && canSend == old(canSend)
//@ pred nothingRetrieved() = inTyp == old(inTyp) && inVal == old(inVal) && retrCnt == old(retrCnt)
//@ pred oneRetrieved(p) = retrCnt == upd(old(retrCnt), p, old(retrCnt)[p] + 1)
//@ func headOf(p) = mkiface(inTyp[p], inVal[p])
//@ pred bookKept(m) = unchanged(m.comp.State.Transactions) && unchanged(m.comp.State.InflightReqToBottom) && unchanged(m.comp.State.ControlState)

// every kept transaction still has the request it was opened for, and that request is a read or a write
//@ pred txWF(m) = forall j in 0..len(m.comp.State.Transactions) :: len(m.comp.State.Transactions[j].IncomingReqs) >= 1 && (isRead(m.comp.State.Transactions[j].IncomingReqs[0]) || isWrite(m.comp.State.Transactions[j].IncomingReqs[0]))
//@ pred noTrans(m, id) = forall j in 0..len(m.comp.State.Transactions) :: m.comp.State.Transactions[j].TranslationReqID != id

// ---- one translation response: ONE translated request, frame from the response's page, offset of the kept request ----
//@ func thd(m) = old(headOf(trP(m)))
//@ pred matched(m) = isTRsp(thd(m)) && !old(noTrans(m, tRsp(thd(m)).RspTo))
//@ pred go(m) = matched(m) && old(canSend[botP(m)])
//@ fn (*respondPipelineMW).parseTranslation
//@   property C25
//@   requires atWF(m) && idGenOK() && m.comp.resources.MemProviderMapper != nil && txWF(m)
//@   requires inTyp[trP(m)] != 0 ==> isTRsp(headOf(trP(m))) && frameFits(tRsp(headOf(trP(m))).Page.PAddr, lg(m))
//@   requires ref(m.comp.State.Transactions) <= allocTop && ref(m.comp.State.InflightReqToBottom) <= allocTop
//@   witness ti int = transIdx
//@   label C25.at.parse.idle
//@   ensures old(inTyp)[trP(m)] == 0 ==> !result && nothingSent() && nothingRetrieved() && bookKept(m)
//@   label C25.at.parse.unmatched
//@   ensures isTRsp(thd(m)) && old(noTrans(m, tRsp(thd(m)).RspTo)) ==> result && nothingSent() && oneRetrieved(trP(m)) && bookKept(m)
//@   label C25.at.parse.blocked
//@   ensures matched(m) && !old(canSend[botP(m)]) ==> !result && nothingSent() && nothingRetrieved() && bookKept(m)
//@   label C25.at.parse.once
//@   ensures matched(m) && old(canSend[botP(m)]) ==> result && oneMoreSent(botP(m)) && oneRetrieved(trP(m))
//@   label C25.at.parse.sendframe
//@   ensures nothingSent() || oneMoreSent(botP(m))
//@   label C25.at.parse.which
//@   ensures matched(m) ==> 0 <= ti && ti < old(len(m.comp.State.Transactions)) && old(m.comp.State.Transactions[ti].TranslationReqID) == tRsp(thd(m)).RspTo
//@   label C25.at.parse.paddr.read
//@   ensures go(m) && old(isRead(m.comp.State.Transactions[ti].IncomingReqs[0])) ==> isRd(sentOn(botP(m))) && int(rdOf(sentOn(botP(m))).Address) == int(tRsp(thd(m)).Page.PAddr) + pageOff(old(m.comp.State.Transactions[ti].IncomingReqs[0].Address), lg(m))
//@   label C25.at.parse.paddr.write
//@   ensures go(m) && old(isWrite(m.comp.State.Transactions[ti].IncomingReqs[0])) ==> isWr(sentOn(botP(m))) && int(wrOf(sentOn(botP(m))).Address) == int(tRsp(thd(m)).Page.PAddr) + pageOff(old(m.comp.State.Transactions[ti].IncomingReqs[0].Address), lg(m))
//@   label C25.at.parse.payload.read
//@   ensures go(m) && old(isRead(m.comp.State.Transactions[ti].IncomingReqs[0])) ==> rdOf(sentOn(botP(m))).AccessByteSize == old(m.comp.State.Transactions[ti].IncomingReqs[0].AccessByteSize) && rdOf(sentOn(botP(m))).CanWaitForCoalesce == old(m.comp.State.Transactions[ti].IncomingReqs[0].CanWaitForCoalesce)
//@   label C25.at.parse.payload.write
//@   ensures go(m) && old(isWrite(m.comp.State.Transactions[ti].IncomingReqs[0])) ==> ref(wrOf(sentOn(botP(m))).Data) == old(ref(m.comp.State.Transactions[ti].IncomingReqs[0].Data)) && off(wrOf(sentOn(botP(m))).Data) == old(off(m.comp.State.Transactions[ti].IncomingReqs[0].Data)) && len(wrOf(sentOn(botP(m))).Data) == old(len(m.comp.State.Transactions[ti].IncomingReqs[0].Data)) && ref(wrOf(sentOn(botP(m))).DirtyMask) == old(ref(m.comp.State.Transactions[ti].IncomingReqs[0].DirtyMask)) && len(wrOf(sentOn(botP(m))).DirtyMask) == old(len(m.comp.State.Transactions[ti].IncomingReqs[0].DirtyMask))
//@   label C25.at.parse.route
//@   ensures go(m) ==> reqSrc(sentOn(botP(m))) == portRemote(m.comp.TickingComponent.PortOwnerBase.ports["Bottom"]) && reqDst(sentOn(botP(m))) == mapFind(m.comp.resources.MemProviderMapper, reqAddr(sentOn(botP(m))))
//@   label C25.at.parse.link
//@   ensures go(m) ==> len(m.comp.State.InflightReqToBottom) == old(len(m.comp.State.InflightReqToBottom)) + 1 && m.comp.State.InflightReqToBottom[len(m.comp.State.InflightReqToBottom) - 1].ReqFromTopID == old(m.comp.State.Transactions[ti].IncomingReqs[0].ID) && m.comp.State.InflightReqToBottom[len(m.comp.State.InflightReqToBottom) - 1].ReqFromTopSrc == old(m.comp.State.Transactions[ti].IncomingReqs[0].Src) && m.comp.State.InflightReqToBottom[len(m.comp.State.InflightReqToBottom) - 1].ReqToBottomID == reqID(sentOn(botP(m)))
//@   label C25.at.parse.link.kept
//@   ensures forall j in 0..old(len(m.comp.State.InflightReqToBottom)) :: m.comp.State.InflightReqToBottom[j].ReqToBottomID == old(m.comp.State.InflightReqToBottom[j].ReqToBottomID) && m.comp.State.InflightReqToBottom[j].ReqFromTopID == old(m.comp.State.InflightReqToBottom[j].ReqFromTopID) && m.comp.State.InflightReqToBottom[j].ReqFromTopSrc == old(m.comp.State.InflightReqToBottom[j].ReqFromTopSrc)
//@   label C25.at.parse.closed
//@   ensures go(m) && old(len(m.comp.State.Transactions[ti].IncomingReqs)) == 1 ==> len(m.comp.State.Transactions) == old(len(m.comp.State.Transactions)) - 1
//@   label C25.at.parse.closed.before
//@   ensures go(m) && old(len(m.comp.State.Transactions[ti].IncomingReqs)) == 1 ==> forall j in 0..ti :: m.comp.State.Transactions[j].TranslationReqID == old(m.comp.State.Transactions[j].TranslationReqID)
//@   label C25.at.parse.closed.after
//@   ensures go(m) && old(len(m.comp.State.Transactions[ti].IncomingReqs)) == 1 ==> forall j in ti..len(m.comp.State.Transactions) :: m.comp.State.Transactions[j].TranslationReqID == old(m.comp.State.Transactions[j + 1].TranslationReqID)
//@   label C25.at.parse.freshid
//@   ensures go(m) ==> !old(issued)[reqID(sentOn(botP(m)))]
//@   label C25.at.parse.idgen
//@   ensures idGenOK()
//@   assigns m.comp.State.Transactions, elems(m.comp.State.Transactions), m.comp.State.InflightReqToBottom, elems(m.comp.State.InflightReqToBottom), canSend, sendCnt, sentTyp, sentVal, inTyp, inVal, retrCnt, issued, key("G|github.com/sarchlab/akita/v5/timing.idGenerator|"), key("G|github.com/sarchlab/akita/v5/timing.idGeneratorInstantiated|"), key("O|timing.sequentialIDGenerator|nextID"), key("O|timing.parallelIDGenerator|nextID")

// ---- what is remembered of an incoming request (Type is fmt.Sprintf("%T", msg): opaque to the engine, NOT decided) ----
//@ fn msgToIncomingReqState
//@   property C25
//@   panics !isRd(msg) && !isWr(msg)
//@   label C25.at.keep.meta
//@   ensures result.ID == reqID(msg) && result.Src == reqSrc(msg) && result.Dst == reqDst(msg) && result.RspTo == reqRspTo(msg)
//@   label C25.at.keep.addr
//@   ensures result.Address == reqAddr(msg) && result.PID == reqPID(msg)
//@   label C25.at.keep.read
//@   ensures isRd(msg) ==> result.AccessByteSize == rdOf(msg).AccessByteSize && result.CanWaitForCoalesce == rdOf(msg).CanWaitForCoalesce
//@   label C25.at.keep.write
//@   ensures isWr(msg) ==> sameSl(result.Data, wrOf(msg).Data) && sameSl(result.DirtyMask, wrOf(msg).DirtyMask) && result.CanWaitForCoalesce == wrOf(msg).CanWaitForCoalesce
//@   assigns nothing

// ---- one incoming access: ONE translation request for its (PID, virtual page), the access kept under that request's ID ----
//@ func ahd(m) = old(headOf(topP(m)))
//@ pred isAcc(x) = isRd(x) || isWr(x)
//@ func lastT(m) = m.comp.State.Transactions[len(m.comp.State.Transactions) - 1]
//@ fn (*parseTranslateMW).translate
//@   property C25
//@   requires atWF(m) && idGenOK() && m.comp.resources.TranslationProviderMapper != nil
//@   requires inTyp[topP(m)] != 0 ==> isAcc(headOf(topP(m)))
//@   requires ref(m.comp.State.Transactions) <= allocTop
//@   panics any      // ENGINE LIMIT: itemI.(memprotocol.AccessReq) asserts to an INTERFACE type; the engine has no method-set knowledge, so the assertion may always panic
//@   label C25.at.translate.idle
//@   ensures old(inTyp)[topP(m)] == 0 ==> !result && nothingSent() && nothingRetrieved() && bookKept(m)
//@   label C25.at.translate.blocked
//@   ensures old(inTyp)[topP(m)] != 0 && !old(canSend[trP(m)]) ==> !result && nothingSent() && nothingRetrieved() && bookKept(m)
//@   label C25.at.translate.once
//@   ensures old(inTyp)[topP(m)] != 0 && old(canSend[trP(m)]) ==> result && oneMoreSent(trP(m)) && oneRetrieved(topP(m))
//@   label C25.at.translate.sendframe
//@   ensures nothingSent() || oneMoreSent(trP(m))
//@   label C25.at.translate.req
//@   ensures result ==> isTReq(sentOn(trP(m))) && tReq(sentOn(trP(m))).VAddr == pageBase(reqAddr(ahd(m)), lg(m)) && tReq(sentOn(trP(m))).PID == reqPID(ahd(m)) && tReq(sentOn(trP(m))).DeviceID == m.comp.spec.DeviceID
//@   label C25.at.translate.route
//@   ensures result ==> tReq(sentOn(trP(m))).Src == portRemote(m.comp.TickingComponent.PortOwnerBase.ports["Translation"]) && tReq(sentOn(trP(m))).Dst == mapFind(m.comp.resources.TranslationProviderMapper, reqAddr(ahd(m))) && !old(issued)[tReq(sentOn(trP(m))).ID]
//@   label C25.at.translate.kept
//@   ensures result ==> len(m.comp.State.Transactions) == old(len(m.comp.State.Transactions)) + 1 && lastT(m).TranslationReqID == tReq(sentOn(trP(m))).ID && !lastT(m).TranslationDone && len(lastT(m).IncomingReqs) == 1
//@   label C25.at.translate.kept.req
//@   ensures result ==> lastT(m).IncomingReqs[0].ID == reqID(ahd(m)) && lastT(m).IncomingReqs[0].Src == reqSrc(ahd(m)) && lastT(m).IncomingReqs[0].Address == reqAddr(ahd(m)) && lastT(m).IncomingReqs[0].PID == reqPID(ahd(m))
//@   label C25.at.translate.others
//@   ensures forall j in 0..old(len(m.comp.State.Transactions)) :: m.comp.State.Transactions[j].TranslationReqID == old(m.comp.State.Transactions[j].TranslationReqID)
//@   label C25.at.translate.idgen
//@   ensures idGenOK()
//@   assigns m.comp.State.Transactions, elems(m.comp.State.Transactions), canSend, sendCnt, sentTyp, sentVal, inTyp, inVal, retrCnt, issued, key("G|github.com/sarchlab/akita/v5/timing.idGenerator|"), key("G|github.com/sarchlab/akita/v5/timing.idGeneratorInstantiated|"), key("O|timing.sequentialIDGenerator|nextID"), key("O|timing.parallelIDGenerator|nextID")
