//go:build verif

// Contracts for package vm, property C26 (comment-only; read by /verif/engine, never compiled into a build).
package vm

// ---- C26: a page table is a map (process, page-aligned virtual address) -> page ----
//
// TRUSTED model of container/list (standard library; only the five operations the page table uses).
// A list is a finite sequence of element references, kept in ghost state:
//   llen[l]      number of elements of list l
//   lseq[l][i]   the element at position i (0 = front)
//   lown[e]      the list that element e is on (0 = none)        (container/list: e.list)
//   lpos[e]      the position of e on that list
// The contracts below say what the real operations do to that sequence. The list's own fields (root, len, next, prev)
// are never read by the code under contract or by these specifications, so they are left out of the model.

//@ ghost var llen map
//@ ghost var lseq map2
//@ ghost var lown map
//@ ghost var lpos map

//@ ext container/list.New()
//@   trusted
//@   ensures result != nil && fresh(result) && result <= allocTop
//@   ensures llen == upd(old(llen), result, 0) && lseq == old(lseq) && lown == old(lown) && lpos == old(lpos)
//@   assigns llen

//@ ext container/list.(*List).PushBack(l, v)
//@   trusted
//@   requires l != nil
//@   ensures result != nil && fresh(result) && result <= allocTop && result.Value == v
//@   ensures llen == upd(old(llen), l, old(llen)[l] + 1)
//@   ensures lseq == upd(old(lseq), l, upd(old(lseq)[l], old(llen)[l], result))
//@   ensures lown == upd(old(lown), result, l)
//@   ensures lpos == upd(old(lpos), result, old(llen)[l])
//@   assigns llen, lseq, lown, lpos

// Remove(e) takes e off l when e is on l (positions behind it move up by one) and does nothing otherwise.
//@ ext container/list.(*List).Remove(l, e)
//@   trusted
//@   requires l != nil && e != nil
//@   ensures old(lown)[e] != l ==> llen == old(llen) && lseq == old(lseq) && lown == old(lown) && lpos == old(lpos)
//@   ensures old(lown)[e] == l ==> llen == upd(old(llen), l, old(llen)[l] - 1) && lown[e] == 0
//@   ensures old(lown)[e] == l ==> (forall k int :: k != l ==> lseq[k] == old(lseq)[k])
//@   ensures old(lown)[e] == l ==> (forall i int :: 0 <= i && i < old(lpos)[e] ==> lseq[l][i] == old(lseq)[l][i])
//@   ensures old(lown)[e] == l ==> (forall i int :: old(lpos)[e] <= i ==> lseq[l][i] == old(lseq)[l][i + 1])
//@   ensures old(lown)[e] == l ==> (forall x int :: x != e ==> lown[x] == old(lown)[x])
//@   ensures old(lown)[e] == l ==> (forall x int :: x != e ==> lpos[x] == ((old(lown)[x] == l && old(lpos)[x] > old(lpos)[e]) ? old(lpos)[x] - 1 : old(lpos)[x]))
//@   assigns llen, lseq, lown, lpos

//@ ext container/list.(*List).Front(l)
//@   trusted
//@   pure
//@   requires l != nil
//@   ensures result == (llen[l] > 0 ? lseq[l][0] : 0)

//@ ext container/list.(*Element).Next(e)
//@   trusted
//@   pure
//@   requires e != nil
//@   ensures result == ((lown[e] != 0 && lpos[e] + 1 < llen[lown[e]]) ? lseq[lown[e]][lpos[e] + 1] : 0)

// elemAt(t, i): the i-th element of t's list, viewed as a *list.Element (the conditional only gives the ghost integer a type).
//@ func elemAt(t, i) = true ? lseq[t.entries][i] : t.entriesTable[0]
// pageOf(e): the Page stored (boxed by value) in list element e.
//@ func pageOf(e) = as(e.Value, "Page")
//@ pred zeroPage(p) = p.PID == 0 && p.PAddr == 0 && p.VAddr == 0 && p.PageSize == 0 && !p.Valid && p.DeviceID == 0 && !p.Unified && !p.IsMigrating && !p.IsPinned

// Representation invariant of one process table: the list and the map have the same members, and the element filed
// under key v holds a page whose VAddr is v. View: v -> pageOf(t.entriesTable[v]), order of insertion = lpos.
//@ pred procWF(t) = t != nil && t.entriesTable != nil && t.entries != nil && t <= allocTop && t.entries <= allocTop && t.entriesTable <= allocTop && llen[t.entries] >= 0
//@   && (forall i in 0..llen[t.entries] :: elemAt(t, i) != nil && elemAt(t, i) <= allocTop && lown[elemAt(t, i)] == t.entries && lpos[elemAt(t, i)] == i && hastype(elemAt(t, i).Value, "Page") && ifaceval(elemAt(t, i).Value) <= allocTop && (pageOf(elemAt(t, i)).VAddr in t.entriesTable) && t.entriesTable[pageOf(elemAt(t, i)).VAddr] == elemAt(t, i))
//@   && (forall v uint64 :: v in t.entriesTable ==> t.entriesTable[v] != nil && lown[t.entriesTable[v]] == t.entries && 0 <= lpos[t.entriesTable[v]] && lpos[t.entriesTable[v]] < llen[t.entries] && lseq[t.entries][lpos[t.entriesTable[v]]] == t.entriesTable[v] && ifaceval(t.entriesTable[v].Value) <= allocTop && pageOf(t.entriesTable[v]).VAddr == v)

// The list and the map also have the same number of members (kept apart from procWF, which is used under quantifiers over PIDs).
//@ pred procCard(t) = llen[t.entries] == len(t.entriesTable)

//@ fn (*processTable).pageMustExist
//@   property C26
//@   panics !(vAddr in t.entriesTable)
//@   assigns nothing

//@ fn (*processTable).pageMustNotExist
//@   property C26
//@   panics vAddr in t.entriesTable
//@   assigns nothing

//@ fn (*processTable).find
//@   property C26
//@   requires procWF(t)
//@   label C26.find.found
//@   ensures result1 <==> (vAddr in t.entriesTable)
//@   label C26.find.page
//@   ensures result1 ==> result0 == pageOf(t.entriesTable[vAddr])
//@   label C26.find.missing
//@   ensures !result1 ==> zeroPage(result0)
//@   assigns nothing

//@ fn (*processTable).update
//@   property C26
//@   requires procWF(t)
//@   panics !(page.VAddr in t.entriesTable)
//@   label C26.update.page
//@   ensures pageOf(t.entriesTable[page.VAddr]) == page
//@   label C26.update.others
//@   ensures forall v uint64 :: v != page.VAddr && (v in t.entriesTable) ==> pageOf(t.entriesTable[v]) == old(pageOf(t.entriesTable[v]))
//@   label C26.update.order
//@   ensures forall v uint64 :: ((v in t.entriesTable) <==> old(v in t.entriesTable)) && t.entriesTable[v] == old(t.entriesTable[v]) && lpos[t.entriesTable[v]] == old(lpos[t.entriesTable[v]])
//@   label C26.update.wf
//@   ensures procWF(t)
//@   assigns t.entriesTable[page.VAddr].Value

//@ fn (*processTable).insert
//@   property C26
//@   requires procWF(t)
//@   panics page.VAddr in t.entriesTable
//@   label C26.insert.in
//@   ensures (page.VAddr in t.entriesTable) && pageOf(t.entriesTable[page.VAddr]) == page
//@   label C26.insert.last
//@   ensures lpos[t.entriesTable[page.VAddr]] == old(llen[t.entries]) && llen[t.entries] == old(llen[t.entries]) + 1
//@   label C26.insert.others
//@   ensures forall v uint64 :: v != page.VAddr ==> ((v in t.entriesTable) <==> old(v in t.entriesTable)) && t.entriesTable[v] == old(t.entriesTable[v])
//@   label C26.insert.others.page
//@   ensures forall v uint64 :: v != page.VAddr && (v in t.entriesTable) ==> pageOf(t.entriesTable[v]) == old(pageOf(t.entriesTable[v])) && lpos[t.entriesTable[v]] == old(lpos[t.entriesTable[v]])
//@   label C26.insert.card
//@   ensures len(t.entriesTable) == old(len(t.entriesTable)) + 1 && (old(procCard(t)) ==> procCard(t))
//@   label C26.insert.frame
//@   ensures (forall k int :: k != t.entries ==> llen[k] == old(llen)[k] && lseq[k] == old(lseq)[k]) && (forall x int :: x <= old(allocTop) ==> lown[x] == old(lown)[x] && lpos[x] == old(lpos)[x])
//@   label C26.insert.wf
//@   ensures procWF(t)
//@   assigns elems(t.entriesTable), llen, lseq, lown, lpos

//@ fn (*processTable).remove
//@   property C26
//@   requires procWF(t)
//@   panics !(vAddr in t.entriesTable)
//@   label C26.remove.gone
//@   ensures !(vAddr in t.entriesTable) && llen[t.entries] == old(llen[t.entries]) - 1
//@   label C26.remove.others
//@   ensures forall v uint64 :: v != vAddr ==> ((v in t.entriesTable) <==> old(v in t.entriesTable)) && t.entriesTable[v] == old(t.entriesTable[v])
//@   label C26.remove.others.page
//@   ensures forall v uint64 :: v != vAddr && (v in t.entriesTable) ==> pageOf(t.entriesTable[v]) == old(pageOf(t.entriesTable[v]))
//@   label C26.remove.order
//@   ensures forall v uint64 :: v != vAddr && (v in t.entriesTable) ==> lpos[t.entriesTable[v]] == (old(lpos[t.entriesTable[v]]) > old(lpos[t.entriesTable[vAddr]]) ? old(lpos[t.entriesTable[v]]) - 1 : old(lpos[t.entriesTable[v]]))
//@   label C26.remove.card
//@   ensures len(t.entriesTable) == old(len(t.entriesTable)) - 1 && (old(procCard(t)) ==> procCard(t))
//@   label C26.remove.frame
//@   ensures (forall k int :: k != t.entries ==> llen[k] == old(llen)[k] && lseq[k] == old(lseq)[k]) && (forall x int :: old(lown)[x] != t.entries ==> lown[x] == old(lown)[x] && lpos[x] == old(lpos)[x])
//@   label C26.remove.wf
//@   ensures procWF(t)
//@   assigns elems(t.entriesTable), llen, lseq, lown, lpos

// reverseLookup returns the FIRST page in insertion order whose physical address matches.
//@ fn (*processTable).reverseLookup
//@   property C26
//@   requires procWF(t)
//@   label C26.proc.reverse.match
//@   ensures result1 ==> result0.PAddr == pAddr && (result0.VAddr in t.entriesTable) && result0 == pageOf(t.entriesTable[result0.VAddr])
//@   label C26.proc.reverse.first
//@   ensures result1 ==> (forall v uint64 :: (v in t.entriesTable) && lpos[t.entriesTable[v]] < lpos[t.entriesTable[result0.VAddr]] ==> pageOf(t.entriesTable[v]).PAddr != pAddr)
//@   label C26.proc.reverse.none
//@   ensures !result1 ==> zeroPage(result0) && (forall v uint64 :: (v in t.entriesTable) ==> pageOf(t.entriesTable[v]).PAddr != pAddr)
//@   assigns nothing
//@   loop 0: invariant elem != nil ==> lown[elem] == t.entries && 0 <= lpos[elem] && lpos[elem] < llen[t.entries] && lseq[t.entries][lpos[elem]] == elem
//@   loop 0: invariant forall i in 0..(elem == nil ? llen[t.entries] : lpos[elem]) :: pageOf(elemAt(t, i)).PAddr != pAddr

//@ func alignOf(a, s) = (int(a) >> int(s)) << int(s)

//@ fn (*pageTableImpl).alignToPage
//@   property C26
//@   label C26.align.value
//@   ensures result == alignOf(addr, pt.log2PageSize)
//@   label C26.align.le
//@   ensures result <= addr
//@   label C26.align.within
//@   ensures pt.log2PageSize < 64 ==> int(addr) - int(result) < (1 << int(pt.log2PageSize))
//@   label C26.align.idempotent
//@   ensures alignOf(result, pt.log2PageSize) == result
//@   assigns nothing

// ---- the page table: one process table per PID ----
// View: (p, v) is mapped iff mapped(pt, p, v); its page is pageAt(pt, p, v); posAt is its rank in p's insertion order.
//@ pred mapped(pt, p, v) = (p in pt.tables) && (v in pt.tables[p].entriesTable)
//@ func pageAt(pt, p, v) = pageOf(pt.tables[p].entriesTable[v])
//@ func posAt(pt, p, v) = lpos[pt.tables[p].entriesTable[v]]

// every process table is well formed; distinct PIDs have disjoint tables; pages are filed under their own PID
//@ pred tablesProc(pt) = pt.tables != nil && (forall p uint32 :: p in pt.tables ==> procWF(pt.tables[p]))
//@ pred tablesSep(pt) = forall p uint32, q uint32 :: (p in pt.tables) && (q in pt.tables) && p != q ==> pt.tables[p] != pt.tables[q] && pt.tables[p].entries != pt.tables[q].entries && pt.tables[p].entriesTable != pt.tables[q].entriesTable
//@ pred tablesPID(pt) = forall p uint32, v uint64 :: mapped(pt, p, v) ==> pageAt(pt, p, v).PID == p
//@ pred tablesWF(pt) = tablesProc(pt) && tablesSep(pt) && tablesPID(pt)

//@ fn (*pageTableImpl).getTable
//@   property C26
//@   requires tablesWF(pt)
//@   label C26.gettable.result
//@   ensures result != nil && (pid in pt.tables) && pt.tables[pid] == result
//@   label C26.gettable.existing
//@   ensures old(pid in pt.tables) ==> result == old(pt.tables[pid]) && llen == old(llen)
//@   label C26.gettable.created
//@   ensures !old(pid in pt.tables) ==> fresh(result) && fresh(result.entries) && fresh(result.entriesTable) && llen[result.entries] == 0 && (forall v uint64 :: !(v in result.entriesTable))
//@   label C26.gettable.others
//@   ensures forall k uint32 :: k != pid ==> ((k in pt.tables) <==> old(k in pt.tables)) && pt.tables[k] == old(pt.tables[k])
//@   label C26.gettable.frame
//@   ensures forall k int :: k <= old(allocTop) ==> llen[k] == old(llen)[k]
//@   label C26.gettable.wf
//@   ensures tablesWF(pt)
//@   assigns elems(pt.tables), llen

// Everything except (p0, v0) keeps its mapping, its page and its rank.
//@ pred othersKept(pt, p0, v0) = forall p uint32, v uint64 :: (p != p0 || v != v0) ==> (mapped(pt, p, v) <==> old(mapped(pt, p, v))) && (mapped(pt, p, v) ==> pageAt(pt, p, v) == old(pageAt(pt, p, v)))

//@ fn (*pageTableImpl).Insert
//@   property C26
//@   requires tablesWF(pt)
//@   panics mapped(pt, page.PID, page.VAddr)
//@   label C26.Insert.mapped
//@   ensures mapped(pt, page.PID, page.VAddr) && pageAt(pt, page.PID, page.VAddr) == page
//@   label C26.Insert.others
//@   ensures othersKept(pt, page.PID, page.VAddr)
//@   label C26.Insert.order
//@   ensures forall p uint32, v uint64 :: old(mapped(pt, p, v)) ==> posAt(pt, p, v) == old(posAt(pt, p, v)) && (p == page.PID ==> posAt(pt, p, v) < posAt(pt, page.PID, page.VAddr))
//@   label C26.Insert.wf
//@   ensures tablesWF(pt)
//@   assigns elems(pt.tables), elems(pt.tables[page.PID].entriesTable), llen, lseq, lown, lpos

//@ fn (*pageTableImpl).Update
//@   property C26
//@   requires tablesWF(pt)
//@   panics !mapped(pt, page.PID, page.VAddr)
//@   label C26.Update.page
//@   ensures mapped(pt, page.PID, page.VAddr) && pageAt(pt, page.PID, page.VAddr) == page
//@   label C26.Update.others
//@   ensures othersKept(pt, page.PID, page.VAddr)
//@   label C26.Update.order
//@   ensures forall p uint32, v uint64 :: mapped(pt, p, v) ==> posAt(pt, p, v) == old(posAt(pt, p, v))
//@   label C26.Update.wf
//@   ensures tablesWF(pt)
//@   assigns elems(pt.tables), pt.tables[page.PID].entriesTable[page.VAddr].Value, llen

//@ fn (*pageTableImpl).Remove
//@   property C26
//@   requires tablesWF(pt)
//@   panics !mapped(pt, pid, vAddr)
//@   label C26.Remove.gone
//@   ensures !mapped(pt, pid, vAddr)
//@   label C26.Remove.others
//@   ensures othersKept(pt, pid, vAddr)
//@   label C26.Remove.order
//@   ensures forall p uint32, v uint64 :: mapped(pt, p, v) ==> posAt(pt, p, v) == ((p == pid && old(posAt(pt, p, v)) > old(posAt(pt, pid, vAddr))) ? old(posAt(pt, p, v)) - 1 : old(posAt(pt, p, v)))
//@   label C26.Remove.wf
//@   ensures tablesWF(pt)
//@   assigns elems(pt.tables), elems(pt.tables[pid].entriesTable), llen, lseq, lown, lpos

// Find looks up the page-aligned address. (It may create an empty process table for an unknown pid: the view is unchanged.)
//@ fn (*pageTableImpl).Find
//@   property C26
//@   requires tablesWF(pt)
//@   label C26.Find.found
//@   ensures result1 <==> mapped(pt, pid, alignOf(vAddr, pt.log2PageSize))
//@   label C26.Find.page
//@   ensures result1 ==> result0 == pageAt(pt, pid, alignOf(vAddr, pt.log2PageSize))
//@   label C26.Find.missing
//@   ensures !result1 ==> zeroPage(result0)
//@   label C26.Find.view
//@   ensures forall p uint32, v uint64 :: (mapped(pt, p, v) <==> old(mapped(pt, p, v))) && (mapped(pt, p, v) ==> pageAt(pt, p, v) == old(pageAt(pt, p, v)) && posAt(pt, p, v) == old(posAt(pt, p, v)))
//@   label C26.Find.wf
//@   ensures tablesWF(pt)
//@   assigns elems(pt.tables), llen

// ReverseLookup: some mapped page with that physical address, when one exists -- and WHICH one must be a function of
// the view alone: the match of the smallest PID that has one, first in that process's insertion order.
//@ pred noMatch(pt, p, pAddr) = forall v uint64 :: mapped(pt, p, v) ==> pageAt(pt, p, v).PAddr != pAddr

//@ fn (*pageTableImpl).ReverseLookup
//@   property C26
//@   requires tablesProc(pt) && tablesPID(pt)
//@   requires len(pt.tables) <= 4294967296   // a map keyed by a uint32 cannot hold more; the engine does not know (needed for make's capacity)
//@   label C26.Reverse.match
//@   ensures result1 ==> result0.PAddr == pAddr && mapped(pt, result0.PID, result0.VAddr) && pageAt(pt, result0.PID, result0.VAddr) == result0
//@   label C26.Reverse.none
//@   ensures !result1 ==> zeroPage(result0) && (forall p uint32 :: noMatch(pt, p, pAddr))
//@   label C26.Reverse.first.in.process
//@   ensures result1 ==> (forall v uint64 :: mapped(pt, result0.PID, v) && posAt(pt, result0.PID, v) < posAt(pt, result0.PID, result0.VAddr) ==> pageAt(pt, result0.PID, v).PAddr != pAddr)
//@   label C26.Reverse.deterministic
//@   ensures result1 ==> (forall p uint32 :: p < result0.PID ==> noMatch(pt, p, pAddr))
//@   assigns nothing
// loop 0 collects the PIDs (where[p] = index at which p was appended); sort.Slice permutes them (Slice_pi / Slice_inv);
// loop 1 walks them in increasing order.
//@   loop 0: ghost where = idperm
//@   loop 0: backedge where = upd(where, pid, athead(len(pids)))
//@   loop 0: invariant fresh(pids) && off(pids) == 0
//@   loop 0: invariant forall k in 0..len(pids) :: (pids[k] in pt.tables)
//@   loop 0: invariant forall p uint32 :: visited(p) ==> 0 <= where[p] && where[p] < len(pids) && pids[where[p]] == p
//@   loop 1: invariant -1 <= rangeindex && rangeindex < len(pids)
//@   loop 1: invariant forall k in 0..len(pids) :: (pids[k] in pt.tables)
//@   loop 1: invariant forall p uint32 :: (p in pt.tables) ==> 0 <= Slice_inv[where[p]] && Slice_inv[where[p]] < len(pids) && pids[Slice_inv[where[p]]] == p
//@   loop 1: invariant forall k in 0..rangeindex + 1 :: noMatch(pt, pids[k], pAddr)
