//go:build verif

// Contracts for package lruset (comment-only; read by /verif/engine, never compiled into a build).
package lruset

// ---- C28: an LRU set is a recency-ordered list of ways plus a key -> way map ----
// View: order = s.visitList (least recently visited first), keys = s.keyMap.

//@ pred lruWF(s) = len(s.lastVisits) == int(s.wayCount) && s.keyMap != nil && (forall j in 0..len(s.visitList) :: 0 <= s.visitList[j] && s.visitList[j] < s.wayCount && s.lastVisits[s.visitList[j]] <= s.visitCount) && (forall j in 0..len(s.visitList) :: forall k in 0..len(s.visitList) :: j != k ==> s.visitList[j] != s.visitList[k])

//@ fn (*Set).Lookup
//@   property C28
//@   label C28.lookup
//@   ensures (found <==> key in s.keyMap) && (found ==> wayID == s.keyMap[key]) && (!found ==> wayID == 0)
//@   assigns nothing

//@ fn (*Set).UpdateKey
//@   property C28
//@   requires s.keyMap != nil
//@   label C28.updatekey.new
//@   ensures (newKey in s.keyMap) && s.keyMap[newKey] == wayID
//@   label C28.updatekey.old
//@   ensures oldKey != newKey ==> !(oldKey in s.keyMap)
//@   label C28.updatekey.others
//@   ensures forall k int :: k != oldKey && k != newKey ==> ((k in s.keyMap) <==> old(k in s.keyMap)) && s.keyMap[k] == old(s.keyMap[k])
//@   assigns elems(s.keyMap)

//@ fn (*Set).Remove
//@   property C28
//@   label C28.remove
//@   ensures !(key in s.keyMap) && (forall k int :: k != key ==> ((k in s.keyMap) <==> old(k in s.keyMap)) && s.keyMap[k] == old(s.keyMap[k]))
//@   assigns elems(s.keyMap)

//@ fn (*Set).Evict
//@   property C28
//@   label C28.evict.empty
//@   ensures old(len(s.visitList)) == 0 ==> !ok && wayID == 0 && len(s.visitList) == 0
//@   label C28.evict.lru
//@   ensures old(len(s.visitList)) > 0 ==> ok && wayID == old(s.visitList[0]) && len(s.visitList) == old(len(s.visitList)) - 1
//@   label C28.evict.rest
//@   ensures forall j in 0..len(s.visitList) :: s.visitList[j] == old(s.visitList[j + 1])
//@   label C28.evict.wf
//@   ensures old(lruWF(s)) ==> lruWF(s)
//@   assigns s.visitList

//@ fn (*Set).Visit
//@   property C28
//@   requires lruWF(s) && 0 <= wayID && wayID < s.wayCount && s.visitCount < MaxUint64
//@   label C28.visit.last
//@   ensures len(s.visitList) > 0 && s.visitList[len(s.visitList) - 1] == wayID
//@   label C28.visit.len
//@   ensures len(s.visitList) == (firstIndex(old(s.visitList), wayID) == old(len(s.visitList)) ? old(len(s.visitList)) + 1 : old(len(s.visitList)))
//@   label C28.visit.before
//@   ensures forall j in 0..firstIndex(old(s.visitList), wayID) :: s.visitList[j] == old(s.visitList[j])
//@   label C28.visit.after
//@   ensures forall j in firstIndex(old(s.visitList), wayID)..len(s.visitList) - 1 :: s.visitList[j] == old(s.visitList[j + 1])
//@   label C28.visit.wf
//@   ensures lruWF(s)
//@   label C28.visit.frame
//@   ensures s.wayCount == old(s.wayCount) && s.keyMap == old(s.keyMap)
//@   label C28.visit.count
//@   ensures int(s.visitCount) == int(old(s.visitCount)) + 1 && s.lastVisits[wayID] == s.visitCount
//@   assigns s.visitList, s.visitCount, elems(s.visitList), elems(s.lastVisits)
//@   loop 0: invariant -1 <= rangeindex && rangeindex < len(s.visitList)
//@   loop 0: invariant forall j in 0..rangeindex + 1 :: s.visitList[j] != wayID

//@ fn NewSet
//@   property C28
//@   requires 0 <= numWays && numWays <= 1<<40
//@   label C28.new.shape
//@   ensures result.wayCount == numWays && len(result.visitList) == int(numWays) && len(result.lastVisits) == int(numWays) && result.keyMap != nil
//@   label C28.new.order
//@   ensures forall k in 0..int(numWays) :: result.visitList[k] == k
//@   label C28.new.wf
//@   ensures lruWF(result)
//@   loop 0: invariant lruWF(s) && 0 <= j && j <= numWays && len(s.visitList) == int(j) && s.wayCount == numWays && s.visitCount == j
//@   loop 0: invariant forall k in 0..int(j) :: s.visitList[k] == k
