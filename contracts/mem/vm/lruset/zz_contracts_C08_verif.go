//go:build verif

// Contracts for package lruset, property C08 (comment-only; read by /verif/engine, never compiled into a build).
// C08: Set's custom JSON codec is FIELD COMPLETE in both directions: MarshalJSON hands the encoder a setJSON whose every
// field is the corresponding field of the set, UnmarshalJSON copies every field of the decoded setJSON back (a nil key
// map becomes an empty one). With the trusted standard-library fact `json.Unmarshal(json.Marshal(dto)) == dto` for
// setJSON (ints, []int, uint64, []uint64, map[string]int) the round trip is the identity on the five fields.
package lruset

// the value handed to the encoder
//@ func c08Enc() = as(mkiface(jsonEncTyp, jsonEncVal), "setJSON")
// the very same slice (hence the same elements in the same order)
//@ pred c08SameSl(a, b) = ref(a) == ref(b) && off(a) == off(b) && len(a) == len(b)

//@ fn (Set).MarshalJSON
//@   property C08
//@   label C08.lru.marshal.once
//@   ensures jsonEncCount == old(jsonEncCount) + 1
//@   label C08.lru.marshal.wayCount
//@   ensures c08Enc().WayCount == s.wayCount
//@   label C08.lru.marshal.visitList
//@   ensures c08SameSl(c08Enc().VisitList, s.visitList) && (forall i in 0..len(s.visitList) :: c08Enc().VisitList[i] == s.visitList[i])
//@   label C08.lru.marshal.visitCount
//@   ensures c08Enc().VisitCount == s.visitCount
//@   label C08.lru.marshal.lastVisits
//@   ensures c08SameSl(c08Enc().LastVisits, s.lastVisits) && (forall i in 0..len(s.lastVisits) :: c08Enc().LastVisits[i] == s.lastVisits[i])
//@   label C08.lru.marshal.keyMap
//@   ensures c08Enc().KeyMap == s.keyMap
//@   assigns jsonEncTyp, jsonEncVal, jsonEncCount

//@ fn (*Set).UnmarshalJSON
//@   property C08
//@   requires s != nil
//@   label C08.lru.unmarshal.wayCount
//@   ensures result == nil ==> s.wayCount == dto.WayCount
//@   label C08.lru.unmarshal.visitList
//@   ensures result == nil ==> c08SameSl(s.visitList, dto.VisitList)
//@   label C08.lru.unmarshal.visitCount
//@   ensures result == nil ==> s.visitCount == dto.VisitCount
//@   label C08.lru.unmarshal.lastVisits
//@   ensures result == nil ==> c08SameSl(s.lastVisits, dto.LastVisits)
//@   label C08.lru.unmarshal.keyMap
//@   ensures result == nil && dto.KeyMap != nil ==> s.keyMap == dto.KeyMap
//@   label C08.lru.unmarshal.nilmap
//@   ensures result == nil && dto.KeyMap == nil ==> s.keyMap != nil && fresh(s.keyMap) && len(s.keyMap) == 0
//@   label C08.lru.unmarshal.error.untouched
//@   ensures result != nil ==> s.wayCount == old(s.wayCount) && s.visitCount == old(s.visitCount) && s.keyMap == old(s.keyMap) && ref(s.visitList) == old(ref(s.visitList)) && off(s.visitList) == old(off(s.visitList)) && len(s.visitList) == old(len(s.visitList)) && ref(s.lastVisits) == old(ref(s.lastVisits)) && off(s.lastVisits) == old(off(s.lastVisits)) && len(s.lastVisits) == old(len(s.lastVisits))
//@   assigns s.wayCount, s.visitList, s.visitCount, s.lastVisits, s.keyMap
