//go:build verif

// Contracts for package tlb, property C25, CONTROL path (comment-only; read by /verif/engine, never compiled).
// C25 parts stated here, per call: a control command is acknowledged exactly once, to ITS requester (Dst == req.Src,
// RspTo == req.ID); the drain acknowledgement is sent only once the data path has reached the pause state, and is addressed
// to the requester recorded when the drain was accepted; enable/pause/drain/unsupported never touch the sets, the MSHR, the
// responding entry or the pipeline (frame), so no pending translation is dropped by them; a handler that reports no
// progress changes nothing.
// Reuses the ghosts, iface/ext contracts and predicates of zz_contracts_C25_verif.go.
// NOT decided here: (*tlbMiddleware).handleDrain (drain -> pause only when nothing is in flight: it calls parseBottom and
// extractFromPipeline -> lookup, which go through the generic mem/mshr contract - engine blocker), (*ctrlMiddleware).handleReset
// (pipelining/queueing generic Clear, initSets, tracing.End*OnReset loops).
package tlb

//@ pred drainDue(m) = m.comp.State.PendingDrainRsp && m.comp.State.TLBState == tlbStatePause
//@ pred ctrlBookUnchanged(m) = unchanged(m.comp.State.PendingDrainRsp) && unchanged(m.comp.State.CurrentCmdID) && unchanged(m.comp.State.CurrentCmdSrc)

// ---- the asynchronous drain acknowledgement: ONE message, only in the pause state, to the requester of the drain ----
//@ fn (*ctrlMiddleware).completePendingDrain
//@   property C25
//@   requires tlbWF(m) && idGenOK()
//@   label C25.ctrl.drainack.progress
//@   ensures result <==> old(drainDue(m) && canSend[ctlP(m)])
//@   label C25.ctrl.drainack.onlypaused
//@   ensures result ==> old(m.comp.State.TLBState) == tlbStatePause && old(m.comp.State.PendingDrainRsp)
//@   label C25.ctrl.drainack.once
//@   ensures result ==> oneMoreSent(ctlP(m))
//@   label C25.ctrl.drainack.to
//@   ensures result ==> acked(m, memcontrolprotocol.CmdDrain, old(m.comp.State.CurrentCmdID), old(m.comp.State.CurrentCmdSrc), true, "")
//@   label C25.ctrl.drainack.cleared
//@   ensures result ==> !m.comp.State.PendingDrainRsp && m.comp.State.CurrentCmdID == 0 && m.comp.State.CurrentCmdSrc == ""
//@   label C25.ctrl.drainack.idle
//@   ensures !result ==> nothingSent() && ctrlBookUnchanged(m)
//@   label C25.ctrl.drainack.state
//@   ensures unchanged(m.comp.State.TLBState) && nothingRetrieved()
//@   label C25.ctrl.drainack.idgen
//@   ensures idGenOK()
//@   assigns m.comp.State.PendingDrainRsp, m.comp.State.CurrentCmdID, m.comp.State.CurrentCmdSrc, canSend, sendCnt, sentTyp, sentVal, issued, key("G|github.com/sarchlab/akita/v5/timing.idGenerator|"), key("G|github.com/sarchlab/akita/v5/timing.idGeneratorInstantiated|"), key("O|timing.sequentialIDGenerator|nextID"), key("O|timing.parallelIDGenerator|nextID")

// ---- enable: acknowledged once to the requester; state becomes enable ----
//@ fn (*ctrlMiddleware).performCtrlEnable
//@   property C25
//@   requires tlbWF(m) && idGenOK() && inTyp[ctlP(m)] != 0
//@   label C25.ctrl.enable.progress
//@   ensures result <==> old(canSend[ctlP(m)])
//@   label C25.ctrl.enable.once
//@   ensures result ==> oneMoreSent(ctlP(m)) && oneRetrieved(ctlP(m))
//@   label C25.ctrl.enable.ack
//@   ensures result ==> acked(m, memcontrolprotocol.CmdEnable, msg.ID, msg.Src, true, "")
//@   label C25.ctrl.enable.state
//@   ensures result ==> m.comp.State.TLBState == tlbStateEnable
//@   label C25.ctrl.enable.blocked
//@   ensures !result ==> nothingSent() && nothingRetrieved() && unchanged(m.comp.State.TLBState)
//@   label C25.ctrl.enable.idgen
//@   ensures idGenOK()
//@   assigns m.comp.State.TLBState, canSend, sendCnt, sentTyp, sentVal, inTyp, inVal, retrCnt, issued, key("G|github.com/sarchlab/akita/v5/timing.idGenerator|"), key("G|github.com/sarchlab/akita/v5/timing.idGeneratorInstantiated|"), key("O|timing.sequentialIDGenerator|nextID"), key("O|timing.parallelIDGenerator|nextID")

// ---- pause: acknowledged once to the requester; state becomes pause; nothing in flight is touched (frame) ----
//@ fn (*ctrlMiddleware).performCtrlPause
//@   property C25
//@   requires tlbWF(m) && idGenOK() && inTyp[ctlP(m)] != 0
//@   label C25.ctrl.pause.progress
//@   ensures result <==> old(canSend[ctlP(m)])
//@   label C25.ctrl.pause.once
//@   ensures result ==> oneMoreSent(ctlP(m)) && oneRetrieved(ctlP(m))
//@   label C25.ctrl.pause.ack
//@   ensures result ==> acked(m, memcontrolprotocol.CmdPause, msg.ID, msg.Src, true, "")
//@   label C25.ctrl.pause.state
//@   ensures result ==> m.comp.State.TLBState == tlbStatePause
//@   label C25.ctrl.pause.blocked
//@   ensures !result ==> nothingSent() && nothingRetrieved() && unchanged(m.comp.State.TLBState)
//@   label C25.ctrl.pause.idgen
//@   ensures idGenOK()
//@   assigns m.comp.State.TLBState, canSend, sendCnt, sentTyp, sentVal, inTyp, inVal, retrCnt, issued, key("G|github.com/sarchlab/akita/v5/timing.idGenerator|"), key("G|github.com/sarchlab/akita/v5/timing.idGeneratorInstantiated|"), key("O|timing.sequentialIDGenerator|nextID"), key("O|timing.parallelIDGenerator|nextID")

// ---- drain accepted: NO acknowledgement yet; the requester (ID, Src) is recorded for the later acknowledgement ----
//@ fn (*ctrlMiddleware).performCtrlDrain
//@   property C25
//@   requires tlbWF(m) && inTyp[ctlP(m)] != 0
//@   label C25.ctrl.drain.progress
//@   ensures result
//@   label C25.ctrl.drain.noack
//@   ensures nothingSent() && oneRetrieved(ctlP(m))
//@   label C25.ctrl.drain.state
//@   ensures m.comp.State.TLBState == tlbStateDrain && m.comp.State.PendingDrainRsp
//@   label C25.ctrl.drain.requester
//@   ensures m.comp.State.CurrentCmdID == msg.ID && m.comp.State.CurrentCmdSrc == msg.Src
//@   assigns m.comp.State.TLBState, m.comp.State.PendingDrainRsp, m.comp.State.CurrentCmdID, m.comp.State.CurrentCmdSrc, inTyp, inVal, retrCnt

// ---- an unsupported command (flush included: a TLB has nothing to write back) is refused once, to the requester ----
//@ fn (*ctrlMiddleware).handleUnsupported
//@   property C25
//@   requires tlbWF(m) && idGenOK() && inTyp[ctlP(m)] != 0
//@   label C25.ctrl.unsupported.progress
//@   ensures result <==> old(canSend[ctlP(m)])
//@   label C25.ctrl.unsupported.once
//@   ensures result ==> oneMoreSent(ctlP(m)) && oneRetrieved(ctlP(m))
//@   label C25.ctrl.unsupported.ack
//@   ensures result ==> acked(m, msg.Command, msg.ID, msg.Src, false, memcontrolprotocol.ErrUnsupported)
//@   label C25.ctrl.unsupported.blocked
//@   ensures !result ==> nothingSent() && nothingRetrieved()
//@   label C25.ctrl.unsupported.idgen
//@   ensures idGenOK()
//@   assigns canSend, sendCnt, sentTyp, sentVal, inTyp, inVal, retrCnt, issued, key("G|github.com/sarchlab/akita/v5/timing.idGenerator|"), key("G|github.com/sarchlab/akita/v5/timing.idGeneratorInstantiated|"), key("O|timing.sequentialIDGenerator|nextID"), key("O|timing.parallelIDGenerator|nextID")

// ---- the dispatcher. handleReset has no contract (out of reach, see above), so this function has NO frame clause: every
// clause below is about a head command other than Reset (the Reset path is unconstrained) ----
//@ func ctlHead(m) = mkiface(inTyp[ctlP(m)], inVal[ctlP(m)])
//@ pred isCReq(x) = hastype(x, "memcontrolprotocol.Req")
//@ func cReq(x) = as(x, "memcontrolprotocol.Req")
//@ func hd(m) = old(ctlHead(m))
//@ pred hdIs(m, c) = old(inTyp[ctlP(m)] != 0 && isCReq(ctlHead(m)) && cReq(ctlHead(m)).Command == c)
//@ pred hdSimple(m) = hdIs(m, memcontrolprotocol.CmdEnable) || hdIs(m, memcontrolprotocol.CmdPause) || hdIs(m, memcontrolprotocol.CmdDrain) || hdIs(m, memcontrolprotocol.CmdFlush)
//@ fn (*ctrlMiddleware).handleIncomingCommands
//@   property C25
//@   requires tlbWF(m) && idGenOK() && m.comp.spec.PageSize > 0 && setsShape(m.comp.State) && setsApart(m.comp.State)
//@   label C25.ctrl.dispatch.empty
//@   ensures old(inTyp[ctlP(m)]) == 0 ==> !result && nothingSent() && nothingRetrieved() && unchanged(m.comp.State.TLBState) && ctrlBookUnchanged(m)
//@   label C25.ctrl.dispatch.foreign
//@   ensures old(inTyp[ctlP(m)]) != 0 && !isCReq(hd(m)) ==> result && nothingSent() && oneRetrieved(ctlP(m)) && unchanged(m.comp.State.TLBState) && ctrlBookUnchanged(m)
//@   label C25.ctrl.dispatch.enable
//@   ensures hdIs(m, memcontrolprotocol.CmdEnable) ==> (result <==> old(canSend[ctlP(m)])) && (result ==> oneMoreSent(ctlP(m)) && oneRetrieved(ctlP(m)) && acked(m, memcontrolprotocol.CmdEnable, old(cReq(ctlHead(m)).ID), old(cReq(ctlHead(m)).Src), true, "") && m.comp.State.TLBState == tlbStateEnable)
//@   label C25.ctrl.dispatch.pause
//@   ensures hdIs(m, memcontrolprotocol.CmdPause) ==> (result <==> old(canSend[ctlP(m)])) && (result ==> oneMoreSent(ctlP(m)) && oneRetrieved(ctlP(m)) && acked(m, memcontrolprotocol.CmdPause, old(cReq(ctlHead(m)).ID), old(cReq(ctlHead(m)).Src), true, "") && m.comp.State.TLBState == tlbStatePause)
//@   label C25.ctrl.dispatch.drain
//@   ensures hdIs(m, memcontrolprotocol.CmdDrain) ==> result && nothingSent() && oneRetrieved(ctlP(m)) && m.comp.State.TLBState == tlbStateDrain && m.comp.State.PendingDrainRsp && m.comp.State.CurrentCmdID == old(cReq(ctlHead(m)).ID) && m.comp.State.CurrentCmdSrc == old(cReq(ctlHead(m)).Src)
//@   label C25.ctrl.dispatch.flush
//@   ensures hdIs(m, memcontrolprotocol.CmdFlush) ==> (result <==> old(canSend[ctlP(m)])) && (result ==> oneMoreSent(ctlP(m)) && oneRetrieved(ctlP(m)) && acked(m, memcontrolprotocol.CmdFlush, old(cReq(ctlHead(m)).ID), old(cReq(ctlHead(m)).Src), false, memcontrolprotocol.ErrUnsupported)) && unchanged(m.comp.State.TLBState)
//@   label C25.ctrl.dispatch.invalidate
//@   ensures hdIs(m, memcontrolprotocol.CmdInvalidate) ==> (result <==> old(canSend[ctlP(m)])) && (result ==> oneMoreSent(ctlP(m)) && oneRetrieved(ctlP(m))) && unchanged(m.comp.State.TLBState)
//@   label C25.ctrl.dispatch.invalidate.ack
//@   ensures hdIs(m, memcontrolprotocol.CmdInvalidate) && result && old(paused(m)) ==> acked(m, memcontrolprotocol.CmdInvalidate, old(cReq(ctlHead(m)).ID), old(cReq(ctlHead(m)).Src), true, "")
//@   label C25.ctrl.dispatch.invalidate.gone
//@   ensures hdIs(m, memcontrolprotocol.CmdInvalidate) && result && old(paused(m)) && old(len(cReq(ctlHead(m)).Addresses)) == 0 ==> forall a in 0..len(m.comp.State.Sets) :: setCleanAll(m.comp.State.Sets[a], old(cReq(ctlHead(m)).PID))
//@   label C25.ctrl.dispatch.blocked
//@   ensures !result && (hdSimple(m) || hdIs(m, memcontrolprotocol.CmdInvalidate)) ==> nothingSent() && nothingRetrieved() && unchanged(m.comp.State.TLBState) && ctrlBookUnchanged(m)
//@   label C25.ctrl.dispatch.book
//@   ensures hdIs(m, memcontrolprotocol.CmdEnable) || hdIs(m, memcontrolprotocol.CmdPause) || hdIs(m, memcontrolprotocol.CmdFlush) || hdIs(m, memcontrolprotocol.CmdInvalidate) ==> ctrlBookUnchanged(m)

// ---- the control tick: while the data path is still draining NO further control command is accepted and nothing is
// acknowledged (the drain acknowledgement waits for the pause state). No frame clause (handleIncomingCommands has none) ----
//@ fn (*ctrlMiddleware).Tick
//@   property C25
//@   requires tlbWF(m) && idGenOK() && m.comp.spec.PageSize > 0 && setsShape(m.comp.State) && setsApart(m.comp.State)
//@   label C25.ctrl.tick.draining
//@   ensures old(m.comp.State.TLBState == tlbStateDrain) ==> !result && nothingSent() && nothingRetrieved() && unchanged(m.comp.State.TLBState) && ctrlBookUnchanged(m)
//@   label C25.ctrl.tick.ackdue
//@   ensures old(drainDue(m) && canSend[ctlP(m)]) ==> result
