//go:build verif

// Contracts for package tlb, property C25 (comment-only; read by /verif/engine, never compiled into a build).
// C25 (per-step part): a TLB set maps the key of (pid, virtual page) to a way (lruset, C28) and the way's block holds the
// page; a lookup returns the entry stored for exactly (pid, virtual page); a hit answers the requester once with that page;
// a fill stores the page under its own (pid, vaddr); an invalidate leaves no valid entry matching its filter.
// NOT decided here: everything that goes through the MSHR (lookup, fetchBottom, parseBottom, processTLBMSHRHit) - engine
// blocker, see /verif/contracts/mem/mshr/zz_contracts_C25_verif.go - and the history part of C25.
package tlb

// ---- ghost view of the ports: same names, meaning and TRUSTED contracts as mem/idealmemcontroller's C18 file ----
//@ ghost var canSend set
//@ ghost var sendCnt map
//@ ghost var sentTyp map2
//@ ghost var sentVal map2
//@ ghost var inTyp map
//@ ghost var inVal map
//@ ghost var retrCnt map
//@ ghost var issued set

// ---- trusted: messaging.Port is an interface (any implementation); sequential reading of one component's tick ----
//@ iface messaging.Port.CanSend()
//@   trusted
//@   ensures result <==> canSend[ifaceval(self)]
//@   assigns nothing
//@ iface messaging.Port.Send(msg)
//@   trusted
//@   panics !canSend[ifaceval(self)]
//@   ensures sendCnt == upd(old(sendCnt), ifaceval(self), old(sendCnt)[ifaceval(self)] + 1)
//@   ensures sentTyp == upd(old(sentTyp), ifaceval(self), upd(old(sentTyp)[ifaceval(self)], old(sendCnt)[ifaceval(self)], typeid(msg)))
//@   ensures sentVal == upd(old(sentVal), ifaceval(self), upd(old(sentVal)[ifaceval(self)], old(sendCnt)[ifaceval(self)], ifaceval(msg)))
//@   assigns canSend, sendCnt, sentTyp, sentVal
//@ iface messaging.Port.PeekIncoming()
//@   trusted
//@   ensures typeid(result) == inTyp[ifaceval(self)] && ifaceval(result) == inVal[ifaceval(self)] && (typeid(result) == 0 ==> ifaceval(result) == 0)
//@   assigns nothing
//@ iface messaging.Port.RetrieveIncoming()
//@   trusted
//@   ensures typeid(result) == old(inTyp)[ifaceval(self)] && ifaceval(result) == old(inVal)[ifaceval(self)] && (typeid(result) == 0 ==> ifaceval(result) == 0)
//@   ensures retrCnt == upd(old(retrCnt), ifaceval(self), old(retrCnt)[ifaceval(self)] + (old(inTyp)[ifaceval(self)] == 0 ? 0 : 1))
//@   ensures forall p int :: p != ifaceval(self) ==> inTyp[p] == old(inTyp)[p] && inVal[p] == old(inVal)[p]
//@   assigns inTyp, inVal, retrCnt
//@ ufunc portRemote(p) int
//@ iface messaging.Port.AsRemote()
//@   trusted
//@   assigns nothing
//@   ensures result == portRemote(self)
//@ iface messaging.Port.Name()
//@   trusted
//@   assigns nothing
//@ ext messaging.(PortOwnerBase).GetPortByName(po, name)
//@   trusted
//@   pure
//@   panics !(name in po.ports)
//@   ensures result == po.ports[name]
// trusted one-line getters of modeling.Component (return c.spec / c.resources)
//@ ext modeling.(*Component[S, T, R]).Spec(c)
//@   trusted
//@   pure
//@   ensures result == c.spec
// tracing hooks are arbitrary user callbacks: assumed not to touch the component, its ports or the ID generator
//@ ext tracing.AddMilestone(domain, ms)
//@   trusted
//@   assigns nothing
//@ ext tracing.MsgIDAtReceiver(msg, domain)
//@   trusted
//@   assigns nothing
//@ ext tracing.MsgIDAtIncomingBuffer(msg, domain)
//@   trusted
//@   assigns nothing
//@ ext tracing.TraceReqReceive(domain, msg)
//@   trusted
//@   assigns nothing
//@ ext tracing.TraceReqInitiate(domain, msg, parentID)
//@   trusted
//@   assigns nothing
//@ ext tracing.TraceReqFinalize(domain, msg)
//@   trusted
//@   assigns nothing
//@ ext tracing.TraceReqComplete(domain, msg)
//@   trusted
//@   assigns nothing
// the ID generator is an interface value (C41)
//@ iface timing.IDGenerator.Generate()
//@   trusted
//@   ensures !old(issued)[result] && issued == upd(old(issued), result, true)
//@   assigns issued, key("O|timing.sequentialIDGenerator|nextID"), key("O|timing.parallelIDGenerator|nextID")
//@ pred idGenOK() = timing.idGeneratorInstantiated ==> timing.idGenerator != nil
//@ ext tracing.AddTaskTag(domain, tag)
//@   trusted
//@   assigns nothing
//@ ext tracing.ForgetMsgIDAtReceiver(msgID, domain)
//@   trusted
//@   assigns nothing
//@ ext modeling.(*TickingComponent).Name(c)
//@   trusted
//@   pure

// ---- TRUSTED (standard library): lruset.KeyString(a, b) is fmt.Sprintf("%d%016x", a, b), opaque to the engine. Assumed:
// it is a function of (a, b), and it is injective (b is a uint64, so "%016x" prints EXACTLY 16 hex digits: the last 16
// characters are b, the rest is the decimal a). keyPid/keyVA are the two projections.
//@ ufunc keyOf(a, b) int
//@ ufunc keyPid(k) int
//@ ufunc keyVA(k) int
//@ ext mem/vm/lruset.KeyString(a, b)
//@   trusted
//@   pure
//@   ensures result == keyOf(a, b) && keyPid(result) == a && keyVA(result) == b

// ---- a set: key -> way (lruset keyMap), way -> block -> page ----
//@ pred samePage(a, b) = a.PID == b.PID && a.PAddr == b.PAddr && a.VAddr == b.VAddr && a.PageSize == b.PageSize && a.Valid == b.Valid && a.DeviceID == b.DeviceID && a.Unified == b.Unified && a.IsMigrating == b.IsMigrating && a.IsPinned == b.IsPinned
//@ func pkey(p) = keyOf(p.PID, p.VAddr)
// shape: every mapped way is a block index, block j carries way id j
//@ pred setWF(s) = s.LRU.keyMap != nil && (forall k int :: (k in s.LRU.keyMap) ==> 0 <= s.LRU.keyMap[k] && s.LRU.keyMap[k] < len(s.Blocks)) && (forall j in 0..len(s.Blocks) :: s.Blocks[j].WayID == j)
// coherence: a key leads to the block that holds the page of exactly that key
//@ pred coherent(s) = forall k int :: (k in s.LRU.keyMap) ==> pkey(s.Blocks[s.LRU.keyMap[k]].Page) == k && keyPid(k) == s.Blocks[s.LRU.keyMap[k]].Page.PID && keyVA(k) == s.Blocks[s.LRU.keyMap[k]].Page.VAddr

//@ fn setLookup
//@   property C25
//@   requires s != nil && setWF(s)
//@   label C25.tlb.set.lookup.found
//@   ensures found <==> (keyOf(pid, vAddr) in s.LRU.keyMap)
//@   label C25.tlb.set.lookup.entry
//@   ensures found ==> samePage(page, s.Blocks[s.LRU.keyMap[keyOf(pid, vAddr)]].Page) && wayID == s.LRU.keyMap[keyOf(pid, vAddr)]
//@   label C25.tlb.set.lookup.exact
//@   ensures found && coherent(s) ==> page.PID == pid && page.VAddr == vAddr
//@   label C25.tlb.set.lookup.miss
//@   ensures !found ==> wayID == 0 && !page.Valid && page.PAddr == 0
//@   assigns nothing

//@ fn setUpdate
//@   property C25
//@   requires s != nil && s.LRU.keyMap != nil && 0 <= wayID && wayID < len(s.Blocks)
//@   label C25.tlb.set.update.block
//@   ensures samePage(s.Blocks[wayID].Page, page) && s.Blocks[wayID].WayID == old(s.Blocks[wayID].WayID)
//@   label C25.tlb.set.update.key
//@   ensures (pkey(page) in s.LRU.keyMap) && s.LRU.keyMap[pkey(page)] == wayID
//@   label C25.tlb.set.update.oldkey
//@   ensures old(pkey(s.Blocks[wayID].Page)) != pkey(page) ==> !(old(pkey(s.Blocks[wayID].Page)) in s.LRU.keyMap)
//@   label C25.tlb.set.update.otherblocks
//@   ensures len(s.Blocks) == old(len(s.Blocks)) && (forall j in 0..len(s.Blocks) :: j != wayID ==> samePage(s.Blocks[j].Page, old(s.Blocks[j].Page)) && s.Blocks[j].WayID == old(s.Blocks[j].WayID))
//@   label C25.tlb.set.update.otherkeys
//@   ensures forall k int :: k != pkey(page) && k != old(pkey(s.Blocks[wayID].Page)) ==> ((k in s.LRU.keyMap) <==> old(k in s.LRU.keyMap)) && s.LRU.keyMap[k] == old(s.LRU.keyMap[k])
//@   label C25.tlb.set.update.wf
//@   ensures old(setWF(s)) ==> setWF(s)
//@   label C25.tlb.set.update.coherent
//@   ensures old(setWF(s) && coherent(s)) ==> coherent(s)
//@   assigns elems(s.Blocks), elems(s.LRU.keyMap)

//@ fn setEvict
//@   property C25
//@   requires s != nil
//@   label C25.tlb.set.evict
//@   ensures (ok <==> old(len(s.LRU.visitList)) > 0) && (ok ==> wayID == old(s.LRU.visitList[0]))
//@   label C25.tlb.set.evict.wf
//@   ensures old(lruset.lruWF(s.LRU)) ==> lruset.lruWF(s.LRU) && (ok ==> 0 <= wayID && wayID < s.LRU.wayCount)
//@   assigns s.LRU.visitList

//@ fn setVisit
//@   property C25
//@   requires s != nil && lruset.lruWF(s.LRU) && 0 <= wayID && wayID < s.LRU.wayCount && s.LRU.visitCount < MaxUint64
//@   label C25.tlb.set.visit.mru
//@   ensures len(s.LRU.visitList) > 0 && s.LRU.visitList[len(s.LRU.visitList) - 1] == wayID
//@   label C25.tlb.set.visit.wf
//@   ensures lruset.lruWF(s.LRU) && s.LRU.keyMap == old(s.LRU.keyMap) && s.LRU.wayCount == old(s.LRU.wayCount)
//@   assigns s.LRU.visitList, s.LRU.visitCount, elems(s.LRU.visitList), elems(s.LRU.lastVisits)

//@ fn vAddrToSetID
//@   property C25
//@   requires spec.PageSize > 0 && spec.NumSets > 0
//@   label C25.tlb.setid
//@   ensures 0 <= setID && setID < spec.NumSets && spec.PageSize * (setID + spec.NumSets * ((int(vAddr) / int(spec.PageSize)) / spec.NumSets)) <= int(vAddr)
//@   assigns nothing

// ---- the component ----
//@ func topP(m) = ifaceval(m.comp.TickingComponent.PortOwnerBase.ports["Top"])
//@ func botP(m) = ifaceval(m.comp.TickingComponent.PortOwnerBase.ports["Bottom"])
//@ func ctlP(m) = ifaceval(m.comp.TickingComponent.PortOwnerBase.ports["Control"])
//@ pred tlbWF(m) = m.comp != nil && m.comp.TickingComponent != nil && m.comp.TickingComponent.PortOwnerBase != nil && ("Top" in m.comp.TickingComponent.PortOwnerBase.ports) && ("Bottom" in m.comp.TickingComponent.PortOwnerBase.ports) && ("Control" in m.comp.TickingComponent.PortOwnerBase.ports) && topP(m) != botP(m) && topP(m) != ctlP(m) && botP(m) != ctlP(m)
//@ fn (*tlbMiddleware).topPort
//@   property C25
//@   requires tlbWF(m)
//@   ensures result == m.comp.TickingComponent.PortOwnerBase.ports["Top"]
//@   assigns nothing
//@ fn (*tlbMiddleware).bottomPort
//@   property C25
//@   requires tlbWF(m)
//@   ensures result == m.comp.TickingComponent.PortOwnerBase.ports["Bottom"]
//@   assigns nothing
//@ fn (*ctrlMiddleware).controlPort
//@   property C25
//@   requires tlbWF(m)
//@   ensures result == m.comp.TickingComponent.PortOwnerBase.ports["Control"]
//@   assigns nothing

// ---- views of the ports ----
//@ func sentAt(p, n) = mkiface(sentTyp[p][n], sentVal[p][n])
//@ func sentOn(p) = sentAt(p, sendCnt[p] - 1)
//@ pred oneMoreSent(p) = sendCnt == upd(old(sendCnt), p, old(sendCnt)[p] + 1) && sentTyp == upd(old(sentTyp), p, upd(old(sentTyp)[p], old(sendCnt)[p], sentTyp[p][old(sendCnt)[p]])) && sentVal == upd(old(sentVal), p, upd(old(sentVal)[p], old(sendCnt)[p], sentVal[p][old(sendCnt)[p]]))
//@ pred nothingSent() = sendCnt == old(sendCnt) && sentTyp == old(sentTyp) && sentVal == old(sentVal) && canSend == old(canSend)
//@ pred nothingRetrieved() = inTyp == old(inTyp) && inVal == old(inVal) && retrCnt == old(retrCnt)
//@ pred oneRetrieved(p) = retrCnt == upd(old(retrCnt), p, old(retrCnt)[p] + 1)
//@ pred isTRsp(x) = hastype(x, "vmprotocol.TranslationRsp")
//@ func tRsp(x) = as(x, "vmprotocol.TranslationRsp")
// the message sent last on the Top port answers request (id, src) with page pg
//@ pred answersWith(m, id, src, pg) = isTRsp(sentOn(topP(m))) && samePage(tRsp(sentOn(topP(m))).Page, pg) && tRsp(sentOn(topP(m))).RspTo == id && tRsp(sentOn(topP(m))).Dst == src && tRsp(sentOn(topP(m))).Src == portRemote(m.comp.TickingComponent.PortOwnerBase.ports["Top"])

// ---- one translation response to the requester: the given page, the request's ID and source ----
//@ fn (*tlbMiddleware).sendRspToTop
//@   property C25
//@   requires tlbWF(m) && idGenOK()
//@   label C25.tlb.rsp.progress
//@   ensures result <==> old(canSend[topP(m)])
//@   label C25.tlb.rsp.once
//@   ensures result ==> oneMoreSent(topP(m))
//@   label C25.tlb.rsp.page
//@   ensures result ==> answersWith(m, msg.ID, msg.Src, page)
//@   label C25.tlb.rsp.blocked
//@   ensures !result ==> nothingSent()
//@   label C25.tlb.rsp.idgen
//@   ensures idGenOK()
//@   assigns canSend, sendCnt, sentTyp, sentVal, issued, key("G|github.com/sarchlab/akita/v5/timing.idGenerator|"), key("G|github.com/sarchlab/akita/v5/timing.idGeneratorInstantiated|"), key("O|timing.sequentialIDGenerator|nextID"), key("O|timing.parallelIDGenerator|nextID")

// ---- a hit answers once with the page found, then marks the way most recently used; blocks and keys are not touched ----
//@ fn (*tlbMiddleware).handleTranslationHit
//@   property C25
//@   requires tlbWF(m) && idGenOK() && 0 <= setID && setID < len(m.comp.State.Sets)
//@   requires lruset.lruWF(m.comp.State.Sets[setID].LRU) && 0 <= wayID && wayID < m.comp.State.Sets[setID].LRU.wayCount && m.comp.State.Sets[setID].LRU.visitCount < MaxUint64
//@   label C25.tlb.hit.progress
//@   ensures result <==> old(canSend[topP(m)])
//@   label C25.tlb.hit.once
//@   ensures result ==> oneMoreSent(topP(m))
//@   label C25.tlb.hit.page
//@   ensures result ==> answersWith(m, msg.ID, msg.Src, page)
//@   label C25.tlb.hit.blocked
//@   ensures !result ==> nothingSent() && unchanged(m.comp.State.Sets[setID].LRU.visitList) && unchanged(m.comp.State.Sets[setID].LRU.visitCount)
//@   label C25.tlb.hit.mru
//@   ensures result ==> len(m.comp.State.Sets[setID].LRU.visitList) > 0 && m.comp.State.Sets[setID].LRU.visitList[len(m.comp.State.Sets[setID].LRU.visitList) - 1] == wayID && lruset.lruWF(m.comp.State.Sets[setID].LRU)
//@   label C25.tlb.hit.idgen
//@   ensures idGenOK()
//@   assigns m.comp.State.Sets[setID].LRU.visitList, m.comp.State.Sets[setID].LRU.visitCount, elems(m.comp.State.Sets[setID].LRU.visitList), elems(m.comp.State.Sets[setID].LRU.lastVisits), canSend, sendCnt, sentTyp, sentVal, issued, key("G|github.com/sarchlab/akita/v5/timing.idGenerator|"), key("G|github.com/sarchlab/akita/v5/timing.idGeneratorInstantiated|"), key("O|timing.sequentialIDGenerator|nextID"), key("O|timing.parallelIDGenerator|nextID")

// ---- the fetched page is handed to every coalesced requester, ONE response per call, each requester once (it is popped) ----
//@ func rq(m) = m.comp.State.RespondingMSHRData.Requests
//@ pred canRespond(m) = m.comp.State.HasRespondingMSHR && len(rq(m)) > 0
//@ fn (*tlbMiddleware).respondMSHREntry
//@   property C25
//@   requires tlbWF(m) && idGenOK()
//@   label C25.tlb.respond.progress
//@   ensures result <==> old(canRespond(m) && canSend[topP(m)])
//@   label C25.tlb.respond.once
//@   ensures result ==> oneMoreSent(topP(m))
//@   label C25.tlb.respond.page
//@   ensures result ==> answersWith(m, old(rq(m)[0].ID), old(rq(m)[0].Src), old(m.comp.State.RespondingMSHRData.Page))
//@   label C25.tlb.respond.pop
//@   ensures result ==> len(rq(m)) == old(len(rq(m))) - 1 && ref(rq(m)) == old(ref(rq(m))) && off(rq(m)) == old(off(rq(m))) + 1 && (m.comp.State.HasRespondingMSHR <==> len(rq(m)) > 0)
//@   label C25.tlb.respond.idle
//@   ensures !result ==> nothingSent() && unchanged(len(rq(m))) && unchanged(ref(rq(m))) && unchanged(off(rq(m)))
//@   label C25.tlb.respond.blocked
//@   ensures !result && old(canRespond(m)) ==> unchanged(m.comp.State.HasRespondingMSHR)
//@   label C25.tlb.respond.pagekept
//@   ensures samePage(m.comp.State.RespondingMSHRData.Page, old(m.comp.State.RespondingMSHRData.Page))
//@   label C25.tlb.respond.idgen
//@   ensures idGenOK()
//@   assigns m.comp.State.HasRespondingMSHR, m.comp.State.RespondingMSHRData.Requests, canSend, sendCnt, sentTyp, sentVal, issued, key("G|github.com/sarchlab/akita/v5/timing.idGenerator|"), key("G|github.com/sarchlab/akita/v5/timing.idGeneratorInstantiated|"), key("O|timing.sequentialIDGenerator|nextID"), key("O|timing.parallelIDGenerator|nextID")

// ---- MSHR wrappers. mem/mshr.Find/IsPresent/Remove are verified over uninterpreted entry attributes (ePID/eAddr of an entry
// VALUE); at the instantiated call mshr.Find[mshrEntryState] the engine cannot relate them to mshrEntryState.PID/.VAddr
// ("ufunc ePID: argument e must be a scalar or an interface value"), and applying mem/mshr.Find's contract in this package is a spec error; the
// MSHR-dependent functions (mshrGetEntry, lookup, processTLBMSHRHit, fetchBottom, parseBottom, mshrAdd, mshrRemove) are NOT decided ----
//@ fn mshrIsFull
//@   property C25
//@   label C25.tlb.mshr.full
//@   ensures result <==> len(entries) >= capacity
//@   assigns nothing
//@ fn mshrIsEmpty
//@   property C25
//@   label C25.tlb.mshr.empty
//@   ensures result <==> len(entries) == 0
//@   assigns nothing

// ---- invalidation: afterwards NO block of ANY set holds a valid page matching the filter (pid 0 = every process, no
// address = every page; an address matches the page whose VAddr is its PageSize-aligned base) ----
//@ func alignP(a, ps) = (int(a) / int(ps)) * int(ps)
//@ pred hitBy(pg, pid, nAddr, ma) = pg.Valid && (pid == 0 || pg.PID == pid) && (nAddr == 0 || ((pg.VAddr in ma) && ma[pg.VAddr]))
//@ pred setClean(s, pid, nAddr, ma) = forall w in 0..len(s.Blocks) :: !hitBy(s.Blocks[w].Page, pid, nAddr, ma)
//@ pred setCleanAll(s, pid) = forall w in 0..len(s.Blocks) :: !(s.Blocks[w].Page.Valid && (pid == 0 || s.Blocks[w].Page.PID == pid))
//@ pred setCleanAt(s, pid, va) = forall w in 0..len(s.Blocks) :: !(s.Blocks[w].Page.Valid && (pid == 0 || s.Blocks[w].Page.PID == pid) && s.Blocks[w].Page.VAddr == va)
//@ pred setsShape(state) = forall a in 0..len(state.Sets) :: state.Sets[a].LRU.keyMap != nil
// the sets were built one by one (initSets / JSON load): their block arrays and key maps are pairwise distinct
//@ pred setsApart(state) = forall a in 0..len(state.Sets) :: forall b in 0..len(state.Sets) :: a != b ==> ref(state.Sets[a].Blocks) != ref(state.Sets[b].Blocks) && state.Sets[a].LRU.keyMap != state.Sets[b].LRU.keyMap
//@ fn invalidateEntries
//@   property C25
//@   requires state != nil && spec.PageSize > 0 && setsShape(state) && setsApart(state)
//@   label C25.tlb.inval.gone.addr
//@   ensures forall j in 0..len(addresses) :: forall a in 0..len(state.Sets) :: setCleanAt(state.Sets[a], pid, alignP(addresses[j], spec.PageSize))
//@   label C25.tlb.inval.gone.all
//@   ensures len(addresses) == 0 ==> forall a in 0..len(state.Sets) :: setCleanAll(state.Sets[a], pid)
//@   label C25.tlb.inval.shape
//@   ensures len(state.Sets) == old(len(state.Sets)) && setsShape(state)
//@   assigns key("E|mem/vm/tlb.blockState|"), key("M|map[string]int|")
//@   loop 0: invariant -1 <= rangeindex && rangeindex < len(addresses) && matchAddr != nil && len(state.Sets) == old(len(state.Sets)) && setsShape(state) && setsApart(state)
//@   loop 0: invariant forall j in 0..rangeindex + 1 :: (alignP(addresses[j], spec.PageSize) in matchAddr) && matchAddr[alignP(addresses[j], spec.PageSize)]
//@   loop 1: invariant -1 <= rangeindex && rangeindex < len(state.Sets) && len(state.Sets) == old(len(state.Sets)) && setsShape(state) && setsApart(state)
//@   loop 1: invariant forall a in 0..rangeindex + 1 :: setClean(state.Sets[a], pid, len(addresses), matchAddr)
//@   loop 2: invariant -1 <= rangeindex && rangeindex < len(set.Blocks) && len(state.Sets) == old(len(state.Sets)) && setsShape(state) && setsApart(state)
//@   loop 2: invariant forall w in 0..rangeindex + 1 :: !hitBy(set.Blocks[w].Page, pid, len(addresses), matchAddr)
//@   loop 2: invariant 0 <= si && si < len(state.Sets) && ref(set.Blocks) == ref(state.Sets[si].Blocks) && len(set.Blocks) == len(state.Sets[si].Blocks) && off(set.Blocks) == off(state.Sets[si].Blocks) && set.LRU.keyMap == state.Sets[si].LRU.keyMap
//@   loop 2: invariant forall a in 0..si :: setClean(state.Sets[a], pid, len(addresses), matchAddr)

// ---- the invalidate handler: only when paused; ONE acknowledgement, sent after the entries are gone ----
//@ pred isCRsp(x) = hastype(x, "memcontrolprotocol.Rsp")
//@ func cRsp(x) = as(x, "memcontrolprotocol.Rsp")
//@ pred acked(m, cmd, id, src, success, err) = isCRsp(sentOn(ctlP(m))) && cRsp(sentOn(ctlP(m))).Command == cmd && cRsp(sentOn(ctlP(m))).RspTo == id && cRsp(sentOn(ctlP(m))).Dst == src && cRsp(sentOn(ctlP(m))).Success == success && cRsp(sentOn(ctlP(m))).Error == err
//@ fn makeCtrlRsp
//@   property C25
//@   requires idGenOK()
//@   label C25.tlb.ctrl.mkrsp
//@   ensures result.Command == cmd && result.Success == success && result.Error == errStr && result.Dst == dst && result.RspTo == rspTo && result.Src == portRemote(port)
//@   label C25.tlb.ctrl.mkrsp.idgen
//@   ensures idGenOK()
//@   assigns issued, key("G|github.com/sarchlab/akita/v5/timing.idGenerator|"), key("G|github.com/sarchlab/akita/v5/timing.idGeneratorInstantiated|"), key("O|timing.sequentialIDGenerator|nextID"), key("O|timing.parallelIDGenerator|nextID")

//@ fn (*ctrlMiddleware).rejectMustBePaused
//@   property C25
//@   requires tlbWF(m) && idGenOK() && inTyp[ctlP(m)] != 0
//@   label C25.tlb.reject.progress
//@   ensures result <==> old(canSend[ctlP(m)])
//@   label C25.tlb.reject.once
//@   ensures result ==> oneMoreSent(ctlP(m)) && oneRetrieved(ctlP(m)) && acked(m, msg.Command, msg.ID, msg.Src, false, memcontrolprotocol.ErrMustBePausedOrDrained)
//@   label C25.tlb.reject.blocked
//@   ensures !result ==> nothingSent() && nothingRetrieved()
//@   label C25.tlb.reject.idgen
//@   ensures idGenOK()
//@   assigns canSend, sendCnt, sentTyp, sentVal, inTyp, inVal, retrCnt, issued, key("G|github.com/sarchlab/akita/v5/timing.idGenerator|"), key("G|github.com/sarchlab/akita/v5/timing.idGeneratorInstantiated|"), key("O|timing.sequentialIDGenerator|nextID"), key("O|timing.parallelIDGenerator|nextID")

//@ pred paused(m) = m.comp.State.TLBState == tlbStatePause
//@ fn (*ctrlMiddleware).handleInvalidate
//@   property C25
//@   requires tlbWF(m) && idGenOK() && inTyp[ctlP(m)] != 0 && m.comp.spec.PageSize > 0 && setsShape(m.comp.State) && setsApart(m.comp.State)
//@   label C25.tlb.invalidate.progress
//@   ensures result <==> old(canSend[ctlP(m)])
//@   label C25.tlb.invalidate.once
//@   ensures result ==> oneMoreSent(ctlP(m)) && oneRetrieved(ctlP(m))
//@   label C25.tlb.invalidate.blocked
//@   ensures !result ==> nothingSent() && nothingRetrieved()
//@   label C25.tlb.invalidate.ack
//@   ensures result && old(paused(m)) ==> acked(m, memcontrolprotocol.CmdInvalidate, msg.ID, msg.Src, true, "")
//@   label C25.tlb.invalidate.refused
//@   ensures result && !old(paused(m)) ==> acked(m, msg.Command, msg.ID, msg.Src, false, memcontrolprotocol.ErrMustBePausedOrDrained)
//@   label C25.tlb.invalidate.gone.all
//@   ensures result && old(paused(m)) && len(msg.Addresses) == 0 ==> forall a in 0..len(m.comp.State.Sets) :: setCleanAll(m.comp.State.Sets[a], msg.PID)
//@   label C25.tlb.invalidate.gone.addr
//@   ensures result && old(paused(m)) ==> forall j in 0..len(msg.Addresses) :: forall a in 0..len(m.comp.State.Sets) :: setCleanAt(m.comp.State.Sets[a], msg.PID, alignP(msg.Addresses[j], m.comp.spec.PageSize))
//@   label C25.tlb.invalidate.state
//@   ensures unchanged(m.comp.State.TLBState)
//@   label C25.tlb.invalidate.idgen
//@   ensures idGenOK()
//@   assigns key("E|mem/vm/tlb.blockState|"), key("M|map[string]int|"), canSend, sendCnt, sentTyp, sentVal, inTyp, inVal, retrCnt, issued, key("G|github.com/sarchlab/akita/v5/timing.idGenerator|"), key("G|github.com/sarchlab/akita/v5/timing.idGeneratorInstantiated|"), key("O|timing.sequentialIDGenerator|nextID"), key("O|timing.parallelIDGenerator|nextID")
