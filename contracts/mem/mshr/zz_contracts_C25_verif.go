//go:build verif

// Contracts for package mshr, property C25 (comment-only; read by /verif/engine, never compiled into a build).
package mshr

//@ fn IsFull
//@   property C25
//@   label C25.mshr.full
//@   ensures result <==> len(entries) >= capacity
//@   assigns nothing

//@ fn IsEmpty
//@   property C25
//@   label C25.mshr.empty
//@   ensures result <==> len(entries) == 0
//@   assigns nothing

// NOT under contract (engine blocker): Find / IsPresent / Remove call e.GetPID() / e.GetAddress() on a value of the TYPE
// PARAMETER E; the engine keys interface-method contracts by a NAMED type (specdb.ifaceSpec: namedOf(E) == nil), so the call
// "E.GetPID" can never be given a contract and havocs the heap.
