//go:build verif

// Contracts for package mshr, property C25 (comment-only; read by /verif/engine, never compiled into a build).
package mshr

//@ fn IsFull
//@   property C25
//@   label C25.mshr.full
//@   ensures result <==> len(entries) >= capacity
//@   assigns nothing

//@ fn IsEmpty
//@   property C25
//@   label C25.mshr.empty
//@   ensures result <==> len(entries) == 0
//@   assigns nothing

// Entry is a type-parameter constraint: its two getters are pure functions of the entry value (trusted: any implementation)
//@ ufunc ePID(e) int
//@ ufunc eAddr(e) int
//@ iface mshr.Entry.GetPID()
//@   trusted
//@   pure
//@   ensures result == ePID(self)
//@ iface mshr.Entry.GetAddress()
//@   trusted
//@   pure
//@   ensures result == eAddr(self)
//@ pred eIs(e, pid, addr) = ePID(e) == pid && eAddr(e) == addr

//@ fn Find
//@   property C25
//@   label C25.mshr.find.range
//@   ensures (result1 ==> 0 <= result0 && result0 < len(entries)) && (!result1 ==> result0 == -1)
//@   label C25.mshr.find.hit
//@   ensures result1 ==> eIs(entries[result0], pid, addr)
//@   label C25.mshr.find.first
//@   ensures forall j in 0..(result1 ? result0 : len(entries)) :: !eIs(entries[j], pid, addr)
//@   assigns nothing
//@   loop 0: invariant -1 <= rangeindex && rangeindex < len(entries)
//@   loop 0: invariant forall j in 0..rangeindex + 1 :: !eIs(entries[j], pid, addr)

//@ fn IsPresent
//@   property C25
//@   label C25.mshr.present
//@   ensures result <==> !(forall j in 0..len(entries) :: !eIs(entries[j], pid, addr))
//@   assigns nothing

// Remove: the FIRST matching entry is removed, the others keep their order; panics iff there is none
//@ fn Remove
//@   property C25
//@   panics forall j in 0..len(entries) :: !eIs(entries[j], pid, addr)
//@   witness at int = i
//@   label C25.mshr.remove.len
//@   ensures len(result) == len(entries) - 1 && 0 <= at && at < len(entries) && eIs(old(entries[at]), pid, addr)
//@   label C25.mshr.remove.first
//@   ensures forall j in 0..at :: !eIs(old(entries[j]), pid, addr)
//@   label C25.mshr.remove.before
//@   ensures forall j in 0..at :: result[j] == old(entries[j])
//@   label C25.mshr.remove.after
//@   ensures forall j in at..len(result) :: result[j] == old(entries[j + 1])
//@   assigns elems(entries)
//@   loop 0: invariant -1 <= rangeindex && rangeindex < len(entries)
//@   loop 0: invariant forall j in 0..rangeindex + 1 :: !eIs(entries[j], pid, addr)
//@   loop 0: invariant nothingAssigned()
