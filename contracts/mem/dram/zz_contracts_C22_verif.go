//go:build verif

// Contracts for package dram, property C22 (comment-only; read by /verif/engine, never compiled into a build).
package dram

//@ pred c22IsRW(k) = k == cmdKindRead || k == cmdKindReadPrecharge || k == cmdKindWrite || k == cmdKindWritePrecharge

//@ func c22Required(st, openRow, k, row) = !c22IsRW(k) ? numCmdKind : (st == bankStateClosed ? cmdKindActivate : (st == bankStateOpen ? (openRow == row ? k : cmdKindPrecharge) : numCmdKind))

//@ fn getRequiredCommandKind
//@   property C22
//@   requires bs != nil && cmd != nil
//@   label C22.required.kind
//@   ensures result == c22Required(bs.State, bs.OpenRow, cmd.Kind, cmd.Location.Row)
//@   assigns nothing

//@ fn isReadOrWrite
//@   property C22
//@   label C22.isrw
//@   ensures result <==> c22IsRW(kind)
//@   assigns nothing

//@ fn tickBank
//@   property C22
//@   requires bs != nil
//@   label C22.tick.dec
//@   ensures forall k in 0..numCmdKind :: bs.CyclesToCmdAvailable[k] == (old(bs.CyclesToCmdAvailable[k]) > 0 ? old(bs.CyclesToCmdAvailable[k]) - 1 : old(bs.CyclesToCmdAvailable[k]))
//@   label C22.tick.progress
//@   ensures result <==> (exists k in 0..numCmdKind :: old(bs.CyclesToCmdAvailable[k]) > 0)
//@   assigns bs.CyclesToCmdAvailable
//@   loop 0: invariant -1 <= rangeindex && rangeindex < numCmdKind
//@   label C22.tick.inv.dec
//@   loop 0: invariant forall j in 0..rangeindex + 1 :: bs.CyclesToCmdAvailable[j] == (old(bs.CyclesToCmdAvailable[j]) > 0 ? old(bs.CyclesToCmdAvailable[j]) - 1 : old(bs.CyclesToCmdAvailable[j]))
//@   loop 0: invariant forall j in rangeindex + 1..numCmdKind :: bs.CyclesToCmdAvailable[j] == old(bs.CyclesToCmdAvailable[j])
//@   loop 0: invariant madeProgress <==> (exists j in 0..rangeindex + 1 :: old(bs.CyclesToCmdAvailable[j]) > 0)

//@ func c22Wrap64(x) = x < 0 ? x + MaxUint64 + 1 : x
// uint64 -> int conversion (wraps)
//@ func c22ToInt(x) = x > MaxInt64 ? x - MaxUint64 - 1 : x

//@ pred c22TFAWOK(spec, state, rank) = rank < 0 || rank >= len(state.BankStates.ActivateHistories) || len(state.BankStates.ActivateHistories[rank].Timestamps) < 4 || c22Wrap64(state.TickCount - state.BankStates.ActivateHistories[rank].Timestamps[len(state.BankStates.ActivateHistories[rank].Timestamps) - 4]) >= c22Wrap64(spec.TFAW)

//@ fn findActivateHistory
//@   property C22
//@   requires flat != nil
//@   label C22.history.find
//@   ensures (rank < 0 || rank >= len(flat.ActivateHistories)) ? result == nil : (result != nil && result.Timestamps == flat.ActivateHistories[rank].Timestamps && result.Rank == flat.ActivateHistories[rank].Rank)
//@   assigns nothing

//@ fn canActivateUnderTFAW
//@   property C22
//@   requires spec != nil && state != nil
//@   label C22.tfaw
//@   ensures result <==> c22TFAWOK(spec, state, rank)
//@   assigns nothing

//@ pred c22SameLoc(a, b) = a.Location.Channel == b.Location.Channel && a.Location.Rank == b.Location.Rank && a.Location.BankGroup == b.Location.BankGroup && a.Location.Bank == b.Location.Bank && a.Location.Row == b.Location.Row && a.Location.Column == b.Location.Column

//@ fn cloneCommand
//@   property C22
//@   requires cmd != nil
//@   label C22.clone
//@   ensures result != nil && fresh(result) && result.ID == cmd.ID && result.Kind == cmd.Kind && result.Address == cmd.Address && result.CycleLeft == cmd.CycleLeft && c22SameLoc(result, cmd) && result.SubTransRef.TxID == cmd.SubTransRef.TxID && result.SubTransRef.SubIndex == cmd.SubTransRef.SubIndex
//@   assigns nothing

// A command of kind `req` may be issued to bank `bs` now: its countdown has reached zero and, for Activate, the rank's
// four-activate window allows it.
//@ pred c22CanIssue(spec, state, bs, cmd) = c22Required(bs.State, bs.OpenRow, cmd.Kind, cmd.Location.Row) != numCmdKind && bs.CyclesToCmdAvailable[c22Required(bs.State, bs.OpenRow, cmd.Kind, cmd.Location.Row)] == 0 && ((c22Required(bs.State, bs.OpenRow, cmd.Kind, cmd.Location.Row) == cmdKindActivate && spec.TFAW > 0) ==> c22TFAWOK(spec, state, c22ToInt(cmd.Location.Rank)))

//@ fn getReadyCommand
//@   property C22
//@   requires spec != nil && state != nil && bs != nil && cmd != nil
//@   label C22.ready.iff
//@   ensures result != nil <==> c22CanIssue(spec, state, bs, cmd)
//@   label C22.ready.kind
//@   ensures result != nil ==> fresh(result) && result.Kind == c22Required(bs.State, bs.OpenRow, cmd.Kind, cmd.Location.Row) && bs.CyclesToCmdAvailable[result.Kind] == 0
//@   label C22.ready.copy
//@   ensures result != nil ==> result.ID == cmd.ID && result.Address == cmd.Address && result.CycleLeft == cmd.CycleLeft && c22SameLoc(result, cmd) && result.SubTransRef.TxID == cmd.SubTransRef.TxID && result.SubTransRef.SubIndex == cmd.SubTransRef.SubIndex
//@   assigns nothing

//@ func c22U64(x) = x % (MaxUint64 + 1)

// recordActivateTimestamp writes through the interior pointer returned by findActivateHistory; the engine models a returned
// pointer as a separate object, so only a (coarse, sound) frame is stated: the Timestamps fields of rank histories and
// uint64 slice elements. What the last-four window contains afterwards is NOT under contract.
//@ fn recordActivateTimestamp
//@   property C22
//@   requires state != nil
//@   assigns key("O|mem/dram.rankActivateHistory|.Timestamps"), key("E|mem/dram.rankActivateHistory|.Timestamps"), key("E|uint64|")

//@ pred c22Closes(k) = k == cmdKindPrecharge || k == cmdKindReadPrecharge || k == cmdKindWritePrecharge

// startCommand: the bank state machine moves exactly as the DRAM protocol prescribes, the countdowns are untouched,
// and a read/write schedules exactly one completion at TickCount + cmdCycles[kind].
//@ fn startCommand
//@   property C22
//@   requires state != nil && bs != nil && cmd != nil
//@   label C22.start.machine
//@   ensures bs.State == ((old(bs.State) == bankStateClosed && cmd.Kind == cmdKindActivate) ? bankStateOpen : ((old(bs.State) == bankStateOpen && c22Closes(cmd.Kind)) ? bankStateClosed : old(bs.State)))
//@   label C22.start.row
//@   ensures bs.OpenRow == ((old(bs.State) == bankStateClosed && cmd.Kind == cmdKindActivate) ? cmd.Location.Row : old(bs.OpenRow))
//@   label C22.start.counters
//@   ensures forall k in 0..numCmdKind :: bs.CyclesToCmdAvailable[k] == old(bs.CyclesToCmdAvailable[k])
//@   label C22.start.completion
//@   ensures c22IsRW(cmd.Kind) ? (len(state.PendingCompletions) == old(len(state.PendingCompletions)) + 1 && state.PendingCompletions[len(state.PendingCompletions) - 1].CompletionTick == c22U64(state.TickCount + c22U64(cmd.Kind in cmdCycles ? cmdCycles[cmd.Kind] : 0)) && state.PendingCompletions[len(state.PendingCompletions) - 1].Ref.TxID == cmd.SubTransRef.TxID && state.PendingCompletions[len(state.PendingCompletions) - 1].Ref.SubIndex == cmd.SubTransRef.SubIndex) : unchanged(state.PendingCompletions)
//@   label C22.start.completion.kept
//@   ensures forall j in 0..old(len(state.PendingCompletions)) :: state.PendingCompletions[j].CompletionTick == old(state.PendingCompletions[j].CompletionTick) && state.PendingCompletions[j].Ref.TxID == old(state.PendingCompletions[j].Ref.TxID) && state.PendingCompletions[j].Ref.SubIndex == old(state.PendingCompletions[j].Ref.SubIndex)
//@   label C22.start.stats
//@   ensures c22IsRW(cmd.Kind) ? (state.TotalReadCommands == c22U64(old(state.TotalReadCommands) + ((cmd.Kind == cmdKindRead || cmd.Kind == cmdKindReadPrecharge) ? 1 : 0)) && state.TotalWriteCommands == c22U64(old(state.TotalWriteCommands) + ((cmd.Kind == cmdKindWrite || cmd.Kind == cmdKindWritePrecharge) ? 1 : 0)) && unchanged(state.TotalActivates) && unchanged(state.TotalPrecharges)) : (unchanged(state.TotalReadCommands) && unchanged(state.TotalWriteCommands) && state.TotalActivates == c22U64(old(state.TotalActivates) + (cmd.Kind == cmdKindActivate ? 1 : 0)) && state.TotalPrecharges == c22U64(old(state.TotalPrecharges) + (cmd.Kind == cmdKindPrecharge ? 1 : 0)))
//@   assigns bs.State, bs.OpenRow, state.PendingCompletions, elems(state.PendingCompletions), state.TotalReadCommands, state.TotalWriteCommands, state.TotalActivates, state.TotalPrecharges, key("O|mem/dram.rankActivateHistory|.Timestamps"), key("E|mem/dram.rankActivateHistory|.Timestamps"), key("E|uint64|")

// ---- timing: after a command is issued every bank's countdowns are raised to the table's minimum separations ----
// The table row that applies to bank entry e when cmd is issued: chosen by how e relates to the command's location.
//@ func c22Table(timing, cmd, e) = c22U64(e.Rank) == cmd.Location.Rank ? (c22U64(e.BankGroup) == cmd.Location.BankGroup ? (c22U64(e.BankIndex) == cmd.Location.Bank ? timing.SameBank : timing.OtherBanksInBankGroup) : timing.SameRank) : timing.OtherRanks
//@ pred c22RowOK(t, k) = k < len(t) ==> (forall j in 0..len(t[k]) :: 0 <= t[k][j].NextCmdKind && t[k][j].NextCmdKind < numCmdKind)
//@ pred c22TimingOK(timing, k) = 0 <= k && c22RowOK(timing.SameBank, k) && c22RowOK(timing.OtherBanksInBankGroup, k) && c22RowOK(timing.SameRank, k) && c22RowOK(timing.OtherRanks, k)

// Every counter named by the applicable table row is at least the row's minimum separation, for banks 0..n-1.
//@ pred c22MinApplied(timing, state, cmd, n) = forall b in 0..n :: cmd.Kind < len(c22Table(timing, cmd, state.BankStates.Entries[b])) ==> (forall j in 0..len(c22Table(timing, cmd, state.BankStates.Entries[b])[cmd.Kind]) :: state.BankStates.Entries[b].Data.CyclesToCmdAvailable[c22Table(timing, cmd, state.BankStates.Entries[b])[cmd.Kind][j].NextCmdKind] >= c22Table(timing, cmd, state.BankStates.Entries[b])[cmd.Kind][j].MinCycleInBetween)
//@ pred c22NoDecrease(state) = forall b in 0..len(state.BankStates.Entries) :: forall k in 0..numCmdKind :: state.BankStates.Entries[b].Data.CyclesToCmdAvailable[k] >= old(state.BankStates.Entries[b].Data.CyclesToCmdAvailable[k])
//@ pred c22BanksKept(state) = forall b in 0..len(state.BankStates.Entries) :: state.BankStates.Entries[b].Data.State == old(state.BankStates.Entries[b].Data.State) && state.BankStates.Entries[b].Data.OpenRow == old(state.BankStates.Entries[b].Data.OpenRow) && state.BankStates.Entries[b].Rank == old(state.BankStates.Entries[b].Rank) && state.BankStates.Entries[b].BankGroup == old(state.BankStates.Entries[b].BankGroup) && state.BankStates.Entries[b].BankIndex == old(state.BankStates.Entries[b].BankIndex)
// ground instance of c22MinApplied (first bank, first table entry): implied by it, stated separately so that a violation has a decidable witness
//@ pred c22MinFirst(timing, state, cmd) = (len(state.BankStates.Entries) > 0 && cmd.Kind < len(c22Table(timing, cmd, state.BankStates.Entries[0])) && len(c22Table(timing, cmd, state.BankStates.Entries[0])[cmd.Kind]) > 0) ==> state.BankStates.Entries[0].Data.CyclesToCmdAvailable[c22Table(timing, cmd, state.BankStates.Entries[0])[cmd.Kind][0].NextCmdKind] >= c22Table(timing, cmd, state.BankStates.Entries[0])[cmd.Kind][0].MinCycleInBetween
//@ pred c22Timed(k) = k == cmdKindActivate || c22IsRW(k) || k == cmdKindPrecharge || k == cmdKindRefreshBank

//@ fn updateAllBankTiming
//@   property C22
//@   requires state != nil && cmd != nil && c22TimingOK(timing, cmd.Kind)
//@   label C22.timing.min
//@   ensures c22MinApplied(timing, state, cmd, len(state.BankStates.Entries))
//@   label C22.timing.mono
//@   ensures c22NoDecrease(state)
//@   label C22.timing.machine
//@   ensures c22BanksKept(state)
//@   assigns elems(state.BankStates.Entries)
//@   loop 0: invariant -1 <= rangeindex && rangeindex < len(state.BankStates.Entries)
//@   label C22.timing.inv.min
//@   loop 0: invariant c22MinApplied(timing, state, cmd, rangeindex + 1)
//@   loop 0: invariant c22NoDecrease(state)
//@   loop 0: invariant c22BanksKept(state)
//@   loop 1: invariant -1 <= rangeindex && rangeindex < len(timingTable[kind]) && 0 <= i && i < len(state.BankStates.Entries) && int(kind) < len(timingTable) && kind == cmd.Kind
//@   label C22.timing.inv.table
//@   loop 1: invariant timingTable == c22Table(timing, cmd, state.BankStates.Entries[i])
//@   loop 1: invariant forall j in 0..rangeindex + 1 :: state.BankStates.Entries[i].Data.CyclesToCmdAvailable[timingTable[kind][j].NextCmdKind] >= timingTable[kind][j].MinCycleInBetween
//@   loop 1: invariant c22MinApplied(timing, state, cmd, i)
//@   loop 1: invariant c22NoDecrease(state)
//@   loop 1: invariant c22BanksKept(state)

// updateTiming applies the table for every command kind that has timing consequences and does nothing for the others.
//@ fn updateTiming
//@   property C22
//@   requires state != nil && cmd != nil && c22TimingOK(timing, cmd.Kind)
//@   label C22.update.min
//@   ensures c22Timed(cmd.Kind) ==> c22MinApplied(timing, state, cmd, len(state.BankStates.Entries))
//@   label C22.update.min.first
//@   ensures c22Timed(cmd.Kind) ==> c22MinFirst(timing, state, cmd)
//@   label C22.update.mono
//@   ensures c22NoDecrease(state)
//@   label C22.update.machine
//@   ensures c22BanksKept(state)
//@   label C22.update.untimed
//@   ensures !c22Timed(cmd.Kind) ==> nothingAssigned()
//@   assigns elems(state.BankStates.Entries)

// tickBanks: one cycle passes for every bank - every positive countdown drops by exactly one, none goes below zero.
//@ pred c22Ticked(state, n) = forall b in 0..n :: forall k in 0..numCmdKind :: state.BankStates.Entries[b].Data.CyclesToCmdAvailable[k] == (old(state.BankStates.Entries[b].Data.CyclesToCmdAvailable[k]) > 0 ? old(state.BankStates.Entries[b].Data.CyclesToCmdAvailable[k]) - 1 : old(state.BankStates.Entries[b].Data.CyclesToCmdAvailable[k]))
//@ pred c22NotTickedFrom(state, n) = forall b in n..len(state.BankStates.Entries) :: forall k in 0..numCmdKind :: state.BankStates.Entries[b].Data.CyclesToCmdAvailable[k] == old(state.BankStates.Entries[b].Data.CyclesToCmdAvailable[k])

//@ fn tickBanks
//@   property C22
//@   requires state != nil
//@   label C22.tickall.dec
//@   ensures c22Ticked(state, len(state.BankStates.Entries))
//@   label C22.tickall.machine
//@   ensures c22BanksKept(state)
//@   label C22.tickall.progress
//@   ensures result <==> (exists b in 0..len(state.BankStates.Entries) :: exists k in 0..numCmdKind :: old(state.BankStates.Entries[b].Data.CyclesToCmdAvailable[k]) > 0)
//@   assigns elems(state.BankStates.Entries)
//@   loop 0: invariant -1 <= rangeindex && rangeindex < len(state.BankStates.Entries)
//@   loop 0: invariant c22Ticked(state, rangeindex + 1)
//@   loop 0: invariant c22NotTickedFrom(state, rangeindex + 1)
//@   loop 0: invariant c22BanksKept(state)
//@   loop 0: invariant madeProgress <==> (exists b in 0..rangeindex + 1 :: exists k in 0..numCmdKind :: old(state.BankStates.Entries[b].Data.CyclesToCmdAvailable[k]) > 0)

// ---- the bank a location designates ----
// int arithmetic wraps; written exactly as the engine encodes a wrapping product / sum, so that the code's value and the
// spec's value are the same term (a closed form with nested `%` makes cvc5 1.0.3 report bogus models and z3 time out)
//@ func c22WrapMul(x) = (x + 9223372036854775808) % 18446744073709551616 - 9223372036854775808
//@ func c22WrapAdd(x) = x > 9223372036854775807 ? x - 18446744073709551616 : (x < 0 - 9223372036854775808 ? x + 18446744073709551616 : x)
//@ func c22FlatIdx(flat, rank, bankGroup, bank) = c22WrapAdd(c22WrapMul(c22WrapAdd(c22WrapMul(rank * flat.NumBankGroups) + bankGroup) * flat.NumBanks) + bank)

//@ fn bankFlatIndex
//@   property C22
//@   requires flat != nil
//@   label C22.bank.index
//@   ensures result == c22FlatIdx(flat, rank, bankGroup, bank)
//@   assigns nothing

// findBankState returns an interior pointer; the engine models a returned pointer as an object of its own, so the contract
// states which entry it designates by value: same state, open row and countdowns as Entries[idx].Data.
//@ pred c22SameBank(p, d) = p.State == d.State && p.OpenRow == d.OpenRow && (forall k in 0..numCmdKind :: p.CyclesToCmdAvailable[k] == d.CyclesToCmdAvailable[k])

//@ fn findBankState
//@   property C22
//@   requires flat != nil
//@   label C22.bank.find
//@   ensures forall i int :: i == c22FlatIdx(flat, rank, bankGroup, bank) ==> ((i < 0 || i >= len(flat.Entries)) ? result == nil : (result != nil && c22SameBank(result, flat.Entries[i].Data)))
//@   assigns nothing

//@ func c22LocIdx(flat, loc) = c22FlatIdx(flat, c22ToInt(loc.Rank), c22ToInt(loc.BankGroup), c22ToInt(loc.Bank))

//@ fn findBankStateByLocation
//@   property C22
//@   requires flat != nil
//@   label C22.bank.bylocation
//@   ensures forall i int :: i == c22LocIdx(flat, loc) ==> ((i < 0 || i >= len(flat.Entries)) ? result == nil : (result != nil && c22SameBank(result, flat.Entries[i].Data)))
//@   assigns nothing

// ---- the command queue and the scheduler scans ----
//@ fn removeCommandFromQueueByIndex
//@   property C22
//@   requires next != nil && 0 <= idx && idx < len(next.CommandQueues.Entries)
//@   label C22.queue.remove.len
//@   ensures len(next.CommandQueues.Entries) == old(len(next.CommandQueues.Entries)) - 1
//@   label C22.queue.remove.shift
//@   ensures forall j in 0..len(next.CommandQueues.Entries) :: next.CommandQueues.Entries[j] == (j < idx ? old(next.CommandQueues.Entries[j]) : old(next.CommandQueues.Entries[j + 1]))
//@   assigns next.CommandQueues.Entries, elems(next.CommandQueues.Entries)

// The property's statement for one issued command r, judged against the bank its location designates:
// Activate only on a closed bank (and inside the four-activate window), Precharge only on an open bank holding another
// row, Read/Write (with or without auto-precharge) only on an open bank holding the command's row - and in every case
// only when the bank's countdown for that command kind has reached zero.
//@ pred c22LegalOn(spec, state, r, idx) = 0 <= idx && idx < len(state.BankStates.Entries) && 0 <= r.Kind && r.Kind < numCmdKind && state.BankStates.Entries[idx].Data.CyclesToCmdAvailable[r.Kind] == 0 && ((r.Kind == cmdKindActivate && state.BankStates.Entries[idx].Data.State == bankStateClosed && (spec.TFAW > 0 ==> c22TFAWOK(spec, state, c22ToInt(r.Location.Rank)))) || (r.Kind == cmdKindPrecharge && state.BankStates.Entries[idx].Data.State == bankStateOpen && state.BankStates.Entries[idx].Data.OpenRow != r.Location.Row) || (c22IsRW(r.Kind) && state.BankStates.Entries[idx].Data.State == bankStateOpen && state.BankStates.Entries[idx].Data.OpenRow == r.Location.Row))
// (the index is bound once by a quantifier only to keep the formula small; it is the single value c22LocIdx(...))
//@ pred c22Legal(spec, state, r) = forall i int :: i == c22LocIdx(state.BankStates, r.Location) ==> c22LegalOn(spec, state, r, i)

//@ fn findOldestReadyCommand
//@   property C22
//@   requires spec != nil && next != nil
//@   label C22.scan.oldest.legal
//@   ensures result != nil ==> fresh(result) && c22Legal(spec, next, result)
//@   label C22.scan.oldest.queue
//@   ensures len(next.CommandQueues.Entries) == old(len(next.CommandQueues.Entries)) - ((result != nil && c22IsRW(result.Kind)) ? 1 : 0)
//@   label C22.scan.oldest.nil
//@   ensures (result == nil || !c22IsRW(result.Kind)) ==> nothingAssigned()
//@   assigns next.CommandQueues.Entries, elems(next.CommandQueues.Entries)
//@   loop 0: invariant -1 <= rangeindex && rangeindex < len(next.CommandQueues.Entries)
//@   loop 0: invariant nothingAssigned()

//@ fn findRowBufferHitCommand
//@   property C22
//@   requires spec != nil && next != nil
//@   label C22.scan.hit.legal
//@   ensures result != nil ==> fresh(result) && c22Legal(spec, next, result)
//@   label C22.scan.hit.column
//@   ensures result != nil ==> c22IsRW(result.Kind)
//@   label C22.scan.hit.queue
//@   ensures len(next.CommandQueues.Entries) == old(len(next.CommandQueues.Entries)) - (result != nil ? 1 : 0)
//@   label C22.scan.hit.nil
//@   ensures result == nil ==> nothingAssigned()
//@   assigns next.CommandQueues.Entries, elems(next.CommandQueues.Entries)
//@   loop 0: invariant -1 <= rangeindex && rangeindex < len(next.CommandQueues.Entries)
//@   loop 0: invariant nothingAssigned()

//@ fn getFirstReadyWrite
//@   property C22
//@   requires spec != nil && next != nil
//@   label C22.scan.write.legal
//@   ensures result != nil ==> fresh(result) && c22Legal(spec, next, result)
//@   label C22.scan.write.queue
//@   ensures len(next.CommandQueues.Entries) == old(len(next.CommandQueues.Entries)) - ((result != nil && c22IsRW(result.Kind)) ? 1 : 0)
//@   label C22.scan.write.nil
//@   ensures (result == nil || !c22IsRW(result.Kind)) ==> nothingAssigned()
//@   assigns next.CommandQueues.Entries, elems(next.CommandQueues.Entries)
//@   loop 0: invariant -1 <= rangeindex && rangeindex < len(next.CommandQueues.Entries)
//@   loop 0: invariant nothingAssigned()
//@   loop 1: invariant -1 <= rangeindex && rangeindex < len(next.CommandQueues.Entries)
//@   loop 1: invariant nothingAssigned()

//@ fn countWriteCommands
//@   property C22
//@   requires state != nil
//@   label C22.queue.count
//@   ensures 0 <= result && result <= len(state.CommandQueues.Entries)
//@   assigns nothing
//@   loop 0: invariant -1 <= rangeindex && rangeindex < len(state.CommandQueues.Entries) && 0 <= count && count <= rangeindex + 1

// The FR-FCFS scheduler: whatever it hands to the issue step is a fresh command that is legal for its bank right now.
//@ fn getCommandToIssue
//@   property C22
//@   requires spec != nil && next != nil
//@   label C22.pick.legal
//@   ensures result != nil ==> fresh(result) && c22Legal(spec, next, result)
//@   label C22.pick.queue
//@   ensures len(next.CommandQueues.Entries) == old(len(next.CommandQueues.Entries)) - ((result != nil && c22IsRW(result.Kind)) ? 1 : 0)
//@   assigns next.CommandQueues.Entries, elems(next.CommandQueues.Entries), next.CommandQueues.WriteDrainMode, next.RowBufferHits, next.RowBufferMisses

//@ fn (frfcfsScheduler).Pick
//@   property C22
//@   requires spec != nil && st != nil
//@   label C22.pick.scheduler
//@   ensures result != nil ==> fresh(result) && c22Legal(spec, st, result)
//@   assigns st.CommandQueues.Entries, elems(st.CommandQueues.Entries), st.CommandQueues.WriteDrainMode, st.RowBufferHits, st.RowBufferMisses
