//go:build verif

// Contracts for package dram, property C16, READ side (comment-only; read by /verif/engine).
// C16 (per-step part at the DRAM controller): a completed read transaction is answered from the storage: the response
// carries exactly the bytes of the storage view at [Address, Address+AccessByteSize) (zero where nothing was ever written),
// the storage view is not changed by the read; when the Top port can send there is ONE DataReadyRsp with RspTo == request
// ID and Dst == request Src and the transaction leaves the list; when it cannot, nothing is sent and the list is kept.
// Declarations (ghost port view, c16* preds, ext/iface contracts) are reused from zz_contracts_C16_verif.go / C18.
package dram

//@ func c16rr(m) = as(c18Last(c16top(m)), "memprotocol.DataReadyRsp")
//@ func c16ra(t) = int(t.ReadMsg.Address)
//@ func c16rn(t) = int(t.ReadMsg.AccessByteSize)

//@ fn (*respondMW).finalizeReadTrans
//@   property C16
//@   requires c16WF(m) && idGenOK() && state != nil && t != nil && t.HasRead && !t.HasWrite
//@   requires 0 <= i && i < len(state.Transactions) && len(state.Transactions) <= cap(state.Transactions)
//@   witness rU map = Read_rU
//@   panics c16ra(t) + c16rn(t) > int(c16st(m).capacity)
//@   label C16.dram.read.progress
//@   ensures result <==> old(canSend[c16top(m)])
//@   label C16.dram.read.once
//@   ensures result ==> c18OneSent(c16top(m)) && len(state.Transactions) == old(len(state.Transactions)) - 1
//@   label C16.dram.read.blocked
//@   ensures !result ==> c18NoSend() && len(state.Transactions) == old(len(state.Transactions))
//@   label C16.dram.read.kind
//@   ensures result ==> hastype(c18Last(c16top(m)), "memprotocol.DataReadyRsp")
//@   label C16.dram.read.rspto
//@   ensures result ==> c16rr(m).RspTo == old(t.ReadMsg.ID)
//@   label C16.dram.read.dst
//@   ensures result ==> c16rr(m).Dst == old(t.ReadMsg.Src)
//@   label C16.dram.read.len
//@   ensures result ==> len(c16rr(m).Data) == old(c16rn(t))
//@   label C16.dram.read.covered
//@   ensures forall q in 0..old(c16rn(t)) :: (rU[q] in c16st(m).data) && 0 <= rU[q] && rU[q] <= old(c16ra(t)) + q && old(c16ra(t)) + q < rU[q] + c16usz(m)
//@   label C16.dram.read.bytes
//@   ensures result ==> forall q in 0..old(c16rn(t)) :: c16rr(m).Data[q] == c16st(m).data[rU[q]].data[old(c16ra(t)) + q - rU[q]]
//@   label C16.dram.read.bytes.pre
//@   ensures result ==> forall q in 0..old(c16rn(t)) :: c16rr(m).Data[q] == (old(rU[q] in c16st(m).data) ? old(c16st(m).data[rU[q]].data[c16ra(t) + q - rU[q]]) : 0)
//@   label C16.dram.read.storage.unchanged
//@   ensures c16viewKept(m)
//@   label C16.dram.read.wf
//@   ensures c16WF(m) && idGenOK()
//@   assigns state.TotalReadLatencyCycles, state.BytesRead, state.CompletedReads, state.Transactions, elems(state.Transactions), elems(c16st(m).data), canSend, sendCnt, sentTyp, sentVal, issued, key("G|github.com/sarchlab/akita/v5/timing.idGenerator|"), key("G|github.com/sarchlab/akita/v5/timing.idGeneratorInstantiated|"), key("O|timing.sequentialIDGenerator|nextID"), key("O|timing.parallelIDGenerator|nextID")
