//go:build verif

// Contracts for package dram, property C16 (comment-only; read by /verif/engine, never compiled into a build).
// C16 (per-step part at the DRAM controller): a completed write transaction stores exactly the bytes whose DirtyMask bit is
// set (all bytes without a mask) and leaves every other byte of the storage as it was; when the Top port can send it is
// answered by ONE WriteDoneRsp with RspTo == request ID and Dst == request Src and leaves the transaction list.
// (The write is applied BEFORE the CanSend check, so a blocked response re-applies it on the next tick.)
// Ghost port view and trusted Port / IDGenerator contracts: zz_contracts_C18_verif.go (shared per package).
package dram

//@ ext modeling.(*Component[S, T, R]).Resources(c)
//@   trusted
//@   pure
//@   ensures result == c.resources

//@ func c16st(m) = m.comp.resources.Storage
//@ func c16usz(m) = int(c16st(m).unitSize)
//@ func c16top(m) = ifaceval(c18Port(m, "Top"))
//@ pred c16WF(m) = c18WF(m) && c16st(m) != nil && mem.storageFlat(c16st(m))
//@ pred c16wmask(w, i) = w.DirtyMask == nil || w.DirtyMask[i]
//@ pred c16viewKept(m) = (forall k uint64 :: old(k in c16st(m).data) ==> (k in c16st(m).data) && c16st(m).data[k] == old(c16st(m).data[k])) && (forall k uint64 :: old(k in c16st(m).data) ==> forall j in 0..c16usz(m) :: c16st(m).data[k].data[j] == old(c16st(m).data[k].data[j])) && (forall k uint64 :: (k in c16st(m).data) && !old(k in c16st(m).data) ==> forall j in 0..c16usz(m) :: c16st(m).data[k].data[j] == 0)
//@ func c16wr(m) = as(c18Last(c16top(m)), "memprotocol.WriteDoneRsp")

//@ fn (*respondMW).topPort
//@   property C16
//@   requires c18WF(m)
//@   label C16.dram.topport
//@   ensures result == c18Port(m, "Top")
//@   assigns nothing

//@ fn transactionGlobalAddress
//@   property C16
//@   requires t != nil
//@   label C16.dram.addr
//@   ensures result == (t.HasRead ? t.ReadMsg.Address : t.WriteMsg.Address)
//@   assigns nothing

//@ fn (*respondMW).removeTransaction
//@   property C16
//@   requires state != nil && 0 <= idx && idx < len(state.Transactions) && len(state.Transactions) <= cap(state.Transactions)
//@   label C16.dram.remove.len
//@   ensures len(state.Transactions) == old(len(state.Transactions)) - 1
//@   assigns state.Transactions, elems(state.Transactions)

//@ fn (*respondMW).finalizeWriteTrans
//@   property C16
//@   requires c16WF(m) && idGenOK() && state != nil && t != nil && t.HasWrite && !t.HasRead
//@   requires 0 <= i && i < len(state.Transactions) && len(state.Transactions) <= cap(state.Transactions)
//@   requires (forall k uint64 :: k in c16st(m).data ==> ref(c16st(m).data[k].data) != ref(t.WriteMsg.Data)) && ref(t.WriteMsg.Data) <= allocTop
//@   witness wU map = Write_wU
//@   panics int(t.WriteMsg.Address) + len(t.WriteMsg.Data) > int(c16st(m).capacity) || (t.WriteMsg.DirtyMask != nil && len(t.WriteMsg.DirtyMask) < len(t.WriteMsg.Data))
//@   label C16.dram.write.progress
//@   ensures result <==> old(canSend[c16top(m)])
//@   label C16.dram.write.once
//@   ensures result ==> c18OneSent(c16top(m)) && len(state.Transactions) == old(len(state.Transactions)) - 1
//@   label C16.dram.write.blocked
//@   ensures !result ==> c18NoSend() && len(state.Transactions) == old(len(state.Transactions))
//@   label C16.dram.write.kind
//@   ensures result ==> hastype(c18Last(c16top(m)), "memprotocol.WriteDoneRsp")
//@   label C16.dram.write.rspto
//@   ensures result ==> c16wr(m).RspTo == old(t.WriteMsg.ID)
//@   label C16.dram.write.dst
//@   ensures result ==> c16wr(m).Dst == old(t.WriteMsg.Src)
//@   label C16.dram.write.covered
//@   ensures forall q in 0..old(len(t.WriteMsg.Data)) :: (wU[q] in c16st(m).data) && 0 <= wU[q] && wU[q] <= old(int(t.WriteMsg.Address)) + q && old(int(t.WriteMsg.Address)) + q < wU[q] + c16usz(m)
//@   label C16.dram.write.inrange
//@   ensures forall q in 0..old(len(t.WriteMsg.Data)) :: c16st(m).data[wU[q]].data[old(int(t.WriteMsg.Address)) + q - wU[q]] == (old(c16wmask(t.WriteMsg, q)) ? old(t.WriteMsg.Data[q]) : (old(wU[q] in c16st(m).data) ? old(c16st(m).data[wU[q]].data[int(t.WriteMsg.Address) + q - wU[q]]) : 0))
//@   label C16.dram.write.outside
//@   ensures forall k uint64 :: k in c16st(m).data ==> forall j in 0..c16usz(m) :: !(old(int(t.WriteMsg.Address)) <= k + j && k + j < old(int(t.WriteMsg.Address)) + old(len(t.WriteMsg.Data))) ==> c16st(m).data[k].data[j] == (old(k in c16st(m).data) ? old(c16st(m).data[k].data[j]) : 0)
//@   label C16.dram.write.wf
//@   ensures c16WF(m) && idGenOK()
//@   assigns state.TotalWriteLatencyCycles, state.BytesWritten, state.CompletedWrites, state.Transactions, elems(state.Transactions), elems(c16st(m).data), key("E|uint8|"), canSend, sendCnt, sentTyp, sentVal, issued, key("G|github.com/sarchlab/akita/v5/timing.idGenerator|"), key("G|github.com/sarchlab/akita/v5/timing.idGeneratorInstantiated|"), key("O|timing.sequentialIDGenerator|nextID"), key("O|timing.parallelIDGenerator|nextID")
//@   loop 0: invariant c16WF(m) && idGenOK() && -1 <= rangeindex && rangeindex < len(data) && len(merged) == len(data) && fresh(merged)
//@   loop 0: invariant ref(data) == old(ref(t.WriteMsg.Data)) && off(data) == old(off(t.WriteMsg.Data)) && len(data) == old(len(t.WriteMsg.Data))
//@   loop 0: invariant len(t.WriteMsg.DirtyMask) > rangeindex
//@   loop 0: invariant c16viewKept(m)
//@   loop 0: invariant forall q in 0..len(data) :: data[q] == old(t.WriteMsg.Data[q])
//@   label C16.dram.write.merge.done
//@   loop 0: invariant forall q in 0..rangeindex + 1 :: merged[q] == (t.WriteMsg.DirtyMask[q] ? data[q] : c16st(m).data[Read_rU[q]].data[int(t.WriteMsg.Address) + q - Read_rU[q]])
//@   label C16.dram.write.merge.todo
//@   loop 0: invariant forall q in rangeindex + 1..len(data) :: merged[q] == c16st(m).data[Read_rU[q]].data[int(t.WriteMsg.Address) + q - Read_rU[q]]
