//go:build verif

// Contracts for package simplebankedmemory, property C16 (comment-only; read by /verif/engine, never compiled into a build).
// C16 (per-step part at the banked memory): the write at the head of a bank's post-pipeline buffer is applied to the storage
// ONCE (guarded by Committed), storing exactly the bytes whose DirtyMask bit is set (all bytes without a mask); when the Top
// port can send it is answered by ONE WriteDoneRsp with RspTo == request ID and Dst == request Src.
// Ghost port view and trusted Port / IDGenerator contracts: zz_contracts_C18_verif.go (shared per package).
package simplebankedmemory

//@ ext modeling.(*Component[S, T, R]).Resources(c)
//@   trusted
//@   pure
//@   ensures result == c.resources
//@ ext modeling.(*TickingComponent).Name(c)
//@   trusted
//@   pure
//@ ext tracing.AddMilestone(domain, ms)
//@   trusted
//@   assigns nothing
//@ ext tracing.MsgIDAtReceiver(msg, domain)
//@   trusted
//@   assigns nothing
//@ ext tracing.EndTask(domain, t)
//@   trusted
//@   assigns nothing
//@ ext tracing.TraceReqComplete(domain, msg)
//@   trusted
//@   assigns nothing

//@ func c16st(m) = m.comp.resources.Storage
//@ func c16usz(m) = int(c16st(m).unitSize)
//@ func c16top(m) = ifaceval(c18Port(m, "Top"))
//@ pred c16WF(m) = c18WF(m) && c16st(m) != nil && mem.storageFlat(c16st(m))
//@ pred c16wmask(w, i) = w.DirtyMask == nil || w.DirtyMask[i]
//@ pred c16viewKept(m) = (forall k uint64 :: old(k in c16st(m).data) ==> (k in c16st(m).data) && c16st(m).data[k] == old(c16st(m).data[k])) && (forall k uint64 :: old(k in c16st(m).data) ==> forall j in 0..c16usz(m) :: c16st(m).data[k].data[j] == old(c16st(m).data[k].data[j])) && (forall k uint64 :: (k in c16st(m).data) && !old(k in c16st(m).data) ==> forall j in 0..c16usz(m) :: c16st(m).data[k].data[j] == 0)
//@ func c16wr(m) = as(c18Last(c16top(m)), "memprotocol.WriteDoneRsp")

//@ fn (*tickFinalizeMW).topPort
//@   property C16
//@   requires c18WF(m)
//@   label C16.sbm.topport
//@   ensures result == c18Port(m, "Top")
//@   assigns nothing

//@ fn (*tickFinalizeMW).finishPipeline
//@   property C16
//@   requires m.comp != nil && m.comp.TickingComponent != nil
//@   assigns nothing

//@ fn bufferPop
//@   property C16
//@   requires bank != nil
//@   label C16.sbm.pop
//@   ensures len(bank.PostPipelineBuf.elements) == (old(len(bank.PostPipelineBuf.elements)) == 0 ? 0 : old(len(bank.PostPipelineBuf.elements)) - 1)
//@   assigns bank.PostPipelineBuf.elements

//@ fn (*tickFinalizeMW).finalizeWrite
//@   property C16
//@   requires c16WF(m) && idGenOK() && b != nil && item != nil && m.comp.TickingComponent != nil
//@   requires (forall k uint64 :: k in c16st(m).data ==> ref(c16st(m).data[k].data) != ref(item.WriteMsg.Data)) && ref(item.WriteMsg.Data) <= allocTop
//@   witness wU map = Write_wU
//@   panics !item.Committed && (int(item.WriteMsg.Address) + len(item.WriteMsg.Data) > int(c16st(m).capacity) || (item.WriteMsg.DirtyMask != nil && len(item.WriteMsg.DirtyMask) < len(item.WriteMsg.Data)))
//@   label C16.sbm.write.progress
//@   ensures result <==> old(canSend[c16top(m)])
//@   label C16.sbm.write.once
//@   ensures result ==> c18OneSent(c16top(m))
//@   label C16.sbm.write.blocked
//@   ensures !result ==> c18NoSend()
//@   label C16.sbm.write.kind
//@   ensures result ==> hastype(c18Last(c16top(m)), "memprotocol.WriteDoneRsp")
//@   label C16.sbm.write.rspto
//@   ensures result ==> c16wr(m).RspTo == old(item.WriteMsg.ID)
//@   label C16.sbm.write.dst
//@   ensures result ==> c16wr(m).Dst == old(item.WriteMsg.Src)
//@   label C16.sbm.write.committed
//@   ensures item.Committed
//@   label C16.sbm.write.applied.once
//@   ensures old(item.Committed) ==> c16viewKept(m)
//@   label C16.sbm.write.covered
//@   ensures !old(item.Committed) ==> forall i in 0..len(item.WriteMsg.Data) :: (wU[i] in c16st(m).data) && 0 <= wU[i] && wU[i] <= int(item.WriteMsg.Address) + i && int(item.WriteMsg.Address) + i < wU[i] + c16usz(m)
//@   label C16.sbm.write.inrange
//@   ensures !old(item.Committed) ==> forall i in 0..len(item.WriteMsg.Data) :: c16st(m).data[wU[i]].data[int(item.WriteMsg.Address) + i - wU[i]] == (c16wmask(item.WriteMsg, i) ? old(item.WriteMsg.Data[i]) : (old(wU[i] in c16st(m).data) ? old(c16st(m).data[wU[i]].data[int(item.WriteMsg.Address) + i - wU[i]]) : 0))
//@   label C16.sbm.write.outside
//@   ensures !old(item.Committed) ==> forall k uint64 :: k in c16st(m).data ==> forall j in 0..c16usz(m) :: !(int(item.WriteMsg.Address) <= k + j && k + j < int(item.WriteMsg.Address) + len(item.WriteMsg.Data)) ==> c16st(m).data[k].data[j] == (old(k in c16st(m).data) ? old(c16st(m).data[k].data[j]) : 0)
//@   label C16.sbm.write.wf
//@   ensures c16WF(m) && idGenOK()
//@   assigns item.Committed, b.PostPipelineBuf.elements, elems(b.PostPipelineBuf.elements), elems(c16st(m).data), key("E|uint8|"), canSend, sendCnt, sentTyp, sentVal, issued, key("G|github.com/sarchlab/akita/v5/timing.idGenerator|"), key("G|github.com/sarchlab/akita/v5/timing.idGeneratorInstantiated|"), key("O|timing.sequentialIDGenerator|nextID"), key("O|timing.parallelIDGenerator|nextID")
//@   loop 0: invariant c16WF(m) && idGenOK() && -1 <= rangeindex && rangeindex < len(item.WriteMsg.Data) && len(data) == len(item.WriteMsg.Data) && fresh(data) && !item.Committed
//@   loop 0: invariant len(item.WriteMsg.DirtyMask) > rangeindex
//@   loop 0: invariant c16viewKept(m)
//@   loop 0: invariant forall q in 0..len(item.WriteMsg.Data) :: item.WriteMsg.Data[q] == old(item.WriteMsg.Data[q])
//@   label C16.sbm.write.merge.done
//@   loop 0: invariant forall q in 0..rangeindex + 1 :: data[q] == (item.WriteMsg.DirtyMask[q] ? item.WriteMsg.Data[q] : c16st(m).data[Read_rU[q]].data[int(item.WriteMsg.Address) + q - Read_rU[q]])
//@   label C16.sbm.write.merge.todo
//@   loop 0: invariant forall q in rangeindex + 1..len(item.WriteMsg.Data) :: data[q] == c16st(m).data[Read_rU[q]].data[int(item.WriteMsg.Address) + q - Read_rU[q]]
