//go:build verif

// Contracts for package simplebankedmemory, property C16, READ side (comment-only; read by /verif/engine).
// C16 (per-step part at the banked memory): the read at the head of a bank's post-pipeline buffer is served from the
// storage ONCE (guarded by Committed): the bytes held for / carried by the response are exactly the bytes of the storage
// view at [Address, Address+AccessByteSize) (zero where nothing was ever written); the storage view is not changed by a
// read; when the Top port can send the request is answered by ONE DataReadyRsp with RspTo == request ID, Dst == request Src.
// Declarations (ghost port view, c16* preds, ext/iface contracts) are reused from zz_contracts_C16_verif.go / C18.
package simplebankedmemory

//@ func c16rr(m) = as(c18Last(c16top(m)), "memprotocol.DataReadyRsp")
//@ func c16ra(item) = int(item.ReadMsg.Address)
//@ func c16rn(item) = int(item.ReadMsg.AccessByteSize)

//@ fn (*tickFinalizeMW).finalizeRead
//@   property C16
//@   requires c16WF(m) && idGenOK() && b != nil && item != nil && m.comp.TickingComponent != nil
//@   witness rU map = Read_rU
//@   panics !item.Committed && c16ra(item) + c16rn(item) > int(c16st(m).capacity)
//@   label C16.sbm.read.progress
//@   ensures result <==> old(canSend[c16top(m)])
//@   label C16.sbm.read.once
//@   ensures result ==> c18OneSent(c16top(m))
//@   label C16.sbm.read.blocked
//@   ensures !result ==> c18NoSend()
//@   label C16.sbm.read.kind
//@   ensures result ==> hastype(c18Last(c16top(m)), "memprotocol.DataReadyRsp")
//@   label C16.sbm.read.rspto
//@   ensures result ==> c16rr(m).RspTo == old(item.ReadMsg.ID)
//@   label C16.sbm.read.dst
//@   ensures result ==> c16rr(m).Dst == old(item.ReadMsg.Src)
//@   label C16.sbm.read.rspdata
//@   ensures result ==> ref(c16rr(m).Data) == ref(item.ReadData) && off(c16rr(m).Data) == off(item.ReadData) && len(c16rr(m).Data) == len(item.ReadData)
//@   label C16.sbm.read.committed
//@   ensures item.Committed
//@   label C16.sbm.read.served.once
//@   ensures old(item.Committed) ==> ref(item.ReadData) == old(ref(item.ReadData)) && off(item.ReadData) == old(off(item.ReadData)) && len(item.ReadData) == old(len(item.ReadData))
//@   label C16.sbm.read.len
//@   ensures !old(item.Committed) ==> len(item.ReadData) == c16rn(item)
//@   label C16.sbm.read.covered
//@   ensures !old(item.Committed) ==> forall i in 0..c16rn(item) :: (rU[i] in c16st(m).data) && 0 <= rU[i] && rU[i] <= c16ra(item) + i && c16ra(item) + i < rU[i] + c16usz(m)
//@   label C16.sbm.read.bytes
//@   ensures !old(item.Committed) ==> forall i in 0..c16rn(item) :: item.ReadData[i] == c16st(m).data[rU[i]].data[c16ra(item) + i - rU[i]]
//@   label C16.sbm.read.bytes.pre
//@   ensures !old(item.Committed) ==> forall i in 0..c16rn(item) :: item.ReadData[i] == (old(rU[i] in c16st(m).data) ? old(c16st(m).data[rU[i]].data[c16ra(item) + i - rU[i]]) : 0)
//@   label C16.sbm.read.storage.unchanged
//@   ensures c16viewKept(m)
//@   label C16.sbm.read.request.kept
//@   ensures item.ReadMsg.Address == old(item.ReadMsg.Address) && item.ReadMsg.AccessByteSize == old(item.ReadMsg.AccessByteSize)
//@   label C16.sbm.read.popped
//@   ensures len(b.PostPipelineBuf.elements) == (result && old(len(b.PostPipelineBuf.elements)) > 0 ? old(len(b.PostPipelineBuf.elements)) - 1 : old(len(b.PostPipelineBuf.elements)))
//@   label C16.sbm.read.wf
//@   ensures c16WF(m) && idGenOK()
//@   assigns item.Committed, item.ReadData, b.PostPipelineBuf.elements, elems(b.PostPipelineBuf.elements), elems(c16st(m).data), canSend, sendCnt, sentTyp, sentVal, issued, key("G|github.com/sarchlab/akita/v5/timing.idGenerator|"), key("G|github.com/sarchlab/akita/v5/timing.idGeneratorInstantiated|"), key("O|timing.sequentialIDGenerator|nextID"), key("O|timing.parallelIDGenerator|nextID")
