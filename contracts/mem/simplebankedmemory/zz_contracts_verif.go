//go:build verif

// Contracts for package simplebankedmemory (comment-only; read by /verif/engine, never compiled into a build).
package simplebankedmemory

// ---- C24: the banked memory strips an upstream interleaving with the same converter ----

//@ fn bankSelectionAddress
//@   property C24
//@   requires spec.BankAddrConvKind != "" ==> mem.convCfg(int(spec.BankAddrInterleavingSize), int(spec.BankAddrTotalNumOfElements), int(spec.BankAddrCurrentElementIndex))
//@   panics spec.BankAddrConvKind != "" && (addr < spec.BankAddrOffset || mem.owner(int(addr) - int(spec.BankAddrOffset), int(spec.BankAddrInterleavingSize), int(spec.BankAddrTotalNumOfElements)) != int(spec.BankAddrCurrentElementIndex))
//@   label C24.bankaddr.identity
//@   ensures spec.BankAddrConvKind == "" ==> result == addr
//@   label C24.bankaddr.value
//@   ensures spec.BankAddrConvKind != "" ==> int(result) == mem.conv(int(addr) - int(spec.BankAddrOffset), int(spec.BankAddrInterleavingSize), int(spec.BankAddrTotalNumOfElements))
