//go:build verif

// Contracts for package simplebankedmemory (comment-only; read by /verif/engine, never compiled into a build).
package simplebankedmemory

// ---- C24: the banked memory strips an upstream interleaving with the same converter ----

//@ fn bankSelectionAddress
//@   property C24
//@   requires spec.BankAddrConvKind != "" ==> mem.convCfg(int(spec.BankAddrInterleavingSize), int(spec.BankAddrTotalNumOfElements), int(spec.BankAddrCurrentElementIndex))
//@   panics spec.BankAddrConvKind != "" && (addr < spec.BankAddrOffset || mem.owner(int(addr) - int(spec.BankAddrOffset), int(spec.BankAddrInterleavingSize), int(spec.BankAddrTotalNumOfElements)) != int(spec.BankAddrCurrentElementIndex))
//@   label C24.bankaddr.identity
//@   ensures spec.BankAddrConvKind == "" ==> result == addr
//@   label C24.bankaddr.value
//@   ensures spec.BankAddrConvKind != "" ==> int(result) == mem.conv(int(addr) - int(spec.BankAddrOffset), int(spec.BankAddrInterleavingSize), int(spec.BankAddrTotalNumOfElements))

// ---- C24: bank selection stripes the (converted) address over the banks ----

//@ fn selectBank
//@   property C24
//@   requires 0 < spec.NumBanks
//@   panics spec.BankSelectorLog2InterleaveSize >= 64
//@   label C24.selectbank.inrange
//@   ensures 0 <= result && result < spec.NumBanks
//@   label C24.selectbank.value
//@   ensures result == (int(addr) / (1 << int(spec.BankSelectorLog2InterleaveSize))) % spec.NumBanks
//@   label C24.selectbank.pure
//@   ensures nothingAssigned()
