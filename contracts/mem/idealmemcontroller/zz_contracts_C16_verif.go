//go:build verif

// Contracts for package idealmemcontroller, property C16 (comment-only; read by /verif/engine, never compiled into a build).
// C16 (per-step part at the ideal memory controller): a finished read is answered with exactly the bytes the flat storage
// view holds for [Address, Address+AccessByteSize); a finished write stores exactly the bytes whose DirtyMask bit is set (all
// bytes without a mask) and leaves every other byte of the storage as it was; each finished transaction gets ONE response of
// the matching kind with RspTo == ReqID and Dst == Src of the request it was built from.
// Ghost port view, trusted messaging.Port / IDGenerator contracts: declared in zz_contracts_C18_verif.go (shared per package).
// Storage byte view: mem.storageFlat and the contracts of (*mem.Storage).Read/Write (C20, verified in package mem).
package idealmemcontroller

// ---- trusted: accessors of the generic component and tracing hooks (arbitrary user callbacks: assumed not to touch the
// component, its ports, the storage or the ID generator) ----
//@ ext modeling.(*Component[S, T, R]).Spec(c)
//@   trusted
//@   pure
//@   ensures result == c.spec
//@ ext modeling.(*Component[S, T, R]).Resources(c)
//@   trusted
//@   pure
//@   ensures result == c.resources
//@ ext tracing.EndTask(domain, t)
//@   trusted
//@   assigns nothing
//@ ext tracing.ForgetMsgIDAtReceiver(msgID, domain)
//@   trusted
//@   assigns nothing
//@ ext tracing.MsgIDAtReceiver(msg, domain)
//@   trusted
//@   assigns nothing
//@ ext tracing.TraceReqReceive(domain, msg)
//@   trusted
//@   assigns nothing

// ---- views ----
//@ func stor(m) = m.comp.resources.Storage
//@ pred memWF(m) = imcWF(m) && stor(m) != nil && mem.storageFlat(stor(m))
//@ func topI(m) = m.comp.TickingComponent.PortOwnerBase.ports["Top"]
//@ pred isRdRsp(x) = hastype(x, "memprotocol.DataReadyRsp")
//@ pred isWrRsp(x) = hastype(x, "memprotocol.WriteDoneRsp")
//@ func rdRsp(m) = as(sentOn(topP(m)), "memprotocol.DataReadyRsp")
//@ func wrRsp(m) = as(sentOn(topP(m)), "memprotocol.WriteDoneRsp")
//@ func usz(m) = int(stor(m).unitSize)
// the flat byte view of the storage is what it was: old units are the same objects with the same contents, new units read 0
//@ pred viewKept(m) = (forall k uint64 :: old(k in stor(m).data) ==> (k in stor(m).data) && stor(m).data[k] == old(stor(m).data[k])) && (forall k uint64 :: old(k in stor(m).data) ==> forall j in 0..usz(m) :: stor(m).data[k].data[j] == old(stor(m).data[k].data[j])) && (forall k uint64 :: (k in stor(m).data) && !old(k in stor(m).data) ==> forall j in 0..usz(m) :: stor(m).data[k].data[j] == 0)

// units created during the call have backing arrays allocated during the call (never a buffer the caller already had)
//@ pred createdFresh(m) = forall k uint64 :: (k in stor(m).data) && !old(k in stor(m).data) ==> fresh(stor(m).data[k].data)

//@ fn (*memMiddleware).topPort
//@   property C16
//@   requires imcWF(m)
//@   label C16.imc.topport
//@   ensures result == m.comp.TickingComponent.PortOwnerBase.ports["Top"]
//@   assigns nothing

//@ fn (*memMiddleware).traceReqComplete
//@   property C16
//@   requires m.comp != nil
//@   assigns nothing

// ---- read: answered with exactly the bytes of the flat view; nothing is sent (and nothing changes) while the port is busy ----
//@ fn (*memMiddleware).sendReadResponse
//@   property C16
//@   requires memWF(m) && idGenOK() && tx != nil
//@   witness cU map = Read_rU
//@   panics int(tx.Address) + int(tx.AccessByteSize) > int(stor(m).capacity)
//@   label C16.imc.read.progress
//@   ensures result <==> old(canSend[topP(m)])
//@   label C16.imc.read.once
//@   ensures result ==> oneMoreSent(topP(m))
//@   label C16.imc.read.blocked
//@   ensures !result ==> nothingSent()
//@   label C16.imc.read.kind
//@   ensures result ==> isRdRsp(sentOn(topP(m)))
//@   label C16.imc.read.rspto
//@   ensures result ==> rdRsp(m).RspTo == tx.ReqID
//@   label C16.imc.read.dst
//@   ensures result ==> rdRsp(m).Dst == tx.Src
//@   label C16.imc.read.src
//@   ensures result ==> rdRsp(m).Src == portRemote(topI(m))
//@   label C16.imc.read.len
//@   ensures result ==> len(rdRsp(m).Data) == int(tx.AccessByteSize)
//@   label C16.imc.read.covered
//@   ensures result ==> forall i in 0..int(tx.AccessByteSize) :: (cU[i] in stor(m).data) && 0 <= cU[i] && cU[i] <= int(tx.Address) + i && int(tx.Address) + i < cU[i] + usz(m)
//@   label C16.imc.read.bytes
//@   ensures result ==> forall i in 0..int(tx.AccessByteSize) :: rdRsp(m).Data[i] == stor(m).data[cU[i]].data[int(tx.Address) + i - cU[i]]
// ground instance of read.bytes (a wrong byte is refuted with a counterexample, not merely undecided)
//@   label C16.imc.read.first
//@   ensures result && tx.AccessByteSize > 0 ==> rdRsp(m).Data[0] == stor(m).data[cU[0]].data[int(tx.Address) - cU[0]]
//@   label C16.imc.read.view
//@   ensures result ==> forall k uint64 :: k in stor(m).data ==> forall j in 0..usz(m) :: int(tx.Address) <= k + j && k + j < int(tx.Address) + int(tx.AccessByteSize) ==> rdRsp(m).Data[k + j - int(tx.Address)] == stor(m).data[k].data[j]
//@   label C16.imc.read.storage.kept
//@   ensures viewKept(m)
//@   label C16.imc.read.created.fresh
//@   ensures createdFresh(m)
//@   label C16.imc.read.wf
//@   ensures memWF(m) && idGenOK()
//@   assigns elems(stor(m).data), canSend, sendCnt, sentTyp, sentVal, issued, key("G|github.com/sarchlab/akita/v5/timing.idGenerator|"), key("G|github.com/sarchlab/akita/v5/timing.idGeneratorInstantiated|"), key("O|timing.sequentialIDGenerator|nextID"), key("O|timing.parallelIDGenerator|nextID")

// ---- write: ONE WriteDoneRsp, then exactly the masked bytes are stored; every other byte of the storage keeps its value ----
// wmask(tx, i): byte i of the request is to be written
//@ pred wmask(tx, i) = tx.DirtyMask == nil || tx.DirtyMask[i]
//@ pred txBufOK(m, tx) = forall k uint64 :: k in stor(m).data ==> ref(stor(m).data[k].data) != ref(tx.Data)
//@ fn (*memMiddleware).sendWriteResponse
//@   property C16
//@   requires memWF(m) && idGenOK() && tx != nil
//@   requires txBufOK(m, tx) && ref(tx.Data) <= allocTop     // the request's buffer is not a storage unit's backing array
//@   witness wU map = Write_wU
//@   panics canSend[topP(m)] && (int(tx.Address) + len(tx.Data) > int(stor(m).capacity) || (tx.DirtyMask != nil && len(tx.DirtyMask) < len(tx.Data)))
//@   label C16.imc.write.progress
//@   ensures result <==> old(canSend[topP(m)])
//@   label C16.imc.write.once
//@   ensures result ==> oneMoreSent(topP(m))
//@   label C16.imc.write.blocked
//@   ensures !result ==> nothingSent() && viewKept(m)
//@   label C16.imc.write.kind
//@   ensures result ==> isWrRsp(sentOn(topP(m)))
//@   label C16.imc.write.rspto
//@   ensures result ==> wrRsp(m).RspTo == tx.ReqID
//@   label C16.imc.write.dst
//@   ensures result ==> wrRsp(m).Dst == tx.Src
//@   label C16.imc.write.src
//@   ensures result ==> wrRsp(m).Src == portRemote(topI(m))
//@   label C16.imc.write.units.kept
//@   ensures forall k uint64 :: old(k in stor(m).data) ==> (k in stor(m).data) && stor(m).data[k] == old(stor(m).data[k])
//@   label C16.imc.write.covered
//@   ensures result ==> forall i in 0..len(tx.Data) :: (wU[i] in stor(m).data) && 0 <= wU[i] && wU[i] <= int(tx.Address) + i && int(tx.Address) + i < wU[i] + usz(m)
//@   label C16.imc.write.inrange
//@   ensures result ==> forall i in 0..len(tx.Data) :: stor(m).data[wU[i]].data[int(tx.Address) + i - wU[i]] == (wmask(tx, i) ? old(tx.Data[i]) : (old(wU[i] in stor(m).data) ? old(stor(m).data[wU[i]].data[int(tx.Address) + i - wU[i]]) : 0))
// ground instance of write.inrange
//@   label C16.imc.write.first
//@   ensures result && len(tx.Data) > 0 ==> stor(m).data[wU[0]].data[int(tx.Address) - wU[0]] == (wmask(tx, 0) ? old(tx.Data[0]) : (old(wU[0] in stor(m).data) ? old(stor(m).data[wU[0]].data[int(tx.Address) - wU[0]]) : 0))
//@   label C16.imc.write.outside
//@   ensures result ==> forall k uint64 :: k in stor(m).data ==> forall j in 0..usz(m) :: !(int(tx.Address) <= k + j && k + j < int(tx.Address) + len(tx.Data)) ==> stor(m).data[k].data[j] == (old(k in stor(m).data) ? old(stor(m).data[k].data[j]) : 0)
//@   label C16.imc.write.mask.kept
//@   ensures forall i in 0..len(tx.DirtyMask) :: tx.DirtyMask[i] == old(tx.DirtyMask[i])
//@   label C16.imc.write.data.kept
//@   ensures tx.DirtyMask == nil ==> forall i in 0..len(tx.Data) :: tx.Data[i] == old(tx.Data[i])
//@   label C16.imc.write.created.fresh
//@   ensures createdFresh(m)
//@   label C16.imc.write.wf
//@   ensures memWF(m) && idGenOK()
//@   assigns elems(stor(m).data), key("E|uint8|"), canSend, sendCnt, sentTyp, sentVal, issued, key("G|github.com/sarchlab/akita/v5/timing.idGenerator|"), key("G|github.com/sarchlab/akita/v5/timing.idGeneratorInstantiated|"), key("O|timing.sequentialIDGenerator|nextID"), key("O|timing.parallelIDGenerator|nextID")
//@   loop 0: invariant memWF(m) && idGenOK() && 0 <= i && i <= len(tx.Data) && len(data) == len(tx.Data) && fresh(data)
//@   loop 0: invariant len(tx.DirtyMask) >= i
//@   label C16.imc.write.merge.first
//@   loop 0: invariant i > 0 ==> data[0] == (tx.DirtyMask[0] ? tx.Data[0] : stor(m).data[Read_rU[0]].data[int(tx.Address) - Read_rU[0]])
//@   label C16.imc.write.merge.done
//@   loop 0: invariant forall q in 0..i :: data[q] == (tx.DirtyMask[q] ? tx.Data[q] : stor(m).data[Read_rU[q]].data[int(tx.Address) + q - Read_rU[q]])
//@   label C16.imc.write.merge.todo
//@   loop 0: invariant forall q in i..len(tx.Data) :: data[q] == stor(m).data[Read_rU[q]].data[int(tx.Address) + q - Read_rU[q]]
//@   loop 0: invariant viewKept(m)
//@   loop 0: invariant createdFresh(m)
//@   loop 0: invariant forall q in 0..len(tx.Data) :: tx.Data[q] == old(tx.Data[q])

// ---- a finished transaction: ONE response of the kind of the request; reads leave the storage view alone ----
//@ func lastRspTo(m) = isRdRsp(sentOn(topP(m))) ? rdRsp(m).RspTo : wrRsp(m).RspTo
//@ func lastDst(m) = isRdRsp(sentOn(topP(m))) ? rdRsp(m).Dst : wrRsp(m).Dst
//@ pred txPanics(m, tx) = tx.IsRead ? int(tx.Address) + int(tx.AccessByteSize) > int(stor(m).capacity) : (canSend[topP(m)] && (int(tx.Address) + len(tx.Data) > int(stor(m).capacity) || (tx.DirtyMask != nil && len(tx.DirtyMask) < len(tx.Data))))
//@ fn (*memMiddleware).sendResponse
//@   property C16
//@   requires memWF(m) && idGenOK() && tx != nil
//@   requires !tx.IsRead ==> txBufOK(m, tx) && ref(tx.Data) <= allocTop
//@   witness sU map = sendWriteResponse_wU
//@   panics txPanics(m, tx)
//@   label C16.imc.rsp.progress
//@   ensures result <==> old(canSend[topP(m)])
//@   label C16.imc.rsp.once
//@   ensures result ==> oneMoreSent(topP(m))
//@   label C16.imc.rsp.blocked
//@   ensures !result ==> nothingSent() && viewKept(m)
//@   label C16.imc.rsp.kind
//@   ensures result ==> (tx.IsRead ? isRdRsp(sentOn(topP(m))) : isWrRsp(sentOn(topP(m))))
//@   label C16.imc.rsp.rspto
//@   ensures result ==> lastRspTo(m) == tx.ReqID
//@   label C16.imc.rsp.dst
//@   ensures result ==> lastDst(m) == tx.Src
//@   label C16.imc.rsp.read.len
//@   ensures result && tx.IsRead ==> len(rdRsp(m).Data) == int(tx.AccessByteSize)
//@   label C16.imc.rsp.read.view
//@   ensures result && tx.IsRead ==> forall k uint64 :: k in stor(m).data ==> forall j in 0..usz(m) :: int(tx.Address) <= k + j && k + j < int(tx.Address) + int(tx.AccessByteSize) ==> rdRsp(m).Data[k + j - int(tx.Address)] == stor(m).data[k].data[j]
//@   label C16.imc.rsp.read.storage.kept
//@   ensures tx.IsRead ==> viewKept(m)
//@   label C16.imc.rsp.write.units.kept
//@   ensures forall k uint64 :: old(k in stor(m).data) ==> (k in stor(m).data) && stor(m).data[k] == old(stor(m).data[k])
//@   label C16.imc.rsp.write.covered
//@   ensures result && !tx.IsRead ==> forall i in 0..len(tx.Data) :: (sU[i] in stor(m).data) && 0 <= sU[i] && sU[i] <= int(tx.Address) + i && int(tx.Address) + i < sU[i] + usz(m)
//@   label C16.imc.rsp.write.inrange
//@   ensures result && !tx.IsRead ==> forall i in 0..len(tx.Data) :: stor(m).data[sU[i]].data[int(tx.Address) + i - sU[i]] == (wmask(tx, i) ? old(tx.Data[i]) : (old(sU[i] in stor(m).data) ? old(stor(m).data[sU[i]].data[int(tx.Address) + i - sU[i]]) : 0))
//@   label C16.imc.rsp.write.outside
//@   ensures result && !tx.IsRead ==> forall k uint64 :: k in stor(m).data ==> forall j in 0..usz(m) :: !(int(tx.Address) <= k + j && k + j < int(tx.Address) + len(tx.Data)) ==> stor(m).data[k].data[j] == (old(k in stor(m).data) ? old(stor(m).data[k].data[j]) : 0)
//@   label C16.imc.rsp.created.fresh
//@   ensures createdFresh(m)
//@   label C16.imc.rsp.wf
//@   ensures memWF(m) && idGenOK()
//@   assigns elems(stor(m).data), key("E|uint8|"), canSend, sendCnt, sentTyp, sentVal, issued, key("G|github.com/sarchlab/akita/v5/timing.idGenerator|"), key("G|github.com/sarchlab/akita/v5/timing.idGeneratorInstantiated|"), key("O|timing.sequentialIDGenerator|nextID"), key("O|timing.parallelIDGenerator|nextID")

// ---- intake: the transaction remembers exactly the request's address, size, ID, source, data and mask ----
//@ pred isRd(x) = hastype(x, "memprotocol.ReadReq")
//@ pred isWr(x) = hastype(x, "memprotocol.WriteReq")
//@ func rdOf(x) = as(x, "memprotocol.ReadReq")
//@ func wrOf(x) = as(x, "memprotocol.WriteReq")
//@ fn (*memMiddleware).msgToInflightTransaction
//@   property C16
//@   requires m.comp != nil
//@   panics !isRd(msg) && !isWr(msg)
//@   label C16.imc.intake.read
//@   ensures isRd(msg) ==> result.IsRead && result.Address == rdOf(msg).Address && result.AccessByteSize == rdOf(msg).AccessByteSize && result.ReqID == rdOf(msg).ID && result.Src == rdOf(msg).Src
//@   label C16.imc.intake.write
//@   ensures isWr(msg) ==> !result.IsRead && result.Address == wrOf(msg).Address && int(result.AccessByteSize) == len(wrOf(msg).Data) && result.ReqID == wrOf(msg).ID && result.Src == wrOf(msg).Src
//@   label C16.imc.intake.write.data
//@   ensures isWr(msg) ==> ref(result.Data) == ref(wrOf(msg).Data) && off(result.Data) == off(wrOf(msg).Data) && len(result.Data) == len(wrOf(msg).Data)
//@   label C16.imc.intake.write.mask
//@   ensures isWr(msg) ==> ref(result.DirtyMask) == ref(wrOf(msg).DirtyMask) && off(result.DirtyMask) == off(wrOf(msg).DirtyMask) && len(result.DirtyMask) == len(wrOf(msg).DirtyMask) && ((result.DirtyMask == nil) <==> (wrOf(msg).DirtyMask == nil))
//@   label C16.imc.intake.latency
//@   ensures result.CycleLeft == m.comp.spec.Latency
//@   assigns nothing

// ---- intake loop: every retrieved request becomes exactly ONE in-flight transaction; the ones already there stay ----
//@ func ifl(m) = m.comp.State.InflightTransactions
//@ pred iflKept(m, n) = forall t in 0..n :: ifl(m)[t].ReqID == old(ifl(m)[t].ReqID) && ifl(m)[t].Src == old(ifl(m)[t].Src) && ifl(m)[t].IsRead == old(ifl(m)[t].IsRead) && ifl(m)[t].Address == old(ifl(m)[t].Address) && ifl(m)[t].AccessByteSize == old(ifl(m)[t].AccessByteSize) && ifl(m)[t].CycleLeft == old(ifl(m)[t].CycleLeft)
//@ fn (*memMiddleware).takeNewReqs
//@   property C16
//@   requires imcWF(m) && len(ifl(m)) <= cap(ifl(m))
//@   panics any
//@   label C16.imc.intake.disabled
//@   ensures old(m.comp.State.ControlState) != memcontrolprotocol.StateEnabled ==> !madeProgress && nothingRetrieved() && len(ifl(m)) == old(len(ifl(m)))
//@   label C16.imc.intake.count
//@   ensures retrCnt[topP(m)] - old(retrCnt)[topP(m)] == len(ifl(m)) - old(len(ifl(m)))
//@   label C16.imc.intake.others
//@   ensures forall p int :: p != topP(m) ==> retrCnt[p] == old(retrCnt)[p]
//@   label C16.imc.intake.kept
//@   ensures iflKept(m, old(len(ifl(m))))
//@   label C16.imc.intake.progress
//@   ensures madeProgress <==> len(ifl(m)) > old(len(ifl(m)))
//@   label C16.imc.intake.nosend
//@   ensures nothingSent()
//@   assigns m.comp.State.InflightTransactions, elems(m.comp.State.InflightTransactions), inTyp, inVal, retrCnt
//@   loop 0: invariant imcWF(m) && 0 <= i && len(ifl(m)) <= cap(ifl(m)) && old(len(ifl(m))) <= len(ifl(m))
//@   label C16.imc.intake.count.inv
//@   loop 0: invariant retrCnt[topP(m)] - old(retrCnt)[topP(m)] == len(ifl(m)) - old(len(ifl(m)))
//@   loop 0: invariant forall p int :: p != topP(m) ==> retrCnt[p] == old(retrCnt)[p]
//@   loop 0: invariant iflKept(m, old(len(ifl(m))))
//@   loop 0: invariant madeProgress <==> len(ifl(m)) > old(len(ifl(m)))
//@   loop 0: invariant nothingSent()
//@   loop 0: invariant ref(ifl(m)) == old(ref(ifl(m))) || fresh(ifl(m))

// ---- countdown loop: a transaction leaves the in-flight list IFF its response was sent (one response each); a busy port
// delays every finished transaction and drops none; a paused controller does nothing ----
//@ pred txOK(m, t) = (ifl(m)[t].IsRead ==> int(ifl(m)[t].Address) + int(ifl(m)[t].AccessByteSize) <= int(stor(m).capacity)) && (!ifl(m)[t].IsRead ==> int(ifl(m)[t].Address) + len(ifl(m)[t].Data) <= int(stor(m).capacity) && (ifl(m)[t].DirtyMask == nil || len(ifl(m)[t].DirtyMask) >= len(ifl(m)[t].Data)))
//@ pred txBufsOK(m) = forall t in 0..len(ifl(m)) :: forall k uint64 :: k in stor(m).data ==> ref(stor(m).data[k].data) != ref(ifl(m)[t].Data)
//@ pred txBufsOld(m, top) = forall t in 0..len(ifl(m)) :: ref(ifl(m)[t].Data) <= top
//@ pred othersSendKept(m) = forall p int :: p != topP(m) ==> sendCnt[p] == old(sendCnt)[p]
//@ fn (*memMiddleware).processCountdowns
//@   property C16
//@   requires memWF(m) && idGenOK() && ref(ifl(m)) <= allocTop && len(ifl(m)) <= 1<<40
//@   requires forall t in 0..len(ifl(m)) :: txOK(m, t)
//@   requires txBufsOK(m) && txBufsOld(m, allocTop)
//@   label C16.imc.countdown.paused
//@   ensures old(m.comp.State.ControlState) == memcontrolprotocol.StatePaused ==> !result && nothingSent() && len(ifl(m)) == old(len(ifl(m))) && ref(ifl(m)) == old(ref(ifl(m))) && viewKept(m)
//@   label C16.imc.countdown.once
//@   ensures old(m.comp.State.ControlState) != memcontrolprotocol.StatePaused ==> sendCnt[topP(m)] - old(sendCnt)[topP(m)] == old(len(ifl(m))) - len(ifl(m))
//@   label C16.imc.countdown.others
//@   ensures othersSendKept(m)
//@   label C16.imc.countdown.blocked
//@   ensures !old(canSend[topP(m)]) ==> sendCnt == old(sendCnt) && len(ifl(m)) == old(len(ifl(m))) && viewKept(m)
//@   label C16.imc.countdown.wf
//@   ensures memWF(m) && idGenOK()
//@   assigns m.comp.State.InflightTransactions, elems(stor(m).data), key("E|uint8|"), canSend, sendCnt, sentTyp, sentVal, issued, key("G|github.com/sarchlab/akita/v5/timing.idGenerator|"), key("G|github.com/sarchlab/akita/v5/timing.idGeneratorInstantiated|"), key("O|timing.sequentialIDGenerator|nextID"), key("O|timing.parallelIDGenerator|nextID")
//@   loop 0: invariant memWF(m) && idGenOK() && -1 <= rangeindex && rangeindex < len(ifl(m))
//@   loop 0: invariant ref(ifl(m)) == old(ref(ifl(m))) && off(ifl(m)) == old(off(ifl(m))) && len(ifl(m)) == old(len(ifl(m))) && ref(ifl(m)) <= old(allocTop)
//@   loop 0: invariant fresh(remaining) && len(remaining) <= rangeindex + 1 && len(remaining) <= cap(remaining)
//@   loop 0: invariant forall t in 0..len(ifl(m)) :: txOK(m, t)
//@   loop 0: invariant txBufsOK(m) && txBufsOld(m, old(allocTop))
//@   label C16.imc.countdown.once.inv
//@   loop 0: invariant sendCnt[topP(m)] == old(sendCnt)[topP(m)] + (rangeindex + 1) - len(remaining)
//@   loop 0: invariant othersSendKept(m)
//@   label C16.imc.countdown.blocked.inv
//@   loop 0: invariant !old(canSend[topP(m)]) ==> sendCnt == old(sendCnt) && canSend == old(canSend) && len(remaining) == rangeindex + 1 && viewKept(m)
