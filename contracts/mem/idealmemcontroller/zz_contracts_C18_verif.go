//go:build verif

// Contracts for package idealmemcontroller, property C18 (comment-only; read by /verif/engine, never compiled into a build).
// C18 (per-step part): the control middleware answers each control request exactly once, echoing its command / ID / source,
// refuses unsupported verbs, and moves ControlState as mem/CONTROL_PROTOCOL.md says.
// View: the "Control" port's incoming head is the request being handled; m.comp.State.ControlState is the lifecycle state;
// m.comp.State.InflightTransactions is the in-flight bookkeeping (quiescent <==> empty).
package idealmemcontroller

// ---- ghost view of the ports (same names and meaning as mem/rob's C21 file; ghost state is per package) ----
//@ ghost var canSend set
//@ ghost var sendCnt map
//@ ghost var sentTyp map2
//@ ghost var sentVal map2
//@ ghost var inTyp map
//@ ghost var inVal map
//@ ghost var retrCnt map

//@ func ctlP(m) = ifaceval(m.comp.TickingComponent.PortOwnerBase.ports["Control"])
//@ func topP(m) = ifaceval(m.comp.TickingComponent.PortOwnerBase.ports["Top"])
//@ pred imcWF(m) = m.comp != nil && m.comp.TickingComponent != nil && m.comp.TickingComponent.PortOwnerBase != nil && ("Control" in m.comp.TickingComponent.PortOwnerBase.ports) && ("Top" in m.comp.TickingComponent.PortOwnerBase.ports) && ctlP(m) != topP(m)

// ---- trusted: messaging.Port is an interface (any implementation); sequential reading of one component's tick ----
//@ iface messaging.Port.CanSend()
//@   trusted
//@   ensures result <==> canSend[ifaceval(self)]
//@   assigns nothing
//@ iface messaging.Port.Send(msg)
//@   trusted
//@   panics !canSend[ifaceval(self)]
//@   ensures sendCnt == upd(old(sendCnt), ifaceval(self), old(sendCnt)[ifaceval(self)] + 1)
//@   ensures sentTyp == upd(old(sentTyp), ifaceval(self), upd(old(sentTyp)[ifaceval(self)], old(sendCnt)[ifaceval(self)], typeid(msg)))
//@   ensures sentVal == upd(old(sentVal), ifaceval(self), upd(old(sentVal)[ifaceval(self)], old(sendCnt)[ifaceval(self)], ifaceval(msg)))
//@   assigns canSend, sendCnt, sentTyp, sentVal
//@ iface messaging.Port.PeekIncoming()
//@   trusted
//@   ensures typeid(result) == inTyp[ifaceval(self)] && ifaceval(result) == inVal[ifaceval(self)] && (typeid(result) == 0 ==> ifaceval(result) == 0)
//@   assigns nothing
//@ iface messaging.Port.RetrieveIncoming()
//@   trusted
//@   ensures typeid(result) == old(inTyp)[ifaceval(self)] && ifaceval(result) == old(inVal)[ifaceval(self)] && (typeid(result) == 0 ==> ifaceval(result) == 0)
//@   ensures retrCnt == upd(old(retrCnt), ifaceval(self), old(retrCnt)[ifaceval(self)] + (old(inTyp)[ifaceval(self)] == 0 ? 0 : 1))
//@   ensures forall p int :: p != ifaceval(self) ==> inTyp[p] == old(inTyp)[p] && inVal[p] == old(inVal)[p]
//@   assigns inTyp, inVal, retrCnt
//@ ufunc portRemote(p) int
//@ iface messaging.Port.AsRemote()
//@   trusted
//@   assigns nothing
//@   ensures result == portRemote(self)

//@ ext messaging.(PortOwnerBase).GetPortByName(po, name)
//@   trusted
//@   pure
//@   panics !(name in po.ports)
//@   ensures result == po.ports[name]
// tracing hooks are arbitrary user callbacks: assumed not to touch the component, its ports or the ID generator
//@ ext tracing.EndReqInOnReset(domain, id)
//@   trusted
//@   assigns nothing

// ---- trusted: the ID generator is an interface value (C41) ----
//@ ghost var issued set
//@ iface timing.IDGenerator.Generate()
//@   trusted
//@   ensures !old(issued)[result] && issued == upd(old(issued), result, true)
//@   assigns issued, key("O|timing.sequentialIDGenerator|nextID"), key("O|timing.parallelIDGenerator|nextID")
//@ pred idGenOK() = timing.idGeneratorInstantiated ==> timing.idGenerator != nil

// ---- views ----
//@ func sentAt(p, n) = mkiface(sentTyp[p][n], sentVal[p][n])
//@ func sentOn(p) = sentAt(p, sendCnt[p] - 1)
//@ func rspOn(p) = as(sentOn(p), "memcontrolprotocol.Rsp")
//@ pred isRspMsg(x) = hastype(x, "memcontrolprotocol.Rsp")
//@ pred oneMoreSent(p) = sendCnt == upd(old(sendCnt), p, old(sendCnt)[p] + 1) && sentTyp == upd(old(sentTyp), p, upd(old(sentTyp)[p], old(sendCnt)[p], sentTyp[p][old(sendCnt)[p]])) && sentVal == upd(old(sentVal), p, upd(old(sentVal)[p], old(sendCnt)[p], sentVal[p][old(sendCnt)[p]]))
//@ pred nothingSent() = sendCnt == old(sendCnt) && sentTyp == old(sentTyp) && sentVal == old(sentVal) && canSend == old(canSend)
//@ pred nothingRetrieved() = inTyp == old(inTyp) && inVal == old(inVal) && retrCnt == old(retrCnt)
//@ pred oneRetrieved(p) = retrCnt == upd(old(retrCnt), p, old(retrCnt)[p] + 1)
//@ func headOf(p) = mkiface(inTyp[p], inVal[p])
//@ pred isReq(x) = hastype(x, "memcontrolprotocol.Req")
//@ func reqOf(x) = as(x, "memcontrolprotocol.Req")
//@ pred supported(c) = c == memcontrolprotocol.CmdPause || c == memcontrolprotocol.CmdDrain || c == memcontrolprotocol.CmdEnable || c == memcontrolprotocol.CmdReset
//@ pred stateKept(m) = unchanged(m.comp.State.ControlState) && unchanged(m.comp.State.CurrentCmdID) && unchanged(m.comp.State.CurrentCmdSrc) && unchanged(m.comp.State.InflightTransactions)
// the response sent last on the control port answers (cmd, id, src) with (success, err)
//@ pred answers(m, cmd, id, src, success, err) = isRspMsg(sentOn(ctlP(m))) && rspOn(ctlP(m)).Command == cmd && rspOn(ctlP(m)).RspTo == id && rspOn(ctlP(m)).Dst == src && rspOn(ctlP(m)).Src == portRemote(mkiface(typeid(m.comp.TickingComponent.PortOwnerBase.ports["Control"]), ctlP(m))) && rspOn(ctlP(m)).Success == success && rspOn(ctlP(m)).Error == err

//@ fn (*ctrlMiddleware).ctrlPort
//@   property C18
//@   requires imcWF(m)
//@   label C18.imc.ctrlport
//@   ensures result == m.comp.TickingComponent.PortOwnerBase.ports["Control"]
//@   assigns nothing

//@ fn makeRsp
//@   property C18
//@   requires idGenOK()
//@   label C18.imc.mkrsp.fields
//@   ensures result.Command == cmd && result.Success == success && result.Error == errStr && result.Dst == dst && result.RspTo == rspTo && result.Src == portRemote(port)
//@   label C18.imc.mkrsp.idgen
//@   ensures idGenOK()
//@   assigns issued, key("G|github.com/sarchlab/akita/v5/timing.idGenerator|"), key("G|github.com/sarchlab/akita/v5/timing.idGeneratorInstantiated|"), key("O|timing.sequentialIDGenerator|nextID"), key("O|timing.parallelIDGenerator|nextID")

// ---- sync verbs: handled only when the control port can send; then ONE response, the request leaves the head ----
//@ fn (*ctrlMiddleware).handlePause
//@   property C18
//@   requires imcWF(m) && idGenOK() && inTyp[ctlP(m)] != 0
//@   label C18.imc.pause.progress
//@   ensures result <==> old(canSend[ctlP(m)])
//@   label C18.imc.pause.once
//@   ensures result ==> oneMoreSent(ctlP(m)) && oneRetrieved(ctlP(m))
//@   label C18.imc.pause.blocked
//@   ensures !result ==> nothingSent() && nothingRetrieved() && stateKept(m)
//@   label C18.imc.pause.echo
//@   ensures result ==> answers(m, memcontrolprotocol.CmdPause, req.ID, req.Src, true, "")
//@   label C18.imc.pause.state
//@   ensures result ==> m.comp.State.ControlState == memcontrolprotocol.StatePaused && unchanged(m.comp.State.InflightTransactions)
//@   label C18.imc.pause.idgen
//@   ensures idGenOK()
//@   assigns m.comp.State.ControlState, canSend, sendCnt, sentTyp, sentVal, inTyp, inVal, retrCnt, issued, key("G|github.com/sarchlab/akita/v5/timing.idGenerator|"), key("G|github.com/sarchlab/akita/v5/timing.idGeneratorInstantiated|"), key("O|timing.sequentialIDGenerator|nextID"), key("O|timing.parallelIDGenerator|nextID")

//@ fn (*ctrlMiddleware).handleEnable
//@   property C18
//@   requires imcWF(m) && idGenOK() && inTyp[ctlP(m)] != 0
//@   label C18.imc.enable.progress
//@   ensures result <==> old(canSend[ctlP(m)])
//@   label C18.imc.enable.once
//@   ensures result ==> oneMoreSent(ctlP(m)) && oneRetrieved(ctlP(m))
//@   label C18.imc.enable.blocked
//@   ensures !result ==> nothingSent() && nothingRetrieved() && stateKept(m)
//@   label C18.imc.enable.echo
//@   ensures result ==> answers(m, memcontrolprotocol.CmdEnable, req.ID, req.Src, true, "")
//@   label C18.imc.enable.state
//@   ensures result ==> m.comp.State.ControlState == memcontrolprotocol.StateEnabled && unchanged(m.comp.State.InflightTransactions)
//@   label C18.imc.enable.idgen
//@   ensures idGenOK()
//@   assigns m.comp.State.ControlState, canSend, sendCnt, sentTyp, sentVal, inTyp, inVal, retrCnt, issued, key("G|github.com/sarchlab/akita/v5/timing.idGenerator|"), key("G|github.com/sarchlab/akita/v5/timing.idGeneratorInstantiated|"), key("O|timing.sequentialIDGenerator|nextID"), key("O|timing.parallelIDGenerator|nextID")

//@ fn (*ctrlMiddleware).handleUnsupported
//@   property C18
//@   requires imcWF(m) && idGenOK() && inTyp[ctlP(m)] != 0
//@   label C18.imc.unsupported.progress
//@   ensures result <==> old(canSend[ctlP(m)])
//@   label C18.imc.unsupported.once
//@   ensures result ==> oneMoreSent(ctlP(m)) && oneRetrieved(ctlP(m))
//@   label C18.imc.unsupported.blocked
//@   ensures !result ==> nothingSent() && nothingRetrieved()
//@   label C18.imc.unsupported.echo
//@   ensures result ==> answers(m, req.Command, req.ID, req.Src, false, memcontrolprotocol.ErrUnsupported)
//@   label C18.imc.unsupported.state
//@   ensures stateKept(m)
//@   label C18.imc.unsupported.idgen
//@   ensures idGenOK()
//@   assigns canSend, sendCnt, sentTyp, sentVal, inTyp, inVal, retrCnt, issued, key("G|github.com/sarchlab/akita/v5/timing.idGenerator|"), key("G|github.com/sarchlab/akita/v5/timing.idGeneratorInstantiated|"), key("O|timing.sequentialIDGenerator|nextID"), key("O|timing.parallelIDGenerator|nextID")

// ---- drain: accepted silently (no response yet); the request's ID and source are remembered for the deferred ack ----
//@ fn (*ctrlMiddleware).handleDrain
//@   property C18
//@   requires imcWF(m) && inTyp[ctlP(m)] != 0
//@   label C18.imc.drain.accept
//@   ensures result && nothingSent() && oneRetrieved(ctlP(m))
//@   label C18.imc.drain.remember
//@   ensures m.comp.State.ControlState == memcontrolprotocol.StateDraining && m.comp.State.CurrentCmdID == req.ID && m.comp.State.CurrentCmdSrc == req.Src && unchanged(m.comp.State.InflightTransactions)
//@   assigns m.comp.State.ControlState, m.comp.State.CurrentCmdID, m.comp.State.CurrentCmdSrc, inTyp, inVal, retrCnt

//@ fn (*ctrlMiddleware).endInflightTasks
//@   property C18
//@   requires m.comp != nil
//@   assigns nothing
//@   loop 0: invariant -1 <= rangeindex && rangeindex < len(m.comp.State.InflightTransactions)

// ---- reset: in-flight bookkeeping cleared, Top drained, agent enabled, then ONE ack ----
//@ pred othersKept(m) = forall p int :: p != topP(m) && p != ctlP(m) ==> inTyp[p] == old(inTyp)[p] && inVal[p] == old(inVal)[p] && retrCnt[p] == old(retrCnt)[p]
//@ fn (*ctrlMiddleware).handleReset
//@   property C18
//@   requires imcWF(m) && idGenOK() && inTyp[ctlP(m)] != 0
//@   label C18.imc.reset.progress
//@   ensures result <==> old(canSend[ctlP(m)])
//@   label C18.imc.reset.once
//@   ensures result ==> oneMoreSent(ctlP(m)) && retrCnt[ctlP(m)] == old(retrCnt)[ctlP(m)] + 1 && othersKept(m)
//@   label C18.imc.reset.blocked
//@   ensures !result ==> nothingSent() && nothingRetrieved() && stateKept(m)
//@   label C18.imc.reset.echo
//@   ensures result ==> answers(m, memcontrolprotocol.CmdReset, req.ID, req.Src, true, "")
//@   label C18.imc.reset.state
//@   ensures result ==> m.comp.State.ControlState == memcontrolprotocol.StateEnabled && len(m.comp.State.InflightTransactions) == 0 && m.comp.State.CurrentCmdID == 0 && m.comp.State.CurrentCmdSrc == ""
//@   label C18.imc.reset.topdrained
//@   ensures result ==> inTyp[topP(m)] == 0
//@   label C18.imc.reset.idgen
//@   ensures idGenOK()
//@   assigns m.comp.State.ControlState, m.comp.State.CurrentCmdID, m.comp.State.CurrentCmdSrc, m.comp.State.InflightTransactions, canSend, sendCnt, sentTyp, sentVal, inTyp, inVal, retrCnt, issued, key("G|github.com/sarchlab/akita/v5/timing.idGenerator|"), key("G|github.com/sarchlab/akita/v5/timing.idGeneratorInstantiated|"), key("O|timing.sequentialIDGenerator|nextID"), key("O|timing.parallelIDGenerator|nextID")
//@   loop 0: invariant imcWF(m) && idGenOK() && top == m.comp.TickingComponent.PortOwnerBase.ports["Top"]
//@   loop 0: invariant inTyp[ctlP(m)] == old(inTyp)[ctlP(m)] && inVal[ctlP(m)] == old(inVal)[ctlP(m)] && retrCnt[ctlP(m)] == old(retrCnt)[ctlP(m)]
//@   loop 0: invariant othersKept(m)
//@   loop 0: invariant sendCnt == old(sendCnt) && sentTyp == old(sentTyp) && sentVal == old(sentVal) && canSend == old(canSend)
//@   loop 0: invariant m.comp.State.ControlState == memcontrolprotocol.StateEnabled && len(m.comp.State.InflightTransactions) == 0 && m.comp.State.CurrentCmdID == 0 && m.comp.State.CurrentCmdSrc == ""

// ---- deferred drain ack: only when quiescent (no in-flight transaction) and the port can send; lands in Paused ----
//@ fn (*ctrlMiddleware).handleStateUpdate
//@   property C18
//@   requires imcWF(m) && idGenOK()
//@   label C18.imc.drain.progress
//@   ensures result <==> old(m.comp.State.ControlState == memcontrolprotocol.StateDraining && len(m.comp.State.InflightTransactions) == 0 && canSend[ctlP(m)])
//@   label C18.imc.drain.once
//@   ensures (result ==> oneMoreSent(ctlP(m))) && nothingRetrieved()
//@   label C18.imc.drain.echo
//@   ensures result ==> answers(m, memcontrolprotocol.CmdDrain, old(m.comp.State.CurrentCmdID), old(m.comp.State.CurrentCmdSrc), true, "")
//@   label C18.imc.drain
//@   ensures result ==> m.comp.State.ControlState == memcontrolprotocol.StatePaused && len(m.comp.State.InflightTransactions) == 0 && unchanged(m.comp.State.InflightTransactions)
//@   label C18.imc.drain.wait
//@   ensures !result ==> nothingSent() && stateKept(m)
//@   label C18.imc.drain.idgen
//@   ensures idGenOK()
//@   assigns m.comp.State.ControlState, canSend, sendCnt, sentTyp, sentVal, issued, key("G|github.com/sarchlab/akita/v5/timing.idGenerator|"), key("G|github.com/sarchlab/akita/v5/timing.idGeneratorInstantiated|"), key("O|timing.sequentialIDGenerator|nextID"), key("O|timing.parallelIDGenerator|nextID")

// ---- one control step: the message at the head of the Control port ----
//@ func hd(m) = old(headOf(ctlP(m)))
//@ func hdCmd(m) = reqOf(hd(m)).Command
//@ pred hdSync(m) = isReq(hd(m)) && hdCmd(m) != memcontrolprotocol.CmdDrain
//@ fn (*ctrlMiddleware).handleIncomingCommands
//@   property C18
//@   requires imcWF(m) && idGenOK()
//@   label C18.imc.idle
//@   ensures old(inTyp)[ctlP(m)] == 0 ==> !result && nothingSent() && nothingRetrieved() && stateKept(m)
//@   label C18.imc.nonreq
//@   ensures old(inTyp)[ctlP(m)] != 0 && !isReq(hd(m)) ==> result && nothingSent() && oneRetrieved(ctlP(m)) && stateKept(m)
//@   label C18.imc.once
//@   ensures hdSync(m) ==> (result <==> old(canSend[ctlP(m)])) && (result ==> oneMoreSent(ctlP(m)) && retrCnt[ctlP(m)] == old(retrCnt)[ctlP(m)] + 1)
//@   label C18.imc.once.blocked
//@   ensures hdSync(m) && !result ==> nothingSent() && nothingRetrieved() && stateKept(m)
//@   label C18.imc.sendframe
//@   ensures nothingSent() || oneMoreSent(ctlP(m))
//@   label C18.imc.echo
//@   ensures hdSync(m) && result ==> isRspMsg(sentOn(ctlP(m))) && rspOn(ctlP(m)).Command == hdCmd(m) && rspOn(ctlP(m)).RspTo == reqOf(hd(m)).ID && rspOn(ctlP(m)).Dst == reqOf(hd(m)).Src
//@   label C18.imc.unsupported
//@   ensures hdSync(m) && result && !supported(hdCmd(m)) ==> !rspOn(ctlP(m)).Success && rspOn(ctlP(m)).Error == memcontrolprotocol.ErrUnsupported && stateKept(m)
//@   label C18.imc.supported
//@   ensures hdSync(m) && result && supported(hdCmd(m)) ==> rspOn(ctlP(m)).Success && rspOn(ctlP(m)).Error == ""
//@   label C18.imc.pause
//@   ensures hdSync(m) && result && hdCmd(m) == memcontrolprotocol.CmdPause ==> m.comp.State.ControlState == memcontrolprotocol.StatePaused && unchanged(m.comp.State.InflightTransactions)
//@   label C18.imc.enable
//@   ensures hdSync(m) && result && hdCmd(m) == memcontrolprotocol.CmdEnable ==> m.comp.State.ControlState == memcontrolprotocol.StateEnabled && unchanged(m.comp.State.InflightTransactions)
//@   label C18.imc.reset
//@   ensures hdSync(m) && result && hdCmd(m) == memcontrolprotocol.CmdReset ==> m.comp.State.ControlState == memcontrolprotocol.StateEnabled && len(m.comp.State.InflightTransactions) == 0 && m.comp.State.CurrentCmdID == 0 && inTyp[topP(m)] == 0
//@   label C18.imc.drain.accepted
//@   ensures isReq(hd(m)) && hdCmd(m) == memcontrolprotocol.CmdDrain ==> result && nothingSent() && oneRetrieved(ctlP(m)) && m.comp.State.ControlState == memcontrolprotocol.StateDraining && m.comp.State.CurrentCmdID == reqOf(hd(m)).ID && m.comp.State.CurrentCmdSrc == reqOf(hd(m)).Src && unchanged(m.comp.State.InflightTransactions)
//@   label C18.imc.step.idgen
//@   ensures idGenOK()
//@   assigns m.comp.State.ControlState, m.comp.State.CurrentCmdID, m.comp.State.CurrentCmdSrc, m.comp.State.InflightTransactions, canSend, sendCnt, sentTyp, sentVal, inTyp, inVal, retrCnt, issued, key("G|github.com/sarchlab/akita/v5/timing.idGenerator|"), key("G|github.com/sarchlab/akita/v5/timing.idGeneratorInstantiated|"), key("O|timing.sequentialIDGenerator|nextID"), key("O|timing.parallelIDGenerator|nextID")

// ---- one tick: commands are taken one at a time; while a drain is pending no request is retrieved ----
//@ pred drainPending(m) = m.comp.State.ControlState == memcontrolprotocol.StateDraining && !(len(m.comp.State.InflightTransactions) == 0 && canSend[ctlP(m)])
//@ pred drainDue(m) = m.comp.State.ControlState == memcontrolprotocol.StateDraining && len(m.comp.State.InflightTransactions) == 0 && canSend[ctlP(m)]
//@ fn (*ctrlMiddleware).Tick
//@   property C18
//@   requires imcWF(m) && idGenOK()
//@   label C18.imc.serial
//@   ensures old(drainPending(m)) ==> !madeProgress && nothingSent() && nothingRetrieved() && stateKept(m)
//@   label C18.imc.serial.one
//@   ensures old(retrCnt)[ctlP(m)] <= retrCnt[ctlP(m)] && retrCnt[ctlP(m)] <= old(retrCnt)[ctlP(m)] + 1
//@   label C18.imc.serial.ackfirst
//@   ensures old(drainDue(m)) ==> sendCnt[ctlP(m)] > old(sendCnt)[ctlP(m)] && isRspMsg(sentAt(ctlP(m), old(sendCnt)[ctlP(m)])) && as(sentAt(ctlP(m), old(sendCnt)[ctlP(m)]), "memcontrolprotocol.Rsp").Command == memcontrolprotocol.CmdDrain && as(sentAt(ctlP(m), old(sendCnt)[ctlP(m)]), "memcontrolprotocol.Rsp").RspTo == old(m.comp.State.CurrentCmdID)
//@   label C18.imc.serial.sends
//@   ensures old(sendCnt)[ctlP(m)] <= sendCnt[ctlP(m)] && sendCnt[ctlP(m)] <= old(sendCnt)[ctlP(m)] + (old(drainDue(m)) ? 2 : 1)
//@   label C18.imc.tick.idgen
//@   ensures idGenOK()
//@   assigns m.comp.State.ControlState, m.comp.State.CurrentCmdID, m.comp.State.CurrentCmdSrc, m.comp.State.InflightTransactions, canSend, sendCnt, sentTyp, sentVal, inTyp, inVal, retrCnt, issued, key("G|github.com/sarchlab/akita/v5/timing.idGenerator|"), key("G|github.com/sarchlab/akita/v5/timing.idGeneratorInstantiated|"), key("O|timing.sequentialIDGenerator|nextID"), key("O|timing.parallelIDGenerator|nextID")
