//go:build verif

// Contracts for package mem, property C03 (comment-only; read by /verif/engine, never compiled into a build).
// C03, decidable part: "No result depends on map iteration order" (the engine iterates a map in an ARBITRARY order).
//
// Storage.SaveCheckpoint ranges over the map s.data to collect the allocated unit addresses, sorts them and then writes
// (address, unit bytes) for addrs[0], addrs[1], ... The only thing the iteration order can influence is the local
// `addrs`; it is pinned as a function of the map's contents at EVERY return (error returns included):
//   * strictly increasing, every element a key of s.data, every key of s.data present
// i.e. addrs is THE sorted key list, so the stream of writes it drives is the same for every iteration order.
// (The bytes handed to the io.Writer cannot be logged: io.Writer.Write's shared contract in _std has no ghost log.)
package mem

//@ fn writeUint64
//@   property C03
//@   assigns nothing

//@ fn (*Storage).SaveCheckpoint
//@   property C03
//@   requires s != nil && 0 <= len(s.data) && len(s.data) < 4611686018427387904      // true of every Go map; needed for make's capacity
//@   requires forall k uint64 :: (k in s.data) ==> s.data[k] != nil
//@   label C03.SaveCheckpoint.deterministic
//@   ensures forall k in 0..len(addrs) - 1 :: addrs[k] < addrs[k+1]
//@   label C03.SaveCheckpoint.keys
//@   ensures forall k in 0..len(addrs) :: (addrs[k] in s.data)
//@   label C03.SaveCheckpoint.complete
//@   ensures forall a uint64 :: (a in s.data) ==> 0 <= Slice_inv[where[a]] && Slice_inv[where[a]] < len(addrs) && addrs[Slice_inv[where[a]]] == a
//@   assigns nothing
//@   loop 0: ghost where = idperm
//@   loop 0: backedge where = upd(where, addr, athead(len(addrs)))
//@   loop 0: invariant fresh(addrs) && off(addrs) == 0
//@   loop 0: invariant forall i in 0..len(addrs) :: (addrs[i] in s.data) && visited(addrs[i]) && where[addrs[i]] == i
//@   label C03.SaveCheckpoint.complete.collect
//@   loop 0: invariant forall a uint64 :: visited(a) ==> 0 <= where[a] && where[a] < len(addrs) && addrs[where[a]] == a
//@   loop 1: invariant -1 <= rangeindex && rangeindex < len(addrs) && fresh(addrs)
//@   label C03.SaveCheckpoint.deterministic.atloop
//@   loop 1: invariant forall i in 0..len(addrs) - 1 :: addrs[i] < addrs[i+1]
// ground instance of the invariant above (so that a broken order is refuted with a counterexample, not merely undecided)
//@   label C03.SaveCheckpoint.deterministic.atloop.first2
//@   loop 1: invariant len(addrs) >= 2 ==> addrs[0] < addrs[1]
//@   loop 1: invariant forall i in 0..len(addrs) :: (addrs[i] in s.data)
//@   label C03.SaveCheckpoint.complete.atloop
//@   loop 1: invariant forall a uint64 :: (a in s.data) ==> 0 <= Slice_inv[where[a]] && Slice_inv[where[a]] < len(addrs) && addrs[Slice_inv[where[a]]] == a
