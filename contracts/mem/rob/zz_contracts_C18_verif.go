//go:build verif

// Contracts for package rob, property C18 (comment-only; read by /verif/engine, never compiled into a build).
// C18 (per-step part): the control middleware answers each control request exactly once, echoing its command / ID / source,
// refuses unsupported verbs, and moves ControlState as mem/CONTROL_PROTOCOL.md says.
// View: the "Control" port's incoming head is the request being handled; m.comp.State.ControlState is the lifecycle state;
// m.comp.State.Transactions is the in-flight bookkeeping (quiescent <==> empty).
// The ghost port view, robWF/topP/botP, the trusted port/ID-generator contracts and idGenOK are those of the C21 file.
package rob

// tracing entry points end in arbitrary user hooks: assumed not to touch the component, its ports or the ID generator
//@ ext tracing.EndReqInOnReset(domain, id)
//@   trusted
//@   assigns nothing
//@ ext tracing.EndTaskOnReset(domain, taskID)
//@   trusted
//@   assigns nothing

// ---- views (c18-prefixed: no clash with the package's other contract files) ----
//@ func c18Port(m, n) = m.comp.TickingComponent.PortOwnerBase.ports[n]
//@ func c18Ctl(m) = ifaceval(c18Port(m, "Control"))
//@ func c18SentAt(p, n) = mkiface(sentTyp[p][n], sentVal[p][n])
//@ func c18Last(p) = c18SentAt(p, sendCnt[p] - 1)
//@ func c18Rsp(p) = as(c18Last(p), "memcontrolprotocol.Rsp")
//@ pred c18IsRsp(x) = hastype(x, "memcontrolprotocol.Rsp")
//@ pred c18OneSent(p) = sendCnt == upd(old(sendCnt), p, old(sendCnt)[p] + 1) && sentTyp == upd(old(sentTyp), p, upd(old(sentTyp)[p], old(sendCnt)[p], sentTyp[p][old(sendCnt)[p]])) && sentVal == upd(old(sentVal), p, upd(old(sentVal)[p], old(sendCnt)[p], sentVal[p][old(sendCnt)[p]]))
//@ pred c18NoSend() = sendCnt == old(sendCnt) && sentTyp == old(sentTyp) && sentVal == old(sentVal) && canSend == old(canSend)
//@ pred c18NoRetr() = inTyp == old(inTyp) && inVal == old(inVal) && retrCnt == old(retrCnt)
//@ pred c18OneRetr(p) = retrCnt == upd(old(retrCnt), p, old(retrCnt)[p] + 1)
//@ func c18Head(p) = mkiface(inTyp[p], inVal[p])
//@ pred c18IsReq(x) = hastype(x, "memcontrolprotocol.Req")
//@ func c18Req(x) = as(x, "memcontrolprotocol.Req")
//@ pred c18Supported(c) = c == memcontrolprotocol.CmdPause || c == memcontrolprotocol.CmdDrain || c == memcontrolprotocol.CmdEnable || c == memcontrolprotocol.CmdReset
// the response sent last on the control port answers (cmd, id, src) with (success, err)
//@ pred c18Answers(m, cmd, id, src, success, err) = c18IsRsp(c18Last(c18Ctl(m))) && c18Rsp(c18Ctl(m)).Command == cmd && c18Rsp(c18Ctl(m)).RspTo == id && c18Rsp(c18Ctl(m)).Dst == src && c18Rsp(c18Ctl(m)).Success == success && c18Rsp(c18Ctl(m)).Error == err
//@ pred c18WF(m) = m.comp != nil && m.comp.TickingComponent != nil && m.comp.TickingComponent.PortOwnerBase != nil && ("Control" in m.comp.TickingComponent.PortOwnerBase.ports) && robWF(m) && c18Ctl(m) != topP(m) && c18Ctl(m) != botP(m)
//@ pred c18Quiet(m) = len(m.comp.State.Transactions) == 0
//@ pred c18Kept(m) = unchanged(m.comp.State.ControlState) && unchanged(m.comp.State.CurrentCmdID) && unchanged(m.comp.State.CurrentCmdSrc) && unchanged(m.comp.State.Transactions)

//@ fn (*middleware).ctrlPort
//@   property C18
//@   requires c18WF(m)
//@   label C18.rob.ctrlport
//@   ensures result == c18Port(m, "Control")
//@   assigns nothing

//@ fn makeCtrlRsp
//@   property C18
//@   requires idGenOK()
//@   label C18.rob.mkrsp.fields
//@   ensures result.Command == cmd && result.Success == success && result.Error == errStr && result.Dst == dst && result.RspTo == rspTo
//@   label C18.rob.mkrsp.idgen
//@   ensures idGenOK()
//@   assigns issued, key("G|github.com/sarchlab/akita/v5/timing.idGenerator|"), key("G|github.com/sarchlab/akita/v5/timing.idGeneratorInstantiated|"), key("O|timing.sequentialIDGenerator|nextID"), key("O|timing.parallelIDGenerator|nextID")

// ---- sync verbs: handled only when the control port can send; then ONE response and the request leaves the head ----
//@ fn (*middleware).handlePause
//@   property C18
//@   requires c18WF(m) && idGenOK() && inTyp[c18Ctl(m)] != 0
//@   label C18.rob.pause.progress
//@   ensures result <==> old(canSend[c18Ctl(m)])
//@   label C18.rob.pause.once
//@   ensures result ==> c18OneSent(c18Ctl(m)) && c18OneRetr(c18Ctl(m))
//@   label C18.rob.pause.blocked
//@   ensures !result ==> c18NoSend() && c18NoRetr() && c18Kept(m)
//@   label C18.rob.pause.echo
//@   ensures result ==> c18Answers(m, memcontrolprotocol.CmdPause, req.ID, req.Src, true, "")
//@   label C18.rob.pause.state
//@   ensures result ==> m.comp.State.ControlState == memcontrolprotocol.StatePaused && unchanged(m.comp.State.Transactions)
//@   label C18.rob.pause.idgen
//@   ensures idGenOK()
//@   assigns m.comp.State.ControlState, canSend, sendCnt, sentTyp, sentVal, inTyp, inVal, retrCnt, issued, key("G|github.com/sarchlab/akita/v5/timing.idGenerator|"), key("G|github.com/sarchlab/akita/v5/timing.idGeneratorInstantiated|"), key("O|timing.sequentialIDGenerator|nextID"), key("O|timing.parallelIDGenerator|nextID")

//@ fn (*middleware).handleEnable
//@   property C18
//@   requires c18WF(m) && idGenOK() && inTyp[c18Ctl(m)] != 0
//@   label C18.rob.enable.progress
//@   ensures result <==> old(canSend[c18Ctl(m)])
//@   label C18.rob.enable.once
//@   ensures result ==> c18OneSent(c18Ctl(m)) && c18OneRetr(c18Ctl(m))
//@   label C18.rob.enable.blocked
//@   ensures !result ==> c18NoSend() && c18NoRetr() && c18Kept(m)
//@   label C18.rob.enable.echo
//@   ensures result ==> c18Answers(m, memcontrolprotocol.CmdEnable, req.ID, req.Src, true, "")
//@   label C18.rob.enable.state
//@   ensures result ==> m.comp.State.ControlState == memcontrolprotocol.StateEnabled && unchanged(m.comp.State.Transactions)
//@   label C18.rob.enable.idgen
//@   ensures idGenOK()
//@   assigns m.comp.State.ControlState, canSend, sendCnt, sentTyp, sentVal, inTyp, inVal, retrCnt, issued, key("G|github.com/sarchlab/akita/v5/timing.idGenerator|"), key("G|github.com/sarchlab/akita/v5/timing.idGeneratorInstantiated|"), key("O|timing.sequentialIDGenerator|nextID"), key("O|timing.parallelIDGenerator|nextID")

//@ fn (*middleware).handleUnsupported
//@   property C18
//@   requires c18WF(m) && idGenOK() && inTyp[c18Ctl(m)] != 0
//@   label C18.rob.unsupported.progress
//@   ensures result <==> old(canSend[c18Ctl(m)])
//@   label C18.rob.unsupported.once
//@   ensures result ==> c18OneSent(c18Ctl(m)) && c18OneRetr(c18Ctl(m))
//@   label C18.rob.unsupported.blocked
//@   ensures !result ==> c18NoSend() && c18NoRetr() && c18Kept(m)
//@   label C18.rob.unsupported.echo
//@   ensures result ==> c18Answers(m, req.Command, req.ID, req.Src, false, memcontrolprotocol.ErrUnsupported)
//@   label C18.rob.unsupported.state
//@   ensures c18Kept(m)
//@   label C18.rob.unsupported.idgen
//@   ensures idGenOK()
//@   assigns canSend, sendCnt, sentTyp, sentVal, inTyp, inVal, retrCnt, issued, key("G|github.com/sarchlab/akita/v5/timing.idGenerator|"), key("G|github.com/sarchlab/akita/v5/timing.idGeneratorInstantiated|"), key("O|timing.sequentialIDGenerator|nextID"), key("O|timing.parallelIDGenerator|nextID")

// ---- drain: accepted silently (no response yet); the request's ID and source are remembered for the deferred ack ----
//@ fn (*middleware).handleDrain
//@   property C18
//@   requires c18WF(m) && inTyp[c18Ctl(m)] != 0
//@   label C18.rob.drain.accept
//@   ensures result && c18NoSend() && c18OneRetr(c18Ctl(m))
//@   label C18.rob.drain.remember
//@   ensures m.comp.State.ControlState == memcontrolprotocol.StateDraining && m.comp.State.CurrentCmdID == req.ID && m.comp.State.CurrentCmdSrc == req.Src && unchanged(m.comp.State.Transactions)
//@   assigns m.comp.State.ControlState, m.comp.State.CurrentCmdID, m.comp.State.CurrentCmdSrc, inTyp, inVal, retrCnt

//@ fn drainIncoming
//@   property C18
//@   label C18.rob.drainincoming
//@   ensures forall q int :: q != ifaceval(p) ==> inTyp[q] == old(inTyp)[q] && inVal[q] == old(inVal)[q] && retrCnt[q] == old(retrCnt)[q]
//@   assigns inTyp, inVal, retrCnt
//@   loop 0: invariant forall q int :: q != ifaceval(p) ==> inTyp[q] == old(inTyp)[q] && inVal[q] == old(inVal)[q] && retrCnt[q] == old(retrCnt)[q]

//@ fn (*middleware).endInflightTasks
//@   property C18
//@   requires m.comp != nil
//@   assigns nothing
//@   loop 0: invariant -1 <= rangeindex && rangeindex < len(m.comp.State.Transactions)

// ---- reset: ONE ack, the transaction list emptied, Top/Bottom drained, agent enabled ----
//@ pred c18OthersKept(m) = forall p int :: p != c18Ctl(m) && p != topP(m) && p != botP(m) ==> inTyp[p] == old(inTyp)[p] && inVal[p] == old(inVal)[p] && retrCnt[p] == old(retrCnt)[p]
//@ pred c18ResetDone(m) = m.comp.State.ControlState == memcontrolprotocol.StateEnabled && len(m.comp.State.Transactions) == 0 && m.comp.State.CurrentCmdID == 0 && m.comp.State.CurrentCmdSrc == ""
//@ fn (*middleware).handleReset
//@   property C18
//@   requires c18WF(m) && idGenOK() && inTyp[c18Ctl(m)] != 0
//@   label C18.rob.reset.progress
//@   ensures result <==> old(canSend[c18Ctl(m)])
//@   label C18.rob.reset.once
//@   ensures result ==> c18OneSent(c18Ctl(m)) && retrCnt[c18Ctl(m)] == old(retrCnt)[c18Ctl(m)] + 1 && c18OthersKept(m)
//@   label C18.rob.reset.blocked
//@   ensures !result ==> c18NoSend() && c18NoRetr() && c18Kept(m)
//@   label C18.rob.reset.echo
//@   ensures result ==> c18Answers(m, memcontrolprotocol.CmdReset, req.ID, req.Src, true, "")
//@   label C18.rob.reset.state
//@   ensures result ==> c18ResetDone(m)
//@   label C18.rob.reset.idgen
//@   ensures idGenOK()
//@   assigns m.comp.State.ControlState, m.comp.State.CurrentCmdID, m.comp.State.CurrentCmdSrc, m.comp.State.Transactions, canSend, sendCnt, sentTyp, sentVal, inTyp, inVal, retrCnt, issued, key("G|github.com/sarchlab/akita/v5/timing.idGenerator|"), key("G|github.com/sarchlab/akita/v5/timing.idGeneratorInstantiated|"), key("O|timing.sequentialIDGenerator|nextID"), key("O|timing.parallelIDGenerator|nextID")

// ---- deferred drain ack: only when quiescent (c18Quiet) and the port can send; lands in Paused ----
//@ fn (*middleware).completePendingDrain
//@   property C18
//@   requires c18WF(m) && idGenOK()
//@   label C18.rob.drain.progress
//@   ensures result <==> old(m.comp.State.ControlState == memcontrolprotocol.StateDraining && c18Quiet(m) && canSend[c18Ctl(m)])
//@   label C18.rob.drain.once
//@   ensures (result ==> c18OneSent(c18Ctl(m))) && c18NoRetr()
//@   label C18.rob.drain.echo
//@   ensures result ==> c18Answers(m, memcontrolprotocol.CmdDrain, old(m.comp.State.CurrentCmdID), old(m.comp.State.CurrentCmdSrc), true, "")
//@   label C18.rob.drain
//@   ensures result ==> m.comp.State.ControlState == memcontrolprotocol.StatePaused && c18Quiet(m) && unchanged(m.comp.State.Transactions)
//@   label C18.rob.drain.wait
//@   ensures !result ==> c18NoSend() && c18Kept(m)
//@   label C18.rob.drain.idgen
//@   ensures idGenOK()
//@   assigns m.comp.State.ControlState, canSend, sendCnt, sentTyp, sentVal, issued, key("G|github.com/sarchlab/akita/v5/timing.idGenerator|"), key("G|github.com/sarchlab/akita/v5/timing.idGeneratorInstantiated|"), key("O|timing.sequentialIDGenerator|nextID"), key("O|timing.parallelIDGenerator|nextID")

// ---- one control step (processControlMsg): a due drain ack first; nothing is dequeued while a drain is pending;
// ---- otherwise the message at the head of the Control port ----
//@ func c18Hd(m) = old(c18Head(c18Ctl(m)))
//@ func c18HdCmd(m) = c18Req(c18Hd(m)).Command
//@ pred c18HdSync(m) = c18IsReq(c18Hd(m)) && c18HdCmd(m) != memcontrolprotocol.CmdDrain
//@ pred c18DrainPending(m) = m.comp.State.ControlState == memcontrolprotocol.StateDraining && !(c18Quiet(m) && canSend[c18Ctl(m)])
//@ pred c18DrainDue(m) = m.comp.State.ControlState == memcontrolprotocol.StateDraining && c18Quiet(m) && canSend[c18Ctl(m)]
//@ fn (*middleware).processControlMsg
//@   property C18
//@   requires c18WF(m) && idGenOK()
//@   label C18.rob.serial
//@   ensures old(c18DrainPending(m)) ==> !result && c18NoSend() && c18NoRetr() && c18Kept(m)
//@   label C18.rob.serial.one
//@   ensures old(retrCnt)[c18Ctl(m)] <= retrCnt[c18Ctl(m)] && retrCnt[c18Ctl(m)] <= old(retrCnt)[c18Ctl(m)] + 1
//@   label C18.rob.serial.ackonly
//@   ensures old(c18DrainDue(m)) ==> result && c18OneSent(c18Ctl(m)) && c18NoRetr() && c18Answers(m, memcontrolprotocol.CmdDrain, old(m.comp.State.CurrentCmdID), old(m.comp.State.CurrentCmdSrc), true, "") && m.comp.State.ControlState == memcontrolprotocol.StatePaused && c18Quiet(m)
//@   label C18.rob.idle
//@   ensures old(m.comp.State.ControlState) != memcontrolprotocol.StateDraining && old(inTyp)[c18Ctl(m)] == 0 ==> !result && c18NoSend() && c18NoRetr() && c18Kept(m)
//@   label C18.rob.nonreq
//@   ensures old(m.comp.State.ControlState) != memcontrolprotocol.StateDraining && old(inTyp)[c18Ctl(m)] != 0 && !c18IsReq(c18Hd(m)) ==> result && c18NoSend() && c18OneRetr(c18Ctl(m)) && c18Kept(m)
//@   label C18.rob.once
//@   ensures old(m.comp.State.ControlState) != memcontrolprotocol.StateDraining && c18HdSync(m) ==> (result <==> old(canSend[c18Ctl(m)])) && (result ==> c18OneSent(c18Ctl(m)) && retrCnt[c18Ctl(m)] == old(retrCnt)[c18Ctl(m)] + 1)
//@   label C18.rob.once.blocked
//@   ensures old(m.comp.State.ControlState) != memcontrolprotocol.StateDraining && c18HdSync(m) && !result ==> c18NoSend() && c18NoRetr() && c18Kept(m)
//@   label C18.rob.sendframe
//@   ensures c18NoSend() || c18OneSent(c18Ctl(m))
//@   label C18.rob.echo
//@   ensures old(m.comp.State.ControlState) != memcontrolprotocol.StateDraining && c18HdSync(m) && result ==> c18IsRsp(c18Last(c18Ctl(m))) && c18Rsp(c18Ctl(m)).Command == c18HdCmd(m) && c18Rsp(c18Ctl(m)).RspTo == c18Req(c18Hd(m)).ID && c18Rsp(c18Ctl(m)).Dst == c18Req(c18Hd(m)).Src
//@   label C18.rob.unsupported
//@   ensures old(m.comp.State.ControlState) != memcontrolprotocol.StateDraining && c18HdSync(m) && result && !c18Supported(c18HdCmd(m)) ==> !c18Rsp(c18Ctl(m)).Success && c18Rsp(c18Ctl(m)).Error == memcontrolprotocol.ErrUnsupported && c18Kept(m)
//@   label C18.rob.supported
//@   ensures old(m.comp.State.ControlState) != memcontrolprotocol.StateDraining && c18HdSync(m) && result && c18Supported(c18HdCmd(m)) ==> c18Rsp(c18Ctl(m)).Success && c18Rsp(c18Ctl(m)).Error == ""
//@   label C18.rob.pause
//@   ensures old(m.comp.State.ControlState) != memcontrolprotocol.StateDraining && c18HdSync(m) && result && c18HdCmd(m) == memcontrolprotocol.CmdPause ==> m.comp.State.ControlState == memcontrolprotocol.StatePaused && unchanged(m.comp.State.Transactions)
//@   label C18.rob.enable
//@   ensures old(m.comp.State.ControlState) != memcontrolprotocol.StateDraining && c18HdSync(m) && result && c18HdCmd(m) == memcontrolprotocol.CmdEnable ==> m.comp.State.ControlState == memcontrolprotocol.StateEnabled && unchanged(m.comp.State.Transactions)
//@   label C18.rob.reset
//@   ensures old(m.comp.State.ControlState) != memcontrolprotocol.StateDraining && c18HdSync(m) && result && c18HdCmd(m) == memcontrolprotocol.CmdReset ==> c18ResetDone(m)
//@   label C18.rob.drain.accepted
//@   ensures old(m.comp.State.ControlState) != memcontrolprotocol.StateDraining && c18IsReq(c18Hd(m)) && c18HdCmd(m) == memcontrolprotocol.CmdDrain ==> result && c18NoSend() && c18OneRetr(c18Ctl(m)) && m.comp.State.ControlState == memcontrolprotocol.StateDraining && m.comp.State.CurrentCmdID == c18Req(c18Hd(m)).ID && m.comp.State.CurrentCmdSrc == c18Req(c18Hd(m)).Src && unchanged(m.comp.State.Transactions)
//@   label C18.rob.step.idgen
//@   ensures idGenOK()
//@   assigns m.comp.State.ControlState, m.comp.State.CurrentCmdID, m.comp.State.CurrentCmdSrc, m.comp.State.Transactions, canSend, sendCnt, sentTyp, sentVal, inTyp, inVal, retrCnt, issued, key("G|github.com/sarchlab/akita/v5/timing.idGenerator|"), key("G|github.com/sarchlab/akita/v5/timing.idGeneratorInstantiated|"), key("O|timing.sequentialIDGenerator|nextID"), key("O|timing.parallelIDGenerator|nextID")
