//go:build verif

// Contracts for package rob, property C21 (comment-only; read by /verif/engine, never compiled into a build).
// C21: a reorder buffer answers requests in exactly the order it accepted them.
// View: m.comp.State.Transactions is the FIFO of accepted, not yet answered requests (head at index 0).
package rob

// ---- ghost view of the ports (they are messaging.Port interface values; only trusted interface contracts see them) ----
// All maps are keyed by the port's identity ifaceval(port). canSend: the outgoing buffer has room. sendCnt: number of Send
// calls so far; sentTyp/sentVal[port][n]: (dynamic type, value) of the n-th message sent. inTyp/inVal: the message at the
// head of the incoming buffer (type 0 = none). retrCnt: number of messages retrieved so far.
//@ ghost var canSend set
//@ ghost var sendCnt map
//@ ghost var sentTyp map2
//@ ghost var sentVal map2
//@ ghost var inTyp map
//@ ghost var inVal map
//@ ghost var retrCnt map

//@ func topP(m) = ifaceval(m.comp.TickingComponent.PortOwnerBase.ports["Top"])
//@ func botP(m) = ifaceval(m.comp.TickingComponent.PortOwnerBase.ports["Bottom"])
//@ pred robWF(m) = m.comp != nil && m.comp.TickingComponent != nil && m.comp.TickingComponent.PortOwnerBase != nil && ("Top" in m.comp.TickingComponent.PortOwnerBase.ports) && ("Bottom" in m.comp.TickingComponent.PortOwnerBase.ports)

// ---- trusted: messaging.Port is an interface (any implementation); sequential reading of one component's tick ----
//@ iface messaging.Port.CanSend()
//@   trusted
//@   ensures result <==> canSend[ifaceval(self)]
//@   assigns nothing
//@ iface messaging.Port.Send(msg)
//@   trusted
//@   panics !canSend[ifaceval(self)]
//@   ensures sendCnt == upd(old(sendCnt), ifaceval(self), old(sendCnt)[ifaceval(self)] + 1)
//@   ensures sentTyp == upd(old(sentTyp), ifaceval(self), upd(old(sentTyp)[ifaceval(self)], old(sendCnt)[ifaceval(self)], typeid(msg)))
//@   ensures sentVal == upd(old(sentVal), ifaceval(self), upd(old(sentVal)[ifaceval(self)], old(sendCnt)[ifaceval(self)], ifaceval(msg)))
//@   assigns canSend, sendCnt, sentTyp, sentVal
//@ iface messaging.Port.PeekIncoming()
//@   trusted
//@   ensures typeid(result) == inTyp[ifaceval(self)] && ifaceval(result) == inVal[ifaceval(self)] && (typeid(result) == 0 ==> ifaceval(result) == 0)
//@   assigns nothing
//@ iface messaging.Port.RetrieveIncoming()
//@   trusted
//@   ensures typeid(result) == old(inTyp)[ifaceval(self)] && ifaceval(result) == old(inVal)[ifaceval(self)] && (typeid(result) == 0 ==> ifaceval(result) == 0)
//@   ensures retrCnt == upd(old(retrCnt), ifaceval(self), old(retrCnt)[ifaceval(self)] + (old(inTyp)[ifaceval(self)] == 0 ? 0 : 1))
//@   ensures forall p int :: p != ifaceval(self) ==> inTyp[p] == old(inTyp)[p] && inVal[p] == old(inVal)[p]
//@   assigns inTyp, inVal, retrCnt
// a port's remote name is a function of the port (AsRemote is a pure getter)
//@ ufunc portRemote(p) int
//@ iface messaging.Port.AsRemote()
//@   trusted
//@   assigns nothing
//@   ensures result == portRemote(self)
//@ iface messaging.Port.Name()
//@   trusted
//@   assigns nothing
//@   ensures hastype(self, "*messaging.defaultPort") ==> result == as(self, "*messaging.defaultPort").name

// ---- trusted: functions of other packages that only observe the middleware ----
//@ ext messaging.(PortOwnerBase).GetPortByName(po, name)
//@   trusted
//@   pure
//@   panics !(name in po.ports)
//@   ensures result == po.ports[name]
//@ ext modeling.(*TickingComponent).Name(c)
//@   trusted
//@   pure
//@ ext tracing.AddMilestone(domain, ms)
//@   trusted
//@   assigns nothing
//@ ext tracing.MsgIDAtReceiver(msg, domain)
//@   trusted
//@   assigns nothing
//@ ext tracing.TraceReqComplete(domain, msg)
//@   trusted
//@   assigns nothing
//@ ext tracing.MsgIDAtIncomingBuffer(msg, domain)
//@   trusted
//@   assigns nothing
//@ ext tracing.TraceReqReceive(domain, msg)
//@   trusted
//@   assigns nothing
//@ ext tracing.TraceReqInitiate(domain, msg, parentID)
//@   trusted
//@   assigns nothing
//@ ext tracing.AddTaskTag(domain, tag)
//@   trusted
//@   assigns nothing
//@ ext tracing.TraceReqFinalize(domain, msg)
//@   trusted
//@   assigns nothing
//@ ext modeling.(*Component[S, T, R]).Spec(c)
//@   trusted
//@   pure
//@   ensures result == c.spec

// ---- port accessors ----
//@ fn (*middleware).topPort
//@   property C21
//@   requires robWF(m)
//@   label C21.topport
//@   ensures result == m.comp.TickingComponent.PortOwnerBase.ports["Top"]
//@   assigns nothing
//@ fn (*middleware).bottomPort
//@   property C21
//@   requires robWF(m)
//@   label C21.bottomport
//@   ensures result == m.comp.TickingComponent.PortOwnerBase.ports["Bottom"]
//@   assigns nothing

// ---- list discipline ----
//@ fn (*middleware).findTransactionByBottomID
//@   property C21
//@   requires m.comp != nil
//@   label C21.find.range
//@   ensures -1 <= result && result < len(m.comp.State.Transactions)
//@   label C21.find.hit
//@   ensures result >= 0 ==> m.comp.State.Transactions[result].ReqToBottomID == id
//@   label C21.find.first
//@   ensures forall j in 0..(result < 0 ? len(m.comp.State.Transactions) : result) :: m.comp.State.Transactions[j].ReqToBottomID != id
//@   assigns nothing
//@   loop 0: invariant -1 <= rangeindex && rangeindex < len(m.comp.State.Transactions)
//@   loop 0: invariant forall j in 0..rangeindex + 1 :: m.comp.State.Transactions[j].ReqToBottomID != id

// ---- trusted: the ID generator is an interface value; implementations only bump their own counter (C41) ----
// `issued` is the set of IDs handed out so far; "never handed out before" is property C41 read at the interface
// (each implementation returns its counter + 1; wrap-around after 2^64 IDs is ignored).
//@ ghost var issued set
//@ iface timing.IDGenerator.Generate()
//@   trusted
//@   ensures !old(issued)[result] && issued == upd(old(issued), result, true)
//@   assigns issued, key("O|timing.sequentialIDGenerator|nextID"), key("O|timing.parallelIDGenerator|nextID")

// Bottom IDs in flight were all issued by the generator and are pairwise distinct (so a response matches one transaction).
//@ pred robIDs(m) = (forall i in 0..len(m.comp.State.Transactions) :: issued[m.comp.State.Transactions[i].ReqToBottomID]) && (forall i in 0..len(m.comp.State.Transactions) :: forall j in 0..len(m.comp.State.Transactions) :: i != j ==> m.comp.State.Transactions[i].ReqToBottomID != m.comp.State.Transactions[j].ReqToBottomID)
//@ pred issuedGrows() = forall k int :: old(issued)[k] ==> issued[k]

//@ pred idGenOK() = timing.idGeneratorInstantiated ==> timing.idGenerator != nil

// ---- views of messages (interface values holding struct values) ----
//@ pred isRdRsp(x) = hastype(x, "memprotocol.DataReadyRsp")
//@ pred isWrRsp(x) = hastype(x, "memprotocol.WriteDoneRsp")
//@ func rspTo(x) = isRdRsp(x) ? as(x, "memprotocol.DataReadyRsp").RspTo : as(x, "memprotocol.WriteDoneRsp").RspTo
//@ func rspDst(x) = isRdRsp(x) ? as(x, "memprotocol.DataReadyRsp").Dst : as(x, "memprotocol.WriteDoneRsp").Dst
//@ func rspSrc(x) = isRdRsp(x) ? as(x, "memprotocol.DataReadyRsp").Src : as(x, "memprotocol.WriteDoneRsp").Src
//@ func rspData(x) = as(x, "memprotocol.DataReadyRsp").Data
//@ func sentAt(p, n) = mkiface(sentTyp[p][n], sentVal[p][n])
//@ func sentOn(p) = sentAt(p, sendCnt[p] - 1)
//@ pred oneMoreSent(p) = sendCnt == upd(old(sendCnt), p, old(sendCnt)[p] + 1) && sentTyp == upd(old(sentTyp), p, upd(old(sentTyp)[p], old(sendCnt)[p], sentTyp[p][old(sendCnt)[p]])) && sentVal == upd(old(sentVal), p, upd(old(sentVal)[p], old(sendCnt)[p], sentVal[p][old(sendCnt)[p]]))
//@ func headOf(p) = mkiface(inTyp[p], inVal[p])

//@ pred isRd(x) = hastype(x, "memprotocol.ReadReq")
//@ pred isWr(x) = hastype(x, "memprotocol.WriteReq")
//@ func reqID(x) = isRd(x) ? as(x, "memprotocol.ReadReq").ID : as(x, "memprotocol.WriteReq").ID
//@ func reqSrc(x) = isRd(x) ? as(x, "memprotocol.ReadReq").Src : as(x, "memprotocol.WriteReq").Src
//@ func reqDst(x) = isRd(x) ? as(x, "memprotocol.ReadReq").Dst : as(x, "memprotocol.WriteReq").Dst
//@ func reqAddr(x) = isRd(x) ? as(x, "memprotocol.ReadReq").Address : as(x, "memprotocol.WriteReq").Address
//@ func reqPID(x) = isRd(x) ? as(x, "memprotocol.ReadReq").PID : as(x, "memprotocol.WriteReq").PID

// ---- trusted: Meta() of the two request types is the promoted (MsgMeta).Meta, which returns the embedded metadata ----
//@ iface memprotocol.AccessReq.Meta()
//@   trusted
//@   pure
//@   ensures isRd(self) || isWr(self) ==> result.ID == reqID(self) && result.Src == reqSrc(self) && result.Dst == reqDst(self)

// ---- message construction (reads of the transaction only) ----
//@ fn (*middleware).buildShadowReq
//@   property C21
//@   requires idGenOK()
//@   panics !isRd(req) && !isWr(req)
//@   label C21.shadow.kind
//@   ensures (result1 <==> isRd(req)) && (isRd(result0) <==> isRd(req)) && (isWr(result0) <==> isWr(req))
//@   label C21.shadow.route
//@   ensures reqSrc(result0) == src && reqDst(result0) == dst
//@   label C21.shadow.payload
//@   ensures reqAddr(result0) == reqAddr(req) && reqPID(result0) == reqPID(req)
//@   label C21.shadow.read
//@   ensures isRd(req) ==> as(result0, "memprotocol.ReadReq").AccessByteSize == as(req, "memprotocol.ReadReq").AccessByteSize
//@   label C21.shadow.write
//@   ensures isWr(req) ==> as(result0, "memprotocol.WriteReq").Data == as(req, "memprotocol.WriteReq").Data && as(result0, "memprotocol.WriteReq").DirtyMask == as(req, "memprotocol.WriteReq").DirtyMask
//@   label C21.shadow.freshmsg
//@   ensures ifaceval(result0) > old(allocTop)
//@   label C21.shadow.freshid
//@   ensures !old(issued)[reqID(result0)] && issued[reqID(result0)] && issuedGrows()
//@   label C21.shadow.idgen
//@   ensures idGenOK()
//@   assigns issued, key("G|github.com/sarchlab/akita/v5/timing.idGenerator|"), key("G|github.com/sarchlab/akita/v5/timing.idGeneratorInstantiated|"), key("O|timing.sequentialIDGenerator|nextID"), key("O|timing.parallelIDGenerator|nextID")

//@ fn (*middleware).buildTopRsp
//@   property C21
//@   requires idGenOK()
//@   label C21.buildrsp.kind
//@   ensures (trans.IsRead ==> isRdRsp(result)) && (!trans.IsRead ==> isWrRsp(result))
//@   label C21.buildrsp.rspto
//@   ensures rspTo(result) == trans.ReqFromTopID
//@   label C21.buildrsp.dst
//@   ensures rspDst(result) == trans.ReqFromTopSrc && rspSrc(result) == src
//@   label C21.buildrsp.data
//@   ensures trans.IsRead ==> rspData(result) == trans.RspData
//@   label C21.buildrsp.idgen
//@   ensures idGenOK() && issuedGrows()
//@   assigns issued, key("G|github.com/sarchlab/akita/v5/timing.idGenerator|"), key("G|github.com/sarchlab/akita/v5/timing.idGeneratorInstantiated|"), key("O|timing.sequentialIDGenerator|nextID"), key("O|timing.parallelIDGenerator|nextID")

// ---- trace helpers: only read the transaction and the ports ----
//@ fn (*middleware).topReqTraceMsg
//@   property C21
//@   requires robWF(m)
//@   assigns nothing
//@ fn (*middleware).shadowReqTraceMsg
//@   property C21
//@   requires robWF(m)
//@   assigns nothing
//@ fn (*middleware).tagReadWrite
//@   property C21
//@   requires robWF(m)
//@   assigns nothing
//@ fn (*middleware).reqInTaskID
//@   property C21
//@   requires robWF(m)
//@   assigns nothing

// ---- field-wise comparison of transaction i now with transaction j on entry ----
//@ pred sameKey(m, i, j) = m.comp.State.Transactions[i].ReqFromTopID == old(m.comp.State.Transactions[j].ReqFromTopID) && m.comp.State.Transactions[i].ReqFromTopSrc == old(m.comp.State.Transactions[j].ReqFromTopSrc) && m.comp.State.Transactions[i].ReqToBottomID == old(m.comp.State.Transactions[j].ReqToBottomID) && m.comp.State.Transactions[i].IsRead == old(m.comp.State.Transactions[j].IsRead)
//@ pred sameData(m, i, j) = ref(m.comp.State.Transactions[i].RspData) == old(ref(m.comp.State.Transactions[j].RspData)) && off(m.comp.State.Transactions[i].RspData) == old(off(m.comp.State.Transactions[j].RspData)) && len(m.comp.State.Transactions[i].RspData) == old(len(m.comp.State.Transactions[j].RspData))
//@ pred sameRsp(m, i, j) = m.comp.State.Transactions[i].HasRsp == old(m.comp.State.Transactions[j].HasRsp) && sameData(m, i, j)

// ---- parseBottom: marks the transaction whose bottom ID matches the response; never reorders ----
//@ fn (*middleware).parseBottom
//@   property C21
//@   requires robWF(m) && robIDs(m)
//@   label C21.parse.ids
//@   ensures robIDs(m)
//@   label C21.parse.progress
//@   ensures result <==> old(inTyp)[botP(m)] != 0
//@   label C21.parse.retrieve
//@   ensures retrCnt == upd(old(retrCnt), botP(m), old(retrCnt)[botP(m)] + (result ? 1 : 0))
//@   label C21.parse.order
//@   ensures unchanged(m.comp.State.Transactions) && (forall i in 0..len(m.comp.State.Transactions) :: sameKey(m, i, i))
//@   label C21.parse.onlymatch
//@   ensures forall i in 0..len(m.comp.State.Transactions) :: !sameRsp(m, i, i) ==> (isRdRsp(old(headOf(botP(m)))) || isWrRsp(old(headOf(botP(m))))) && m.comp.State.Transactions[i].ReqToBottomID == rspTo(old(headOf(botP(m))))
//@   label C21.parse.onlymatch.head
//@   ensures len(m.comp.State.Transactions) > 0 && !sameRsp(m, 0, 0) ==> m.comp.State.Transactions[0].ReqToBottomID == rspTo(old(headOf(botP(m))))
//@   label C21.parse.onlyfirst
//@   ensures forall i in 0..len(m.comp.State.Transactions) :: forall j in 0..i :: !sameRsp(m, i, i) ==> m.comp.State.Transactions[j].ReqToBottomID != m.comp.State.Transactions[i].ReqToBottomID
//@   label C21.parse.marked
//@   ensures forall i in 0..len(m.comp.State.Transactions) :: (isRdRsp(old(headOf(botP(m)))) || isWrRsp(old(headOf(botP(m))))) && m.comp.State.Transactions[i].ReqToBottomID == rspTo(old(headOf(botP(m)))) && (forall j in 0..i :: m.comp.State.Transactions[j].ReqToBottomID != rspTo(old(headOf(botP(m))))) ==> m.comp.State.Transactions[i].HasRsp && (isRdRsp(old(headOf(botP(m)))) ? m.comp.State.Transactions[i].RspData == rspData(old(headOf(botP(m)))) : sameData(m, i, i))
//@   assigns elems(m.comp.State.Transactions), inTyp, inVal, retrCnt

// ---- bottomUp: releases the HEAD transaction only, and only once it has its response ----
//@ fn (*middleware).bottomUp
//@   property C21
//@   requires robWF(m) && idGenOK() && robIDs(m)
//@   label C21.bottomup.progress
//@   ensures result <==> old(len(m.comp.State.Transactions) > 0 && m.comp.State.Transactions[0].HasRsp && canSend[topP(m)])
//@   label C21.bottomup.noop
//@   ensures !result ==> unchanged(m.comp.State.Transactions) && sendCnt == old(sendCnt) && sentTyp == old(sentTyp) && sentVal == old(sentVal) && canSend == old(canSend)
//@   label C21.bottomup.pophead
//@   ensures result ==> len(m.comp.State.Transactions) == old(len(m.comp.State.Transactions)) - 1 && ref(m.comp.State.Transactions) == old(ref(m.comp.State.Transactions)) && off(m.comp.State.Transactions) == old(off(m.comp.State.Transactions)) + 1
//@   label C21.bottomup.rest
//@   ensures result ==> (forall i in 0..len(m.comp.State.Transactions) :: sameKey(m, i, i + 1) && sameRsp(m, i, i + 1))
//@   label C21.bottomup.onesend
//@   ensures result ==> oneMoreSent(topP(m))
//@   label C21.bottomup.rsp.kind
//@   ensures result ==> (old(m.comp.State.Transactions[0].IsRead) ? isRdRsp(sentOn(topP(m))) : isWrRsp(sentOn(topP(m))))
//@   label C21.bottomup.rsp.rspto
//@   ensures result ==> rspTo(sentOn(topP(m))) == old(m.comp.State.Transactions[0].ReqFromTopID)
//@   label C21.bottomup.rsp.dst
//@   ensures result ==> rspDst(sentOn(topP(m))) == old(m.comp.State.Transactions[0].ReqFromTopSrc)
//@   label C21.bottomup.rsp.data
//@   ensures result && old(m.comp.State.Transactions[0].IsRead) ==> ref(rspData(sentOn(topP(m)))) == old(ref(m.comp.State.Transactions[0].RspData)) && len(rspData(sentOn(topP(m)))) == old(len(m.comp.State.Transactions[0].RspData)) && off(rspData(sentOn(topP(m)))) == old(off(m.comp.State.Transactions[0].RspData))
//@   label C21.bottomup.ids
//@   ensures robIDs(m) && issuedGrows()
//@   label C21.bottomup.idgen
//@   ensures idGenOK()
//@   assigns m.comp.State.Transactions, canSend, sendCnt, sentTyp, sentVal, issued, key("G|github.com/sarchlab/akita/v5/timing.idGenerator|"), key("G|github.com/sarchlab/akita/v5/timing.idGeneratorInstantiated|"), key("O|timing.sequentialIDGenerator|nextID"), key("O|timing.parallelIDGenerator|nextID")

// ---- topDown: admits the request at the head of Top: one shadow request down, one transaction appended at the tail ----
// (panics any: a non-AccessReq message panics through an interface-to-interface assertion the spec language cannot name)
//@ fn (*middleware).topDown
//@   property C21
//@   requires robWF(m) && idGenOK() && robIDs(m)
//@   panics any
//@   label C21.topdown.progress
//@   ensures result <==> old(m.comp.State.ControlState == memcontrolprotocol.StateEnabled && inTyp[topP(m)] != 0 && len(m.comp.State.Transactions) < m.comp.spec.BufferSize && canSend[botP(m)])
//@   label C21.topdown.noop
//@   ensures !result ==> unchanged(m.comp.State.Transactions) && (forall i in 0..len(m.comp.State.Transactions) :: sameKey(m, i, i) && sameRsp(m, i, i)) && sendCnt == old(sendCnt) && sentTyp == old(sentTyp) && sentVal == old(sentVal) && canSend == old(canSend) && retrCnt == old(retrCnt) && inTyp == old(inTyp) && inVal == old(inVal)
//@   label C21.topdown.append
//@   ensures result ==> len(m.comp.State.Transactions) == old(len(m.comp.State.Transactions)) + 1 && (forall i in 0..old(len(m.comp.State.Transactions)) :: sameKey(m, i, i) && sameRsp(m, i, i))
//@   label C21.topdown.backing
//@   ensures ref(m.comp.State.Transactions) == old(ref(m.comp.State.Transactions)) || fresh(m.comp.State.Transactions)
//@   label C21.topdown.entry
//@   ensures result ==> m.comp.State.Transactions[old(len(m.comp.State.Transactions))].ReqFromTopID == reqID(old(headOf(topP(m)))) && m.comp.State.Transactions[old(len(m.comp.State.Transactions))].ReqFromTopSrc == reqSrc(old(headOf(topP(m)))) && !m.comp.State.Transactions[old(len(m.comp.State.Transactions))].HasRsp && (m.comp.State.Transactions[old(len(m.comp.State.Transactions))].IsRead <==> isRd(old(headOf(topP(m)))))
//@   label C21.topdown.bottomid
//@   ensures result ==> m.comp.State.Transactions[old(len(m.comp.State.Transactions))].ReqToBottomID == reqID(sentOn(botP(m)))
//@   label C21.topdown.onesend
//@   ensures result ==> oneMoreSent(botP(m))
//@   label C21.topdown.shadow
//@   ensures result ==> (isRd(sentOn(botP(m))) <==> isRd(old(headOf(topP(m))))) && (isWr(sentOn(botP(m))) <==> isWr(old(headOf(topP(m))))) && reqAddr(sentOn(botP(m))) == reqAddr(old(headOf(topP(m)))) && reqPID(sentOn(botP(m))) == reqPID(old(headOf(topP(m)))) && reqDst(sentOn(botP(m))) == m.comp.spec.BottomUnit
//@   label C21.topdown.retrieve
//@   ensures result ==> retrCnt == upd(old(retrCnt), topP(m), old(retrCnt)[topP(m)] + 1)
//@   label C21.topdown.freshid
//@   ensures result ==> !old(issued)[m.comp.State.Transactions[old(len(m.comp.State.Transactions))].ReqToBottomID]
//@   label C21.topdown.ids
//@   ensures robIDs(m) && issuedGrows()
//@   label C21.topdown.idgen
//@   ensures idGenOK()
//@   assigns m.comp.State.Transactions, elems(m.comp.State.Transactions), canSend, sendCnt, sentTyp, sentVal, inTyp, inVal, retrCnt, issued, key("G|github.com/sarchlab/akita/v5/timing.idGenerator|"), key("G|github.com/sarchlab/akita/v5/timing.idGeneratorInstantiated|"), key("O|timing.sequentialIDGenerator|nextID"), key("O|timing.parallelIDGenerator|nextID")

// ---- runPipeline (one tick): responses leave on Top in exactly the order of the transaction list on entry ----
//@ func relCnt(m) = sendCnt[topP(m)] - old(sendCnt)[topP(m)]
//@ func accCnt(m) = retrCnt[topP(m)] - old(retrCnt)[topP(m)]
//@ pred releasedInOrder(m) = forall n in 0..relCnt(m) :: rspTo(sentAt(topP(m), old(sendCnt)[topP(m)] + n)) == old(m.comp.State.Transactions[n].ReqFromTopID) && rspDst(sentAt(topP(m), old(sendCnt)[topP(m)] + n)) == old(m.comp.State.Transactions[n].ReqFromTopSrc) && old(m.comp.State.Transactions[n].HasRsp)
//@ fn (*middleware).runPipeline
//@   property C21
//@   requires robWF(m) && idGenOK() && robIDs(m)
//@   requires topP(m) != botP(m)
//@   panics any
//@   label C21.pipeline.count
//@   ensures 0 <= relCnt(m) && relCnt(m) <= old(len(m.comp.State.Transactions)) && 0 <= accCnt(m) && len(m.comp.State.Transactions) == old(len(m.comp.State.Transactions)) - relCnt(m) + accCnt(m)
//@   label C21.pipeline.released
//@   ensures releasedInOrder(m)
//@   label C21.pipeline.survivors
//@   ensures forall i in 0..old(len(m.comp.State.Transactions)) - relCnt(m) :: sameKey(m, i, i + relCnt(m))
//@   label C21.pipeline.inv
//@   ensures robIDs(m) && idGenOK()
//@   assigns m.comp.State.Transactions, elems(m.comp.State.Transactions), canSend, sendCnt, sentTyp, sentVal, inTyp, inVal, retrCnt, issued, key("G|github.com/sarchlab/akita/v5/timing.idGenerator|"), key("G|github.com/sarchlab/akita/v5/timing.idGeneratorInstantiated|"), key("O|timing.sequentialIDGenerator|nextID"), key("O|timing.parallelIDGenerator|nextID")
//@   loop 0: invariant robWF(m) && idGenOK() && robIDs(m) && retrCnt == old(retrCnt)
//@   loop 0: invariant 0 <= relCnt(m) && relCnt(m) <= old(len(m.comp.State.Transactions)) && len(m.comp.State.Transactions) == old(len(m.comp.State.Transactions)) - relCnt(m)
//@   loop 0: invariant ref(m.comp.State.Transactions) == old(ref(m.comp.State.Transactions)) && off(m.comp.State.Transactions) == old(off(m.comp.State.Transactions)) + relCnt(m)
//@   loop 0: invariant releasedInOrder(m)
//@   loop 1: invariant robWF(m) && idGenOK() && robIDs(m) && retrCnt[topP(m)] == old(retrCnt)[topP(m)]
//@   loop 1: invariant forall i in 0..len(m.comp.State.Transactions) :: sameKey(m, i, i + relCnt(m))
//@   loop 2: ghost k2 = relCnt(m)
//@   loop 2: backedge k2 = k2
//@   loop 2: invariant robWF(m) && idGenOK() && robIDs(m) && relCnt(m) == k2 && 0 <= relCnt(m) && relCnt(m) <= old(len(m.comp.State.Transactions))
//@   loop 2: invariant releasedInOrder(m)
//@   loop 2: invariant ref(m.comp.State.Transactions) == old(ref(m.comp.State.Transactions)) || fresh(m.comp.State.Transactions)
//@   loop 2: invariant 0 <= accCnt(m) && len(m.comp.State.Transactions) == old(len(m.comp.State.Transactions)) - relCnt(m) + accCnt(m)
//@   loop 2: invariant forall i in 0..old(len(m.comp.State.Transactions)) - relCnt(m) :: sameKey(m, i, i + relCnt(m))
