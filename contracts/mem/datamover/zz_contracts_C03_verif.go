//go:build verif

// Contracts for package mem/datamover, property C03 (comment-only; read by /verif/engine, never compiled into a build).
// C03, decidable part: "No result depends on map iteration order" (the engine iterates a map in an ARBITRARY order).
//
// ctrlMiddleware.endInflightTasks (Reset path) ranges over the maps CurrentTransaction.PendingRead / PendingWrite and
// ends one tracing task per key. Its observable effect is the SEQUENCE of TaskEnd hook invocations (what every tracer
// attached to the component sees, e.g. the row order of a DBTracer's "trace" table). The sequence is logged in the ghost
// (c03EndN, c03EndSeq); the honest order-independence postcondition pins it as a function of the maps' contents:
// the pending-read IDs in increasing order, then the pending-write IDs in increasing order.
// The set part (members/complete/frame) holds; the order part (C03.endInflightTasks.deterministic*) does NOT hold for the
// code as written -- see the report: the hooks are invoked in Go's randomized map order.
package datamover

// ---- trusted: the tracing entry points end in arbitrary user hooks. Modelled as: the call is appended to the log,
// nothing of the component is touched (same assumption as C18's `ext tracing.EndReqInOnReset`).
//@ ghost var c03EndN int
//@ ghost var c03EndSeq map
//@ ext tracing.EndTaskOnReset(domain, taskID)
//@   trusted
//@   ensures c03EndN == old(c03EndN) + 1 && c03EndSeq == upd(old(c03EndSeq), old(c03EndN), taskID)
//@   assigns c03EndN, c03EndSeq
//@ ext tracing.EndReqInOnReset(domain, id)
//@   trusted
//@   assigns nothing

//@ func c03PR(m) = m.comp.State.CurrentTransaction.PendingRead
//@ func c03PW(m) = m.comp.State.CurrentTransaction.PendingWrite
//@ pred c03LogKeeps(from) = forall k int :: k < from ==> c03EndSeq[k] == old(c03EndSeq)[k]

//@ fn (*ctrlMiddleware).endInflightTasks
//@   property C03
//@   requires m != nil && m.comp != nil
//@   label C03.endInflightTasks.reads.members
//@   ensures old(c03EndN) <= mid && (forall k int :: old(c03EndN) <= k && k < mid ==> (c03EndSeq[k] in c03PR(m)))
//@   label C03.endInflightTasks.reads.complete
//@   ensures forall a uint64 :: (a in c03PR(m)) ==> old(c03EndN) <= posR[a] && posR[a] < mid && c03EndSeq[posR[a]] == a
//@   label C03.endInflightTasks.writes.members
//@   ensures mid <= c03EndN && (forall k int :: mid <= k && k < c03EndN ==> (c03EndSeq[k] in c03PW(m)))
//@   label C03.endInflightTasks.writes.complete
//@   ensures forall a uint64 :: (a in c03PW(m)) ==> mid <= posW[a] && posW[a] < c03EndN && c03EndSeq[posW[a]] == a
//@   label C03.endInflightTasks.log.keeps
//@   ensures c03LogKeeps(old(c03EndN))
// ORDER: a function of the contents alone = increasing task ID within each phase
//@   label C03.endInflightTasks.deterministic.reads
//@   ensures forall k int :: old(c03EndN) <= k && k + 1 < mid ==> c03EndSeq[k] < c03EndSeq[k+1]
//@   label C03.endInflightTasks.deterministic.writes
//@   ensures forall k int :: mid <= k && k + 1 < c03EndN ==> c03EndSeq[k] < c03EndSeq[k+1]
// ground instances of the two clauses above (so that a violation comes back as a counterexample, not as `unknown`)
//@   label C03.endInflightTasks.deterministic.reads.first2
//@   ensures old(c03EndN) + 2 <= mid ==> c03EndSeq[old(c03EndN)] < c03EndSeq[old(c03EndN) + 1]
//@   label C03.endInflightTasks.deterministic.writes.first2
//@   ensures mid + 2 <= c03EndN ==> c03EndSeq[mid] < c03EndSeq[mid + 1]
//@   assigns c03EndN, c03EndSeq
//@   loop 0: ghost posR = idperm
//@   loop 0: backedge posR = upd(posR, id, athead(c03EndN))
//@   loop 0: invariant old(c03EndN) <= c03EndN && c03LogKeeps(old(c03EndN))
//@   loop 0: invariant forall k int :: old(c03EndN) <= k && k < c03EndN ==> (c03EndSeq[k] in c03PR(m)) && visited(c03EndSeq[k])
//@   loop 0: invariant forall a uint64 :: visited(a) ==> old(c03EndN) <= posR[a] && posR[a] < c03EndN && c03EndSeq[posR[a]] == a
//@   loop 1: ghost mid = c03EndN
//@   loop 1: backedge mid = mid
//@   loop 1: ghost posW = idperm
//@   loop 1: backedge posW = upd(posW, id, athead(c03EndN))
//@   loop 1: invariant old(c03EndN) <= mid && mid <= c03EndN && c03LogKeeps(old(c03EndN))
//@   loop 1: invariant forall k int :: old(c03EndN) <= k && k < mid ==> (c03EndSeq[k] in c03PR(m))
//@   loop 1: invariant forall a uint64 :: (a in c03PR(m)) ==> old(c03EndN) <= posR[a] && posR[a] < mid && c03EndSeq[posR[a]] == a
//@   loop 1: invariant forall k int :: mid <= k && k < c03EndN ==> (c03EndSeq[k] in c03PW(m)) && visited(c03EndSeq[k])
//@   loop 1: invariant forall a uint64 :: visited(a) ==> mid <= posW[a] && posW[a] < c03EndN && c03EndSeq[posW[a]] == a
