//go:build verif

// Contracts for package mem/datamover, property C03 (comment-only; read by /verif/engine, never compiled into a build).
// C03, decidable part: "No result depends on map iteration order".
//
// ctrlMiddleware.endInflightTasks (Reset path) ends one tracing task per key of the MAPS CurrentTransaction.PendingRead
// (read phase of the log: [old(c03EndN), mid)) and CurrentTransaction.PendingWrite (write phase: [mid, c03EndN)).
// The observable effect is the SEQUENCE of TaskEnd hook invocations (what every tracer attached to the component sees, e.g.
// the row order of a DBTracer's "trace" table), logged in the ghost (c03EndN, c03EndSeq). Order-independence: the log is
// pinned as a function of the map's CONTENTS -- exactly its keys (members, complete), in increasing order (deterministic).
// History: before /repo commit 8468750f the function ranged over the map directly and the hooks ran in Go's randomized map
// order (200 identical resets with 8 entries gave 8 distinct TaskEnd orders); the order clauses were not provable then.
package datamover

// ---- trusted: tracing entry points end in arbitrary user hooks (assumed not to touch the component); EndTaskOnReset is logged.
//@ ghost var c03EndN int
//@ ghost var c03EndSeq map
//@ ext tracing.EndTaskOnReset(domain, taskID)
//@   trusted
//@   ensures c03EndN == old(c03EndN) + 1 && c03EndSeq == upd(old(c03EndSeq), old(c03EndN), taskID)
//@   assigns c03EndN, c03EndSeq
//@ ext tracing.EndReqInOnReset(domain, id)
//@   trusted
//@   assigns nothing
// slices.Sorted(maps.Keys(m)) is modelled natively by the engine (trusted standard library): a fresh, strictly ascending
// slice of exactly the keys of m; SortedKeys_pos[k] is the index of key k.

//@ pred c03LogKeeps(from) = forall k int :: k < from ==> c03EndSeq[k] == old(c03EndSeq)[k]
//@ func c03PR(m) = m.comp.State.CurrentTransaction.PendingRead
//@ func c03PW(m) = m.comp.State.CurrentTransaction.PendingWrite

//@ fn (*ctrlMiddleware).endInflightTasks
//@   property C03
//@   requires m != nil && m.comp != nil
//@   label C03.endInflightTasks.reads.members
//@   ensures old(c03EndN) <= mid && (forall k int :: old(c03EndN) <= k && k < mid ==> (c03EndSeq[k] in c03PR(m)))
//@   label C03.endInflightTasks.reads.complete
//@   ensures forall a uint64 :: (a in c03PR(m)) ==> 0 <= posR[a] && old(c03EndN) + posR[a] < mid && c03EndSeq[old(c03EndN) + posR[a]] == a
//@   label C03.endInflightTasks.writes.members
//@   ensures mid <= c03EndN && (forall k int :: mid <= k && k < c03EndN ==> (c03EndSeq[k] in c03PW(m)))
//@   label C03.endInflightTasks.writes.complete
//@   ensures forall a uint64 :: (a in c03PW(m)) ==> 0 <= SortedKeys_pos[a] && mid + SortedKeys_pos[a] < c03EndN && c03EndSeq[mid + SortedKeys_pos[a]] == a
//@   label C03.endInflightTasks.log.keeps
//@   ensures c03LogKeeps(old(c03EndN))
// ORDER: a function of the contents alone = increasing task ID within each phase
//@   label C03.endInflightTasks.deterministic.reads
//@   ensures forall k int :: old(c03EndN) <= k && k + 1 < mid ==> c03EndSeq[k] < c03EndSeq[k+1]
//@   label C03.endInflightTasks.deterministic.writes
//@   ensures forall k int :: mid <= k && k + 1 < c03EndN ==> c03EndSeq[k] < c03EndSeq[k+1]
//@   label C03.endInflightTasks.deterministic.reads.first2
//@   ensures old(c03EndN) + 2 <= mid ==> c03EndSeq[old(c03EndN)] < c03EndSeq[old(c03EndN) + 1]
//@   label C03.endInflightTasks.deterministic.writes.first2
//@   ensures mid + 2 <= c03EndN ==> c03EndSeq[mid] < c03EndSeq[mid + 1]
//@   assigns c03EndN, c03EndSeq
// loop 0: the read phase (posR = the position map of the sorted PendingRead keys, kept for loop 1 and the postconditions)
//@   loop 0: ghost posR = SortedKeys_pos
//@   loop 0: backedge posR = posR
//@   loop 0: invariant posR == SortedKeys_pos && -1 <= rangeindex && rangeindex < len(c03PR(m)) && c03EndN == old(c03EndN) + rangeindex + 1 && c03LogKeeps(old(c03EndN))
//@   label C03.endInflightTasks.reads.last.atloop
//@   loop 0: invariant rangeindex >= 0 ==> (c03EndSeq[c03EndN - 1] in c03PR(m)) && posR[c03EndSeq[c03EndN - 1]] == rangeindex
//@   label C03.endInflightTasks.reads.members.atloop
//@   loop 0: invariant forall k int :: old(c03EndN) <= k && k < c03EndN ==> (c03EndSeq[k] in c03PR(m)) && posR[c03EndSeq[k]] == k - old(c03EndN)
//@   label C03.endInflightTasks.reads.complete.atloop
//@   loop 0: invariant forall a uint64 :: (a in c03PR(m)) && posR[a] <= rangeindex ==> c03EndSeq[old(c03EndN) + posR[a]] == a
//@   label C03.endInflightTasks.deterministic.reads.atloop
//@   loop 0: invariant forall k int :: old(c03EndN) <= k && k + 1 < c03EndN ==> c03EndSeq[k] < c03EndSeq[k+1]
// loop 1: the write phase; the read phase [old(c03EndN), mid) is carried along unchanged
//@   loop 1: ghost mid = c03EndN
//@   loop 1: backedge mid = mid
//@   loop 1: invariant old(c03EndN) <= mid && -1 <= rangeindex && rangeindex < len(c03PW(m)) && c03EndN == mid + rangeindex + 1 && c03LogKeeps(old(c03EndN))
//@   loop 1: invariant forall k int :: old(c03EndN) <= k && k < mid ==> (c03EndSeq[k] in c03PR(m))
//@   loop 1: invariant forall a uint64 :: (a in c03PR(m)) ==> 0 <= posR[a] && old(c03EndN) + posR[a] < mid && c03EndSeq[old(c03EndN) + posR[a]] == a
//@   loop 1: invariant forall k int :: old(c03EndN) <= k && k + 1 < mid ==> c03EndSeq[k] < c03EndSeq[k+1]
//@   label C03.endInflightTasks.writes.last.atloop
//@   loop 1: invariant rangeindex >= 0 ==> (c03EndSeq[c03EndN - 1] in c03PW(m)) && SortedKeys_pos[c03EndSeq[c03EndN - 1]] == rangeindex
//@   label C03.endInflightTasks.writes.members.atloop
//@   loop 1: invariant forall k int :: mid <= k && k < c03EndN ==> (c03EndSeq[k] in c03PW(m)) && SortedKeys_pos[c03EndSeq[k]] == k - mid
//@   label C03.endInflightTasks.writes.complete.atloop
//@   loop 1: invariant forall a uint64 :: (a in c03PW(m)) && SortedKeys_pos[a] <= rangeindex ==> c03EndSeq[mid + SortedKeys_pos[a]] == a
//@   label C03.endInflightTasks.deterministic.writes.atloop
//@   loop 1: invariant forall k int :: mid <= k && k + 1 < c03EndN ==> c03EndSeq[k] < c03EndSeq[k+1]
