//go:build verif

// Contracts for package datamover, property C23 (comment-only; read by /verif/engine, never compiled into a build).
// C23: data movers copy exactly the requested range; one acknowledgment per move; one move at a time in arrival order.
//
// View of the chunk buffer: a partial map from transaction-relative offsets to bytes, written in (slot, in-slot) coordinates:
// the byte at relative offset  bs.Offset + j*bs.Granularity + b  (0 <= b < Granularity) is DEFINED iff j < len(Chunks) and
// Chunks[j].Valid, and then its value is Chunks[j].Data[b]. (Bytes below bs.Offset are forgotten.)
package datamover

// ---- the chunk buffer ----
// every valid chunk holds exactly one granule of bytes
//@ pred bufWF(bs) = bs != nil && bs.Granularity > 0 && (forall i in 0..len(bs.Chunks) :: bs.Chunks[i].Valid ==> len(bs.Chunks[i].Data) == bs.Granularity) && (forall i in 0..len(bs.Chunks) :: ref(bs.Chunks[i].Data) <= allocTop)
//@ func slotOf(bs, offset) = (offset - bs.Offset) / bs.Granularity
//@ pred sameChunk(bs, i, j) = bs.Chunks[i].Valid == old(bs.Chunks[j].Valid) && ref(bs.Chunks[i].Data) == old(ref(bs.Chunks[j].Data)) && off(bs.Chunks[i].Data) == old(off(bs.Chunks[j].Data)) && len(bs.Chunks[i].Data) == old(len(bs.Chunks[j].Data))

//@ fn alignAddress
//@   property C23
//@   panics granularity == 0
//@   label C23.align
//@   ensures result == addr - addr % granularity
//@   assigns nothing

//@ fn addressMustBeAligned
//@   property C23
//@   panics granularity == 0 || addr % granularity != 0
//@   assigns nothing

// adding data defines exactly the bytes of slot (offset-Offset)/Granularity; no other byte of the view changes
//@ fn bufferAddData
//@   property C23
//@   requires bufWF(bs) && offset >= bs.Offset && len(data) == bs.Granularity
//@   panics offset % bs.Granularity != 0
//@   label C23.add.len
//@   ensures len(bs.Chunks) == max(old(len(bs.Chunks)), old(slotOf(bs, offset)) + 1)
//@   label C23.add.defined
//@   ensures bs.Chunks[old(slotOf(bs, offset))].Valid && len(bs.Chunks[old(slotOf(bs, offset))].Data) == len(data)
//@   label C23.add.bytes
//@   ensures forall b in 0..len(data) :: bs.Chunks[old(slotOf(bs, offset))].Data[b] == data[b]
//@   label C23.add.copy
//@   ensures fresh(bs.Chunks[old(slotOf(bs, offset))].Data)
//@   label C23.add.others
//@   ensures forall i in 0..old(len(bs.Chunks)) :: i != old(slotOf(bs, offset)) ==> sameChunk(bs, i, i)
//@   label C23.add.gap
//@   ensures forall i in old(len(bs.Chunks))..old(slotOf(bs, offset)) :: !bs.Chunks[i].Valid
//@   label C23.add.frame
//@   ensures bs.Offset == old(bs.Offset) && bs.Granularity == old(bs.Granularity) && bufWF(bs)
//@   assigns bs.Chunks, elems(bs.Chunks)
//@   loop 0: invariant i == len(bs.Chunks) && old(len(bs.Chunks)) <= i && i <= max(old(len(bs.Chunks)), slot + 1)
//@   loop 0: invariant forall j in 0..old(len(bs.Chunks)) :: sameChunk(bs, j, j)
//@   loop 0: invariant forall j in old(len(bs.Chunks))..i :: !bs.Chunks[j].Valid
//@   loop 0: invariant bs.Offset == old(bs.Offset) && bs.Granularity == old(bs.Granularity)
//@   loop 0: invariant (ref(bs.Chunks) == old(ref(bs.Chunks)) && off(bs.Chunks) == old(off(bs.Chunks))) || fresh(bs.Chunks)
//@   loop 0: invariant forall j in 0..i :: bs.Chunks[j].Valid ==> len(bs.Chunks[j].Data) == bs.Granularity
//@   loop 0: invariant forall j in 0..i :: ref(bs.Chunks[j].Data) <= old(allocTop)

// ---- small facts about Euclidean division (proved separately, instantiated with `use`) ----
//@ lemma divLower(i, x, g)
//@   property C23
//@   requires g > 0 && i >= 0 && x >= 0 && i * g <= x
//@   ensures i <= x / g
//@ lemma divUpper(i, x, g)
//@   property C23
//@   requires g > 0 && i >= 0 && x >= 0 && x < (i + 1) * g
//@   ensures x / g <= i

//@ lemma alignedMod(o, g)
//@   property C23
//@   requires g > 0 && o >= 0
//@   ensures (o - o % g) % g == 0
//@ lemma alignedDiff(a, b, g)
//@   property C23
//@   requires g > 0 && a % g == 0 && b % g == 0
//@   ensures (a - b) / g * g == a - b

// moving the offset forward forgets exactly the chunks below the new aligned offset: new chunk i is old chunk i+d
//@ pred bufAligned(bs) = bs.Offset % bs.Granularity == 0
//@ func alignedTo(bs, o) = o - o % bs.Granularity
//@ func discard(bs, o) = (alignedTo(bs, o) - bs.Offset) / bs.Granularity
//@ fn bufferMoveOffsetForwardTo
//@   property C23
//@   requires bufWF(bs) && bufAligned(bs)
//@   use alignedMod(newOffset, bs.Granularity)
//@   use alignedDiff(alignedTo(bs, newOffset), bs.Offset, bs.Granularity)
//@   label C23.move.noop
//@   ensures old(alignedTo(bs, newOffset) <= bs.Offset) ==> bs.Offset == old(bs.Offset) && unchanged(bs.Chunks)
//@   label C23.move.offset
//@   ensures old(alignedTo(bs, newOffset) > bs.Offset) ==> bs.Offset == old(alignedTo(bs, newOffset))
//@   label C23.move.exact
//@   ensures old(alignedTo(bs, newOffset) > bs.Offset) ==> old(bs.Offset) + old(discard(bs, newOffset)) * bs.Granularity == bs.Offset
//@   label C23.move.len
//@   ensures old(alignedTo(bs, newOffset) > bs.Offset) ==> len(bs.Chunks) == max(0, old(len(bs.Chunks)) - old(discard(bs, newOffset)))
//@   label C23.move.kept
//@   ensures old(alignedTo(bs, newOffset) > bs.Offset) ==> (forall i in 0..len(bs.Chunks) :: sameChunk(bs, i, i + old(discard(bs, newOffset))))
//@   label C23.move.frame
//@   ensures bs.Granularity == old(bs.Granularity) && bufWF(bs) && bufAligned(bs) && bs.Offset >= old(bs.Offset)
//@   assigns bs.Chunks, bs.Offset

// extraction of [offset, offset+size): succeeds iff every byte of the range is defined, and then returns exactly those bytes.
// Witnesses sW/oW: output byte k is the byte of slot sW[k] at in-slot position oW[k], and that IS relative offset offset+k:
// bs.Offset + sW[k]*Granularity + oW[k] == offset + k.
//@ func relOf(bs, offset) = offset - bs.Offset
//@ func lastSlot(bs, offset, size) = (offset - bs.Offset + size - 1) / bs.Granularity
//@ fn bufferExtractData
//@   property C23
//@   requires bufWF(bs) && offset >= bs.Offset && size > 0 && size <= 4611686018427387904 && offset + size <= MaxUint64
//@   use forall q in 0..len(bs.Chunks) + 1 :: divLower(q, offset - bs.Offset + size - 1, bs.Granularity)
//@   use forall q in 0..len(bs.Chunks) + 1 :: divUpper(q, offset - bs.Offset + size - 1, bs.Granularity)
//@   witness sW map = mapof(k, k >= dn ? i : gS[k])
//@   witness oW map = mapof(k, k >= dn ? so + k - dn : gO[k])
//@   label C23.extract.ok
//@   ensures result1 <==> lastSlot(bs, offset, size) < len(bs.Chunks) && (forall j in slotOf(bs, offset)..lastSlot(bs, offset, size) + 1 :: bs.Chunks[j].Valid)
//@   label C23.extract.none
//@   ensures !result1 ==> len(result0) == 0
//@   label C23.extract.len
//@   ensures result1 ==> len(result0) == size && fresh(result0)
//@   label C23.extract.where
//@   ensures result1 ==> (forall k in 0..size :: slotOf(bs, offset) <= sW[k] && sW[k] <= lastSlot(bs, offset, size) && 0 <= oW[k] && oW[k] < bs.Granularity && sW[k] * bs.Granularity + oW[k] == relOf(bs, offset) + k)
//@   label C23.extract.bytes
//@   ensures result1 ==> (forall k in 0..size :: result0[k] == bs.Chunks[sW[k]].Data[oW[k]])
//@   assigns nothing
//@   loop 0: ghost dn = 0
//@   loop 0: backedge dn = size - sizeLeft
//@   loop 0: ghost so = slotOffset
//@   loop 0: backedge so = slotOffset
//@   loop 0: ghost gS = idperm
//@   loop 0: backedge gS = mapof(k, k >= dn ? athead(i) : gS[k])
//@   loop 0: ghost gO = idperm
//@   loop 0: backedge gO = mapof(k, k >= dn ? so + k - dn : gO[k])
//@   loop 0: invariant slot <= i && 0 < sizeLeft && sizeLeft <= size && dn == size - sizeLeft && len(data) == size && fresh(data) && so == slotOffset
//@   loop 0: invariant 0 <= slotOffset && slotOffset < bs.Granularity && i * bs.Granularity + slotOffset == relOf(bs, offset) + dn
//@   loop 0: invariant slot == slotOf(bs, offset) && forall j in slot..i :: bs.Chunks[j].Valid
//@   loop 0: invariant forall k in 0..dn :: slot <= gS[k] && gS[k] < i && 0 <= gO[k] && gO[k] < bs.Granularity && gS[k] * bs.Granularity + gO[k] == relOf(bs, offset) + k
//@   loop 0: invariant forall j in 0..len(bs.Chunks) :: ref(bs.Chunks[j].Data) != ref(data)
//@   loop 0: invariant forall k in 0..dn :: data[k] == bs.Chunks[gS[k]].Data[gO[k]]

// ======================= transfer steps =======================
// ---- ghost view of the ports: same ghosts and trusted iface contracts as /verif/contracts/mem/rob/zz_contracts_C21_verif.go ----
//@ ghost var canSend set
//@ ghost var sendCnt map
//@ ghost var sentTyp map2
//@ ghost var sentVal map2
//@ ghost var inTyp map
//@ ghost var inVal map
//@ ghost var retrCnt map
//@ ghost var issued set

//@ func portNamed(m, n) = m.comp.TickingComponent.PortOwnerBase.ports[n]
//@ func insP(m) = ifaceval(portNamed(m, "Inside"))
//@ func outP(m) = ifaceval(portNamed(m, "Outside"))
//@ func topP(m) = ifaceval(portNamed(m, "Top"))
//@ pred dmWF(m) = m.comp != nil && m.comp.TickingComponent != nil && m.comp.TickingComponent.PortOwnerBase != nil && ("Top" in m.comp.TickingComponent.PortOwnerBase.ports) && ("Inside" in m.comp.TickingComponent.PortOwnerBase.ports) && ("Outside" in m.comp.TickingComponent.PortOwnerBase.ports) && portNamed(m, "Top") != nil && portNamed(m, "Inside") != nil && portNamed(m, "Outside") != nil
//@ pred idGenOK() = timing.idGeneratorInstantiated ==> timing.idGenerator != nil
//@ pred issuedGrows() = forall k int :: old(issued)[k] ==> issued[k]
//@ func sentAt(p, n) = mkiface(sentTyp[p][n], sentVal[p][n])
//@ func sentOn(p) = sentAt(p, sendCnt[p] - 1)
//@ pred oneMoreSent(p) = sendCnt == upd(old(sendCnt), p, old(sendCnt)[p] + 1) && sentTyp == upd(old(sentTyp), p, upd(old(sentTyp)[p], old(sendCnt)[p], sentTyp[p][old(sendCnt)[p]])) && sentVal == upd(old(sentVal), p, upd(old(sentVal)[p], old(sendCnt)[p], sentVal[p][old(sendCnt)[p]]))
//@ pred nothingSent() = sendCnt == old(sendCnt) && sentTyp == old(sentTyp) && sentVal == old(sentVal) && canSend == old(canSend)
//@ pred nothingRetrieved() = inTyp == old(inTyp) && inVal == old(inVal) && retrCnt == old(retrCnt)
//@ func headOf(p) = mkiface(inTyp[p], inVal[p])

// ---- the current transaction ----
//@ func active(m) = m.comp.State.CurrentTransaction.Active
//@ func srcA(m) = m.comp.State.CurrentTransaction.SrcAddress
//@ func dstA(m) = m.comp.State.CurrentTransaction.DstAddress
//@ func bsz(m) = m.comp.State.CurrentTransaction.ByteSize
//@ func nra(m) = m.comp.State.CurrentTransaction.NextReadAddr
//@ func nwa(m) = m.comp.State.CurrentTransaction.NextWriteAddr
//@ func srcG(m) = m.comp.State.SrcByteGranularity
//@ func dstG(m) = m.comp.State.DstByteGranularity
//@ func bufOff(m) = m.comp.State.Buffer.Offset
//@ func bufG(m) = m.comp.State.Buffer.Granularity
//@ pred sideOK(s) = s == "inside" || s == "outside"
//@ func sidePort(m, s) = s == "inside" ? portNamed(m, "Inside") : portNamed(m, "Outside")
//@ func dstP(m) = ifaceval(sidePort(m, m.comp.State.DstSide))
//@ func srcP(m) = ifaceval(sidePort(m, m.comp.State.SrcSide))
//@ pred mapperOK(kind, ports, isz) = (kind == "single" || kind == "interleaved") && len(ports) > 0 && (kind == "interleaved" ==> isz > 0)
//@ pred sideMapperOK(m, s) = s == "inside" ? mapperOK(m.comp.spec.InsideMapperKind, m.comp.spec.InsideMapperPorts, m.comp.spec.InsideMapperInterleavingSize) : mapperOK(m.comp.spec.OutsideMapperKind, m.comp.spec.OutsideMapperPorts, m.comp.spec.OutsideMapperInterleavingSize)
// buffer part of the transaction invariant: the buffer is indexed in source granules, starts at or below the write pointer
//@ pred bufInv(m) = bufG(m) == srcG(m) && srcG(m) > 0 && dstG(m) > 0 && bufOff(m) % bufG(m) == 0 && (forall i in 0..len(m.comp.State.Buffer.Chunks) :: m.comp.State.Buffer.Chunks[i].Valid ==> len(m.comp.State.Buffer.Chunks[i].Data) == bufG(m)) && (forall i in 0..len(m.comp.State.Buffer.Chunks) :: ref(m.comp.State.Buffer.Chunks[i].Data) <= allocTop)
//@ pred writeInv(m) = nwa(m) >= dstA(m) && bufOff(m) <= nwa(m) - dstA(m) && dstA(m) + bsz(m) <= MaxUint64
//@ pred transSame(m) = active(m) == old(active(m)) && srcA(m) == old(srcA(m)) && dstA(m) == old(dstA(m)) && bsz(m) == old(bsz(m)) && nra(m) == old(nra(m)) && nwa(m) == old(nwa(m)) && m.comp.State.CurrentTransaction.ReqID == old(m.comp.State.CurrentTransaction.ReqID) && m.comp.State.CurrentTransaction.ReqSrc == old(m.comp.State.CurrentTransaction.ReqSrc) && m.comp.State.CurrentTransaction.ReqDst == old(m.comp.State.CurrentTransaction.ReqDst) && srcG(m) == old(srcG(m)) && dstG(m) == old(dstG(m)) && m.comp.State.SrcSide == old(m.comp.State.SrcSide) && m.comp.State.DstSide == old(m.comp.State.DstSide)
//@ pred bufSame(m) = bufOff(m) == old(bufOff(m)) && bufG(m) == old(bufG(m)) && unchanged(m.comp.State.Buffer.Chunks)

// ---- port accessors ----
//@ fn (*dataTransferMW).insidePort
//@   property C23
//@   requires dmWF(m)
//@   ensures result == portNamed(m, "Inside")
//@   assigns nothing
//@ fn (*dataTransferMW).outsidePort
//@   property C23
//@   requires dmWF(m)
//@   ensures result == portNamed(m, "Outside")
//@   assigns nothing
//@ fn (*ctrlParseMW).topPort
//@   property C23
//@   requires dmWF(m)
//@   ensures result == portNamed(m, "Top")
//@   assigns nothing
//@ fn (*dataTransferMW).srcPort
//@   property C23
//@   requires dmWF(m) && sideOK(m.comp.State.SrcSide)
//@   ensures result == sidePort(m, m.comp.State.SrcSide) && result != nil
//@   assigns nothing
//@ fn (*dataTransferMW).dstPort
//@   property C23
//@   requires dmWF(m) && sideOK(m.comp.State.DstSide)
//@   ensures result == sidePort(m, m.comp.State.DstSide) && result != nil
//@   assigns nothing
//@ fn findPort
//@   property C23
//@   panics !mapperOK(kind, ports, interleavingSize)
//@   assigns nothing
//@ fn (*dataTransferMW).findSrcPort
//@   property C23
//@   requires m.comp != nil && sideOK(m.comp.State.SrcSide) && sideMapperOK(m, m.comp.State.SrcSide)
//@   assigns nothing
//@ fn (*dataTransferMW).findDstPort
//@   property C23
//@   requires m.comp != nil && sideOK(m.comp.State.DstSide) && sideMapperOK(m, m.comp.State.DstSide)
//@   assigns nothing
//@ fn transactionAsMsg
//@   property C23
//@   requires trans != nil
//@   label C23.asmsg
//@   ensures result.ID == trans.ReqID && result.Src == trans.ReqSrc && result.Dst == trans.ReqDst && result.SrcAddress == trans.SrcAddress && result.DstAddress == trans.DstAddress && result.ByteSize == trans.ByteSize
//@   assigns nothing

// ---- writeToDst: EVERY write request lies inside the destination range and carries the buffered source bytes of the same
// relative offset (wS/wO: output byte k is the byte of slot wS[k], in-slot position wO[k] of the buffer on entry) ----
//@ func wrSent(m) = as(sentOn(dstP(m)), "memprotocol.WriteReq")
// a write carries one destination granule, clamped to what is left of the destination range
//@ func wrSize(m) = min(dstG(m), dstA(m) + bsz(m) - nwa(m))
//@ fn (*dataTransferMW).writeToDst
//@   property C23
//@   requires dmWF(m) && idGenOK()
//@   requires active(m) ==> bufInv(m) && writeInv(m) && sideOK(m.comp.State.DstSide) && sideMapperOK(m, m.comp.State.DstSide) && wrSize(m) <= 4611686018427387904 && m.comp.State.CurrentTransaction.PendingWrite != nil
//@   witness wS map = bufferExtractData_sW
//@   witness wO map = bufferExtractData_oW
//@   label C23.write.when
//@   ensures result ==> old(active(m)) && old(nwa(m) < dstA(m) + bsz(m)) && old(canSend[dstP(m)])
//@   label C23.write.noop
//@   ensures !result ==> transSame(m) && bufSame(m) && nothingSent() && unchanged(m.comp.State.CurrentTransaction.PendingWrite)
//@   label C23.write.onesend
//@   ensures result ==> oneMoreSent(dstP(m)) && hastype(sentOn(dstP(m)), "memprotocol.WriteReq")
//@   label C23.write.addr
//@   ensures result ==> wrSent(m).Address == old(nwa(m)) && wrSent(m).Address >= dstA(m)
//@   label C23.write.bound
//@   ensures result ==> wrSent(m).Address + len(wrSent(m).Data) <= dstA(m) + bsz(m)
//@   label C23.write.len
//@   ensures result ==> len(wrSent(m).Data) == old(wrSize(m)) && len(wrSent(m).Data) > 0
//@   label C23.write.where
//@   ensures result ==> (forall k in 0..old(wrSize(m)) :: 0 <= wS[k] && 0 <= wO[k] && wO[k] < bufG(m) && old(bufOff(m)) + wS[k] * bufG(m) + wO[k] == wrSent(m).Address - dstA(m) + k)
//@   label C23.write.bytes
//@   ensures result ==> (forall k in 0..old(wrSize(m)) :: wS[k] < old(len(m.comp.State.Buffer.Chunks)) && old(m.comp.State.Buffer.Chunks[wS[k]].Valid) && wrSent(m).Data[k] == old(m.comp.State.Buffer.Chunks[wS[k]].Data[wO[k]]))
//@   label C23.write.next
//@   ensures result ==> nwa(m) == old(nwa(m)) + old(wrSize(m)) && srcA(m) == old(srcA(m)) && dstA(m) == old(dstA(m)) && bsz(m) == old(bsz(m)) && nra(m) == old(nra(m)) && active(m)
//@   label C23.write.pending
//@   ensures result ==> (wrSent(m).ID in m.comp.State.CurrentTransaction.PendingWrite) && !old(issued)[wrSent(m).ID] && m.comp.State.CurrentTransaction.PendingWrite[wrSent(m).ID].Address == wrSent(m).Address && (forall k uint64 :: k != wrSent(m).ID ==> ((k in m.comp.State.CurrentTransaction.PendingWrite) <==> old(k in m.comp.State.CurrentTransaction.PendingWrite)))
//@   label C23.write.forget
//@   ensures result ==> bufOff(m) == max(old(bufOff(m)), (nwa(m) - dstA(m)) - (nwa(m) - dstA(m)) % bufG(m))
//@   label C23.write.inv
//@   ensures active(m) ==> bufInv(m) && writeInv(m)
//@   label C23.write.ids
//@   ensures idGenOK() && issuedGrows()
//@   assigns m.comp.State.CurrentTransaction.NextWriteAddr, elems(m.comp.State.CurrentTransaction.PendingWrite), m.comp.State.Buffer.Chunks, m.comp.State.Buffer.Offset, canSend, sendCnt, sentTyp, sentVal, issued, key("G|github.com/sarchlab/akita/v5/timing.idGenerator|"), key("G|github.com/sarchlab/akita/v5/timing.idGeneratorInstantiated|"), key("O|timing.sequentialIDGenerator|nextID"), key("O|timing.parallelIDGenerator|nextID")

// ---- finishTransaction: exactly one acknowledgment, only after every read and write is acknowledged ----
//@ func rspSent(m) = as(sentOn(topP(m)), "datamoverprotocol.DataMoveResponse")
//@ func pendR(m) = len(m.comp.State.CurrentTransaction.PendingRead)
//@ func pendW(m) = len(m.comp.State.CurrentTransaction.PendingWrite)
//@ fn (*ctrlParseMW).finishTransaction
//@   property C23
//@   requires dmWF(m) && idGenOK()
//@   requires active(m) ==> srcG(m) > 0 && dstA(m) + bsz(m) <= MaxUint64
//@   label C23.finish.when
//@   ensures result <==> old(active(m) && nwa(m) >= dstA(m) + bsz(m) && pendR(m) == 0 && pendW(m) == 0 && canSend[topP(m)])
//@   label C23.finish.oneack
//@   ensures result ==> oneMoreSent(topP(m)) && hastype(sentOn(topP(m)), "datamoverprotocol.DataMoveResponse")
//@   label C23.finish.ackto
//@   ensures result ==> rspSent(m).RspTo == old(m.comp.State.CurrentTransaction.ReqID) && rspSent(m).Dst == old(m.comp.State.CurrentTransaction.ReqSrc) && rspSent(m).Src == old(m.comp.State.CurrentTransaction.ReqDst)
//@   label C23.finish.idle
//@   ensures result ==> !active(m) && pendR(m) == 0 && pendW(m) == 0 && len(m.comp.State.Buffer.Chunks) == 0
//@   label C23.finish.noop
//@   ensures !result ==> transSame(m) && bufSame(m) && nothingSent()
//@   label C23.finish.ids
//@   ensures idGenOK() && issuedGrows()
//@   assigns m.comp.State.CurrentTransaction, m.comp.State.Buffer, canSend, sendCnt, sentTyp, sentVal, issued, key("G|github.com/sarchlab/akita/v5/timing.idGenerator|"), key("G|github.com/sarchlab/akita/v5/timing.idGeneratorInstantiated|"), key("O|timing.sequentialIDGenerator|nextID"), key("O|timing.parallelIDGenerator|nextID")

// ---- parseFromCP: a request is admitted only when no move is active; it is the request at the head of Top (FIFO by the
// Port contract); while a move is active the head stays where it is ----
//@ pred isMoveReq(x) = hastype(x, "datamoverprotocol.DataMoveRequest")
//@ func moveReq(x) = as(x, "datamoverprotocol.DataMoveRequest")
//@ func granOf(m, side) = side == "inside" ? m.comp.spec.InsideByteGranularity : m.comp.spec.OutsideByteGranularity
//@ pred admissible(m, x) = isMoveReq(x) && sideOK(moveReq(x).SrcSide) && sideOK(moveReq(x).DstSide) && granOf(m, moveReq(x).SrcSide) > 0 && granOf(m, moveReq(x).DstSide) > 0 && moveReq(x).SrcAddress % granOf(m, moveReq(x).SrcSide) == 0 && moveReq(x).DstAddress % granOf(m, moveReq(x).DstSide) == 0
//@ fn (*ctrlParseMW).parseFromCP
//@   property C23
//@   requires dmWF(m)
//@   panics !active(m) && inTyp[topP(m)] != 0 && !admissible(m, headOf(topP(m)))
//@   label C23.admit.when
//@   ensures result <==> old(!active(m) && inTyp[topP(m)] != 0)
//@   label C23.admit.busy
//@   ensures !result ==> transSame(m) && bufSame(m) && nothingRetrieved()
//@   label C23.admit.head
//@   ensures result ==> retrCnt == upd(old(retrCnt), topP(m), old(retrCnt)[topP(m)] + 1) && isMoveReq(old(headOf(topP(m))))
//@   label C23.admit.trans
//@   ensures result ==> active(m) && m.comp.State.CurrentTransaction.ReqID == moveReq(old(headOf(topP(m)))).ID && m.comp.State.CurrentTransaction.ReqSrc == moveReq(old(headOf(topP(m)))).Src && m.comp.State.CurrentTransaction.ReqDst == moveReq(old(headOf(topP(m)))).Dst && srcA(m) == moveReq(old(headOf(topP(m)))).SrcAddress && dstA(m) == moveReq(old(headOf(topP(m)))).DstAddress && bsz(m) == moveReq(old(headOf(topP(m)))).ByteSize
//@   label C23.admit.start
//@   ensures result ==> nra(m) == srcA(m) && nwa(m) == dstA(m) && pendR(m) == 0 && pendW(m) == 0 && bufOff(m) == 0 && len(m.comp.State.Buffer.Chunks) == 0 && bufG(m) == srcG(m) && m.comp.State.CurrentTransaction.PendingRead != nil && m.comp.State.CurrentTransaction.PendingWrite != nil
//@   label C23.admit.gran
//@   ensures result ==> m.comp.State.SrcSide == moveReq(old(headOf(topP(m)))).SrcSide && m.comp.State.DstSide == moveReq(old(headOf(topP(m)))).DstSide && sideOK(m.comp.State.SrcSide) && sideOK(m.comp.State.DstSide) && srcG(m) == granOf(m, m.comp.State.SrcSide) && dstG(m) == granOf(m, m.comp.State.DstSide) && srcG(m) > 0 && dstG(m) > 0 && srcA(m) % srcG(m) == 0 && dstA(m) % dstG(m) == 0
//@   label C23.admit.nosend
//@   ensures nothingSent()
//@   assigns m.comp.State.SrcSide, m.comp.State.DstSide, m.comp.State.SrcByteGranularity, m.comp.State.DstByteGranularity, m.comp.State.CurrentTransaction, m.comp.State.Buffer, inTyp, inVal, retrCnt

// ---- readFromSrc: reads are issued only inside [SrcAddress, SrcAddress+ByteSize), one source granule each, in the buffer window ----
//@ lemma modStep(x, g)
//@   property C23
//@   requires g > 0 && x >= 0 && x % g == 0
//@   ensures (x + g) % g == 0
//@ func rdSent(m) = as(sentOn(srcP(m)), "memprotocol.ReadReq")
//@ pred readInv(m) = srcG(m) > 0 && nra(m) >= srcA(m) && srcA(m) % srcG(m) == 0 && nra(m) % srcG(m) == 0 && srcA(m) + bsz(m) <= MaxUint64
//@ fn (*dataTransferMW).readFromSrc
//@   property C23
//@   requires dmWF(m) && idGenOK()
//@   requires active(m) ==> readInv(m) && sideOK(m.comp.State.SrcSide) && sideMapperOK(m, m.comp.State.SrcSide) && nra(m) + srcG(m) <= MaxUint64 && bufOff(m) + m.comp.spec.BufferSize <= MaxUint64 && m.comp.State.CurrentTransaction.PendingRead != nil
//@   use modStep(active(m) ? nra(m) : 0, active(m) ? srcG(m) : 1)
//@   label C23.read.when
//@   ensures result ==> old(active(m)) && old(canSend[srcP(m)])
//@   label C23.read.noop
//@   ensures !result ==> transSame(m) && bufSame(m) && nothingSent() && unchanged(m.comp.State.CurrentTransaction.PendingRead)
//@   label C23.read.onesend
//@   ensures result ==> oneMoreSent(srcP(m)) && hastype(sentOn(srcP(m)), "memprotocol.ReadReq")
//@   label C23.read.inside
//@   ensures result ==> rdSent(m).Address == old(nra(m)) && rdSent(m).Address >= srcA(m) && rdSent(m).Address < srcA(m) + bsz(m) && rdSent(m).Address % srcG(m) == 0 && rdSent(m).AccessByteSize == srcG(m)
//@   label C23.read.window
//@   ensures result ==> rdSent(m).Address - srcA(m) < bufOff(m) + m.comp.spec.BufferSize
//@   label C23.read.next
//@   ensures result ==> nra(m) == old(nra(m)) + srcG(m) && srcA(m) == old(srcA(m)) && dstA(m) == old(dstA(m)) && bsz(m) == old(bsz(m)) && nwa(m) == old(nwa(m)) && active(m) && bufSame(m)
//@   label C23.read.pending
//@   ensures result ==> (rdSent(m).ID in m.comp.State.CurrentTransaction.PendingRead) && !old(issued)[rdSent(m).ID] && m.comp.State.CurrentTransaction.PendingRead[rdSent(m).ID].Address == rdSent(m).Address && (forall k uint64 :: k != rdSent(m).ID ==> ((k in m.comp.State.CurrentTransaction.PendingRead) <==> old(k in m.comp.State.CurrentTransaction.PendingRead)))
//@   label C23.read.inv
//@   ensures active(m) ==> readInv(m)
//@   label C23.read.ids
//@   ensures idGenOK() && issuedGrows()
//@   assigns m.comp.State.CurrentTransaction.NextReadAddr, elems(m.comp.State.CurrentTransaction.PendingRead), canSend, sendCnt, sentTyp, sentVal, issued, key("G|github.com/sarchlab/akita/v5/timing.idGenerator|"), key("G|github.com/sarchlab/akita/v5/timing.idGeneratorInstantiated|"), key("O|timing.sequentialIDGenerator|nextID"), key("O|timing.parallelIDGenerator|nextID")

// ---- responses ----
//@ pred isRdRsp(x) = hastype(x, "memprotocol.DataReadyRsp")
//@ pred isWrRsp(x) = hastype(x, "memprotocol.WriteDoneRsp")
//@ func rdRsp(x) = as(x, "memprotocol.DataReadyRsp")
//@ func wrRsp(x) = as(x, "memprotocol.WriteDoneRsp")
//@ pred retrievedOne(p) = retrCnt == upd(old(retrCnt), p, old(retrCnt)[p] + 1)

// a write acknowledgment removes exactly the acknowledged write from the pending set (an unknown one is dropped)
//@ fn (*dataTransferMW).processWriteDoneFromDst
//@   property C23
//@   requires dmWF(m)
//@   requires active(m) ==> sideOK(m.comp.State.DstSide)
//@   label C23.wdone.when
//@   ensures result <==> old(active(m) && isWrRsp(headOf(dstP(m))))
//@   label C23.wdone.noop
//@   ensures !result ==> nothingRetrieved() && unchanged(m.comp.State.CurrentTransaction.PendingWrite)
//@   label C23.wdone.retrieved
//@   ensures result ==> retrievedOne(dstP(m))
//@   label C23.wdone.acked
//@   ensures result ==> (forall k uint64 :: (k in m.comp.State.CurrentTransaction.PendingWrite) <==> old(k in m.comp.State.CurrentTransaction.PendingWrite) && k != wrRsp(old(headOf(dstP(m)))).RspTo)
//@   label C23.wdone.frame
//@   ensures transSame(m) && bufSame(m) && nothingSent()
//@   assigns elems(m.comp.State.CurrentTransaction.PendingWrite), inTyp, inVal, retrCnt

// a read response is stored at the relative offset of the read it answers (assumed: that read lies at or above the buffer
// offset and the response carries exactly one source granule) and the read leaves the pending set
//@ func rdKey(m) = rdRsp(headOf(srcP(m))).RspTo
//@ func rdOff(m) = m.comp.State.CurrentTransaction.PendingRead[rdKey(m)].Address - srcA(m)
//@ func rdSlot(m) = (rdOff(m) - bufOff(m)) / bufG(m)
//@ pred rdMatched(m) = active(m) && isRdRsp(headOf(srcP(m))) && (rdKey(m) in m.comp.State.CurrentTransaction.PendingRead)
//@ fn (*dataTransferMW).processDataReadyFromSrc
//@   property C23
//@   requires dmWF(m)
//@   requires active(m) ==> bufInv(m) && sideOK(m.comp.State.SrcSide)
//@   requires rdMatched(m) ==> m.comp.State.CurrentTransaction.PendingRead[rdKey(m)].Address >= srcA(m) + bufOff(m) && rdOff(m) % bufG(m) == 0 && len(rdRsp(headOf(srcP(m))).Data) == bufG(m)
//@   use alignedDiff(rdMatched(m) ? rdOff(m) : 0, rdMatched(m) ? bufOff(m) : 0, rdMatched(m) ? bufG(m) : 1)
//@   label C23.dready.when
//@   ensures result <==> old(active(m) && isRdRsp(headOf(srcP(m))))
//@   label C23.dready.noop
//@   ensures !result ==> nothingRetrieved() && unchanged(m.comp.State.CurrentTransaction.PendingRead) && bufSame(m)
//@   label C23.dready.retrieved
//@   ensures result ==> retrievedOne(srcP(m))
//@   label C23.dready.acked
//@   ensures result ==> (forall k uint64 :: (k in m.comp.State.CurrentTransaction.PendingRead) <==> old(k in m.comp.State.CurrentTransaction.PendingRead) && k != old(rdKey(m)))
//@   label C23.dready.orphan
//@   ensures result && !old(rdMatched(m)) ==> bufSame(m)
//@   label C23.dready.stored
//@   ensures old(rdMatched(m)) ==> m.comp.State.Buffer.Chunks[old(rdSlot(m))].Valid && len(m.comp.State.Buffer.Chunks[old(rdSlot(m))].Data) == old(len(rdRsp(headOf(srcP(m))).Data)) && bufOff(m) + old(rdSlot(m)) * bufG(m) == old(rdOff(m))
//@   label C23.dready.bytes
//@   ensures old(rdMatched(m)) ==> (forall b in 0..bufG(m) :: m.comp.State.Buffer.Chunks[old(rdSlot(m))].Data[b] == old(rdRsp(headOf(srcP(m))).Data)[b])
//@   label C23.dready.others
//@   ensures old(rdMatched(m)) ==> len(m.comp.State.Buffer.Chunks) == max(old(len(m.comp.State.Buffer.Chunks)), old(rdSlot(m)) + 1) && (forall i in 0..old(len(m.comp.State.Buffer.Chunks)) :: i != old(rdSlot(m)) ==> m.comp.State.Buffer.Chunks[i].Valid == old(m.comp.State.Buffer.Chunks[i].Valid) && ref(m.comp.State.Buffer.Chunks[i].Data) == old(ref(m.comp.State.Buffer.Chunks[i].Data)))
//@   label C23.dready.frame
//@   ensures transSame(m) && nothingSent() && bufOff(m) == old(bufOff(m)) && bufG(m) == old(bufG(m)) && (active(m) ==> bufInv(m))
//@   assigns m.comp.State.Buffer.Chunks, elems(m.comp.State.Buffer.Chunks), elems(m.comp.State.CurrentTransaction.PendingRead), inTyp, inVal, retrCnt

//@ fn resolveByteGranularity
//@   property C23
//@   panics !sideOK(side)
//@   label C23.gran
//@   ensures result == (side == "inside" ? spec.InsideByteGranularity : spec.OutsideByteGranularity)
//@   assigns nothing

// ---- one control tick: at most one acknowledgment and at most one admission; a request is admitted only if no move was
// active or the active one has just been acknowledged; a paused data mover does nothing ----
//@ fn (*ctrlParseMW).Tick
//@   property C23
//@   requires dmWF(m) && idGenOK()
//@   requires active(m) ==> srcG(m) > 0 && dstA(m) + bsz(m) <= MaxUint64
//@   panics any
//@   label C23.tick.oneack
//@   ensures sendCnt == old(sendCnt) || oneMoreSent(topP(m))
//@   label C23.tick.ackwhen
//@   ensures sendCnt != old(sendCnt) ==> old(active(m) && nwa(m) >= dstA(m) + bsz(m) && pendR(m) == 0 && pendW(m) == 0)
//@   label C23.tick.oneadmit
//@   ensures retrCnt == old(retrCnt) || retrievedOne(topP(m))
//@   label C23.tick.admitidle
//@   ensures retrCnt != old(retrCnt) ==> !old(active(m)) || sendCnt != old(sendCnt)
//@   label C23.tick.paused
//@   ensures old(m.comp.State.ControlState == memcontrolprotocol.StatePaused) ==> !result && transSame(m) && bufSame(m) && nothingSent() && nothingRetrieved()
//@   label C23.tick.ids
//@   ensures idGenOK() && issuedGrows()
//@   assigns m.comp.State.SrcSide, m.comp.State.DstSide, m.comp.State.SrcByteGranularity, m.comp.State.DstByteGranularity, m.comp.State.CurrentTransaction, m.comp.State.Buffer, inTyp, inVal, retrCnt, canSend, sendCnt, sentTyp, sentVal, issued, key("G|github.com/sarchlab/akita/v5/timing.idGenerator|"), key("G|github.com/sarchlab/akita/v5/timing.idGeneratorInstantiated|"), key("O|timing.sequentialIDGenerator|nextID"), key("O|timing.parallelIDGenerator|nextID")
