//go:build verif

// Contracts for package datamover, property C23 (comment-only; read by /verif/engine, never compiled into a build).
// C23: data movers copy exactly the requested range; one acknowledgment per move; one move at a time in arrival order.
//
// View of the chunk buffer: a partial map from transaction-relative offsets to bytes, written in (slot, in-slot) coordinates:
// the byte at relative offset  bs.Offset + j*bs.Granularity + b  (0 <= b < Granularity) is DEFINED iff j < len(Chunks) and
// Chunks[j].Valid, and then its value is Chunks[j].Data[b]. (Bytes below bs.Offset are forgotten.)
package datamover

// ---- the chunk buffer ----
// every valid chunk holds exactly one granule of bytes
//@ pred bufWF(bs) = bs != nil && bs.Granularity > 0 && (forall i in 0..len(bs.Chunks) :: bs.Chunks[i].Valid ==> len(bs.Chunks[i].Data) == bs.Granularity)
//@ func slotOf(bs, offset) = (offset - bs.Offset) / bs.Granularity
//@ pred sameChunk(bs, i, j) = bs.Chunks[i].Valid == old(bs.Chunks[j].Valid) && ref(bs.Chunks[i].Data) == old(ref(bs.Chunks[j].Data)) && off(bs.Chunks[i].Data) == old(off(bs.Chunks[j].Data)) && len(bs.Chunks[i].Data) == old(len(bs.Chunks[j].Data))

//@ fn alignAddress
//@   property C23
//@   panics granularity == 0
//@   label C23.align
//@   ensures result == addr - addr % granularity
//@   assigns nothing

//@ fn addressMustBeAligned
//@   property C23
//@   panics granularity == 0 || addr % granularity != 0
//@   assigns nothing

// adding data defines exactly the bytes of slot (offset-Offset)/Granularity; no other byte of the view changes
//@ fn bufferAddData
//@   property C23
//@   requires bufWF(bs) && offset >= bs.Offset && len(data) == bs.Granularity
//@   panics offset % bs.Granularity != 0
//@   label C23.add.len
//@   ensures len(bs.Chunks) == max(old(len(bs.Chunks)), old(slotOf(bs, offset)) + 1)
//@   label C23.add.defined
//@   ensures bs.Chunks[old(slotOf(bs, offset))].Valid && len(bs.Chunks[old(slotOf(bs, offset))].Data) == len(data)
//@   label C23.add.bytes
//@   ensures forall b in 0..len(data) :: bs.Chunks[old(slotOf(bs, offset))].Data[b] == data[b]
//@   label C23.add.copy
//@   ensures fresh(bs.Chunks[old(slotOf(bs, offset))].Data)
//@   label C23.add.others
//@   ensures forall i in 0..old(len(bs.Chunks)) :: i != old(slotOf(bs, offset)) ==> sameChunk(bs, i, i)
//@   label C23.add.gap
//@   ensures forall i in old(len(bs.Chunks))..old(slotOf(bs, offset)) :: !bs.Chunks[i].Valid
//@   label C23.add.frame
//@   ensures bs.Offset == old(bs.Offset) && bs.Granularity == old(bs.Granularity) && bufWF(bs)
//@   assigns bs.Chunks, elems(bs.Chunks)
//@   loop 0: invariant i == len(bs.Chunks) && old(len(bs.Chunks)) <= i && i <= max(old(len(bs.Chunks)), slot + 1)
//@   loop 0: invariant forall j in 0..old(len(bs.Chunks)) :: sameChunk(bs, j, j)
//@   loop 0: invariant forall j in old(len(bs.Chunks))..i :: !bs.Chunks[j].Valid
//@   loop 0: invariant bs.Offset == old(bs.Offset) && bs.Granularity == old(bs.Granularity)
//@   loop 0: invariant (ref(bs.Chunks) == old(ref(bs.Chunks)) && off(bs.Chunks) == old(off(bs.Chunks))) || fresh(bs.Chunks)
