//go:build verif

// Contracts for package datamover, property C18 (comment-only; read by /verif/engine, never compiled into a build).
// C18 (per-step part): the control middleware answers each control request exactly once, echoing its command / ID / source,
// refuses unsupported verbs, and moves ControlState as mem/CONTROL_PROTOCOL.md says.
// View: the "Control" port's incoming head is the request being handled; m.comp.State.ControlState is the lifecycle state;
// m.comp.State.CurrentTransaction is the in-flight bookkeeping (quiescent <==> !Active).
// The ghost port view, the trusted port/ID-generator contracts and idGenOK are those of the C23 file / mem/rob.
package datamover

// ---- views (c18-prefixed: no clash with the package's other contract files) ----
//@ func c18Port(m, n) = m.comp.TickingComponent.PortOwnerBase.ports[n]
//@ func c18Ctl(m) = ifaceval(c18Port(m, "Control"))
//@ func c18SentAt(p, n) = mkiface(sentTyp[p][n], sentVal[p][n])
//@ func c18Last(p) = c18SentAt(p, sendCnt[p] - 1)
//@ func c18Rsp(p) = as(c18Last(p), "memcontrolprotocol.Rsp")
//@ pred c18IsRsp(x) = hastype(x, "memcontrolprotocol.Rsp")
//@ pred c18OneSent(p) = sendCnt == upd(old(sendCnt), p, old(sendCnt)[p] + 1) && sentTyp == upd(old(sentTyp), p, upd(old(sentTyp)[p], old(sendCnt)[p], sentTyp[p][old(sendCnt)[p]])) && sentVal == upd(old(sentVal), p, upd(old(sentVal)[p], old(sendCnt)[p], sentVal[p][old(sendCnt)[p]]))
//@ pred c18NoSend() = sendCnt == old(sendCnt) && sentTyp == old(sentTyp) && sentVal == old(sentVal) && canSend == old(canSend)
//@ pred c18NoRetr() = inTyp == old(inTyp) && inVal == old(inVal) && retrCnt == old(retrCnt)
//@ pred c18OneRetr(p) = retrCnt == upd(old(retrCnt), p, old(retrCnt)[p] + 1)
//@ func c18Head(p) = mkiface(inTyp[p], inVal[p])
//@ pred c18IsReq(x) = hastype(x, "memcontrolprotocol.Req")
//@ func c18Req(x) = as(x, "memcontrolprotocol.Req")
//@ pred c18Supported(c) = c == memcontrolprotocol.CmdPause || c == memcontrolprotocol.CmdDrain || c == memcontrolprotocol.CmdEnable || c == memcontrolprotocol.CmdReset
// the response sent last on the control port answers (cmd, id, src) with (success, err)
//@ pred c18Answers(m, cmd, id, src, success, err) = c18IsRsp(c18Last(c18Ctl(m))) && c18Rsp(c18Ctl(m)).Command == cmd && c18Rsp(c18Ctl(m)).RspTo == id && c18Rsp(c18Ctl(m)).Dst == src && c18Rsp(c18Ctl(m)).Success == success && c18Rsp(c18Ctl(m)).Error == err
//@ pred c18WF(m) = m.comp != nil && m.comp.TickingComponent != nil && m.comp.TickingComponent.PortOwnerBase != nil && ("Control" in m.comp.TickingComponent.PortOwnerBase.ports) && m != nil && ("Top" in m.comp.TickingComponent.PortOwnerBase.ports) && ("Inside" in m.comp.TickingComponent.PortOwnerBase.ports) && ("Outside" in m.comp.TickingComponent.PortOwnerBase.ports) && c18Ctl(m) != c18P(m, "Top") && c18Ctl(m) != c18P(m, "Inside") && c18Ctl(m) != c18P(m, "Outside")
//@ pred c18Quiet(m) = !m.comp.State.CurrentTransaction.Active
//@ pred c18Kept(m) = unchanged(m.comp.State.ControlState) && unchanged(m.comp.State.CurrentCmdID) && unchanged(m.comp.State.CurrentCmdSrc) && unchanged(m.comp.State.CurrentTransaction.Active) && unchanged(m.comp.State.CurrentTransaction.ReqID)

//@ fn (*ctrlMiddleware).ctrlPort
//@   property C18
//@   requires c18WF(m)
//@   label C18.datamover.ctrlport
//@   ensures result == c18Port(m, "Control")
//@   assigns nothing

//@ fn makeCtrlRsp
//@   property C18
//@   requires idGenOK()
//@   label C18.datamover.mkrsp.fields
//@   ensures result.Command == cmd && result.Success == success && result.Error == errStr && result.Dst == dst && result.RspTo == rspTo
//@   label C18.datamover.mkrsp.idgen
//@   ensures idGenOK()
//@   assigns issued, key("G|github.com/sarchlab/akita/v5/timing.idGenerator|"), key("G|github.com/sarchlab/akita/v5/timing.idGeneratorInstantiated|"), key("O|timing.sequentialIDGenerator|nextID"), key("O|timing.parallelIDGenerator|nextID")

// ---- sync verbs: handled only when the control port can send; then ONE response and the request leaves the head ----
//@ fn (*ctrlMiddleware).handlePause
//@   property C18
//@   requires c18WF(m) && idGenOK() && inTyp[c18Ctl(m)] != 0
//@   label C18.datamover.pause.progress
//@   ensures result <==> old(canSend[c18Ctl(m)])
//@   label C18.datamover.pause.once
//@   ensures result ==> c18OneSent(c18Ctl(m)) && c18OneRetr(c18Ctl(m))
//@   label C18.datamover.pause.blocked
//@   ensures !result ==> c18NoSend() && c18NoRetr() && c18Kept(m)
//@   label C18.datamover.pause.echo
//@   ensures result ==> c18Answers(m, memcontrolprotocol.CmdPause, req.ID, req.Src, true, "")
//@   label C18.datamover.pause.state
//@   ensures result ==> m.comp.State.ControlState == memcontrolprotocol.StatePaused && unchanged(m.comp.State.CurrentTransaction.Active) && unchanged(m.comp.State.CurrentTransaction.ReqID)
//@   label C18.datamover.pause.idgen
//@   ensures idGenOK()
//@   assigns m.comp.State.ControlState, canSend, sendCnt, sentTyp, sentVal, inTyp, inVal, retrCnt, issued, key("G|github.com/sarchlab/akita/v5/timing.idGenerator|"), key("G|github.com/sarchlab/akita/v5/timing.idGeneratorInstantiated|"), key("O|timing.sequentialIDGenerator|nextID"), key("O|timing.parallelIDGenerator|nextID")

//@ fn (*ctrlMiddleware).handleEnable
//@   property C18
//@   requires c18WF(m) && idGenOK() && inTyp[c18Ctl(m)] != 0
//@   label C18.datamover.enable.progress
//@   ensures result <==> old(canSend[c18Ctl(m)])
//@   label C18.datamover.enable.once
//@   ensures result ==> c18OneSent(c18Ctl(m)) && c18OneRetr(c18Ctl(m))
//@   label C18.datamover.enable.blocked
//@   ensures !result ==> c18NoSend() && c18NoRetr() && c18Kept(m)
//@   label C18.datamover.enable.echo
//@   ensures result ==> c18Answers(m, memcontrolprotocol.CmdEnable, req.ID, req.Src, true, "")
//@   label C18.datamover.enable.state
//@   ensures result ==> m.comp.State.ControlState == memcontrolprotocol.StateEnabled && unchanged(m.comp.State.CurrentTransaction.Active) && unchanged(m.comp.State.CurrentTransaction.ReqID)
//@   label C18.datamover.enable.idgen
//@   ensures idGenOK()
//@   assigns m.comp.State.ControlState, canSend, sendCnt, sentTyp, sentVal, inTyp, inVal, retrCnt, issued, key("G|github.com/sarchlab/akita/v5/timing.idGenerator|"), key("G|github.com/sarchlab/akita/v5/timing.idGeneratorInstantiated|"), key("O|timing.sequentialIDGenerator|nextID"), key("O|timing.parallelIDGenerator|nextID")

//@ fn (*ctrlMiddleware).handleUnsupported
//@   property C18
//@   requires c18WF(m) && idGenOK() && inTyp[c18Ctl(m)] != 0
//@   label C18.datamover.unsupported.progress
//@   ensures result <==> old(canSend[c18Ctl(m)])
//@   label C18.datamover.unsupported.once
//@   ensures result ==> c18OneSent(c18Ctl(m)) && c18OneRetr(c18Ctl(m))
//@   label C18.datamover.unsupported.blocked
//@   ensures !result ==> c18NoSend() && c18NoRetr() && c18Kept(m)
//@   label C18.datamover.unsupported.echo
//@   ensures result ==> c18Answers(m, req.Command, req.ID, req.Src, false, memcontrolprotocol.ErrUnsupported)
//@   label C18.datamover.unsupported.state
//@   ensures c18Kept(m)
//@   label C18.datamover.unsupported.idgen
//@   ensures idGenOK()
//@   assigns canSend, sendCnt, sentTyp, sentVal, inTyp, inVal, retrCnt, issued, key("G|github.com/sarchlab/akita/v5/timing.idGenerator|"), key("G|github.com/sarchlab/akita/v5/timing.idGeneratorInstantiated|"), key("O|timing.sequentialIDGenerator|nextID"), key("O|timing.parallelIDGenerator|nextID")

// ---- drain: accepted silently (no response yet); the request's ID and source are remembered for the deferred ack ----
//@ fn (*ctrlMiddleware).handleDrain
//@   property C18
//@   requires c18WF(m) && inTyp[c18Ctl(m)] != 0
//@   label C18.datamover.drain.accept
//@   ensures result && c18NoSend() && c18OneRetr(c18Ctl(m))
//@   label C18.datamover.drain.remember
//@   ensures m.comp.State.ControlState == memcontrolprotocol.StateDraining && m.comp.State.CurrentCmdID == req.ID && m.comp.State.CurrentCmdSrc == req.Src && unchanged(m.comp.State.CurrentTransaction.Active) && unchanged(m.comp.State.CurrentTransaction.ReqID)
//@   assigns m.comp.State.ControlState, m.comp.State.CurrentCmdID, m.comp.State.CurrentCmdSrc, inTyp, inVal, retrCnt

//@ func c18P(m, n) = ifaceval(c18Port(m, n))
//@ fn (*ctrlMiddleware).topPort
//@   property C18
//@   requires c18WF(m)
//@   label C18.datamover.topport
//@   ensures result == c18Port(m, "Top")
//@   assigns nothing
//@ fn (*ctrlMiddleware).insidePort
//@   property C18
//@   requires c18WF(m)
//@   label C18.datamover.insideport
//@   ensures result == c18Port(m, "Inside")
//@   assigns nothing
//@ fn (*ctrlMiddleware).outsidePort
//@   property C18
//@   requires c18WF(m)
//@   label C18.datamover.outsideport
//@   ensures result == c18Port(m, "Outside")
//@   assigns nothing

// ---- deferred drain ack: only when quiescent (c18Quiet) and the port can send; lands in Paused ----
//@ fn (*ctrlMiddleware).completePendingDrain
//@   property C18
//@   requires c18WF(m) && idGenOK()
//@   label C18.datamover.drain.progress
//@   ensures result <==> old(m.comp.State.ControlState == memcontrolprotocol.StateDraining && c18Quiet(m) && canSend[c18Ctl(m)])
//@   label C18.datamover.drain.once
//@   ensures (result ==> c18OneSent(c18Ctl(m))) && c18NoRetr()
//@   label C18.datamover.drain.echo
//@   ensures result ==> c18Answers(m, memcontrolprotocol.CmdDrain, old(m.comp.State.CurrentCmdID), old(m.comp.State.CurrentCmdSrc), true, "")
//@   label C18.datamover.drain
//@   ensures result ==> m.comp.State.ControlState == memcontrolprotocol.StatePaused && c18Quiet(m) && unchanged(m.comp.State.CurrentTransaction.Active) && unchanged(m.comp.State.CurrentTransaction.ReqID)
//@   label C18.datamover.drain.wait
//@   ensures !result ==> c18NoSend() && c18Kept(m)
//@   label C18.datamover.drain.idgen
//@   ensures idGenOK()
//@   assigns m.comp.State.ControlState, m.comp.State.CurrentCmdID, m.comp.State.CurrentCmdSrc, canSend, sendCnt, sentTyp, sentVal, issued, key("G|github.com/sarchlab/akita/v5/timing.idGenerator|"), key("G|github.com/sarchlab/akita/v5/timing.idGeneratorInstantiated|"), key("O|timing.sequentialIDGenerator|nextID"), key("O|timing.parallelIDGenerator|nextID")

// NOT under contract here (blocked): handleReset, handleIncoming, Tick. handleReset calls endInflightTasks, whose contract lives in the
// package's C03 file; at call sites its loop ghost `posR = SortedKeys_pos` gets sort Int and the engine stops with
// "spec error: cannot index main.Sc". The generated contracts for the three functions are kept out of the tree until that is fixed.
